import sys, warnings, logging
sys.path.insert(0,'/repo/src')
warnings.simplefilter("ignore"); logging.disable(logging.CRITICAL)
from cobra import Model, Reaction, Metabolite
import swiglpk as g
def dump(model):
    model.solver.update()
    p=model.solver.problem
    n=g.glp_get_num_cols(p); m=g.glp_get_num_rows(p)
    cols={}
    for j in range(1,n+1):
        cols[g.glp_get_col_name(p,j)]=(g.glp_get_col_type(p,j),g.glp_get_col_lb(p,j),g.glp_get_col_ub(p,j),g.glp_get_col_kind(p,j),g.glp_get_obj_coef(p,j))
    rows={}
    for i in range(1,m+1):
        ia=g.intArray(n+1); da=g.doubleArray(n+1)
        k=g.glp_get_mat_row(p,i,ia,da)
        rows[g.glp_get_row_name(p,i)]=(g.glp_get_row_type(p,i),g.glp_get_row_lb(p,i),g.glp_get_row_ub(p,i),{g.glp_get_col_name(p,ia[t]):da[t] for t in range(1,k+1)})
    return cols,rows,g.glp_get_obj_dir(p)==g.GLP_MAX, g.glp_get_obj_coef(p,0)
m=Model("t"); A=Metabolite("A",compartment="c")
r=Reaction("R",lower_bound=-5,upper_bound=7); r.add_metabolites({A:2})
m.add_reactions([r]); m.objective="R"
print(dump(m))
r.bounds=(1,3); print(dump(m)[0])
r.bounds=(-3,-1); print(dump(m)[0])
r.bounds=(float("-inf"),float("inf")); print(dump(m)[0])
print(g.GLP_FR,g.GLP_LO,g.GLP_UP,g.GLP_DB,g.GLP_FX)
m.solver="glpk_exact"; print(type(m.solver)); print(dump(m)[0])
