import sys, warnings, logging
sys.path.insert(0,'/repo/src')
warnings.simplefilter("ignore"); logging.disable(logging.CRITICAL)
from cobra import Model, Reaction, Metabolite
from cobra.manipulation import remove_genes
m=Model("t"); A=Metabolite("A_c",compartment="c"); r=Reaction("R1"); r.add_metabolites({A:1}); r.gene_reaction_rule="g1 and g2"; m.add_reactions([r])
remove_genes(m,["g1"],remove_reactions=False)
print(repr(r.gene_reaction_rule), sorted(r.gpr.genes), r.gpr.body, r.gpr.eval(), sorted(g.id for g in r.genes))
