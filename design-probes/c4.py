import sys, warnings, logging
sys.path.insert(0,'/repo/src')
warnings.simplefilter("ignore"); logging.disable(logging.CRITICAL)
from cobra.io.sbml import _f_specie, _f_specie_rev, _f_gene, _f_gene_rev
for s in ["a__45__b","a__4-","_1__a","a-b","a.b","__5","x__12","M_x","G_g"]:
    print(" ",repr(s),"->",repr(_f_specie_rev(s)),"->",repr(_f_specie(_f_specie_rev(s))), "| gene:",repr(_f_gene(_f_gene_rev(s))))
