import sys, warnings, logging
sys.path.insert(0,'/repo/src')
warnings.simplefilter("ignore")
logging.disable(logging.CRITICAL)
import cobra
from cobra import Model, Reaction, Metabolite, Gene
from cobra.manipulation import remove_genes
def toy():
    m=Model("toy")
    A=Metabolite("A_e",compartment="e"); B=Metabolite("B_c",compartment="c"); C=Metabolite("C_c",compartment="c")
    ex=Reaction("EX_A",lower_bound=-10,upper_bound=1000); ex.add_metabolites({A:-1})
    r1=Reaction("R1",lower_bound=0,upper_bound=1000); r1.add_metabolites({A:-1,B:1}); r1.gene_reaction_rule="g1 and g2"
    r2=Reaction("R2",lower_bound=-1000,upper_bound=1000); r2.add_metabolites({B:-1,C:1}); r2.gene_reaction_rule="g2 or g3"
    dm=Reaction("DM_C",lower_bound=0,upper_bound=1000); dm.add_metabolites({C:-1})
    m.add_reactions([ex,r1,r2,dm]); m.objective="DM_C"
    return m
print("== 1 copy sharing")
m=toy(); m.compartments={"c":"cyto"}; c=m.copy(); c.compartments={"c":"CHANGED"}; print(" orig compartments after editing copy:",m.compartments)
m=toy(); m.metabolites.A_e.annotation["k"]="v"; c=m.copy(); c.metabolites.A_e.annotation["k2"]="x"; print(" orig met annotation:",m.metabolites.A_e.annotation)
c.metabolites.A_e.notes["n"]=1; print(" orig met notes:",m.metabolites.A_e.notes)
c.genes.g1.annotation["z"]=1; print(" orig gene annotation:", m.genes.g1.annotation)
c.reactions.R1.annotation["z"]=1; print(" orig rxn annotation:", m.reactions.R1.annotation)
print("== 2 remove_genes remove_reactions=False")
m=toy(); remove_genes(m,["g1"],remove_reactions=False); r=m.reactions.R1
print(" R1 rule:",repr(r.gene_reaction_rule)," R1.genes:",[g.id for g in r.genes]," g2.reactions:",sorted(x.id for x in m.genes.g2.reactions))
print("== 3 imul nested ctx")
m=toy()
with m:
    with m:
        m.reactions.R1 *= 2
    print(" after inner exit:",m.reactions.R1.reaction)
print(" after outer exit:",m.reactions.R1.reaction, m.constraints["A_e"].expression)
print("== 4 add_metabolites combine=False in ctx, new met")
m=toy()
try:
    with m:
        m.reactions.R1.add_metabolites({m.metabolites.C_c:1},combine=False)
except Exception as e: print(" raised",type(e).__name__,e)
print(" after:",m.reactions.R1.reaction)
print("== 10 gene.id direct")
m=toy(); m.genes.g1.id="gX"; print(" has gX:", "gX" in m.genes, " has g1:", "g1" in m.genes, " R1 rule:", m.reactions.R1.gene_reaction_rule)
