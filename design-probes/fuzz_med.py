import sys, warnings, logging, random, math, itertools
sys.path.insert(0,'/repo/src'); sys.path.insert(0,'/verif/design-probes')
warnings.simplefilter("ignore"); logging.disable(logging.CRITICAL)
exec(open('/verif/design-probes/fuzz_lp.py').read().split("TOL=1e-6")[0])
from cobra.medium import minimal_medium
from cobra.flux_analysis import loopless_solution
from cobra.sampling import sample, ACHRSampler, OptGPSampler
TOL=1e-6
def close(a,b): return abs(a-b)<=TOL*max(1,abs(a),abs(b))
issues={}
def rep(kind,seed,msg):
    issues.setdefault(kind,[])
    if len(issues[kind])<3: issues[kind].append((seed,msg))
nmm=0
for seed in range(400):
    rng=random.Random(seed); m=gen(rng)
    ex=m.exchanges
    # medium get/set
    for trial in range(3):
        mm=m.copy(); exs=mm.exchanges
        before={r.id:r.bounds for r in mm.reactions}
        sub=[r for r in exs if rng.random()<0.6]
        med={r.id:rng.choice([0,0.5,3,1000]) for r in sub}
        try: mm.medium=med
        except ValueError as e: continue
        got=mm.medium; exp={k:v for k,v in med.items() if v>0}
        if got!=exp: rep("medium-get-set",seed,f"set {med} got {got} bounds before {[(r.id,before[r.id],r.reaction) for r in exs]}")
        for r in mm.reactions:
            b0=before[r.id]; b1=r.bounds
            if r not in exs:
                if b0!=b1: rep("medium-touches-nonexchange",seed,f"{r.id} {b0}->{b1}")
            else:
                exportwritten=bool(r.reactants)
                imp0,exp0=(-b0[0],b0[1]) if exportwritten else (b0[1],-b0[0])
                imp1,exp1=(-b1[0],b1[1]) if exportwritten else (b1[1],-b1[0])
                if exp0!=exp1: rep("medium-export-changed",seed,f"{r.id} {b0}->{b1}")
                if r.id in med:
                    if imp1!=med[r.id]: rep("medium-import-value",seed,f"{r.id} {b0}->{b1} med {med[r.id]}")
                elif imp1>0 or (imp1!=min(0,imp0)): rep("medium-not-closed",seed,f"{r.id} {b0}->{b1}")
    # minimal medium (linear), max objective
    rx,idx,S,lb,ub,c,ismax=from_model(m)
    st,opt,x=solve(S,lb,ub,c,ismax)
    if st!="optimal" or not ismax or not ex: continue
    for target in ([opt*0.5] if opt>0 else [])+[opt+1]:
        try: med=minimal_medium(m,min_objective_value=target)
        except Exception as e: rep("minmed-raise",seed,f"{type(e).__name__} {str(e)[:80]}"); continue
        nmm+=1
        # oracle: min total import s.t. c v >= target  (split import part): import_j = max(0, -v_j) for export-written, max(0,v_j) for import-written
        n=len(rx); extra=[]; cost=[0]*(n+len(ex)); lb2=lb+[0]*len(ex); ub2=ub+[INF]*len(ex)
        S2={k:dict(v) for k,v in S.items()}
        for t,r in enumerate(ex):
            j=idx[r.id]; sgn=-1 if r.reactants else 1
            extra.append(({n+t:1,j:-sgn},0,INF))   # imp_t >= sgn*v_j
            cost[n+t]=1
        extra.append(({j:cj for j,cj in enumerate(c) if cj},target,INF))
        s,val,_=solve(S2,lb2,ub2,cost,False,extra)
        if s!="optimal":
            if med is not None: rep("minmed-should-be-none",seed,f"target {target} oracle {s} cobra {dict(med)}")
        else:
            if med is None: rep("minmed-none-but-feasible",seed,f"target {target} oracle {val}")
            else:
                tot=float(med.sum()) if len(med) else 0.0
                if abs(tot-val)>1e-5*max(1,abs(val)): rep("minmed-total",seed,f"target {target} cobra total {tot} {dict(med)} oracle {val}")
                # sufficiency
                mm=m.copy(); 
                try:
                    mm.medium={k:float(v) for k,v in med.items()}
                    g_=mm.slim_optimize()
                    if not (g_>=target-1e-5): rep("minmed-insufficient",seed,f"target {target} growth with medium {g_} medium {dict(med)}")
                except Exception as e: rep("minmed-apply-raise",seed,f"{type(e).__name__} {str(e)[:60]} {dict(med)}")
print("minimal_medium calls",nmm)
for k,v in issues.items():
    print("##",k)
    for s_,msg in v: print("   seed",s_,msg)
print(len(issues),"issue kinds")
