import sys
exec(open('/verif/design-probes/fuzz_core.py').read().split("found={}")[0])
def snap(m):
    cols,rows,ismax=dump(m)
    return dict(
      rx=sorted((r.id,r.lower_bound,r.upper_bound,tuple(sorted((x.id,c) for x,c in r.metabolites.items())),r.gene_reaction_rule,tuple(sorted(g.id for g in r.genes)), r.model is m) for r in m.reactions),
      me=sorted((x.id,tuple(sorted(r.id for r in x.reactions)), x.model is m) for x in m.metabolites),
      ge=sorted((x.id,x.functional,tuple(sorted(r.id for r in x.reactions)), x.model is m) for x in m.genes),
      cols=cols,rows=rows,ismax=ismax, obj=str(sorted((k.name,float(v)) for k,v in m.objective.expression.as_coefficients_dict().items() if hasattr(k,'name'))))
found={}
for seed in range(3000):
    rng=random.Random(seed); m=build(rng)
    for _ in range(rng.randrange(3)):
        try: rand_op(rng,m,90+_)
        except Exception: pass
    if check(m): continue   # start only from consistent states
    try: before=snap(m)
    except Exception as ex: continue
    hist=[]; exit_err=None
    depth=rng.choice([1,1,2])
    try:
        m.__enter__()
        if depth==2: m.__enter__()
        for step in range(rng.randrange(1,4)):
            try: d=rand_op(rng,m,step)
            except Exception as ex: d=f"RAISED {type(ex).__name__}"
            hist.append(d)
        if depth==2: m.__exit__(None,None,None)
        m.__exit__(None,None,None)
    except Exception as ex:
        exit_err=f"exit raised {type(ex).__name__}: {str(ex)[:60]}"
    try:
        after=snap(m); diff=[k for k in before if before[k]!=after[k]]
    except Exception as ex: diff=[f"snap raised {type(ex).__name__}"]
    if exit_err or diff:
        ops=tuple(sorted(set(h.split("(")[0].split("=")[0].split(".")[-1][:18] if not h.startswith("RAISED") else h for h in hist)))
        key=(depth,ops)
        if key not in found: found[key]=(seed,hist,exit_err,diff)
# report minimal (single-op) ones first
for k,v in sorted(found.items(), key=lambda kv:(len(kv[1][1]),kv[0][0])):
    if len(v[1])==1: print(k,"seed",v[0],v[1],v[2],v[3])
print(len(found),"failure kinds;", sum(1 for v in found.values() if len(v[1])==1),"single-op")
