import sys, warnings, logging, random, math, traceback
sys.path.insert(0,'/repo/src')
warnings.simplefilter("ignore"); logging.disable(logging.CRITICAL)
from cobra import Model, Reaction, Metabolite, Gene
from cobra.manipulation import remove_genes
import swiglpk as g
INF=float("inf")
def dump(model):
    model.solver.update()
    p=model.solver.problem
    n=g.glp_get_num_cols(p); m=g.glp_get_num_rows(p)
    cols={}
    for j in range(1,n+1):
        t=g.glp_get_col_type(p,j); lb=g.glp_get_col_lb(p,j); ub=g.glp_get_col_ub(p,j)
        if t==g.GLP_FR: lb,ub=-INF,INF
        elif t==g.GLP_LO: ub=INF
        elif t==g.GLP_UP: lb=-INF
        cols[g.glp_get_col_name(p,j)]=(lb,ub,g.glp_get_col_kind(p,j),g.glp_get_obj_coef(p,j))
    rows={}
    ia=g.intArray(n+1); da=g.doubleArray(n+1)
    for i in range(1,m+1):
        k=g.glp_get_mat_row(p,i,ia,da)
        t=g.glp_get_row_type(p,i); lb=g.glp_get_row_lb(p,i); ub=g.glp_get_row_ub(p,i)
        if t==g.GLP_FR: lb,ub=-INF,INF
        elif t==g.GLP_LO: ub=INF
        elif t==g.GLP_UP: lb=-INF
        rows[g.glp_get_row_name(p,i)]=(lb,ub,{g.glp_get_col_name(p,ia[t_]):da[t_] for t_ in range(1,k+1) if da[t_]!=0})
    return cols,rows,g.glp_get_obj_dir(p)==g.GLP_MAX
def fwdrev(lb,ub):
    if lb>0: return (lb,ub),(0,0)
    if ub<0: return (0,0),(-ub,-lb)
    return (0,ub),(0,-lb)
def check(model,user=()):
    errs=[]
    cols,rows,ismax=dump(model)
    exp_cols={}; exp_rows={m.id:{} for m in model.metabolites}
    for r in model.reactions:
        f,rv=fwdrev(r.lower_bound,r.upper_bound)
        exp_cols[r.id]=f; exp_cols[r.reverse_id]=rv
        for m,c in r.metabolites.items():
            if m.id not in exp_rows: errs.append(f"rxn {r.id} has met {m.id} not in model"); continue
            exp_rows[m.id][r.id]=c; exp_rows[m.id][r.reverse_id]=-c
    for name,(lb,ub) in exp_cols.items():
        if name not in cols: errs.append(f"missing col {name}"); continue
        if (cols[name][0],cols[name][1])!=(lb,ub): errs.append(f"col {name} bounds {cols[name][:2]} != {(lb,ub)}")
    for name in cols:
        if name not in exp_cols and name not in user: errs.append(f"extra col {name}")
    for name,co in exp_rows.items():
        if name not in rows: errs.append(f"missing row {name}"); continue
        if rows[name][2]!=co or rows[name][:2]!=(0,0): errs.append(f"row {name} {rows[name]} != {co}")
    for name in rows:
        if name not in exp_rows and name not in user: errs.append(f"extra row {name}")
    # WF
    for r in model.reactions:
        if r.model is not model: errs.append(f"rxn {r.id} model ptr")
        if model.reactions.get_by_id(r.id) is not r: errs.append(f"rxn {r.id} lookup")
        for m in r.metabolites:
            if m.id not in model.metabolites or model.metabolites.get_by_id(m.id) is not m: errs.append(f"rxn {r.id} met {m.id} identity")
            if r not in m.reactions: errs.append(f"met {m.id} missing backref {r.id}")
        for ge in r.genes:
            if ge.id not in model.genes or model.genes.get_by_id(ge.id) is not ge: errs.append(f"rxn {r.id} gene {ge.id} identity")
            if r not in ge.reactions: errs.append(f"gene {ge.id} missing backref {r.id}")
        if {x.id for x in r.genes}!=set(r.gpr.genes): errs.append(f"rxn {r.id} genes {sorted(x.id for x in r.genes)} != rule {sorted(r.gpr.genes)}")
        if any(c==0 for c in r.metabolites.values()): errs.append("zero coef")
    for m in model.metabolites:
        if m.model is not model: errs.append(f"met {m.id} model ptr")
        for r in m.reactions:
            if r.id not in model.reactions or model.reactions.get_by_id(r.id) is not r or m not in r.metabolites: errs.append(f"met {m.id} stale backref {r.id}")
    for ge in model.genes:
        if ge.model is not model: errs.append(f"gene {ge.id} model ptr")
        for r in ge.reactions:
            if r.id not in model.reactions or model.reactions.get_by_id(r.id) is not r or ge not in r.genes: errs.append(f"gene {ge.id} stale backref {r.id}")
    for dl in (model.reactions,model.metabolites,model.genes):
        if dl._dict!={o.id:i for i,o in enumerate(dl)}: errs.append("dictlist index")
    return errs
RULES=["","g1","g1 and g2","g1 or g2","(g1 and g2) or g3","g2 and (g1 or g3)"]
def build(rng):
    m=Model("t"); mets=[Metabolite(f"m{i}_c",compartment="c") for i in range(4)]
    rs=[]
    for i in range(4):
        lb=rng.choice([-10,0,-1000,2,-INF]); ub=rng.choice([10,1000,INF]) 
        r=Reaction(f"r{i}",lower_bound=lb,upper_bound=ub)
        r.add_metabolites({rng.choice(mets):rng.choice([-1,1,2,-0.5]) for _ in range(2)}); r.gene_reaction_rule=rng.choice(RULES)
        rs.append(r)
    m.add_reactions(rs); m.objective="r0"; return m
def rand_op(rng,m,cnt):
    k=rng.randrange(16)
    if not m.reactions: k=3
    r=rng.choice(m.reactions) if m.reactions else None
    if k==0: lb=rng.choice([-5,0,1,-INF,-1000]); ub=rng.choice([5,7,INF,0.5]); r.bounds=(lb,ub); return f"{r.id}.bounds=({lb},{ub})"
    if k==1:
        mt=rng.choice(list(m.metabolites)+[Metabolite(f"n{cnt}_c",compartment="c")]); c=rng.choice([-1,1,2,-2,0.5]); comb=rng.random()<0.7
        key=mt if rng.random()<0.7 else mt.id
        r.add_metabolites({key:c},combine=comb); return f"{r.id}.add_metabolites({mt.id}:{c},combine={comb},key={'obj' if key is mt else 'id'})"
    if k==2: r.lower_bound=rng.choice([-3,0,2,20]); return f"{r.id}.lower_bound"
    if k==3:
        nr=Reaction(f"x{cnt}",lower_bound=rng.choice([-10,0]),upper_bound=10); 
        mt=rng.choice(m.metabolites) if m.metabolites and rng.random()<0.8 else Metabolite(f"n{cnt}_c",compartment="c")
        if rng.random()<0.3 and m.metabolites: mt=mt.copy()
        nr.add_metabolites({mt:rng.choice([1,-1])}); nr.gene_reaction_rule=rng.choice(RULES+["g7 and g1"])
        m.add_reactions([nr]); return f"add_reactions({nr.id}: {nr.reaction}, {nr.gene_reaction_rule})"
    if k==4: ro=rng.random()<0.5; byid=rng.random()<0.5; m.remove_reactions([r.id if byid else r],remove_orphans=ro); return f"remove_reactions({r.id},orphans={ro})"
    if k==5 and m.metabolites: mt=rng.choice(m.metabolites); d=rng.random()<0.4; m.remove_metabolites([mt],destructive=d); return f"remove_metabolites({mt.id},destructive={d})"
    if k==6: rule=rng.choice(RULES+["g4 or g1"]); r.gene_reaction_rule=rule; return f"{r.id}.rule={rule!r}"
    if k==7: m.objective={r:rng.choice([1,2,-1])}; return f"objective={r.id}"
    if k==8: c=rng.choice([2,-1,0.5,-2]); r*=c; return f"{r.id}*={c}"
    if k==9 and len(m.reactions)>1: o=rng.choice(m.reactions); r+=o; return f"{r.id}+={o.id}"
    if k==10 and len(m.reactions)>1: o=rng.choice(m.reactions); r-=o; return f"{r.id}-={o.id}"
    if k==11: new=f"ren{cnt}"; r.id=new; return f"rename rxn -> {new}"
    if k==12 and m.metabolites: mt=rng.choice(m.metabolites); new=f"mren{cnt}_c"; mt.id=new; return f"rename met -> {new}"
    if k==13 and m.genes: ge=rng.choice(m.genes); rr=rng.random()<0.5; remove_genes(m,[ge],remove_reactions=rr); return f"remove_genes({ge.id},remove_reactions={rr})"
    if k==14 and m.genes: ge=rng.choice(m.genes); ge.knock_out(); return f"{ge.id}.knock_out()"
    if k==15: r.objective_coefficient=rng.choice([0,1,3]); return f"{r.id}.objective_coefficient"
    return "nop"
found={}
for seed in range(1500):
    rng=random.Random(seed); m=build(rng); hist=[]
    e=check(m)
    if e: print("initial",e); continue
    for step in range(10):
        try: d=rand_op(rng,m,step)
        except Exception as ex: d=f"RAISED {type(ex).__name__}: {str(ex)[:50]} in op"
        hist.append(d)
        try: e=check(m)
        except Exception as ex: e=[f"check raised {type(ex).__name__} {str(ex)[:80]}"]
        if e:
            key=(d.split("(")[0].split("=")[0][:25], e[0][:30])
            if key not in found:
                found[key]=(seed,hist[:],e[:3])
            break
for k,v in found.items(): print(k,"\n   seed",v[0],"\n   hist",v[1][-3:],"\n   errs",v[2])
print(len(found),"distinct failure kinds")
