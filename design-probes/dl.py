import sys
sys.path.insert(0,'/repo/src')
from cobra.core.dictlist import DictList
from cobra.core.object import Object
def mk(ids): 
    d=DictList(); 
    for i in ids: d.append(Object(i))
    return d
def coherent(d):
    ids=[o.id for o in d]
    ok = len(set(ids))==len(ids) and d._dict=={o.id:i for i,o in enumerate(d)}
    return ok, ids, dict(d._dict)
# 1 extend with duplicate
d=mk("abc")
try: d.extend([Object("x"),Object("a"),Object("y")])
except ValueError as e: print("extend raised",e)
print("after failing extend:",coherent(d))
# 2 insert negative
d=mk("abc"); d.insert(-1,Object("x")); print("insert -1:",coherent(d))
d=mk("abc"); d.insert(10,Object("x")); print("insert 10:",coherent(d))
# 3 setitem negative
d=mk("abc"); d[-1]=Object("x"); print("setitem -1:",coherent(d))
# 4 setitem dup raising
d=mk("abc")
try: d[0]=Object("b")
except ValueError as e: print("setitem raised")
print("after failing setitem:",coherent(d))
# 5 delitem negative
d=mk("abc"); del d[-2]; print("del -2:",coherent(d))
# 6 slice set dup
d=mk("abc")
try: d[0:1]=[Object("x"),Object("x")]
except ValueError as e: print("slice set raised")
print("after failing slice set:",coherent(d))
d=mk("abc")
try: d[0:1]=[Object("x"),Object("c")]
except ValueError as e: print("slice set raised 2")
print("after failing slice set2:",coherent(d))
# 7 isub partial
d=mk("abc")
try: d-=[d[0],Object("zz")]
except ValueError as e: print("isub raised")
print("after failing isub:",coherent(d))
# pop negative
d=mk("abcd"); d.pop(-2); print("pop -2:",coherent(d))
# += dup
d=mk("abc")
try: d+=[Object("q"),Object("q")]
except ValueError as e: print("iadd raised")
print("after failing iadd:",coherent(d))
# add dup
d=mk("abc")
try: d.add(Object("a"))
except ValueError as e: print("add raised")
print("after failing add:",coherent(d))
