import sys, warnings, logging, itertools, pickle, copy
sys.path.insert(0,'/repo/src')
warnings.simplefilter("ignore")
logging.disable(logging.CRITICAL)
from cobra.core.gene import GPR
ids=["a","b1","1abc","if","None","True","a.b","a-b","a:b","a/b","a'b",'a"b',"a=b","1.2","if.else","a.1","and1","or_","AND","OR","lambda","12","0x1","1e5","a-1","-a","a.","_a","a__COBRA_DOT__b","__cobra_escape__x","G_1","not","is","in", "a\\b","async","await","print","1_","9"]
bad=[]
for g in ids:
    for s in [g, f"{g} and x", f"x or {g}", f"({g} and x) or y", f"{g} AND x", f"x | {g}", f"{g} & x"]:
        try:
            r=GPR.from_string(s)
            genes=set(r.genes)
            exp={g}|({"x"} if "x" in s.replace(g,"") else set())|({"y"} if " y" in s else set())
            if genes!=exp: bad.append((s,"genes",sorted(genes)))
            # roundtrip
            r2=GPR.from_string(r.to_string())
            if set(r2.genes)!=genes: bad.append((s,"roundtrip genes",r.to_string(),sorted(r2.genes)))
            try:
                if not (r==r2): bad.append((s,"roundtrip neq",r.to_string()))
            except Exception as e: bad.append((s,"eq raised",type(e).__name__,str(e)[:50]))
        except Exception as e:
            bad.append((s,"raised",type(e).__name__,str(e)[:60]))
for b in bad: print(b)
print(len(bad),"issues")
