# scratch probe for C14 (not machinery): parallel vs serial, permuted item lists
import sys, warnings, logging, random, math
sys.path.insert(0,'/repo/src'); sys.path.insert(0,'/verif/design-probes')
warnings.simplefilter("ignore"); logging.disable(logging.CRITICAL)
exec(open('/verif/design-probes/fuzz_lp.py').read().split("TOL=1e-6")[0])
from cobra.flux_analysis import double_reaction_deletion, double_gene_deletion
from cobra.io import load_model
import numpy as np
bad=0; n=0
models=[gen(random.Random(s)) for s in range(12)]
try: models.append(load_model("textbook"))
except Exception as e: print("textbook unavailable",e)
for k,m in enumerate(models):
    if not (m.slim_optimize()==m.slim_optimize()) : continue
    if math.isnan(m.slim_optimize()): continue
    rng=random.Random(k); ids=[r.id for r in m.reactions][:20]; rng.shuffle(ids)
    a=flux_variability_analysis(m,reaction_list=ids,processes=1)
    for p in (2,3,5):
        b=flux_variability_analysis(m,reaction_list=sorted(ids),processes=p)
        n+=1
        if not np.allclose(a.loc[sorted(ids)].values,b.loc[sorted(ids)].values,atol=1e-6,equal_nan=True): bad+=1; print("FVA differs",k,p)
    d1=single_reaction_deletion(m,reaction_list=ids,processes=1); d3=single_reaction_deletion(m,reaction_list=sorted(ids),processes=3)
    f=lambda d:{tuple(sorted(r.ids)):(round(r.growth,6) if r.growth==r.growth else None,r.status) for _,r in d.iterrows()}
    n+=1
    if f(d1)!=f(d3): bad+=1; print("deletion differs",k)
    dd1=double_reaction_deletion(m,reaction_list1=ids[:6],processes=1); dd4=double_reaction_deletion(m,reaction_list1=ids[:6][::-1],processes=4)
    n+=1
    if f(dd1)!=f(dd4): bad+=1; print("double deletion differs",k, len(dd1),len(dd4))
print("comparisons",n,"bad",bad)
