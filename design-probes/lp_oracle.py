# scratch: independent LP oracle through raw swiglpk (exact simplex), net-flux formulation
import swiglpk as g, math
INF=float("inf")
g.glp_term_out(g.GLP_OFF)
def solve(S, lb, ub, c, maximize=True, extra_rows=()):
    """S: dict met->{rxn_index:coef}; lb/ub lists; c list; extra_rows: (coefs dict, lo, hi). returns (status,value,x)"""
    n=len(lb); p=g.glp_create_prob()
    g.glp_set_obj_dir(p, g.GLP_MAX if maximize else g.GLP_MIN)
    g.glp_add_cols(p,n)
    def setb(fn,i,lo,hi):
        if lo==-INF and hi==INF: fn(p,i,g.GLP_FR,0,0)
        elif lo==-INF: fn(p,i,g.GLP_UP,0,hi)
        elif hi==INF: fn(p,i,g.GLP_LO,lo,0)
        elif lo==hi: fn(p,i,g.GLP_FX,lo,hi)
        else: fn(p,i,g.GLP_DB,lo,hi)
    for j in range(n):
        setb(g.glp_set_col_bnds,j+1,lb[j],ub[j]); g.glp_set_obj_coef(p,j+1,c[j])
    rows=[(co,0.0,0.0) for co in S.values()]+list(extra_rows)
    if rows: g.glp_add_rows(p,len(rows))
    for i,(co,lo,hi) in enumerate(rows):
        setb(g.glp_set_row_bnds,i+1,lo,hi)
        items=[(j,v) for j,v in co.items() if v!=0]
        ia=g.intArray(len(items)+1); da=g.doubleArray(len(items)+1)
        for t,(j,v) in enumerate(items): ia[t+1]=j+1; da[t+1]=v
        g.glp_set_mat_row(p,i+1,len(items),ia,da)
    parm=g.glp_smcp(); g.glp_init_smcp(parm); parm.presolve=g.GLP_OFF
    g.glp_adv_basis(p,0)
    rc=g.glp_exact(p,parm)
    st=g.glp_get_status(p)
    stat={g.GLP_OPT:"optimal",g.GLP_NOFEAS:"infeasible",g.GLP_UNBND:"unbounded",g.GLP_INFEAS:"infeasible",g.GLP_FEAS:"feasible",g.GLP_UNDEF:"undefined"}.get(st,str(st))
    val=g.glp_get_obj_val(p); x=[g.glp_get_col_prim(p,j+1) for j in range(n)]
    g.glp_delete_prob(p)
    return stat,val,x
def from_model(m):
    rx=list(m.reactions); idx={r.id:i for i,r in enumerate(rx)}
    S={mt.id:{idx[r.id]:r.metabolites[mt] for r in mt.reactions} for mt in m.metabolites}
    lb=[r.lower_bound for r in rx]; ub=[r.upper_bound for r in rx]
    from cobra.util.solver import linear_reaction_coefficients
    co=linear_reaction_coefficients(m); c=[co.get(r,0.0) for r in rx]
    return rx,idx,S,lb,ub,c,(m.objective_direction=="max")
