import sys, warnings, logging, random, math
sys.path.insert(0,'/repo/src'); sys.path.insert(0,'/verif/design-probes')
warnings.simplefilter("ignore"); logging.disable(logging.CRITICAL)
from cobra import Model, Reaction, Metabolite
from cobra.flux_analysis import flux_variability_analysis, find_blocked_reactions, single_reaction_deletion, single_gene_deletion, pfba, find_essential_reactions
from cobra.medium import minimal_medium
from lp_oracle import *
def gen(rng):
    m=Model("n"); nm=rng.randrange(2,5)
    mets=[Metabolite(f"M{i}_c",compartment="c") for i in range(nm)]+[Metabolite("X_e",compartment="e"),Metabolite("Y_e",compartment="e")]
    rs=[]
    def R(id,d,lb,ub,rule=""):
        r=Reaction(id,lower_bound=lb,upper_bound=ub); r.add_metabolites(d); r.gene_reaction_rule=rule; rs.append(r)
    R("EX_X",{mets[-2]:-1},rng.choice([-10,-5,0,-1000]),rng.choice([0,1000,10]))
    if rng.random()<0.7: R("EX_Y",{mets[-1]:rng.choice([-1,1])},rng.choice([-10,0,-1000]),rng.choice([1000,10,0]))
    R("T_X",{mets[-2]:-1,mets[0]:1},rng.choice([0,-1000]),1000,rng.choice(["","g1","g1 and g2"]))
    if any(r.id=="EX_Y" for r in rs): R("T_Y",{mets[-1]:-1,mets[rng.randrange(nm)]:1},rng.choice([0,-1000]),1000,rng.choice(["","g2","g1 or g3"]))
    for i in range(rng.randrange(2,6)):
        a,b=rng.sample(range(nm),2) if nm>1 else (0,0)
        d={mets[a]:rng.choice([-1,-2]),mets[b]:rng.choice([1,2,0.5])}
        if rng.random()<0.2 and nm>2:
            cidx=rng.choice([k for k in range(nm) if k not in (a,b)]); d[mets[cidx]]=rng.choice([-1,1])
        R(f"R{i}",d,rng.choice([0,0,-1000,-10,1]),rng.choice([1000,10,5]),rng.choice(["","g1","g2 and g3","g3 or (g1 and g2)"]))
    R("DM",{mets[rng.randrange(nm)]:-1},rng.choice([0,0,0,-5]),rng.choice([1000,10]))
    m.add_reactions(rs)
    obj=rng.choice([r for r in rs if r.id in("DM",) or r.id.startswith("R")])
    m.objective={obj:rng.choice([1,1,2,-1])}
    if rng.random()<0.2: m.objective_direction="min"
    return m
TOL=1e-6
def close(a,b): return (math.isnan(a) and math.isnan(b)) or abs(a-b)<=TOL*max(1,abs(a),abs(b))
issues={}
def rep(kind,seed,msg):
    if kind not in issues: issues[kind]=[]
    if len(issues[kind])<3: issues[kind].append((seed,msg))
stats={"optimal":0,"infeasible":0,"unbounded":0}
for seed in range(600):
    rng=random.Random(seed); m=gen(rng)
    rx,idx,S,lb,ub,c,ismax=from_model(m)
    st,opt,x=solve(S,lb,ub,c,ismax)
    stats[st]=stats.get(st,0)+1
    v=m.slim_optimize(); 
    if st=="optimal":
        if m.solver.status!="optimal" or not close(v,opt): rep("fba",seed,f"cobra {m.solver.status} {v} oracle {opt}")
    else:
        if m.solver.status=="optimal": rep("fba-status",seed,f"cobra optimal {v} oracle {st}")
        continue
    # FVA
    for frac in (1.0,0.5,0.0):
        signok = (opt>=0 if ismax else opt<=0)
        if frac<1 and not signok: continue
        try: fva=flux_variability_analysis(m,fraction_of_optimum=frac,processes=1)
        except Exception as e: rep("fva-raise",seed,f"{type(e).__name__} {e}"); continue
        row=({j:cj for j,cj in enumerate(c) if cj!=0},)
        er=[(row[0], frac*opt if ismax else -INF, INF if ismax else frac*opt)]
        for r in rx:
            cc=[0]*len(rx); cc[idx[r.id]]=1
            s1,lo,_=solve(S,lb,ub,cc,False,er); s2,hi,_=solve(S,lb,ub,cc,True,er)
            if s1!="optimal" or s2!="optimal": 
                if not(math.isnan(fva.at[r.id,"minimum"]) or math.isnan(fva.at[r.id,"maximum"])): rep("fva-oracle-status",seed,f"{r.id} frac {frac} oracle {s1},{s2} cobra {fva.loc[r.id].tolist()}")
                continue
            if not close(fva.at[r.id,"minimum"],lo) or not close(fva.at[r.id,"maximum"],hi): rep(f"fva-frac{frac}",seed,f"{r.id}: cobra {fva.loc[r.id].tolist()} oracle {lo,hi} opt {opt} max {ismax}")
    # blocked
    try:
        bl=set(find_blocked_reactions(m,processes=1))
        exp=set()
        for r in rx:
            cc=[0]*len(rx); cc[idx[r.id]]=1
            s1,lo,_=solve(S,lb,ub,cc,False); s2,hi,_=solve(S,lb,ub,cc,True)
            if s1=="optimal" and s2=="optimal" and abs(lo)<1e-9 and abs(hi)<1e-9: exp.add(r.id)
        if bl!=exp: rep("blocked",seed,f"cobra {sorted(bl)} oracle {sorted(exp)} obj {[(r.id,cj) for r,cj in zip(rx,c) if cj]} max {ismax}")
    except Exception as e: rep("blocked-raise",seed,f"{type(e).__name__} {e}")
    # single reaction deletion
    try:
        d=single_reaction_deletion(m,processes=1)
        for _,rowd in d.iterrows():
            rid=list(rowd.ids)[0]; l2=lb[:]; u2=ub[:]; l2[idx[rid]]=0; u2[idx[rid]]=0
            s,val,_=solve(S,l2,u2,c,ismax)
            if s=="optimal":
                if rowd.status!="optimal" or not close(rowd.growth,val): rep("rxn-del",seed,f"{rid}: cobra {rowd.growth,rowd.status} oracle {val}")
            elif rowd.status=="optimal": rep("rxn-del-status",seed,f"{rid}: cobra optimal oracle {s}")
        if len(d)!=len(rx): rep("rxn-del-rows",seed,f"{len(d)} rows for {len(rx)} reactions")
    except Exception as e: rep("rxn-del-raise",seed,f"{type(e).__name__} {e}")
    # gene deletion
    try:
        d=single_gene_deletion(m,processes=1)
        for _,rowd in d.iterrows():
            gid=list(rowd.ids)[0]; l2=lb[:]; u2=ub[:]
            for r in rx:
                if r.gene_reaction_rule and not r.gpr.eval({gid}): l2[idx[r.id]]=0; u2[idx[r.id]]=0
            s,val,_=solve(S,l2,u2,c,ismax)
            if s=="optimal":
                if rowd.status!="optimal" or not close(rowd.growth,val): rep("gene-del",seed,f"{gid}: cobra {rowd.growth,rowd.status} oracle {val}")
            elif rowd.status=="optimal": rep("gene-del-status",seed,f"{gid}: cobra optimal oracle {s}")
    except Exception as e: rep("gene-del-raise",seed,f"{type(e).__name__} {e}")
    # pfba (max, opt>=0)
    if ismax and opt>=0 and all(abs(b)<INF for b in lb+ub):
        try:
            sol=pfba(m)
            # oracle: split variables
            n=len(rx); S2={k:{**{j:v for j,v in co.items()},**{j+n:-v for j,v in co.items()}} for k,co in S.items()}
            lb2=[0]*(2*n); ub2=[max(0,u) for u in ub]+[max(0,-l) for l in lb]
            er=[]
            for j in range(n):
                er.append(({j:1,j+n:-1},lb[j],ub[j]))
            er.append(({**{j:cj for j,cj in enumerate(c) if cj},**{j+n:-cj for j,cj in enumerate(c) if cj}},opt,INF))
            s,val,_=solve(S2,lb2,ub2,[1]*(2*n),False,er)
            if s!="optimal" or not close(sol.objective_value,val): rep("pfba",seed,f"cobra {sol.objective_value} oracle {s} {val}")
            tot=sum(abs(f) for f in sol.fluxes)
            if not close(tot,sol.objective_value): rep("pfba-total",seed,f"sum|v| {tot} vs reported {sol.objective_value}")
        except Exception as e: rep("pfba-raise",seed,f"{type(e).__name__} {e}")
print(stats)
for k,v in issues.items():
    print("##",k)
    for s_,msg in v: print("   seed",s_,msg)
print(len(issues),"issue kinds")
