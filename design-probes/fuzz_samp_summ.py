# scratch probe for C16 / C20 (not machinery)
import sys, warnings, logging, random, math
sys.path.insert(0,'/repo/src'); sys.path.insert(0,'/verif/design-probes')
warnings.simplefilter("ignore"); logging.disable(logging.CRITICAL)
exec(open('/verif/design-probes/fuzz_lp.py').read().split("TOL=1e-6")[0])
import numpy as np
from cobra.sampling import sample, ACHRSampler, OptGPSampler
from cobra.flux_analysis import pfba
issues={}
def rep(kind,seed,msg):
    issues.setdefault(kind,[])
    if len(issues[kind])<3: issues[kind].append((seed,msg))
ns=0; nsum=0
for seed in range(120):
    rng=random.Random(seed); m=gen(rng)
    rx,idx,S,lb,ub,c,ismax=from_model(m)
    st,opt,x=solve(S,lb,ub,c,ismax)
    if st!="optimal": continue
    # --- summaries
    try:
        sol=m.optimize()
        ms=m.summary(solution=sol); ms.to_string(); ms.to_html(); ms.to_frame()
        bnd=[r.id for r in m.boundary]
        listed=list(ms.uptake_flux.reaction)+list(ms.secretion_flux.reaction)
        if sorted(listed)!=sorted(bnd): rep("modelsummary-partition",seed,f"{sorted(listed)} vs {sorted(bnd)}")
        for fr in (ms.uptake_flux,ms.secretion_flux):
            for _,row in fr.iterrows():
                r=m.reactions.get_by_id(row.reaction); f=sol[r.id]*r.get_coefficient(row.metabolite)
                if abs(f)<m.tolerance: f=0
                if abs(row.flux-f)>1e-9: rep("modelsummary-flux",seed,f"{row.reaction} {row.flux} vs {f}")
        nsum+=1
    except Exception as e: rep("modelsummary-raise",seed,f"{type(e).__name__} {str(e)[:80]}")
    for mt in m.metabolites:
        try:
            s_=mt.summary(solution=sol); s_.to_string(); s_.to_html(); s_.to_frame()
            listed=list(s_.producing_flux.reaction)+list(s_.consuming_flux.reaction)
            if sorted(listed)!=sorted(r.id for r in mt.reactions): rep("metsummary-partition",seed,f"{mt.id}")
            p=s_.producing_flux.flux.sum(); q=s_.consuming_flux.flux.sum()
            if abs(p+q)>1e-6: rep("metsummary-balance",seed,f"{mt.id} {p} {q}")
            for fr in (s_.producing_flux,s_.consuming_flux):
                if len(fr) and fr.flux.abs().sum()>0 and abs(fr.percent.sum()-1)>1e-9: rep("metsummary-percent",seed,f"{mt.id} {fr.percent.sum()}")
        except Exception as e: rep("metsummary-raise",seed,f"{mt.id} {type(e).__name__} {str(e)[:80]}")
    for r in m.reactions:
        try: s_=r.summary(solution=sol); s_.to_string(); s_.to_html(); s_.to_frame()
        except Exception as e: rep("rxnsummary-raise",seed,f"{r.id} flux {sol[r.id]} {type(e).__name__} {str(e)[:60]}")
    try: ms=m.summary(solution=sol,fva=0.9); ms.to_string()
    except Exception as e: rep("modelsummary-fva-raise",seed,f"{type(e).__name__} {str(e)[:80]}")
    # --- sampling (finite bounds only)
    if any(abs(b)==INF for b in lb+ub): continue
    for method in ("achr","optgp"):
        try:
            df=sample(m,20,method=method,thinning=5,seed=seed+1,processes=1)
        except Exception as e: rep(f"sample-{method}-raise",seed,f"{type(e).__name__} {str(e)[:80]}"); continue
        ns+=1
        if list(df.columns)!=[r.id for r in m.reactions] or len(df)!=20: rep("sample-shape",seed,f"{df.shape}")
        tol=1e-6
        Sm=np.array([[S[mt.id].get(j,0) for j in range(len(rx))] for mt in m.metabolites])
        for i,row in df.iterrows():
            v=row.values
            if np.abs(Sm@v).max()>tol: rep(f"sample-{method}-steady",seed,f"row {i} resid {np.abs(Sm@v).max()}"); break
            if (v<np.array(lb)-tol).any() or (v>np.array(ub)+tol).any(): rep(f"sample-{method}-bounds",seed,f"row {i} {v} lb {lb} ub {ub}"); break
        try:
            df2=sample(m,20,method=method,thinning=5,seed=seed+1,processes=1)
            if not np.array_equal(df.values,df2.values): rep(f"sample-{method}-repro",seed,"differs for same seed")
        except Exception as e: pass
print("summaries",nsum,"samplings",ns)
for k,v in issues.items():
    print("##",k)
    for s_,msg in v: print("   seed",s_,msg)
print(len(issues),"issue kinds")
