import sys, warnings, logging
sys.path.insert(0,'/repo/src')
warnings.simplefilter("ignore"); logging.disable(logging.CRITICAL)
from cobra import Model, Reaction, Metabolite
from cobra.util.solver import fix_objective_as_constraint
from cobra.io.sbml import _f_specie, _f_specie_rev, _f_gene, _f_gene_rev
def R(id,mets,lb,ub):
    r=Reaction(id,lower_bound=lb,upper_bound=ub); r.add_metabolites(mets); return r
def toy():
    m=Model("t"); A=Metabolite("A_e",compartment="e"); B=Metabolite("B_c",compartment="c")
    m.add_reactions([R("EX_A",{A:-1},-10,1000),R("R1",{A:-1,B:1},0,1000),R("DM_B",{B:-1},0,1000)]); m.objective="DM_B"; return m
print("== set_objective failing mid-way in ctx")
m=toy(); foreign=Reaction("F")
try:
    with m:
        m.objective={m.reactions.R1:2, foreign:1}
except Exception as e: print(" raised",type(e).__name__, str(e)[:60])
print(" objective after:", m.objective.expression)
print("== fix_objective_as_constraint twice in ctx")
m=toy()
try:
    with m:
        fix_objective_as_constraint(m); fix_objective_as_constraint(m, fraction=0.5)
    print(" exit ok; constraints:",[c.name for c in m.constraints])
except Exception as e: print(" exit raised",type(e).__name__, str(e)[:80]); print(" constraints:",[c.name for c in m.constraints], "ctx depth", len(m._contexts))
print("== sbml id codec")
for s in ["a__45__b","a__4-","_1__a","a-b","a.b","__5","x__12"]:
    print(" ",repr(s),"->",repr(_f_specie_rev(s)),"->",repr(_f_specie(_f_specie_rev(s))), "| gene:",repr(_f_gene(_f_gene_rev(s))))
