import sys, warnings, logging, time, random
sys.path.insert(0,'/repo/src')
warnings.simplefilter("ignore"); logging.disable(logging.CRITICAL)
from cobra import Model, Reaction, Metabolite
import swiglpk as g
def dump(model):
    model.solver.update()
    p=model.solver.problem
    n=g.glp_get_num_cols(p); m=g.glp_get_num_rows(p)
    cols={}
    for j in range(1,n+1):
        cols[g.glp_get_col_name(p,j)]=(g.glp_get_col_type(p,j),g.glp_get_col_lb(p,j),g.glp_get_col_ub(p,j),g.glp_get_col_kind(p,j),g.glp_get_obj_coef(p,j))
    rows={}
    ia=g.intArray(n+1); da=g.doubleArray(n+1)
    for i in range(1,m+1):
        k=g.glp_get_mat_row(p,i,ia,da)
        rows[g.glp_get_row_name(p,i)]=(g.glp_get_row_type(p,i),g.glp_get_row_lb(p,i),g.glp_get_row_ub(p,i),{g.glp_get_col_name(p,ia[t]):da[t] for t in range(1,k+1)})
    return cols,rows
rng=random.Random(1)
t0=time.time(); steps=0
for h in range(100):
    m=Model("t"); mets=[Metabolite(f"m{i}_c",compartment="c") for i in range(4)]
    rs=[]
    for i in range(5):
        r=Reaction(f"r{i}",lower_bound=rng.choice([-10,0,-1000]),upper_bound=rng.choice([10,1000]))
        r.add_metabolites({rng.choice(mets):rng.choice([-1,1,2]) for _ in range(2)}); r.gene_reaction_rule="g1 and g2" if i%2 else ""
        rs.append(r)
    m.add_reactions(rs); m.objective="r0"
    for s in range(12):
        r=rng.choice(m.reactions)
        k=rng.randrange(4)
        if k==0: r.bounds=(rng.choice([-5,0]),rng.choice([5,7]))
        elif k==1: r.add_metabolites({rng.choice(mets):rng.choice([-1,1])})
        elif k==2:
            with m: r.knock_out(); m.slim_optimize()
        else: m.objective={r:1}
        dump(m); steps+=1
print("100 histories x12 steps:",round(time.time()-t0,2),"s; per step",round((time.time()-t0)/steps*1000,2),"ms")
t0=time.time()
for i in range(50): c=m.copy()
print("copy:",round((time.time()-t0)/50*1000,2),"ms")
from cobra.flux_analysis import flux_variability_analysis
t0=time.time()
for i in range(20): flux_variability_analysis(m,processes=1)
print("fva serial:",round((time.time()-t0)/20*1000,2),"ms")
t0=time.time()
for i in range(3): flux_variability_analysis(m,processes=2)
print("fva 2 procs:",round((time.time()-t0)/3*1000,2),"ms")
