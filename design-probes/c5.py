import sys, warnings, logging
sys.path.insert(0,'/repo/src')
warnings.simplefilter("ignore"); logging.disable(logging.CRITICAL)
from cobra import Model, Reaction, Metabolite
def R(id,mets,lb,ub):
    r=Reaction(id,lower_bound=lb,upper_bound=ub); r.add_metabolites(mets); return r
def toy():
    m=Model("t"); A=Metabolite("A_e",compartment="e"); B=Metabolite("B_c",compartment="c")
    m.add_reactions([R("EX_A",{A:-1},-10,1000),R("R1",{A:-1,B:1},0,1000),R("DM_B",{B:-1},0,1000)]); m.objective="DM_B"
    m.reactions.R1.gene_reaction_rule="g1 and g2"; return m
def show(m): return (sorted(g.id for g in m.genes), m.reactions.R1.gene_reaction_rule, {g.id:sorted(r.id for r in g.reactions) for g in m.genes}, sorted(g.id for g in m.reactions.R1.genes))
m=toy(); print("before:",show(m))
with m:
    m.reactions.R1.gene_reaction_rule="g1 or gNew"
    print(" inside:",show(m))
print("single ctx after:",show(m))
m=toy()
with m:
    with m:
        m.reactions.R1.gene_reaction_rule="g1 or gNew"
    print(" after inner exit:",show(m))
print("nested after outer:",show(m))
# add_reactions in ctx with new genes and new metabolites
m=toy()
with m:
    C=Metabolite("C_c",compartment="c"); r=R("R2",{m.metabolites.B_c:-1,C:1},0,10); r.gene_reaction_rule="g2 and g9"
    m.add_reactions([r])
print("add_reactions ctx after:",show(m), [x.id for x in m.reactions],[x.id for x in m.metabolites], "C_c" in m.constraints, "R2" in m.variables)
m=toy()
with m:
    m.remove_reactions(["R1"],remove_orphans=True)
print("remove_reactions orphans ctx after:",show(m), [x.id for x in m.reactions],[x.id for x in m.metabolites])
m=toy()
with m:
    m.remove_metabolites([m.metabolites.B_c],destructive=True)
print("remove_mets destructive ctx after:", [x.id for x in m.reactions],[x.id for x in m.metabolites], [ (r.id,r.reaction) for r in m.reactions])
m=toy()
with m:
    m.remove_metabolites([m.metabolites.B_c],destructive=False)
print("remove_mets ctx after:", [x.id for x in m.reactions],[x.id for x in m.metabolites], [ (r.id,r.reaction) for r in m.reactions], sorted(r.id for r in m.metabolites.B_c.reactions), m.metabolites.B_c.model is m)
