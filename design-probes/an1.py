import sys, warnings, logging
sys.path.insert(0,'/repo/src')
warnings.simplefilter("ignore"); logging.disable(logging.CRITICAL)
import cobra, math
from cobra import Model, Reaction, Metabolite
from cobra.flux_analysis import flux_variability_analysis, loopless_solution, pfba, room, moma
from cobra.flux_analysis.loopless import add_loopless
def R(id,mets,lb,ub):
    r=Reaction(id,lower_bound=lb,upper_bound=ub); r.add_metabolites(mets); return r
print("== C04 statuses")
for solver in ["glpk","glpk_exact"]:
    m=Model("u"); m.solver=solver; A=Metabolite("A",compartment="c")
    m.add_reactions([R("src",{A:1},0,float("inf")),R("snk",{A:-1},0,float("inf"))]); m.objective="snk"
    try:
        s=m.optimize(); print(solver,"unbounded:",s.status,s.objective_value, m.slim_optimize())
    except Exception as e: print(solver,"optimize raised",type(e).__name__,e, "slim:",m.slim_optimize(), m.solver.status)
    m.objective_direction="max"
    try: m.optimize(objective_sense="minimize")
    except Exception as e: pass
    print("  direction after optimize(minimize) on bounded-below:", m.objective_direction)
    m.reactions.snk.bounds=(0,float("inf")); m.objective={m.reactions.snk:-1}; 
    try: m.optimize(objective_sense="minimize")
    except Exception as e: print("  raised", type(e).__name__)
    print("  direction after raising optimize(minimize):", m.objective_direction); m.objective_direction="max"; m.objective="snk"
    try: m.slim_optimize(error_value=None)
    except Exception as e: print("  raises",type(e).__name__)
    m.reactions.snk.bounds=(5,10); m.reactions.src.bounds=(0,1)
    s=m.optimize(); print(solver,"infeasible:",s.status, m.slim_optimize())
    try: m.slim_optimize(error_value=None)
    except Exception as e: print("  raises",type(e).__name__)
print("== C18 medium with import-written exchange")
m=Model("md"); A=Metabolite("A_e",compartment="e"); B=Metabolite("B_e",compartment="e"); C=Metabolite("C_c",compartment="c")
m.add_reactions([R("EX_A",{A:-1},-10,1000),R("EX_B",{B:1},-1000,7),R("T",{A:-1,B:-1,C:1},0,1000),R("DM_C",{C:-1},0,1000)])
print(" exchanges:",[r.id for r in m.exchanges]," medium:",m.medium)
m.medium={"EX_B":3}; print(" after set {EX_B:3}:",m.medium,[ (r.id,r.bounds) for r in m.reactions])
m.medium={"EX_A":0,"EX_B":2}; print(" after set {EX_A:0,EX_B:2}:",m.medium,[ (r.id,r.bounds) for r in m.exchanges])
print("== C17 loopless_solution min direction")
m=Model("ll"); A=Metabolite("A",compartment="c"); B=Metabolite("B",compartment="c")
m.add_reactions([R("EX_A",{A:1},0,10),R("v1",{A:-1,B:1},0,1000),R("v2",{B:-1,A:1},0,1000),R("v3",{B:-1,A:1},0,1000), R("DM_B",{B:-1},0,1000)])
m.objective="v1"; m.objective_direction="min"
s=m.optimize(); print(" min v1:",s.objective_value, dict(s.fluxes))
ls=loopless_solution(m); print(" loopless:",ls.status, ls.objective_value, dict(ls.fluxes))
m.objective_direction="max"; m.objective="DM_B"
ls=loopless_solution(m, fluxes={"EX_A":5,"v1":105,"v2":50,"v3":50,"DM_B":5}); print(" given subopt fluxes:",ls.status, ls.objective_value, dict(ls.fluxes))
print("== C05 FVA min direction")
m.objective="DM_B"; m.objective_direction="min"
print(flux_variability_analysis(m,fraction_of_optimum=1.0))
print(" direction after:",m.objective_direction)
