import sys, warnings, logging
sys.path.insert(0,'/repo/src')
warnings.simplefilter("ignore")
logging.disable(logging.CRITICAL)
import cobra
from cobra import Model, Reaction, Metabolite, Gene
from cobra.io import model_to_dict, model_from_dict, to_json, from_json, write_sbml_model, read_sbml_model
from cobra.flux_analysis import find_blocked_reactions, flux_variability_analysis, loopless_solution
def toy():
    m=Model("toy")
    A=Metabolite("A_e",compartment="e"); B=Metabolite("B_c",compartment="c"); C=Metabolite("C_c",compartment="c")
    ex=Reaction("EX_A",lower_bound=-10,upper_bound=1000); ex.add_metabolites({A:-1})
    r1=Reaction("R1",lower_bound=0,upper_bound=1000); r1.add_metabolites({A:-1,B:1}); r1.gene_reaction_rule="g1 and g2"
    r2=Reaction("R2",lower_bound=-1000,upper_bound=1000); r2.add_metabolites({B:-1,C:1}); r2.gene_reaction_rule="g2 or g3"
    dm=Reaction("DM_C",lower_bound=0,upper_bound=1000); dm.add_metabolites({C:-1})
    m.add_reactions([ex,r1,r2,dm]); m.objective="DM_C"
    return m
print("== 5 dict roundtrip lb>1000")
m=toy(); m.reactions.R1.bounds=(2000,3000)
try: m2=model_from_dict(model_to_dict(m)); print(" ok", m2.reactions.R1.bounds)
except Exception as e: print(" raised",type(e).__name__,e)
m=toy(); m.objective_direction="min"; m2=from_json(to_json(m)); print(" direction after json:",m2.objective_direction)
m=toy(); m.metabolites.B_c.compartment=None; m2=from_json(to_json(m)); print(" compartment None ->",repr(m2.metabolites.B_c.compartment))
print("== 8 sbml lb>1000")
m=toy(); m.reactions.R1.bounds=(2000,3000)
import io, tempfile, os
p=tempfile.mktemp(suffix=".xml"); write_sbml_model(m,p)
try: m2=read_sbml_model(p); print(" ok",m2.reactions.R1.bounds)
except Exception as e: print(" raised",type(e).__name__, str(e)[:80], "| cause:", repr(e.__cause__))
os.remove(p)
print("== 6 blocked with negative-objective region")
m=Model("b"); A=Metabolite("A_c",compartment="c"); B=Metabolite("B_c",compartment="c")
# objective reaction R: A <=> B ; X: B -> (demand) only when R forward; Y: consumes A only produced by reverse R
src=Reaction("SRC_B",lower_bound=0,upper_bound=10); src.add_metabolites({B:1})
R=Reaction("R",lower_bound=-10,upper_bound=0); R.add_metabolites({A:-1,B:1})
Y=Reaction("Y",lower_bound=0,upper_bound=10); Y.add_metabolites({A:-1})
m.add_reactions([src,R,Y]); m.objective="R"
print(" FVA frac0:\n", flux_variability_analysis(m,fraction_of_optimum=0.0))
print(" blocked:",find_blocked_reactions(m))
m.objective={}
print(" FVA zero objective:\n", flux_variability_analysis(m,fraction_of_optimum=0.0))
print("== 7 ReactionSummary zero flux")
m=toy(); m.reactions.R1.gene_reaction_rule=""
x=Reaction("Z",lower_bound=0,upper_bound=0); x.add_metabolites({m.metabolites.B_c:-1, m.metabolites.C_c:1}); m.add_reactions([x])
try: s=m.reactions.Z.summary(); print(s.to_string())
except Exception as e: print(" raised",type(e).__name__,e)
try: print(m.summary().to_string()[:60].replace("\n","|"))
except Exception as e: print(" model summary raised",type(e).__name__,e)
try: print(m.metabolites.B_c.summary().to_string()[:60].replace("\n","|"))
except Exception as e: print(" met summary raised",type(e).__name__,e)
