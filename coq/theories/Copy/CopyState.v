(* C12 — bookkeeping for the functional description of Model.copy.

   While the copy is built every NEW cell is either a STRUCTURE cell (the new model, its DictLists, the new
   objects, the containers that are re-linked: _reaction / _metabolites / _genes / _members sets and dicts, the
   context lists) — these are listed in W and are the only cells ever written — or a DATA cell created by one of
   the deep copies of attribute values; data cells are plain, point only at data cells and are never written
   again (`St`).  `Tr FP` relates two heaps of the construction: only cells in the footprint FP changed. *)
From Coq Require Import List String Bool Arith Lia.
From Cobra.Copy Require Import Heap Model Obs Lemmas Proofs CopyHeapFacts CopyData.
Import ListNotations.
Open Scope string_scope.
Open Scope list_scope.

Section State.
  Variable n : nat.
  Variable h0 : heap.

  Record St (h : heap) (W : list addr) : Prop := mkSt {
    st_len : n <= List.length h;
    st_old : forall x, x < n -> get h x = get h0 x;
    st_W : forall a, In a W -> n <= a < List.length h;
    st_data : forall a c, n <= a -> ~ In a W -> get h a = Some c ->
                          plain (ckind c) = true /\
                          forall x, In x (crefs c) -> n <= x < List.length h /\ ~ In x W
  }.

  (* data cells, as seen when the heap had size hi *)
  Definition PD (W : list addr) (hi : nat) (a : addr) : Prop := n <= a < hi /\ ~ In a W.

  Record Tr (FP : list addr) (h : heap) (W : list addr) (h2 : heap) (W2 : list addr) : Prop := mkTr {
    tr_len : List.length h <= List.length h2;
    tr_W : forall a, In a W -> In a W2;
    tr_new : forall a, In a W2 -> In a W \/ List.length h <= a;
    tr_same : forall x, x < List.length h -> ~ In x FP -> get h2 x = get h x
  }.

  Lemma tr_refl : forall h W, Tr [] h W h W.
  Proof. intros. split; auto. Qed.

  Lemma tr_trans : forall FP1 FP2 h W h2 W2 h3 W3,
      Tr FP1 h W h2 W2 -> Tr FP2 h2 W2 h3 W3 -> Tr (FP1 ++ FP2) h W h3 W3.
  Proof.
    intros FP1 FP2 h W h2 W2 h3 W3 [L1 A1 N1 S1] [L2 A2 N2 S2]. split.
    - lia.
    - auto.
    - intros a Ha. destruct (N2 a Ha) as [H|H]; [destruct (N1 a H); auto|right; lia].
    - intros x Hx Hnot. rewrite S2; [apply S1; auto|lia|]; intro Hin; apply Hnot; apply in_or_app; auto.
  Qed.

  Lemma tr_weaken : forall FP FP' h W h2 W2, Tr FP h W h2 W2 -> incl FP FP' -> Tr FP' h W h2 W2.
  Proof. intros FP FP' h W h2 W2 [L A N S] Hi. split; auto. Qed.

  Lemma pd_mono : forall W hi a W2 hi2,
      PD W hi a -> hi <= hi2 -> (forall w, In w W2 -> In w W \/ hi <= w) -> PD W2 hi2 a.
  Proof.
    intros W hi a W2 hi2 [[H1 H2] H3] Hle HW. split; [lia|]. intro Hin. destruct (HW a Hin); [auto|lia].
  Qed.

  (* footprints: cells that existed as structure cells, or cells allocated later *)
  Definition FPok (h : heap) (W FP : list addr) : Prop := forall x, In x FP -> In x W \/ List.length h <= x.

  Lemma fpok_incl : forall h W FP, incl FP W -> FPok h W FP.
  Proof. intros h W FP Hi x Hx. left. apply Hi. exact Hx. Qed.

  Lemma pd_tr_g : forall FP h W h2 W2 a,
      St h W -> Tr FP h W h2 W2 -> FPok h W FP -> PD W (List.length h) a ->
      get h2 a = get h a /\ PD W2 (List.length h2) a.
  Proof.
    intros FP h W h2 W2 a HS [L A N S] Hi HP. split.
    - destruct HP as [[H1 H2] H3]. apply S; auto. intro Hin. destruct (Hi a Hin); [auto|lia].
    - eapply pd_mono; eauto.
  Qed.

  Lemma pd_tr : forall FP h W h2 W2 a,
      St h W -> Tr FP h W h2 W2 -> incl FP W -> PD W (List.length h) a ->
      get h2 a = get h a /\ PD W2 (List.length h2) a.
  Proof. intros. eapply pd_tr_g; eauto. apply fpok_incl. auto. Qed.

  Lemma diso_tr_g : forall FP h W h2 W2 v v',
      St h W -> Tr FP h W h2 W2 -> FPok h W FP ->
      DIso h0 v (PD W (List.length h)) h v' -> DIso h0 v (PD W2 (List.length h2)) h2 v'.
  Proof.
    intros FP h W h2 W2 v v' HS HT Hi HD. eapply diso_stable; [exact HD|].
    intros x Hx. eapply pd_tr_g; eauto.
  Qed.

  Lemma diso_tr : forall FP h W h2 W2 v v',
      St h W -> Tr FP h W h2 W2 -> incl FP W ->
      DIso h0 v (PD W (List.length h)) h v' -> DIso h0 v (PD W2 (List.length h2)) h2 v'.
  Proof. intros. eapply diso_tr_g; eauto. apply fpok_incl. auto. Qed.

  (* ---- a write to a structure cell *)
  Lemma st_write : forall h W a h2,
      St h W -> In a W -> List.length h2 = List.length h -> (forall x, x <> a -> get h2 x = get h x) ->
      St h2 W /\ Tr [a] h W h2 W.
  Proof.
    intros h W a h2 [L O Wr D] Ha Hl Hsame.
    assert (forall x, ~ In x W -> get h2 x = get h x) as Hd.
    { intros x Hx. apply Hsame. intro; subst; auto. }
    split.
    - split.
      + lia.
      + intros x Hx. rewrite Hd; auto. intro Hin. apply Wr in Hin. lia.
      + intros b Hb. rewrite Hl. auto.
      + intros b c Hb Hnb Hg. rewrite Hd in Hg by auto. rewrite Hl. eauto.
    - split; auto; [lia|]. intros x _ Hx. apply Hsame. intro; subst. apply Hx. left. reflexivity.
  Qed.

  Lemma st_put : forall h W a k v, St h W -> In a W -> St (put h a k v) W /\ Tr [a] h W (put h a k v) W.
  Proof. intros. apply st_write; auto; [apply put_length|intros; apply get_put_ne; auto]. Qed.

  Lemma st_set_attr : forall h W a s v, St h W -> In a W -> St (set_attr h a s v) W /\ Tr [a] h W (set_attr h a s v) W.
  Proof. intros. apply st_put; auto. Qed.

  Lemma st_set_add : forall h W a e, St h W -> In a W -> St (set_add h a e) W /\ Tr [a] h W (set_add h a e) W.
  Proof. intros. apply st_put; auto. Qed.

  Lemma st_append : forall h W a e, St h W -> In a W -> St (append h a e) W /\ Tr [a] h W (append h a e) W.
  Proof. intros. apply st_write; auto; [apply append_length|intros; apply get_append_ne; auto]. Qed.

  (* ---- allocation of a structure cell *)
  Lemma st_alloc : forall h W c,
      St h W -> St (h ++ [c]) (List.length h :: W) /\ Tr [] h W (h ++ [c]) (List.length h :: W).
  Proof.
    intros h W c [L O Wr D]. split.
    - split.
      + rewrite app_length. cbn. lia.
      + intros x Hx. rewrite get_alloc_old by lia. auto.
      + intros a [<-|Ha]; rewrite app_length; cbn; [lia|]. apply Wr in Ha. lia.
      + intros a c0 Ha Hna Hg. rewrite app_length. cbn.
        assert (a <> List.length h) as Hne by (intro; subst; apply Hna; left; reflexivity).
        rewrite get_alloc_ne in Hg by auto.
        assert (~ In a W) as Hna' by (intro; apply Hna; right; auto).
        destruct (D a c0 Ha Hna' Hg) as [Hp Hr]. split; auto. intros x Hx. destruct (Hr x Hx) as [H1 H2].
        split; [lia|]. intros [Heq|Hin]; [lia|auto].
    - split.
      + rewrite app_length. cbn. lia.
      + intros a Ha. right. exact Ha.
      + intros a [<-|Ha]; auto.
      + intros x Hx _. apply get_alloc_old. exact Hx.
  Qed.

  (* ---- a deep copy of data of the original heap *)
  Lemma st_deep_copy : forall T h W v h' v',
      List.length h0 = n -> St h W -> Data h0 v -> deep_copy T h v = (h', v') ->
      St h' W /\ Tr [] h W h' W /\ DIso h0 v (PD W (List.length h')) h' v'.
  Proof.
    intros T h W v h' v' Hn [L O Wr D] Dv Hrun.
    assert (List.length h0 <= List.length h) as Hle by lia.
    assert (forall x, x < List.length h0 -> get h x = get h0 x) as Hpre by (intros x Hx; apply O; lia).
    destruct (deep_copy_data T h0 h v h' v' Hle Hpre Dv Hrun) as [M [K [HM [Mp [Hv [Hsame [Hlen Hreg]]]]]]].
    split; [|split].
    - split.
      + lia.
      + intros x Hx. rewrite Hsame by lia. auto.
      + intros a Ha. apply Wr in Ha. lia.
      + intros a c Ha Hna Hg. destruct (Nat.lt_ge_cases a (List.length h)) as [Hlt|Hge].
        * rewrite Hsame in Hg by auto. destruct (D a c Ha Hna Hg) as [Hp Hr]. split; auto.
          intros x Hx. destruct (Hr x Hx). split; auto. lia.
        * destruct (Hreg a c Hge Hg) as [Hp Hr]. split; auto. intros x Hx. specialize (Hr x Hx). split; [lia|].
          intro Hin. apply Wr in Hin. lia.
    - split; auto.
    - exists M. split; auto. split; [|split; auto]. intros a a' Hin. destruct (HM a a' Hin) as [Hd Hr]. split; auto.
      split; [lia|]. intro Hw. apply Wr in Hw. lia.
  Qed.

  (* reads of old cells *)
  Lemma st_attr_old : forall h W a s, St h W -> a < n -> attr_at h a s = attr_at h0 a s.
  Proof. intros h W a s HS Ha. unfold attr_at. rewrite (st_old _ _ HS a Ha). reflexivity. Qed.

  Lemma st_list_elems_old : forall h W d, St h W -> d < n -> list_elems h (Some (Ref d)) = list_elems h0 (Some (Ref d)).
  Proof. intros h W d HS Hd. unfold list_elems. rewrite (st_old _ _ HS d Hd). reflexivity. Qed.

  Lemma st_dict_keys_old : forall h W d, St h W -> d < n -> dict_keys h (Some (Ref d)) = dict_keys h0 (Some (Ref d)).
  Proof. intros h W d HS Hd. unfold dict_keys. rewrite (st_old _ _ HS d Hd). reflexivity. Qed.

  Lemma st_fresh_notin : forall h W, St h W -> ~ In (List.length h) W.
  Proof. intros h W HS Hin. apply (st_W _ _ HS) in Hin. lia. Qed.
End State.
