(* C12 — copy.deepcopy on PLAIN DATA (dicts / lists / sets / GPR / opaque cells holding atoms and further plain
   data; no cobra object below): the memoised copy `dc` is a graph homomorphism.  Every memo pair (a, a') ends
   with cell a' = cell a with every reference translated through the memo; the fuel of `deep_copy` always
   suffices; nothing that existed is modified; the new cells form a closed region.  Consequently the copy
   reads exactly like the original (`obs_val` equal at every depth). *)
From Coq Require Import List String Bool Arith Lia.
From Cobra.Copy Require Import Heap Model Obs Lemmas Proofs CopyHeapFacts.
Import ListNotations.
Open Scope string_scope.
Open Scope list_scope.

Definition plain (k : kind) : bool := negb (is_object k).

(* v is an atom, or the root of a finite tree/DAG of plain cells of depth <= fuel *)
Fixpoint data_b (h : heap) (fuel : nat) (v : value) : bool :=
  match v with
  | At _ => true
  | Ref a =>
      match fuel with
      | O => false
      | S f =>
          match get h a with
          | Some c => plain (ckind c) && forallb (fun kv => data_b h f (fst kv) && data_b h f (snd kv)) (citems c)
          | None => false
          end
      end
  end.

Definition Data (h : heap) (v : value) : Prop := exists f, data_b h f v = true.

Lemma data_atom : forall h s, Data h (At s).
Proof. intros. exists 0. reflexivity. Qed.

Lemma data_ref : forall h a, Data h (Ref a) ->
  exists c, get h a = Some c /\ plain (ckind c) = true /\
            forall kv, In kv (citems c) -> Data h (fst kv) /\ Data h (snd kv).
Proof.
  intros h a [f Hf]. destruct f as [|f]; [discriminate|]. cbn [data_b] in Hf.
  destruct (get h a) as [c|]; [|discriminate]. apply andb_prop in Hf as [Hp Hi].
  exists c. split; auto. split; auto. intros kv Hin. rewrite forallb_forall in Hi. specialize (Hi kv Hin).
  apply andb_prop in Hi as [H1 H2]. split; exists f; auto.
Qed.

(* ------------------------------------------------------------------ translation through a memo *)
Definition trv (m : memo) (v : value) : value :=
  match v with
  | At _ => v
  | Ref a => match mfind a m with Some a' => Ref a' | None => At "<unmapped>" end
  end.
Definition tr (m : memo) (kv : value * value) : value * value := (trv m (fst kv), trv m (snd kv)).
Definition mapped (m : memo) (v : value) : Prop := match v with At _ => True | Ref a => mfind a m <> None end.

Lemma mfind_in : forall a m a', mfind a m = Some a' -> In (a, a') m.
Proof.
  intros a m a'. induction m as [|[k v] r IH]; cbn; intros H; [discriminate|].
  destruct (Nat.eqb a k) eqn:E; [apply Nat.eqb_eq in E; inv H; auto|auto].
Qed.

Lemma mfind_none_keys : forall a m, mfind a m = None -> ~ In a (map fst m).
Proof.
  intros a m. induction m as [|[k v] r IH]; cbn; intros H; [tauto|].
  destruct (Nat.eqb a k) eqn:E; [discriminate|]. apply Nat.eqb_neq in E. intros [H1|H1]; [congruence|]. exact (IH H H1).
Qed.

Lemma mfind_app_stable : forall e m b x, NoDup (map fst (e ++ m)) -> mfind b m = Some x -> mfind b (e ++ m) = Some x.
Proof.
  intros e m b x. induction e as [|[k v] e IH]; cbn; intros Hnd H; auto. inv Hnd.
  destruct (Nat.eqb b k) eqn:E; [|auto]. apply Nat.eqb_eq in E. subst k. exfalso. apply H2.
  rewrite map_app. apply in_or_app. right. apply mfind_in in H. apply in_map_iff. exists (b, x). auto.
Qed.

Lemma trv_stable : forall e m v, NoDup (map fst (e ++ m)) -> mapped m v -> trv (e ++ m) v = trv m v /\ mapped (e ++ m) v.
Proof.
  intros e m [s|a] Hnd Hm; cbn in *; [auto|].
  destruct (mfind a m) as [x|] eqn:E; [|congruence]. rewrite (mfind_app_stable _ _ _ _ Hnd E). split; [reflexivity|discriminate].
Qed.

Lemma tr_stable : forall e m l, NoDup (map fst (e ++ m)) ->
  (forall kv, In kv l -> mapped m (fst kv) /\ mapped m (snd kv)) ->
  map (tr (e ++ m)) l = map (tr m) l /\ (forall kv, In kv l -> mapped (e ++ m) (fst kv) /\ mapped (e ++ m) (snd kv)).
Proof.
  intros e m l Hnd Hl. split.
  - apply map_ext_in. intros kv Hin. destruct (Hl kv Hin) as [H1 H2]. unfold tr.
    rewrite (proj1 (trv_stable e m _ Hnd H1)), (proj1 (trv_stable e m _ Hnd H2)). reflexivity.
  - intros kv Hin. destruct (Hl kv Hin) as [H1 H2]. split; eapply trv_stable; eauto.
Qed.

(* ------------------------------------------------------------------ hooks do nothing on plain cells *)
Lemma getstate_plain : forall c, plain (ckind c) = true ->
  getstate c = map (fun kv => (fst kv, SV (snd kv))) (citems c).
Proof.
  intros c Hp. unfold getstate. apply map_ext. intros [k v]. unfold getstate_item.
  destruct (ckind c); try discriminate; reflexivity.
Qed.

Lemma setstate_plain : forall T h a c, get h a = Some c -> plain (ckind c) = true -> setstate T h a = h.
Proof. intros T h a c Hg Hp. unfold setstate. rewrite Hg. destruct (ckind c); try discriminate; reflexivity. Qed.

(* ------------------------------------------------------------------ the invariant of one deep copy *)
(* H: a prefix of the heap holding the data being copied; B: the heap size when the deep copy started *)
Definition Done (H h : heap) (m : memo) (a a' : addr) : Prop :=
  exists c, get H a = Some c /\ plain (ckind c) = true /\
            get h a' = Some (mkCell (ckind c) (map (tr m) (citems c))) /\
            forall kv, In kv (citems c) -> mapped m (fst kv) /\ mapped m (snd kv).

Record DCI (H : heap) (B : nat) (h : heap) (m : memo) : Prop := mkDCI {
  dci_len : List.length H <= B /\ B <= List.length h;
  dci_prefix : forall x, x < List.length H -> get h x = get H x;
  dci_keys : NoDup (map fst m);
  dci_rng : forall a a', In (a, a') m -> a < List.length H /\ B <= a' < List.length h;
  dci_region : forall b c, B <= b -> get h b = Some c ->
                           plain (ckind c) = true /\ forall x, In x (crefs c) -> B <= x < List.length h
}.

Lemma dci_memo_small : forall H B h m, DCI H B h m -> List.length m <= List.length H.
Proof.
  intros H B h m HD. rewrite <- (map_length fst m). rewrite <- (seq_length (List.length H) 0).
  apply NoDup_incl_length; [apply (dci_keys _ _ _ _ HD)|].
  intros a Ha. apply in_map_iff in Ha as [[a1 a'] [<- Hin]]. apply in_seq. cbn.
  destruct (dci_rng _ _ _ _ HD _ _ Hin). lia.
Qed.

Lemma done_stable : forall H h m a a' h2 e,
    Done H h m a a' -> get h2 a' = get h a' -> NoDup (map fst (e ++ m)) -> Done H h2 (e ++ m) a a'.
Proof.
  intros H h m a a' h2 e [c [Hc [Hp [Hg Hm]]]] Hsame Hnd. exists c. split; auto. split; auto.
  destruct (tr_stable e m (citems c) Hnd Hm) as [Heq Hm2]. rewrite Hsame, Heq. auto.
Qed.

Lemma trv_range : forall H B h m v, DCI H B h m -> val_ok B (trv m v) /\ forall x, In x (vrefs (trv m v)) -> B <= x < List.length h.
Proof.
  intros H B h m [s|a] HD; cbn; [split; [auto|intros x []]|].
  destruct (mfind a m) as [a'|] eqn:E; cbn; [|split; [auto|intros x []]].
  apply mfind_in in E. destruct (dci_rng _ _ _ _ HD _ _ E) as [_ Hr]. split; [lia|]. intros x [<-|[]]. exact Hr.
Qed.

(* the specification of the recursive call *)
Definition rec_spec (H : heap) (B f : nat) (rec : heap -> memo -> value -> heap * memo * value) : Prop :=
  forall h m v h' m' v',
    DCI H B h m -> Data H v -> List.length H + 1 <= f + List.length m ->
    rec h m v = (h', m', v') ->
    DCI H B h' m' /\ List.length h <= List.length h' /\ (forall x, x < List.length h -> get h' x = get h x) /\
    (exists e, m' = e ++ m /\ forall a a', In (a, a') e -> Done H h' m' a a' /\ List.length h <= a') /\
    mapped m' v /\ v' = trv m' v.

Lemma crefs_app : forall k l1 l2, crefs (mkCell k (l1 ++ l2)) = crefs (mkCell k l1) ++ crefs (mkCell k l2).
Proof. intros. unfold crefs. cbn. apply flat_map_app. Qed.

Lemma dc_items_spec : forall H B f rec, rec_spec H B f rec ->
  forall k a' (l pre : list (value * value)) h m h' m',
    DCI H B h m -> B <= a' ->
    get h a' = Some (mkCell k (map (tr m) pre)) -> plain k = true ->
    (forall kv, In kv pre -> mapped m (fst kv) /\ mapped m (snd kv)) ->
    (forall kv, In kv l -> Data H (fst kv) /\ Data H (snd kv)) ->
    List.length H + 1 <= f + List.length m ->
    dc_items rec a' h m (map (fun kv => (fst kv, SV (snd kv))) l) = (h', m') ->
    DCI H B h' m' /\ List.length h <= List.length h' /\
    (forall x, x < List.length h -> x <> a' -> get h' x = get h x) /\
    (exists e, m' = e ++ m /\ forall a a'', In (a, a'') e -> Done H h' m' a a'' /\ List.length h <= a'') /\
    get h' a' = Some (mkCell k (map (tr m') (pre ++ l))) /\
    (forall kv, In kv (pre ++ l) -> mapped m' (fst kv) /\ mapped m' (snd kv)).
Proof.
  intros H B f rec Hrec k a' l. induction l as [|[k0 v0] r IH]; intros pre h m h' m' HD Ha Hg Hk Hpre Hl Hf Hrun.
  - cbn in Hrun. inv Hrun. rewrite app_nil_r. split; [exact HD|]. split; [lia|]. split; [auto|]. split; [|split; auto].
    exists []. split; [reflexivity|]. intros a a'' [].
  - cbn [map dc_items fst snd] in Hrun.
    destruct (rec h m k0) as [[h2 m2] k'] eqn:E1.
    destruct (Hl (k0, v0) (or_introl eq_refl)) as [Dk Dv]. cbn [fst snd] in Dk, Dv.
    destruct (Hrec _ _ _ _ _ _ HD Dk Hf E1) as [HD2 [Hlen2 [Hsame2 [[e2 [-> He2]] [Hmk ->]]]]].
    destruct (rec h2 (e2 ++ m) v0) as [[h3 m3] v'] eqn:E2.
    assert (List.length H + 1 <= f + List.length (e2 ++ m)) as Hf2 by (rewrite app_length; lia).
    destruct (Hrec _ _ _ _ _ _ HD2 Dv Hf2 E2) as [HD3 [Hlen3 [Hsame3 [[e3 [-> He3]] [Hmv ->]]]]].
    pose proof (get_lt _ _ _ Hg) as Halt.
    (* the cell under construction after the two recursive calls *)
    assert (get h3 a' = Some (mkCell k (map (tr m) pre))) as Hg3.
    { rewrite Hsame3 by lia. rewrite Hsame2 by lia. exact Hg. }
    pose proof (dci_keys _ _ _ _ HD3) as Hnd3. pose proof (dci_keys _ _ _ _ HD2) as Hnd2.
    rewrite app_assoc in Hnd3.
    destruct (tr_stable (e3 ++ e2) m pre Hnd3 Hpre) as [Hpre_eq Hpre_m]. rewrite <- app_assoc in Hpre_eq, Hpre_m, Hnd3.
    destruct (trv_stable e3 (e2 ++ m) k0 Hnd3 Hmk) as [Hk_eq Hk_m].
    set (m3 := e3 ++ e2 ++ m) in *.
    set (h4 := push h3 a' (trv (e2 ++ m) k0) (trv m3 v0)) in *.
    assert (get h4 a' = Some (mkCell k (map (tr m3) (pre ++ [(k0, v0)])))) as Hg4.
    { unfold h4. rewrite (get_push_eq _ _ _ _ _ Hg3). cbn [ckind citems]. rewrite map_app, Hpre_eq. cbn [map].
      unfold tr at 3. cbn [fst snd]. rewrite Hk_eq. reflexivity. }
    assert (DCI H B h4 m3) as HD4.
    { destruct HD3 as [L3 P3 K3 R3 G3]. unfold h4. split; auto.
      - rewrite push_length. exact L3.
      - intros x Hx. rewrite get_push_ne by lia. auto.
      - intros a a0 Hin. rewrite push_length. eauto.
      - intros b c Hb Hgb. rewrite push_length. destruct (Nat.eq_dec a' b) as [<-|Hne].
        + rewrite (get_push_eq _ _ _ _ _ Hg3) in Hgb. inv Hgb. cbn [ckind citems]. split; auto.
          intros x Hx. rewrite crefs_app in Hx. apply in_app_or in Hx as [Hx|Hx].
          * apply (proj2 (G3 a' _ Ha Hg3)). exact Hx.
          * unfold crefs in Hx. cbn in Hx. rewrite app_nil_r in Hx. unfold irefs in Hx. cbn [fst snd] in Hx.
            assert (DCI H B h3 m3) as HD3' by (split; auto).
            apply in_app_or in Hx as [Hx|Hx].
            -- rewrite <- Hk_eq in Hx. apply (proj2 (trv_range _ _ _ _ k0 HD3')). exact Hx.
            -- apply (proj2 (trv_range _ _ _ _ v0 HD3')). exact Hx.
        + rewrite get_push_ne in Hgb by auto. eauto. }
    assert (forall kv, In kv (pre ++ [(k0, v0)]) -> mapped m3 (fst kv) /\ mapped m3 (snd kv)) as Hpre4.
    { intros kv Hin. apply in_app_or in Hin as [Hin|[<-|[]]]; [apply Hpre_m; auto|]. cbn [fst snd]. auto. }
    assert (List.length H + 1 <= f + List.length m3) as Hf4 by (unfold m3; rewrite !app_length; lia).
    specialize (IH (pre ++ [(k0, v0)]) h4 m3 h' m' HD4 Ha Hg4 Hk Hpre4 (fun kv Hkv => Hl kv (or_intror Hkv)) Hf4 Hrun).
    destruct IH as [HD' [Hlen' [Hsame' [[e4 [-> He4]] [Hg' Hm']]]]].
    assert (List.length h4 = List.length h3) as Hl4 by (unfold h4; apply push_length).
    split; [exact HD'|]. split; [lia|]. split; [|split; [|split]].
    + intros x Hx Hne. rewrite Hsame' by lia. unfold h4. rewrite get_push_ne by auto.
      rewrite Hsame3 by lia. apply Hsame2. exact Hx.
    + exists (e4 ++ e3 ++ e2). split; [unfold m3; rewrite !app_assoc; reflexivity|].
      pose proof (dci_keys _ _ _ _ HD') as Hnd'.
      intros a a'' Hin. apply in_app_or in Hin as [Hin|Hin]; [destruct (He4 _ _ Hin); split; auto; lia|].
      apply in_app_or in Hin as [Hin|Hin].
      * destruct (He3 _ _ Hin) as [Hd Hge]. split; [|lia].
        assert (a'' < List.length h3) as Hlt3.
        { destruct Hd as [c [_ [_ [Hgc _]]]]. eapply get_lt; eauto. }
        eapply done_stable; [exact Hd| |exact Hnd'].
        rewrite Hsame' by lia. unfold h4. apply get_push_ne. lia.
      * destruct (He2 _ _ Hin) as [Hd Hge]. split; [|lia].
        assert (a'' < List.length h2) as Hlt2.
        { destruct Hd as [c [_ [_ [Hgc _]]]]. eapply get_lt; eauto. }
        replace (e4 ++ m3) with ((e4 ++ e3) ++ (e2 ++ m)) in * by (unfold m3; rewrite !app_assoc; reflexivity).
        eapply done_stable; [exact Hd| |exact Hnd'].
        rewrite Hsame' by lia. unfold h4. rewrite get_push_ne by lia. apply Hsame3. exact Hlt2.
    + rewrite <- app_assoc in Hg'. exact Hg'.
    + intros kv Hin. apply Hm'. rewrite <- app_assoc. exact Hin.
Qed.

Lemma dc_spec : forall T H B f, rec_spec H B f (dc T f).
Proof.
  intros T H B f. induction f as [|f IH]; intros h m v h' m' v' HD Dv Hf Hrun.
  - pose proof (dci_memo_small _ _ _ _ HD). lia.
  - cbn [dc] in Hrun. destruct v as [s|a].
    + inv Hrun. split; [exact HD|]. split; [lia|]. split; [auto|]. split; [|split; [exact I|reflexivity]].
      exists []. split; auto. intros a a' [].
    + destruct (mfind a m) as [a'|] eqn:Ef.
      * inv Hrun. split; [exact HD|]. split; [lia|]. split; [auto|]. split; [|split].
        -- exists []. split; auto. intros a0 a1 [].
        -- cbn. congruence.
        -- cbn. rewrite Ef. reflexivity.
      * destruct (data_ref _ _ Dv) as [c [Hc [Hp Hitems]]].
        pose proof (get_lt _ _ _ Hc) as HaH.
        rewrite (dci_prefix _ _ _ _ HD _ HaH), Hc in Hrun.
        set (a' := List.length h) in *.
        destruct (dc_items (dc T f) a' (h ++ [mkCell (ckind c) []]) ((a, a') :: m) (getstate c)) as [h2 m2] eqn:E.
        inv Hrun. rewrite (getstate_plain c Hp) in E.
        destruct HD as [L P K R G].
        assert (DCI H B (h ++ [mkCell (ckind c) []]) ((a, a') :: m)) as HD1.
        { split.
          - rewrite app_length. cbn. lia.
          - intros x Hx. rewrite get_alloc_old by lia. auto.
          - cbn. constructor; auto. apply mfind_none_keys. exact Ef.
          - intros a0 a1 [Hin|Hin]; rewrite app_length; cbn.
            + inv Hin. unfold a'. lia.
            + destruct (R _ _ Hin). lia.
          - intros b c0 Hb Hgb. rewrite app_length. cbn. destruct (Nat.eq_dec b (List.length h)) as [->|Hne].
            + rewrite get_alloc_new in Hgb. inv Hgb. cbn. split; auto. intros x [].
            + rewrite get_alloc_ne in Hgb by auto. destruct (G _ _ Hb Hgb) as [G1 G2]. split; auto.
              intros x Hx. specialize (G2 x Hx). lia. }
        assert (get (h ++ [mkCell (ckind c) []]) a' = Some (mkCell (ckind c) (map (tr ((a, a') :: m)) []))) as Hga'
            by (apply get_alloc_new).
        assert (List.length H + 1 <= f + S (List.length m)) as Hf1 by lia.
        assert (B <= a') as HBa by (unfold a'; lia).
        destruct (dc_items_spec H B f (dc T f) IH (ckind c) a' (citems c) [] _ _ _ _ HD1 HBa Hga' Hp
                    (fun kv (Hin : In kv []) => match Hin with end) Hitems Hf1 E)
          as [HD2 [Hlen2 [Hsame2 [[e [-> He]] [Hg2 Hm2]]]]].
        cbn [app] in Hg2, Hm2. rewrite app_length in Hlen2. cbn in Hlen2.
        rewrite (setstate_plain T _ _ _ Hg2 Hp).
        split; [exact HD2|]. split; [lia|]. split; [|split; [|split]].
        -- intros x Hx. rewrite Hsame2; [apply get_alloc_old; exact Hx|rewrite app_length; cbn; lia|unfold a'; lia].
        -- exists (e ++ [(a, a')]). split; [rewrite <- app_assoc; reflexivity|].
           intros a0 a1 Hin. apply in_app_or in Hin as [Hin|[Hin|[]]].
           ++ destruct (He _ _ Hin) as [Hd Hge]. split; auto. rewrite app_length in Hge. cbn in Hge. lia.
           ++ inv Hin. split; [|unfold a'; lia]. exists c. auto.
        -- cbn. pose proof (dci_keys _ _ _ _ HD2) as Hnd.
           assert (mfind a ((a, a') :: m) = Some a') as Hf0 by (cbn; rewrite Nat.eqb_refl; reflexivity).
           rewrite (mfind_app_stable _ _ _ _ Hnd Hf0). discriminate.
        -- cbn. pose proof (dci_keys _ _ _ _ HD2) as Hnd.
           assert (mfind a ((a, a') :: m) = Some a') as Hf0 by (cbn; rewrite Nat.eqb_refl; reflexivity).
           rewrite (mfind_app_stable _ _ _ _ Hnd Hf0). reflexivity.
Qed.

(* ------------------------------------------------------------------ deep_copy of data *)
Theorem deep_copy_data : forall T H h v h' v',
    List.length H <= List.length h -> (forall x, x < List.length H -> get h x = get H x) ->
    Data H v -> deep_copy T h v = (h', v') ->
    exists M, NoDup (map fst M) /\ (forall a a', In (a, a') M -> Done H h' M a a' /\ List.length h <= a' < List.length h') /\
              mapped M v /\ v' = trv M v /\
              (forall x, x < List.length h -> get h' x = get h x) /\ List.length h <= List.length h' /\
              (forall b c, List.length h <= b -> get h' b = Some c ->
                           plain (ckind c) = true /\ forall x, In x (crefs c) -> List.length h <= x < List.length h').
Proof.
  intros T H h v h' v' Hlen Hpre Dv Hrun. unfold deep_copy in Hrun.
  destruct (dc T (2 + List.length h) h [] v) as [[h1 m1] v1] eqn:E. inv Hrun.
  assert (DCI H (List.length h) h []) as HD0.
  { split; auto.
    - constructor.
    - intros a a' [].
    - intros b c Hb Hg. apply get_lt in Hg. lia. }
  assert (List.length H + 1 <= 2 + List.length h + List.length (@nil (addr * addr))) as Hf by (cbn; lia).
  destruct (dc_spec T H (List.length h) _ _ _ _ _ _ _ HD0 Dv Hf E) as [HD1 [Hl1 [Hsame [[e [-> He]] [Hm ->]]]]].
  rewrite app_nil_r in *. exists e. split; [apply (dci_keys _ _ _ _ HD1)|]. split; [|split; [exact Hm|split; [reflexivity|]]].
  - intros a a' Hin. destruct (He _ _ Hin) as [Hd Hge]. split; auto. split; auto.
    destruct Hd as [c [_ [_ [Hg _]]]]. eapply get_lt; eauto.
  - split; [exact Hsame|]. split; [exact Hl1|]. intros b c Hb Hg. apply (dci_region _ _ _ _ HD1 b c); auto.
Qed.

(* ------------------------------------------------------------------ consequences *)
Lemma trv_atom : forall M v, is_atom v = true -> trv M v = v.
Proof. intros M [s|a] H; [reflexivity|discriminate]. Qed.

(* the copy reads like the original, from any root, to every depth *)
Lemma homo_obs_val : forall H h' M,
    (forall a a', In (a, a') M -> Done H h' M a a') ->
    forall f r r' v, mapped M v -> obs_val h' r' f (trv M v) = obs_val H r f v.
Proof.
  intros H h' M Hdone f. induction f as [|f IH]; intros r r' v Hm; destruct v as [s|a]; cbn [trv]; try reflexivity.
  - cbn in Hm. destruct (mfind a M) as [a'|]; [reflexivity|congruence].
  - cbn in Hm. destruct (mfind a M) as [a'|] eqn:E; [|congruence]. apply mfind_in in E.
    destruct (Hdone _ _ E) as [c [Hc [Hp [Hg Hmi]]]]. cbn [obs_val]. rewrite Hg, Hc. cbn [ckind citems].
    unfold plain in Hp. apply negb_true_iff in Hp. rewrite Hp.
    assert (map (fun kv => (obs_val h' r' f (fst kv), obs_val h' r' f (snd kv))) (map (tr M) (citems c)) =
            map (fun kv => (obs_val H r f (fst kv), obs_val H r f (snd kv))) (citems c)) as Heq.
    { rewrite map_map. apply map_ext_in. intros kv Hin. destruct (Hmi kv Hin) as [H1 H2]. unfold tr. cbn [fst snd].
      rewrite (IH r r' _ H1), (IH r r' _ H2). reflexivity. }
    rewrite Heq. reflexivity.
Qed.

(* v' in h' is an isomorphic copy of the data v of H: a memo M maps every cell below v to a cell (one that
   satisfies P) that holds the translated items *)
Definition DIso (H : heap) (v : value) (P : addr -> Prop) (h' : heap) (v' : value) : Prop :=
  exists M, NoDup (map fst M) /\ (forall a a', In (a, a') M -> Done H h' M a a' /\ P a') /\ mapped M v /\ v' = trv M v.

Lemma diso_atom : forall H s P h', DIso H (At s) P h' (At s).
Proof.
  intros H s P h'. exists []. split; [constructor|]. split; [intros a a' []|]. split; [exact I|reflexivity].
Qed.

Lemma diso_atom_inv : forall H v P h' v', DIso H v P h' v' -> is_atom v = true -> v' = v.
Proof. intros H v P h' v' [M [_ [_ [_ ->]]]] Ha. apply trv_atom. exact Ha. Qed.

Lemma diso_obs_val : forall H v P h' v', DIso H v P h' v' -> forall f r r', obs_val h' r' f v' = obs_val H r f v.
Proof.
  intros H v P h' v' [M [K [D [Mp ->]]]] f r r'. apply homo_obs_val; auto. intros a a' Hin. apply D. exact Hin.
Qed.

(* reading the copy of one cell *)
Lemma diso_cell : forall H a P h' v', DIso H (Ref a) P h' v' ->
  exists a' c M, v' = Ref a' /\ P a' /\ get H a = Some c /\ plain (ckind c) = true /\
                 get h' a' = Some (mkCell (ckind c) (map (tr M) (citems c))) /\
                 (forall kv, In kv (citems c) -> DIso H (fst kv) P h' (trv M (fst kv)) /\ DIso H (snd kv) P h' (trv M (snd kv))).
Proof.
  intros H a P h' v' [M [K [D [Mp ->]]]]. cbn in Mp. cbn [trv]. destruct (mfind a M) as [a'|] eqn:E; [|congruence].
  apply mfind_in in E. destruct (D _ _ E) as [[c [Hc [Hp [Hg Hm]]]] HP]. exists a', c, M. repeat split; auto.
  - destruct (Hm kv H0). exists M; auto.
  - destruct (Hm kv H0). exists M; auto.
Qed.

(* a later heap that still holds the copied cells *)
Lemma diso_stable : forall H v (P Q : addr -> Prop) h1 v' h2,
    DIso H v P h1 v' -> (forall x, P x -> get h2 x = get h1 x /\ Q x) -> DIso H v Q h2 v'.
Proof.
  intros H v P Q h1 v' h2 [M [K [D [Mp ->]]]] Hsame. exists M. repeat split; auto.
  - destruct (D _ _ H0) as [[c [Hc [Hp [Hg Hm]]]] HP]. exists c. repeat split; auto; try apply Hm; auto.
    rewrite (proj1 (Hsame _ HP)). exact Hg.
  - destruct (D _ _ H0) as [_ HP]. apply Hsame. exact HP.
Qed.

Lemma diso_val : forall H v P h' v', DIso H v P h' v' -> match v' with At _ => v' = v | Ref a' => P a' end.
Proof.
  intros H v P h' v' [M [K [D [Mp ->]]]]. destruct v as [s|a]; cbn; auto.
  cbn in Mp. destruct (mfind a M) as [a'|] eqn:E; [|congruence]. apply mfind_in in E. apply D in E. tauto.
Qed.
