(* C12 — Model.copy: under the static side condition on the table (table_safe) and the typing discipline of
   the heap, everything Model.copy creates points only at cells it created, and the original is untouched. *)
From Coq Require Import List String Bool Arith Lia.
From Cobra.Copy Require Import Heap Model Obs Lemmas Proofs.
Import ListNotations.
Open Scope list_scope.

Ltac inv H := inversion H; subst; clear H.

(* the invariant while the copy m' is under construction: as Ext, except that the attributes S of the new
   model cell (copied by reference by the first loop, overwritten later) may still hold old references *)
Definition pend_ok (n : nat) (S : list string) (kv : value * value) : Prop :=
  item_ok n kv \/ exists s, fst kv = At s /\ In s S.

Record Inv (n : nat) (h0 h : heap) (m' : addr) (S : list string) : Prop := mkInv {
  inv_len : List.length h0 = n;
  inv_prefix : firstn n h = h0;
  inv_m : n <= m' < List.length h;
  inv_kind : forall c, get h m' = Some c -> ckind c = KModel;
  inv_new : forall a c, n <= a -> a <> m' -> get h a = Some c -> cell_ok n c;
  inv_model : forall c, get h m' = Some c -> Forall (pend_ok n S) (citems c)
}.

Lemma inv_le : forall n h0 h m' S, Inv n h0 h m' S -> n <= List.length h.
Proof. intros n h0 h m' S H. destruct (inv_m _ _ _ _ _ H). lia. Qed.

Lemma inv_old : forall n h0 h m' S a, Inv n h0 h m' S -> a < n -> get h a = get h0 a.
Proof. intros n h0 h m' S a H Hlt. rewrite <- (inv_prefix _ _ _ _ _ H). symmetry. apply get_firstn. auto. Qed.

(* any operation that only extends the current heap with self-contained cells keeps the invariant *)
Lemma inv_ext : forall n h0 h h' m' S, Inv n h0 h m' S -> Ext (List.length h) h h' -> Inv n h0 h' m' S.
Proof.
  intros n h0 h h' m' S HI HE. pose proof (inv_le _ _ _ _ _ HI) as Hle. pose proof (ext_le _ _ _ HE) as Hle'.
  destruct HI as [Hl Hp Hm Hk Hn Hmo]. destruct HE as [_ Hp' Hn'].
  assert (forall a, a < List.length h -> get h' a = get h a) as Hsame.
  { intros a Ha. rewrite <- Hp'. symmetry. apply get_firstn. auto. }
  split; auto.
  - rewrite <- Hp, <- Hp'. rewrite firstn_firstn. f_equal. lia.
  - lia.
  - intros c Hg. rewrite Hsame in Hg by lia. auto.
  - intros a c Ha Hne Hg. destruct (Nat.lt_ge_cases a (List.length h)).
    + rewrite Hsame in Hg by auto. eauto.
    + eapply cell_ok_mono; [exact Hle|]. eapply Hn'; eauto.
  - intros c Hg. rewrite Hsame in Hg by lia. auto.
Qed.

Lemma get_app_old : forall (h : heap) c a, a < List.length h -> get (h ++ [c]) a = get h a.
Proof. intros. unfold get. apply nth_error_app1. auto. Qed.

Lemma get_app_new : forall (h : heap) c a c', List.length h <= a -> get (h ++ [c]) a = Some c' -> a = List.length h /\ c' = c.
Proof.
  intros h c a c' Ha Hg. unfold get in Hg. rewrite nth_error_app2 in Hg by auto.
  destruct (a - List.length h) as [|k] eqn:E; cbn in Hg; [inv Hg; split; auto; lia|destruct k; discriminate].
Qed.

Lemma inv_alloc : forall n h0 h m' S c, Inv n h0 h m' S -> cell_ok n c -> Inv n h0 (h ++ [c]) m' S.
Proof.
  intros n h0 h m' S c HI Hc. pose proof (inv_le _ _ _ _ _ HI) as Hle. destruct HI as [Hl Hp Hm Hk Hn Hmo].
  split; auto.
  - rewrite firstn_app. replace (n - List.length h) with 0 by lia. cbn. rewrite app_nil_r. auto.
  - rewrite app_length. cbn. lia.
  - intros c1 Hg. rewrite get_app_old in Hg by lia. auto.
  - intros a c1 Ha Hne Hg. destruct (Nat.lt_ge_cases a (List.length h)).
    + rewrite get_app_old in Hg by auto. eauto.
    + apply get_app_new in Hg as [_ ->]; auto.
  - intros c1 Hg. rewrite get_app_old in Hg by lia. auto.
Qed.

Lemma set_item_Forall : forall (P : value * value -> Prop) k v l, P (k, v) -> Forall P l -> Forall P (set_item k v l).
Proof.
  intros P k v l Hkv. induction l as [|[k' v'] r IH]; intros H; cbn.
  - constructor; auto.
  - inv H. destruct (value_eqb k k').
    + constructor; auto. unfold drop_key. apply Forall_forall. intros x Hx. apply filter_In in Hx as [Hx _].
      rewrite Forall_forall in H3. auto.
    + constructor; auto.
Qed.

Lemma inv_upd_new : forall n h0 h m' S a c c0,
    Inv n h0 h m' S -> n <= a -> get h a = Some c0 -> ckind c = ckind c0 ->
    (a <> m' -> cell_ok n c) -> (a = m' -> Forall (pend_ok n S) (citems c)) -> Inv n h0 (upd h a c) m' S.
Proof.
  intros n h0 h m' S a c c0 HI Ha Hg0 Hk H1 H2. destruct HI as [Hl Hp Hm Hkd Hn Hmo].
  pose proof (get_lt _ _ _ Hg0) as Hlt. split; auto.
  - rewrite firstn_upd_ge; auto.
  - rewrite upd_length. auto.
  - intros c1 Hg. destruct (Nat.eq_dec a m') as [->|Hne].
    + rewrite get_upd_eq in Hg by auto. inv Hg. rewrite Hk. auto.
    + rewrite get_upd_ne in Hg by auto. auto.
  - intros b c1 Hb Hbm Hg. destruct (Nat.eq_dec a b) as [->|Hne].
    + rewrite get_upd_eq in Hg by auto. inv Hg. auto.
    + rewrite get_upd_ne in Hg by auto. eauto.
  - intros c1 Hg. destruct (Nat.eq_dec a m') as [->|Hne].
    + rewrite get_upd_eq in Hg by auto. inv Hg. auto.
    + rewrite get_upd_ne in Hg by auto. auto.
Qed.

Lemma pend_of_ok : forall n S kv, item_ok n kv -> pend_ok n S kv.
Proof. intros; left; auto. Qed.

Lemma inv_put : forall n h0 h m' S a k v,
    Inv n h0 h m' S -> n <= a -> val_ok n k -> val_ok n v -> Inv n h0 (put h a k v) m' S.
Proof.
  intros n h0 h m' S a k v HI Ha Hk Hv. unfold put. destruct (get h a) as [c|] eqn:Hg; auto.
  eapply inv_upd_new; eauto.
  - intros Hne. unfold cell_ok. cbn. apply set_item_ok; auto. eapply (inv_new _ _ _ _ _ HI); eauto.
  - intros ->. cbn. apply set_item_Forall; [left; split; auto|]. eapply (inv_model _ _ _ _ _ HI); eauto.
Qed.

Lemma inv_append : forall n h0 h m' S a e, Inv n h0 h m' S -> n <= a -> val_ok n e -> Inv n h0 (append h a e) m' S.
Proof.
  intros n h0 h m' S a e HI Ha He. unfold append. destruct (get h a) as [c|] eqn:Hg; auto.
  eapply inv_upd_new; eauto.
  - intros Hne. unfold cell_ok. cbn. apply Forall_app. split; [eapply (inv_new _ _ _ _ _ HI); eauto|].
    constructor; [split; cbn; auto|constructor].
  - intros ->. cbn. apply Forall_app. split; [eapply (inv_model _ _ _ _ _ HI); eauto|].
    constructor; [left; split; cbn; auto|constructor].
Qed.

Lemma inv_set_attr : forall n h0 h m' S a s v, Inv n h0 h m' S -> n <= a -> val_ok n v -> Inv n h0 (set_attr h a s v) m' S.
Proof. intros. apply inv_put; auto. Qed.
Lemma inv_set_add : forall n h0 h m' S a e, Inv n h0 h m' S -> n <= a -> val_ok n e -> Inv n h0 (set_add h a e) m' S.
Proof. intros. apply inv_put; auto. Qed.

(* the first loop: new.__dict__[attr] = self.__dict__[attr] *)
Lemma inv_put_pending : forall n h0 h m' S s v,
    Inv n h0 h m' S -> (val_ok n v \/ In s S) -> Inv n h0 (set_attr h m' s v) m' S.
Proof.
  intros n h0 h m' S s v HI Hv. unfold set_attr, put. destruct (get h m') as [c|] eqn:Hg; auto.
  eapply inv_upd_new; eauto; [destruct (inv_m _ _ _ _ _ HI); lia|congruence|].
  intros _. cbn. apply set_item_Forall; [|eapply (inv_model _ _ _ _ _ HI); eauto].
  destruct Hv; [left; split; cbn; auto|right; exists s; auto].
Qed.

(* an explicit assignment new.<s> = <new value> settles attribute s *)
Lemma set_item_settle : forall n S s v l, val_ok n v -> Forall (pend_ok n S) l ->
  Forall (pend_ok n (remove string_dec s S)) (set_item (At s) v l).
Proof.
  intros n S s v l Hv. induction l as [|[k' v'] r IH]; intros H; cbn [set_item].
  - constructor; [left; split; cbn; auto|constructor].
  - inv H.
    assert (forall kv, value_eqb (At s) (fst kv) = false -> pend_ok n S kv -> pend_ok n (remove string_dec s S) kv) as Hkeep.
    { intros kv Hne [Hok|[t [Hk Ht]]]; [left; auto|]. right. exists t. split; auto.
      apply in_in_remove; auto. intro; subst t. rewrite Hk in Hne. cbn in Hne. rewrite String.eqb_refl in Hne. discriminate. }
    destruct (value_eqb (At s) k') eqn:E.
    + constructor; [left; split; cbn; auto|]. unfold drop_key. apply Forall_forall. intros x Hx.
      apply filter_In in Hx as [Hx Hne]. apply negb_true_iff in Hne. rewrite Forall_forall in H3. apply Hkeep; auto.
    + constructor; auto.
Qed.

Lemma inv_settle : forall n h0 h m' S s v,
    Inv n h0 h m' S -> val_ok n v -> Inv n h0 (set_attr h m' s v) m' (remove string_dec s S).
Proof.
  intros n h0 h m' S s v HI Hv. pose proof HI as [Hl Hp Hm Hk Hn Hmo].
  assert (forall l, Forall (pend_ok n S) l -> Forall (pend_ok n S) l) as _ by auto.
  unfold set_attr, put. destruct (get h m') as [c|] eqn:Hg.
  - pose proof (get_lt _ _ _ Hg) as Hlt. split; auto.
    + rewrite firstn_upd_ge; auto. lia.
    + rewrite upd_length. auto.
    + intros c1 Hg1. rewrite get_upd_eq in Hg1 by auto. inv Hg1. cbn. auto.
    + intros b c1 Hb Hbm Hg1. rewrite get_upd_ne in Hg1 by auto. eauto.
    + intros c1 Hg1. rewrite get_upd_eq in Hg1 by auto. inv Hg1. cbn. apply set_item_settle; auto.
  - split; auto; intros c1 Hg1; congruence.
Qed.

(* ---- reads *)
Lemma inv_cell_ok : forall n h0 h m' S a c, Inv n h0 h m' S -> n <= a -> a <> m' -> get h a = Some c -> cell_ok n c.
Proof. intros. eapply inv_new; eauto. Qed.

Lemma lookup_pend : forall n S k l v, Forall (pend_ok n S) l -> lookup k l = Some v ->
  (forall s, k = At s -> ~ In s S) -> val_ok n v.
Proof.
  intros n S k l v H. induction l as [|[k' v'] r IH]; cbn; intros Hl Hk; [discriminate|]. inv H.
  destruct (value_eqb k k') eqn:E; [|auto]. inv Hl. apply value_eqb_eq in E. subst k'.
  destruct H2 as [[_ Hok]|[s [Hs Hin]]]; auto. cbn in Hs. exfalso. eapply Hk; eauto.
Qed.

Lemma inv_attr_ok : forall n h0 h m' S a s v,
    Inv n h0 h m' S -> n <= a -> ~ In s S -> attr_at h a s = Some v -> val_ok n v.
Proof.
  intros n h0 h m' S a s v HI Ha Hs H. unfold attr_at in H. destruct (get h a) as [c|] eqn:Hg; [|discriminate].
  destruct (Nat.eq_dec a m') as [->|Hne].
  - eapply lookup_pend; [eapply (inv_model _ _ _ _ _ HI); eauto|exact H|]. intros t Ht. inv Ht. auto.
  - eapply lookup_ok; [|exact H]. eapply (inv_new _ _ _ _ _ HI); eauto.
Qed.

Lemma inv_elems_ok : forall n h0 h m' S a c x, Inv n h0 h m' S -> n <= a -> get h a = Some c -> In x (elems c) -> val_ok n x.
Proof.
  intros n h0 h m' S a c x HI Ha Hg Hx. destruct (Nat.eq_dec a m') as [->|Hne].
  - unfold elems in Hx. rewrite (inv_kind _ _ _ _ _ HI c Hg) in Hx. contradiction.
  - eapply cell_elems_ok; [|exact Hx]. eapply (inv_new _ _ _ _ _ HI); eauto.
Qed.

Lemma inv_keys_ok : forall n h0 h m' S a c x, Inv n h0 h m' S -> n <= a -> get h a = Some c -> In x (keys c) -> val_ok n x.
Proof.
  intros n h0 h m' S a c x HI Ha Hg Hx. destruct (Nat.eq_dec a m') as [->|Hne].
  - unfold keys in Hx. rewrite (inv_kind _ _ _ _ _ HI c Hg) in Hx. contradiction.
  - eapply cell_keys_ok; [|exact Hx]. eapply (inv_new _ _ _ _ _ HI); eauto.
Qed.

Lemma inv_get_by_id : forall n h0 h m' S dl i x, Inv n h0 h m' S -> n <= dl -> get_by_id h dl i = Some x -> n <= x.
Proof.
  intros n h0 h m' S dl i x HI Hdl H. unfold get_by_id in H. destruct (get h dl) as [c|] eqn:Hg; [|discriminate].
  destruct (find (id_matches h i) (elems c)) as [[s|y]|] eqn:Ef; try discriminate. inv H.
  apply find_some in Ef as [Hin _]. apply (inv_elems_ok _ _ _ _ _ _ _ _ HI Hdl Hg Hin).
Qed.

Lemma inv_dict_keys : forall n h0 h m' S ov x, Inv n h0 h m' S -> (forall v, ov = Some v -> val_ok n v) ->
  In x (dict_keys h ov) -> val_ok n x.
Proof.
  intros n h0 h m' S ov x HI Hov Hin. unfold dict_keys in Hin. destruct ov as [[s|d]|]; try contradiction.
  destruct (get h d) as [c|] eqn:Hg; [|contradiction]. eapply (inv_keys_ok n h0 h m' S d c x HI); auto. apply (Hov (Ref d)). auto.
Qed.

Lemma inv_list_elems : forall n h0 h m' S ov x, Inv n h0 h m' S -> (forall v, ov = Some v -> val_ok n v) ->
  In x (list_elems h ov) -> val_ok n x.
Proof.
  intros n h0 h m' S ov x HI Hov Hin. unfold list_elems in Hin. destruct ov as [[s|d]|]; try contradiction.
  destruct (get h d) as [c|] eqn:Hg; [|contradiction]. eapply (inv_elems_ok n h0 h m' S d c x HI); auto. apply (Hov (Ref d)). auto.
Qed.

(* ---- deep copies and defaults inside the construction *)
Lemma inv_deep_copy : forall T n h0 h m' S v h' v',
    Inv n h0 h m' S -> deep_copy T h v = (h', v') -> Inv n h0 h' m' S /\ val_ok n v'.
Proof.
  intros T n h0 h m' S v h' v' HI H. destruct (deep_copy_ext _ _ _ _ _ H) as [HE Hv]. split.
  - eapply inv_ext; eauto.
  - eapply val_ok_mono; [|exact Hv]. eapply inv_le; eauto.
Qed.

Lemma inv_new_cell : forall n h0 h m' S k h' v, Inv n h0 h m' S -> new_cell h k = (h', v) -> Inv n h0 h' m' S /\ val_ok n v.
Proof.
  intros n h0 h m' S k h' v HI H. destruct (new_cell_ext _ _ _ _ _ _ (ext_refl h) H) as [HE Hv]. split.
  - eapply inv_ext; eauto.
  - eapply val_ok_mono; [|exact Hv]. eapply inv_le; eauto.
Qed.

Lemma inv_default : forall n h0 h m' S k h' v, Inv n h0 h m' S -> default_value h k = (h', v) -> Inv n h0 h' m' S /\ val_ok n v.
Proof.
  intros n h0 h m' S k h' v HI H. destruct (default_value_ext _ _ _ _ _ _ (ext_refl h) H) as [HE Hv]. split.
  - eapply inv_ext; eauto.
  - eapply val_ok_mono; [|exact Hv]. eapply inv_le; eauto.
Qed.

(* ---- typing *)
Definition Typed (T : copytable) (h0 : heap) : Prop := forall a c, get h0 a = Some c -> cell_typed T h0 c = true.

Lemma typed_b_Typed : forall T h, typed_b T h = true -> Typed T h.
Proof.
  intros T h H a c Hg. unfold typed_b in H. rewrite forallb_forall in H. apply H. eapply nth_error_In; exact Hg.
Qed.

Lemma is_atom_ok : forall n v, is_atom v = true -> val_ok n v.
Proof. intros n [s|a] H; cbn in *; auto; discriminate. Qed.

Lemma ktable_safe_mode : forall attrs rel kt s,
    ktable_safe attrs rel kt = true -> mems s (kt_excluded kt) = false -> is_deep (mode_of kt s) = false ->
    is_container (akind_of attrs s) = false.
Proof.
  intros attrs rel kt s H Hex Hd. unfold ktable_safe in H. apply andb_prop in H as [H _]. apply andb_prop in H as [H _].
  rewrite forallb_forall in H. unfold akind_of. induction attrs as [|[k a] r IH]; cbn; auto.
  destruct (String.eqb s k) eqn:E.
  - apply String.eqb_eq in E. subst k. specialize (H (s, a) (or_introl eq_refl)). cbn in H.
    rewrite Hex, Hd in H. rewrite !orb_false_r in H. apply negb_true_iff in H. exact H.
  - apply IH. intros x Hx. apply H. right. exact Hx.
Qed.

Lemma copy_value_inv : forall T n h0 h m' S md v h' v',
    Inv n h0 h m' S -> (is_deep md = false -> val_ok n v /\ is_atom v = true) ->
    copy_value T md h v = (h', v') -> Inv n h0 h' m' S /\ val_ok n v'.
Proof.
  intros T n h0 h m' S md v h' v' HI Hv H. destruct md; cbn in H.
  - inv H. split; auto. apply Hv; auto.
  - destruct (Hv eq_refl) as [Hok Hat]. destruct v as [s|a]; [|discriminate]. cbn in H. inv H. auto.
  - eapply inv_deep_copy; eauto.
Qed.

Lemma copy_attr_inv : forall T n h0 h m' S kt attrs rel a' kv k,
    Inv n h0 h m' S -> n <= a' -> ktable_safe attrs rel kt = true ->
    (forall s, fst kv = At s -> is_atom (snd kv) || is_container (akind_of attrs s) = true) ->
    k = kv -> Inv n h0 (copy_attr T kt attrs a' h kv) m' S.
Proof.
  intros T n h0 h m' S kt attrs rel a' kv k HI Ha Hs Hty _. unfold copy_attr. destruct (fst kv) as [s|x] eqn:Ek; auto.
  destruct (mems s (kt_excluded kt)) eqn:Hex.
  - destruct (default_value h (akind_of attrs s)) as [h1 d] eqn:E. destruct (inv_default _ _ _ _ _ _ _ _ HI E).
    apply inv_set_attr; auto.
  - destruct (copy_value T (mode_of kt s) h (snd kv)) as [h1 v'] eqn:E.
    assert (is_deep (mode_of kt s) = false -> val_ok n (snd kv) /\ is_atom (snd kv) = true) as Hv.
    { intros Hd. pose proof (ktable_safe_mode _ _ _ _ Hs Hex Hd) as Hc. specialize (Hty s eq_refl).
      rewrite Hc, orb_false_r in Hty. split; auto. apply is_atom_ok; auto. }
    destruct (copy_value_inv T n h0 h m' S _ _ _ _ HI Hv E) as [H1 H2].
    apply inv_set_attr; auto.
Qed.

Lemma cell_typed_item : forall T h0 c kv s, cell_typed T h0 c = true -> is_object (ckind c) = true ->
  In kv (citems c) -> fst kv = At s -> is_atom (snd kv) || is_container (akind_of (attrs_of T (ckind c)) s) = true.
Proof.
  intros T h0 c kv s H Ho Hin Hk. unfold cell_typed in H. rewrite Ho in H. rewrite forallb_forall in H.
  specialize (H kv Hin). rewrite Hk in H. exact H.
Qed.

Lemma copy_obj_inv : forall T n h0 h m' S kt attrs rel oc h' a',
    Inv n h0 h m' S -> ktable_safe attrs rel kt = true ->
    (forall kv s, In kv (citems oc) -> fst kv = At s -> is_atom (snd kv) || is_container (akind_of attrs s) = true) ->
    copy_obj T kt attrs h oc = (h', a') -> Inv n h0 h' m' S /\ n <= a' /\ a' <> m'.
Proof.
  intros T n h0 h m' S kt attrs rel oc h' a' HI Hs Hty H. unfold copy_obj in H. inv H.
  pose proof (inv_le _ _ _ _ _ HI) as Hle. destruct (inv_m _ _ _ _ _ HI) as [_ Hm].
  split; [|split; lia].
  apply fold_left_inv.
  - intros h1 kv Hin H1. eapply copy_attr_inv; eauto.
  - apply inv_alloc; auto. constructor.
Qed.
