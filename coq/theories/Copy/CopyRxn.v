(* C12 — functional description of the reaction loop of Model.copy:
       new_reaction = <attribute loop>(reaction); new_reaction._model = new; new.reactions.append(new_reaction)
       for metabolite, stoic in reaction._metabolites.items():
           new_met = new.metabolites.get_by_id(metabolite.id)
           new_reaction._metabolites[new_met] = stoic ; new_met._reaction.add(new_reaction)
       new_reaction.update_genes_from_gpr()
   After the loop every new reaction is a copy of its original whose stoichiometry is keyed by the NEW metabolites
   (same order, same coefficients), whose gene set holds the NEW genes named by its rule, and every new
   metabolite / gene knows exactly the new reactions that use it. *)
From Coq Require Import List String Bool Arith Lia.
From Cobra.Copy Require Import Heap Model Obs Lemmas Proofs CopyHeapFacts CopyData CopyState CopyObj CopySpecies CopyLink.
Import ListNotations.
Open Scope string_scope.
Open Scope list_scope.

Definition rec4 := (addr * addr * addr * addr)%type.
Definition q_old (q : rec4) : addr := fst (fst (fst q)).
Definition q_new (q : rec4) : addr := snd (fst (fst q)).
Definition q_mets (q : rec4) : addr := snd (fst q).
Definition q_genes (q : rec4) : addr := snd q.

Definition has_key (k : value) (l : list (value * value)) : bool := existsb (value_eqb k) (keys_of l).
Definition has_name (nm : option value) (l : list value) : bool :=
  match nm with Some i => existsb (value_eqb i) l | None => false end.

Lemma has_key_in : forall k l, has_key k l = true <-> In k (keys_of l).
Proof.
  intros k l. unfold has_key. rewrite existsb_exists. split.
  - intros [x [Hx He]]. apply value_eqb_eq in He. subst. exact Hx.
  - intros H. exists k. split; auto. apply value_eqb_refl.
Qed.

Lemma has_key_app : forall k l1 l2, has_key k (l1 ++ l2) = has_key k l1 || has_key k l2.
Proof. intros. unfold has_key, keys_of. rewrite map_app, existsb_app. reflexivity. Qed.

Lemma has_name_app : forall nm l1 l2, has_name nm (l1 ++ l2) = has_name nm l1 || has_name nm l2.
Proof. intros [i|] l1 l2; cbn; [apply existsb_app|reflexivity]. Qed.

Section RxnDefs.
  Variable h0 : heap.

  (* the stoichiometry dict and the gene names of the rule of an OLD reaction *)
  Definition sitems (r : addr) : list (value * value) :=
    match attr_at h0 r "_metabolites" with
    | Some (Ref d) => match get h0 d with Some c => citems c | None => [] end
    | _ => []
    end.

  Definition gpr_names (h : heap) (r : addr) : list value :=
    match attr_at h r "_gpr" with
    | Some (Ref g) =>
        match get h g with
        | Some gc =>
            match attr gc "body" with
            | Some b => if is_none b then [] else dict_keys h (attr gc "_genes")
            | None => []
            end
        | None => []
        end
    | _ => []
    end.

  Definition gnames (r : addr) : list value := gpr_names h0 r.

  (* new reactions that use the old metabolite a / the old gene g, among the reactions copied so far *)
  Definition rs_met (a : addr) (RR : list rec4) : list addr :=
    map q_new (filter (fun q => has_key (Ref a) (sitems (q_old q))) RR).
  Definition rs_gene (g : addr) (RR : list rec4) : list addr :=
    map q_new (filter (fun q => has_name (idof h0 g) (gnames (q_old q))) RR).

  Lemma rs_met_app : forall a R1 R2, rs_met a (R1 ++ R2) = rs_met a R1 ++ rs_met a R2.
  Proof. intros. unfold rs_met. rewrite filter_app, map_app. reflexivity. Qed.
  Lemma rs_gene_app : forall a R1 R2, rs_gene a (R1 ++ R2) = rs_gene a R1 ++ rs_gene a R2.
  Proof. intros. unfold rs_gene. rewrite filter_app, map_app. reflexivity. Qed.
  Lemma rs_met_in : forall a RR x, In x (rs_met a RR) -> In x (map q_new RR).
  Proof.
    intros a RR x H. unfold rs_met in H. apply in_map_iff in H as [q [<- Hq]]. apply filter_In in Hq as [Hq _].
    apply in_map. exact Hq.
  Qed.
  Lemma rs_gene_in : forall a RR x, In x (rs_gene a RR) -> In x (map q_new RR).
  Proof.
    intros a RR x H. unfold rs_gene in H. apply in_map_iff in H as [q [<- Hq]]. apply filter_In in Hq as [Hq _].
    apply in_map. exact Hq.
  Qed.

  (* the GPR of an old reaction is plain data whose keys are atoms *)
  Definition GprOk (r : addr) : Prop :=
    forall g gc, attr_at h0 r "_gpr" = Some (Ref g) -> get h0 g = Some gc ->
                 (forall kv, In kv (citems gc) -> is_atom (fst kv) = true) /\
                 (forall b, attr gc "body" = Some b -> is_atom b = true) /\
                 (forall gset gsc, attr gc "_genes" = Some (Ref gset) -> get h0 gset = Some gsc ->
                                   forall kv, In kv (citems gsc) -> is_atom (fst kv) = true).

  Lemma lookup_map_tr : forall M s l, (forall kv, In kv l -> is_atom (fst kv) = true) ->
    lookup (At s) (map (tr M) l) = option_map (trv M) (lookup (At s) l).
  Proof.
    intros M s l. induction l as [|[k v] r IH]; intros Hk; [reflexivity|].
    cbn [map lookup tr fst snd]. pose proof (Hk (k, v) (or_introl eq_refl)) as Hat. cbn in Hat.
    rewrite (trv_atom M k Hat). destruct (value_eqb (At s) k); [reflexivity|].
    apply IH. intros kv Hin. apply Hk. right. exact Hin.
  Qed.

  Lemma keys_map_tr : forall M l, (forall kv, In kv l -> is_atom (fst kv) = true) -> map fst (map (tr M) l) = map fst l.
  Proof.
    intros M l Hk. rewrite map_map. apply map_ext_in. intros kv Hin. unfold tr. cbn. apply trv_atom. auto.
  Qed.

  (* update_genes_from_gpr reads, from the COPY of the rule, the names of the original rule *)
  Lemma gpr_names_copied : forall kt h W r r',
      ObjCopied h0 kt h W r r' -> mems "_gpr" (kt_excluded kt) = false -> GprOk r ->
      gpr_names h r' = gnames r.
  Proof.
    intros kt h W r r' [oc [c' [Ho [Hg [Hk [Hkeys Hat]]]]]] Hex Hok. unfold gnames, gpr_names.
    unfold attr_at. rewrite Hg, Ho.
    destruct (attr oc "_gpr") as [v|] eqn:Ea.
    - unfold attr in Ea. apply lookup_in in Ea as Hin. destruct (Hat "_gpr" v Hin Hex) as [v' [Hv' Hiso]]. rewrite Hv'.
      destruct v as [s|g].
      + rewrite (diso_atom_inv _ _ _ _ _ Hiso eq_refl). reflexivity.
      + destruct (diso_cell _ _ _ _ _ Hiso) as [g' [gc [M [-> [_ [Hgc [Hp [Hg' Hsub]]]]]]]].
        rewrite Hg', Hgc.
        assert (attr_at h0 r "_gpr" = Some (Ref g)) as Hra by (unfold attr_at; rewrite Ho; exact Ea).
        destruct (Hok g gc Hra Hgc) as [Hkeys_at [Hbody Hgenes]].
        unfold attr at 1 3. cbn [citems]. rewrite (lookup_map_tr M "body" _ Hkeys_at).
        destruct (lookup (At "body") (citems gc)) as [b|] eqn:Eb; cbn [option_map]; [|reflexivity].
        rewrite (trv_atom M b (Hbody b Eb)). destruct (is_none b); [reflexivity|].
        unfold attr. cbn [citems]. rewrite (lookup_map_tr M "_genes" _ Hkeys_at).
        destruct (lookup (At "_genes") (citems gc)) as [gv|] eqn:Eg; cbn [option_map]; [|reflexivity].
        destruct gv as [s|gset]; [reflexivity|].
        apply lookup_in in Eg as Hgin. destruct (Hsub _ Hgin) as [_ Hiso2]. cbn [snd] in Hiso2.
        destruct (diso_cell _ _ _ _ _ Hiso2) as [gset' [gsc [M2 [Heq [_ [Hgsc [Hp2 [Hgset' _]]]]]]]].
        rewrite Heq. unfold dict_keys. rewrite Hgset', Hgsc. unfold keys. cbn [ckind citems].
        destruct (is_object (ckind gsc)); [reflexivity|].
        apply keys_map_tr. eapply Hgenes; eauto.
    - assert (attr c' "_gpr" = None) as ->; [|reflexivity].
      unfold attr in *. apply lookup_none_notin. rewrite Hkeys. apply lookup_none_notin. exact Ea.
  Qed.
End RxnDefs.

Section Rxn.
  Variable T : copytable.
  Variable h0 : heap.
  Notation n := (List.length h0).
  Variable m' : addr.
  Variables cx dlm dlg dlr : addr.
  Variable MM GG : list rec3.
  Variable lo : nat.
  Notation ktm := (ct_met T).
  Notation ktg := (ct_gene T).
  Notation ktr := (ct_rxn T).

  (* side conditions on the table *)
  Hypothesis Hm_id : mems "_id" (kt_excluded ktm) = false.
  Hypothesis Hg_id : mems "_id" (kt_excluded ktg) = false.
  Hypothesis Hg_model : mems "_model" (kt_excluded ktg) = true.
  Hypothesis Hr_model : mems "_model" (kt_excluded ktr) = true.
  Hypothesis Hr_mets : mems "_metabolites" (kt_excluded ktr) = true.
  Hypothesis Hr_genes : mems "_genes" (kt_excluded ktr) = true.
  Hypothesis Hr_gpr : mems "_gpr" (kt_excluded ktr) = false.
  Hypothesis Hr_mets_kind : akind_of (ct_attrs_rxn T) "_metabolites" = ADict.

  (* the metabolites and genes copied before: distinct cells, distinct originals, distinct atomic identifiers *)
  Definition base : list addr := [m'; cx; dlm; dlg] ++ flat_map cells3 MM ++ flat_map cells3 GG.
  Hypothesis Hbase_nd : NoDup base.
  Hypothesis Hbase_lo : forall x, In x base -> x < lo.
  Hypothesis Hdlr : ~ In dlr base /\ dlr < lo.
  Hypothesis HMM_old : NoDup (map r_old MM).
  Hypothesis HGG_old : NoDup (map r_old GG).
  Hypothesis HMM_new : NoDup (map r_new MM).
  Hypothesis HGG_new : NoDup (map r_new GG).
  Hypothesis HMM_ids : NoDup (map (fun q => idof h0 (r_old q)) MM).
  Hypothesis HGG_ids : NoDup (map (fun q => idof h0 (r_old q)) GG).
  Hypothesis HMM_idat : forall q, In q MM -> r_old q < n /\ exists i, idof h0 (r_old q) = Some i /\ is_atom i = true.
  Hypothesis HGG_idat : forall q, In q GG -> r_old q < n /\ exists i, idof h0 (r_old q) = Some i /\ is_atom i = true.
  Hypothesis HGG_model : forall q oc, In q GG -> get h0 (r_old q) = Some oc ->
                                      In (At "_model") (keys_of (citems oc)) /\ NoDup (keys_of (citems oc)).

  Lemma base_mm : forall q x, In q MM -> In x (cells3 q) -> In x base.
  Proof. intros q x Hq Hx. unfold base. apply in_or_app. right. apply in_or_app. left. apply in_flat_map. eauto. Qed.
  Lemma base_gg : forall q x, In q GG -> In x (cells3 q) -> In x base.
  Proof. intros q x Hq Hx. unfold base. apply in_or_app. right. apply in_or_app. right. apply in_flat_map. eauto. Qed.
  Lemma base_sp : forall x, In x [m'; cx; dlm; dlg] -> In x base.
  Proof. intros x Hx. unfold base. apply in_or_app. left. exact Hx. Qed.

  Lemma mm_nodup : NoDup (flat_map cells3 MM).
  Proof.
    unfold base in Hbase_nd. apply nodup_app_r in Hbase_nd.
    clear - Hbase_nd. induction (flat_map cells3 MM) as [|x l IH]; [constructor|]. cbn in Hbase_nd. inv Hbase_nd.
    constructor; auto. intro Hin. apply H1. apply in_or_app. left. exact Hin.
  Qed.
  Lemma gg_nodup : NoDup (flat_map cells3 GG).
  Proof. unfold base in Hbase_nd. apply nodup_app_r in Hbase_nd. apply nodup_app_r in Hbase_nd. exact Hbase_nd. Qed.
  Lemma mm_gg_ne : forall q1 q2 x, In q1 MM -> In q2 GG -> In x (cells3 q1) -> In x (cells3 q2) -> False.
  Proof.
    intros q1 q2 x H1 H2 Hx1 Hx2. unfold base in Hbase_nd. apply nodup_app_r in Hbase_nd.
    eapply nodup_app_disj; [exact Hbase_nd| |]; apply in_flat_map; eauto.
  Qed.
  Lemma sp_cells_ne : forall x q y, In x [m'; cx; dlm; dlg] -> (In q MM \/ In q GG) -> In y (cells3 q) -> x <> y.
  Proof.
    intros x q y Hx Hq Hy Heq. subst y. unfold base in Hbase_nd.
    eapply nodup_app_disj; [exact Hbase_nd|exact Hx|]. apply in_or_app. destruct Hq; [left|right]; apply in_flat_map; eauto.
  Qed.

  (* ---------------- the part of the state that concerns the metabolites and genes *)
  Record RI (h : heap) (W : list addr) (cm cg : addr -> list addr) : Prop := mkRI {
    ri_st : St n h0 h W;
    ri_mm : forall q, In q MM -> SpRec h0 m' ktm "_reaction" h W q (set_items (cm (r_old q)));
    ri_gg : forall q, In q GG -> SpRec h0 m' ktg "_reaction" h W q (set_items (cg (r_old q)));
    ri_dlm : get h dlm = Some (mkCell KDictList (dl_items (map r_new MM)));
    ri_dlg : get h dlg = Some (mkCell KDictList (dl_items (map r_new GG)));
    ri_ctx : attr_at h m' "_contexts" = Some (Ref cx) /\ get h cx = Some (mkCell KList []);
    ri_sp : forall x, In x [m'; cx; dlm; dlg] -> In x W
  }.

  (* a step that touches no cell of `base` *)
  Lemma ri_tr_g : forall FP h W h2 W2 cm cg,
      RI h W cm cg -> St n h0 h2 W2 -> Tr FP h W h2 W2 -> FPok h W FP -> (forall x, In x FP -> ~ In x base) ->
      RI h2 W2 cm cg.
  Proof.
    intros FP h W h2 W2 cm cg [HS Hmm Hgg Hdm Hdg [Hc1 Hc2] Hsp] HS2 HT Hi Hfp.
    assert (forall x, In x [m'; cx; dlm; dlg] -> get h2 x = get h x) as Hsame.
    { intros x Hx. apply (tr_same _ _ _ _ _ HT).
      - apply Hsp in Hx. apply (st_W _ _ _ _ HS) in Hx. lia.
      - intro Hin. apply (Hfp x Hin). apply base_sp. exact Hx. }
    split; auto.
    - intros q Hq. eapply sprec_tr_g; [apply Hmm; exact Hq|exact HS|exact HT|exact Hi| |];
        intro Hin; apply (Hfp _ Hin); eapply base_mm; eauto; cbn; auto.
    - intros q Hq. eapply sprec_tr_g; [apply Hgg; exact Hq|exact HS|exact HT|exact Hi| |];
        intro Hin; apply (Hfp _ Hin); eapply base_gg; eauto; cbn; auto.
    - rewrite Hsame; auto. cbn; auto.
    - rewrite Hsame; auto. cbn; auto.
    - split.
      + rewrite (attr_at_agree h h2 m' "_contexts"); auto. apply Hsame. cbn; auto.
      + rewrite Hsame; auto. cbn; auto.
    - intros x Hx. apply (tr_W _ _ _ _ _ HT). auto.
  Qed.

  Lemma ri_tr : forall FP h W h2 W2 cm cg,
      RI h W cm cg -> St n h0 h2 W2 -> Tr FP h W h2 W2 -> incl FP W -> (forall x, In x FP -> ~ In x base) ->
      RI h2 W2 cm cg.
  Proof. intros. eapply ri_tr_g; eauto. apply fpok_incl. auto. Qed.

  Lemma ri_ctx_empty : forall h W cm cg, RI h W cm cg -> CtxEmpty m' h.
  Proof.
    intros h W cm cg HR. destruct (ri_ctx _ _ _ _ HR) as [H1 H2]. unfold CtxEmpty. rewrite H1. unfold list_elems.
    rewrite H2. reflexivity.
  Qed.

  Lemma ri_mm_id : forall h W cm cg q, RI h W cm cg -> In q MM -> attr_at h (r_new q) "_id" = idof h0 (r_old q).
  Proof.
    intros h W cm cg q HR Hq. destruct (HMM_idat q Hq) as [_ [i [Hi Hat]]]. rewrite Hi.
    exact (sprec_id h0 m' ktm "_reaction" h W q _ i (ri_mm _ _ _ _ HR q Hq) Hi Hat Hm_id).
  Qed.
  Lemma ri_gg_id : forall h W cm cg q, RI h W cm cg -> In q GG -> attr_at h (r_new q) "_id" = idof h0 (r_old q).
  Proof.
    intros h W cm cg q HR Hq. destruct (HGG_idat q Hq) as [_ [i [Hi Hat]]]. rewrite Hi.
    exact (sprec_id h0 m' ktg "_reaction" h W q _ i (ri_gg _ _ _ _ HR q Hq) Hi Hat Hg_id).
  Qed.

  (* ---------------- add the new reaction x to the link set of the metabolite record `rec` *)
  Lemma ri_add_met : forall h W cm cg rec x,
      RI h W cm cg -> In rec MM -> ~ In x (cm (r_old rec)) ->
      let h2 := set_add h (r_set rec) (Ref x) in
      RI h2 W (fun a => if Nat.eqb a (r_old rec) then cm a ++ [x] else cm a) cg /\ Tr [r_set rec] h W h2 W.
  Proof.
    intros h W cm cg rec x HR Hrec Hx. cbv zeta. pose proof HR as [HS Hmm Hgg Hdm Hdg [Hc1 Hc2] Hsp].
    destruct (sprec_add h0 m' ktm "_reaction" h W MM rec (fun q => cm (r_old q)) x HS Hrec mm_nodup Hmm Hx)
      as [HS2 [HT2 [Hnew Hothers]]]. cbv zeta in *.
    pose proof (Hmm rec Hrec) as [_ [Hsw _]].
    assert (forall y, In y [m'; cx; dlm; dlg] -> get (set_add h (r_set rec) (Ref x)) y = get h y) as Hsame.
    { intros y Hy. apply get_set_add_ne. intro Heq. eapply (sp_cells_ne y rec (r_set rec)); eauto; cbn; auto. }
    split; [|exact HT2]. split; auto.
    - intros q Hq. destruct (Nat.eqb (r_old q) (r_old rec)) eqn:E.
      + apply Nat.eqb_eq in E. assert (q = rec) as ->.
        { clear - HMM_old Hq Hrec E. induction MM as [|z L IH]; [contradiction|]. cbn in HMM_old. inv HMM_old.
          destruct Hq as [->|Hq], Hrec as [->|Hrec]; auto.
          - exfalso. apply H1. rewrite E. apply in_map. exact Hrec.
          - exfalso. apply H1. rewrite <- E. apply in_map. exact Hq. }
        exact Hnew.
      + apply Hothers; auto. intro; subst. rewrite Nat.eqb_refl in E. discriminate.
    - intros q Hq. eapply sprec_tr; [apply Hgg; exact Hq|exact HS|exact HT2| | |].
      + intros y [<-|[]]. exact Hsw.
      + intros [Heq|[]]. eapply (mm_gg_ne rec q (r_set rec)); eauto; cbn; auto.
      + intros [Heq|[]]. eapply (mm_gg_ne rec q (r_set rec)); eauto; cbn; auto.
    - rewrite Hsame; auto. cbn; auto.
    - rewrite Hsame; auto. cbn; auto.
    - split.
      + rewrite (attr_at_agree h _ m' "_contexts"); auto. apply Hsame. cbn; auto.
      + rewrite Hsame; auto. cbn; auto.
  Qed.

  Lemma ri_add_gene : forall h W cm cg rec x,
      RI h W cm cg -> In rec GG -> ~ In x (cg (r_old rec)) ->
      let h2 := set_add h (r_set rec) (Ref x) in
      RI h2 W cm (fun a => if Nat.eqb a (r_old rec) then cg a ++ [x] else cg a) /\ Tr [r_set rec] h W h2 W.
  Proof.
    intros h W cm cg rec x HR Hrec Hx. cbv zeta. pose proof HR as [HS Hmm Hgg Hdm Hdg [Hc1 Hc2] Hsp].
    destruct (sprec_add h0 m' ktg "_reaction" h W GG rec (fun q => cg (r_old q)) x HS Hrec gg_nodup Hgg Hx)
      as [HS2 [HT2 [Hnew Hothers]]]. cbv zeta in *.
    pose proof (Hgg rec Hrec) as [_ [Hsw _]].
    assert (forall y, In y [m'; cx; dlm; dlg] -> get (set_add h (r_set rec) (Ref x)) y = get h y) as Hsame.
    { intros y Hy. apply get_set_add_ne. intro Heq. eapply (sp_cells_ne y rec (r_set rec)); eauto; cbn; auto. }
    split; [|exact HT2]. split; auto.
    - intros q Hq. eapply sprec_tr; [apply Hmm; exact Hq|exact HS|exact HT2| | |].
      + intros y [<-|[]]. exact Hsw.
      + intros [Heq|[]]. eapply (mm_gg_ne q rec (r_set rec)); eauto; cbn; auto.
      + intros [Heq|[]]. eapply (mm_gg_ne q rec (r_set rec)); eauto; cbn; auto.
    - intros q Hq. destruct (Nat.eqb (r_old q) (r_old rec)) eqn:E.
      + apply Nat.eqb_eq in E. assert (q = rec) as ->.
        { clear - HGG_old Hq Hrec E. induction GG as [|z L IH]; [contradiction|]. cbn in HGG_old. inv HGG_old.
          destruct Hq as [->|Hq], Hrec as [->|Hrec]; auto.
          - exfalso. apply H1. rewrite E. apply in_map. exact Hrec.
          - exfalso. apply H1. rewrite <- E. apply in_map. exact Hq. }
        exact Hnew.
      + apply Hothers; auto. intro; subst. rewrite Nat.eqb_refl in E. discriminate.
    - rewrite Hsame; auto. cbn; auto.
    - rewrite Hsame; auto. cbn; auto.
    - split.
      + rewrite (attr_at_agree h _ m' "_contexts"); auto. apply Hsame. cbn; auto.
      + rewrite Hsame; auto. cbn; auto.
  Qed.

  (* new_gene._model = new, again (Reaction._associate_gene) *)
  Lemma ri_gene_model : forall h W cm cg rec,
      RI h W cm cg -> In rec GG ->
      let h2 := set_attr h (r_new rec) "_model" (Ref m') in
      RI h2 W cm cg /\ Tr [r_new rec] h W h2 W.
  Proof.
    intros h W cm cg rec HR Hrec. cbv zeta. pose proof HR as [HS Hmm Hgg Hdm Hdg [Hc1 Hc2] Hsp].
    pose proof (Hgg rec Hrec) as [Hnw [Hsw [Hne [Hoc [Hmod [Hlk Hset]]]]]].
    destruct (st_set_attr n h0 h W (r_new rec) "_model" (Ref m') HS Hnw) as [HS2 HT2].
    assert (forall y, In y [m'; cx; dlm; dlg] -> get (set_attr h (r_new rec) "_model" (Ref m')) y = get h y) as Hsame.
    { intros y Hy. apply get_set_attr_ne. intro Heq. eapply (sp_cells_ne y rec (r_new rec)); eauto; cbn; auto. }
    split; [|exact HT2]. split; auto.
    - intros q Hq. eapply sprec_tr; [apply Hmm; exact Hq|exact HS|exact HT2| | |].
      + intros y [<-|[]]. exact Hnw.
      + intros [Heq|[]]. eapply (mm_gg_ne q rec (r_new rec)); eauto; cbn; auto.
      + intros [Heq|[]]. eapply (mm_gg_ne q rec (r_new rec)); eauto; cbn; auto.
    - intros q Hq. destruct (Nat.eq_dec (r_new q) (r_new rec)) as [E|E].
      + assert (q = rec) as -> by (eapply (nodup_flat_same cells3 GG q rec (r_new rec)); eauto using gg_nodup; cbn; auto).
        unfold SpRec. split; [exact Hnw|]. split; [exact Hsw|]. split; [exact Hne|].
        destruct (HGG_idat rec Hrec) as [Hlt _].
        split; [|split; [|split]].
        * eapply objcopied_set_attr; [exact Hoc|exact HS|exact Hnw|exact Hg_model|]. intros oc Hoc'. eapply HGG_model; eauto.
        * apply attr_at_set_attr_eq. apply (st_W _ _ _ _ HS) in Hnw. lia.
        * rewrite attr_at_set_attr_ne_name by discriminate. exact Hlk.
        * rewrite get_set_attr_ne by auto. exact Hset.
      + eapply sprec_tr; [apply Hgg; exact Hq|exact HS|exact HT2| | |].
        * intros y [<-|[]]. exact Hnw.
        * intros [Heq|[]]. congruence.
        * intros [Heq|[]]. assert (q = rec) as -> by (eapply (nodup_flat_same cells3 GG q rec (r_new rec)); eauto using gg_nodup; cbn; auto).
          congruence.
    - rewrite Hsame; auto. cbn; auto.
    - rewrite Hsame; auto. cbn; auto.
    - split.
      + rewrite (attr_at_agree h _ m' "_contexts"); auto. apply Hsame. cbn; auto.
      + rewrite Hsame; auto. cbn; auto.
  Qed.

  Lemma ri_ext : forall h W cm cg cm2 cg2,
      RI h W cm cg -> (forall q, In q MM -> cm (r_old q) = cm2 (r_old q)) ->
      (forall q, In q GG -> cg (r_old q) = cg2 (r_old q)) -> RI h W cm2 cg2.
  Proof.
    intros h W cm cg cm2 cg2 [HS Hmm Hgg Hdm Hdg Hc Hsp] E1 E2. split; auto.
    - intros q Hq. rewrite <- (E1 q Hq). auto.
    - intros q Hq. rewrite <- (E2 q Hq). auto.
  Qed.

  Lemma mm_new_inj : forall q1 q2, In q1 MM -> In q2 MM -> r_new q1 = r_new q2 -> q1 = q2.
  Proof.
    intros q1 q2 H1 H2 E. eapply (nodup_flat_same cells3 MM q1 q2 (r_new q1)); eauto using mm_nodup; cbn; auto.
  Qed.
  Lemma gg_new_inj : forall q1 q2, In q1 GG -> In q2 GG -> r_new q1 = r_new q2 -> q1 = q2.
  Proof.
    intros q1 q2 H1 H2 E. eapply (nodup_flat_same cells3 GG q1 q2 (r_new q1)); eauto using gg_nodup; cbn; auto.
  Qed.
  Lemma mm_old_inj : forall q1 q2, In q1 MM -> In q2 MM -> r_old q1 = r_old q2 -> q1 = q2.
  Proof.
    clear - HMM_old. induction MM as [|z L IH]; intros q1 q2 H1 H2 E; [contradiction|]. cbn in HMM_old. inv HMM_old.
    destruct H1 as [->|H1], H2 as [->|H2]; auto.
    - exfalso. apply H3. rewrite E. apply in_map. exact H2.
    - exfalso. apply H3. rewrite <- E. apply in_map. exact H1.
  Qed.
  Lemma gg_id_inj : forall q1 q2, In q1 GG -> In q2 GG -> idof h0 (r_old q1) = idof h0 (r_old q2) -> q1 = q2.
  Proof.
    clear - HGG_ids. induction GG as [|z L IH]; intros q1 q2 H1 H2 E; [contradiction|]. cbn in HGG_ids. inv HGG_ids.
    destruct H1 as [->|H1], H2 as [->|H2]; auto.
    - exfalso. apply H3. rewrite E. apply (in_map (fun q => idof h0 (r_old q))). exact H2.
    - exfalso. apply H3. rewrite <- E. apply (in_map (fun q => idof h0 (r_old q))). exact H1.
  Qed.

  (* ---------------- the stoichiometry loop of the current reaction *)
  Definition fM (kv : value * value) : value * value :=
    (Ref (match fst kv with Ref a => lookup3 a MM | At _ => 0 end), snd kv).
  Definition cur (x a : addr) (p : list (value * value)) : list addr := if has_key (Ref a) p then [x] else [].

  Definition Registered (l : list (value * value)) : Prop :=
    forall kv, In kv l -> exists q, In q MM /\ fst kv = Ref (r_old q).

  Lemma link_met_step : forall h W cm cg r' nd ok p ma coef rec,
      RI h W (fun a => cm a ++ cur r' a p) cg ->
      In nd W -> ~ In nd base -> r' <> nd -> ~ In r' base -> r' < List.length h ->
      get h nd = Some (mkCell KDict (map fM p)) ->
      attr_at h r' "_metabolites" = Some (Ref nd) ->
      In rec MM -> r_old rec = ma -> ~ In (Ref ma) (keys_of p) -> (forall a, ~ In r' (cm a)) -> Registered p ->
      exists h2, link_met dlm r' (h, ok) (Ref ma, coef) = (h2, ok) /\
                 RI h2 W (fun a => cm a ++ cur r' a (p ++ [(Ref ma, coef)])) cg /\
                 get h2 nd = Some (mkCell KDict (map fM (p ++ [(Ref ma, coef)]))) /\
                 attr_at h2 r' "_metabolites" = Some (Ref nd) /\
                 Tr [nd; r_set rec] h W h2 W.
  Proof.
    intros h W cm cg r' nd ok p ma coef rec HR Hnd Hndb Hrn Hrb Hrlt Hgnd Hattr Hrec Hma Hnew Hcm Hreg.
    pose proof (ri_st _ _ _ _ HR) as HS.
    destruct (HMM_idat rec Hrec) as [Hlt [idv [Hid Hidat]]]. rewrite Hma in Hlt, Hid.
    unfold link_met. cbn [fst snd].
    rewrite (st_attr_old n h0 h W ma "_id" HS Hlt). fold (idof h0 ma). rewrite Hid.
    assert (get_by_id h dlm idv = Some (r_new rec)) as Hgb.
    { eapply get_by_id_found; [apply (ri_dlm _ _ _ _ HR)| |exact HMM_ids|exact Hrec|rewrite Hma; exact Hid].
      intros q Hq. eapply ri_mm_id; eauto. }
    rewrite Hgb, Hattr.
    set (a' := r_new rec) in *.
    destruct (st_put n h0 h W nd (Ref a') coef HS Hnd) as [HS1 HT1].
    set (h1 := put h nd (Ref a') coef) in *.
    assert (RI h1 W (fun a => cm a ++ cur r' a p) cg) as HR1.
    { eapply ri_tr; [exact HR|exact HS1|exact HT1| |].
      - intros x [<-|[]]. exact Hnd.
      - intros x [<-|[]]. exact Hndb. }
    pose proof (ri_mm _ _ _ _ HR1 rec Hrec) as [Hnw [Hsw [Hne [Hoc [Hmod [Hlk Hset]]]]]].
    fold a' in Hlk. rewrite Hlk.
    assert (has_key (Ref ma) p = false) as Hk0.
    { destruct (has_key (Ref ma) p) eqn:E; auto. apply has_key_in in E. contradiction. }
    assert (~ In r' ((fun a => cm a ++ cur r' a p) (r_old rec))) as Hx.
    { cbv beta. rewrite Hma. unfold cur. rewrite Hk0, app_nil_r. apply Hcm. }
    destruct (ri_add_met h1 W _ cg rec r' HR1 Hrec Hx) as [HR2 HT2]. cbv zeta in HR2, HT2.
    set (h2 := set_add h1 (r_set rec) (Ref r')) in *.
    assert (nd <> r_set rec) as Hnds.
    { intro Heq. apply Hndb. rewrite Heq. eapply base_mm; eauto. cbn; auto. }
    assert (r' <> r_set rec) as Hrs.
    { intro Heq. apply Hrb. rewrite Heq. eapply base_mm; eauto. cbn; auto. }
    exists h2. split; [reflexivity|]. split; [|split; [|split]].
    - eapply ri_ext; [exact HR2| |auto]. intros q Hq. cbv beta. unfold cur. rewrite has_key_app.
      destruct (Nat.eqb (r_old q) (r_old rec)) eqn:E.
      + apply Nat.eqb_eq in E. rewrite E, Hma, Hk0. cbn [orb has_key keys_of map existsb fst]. rewrite value_eqb_refl.
        cbn [orb]. rewrite app_nil_r. reflexivity.
      + apply Nat.eqb_neq in E. rewrite Hma in E.
        assert (has_key (Ref (r_old q)) [(Ref ma, coef)] = false) as ->.
        { cbn. rewrite orb_false_r. apply Nat.eqb_neq. exact E. }
        rewrite orb_false_r. reflexivity.
    - unfold h2. rewrite get_set_add_ne by auto. unfold h1. rewrite (get_put_eq _ _ _ _ _ Hgnd). cbn [ckind citems].
      rewrite set_item_new.
      + rewrite map_app. cbn [map]. unfold fM at 3. cbn [fst snd]. rewrite <- Hma.
        rewrite (lookup3_found MM rec HMM_old Hrec). reflexivity.
      + intro Hin. unfold keys_of in Hin. rewrite map_map in Hin. apply in_map_iff in Hin as [kv [Hkv Hin]].
        destruct (Hreg kv Hin) as [q [Hq Hfst]]. unfold fM in Hkv. cbn [fst] in Hkv. rewrite Hfst in Hkv.
        rewrite (lookup3_found MM q HMM_old Hq) in Hkv. inv Hkv.
        assert (q = rec) as -> by (apply mm_new_inj; auto).
        apply Hnew. rewrite <- Hfst. apply in_map. exact Hin.
    - unfold attr_at. unfold h2. rewrite get_set_add_ne by auto. unfold h1. rewrite get_put_ne by auto. exact Hattr.
    - pose proof (tr_trans _ _ _ _ _ _ _ _ HT1 HT2) as H. exact H.
  Qed.

  Lemma link_mets_loop : forall l h W cm cg r' nd ok p,
      RI h W (fun a => cm a ++ cur r' a p) cg ->
      In nd W -> ~ In nd base -> r' <> nd -> ~ In r' base -> r' < List.length h ->
      get h nd = Some (mkCell KDict (map fM p)) ->
      attr_at h r' "_metabolites" = Some (Ref nd) ->
      (forall a, ~ In r' (cm a)) -> Registered (p ++ l) -> NoDup (keys_of (p ++ l)) ->
      exists h2, fold_left (link_met dlm r') l (h, ok) = (h2, ok) /\
                 RI h2 W (fun a => cm a ++ cur r' a (p ++ l)) cg /\
                 get h2 nd = Some (mkCell KDict (map fM (p ++ l))) /\
                 attr_at h2 r' "_metabolites" = Some (Ref nd) /\
                 Tr (nd :: map r_set MM) h W h2 W.
  Proof.
    induction l as [|kv l IH]; intros h W cm cg r' nd ok p HR Hnd Hndb Hrn Hrb Hrlt Hgnd Hattr Hcm Hreg Hnodup.
    - exists h. rewrite app_nil_r. split; [reflexivity|]. split; [exact HR|]. split; [exact Hgnd|]. split; [exact Hattr|].
      eapply tr_weaken; [apply tr_refl|]. intros x [].
    - assert (In kv (p ++ kv :: l)) as Hkvin by (apply in_or_app; right; left; reflexivity).
      destruct (Hreg kv Hkvin) as [rec [Hrec Hfst]]. clear Hkvin.
      destruct kv as [k coef]. cbn [fst] in Hfst. subst k.
      assert (~ In (Ref (r_old rec)) (keys_of p)) as Hnew.
      { unfold keys_of in Hnodup. rewrite map_app in Hnodup. cbn in Hnodup. apply NoDup_remove_2 in Hnodup.
        intro Hin. apply Hnodup. apply in_or_app. left. exact Hin. }
      assert (Registered p) as Hregp by (intros x Hx; apply Hreg; apply in_or_app; left; exact Hx).
      destruct (link_met_step h W cm cg r' nd ok p (r_old rec) coef rec HR Hnd Hndb Hrn Hrb Hrlt Hgnd Hattr Hrec eq_refl Hnew Hcm Hregp)
        as [h1 [E1 [HR1 [Hg1 [Ha1 HT1]]]]].
      cbn [fold_left]. rewrite E1.
      replace (p ++ (Ref (r_old rec), coef) :: l) with ((p ++ [(Ref (r_old rec), coef)]) ++ l) in * by (rewrite <- app_assoc; reflexivity).
      assert (r' < List.length h1) as Hrlt1 by (pose proof (tr_len _ _ _ _ _ HT1); lia).
      destruct (IH h1 W cm cg r' nd ok _ HR1 Hnd Hndb Hrn Hrb Hrlt1 Hg1 Ha1 Hcm Hreg Hnodup) as [h2 [E2 [HR2 [Hg2 [Ha2 HT2]]]]].
      exists h2. split; [exact E2|]. split; [exact HR2|]. split; [exact Hg2|]. split; [exact Ha2|].
      pose proof (tr_trans _ _ _ _ _ _ _ _ HT1 HT2) as H. eapply tr_weaken; [exact H|].
      intros x Hx. apply in_app_or in Hx as [[<-|[<-|[]]]|Hx]; [left; reflexivity| |exact Hx].
      right. apply in_map. exact Hrec.
  Qed.

  (* ---------------- update_genes_from_gpr: the loop over the gene names of the rule *)
  Definition curg (x g : addr) (pn : list value) : list addr := if has_name (idof h0 g) pn then [x] else [].
  Definition newG (i : value) : addr := find_id h0 i GG.

  Definition RegNames (l : list value) : Prop := forall i, In i l -> exists q, In q GG /\ idof h0 (r_old q) = Some i.

  Lemma assoc_gene_step : forall h W cm cg r' gs pn nm rec,
      RI h W cm (fun g => cg g ++ curg r' g pn) ->
      In gs W -> ~ In gs base -> ~ In r' base ->
      get h gs = Some (mkCell KSet (set_items (map newG pn))) ->
      In rec GG -> idof h0 (r_old rec) = Some nm -> ~ In nm pn -> (forall g, ~ In r' (cg g)) -> RegNames pn ->
      let h2 := assoc_gene m' dlg r' gs h nm in
      RI h2 W cm (fun g => cg g ++ curg r' g (pn ++ [nm])) /\
      get h2 gs = Some (mkCell KSet (set_items (map newG (pn ++ [nm])))) /\
      Tr [gs; r_set rec; r_new rec] h W h2 W.
  Proof.
    intros h W cm cg r' gs pn nm rec HR Hgs Hgsb Hrb Hggs Hrec Hid Hnew Hcg Hreg. cbv zeta.
    pose proof (ri_st _ _ _ _ HR) as HS.
    unfold assoc_gene.
    assert (get_by_id h dlg nm = Some (r_new rec)) as Hgb.
    { eapply get_by_id_found; [apply (ri_dlg _ _ _ _ HR)| |exact HGG_ids|exact Hrec|exact Hid].
      intros q Hq. eapply ri_gg_id; eauto. }
    rewrite Hgb. set (g' := r_new rec) in *.
    destruct (st_set_add n h0 h W gs (Ref g') HS Hgs) as [HS1 HT1].
    set (h1 := set_add h gs (Ref g')) in *.
    assert (RI h1 W cm (fun g => cg g ++ curg r' g pn)) as HR1.
    { eapply ri_tr; [exact HR|exact HS1|exact HT1| |].
      - intros x [<-|[]]. exact Hgs.
      - intros x [<-|[]]. exact Hgsb. }
    pose proof (ri_gg _ _ _ _ HR1 rec Hrec) as [Hnw [Hsw [Hne [Hoc [Hmod [Hlk Hset]]]]]].
    fold g' in Hlk. rewrite Hlk.
    assert (has_name (Some nm) pn = false) as Hk0.
    { cbn. destruct (existsb (value_eqb nm) pn) eqn:E; auto. apply existsb_exists in E as [x [Hx He]].
      apply value_eqb_eq in He. subst. contradiction. }
    assert (~ In r' ((fun g => cg g ++ curg r' g pn) (r_old rec))) as Hx.
    { cbv beta. unfold curg. rewrite Hid, Hk0, app_nil_r. apply Hcg. }
    destruct (ri_add_gene h1 W cm _ rec r' HR1 Hrec Hx) as [HR2 HT2]. cbv zeta in HR2, HT2.
    set (h2 := set_add h1 (r_set rec) (Ref r')) in *.
    destruct (ri_gene_model h2 W cm _ rec HR2 Hrec) as [HR3 HT3]. cbv zeta in HR3, HT3. fold g' in HR3, HT3.
    set (h3 := set_attr h2 g' "_model" (Ref m')) in *.
    rewrite (record_undo_noop m' h3 _ (ri_ctx_empty _ _ _ _ HR3)).
    assert (gs <> r_set rec) as Hgss by (intro Heq; apply Hgsb; rewrite Heq; eapply base_gg; eauto; cbn; auto).
    assert (gs <> g') as Hgsg by (intro Heq; apply Hgsb; rewrite Heq; eapply base_gg; eauto; cbn; auto).
    split; [|split].
    - eapply ri_ext; [exact HR3|auto|]. intros q Hq. cbv beta. unfold curg. rewrite has_name_app.
      destruct (Nat.eqb (r_old q) (r_old rec)) eqn:E.
      + apply Nat.eqb_eq in E. rewrite E, Hid, Hk0. cbn [orb has_name existsb]. rewrite value_eqb_refl. cbn [orb].
        rewrite app_nil_r. reflexivity.
      + apply Nat.eqb_neq in E.
        assert (has_name (idof h0 (r_old q)) [nm] = false) as ->.
        { destruct (idof h0 (r_old q)) as [i|] eqn:Ei; [|reflexivity]. cbn. rewrite orb_false_r.
          destruct (value_eqb i nm) eqn:Ev; auto. apply value_eqb_eq in Ev. subst i. exfalso. apply E.
          f_equal. apply gg_id_inj; auto. congruence. }
        rewrite orb_false_r. reflexivity.
    - unfold h3. rewrite get_set_attr_ne by auto. unfold h2. rewrite get_set_add_ne by auto.
      unfold h1, set_add. rewrite (get_put_eq _ _ _ _ _ Hggs). cbn [ckind citems]. rewrite set_item_new.
      + rewrite map_app, set_items_app. cbn [map set_items]. unfold newG at 3.
        rewrite (find_id_found h0 GG rec nm HGG_ids Hrec Hid). reflexivity.
      + rewrite keys_set_items. intro Hin. apply in_map_iff in Hin as [y [Hy Hin]]. inv Hy.
        apply in_map_iff in Hin as [i [Hi Hin]]. destruct (Hreg i Hin) as [q [Hq Hqi]].
        unfold newG in Hi. rewrite (find_id_found h0 GG q i HGG_ids Hq Hqi) in Hi.
        assert (q = rec) as -> by (apply gg_new_inj; auto). apply Hnew. congruence.
    - pose proof (tr_trans _ _ _ _ _ _ _ _ (tr_trans _ _ _ _ _ _ _ _ HT1 HT2) HT3) as H. exact H.
  Qed.

  Lemma assoc_genes_loop : forall l h W cm cg r' gs pn,
      RI h W cm (fun g => cg g ++ curg r' g pn) ->
      In gs W -> ~ In gs base -> ~ In r' base ->
      get h gs = Some (mkCell KSet (set_items (map newG pn))) ->
      (forall g, ~ In r' (cg g)) -> RegNames (pn ++ l) -> NoDup (pn ++ l) ->
      let h2 := fold_left (assoc_gene m' dlg r' gs) l h in
      RI h2 W cm (fun g => cg g ++ curg r' g (pn ++ l)) /\
      get h2 gs = Some (mkCell KSet (set_items (map newG (pn ++ l)))) /\
      Tr (gs :: map r_set GG ++ map r_new GG) h W h2 W.
  Proof.
    induction l as [|nm l IH]; intros h W cm cg r' gs pn HR Hgs Hgsb Hrb Hggs Hcg Hreg Hnodup; cbv zeta.
    - rewrite app_nil_r. cbn [fold_left]. split; auto. split; auto. eapply tr_weaken; [apply tr_refl|]. intros x [].
    - assert (In nm (pn ++ nm :: l)) as Hnmin by (apply in_or_app; right; left; reflexivity).
      destruct (Hreg nm Hnmin) as [rec [Hrec Hid]]. clear Hnmin.
      assert (~ In nm pn) as Hnew.
      { apply NoDup_remove_2 in Hnodup. intro Hin. apply Hnodup. apply in_or_app. left. exact Hin. }
      assert (RegNames pn) as Hregp by (intros x Hx; apply Hreg; apply in_or_app; left; exact Hx).
      destruct (assoc_gene_step h W cm cg r' gs pn nm rec HR Hgs Hgsb Hrb Hggs Hrec Hid Hnew Hcg Hregp) as [HR1 [Hg1 HT1]].
      cbv zeta in HR1, Hg1, HT1. cbn [fold_left]. set (h1 := assoc_gene m' dlg r' gs h nm) in *.
      replace (pn ++ nm :: l) with ((pn ++ [nm]) ++ l) in * by (rewrite <- app_assoc; reflexivity).
      destruct (IH h1 W cm cg r' gs _ HR1 Hgs Hgsb Hrb Hg1 Hcg Hreg Hnodup) as [HR2 [Hg2 HT2]]. cbv zeta in HR2, Hg2, HT2.
      split; [exact HR2|]. split; [exact Hg2|].
      pose proof (tr_trans _ _ _ _ _ _ _ _ HT1 HT2) as H. eapply tr_weaken; [exact H|].
      intros x Hx. apply in_app_or in Hx as [[<-|[<-|[<-|[]]]]|Hx]; [left; reflexivity| | |exact Hx].
      + right. apply in_or_app. left. apply in_map. exact Hrec.
      + right. apply in_or_app. right. apply in_map. exact Hrec.
  Qed.

  (* ---------------- one reaction *)
  Record RxOld (r : addr) (oc : cell) : Prop := mkRxOld {
    ro_get : get h0 r = Some oc;
    ro_ok : ObjOk h0 ktr oc;
    ro_k_model : In (At "_model") (keys_of (citems oc));
    ro_k_mets : In (At "_metabolites") (keys_of (citems oc));
    ro_k_genes : In (At "_genes") (keys_of (citems oc));
    ro_mets : exists d dc, attr oc "_metabolites" = Some (Ref d) /\ get h0 d = Some dc;
    ro_reg : Registered (sitems h0 r);
    ro_nd : NoDup (keys_of (sitems h0 r));
    ro_gpr : GprOk h0 r;
    ro_names : RegNames (gnames h0 r);
    ro_names_nd : NoDup (gnames h0 r)
  }.

  Definition RxRec (h : heap) (W : list addr) (q : rec4) : Prop :=
    (In (q_new q) W /\ In (q_mets q) W /\ In (q_genes q) W) /\
    (lo <= q_new q /\ lo <= q_mets q /\ lo <= q_genes q) /\
    ObjCopied h0 ktr h W (q_old q) (q_new q) /\
    attr_at h (q_new q) "_model" = Some (Ref m') /\
    attr_at h (q_new q) "_metabolites" = Some (Ref (q_mets q)) /\
    get h (q_mets q) = Some (mkCell KDict (map fM (sitems h0 (q_old q)))) /\
    attr_at h (q_new q) "_genes" = Some (Ref (q_genes q)) /\
    get h (q_genes q) = Some (mkCell KSet (set_items (map newG (gnames h0 (q_old q))))).

  Lemma rxrec_tr : forall FP h W h2 W2 q,
      RxRec h W q -> St n h0 h W -> Tr FP h W h2 W2 -> FPok h W FP ->
      ~ In (q_new q) FP -> ~ In (q_mets q) FP -> ~ In (q_genes q) FP -> RxRec h2 W2 q.
  Proof.
    clear Hdlr Hbase_lo Hbase_nd.
    intros FP h W h2 W2 q [[W1 [W2' W3]] [Hlo [Hoc [Hmod [Hme [Hnd [Hge Hgs]]]]]]] HS HT Hi N1 N2 N3.
    pose proof (st_W _ _ _ _ HS _ W1) as L1. pose proof (st_W _ _ _ _ HS _ W2') as L2. pose proof (st_W _ _ _ _ HS _ W3) as L3.
    assert (get h2 (q_new q) = get h (q_new q)) as E1 by (apply (tr_same _ _ _ _ _ HT); auto; lia).
    assert (get h2 (q_mets q) = get h (q_mets q)) as E2 by (apply (tr_same _ _ _ _ _ HT); auto; lia).
    assert (get h2 (q_genes q) = get h (q_genes q)) as E3 by (apply (tr_same _ _ _ _ _ HT); auto; lia).
    unfold RxRec. split; [repeat split; apply (tr_W _ _ _ _ _ HT); auto|]. split; [exact Hlo|]. split.
    - eapply objcopied_tr_g; eauto.
    - rewrite !(attr_at_agree _ _ _ _ E1), E2, E3. auto.
  Qed.

  Definition RxInv (h : heap) (W : list addr) (RR : list rec4) : Prop :=
    RI h W (fun a => rs_met h0 a RR) (fun g => rs_gene h0 g RR) /\ In dlr W /\
    get h dlr = Some (mkCell KDictList (dl_items (map q_new RR))) /\
    (forall q, In q RR -> RxRec h W q) /\ lo <= List.length h.

  Definition FPr : list addr := dlr :: map r_set MM ++ map r_set GG ++ map r_new GG.

  Lemma update_genes_eq : forall r' h,
      update_genes m' dlg r' h =
      fold_left (assoc_gene m' dlg r' (List.length h)) (gpr_names h r')
                (set_attr (h ++ [mkCell KSet []]) r' "_genes" (Ref (List.length h))).
  Proof. reflexivity. Qed.

  Lemma base_lt : forall x y, In x base -> lo <= y -> x <> y.
  Proof. intros x y Hx Hy. apply Hbase_lo in Hx. lia. Qed.

  Lemma copy_reaction_desc : forall h W RR r oc ok,
      RxInv h W RR -> RxOld r oc ->
      exists W2 nd gs h2,
        copy_reaction T m' dlr dlm dlg (h, ok) (Ref r) = (h2, ok) /\
        RxInv h2 W2 (RR ++ [(r, List.length h, nd, gs)]) /\ Tr FPr h W h2 W2.
  Proof.
    intros h W RR r oc ok [HR [HdlrW [Hgdlr [Hrecs Hlo]]]]
           [Hget Hok K1 K2 K3 [d [dc [Hmd Hdc]]] Hreg Hnd Hgpr Hnames Hnn].
    pose proof (ri_st _ _ _ _ HR) as HS. destruct Hdlr as [Hdlrb Hdlrlo].
    pose proof (get_lt _ _ _ Hget) as Hrn.
    unfold copy_reaction. rewrite (st_old _ _ _ _ HS r Hrn), Hget.
    destruct (copy_obj T ktr (ct_attrs_rxn T) h oc) as [h1 r1] eqn:E.
    destruct (copy_obj_desc T h0 ktr (ct_attrs_rxn T) h W oc h1 r1 HS Hok E)
      as [-> [W1 [HS1 [HT1 [Hr'W [c' [Hg1 [Hk1 [Hkeys1 HA]]]]]]]]].
    set (r' := List.length h) in *.
    (* the stoichiometry dict the constructor allocated *)
    destruct (keys_in_item _ _ K2) as [vm Hvm].
    pose proof (HA "_metabolites" vm Hvm) as Hd. rewrite Hr_mets, Hr_mets_kind in Hd.
    destruct Hd as [dv [Hd1 [nd [-> [Hndlo [HndW Hndg]]]]]]. cbn [kind_of_akind] in Hndg.
    destruct (st_set_attr n h0 h1 W1 r' "_model" (Ref m') HS1 Hr'W) as [HS2 HT2].
    set (h2 := set_attr h1 r' "_model" (Ref m')) in *.
    assert (In dlr W1) as HdlrW1 by (apply (tr_W _ _ _ _ _ HT1); exact HdlrW).
    destruct (st_append n h0 h2 W1 dlr (Ref r') HS2 HdlrW1) as [HS3 HT3].
    set (h3 := append h2 dlr (Ref r')) in *.
    pose proof (st_W _ _ _ _ HS _ HdlrW) as Hdlr_lt.
    assert (~ In r' base) as Hrb by (intro Hin; apply Hbase_lo in Hin; unfold r' in Hin; lia).
    assert (~ In nd base) as Hndb by (intro Hin; apply Hbase_lo in Hin; unfold r' in *; lia).
    assert (dlr <> r') as Hdr by (unfold r'; lia).
    assert (dlr <> nd) as Hdn by (unfold r' in *; lia).
    assert (r' <> nd) as Hrnd by lia.
    set (c3 := mkCell (ckind c') (set_item (At "_model") (Ref m') (citems c'))).
    assert (get h3 r' = Some c3) as Hg3.
    { unfold h3. rewrite get_append_ne by auto. unfold h2, set_attr. apply get_put_eq. exact Hg1. }
    assert (NoDup (keys_of (citems c'))) as Hnd' by (rewrite Hkeys1; apply (ok_nodup _ _ _ Hok)).
    assert (Tr [r'; dlr] h1 W1 h3 W1) as HT23 by (apply (tr_trans _ _ _ _ _ _ _ _ HT2 HT3)).
    assert (ObjCopied h0 ktr h3 W1 r r') as Hoc3.
    { exists oc, c3. split; [exact Hget|]. split; [exact Hg3|]. split; [exact Hk1|]. split.
      - unfold c3. cbn [citems]. rewrite keys_set_item_in; auto. rewrite Hkeys1. exact K1.
      - intros s v Hin Hex. pose proof (HA s v Hin) as Hv. rewrite Hex in Hv. destruct Hv as [v' [Hv1 Hv2]].
        exists v'. split.
        + unfold c3. rewrite attr_set_item_other; auto. intro; subst. congruence.
        + eapply diso_tr; [exact HS1|exact HT23| |exact Hv2]. intros x [<-|[<-|[]]]; auto. }
    (* RI after the three first statements *)
    assert (RI h3 W1 (fun a => rs_met h0 a RR) (fun g => rs_gene h0 g RR)) as HR3.
    { eapply ri_tr; [|exact HS3|exact HT3| |].
      - eapply ri_tr; [|exact HS2|exact HT2| |].
        + eapply ri_tr; [exact HR|exact HS1|exact HT1| |]; intros x [].
        + intros x [<-|[]]. exact Hr'W.
        + intros x [<-|[]]. exact Hrb.
      - intros x [<-|[]]. exact HdlrW1.
      - intros x [<-|[]]. exact Hdlrb. }
    (* the stoichiometry loop *)
    assert (match attr oc "_metabolites" with
            | Some (Ref d0) => match get h3 d0 with Some dcell => citems dcell | None => [] end
            | _ => [] end = sitems h0 r) as Hitems.
    { unfold sitems, attr_at. rewrite Hget, Hmd, Hdc. rewrite (st_old _ _ _ _ HS3 d (get_lt _ _ _ Hdc)), Hdc. reflexivity. }
    rewrite Hitems.
    assert (RI h3 W1 (fun a => rs_met h0 a RR ++ cur r' a []) (fun g => rs_gene h0 g RR)) as HR3'.
    { eapply ri_ext; [exact HR3| |auto]. intros q Hq. unfold cur. cbn [has_key keys_of map existsb]. symmetry. apply app_nil_r. }
    assert (forall a, ~ In r' (rs_met h0 a RR)) as Hcm.
    { intros a Hin. apply rs_met_in in Hin. apply in_map_iff in Hin as [q [Hq Hin]].
      destruct (Hrecs q Hin) as [[Hw _] _]. apply (st_W _ _ _ _ HS) in Hw. unfold r' in Hq. lia. }
    assert (forall g, ~ In r' (rs_gene h0 g RR)) as Hcg.
    { intros a Hin. apply rs_gene_in in Hin. apply in_map_iff in Hin as [q [Hq Hin]].
      destruct (Hrecs q Hin) as [[Hw _] _]. apply (st_W _ _ _ _ HS) in Hw. unfold r' in Hq. lia. }
    assert (get h3 nd = Some (mkCell KDict (map fM []))) as Hgnd3.
    { rewrite (tr_same _ _ _ _ _ HT23); [exact Hndg|apply (st_W _ _ _ _ HS1); exact HndW|].
      intros [Heq|[Heq|[]]]; congruence. }
    assert (attr_at h3 r' "_metabolites" = Some (Ref nd)) as Hattr3.
    { unfold attr_at. rewrite Hg3. unfold c3. rewrite attr_set_item_other by discriminate. exact Hd1. }
    assert (r' < List.length h3) as Hrlt3 by (apply (st_W _ _ _ _ HS3); exact Hr'W).
    destruct (link_mets_loop (sitems h0 r) h3 W1 _ _ r' nd ok [] HR3' HndW Hndb Hrnd Hrb Hrlt3 Hgnd3 Hattr3 Hcm Hreg Hnd)
      as [h4 [E4 [HR4 [Hgnd4 [Hattr4 HT4]]]]].
    rewrite E4. cbn [app] in HR4, Hgnd4.
    pose proof (ri_st _ _ _ _ HR4) as HS4.
    (* update_genes_from_gpr *)
    assert (FPok h3 W1 (nd :: map r_set MM)) as Hfp4.
    { intros x [<-|Hx]; [left; exact HndW|]. left. apply in_map_iff in Hx as [q [<- Hq]].
      apply (ri_mm _ _ _ _ HR3 q Hq). }
    assert (~ In r' (nd :: map r_set MM)) as Hr'4.
    { intros [Heq|Hin]; [congruence|]. apply Hrb. apply in_map_iff in Hin as [q [<- Hq]]. eapply base_mm; eauto. cbn; auto. }
    assert (ObjCopied h0 ktr h4 W1 r r') as Hoc4 by (eapply objcopied_tr_g; eauto).
    rewrite update_genes_eq. rewrite (gpr_names_copied h0 ktr h4 W1 r r' Hoc4 Hr_gpr Hgpr).
    set (gs := List.length h4) in *.
    destruct (st_alloc n h0 h4 W1 (mkCell KSet []) HS4) as [HS5 HT5]. fold gs in HS5, HT5.
    set (h5 := h4 ++ [mkCell KSet []]) in *.
    assert (In r' (gs :: W1)) as Hr'W5 by (right; exact Hr'W).
    destruct (st_set_attr n h0 h5 (gs :: W1) r' "_genes" (Ref gs) HS5 Hr'W5) as [HS6 HT6].
    set (h6 := set_attr h5 r' "_genes" (Ref gs)) in *.
    assert (lo <= gs) as Hgslo by (unfold gs; pose proof (tr_len _ _ _ _ _ HT4); pose proof (tr_len _ _ _ _ _ HT23); pose proof (tr_len _ _ _ _ _ HT1); lia).
    assert (~ In gs base) as Hgsb by (intro Hin; apply Hbase_lo in Hin; lia).
    assert (r' < gs) as Hrgs by (unfold gs; pose proof (tr_len _ _ _ _ _ HT4); lia).
    assert (nd < gs) as Hndgs by (unfold gs; apply (st_W _ _ _ _ HS4); exact HndW).
    assert (RI h6 (gs :: W1) (fun a => rs_met h0 a RR ++ cur r' a (sitems h0 r)) (fun g => rs_gene h0 g RR)) as HR6a.
    { eapply ri_tr; [|exact HS6|exact HT6| |].
      - eapply ri_tr; [exact HR4|exact HS5|exact HT5| |]; intros x [].
      - intros x [<-|[]]. exact Hr'W5.
      - intros x [<-|[]]. exact Hrb. }
    assert (RI h6 (gs :: W1) (fun a => rs_met h0 a RR ++ cur r' a (sitems h0 r)) (fun g => rs_gene h0 g RR ++ curg r' g [])) as HR6.
    { eapply ri_ext; [exact HR6a|intros; reflexivity|].
      intros q Hq. unfold curg. destruct (idof h0 (r_old q)); cbn [has_name existsb]; symmetry; apply app_nil_r. }
    assert (get h6 gs = Some (mkCell KSet (set_items (map newG [])))) as Hggs6.
    { unfold h6. rewrite get_set_attr_ne by lia. unfold h5, gs. apply get_alloc_new. }
    assert (In gs (gs :: W1)) as HgsW by (left; reflexivity).
    destruct (assoc_genes_loop (gnames h0 r) h6 (gs :: W1) _ _ r' gs [] HR6 HgsW Hgsb Hrb Hggs6 Hcg Hnames Hnn)
      as [HR7 [Hggs7 HT7]]. cbv zeta in HR7, Hggs7, HT7. cbn [app] in HR7, Hggs7.
    set (h7 := fold_left (assoc_gene m' dlg r' gs) (gnames h0 r) h6) in *.
    pose proof (ri_st _ _ _ _ HR7) as HS7.
    exists (gs :: W1), nd, gs, h7. split; [reflexivity|].
    (* the transitions *)
    assert (Tr ([r'; dlr] ++ (nd :: map r_set MM)) h1 W1 h4 W1) as HT14 by (apply (tr_trans _ _ _ _ _ _ _ _ HT23 HT4)).
    assert (Tr ([] ++ [r']) h4 W1 h6 (gs :: W1)) as HT46 by (apply (tr_trans _ _ _ _ _ _ _ _ HT5 HT6)).
    assert (Tr (([] ++ [r']) ++ (gs :: map r_set GG ++ map r_new GG)) h4 W1 h7 (gs :: W1)) as HT47
        by (apply (tr_trans _ _ _ _ _ _ _ _ HT46 HT7)).
    pose proof (tr_trans _ _ _ _ _ _ _ _ HT1 (tr_trans _ _ _ _ _ _ _ _ HT14 HT47)) as HTall.
    set (FPall := [] ++ ([r'; dlr] ++ nd :: map r_set MM) ++ ([] ++ [r']) ++ gs :: map r_set GG ++ map r_new GG) in *.
    assert (forall x, In x FPall -> x = r' \/ x = nd \/ x = gs \/ In x FPr) as HFP.
    { intros x Hx. unfold FPall, FPr in *. cbn [app] in Hx.
      destruct Hx as [<-|[<-|[<-|Hx]]]; auto.
      - right. right. right. left. reflexivity.
      - apply in_app_or in Hx as [Hx|Hx].
        + right. right. right. right. apply in_or_app. left. exact Hx.
        + destruct Hx as [<-|[<-|Hx]]; auto. right. right. right. right. apply in_or_app. right. exact Hx. }
    assert (forall x, In x FPr -> In x W /\ x < lo) as HFPr.
    { intros x [<-|Hx]; [split; auto|]. apply in_app_or in Hx as [Hx|Hx].
      - apply in_map_iff in Hx as [q [<- Hq]]. split; [apply (ri_mm _ _ _ _ HR q Hq)|]. apply Hbase_lo. eapply base_mm; eauto. cbn; auto.
      - apply in_app_or in Hx as [Hx|Hx]; apply in_map_iff in Hx as [q [<- Hq]].
        + split; [apply (ri_gg _ _ _ _ HR q Hq)|]. apply Hbase_lo. eapply base_gg; eauto. cbn; auto.
        + split; [apply (ri_gg _ _ _ _ HR q Hq)|]. apply Hbase_lo. eapply base_gg; eauto. cbn; auto. }
    assert (FPok h W FPall) as HFPok.
    { intros x Hx. destruct (HFP x Hx) as [->|[->|[->|Hx']]]; [right; unfold r'; lia|right; unfold r' in *; lia|right; unfold r' in *; lia|].
      left. apply HFPr. exact Hx'. }
    split.
    - (* RxInv *)
      split; [|split; [|split; [|split]]].
      + eapply ri_ext; [exact HR7| |].
        * intros q Hq. rewrite rs_met_app. f_equal. unfold rs_met, cur. cbn [filter q_old fst snd].
          destruct (has_key (Ref (r_old q)) (sitems h0 r)); reflexivity.
        * intros q Hq. rewrite rs_gene_app. f_equal. unfold rs_gene, curg. cbn [filter q_old fst snd]. fold (gnames h0 r).
          destruct (has_name (idof h0 (r_old q)) (gnames h0 r)); reflexivity.
      + right. exact HdlrW1.
      + assert (get h7 dlr = get h3 dlr) as ->.
        { pose proof (tr_trans _ _ _ _ _ _ _ _ HT4 HT47) as H37. apply (tr_same _ _ _ _ _ H37).
          - apply (st_W _ _ _ _ HS3). exact HdlrW1.
          - intro Hin. apply in_app_or in Hin as [[Heq|Hin]|Hin].
            + congruence.
            + apply Hdlrb. apply in_map_iff in Hin as [q [<- Hq]]. eapply base_mm; eauto. cbn; auto.
            + cbn [app] in Hin. destruct Hin as [Heq|[Heq|Hin]]; [congruence|lia|].
              apply Hdlrb. apply in_app_or in Hin as [Hin|Hin]; apply in_map_iff in Hin as [q [<- Hq]]; eapply base_gg; eauto; cbn; auto. }
        assert (get h2 dlr = Some (mkCell KDictList (dl_items (map q_new RR)))) as Hg2.
        { unfold h2. rewrite get_set_attr_ne by auto. rewrite (tr_same _ _ _ _ _ HT1 dlr); [exact Hgdlr|lia|intros []]. }
        unfold h3. rewrite (get_append_eq _ _ _ _ Hg2). cbn [ckind citems]. unfold dl_items. rewrite map_app, map_app. reflexivity.
      + intros q Hq. apply in_app_or in Hq as [Hq|[<-|[]]].
        * pose proof (Hrecs q Hq) as Hrec. destruct Hrec as [[Hw1 [Hw2 Hw3]] [[Hl1 [Hl2 Hl3]] Hrest]].
          pose proof (st_W _ _ _ _ HS _ Hw1). pose proof (st_W _ _ _ _ HS _ Hw2). pose proof (st_W _ _ _ _ HS _ Hw3).
          eapply rxrec_tr; [split; [split; [exact Hw1|split; [exact Hw2|exact Hw3]]|split; [split; [exact Hl1|split; [exact Hl2|exact Hl3]]|exact Hrest]]
                           |exact HS|exact HTall|exact HFPok| | |];
            intro Hin; destruct (HFP _ Hin) as [Heq|[Heq|[Heq|Hin']]]; try (unfold r' in *; lia); apply HFPr in Hin'; lia.
        * unfold RxRec, q_new, q_mets, q_genes, q_old. cbn [fst snd].
          split; [split; [right; exact Hr'W|split; [right; exact HndW|left; reflexivity]]|].
          split; [unfold r' in *; lia|].
          assert (get h7 r' = get h6 r') as Eg7.
          { apply (tr_same _ _ _ _ _ HT7); [unfold h6; rewrite set_attr_length'; unfold h5; rewrite app_length; cbn; lia|].
            intros [Heq|Hin]; [lia|]. apply Hrb.
            apply in_app_or in Hin as [Hin|Hin]; apply in_map_iff in Hin as [q [<- Hq]]; eapply base_gg; eauto; cbn; auto. }
          assert (get h5 r' = get h4 r') as Eg5 by (unfold h5; apply get_alloc_old; lia).
          assert (FPok h6 (gs :: W1) (gs :: map r_set GG ++ map r_new GG)) as Hfp7.
          { intros x [<-|Hx]; [left; left; reflexivity|]. left. right.
            apply in_app_or in Hx as [Hx|Hx]; apply in_map_iff in Hx as [q [<- Hq]]; apply (ri_gg _ _ _ _ HR3 q Hq). }
          assert (~ In r' (gs :: map r_set GG ++ map r_new GG)) as Hr'7.
          { intros [Heq|Hin]; [lia|]. apply Hrb.
            apply in_app_or in Hin as [Hin|Hin]; apply in_map_iff in Hin as [q [<- Hq]]; eapply base_gg; eauto; cbn; auto. }
          split; [|split; [|split; [|split; [|split]]]].
          -- eapply objcopied_tr_g; [|exact HS6|exact HT7|exact Hfp7|exact Hr'W5|exact Hr'7].
             eapply objcopied_set_attr; [|exact HS5|exact Hr'W5|exact Hr_genes|].
             ++ eapply objcopied_tr_g; [exact Hoc4|exact HS4|exact HT5|intros x []|exact Hr'W|intros []].
             ++ intros oc0 Hoc0. rewrite Hget in Hoc0. inv Hoc0. split; [exact K3|apply (ok_nodup _ _ _ Hok)].
          -- rewrite (attr_at_agree _ _ _ _ Eg7). unfold h6. rewrite attr_at_set_attr_ne_name by discriminate.
             rewrite (attr_at_agree _ _ _ _ Eg5).
             assert (get h4 r' = get h3 r') as Eg4 by (apply (tr_same _ _ _ _ _ HT4); auto).
             rewrite (attr_at_agree _ _ _ _ Eg4). unfold attr_at. rewrite Hg3. unfold c3. apply attr_set_item_same.
          -- rewrite (attr_at_agree _ _ _ _ Eg7). unfold h6. rewrite attr_at_set_attr_ne_name by discriminate.
             rewrite (attr_at_agree _ _ _ _ Eg5). exact Hattr4.
          -- rewrite (tr_same _ _ _ _ _ HT47); [exact Hgnd4|lia|].
             intro Hin. cbn [app] in Hin. destruct Hin as [Heq|[Heq|Hin]]; [congruence|lia|].
             apply Hndb. apply in_app_or in Hin as [Hin|Hin]; apply in_map_iff in Hin as [q [<- Hq]]; eapply base_gg; eauto; cbn; auto.
          -- rewrite (attr_at_agree _ _ _ _ Eg7). unfold h6. apply attr_at_set_attr_eq. unfold h5. rewrite app_length. cbn. lia.
          -- exact Hggs7.
      + pose proof (tr_len _ _ _ _ _ HTall). lia.
    - (* the footprint on the cells that existed *)
      destruct HTall as [L A N S]. split; auto. intros x Hx Hnot. apply S; auto. intro Hin.
      destruct (HFP x Hin) as [->|[->|[->|Hin']]]; try (unfold r' in *; lia). contradiction.
  Qed.

  Lemma reaction_loop_desc : forall (L : list addr) h W RR ok,
      RxInv h W RR -> (forall r, In r L -> exists oc, RxOld r oc) ->
      exists W2 RR2 h2,
        fold_left (copy_reaction T m' dlr dlm dlg) (map Ref L) (h, ok) = (h2, ok) /\
        RxInv h2 W2 (RR ++ RR2) /\ map q_old RR2 = L /\ Tr FPr h W h2 W2 /\
        NoDup (map q_new RR2) /\ (forall q, In q RR2 -> List.length h <= q_new q).
  Proof.
    induction L as [|r L IH]; intros h W RR ok HI HL.
    - exists W, [], h. rewrite app_nil_r. split; [reflexivity|]. split; [exact HI|]. split; [reflexivity|]. split.
      + eapply tr_weaken; [apply tr_refl|]. intros x [].
      + split; [constructor|intros q []].
    - destruct (HL r (or_introl eq_refl)) as [oc Hoc].
      destruct (copy_reaction_desc h W RR r oc ok HI Hoc) as [W1 [nd [gs [h1 [E1 [HI1 HT1]]]]]].
      destruct (IH h1 W1 _ ok HI1 (fun x Hx => HL x (or_intror Hx))) as [W2 [RR2 [h2 [E2 [HI2 [Hold [HT2 [Hnd Hge]]]]]]]].
      exists W2, ((r, List.length h, nd, gs) :: RR2), h2. cbn [map fold_left]. rewrite E1.
      split; [exact E2|]. rewrite <- app_assoc in HI2. split; [exact HI2|]. split; [cbn; f_equal; exact Hold|].
      assert (List.length h < List.length h1) as Hlt.
      { destruct HI1 as [HR1 [_ [_ [Hrecs1 _]]]].
        assert (In (r, List.length h, nd, gs) (RR ++ [(r, List.length h, nd, gs)])) as Hin by (apply in_or_app; right; left; reflexivity).
        destruct (Hrecs1 _ Hin) as [[Hw _] _]. apply (st_W _ _ _ _ (ri_st _ _ _ _ HR1)) in Hw.
        unfold q_new in Hw. cbn [fst snd] in Hw. lia. }
      split; [|split].
      + pose proof (tr_trans _ _ _ _ _ _ _ _ HT1 HT2) as H. eapply tr_weaken; [exact H|].
        intros x Hx. apply in_app_or in Hx as [Hx|Hx]; exact Hx.
      + cbn [map]. unfold q_new at 1. cbn [fst snd]. constructor; auto. intro Hin.
        apply in_map_iff in Hin as [q [Hq Hin]]. apply Hge in Hin. lia.
      + intros q [<-|Hq]; [unfold q_new; cbn; lia|]. apply Hge in Hq. lia.
  Qed.
End Rxn.
