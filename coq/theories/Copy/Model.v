(* C12 — executable model of the copy operations of cobrapy over the heap of Heap.v.

   Mirrors, statement by statement,
     Model.copy                       (core/model.py; table-driven: the do_not_copy_by_ref sets and the way every
                                       other attribute is copied come from Gen/CopyTables.v)
     copy.deepcopy / pickle           with the hooks Object/Species/Reaction/Model.__getstate__,
                                       Reaction/Model.__setstate__, DictList.__reduce__, GPR.__copy__
     Reaction.copy, Species.copy
   `copy(value)` is Python's SHALLOW copy (a new container holding the same element references).      *)
From Coq Require Import List String Bool Arith.
From Cobra.Copy Require Import Heap.
Import ListNotations.
Open Scope string_scope.
Open Scope list_scope.

Definition key_is (k : value) (n : string) : bool :=
  match k with At s => String.eqb s n | Ref _ => false end.

Definition is_none (v : value) : bool := key_is v "None".

(* raw append of a (key, value) pair to a cell (filling a freshly created container) *)
Definition push (h : heap) (a : addr) (k v : value) : heap :=
  match get h a with
  | Some c => upd h a (mkCell (ckind c) (citems c ++ [(k, v)]))
  | None => h
  end.

Definition new_cell (h : heap) (k : kind) : heap * value :=
  let '(h1, a) := alloc h (mkCell k []) in (h1, Ref a).

(* a fresh GPR() : empty gene-name set, no body *)
Definition new_gpr (h : heap) (names : list (value * value)) (body : value) : heap * value :=
  let '(h1, s) := alloc h (mkCell KSet names) in
  let '(h2, g) := alloc h1 (mkCell KGpr [(At "_genes", Ref s); (At "body", body)]) in
  (h2, Ref g).

(* what the constructor of a cobra object puts into an attribute *)
Definition default_value (h : heap) (k : akind) : heap * value :=
  match k with
  | AAtom | ALink => (h, None_)
  | ADict => new_cell h KDict
  | ASet => new_cell h KSet
  | AList => new_cell h KList
  | ADictList => new_cell h KDictList
  | AOpaque => new_cell h KOpaque
  | AGpr => new_gpr h [] None_
  end.

(* ------------------------------------------------------------------ deepcopy / pickle *)
(* __getstate__ of the various classes, as a substitution on the attribute values *)
Inductive sval := SV (v : value) | SEmptySet | SEmptyList | SGpr (v : value).

Definition is_species (k : kind) : bool :=
  match k with KMetabolite | KGene => true | _ => false end.

Definition getstate_item (k : kind) (kv : value * value) : value * sval :=
  let '(n, v) := kv in
  (n,
   match k with
   | KModel => if key_is n "_contexts" then SEmptyList else SV v                 (* Model.__getstate__ *)
   | KMetabolite | KGene =>                                                         (* Species.__getstate__ *)
       if key_is n "_model" then SV None_ else if key_is n "_reaction" then SEmptySet else SV v
   | KGroup => if key_is n "_model" then SV None_ else SV v                       (* Object.__getstate__ *)
   | KReaction => if key_is n "_gpr" then SGpr v else SV v                         (* Reaction.__getstate__ *)
   | _ => SV v
   end).

Definition getstate (c : cell) : list (value * sval) := map (getstate_item (ckind c)) (citems c).

Definition atom_pairs (l : list (value * value)) : list (value * value) :=
  map (fun kv => (fst kv, At "")) (filter (fun kv => is_atom (fst kv)) l).

(* state["_gpr"] = str(self._gpr)  ...  GPR.from_string(state["_gpr"]): a new GPR object with the same text,
   whose gene-name set is recomputed from the text *)
Definition gpr_rebuild (h : heap) (v : value) : heap * value :=
  match v with
  | At _ => (h, v)
  | Ref g =>
      match get h g with
      | Some gc =>
          let body := match attr gc "body" with Some (At s) => At s | _ => None_ end in
          let names := match attr gc "_genes" with
                       | Some (Ref s) => match get h s with Some sc => atom_pairs (citems sc) | None => [] end
                       | _ => [] end in
          new_gpr h names body
      | None => (h, None_)
      end
  end.

Definition memo := list (addr * addr).
Fixpoint mfind (a : addr) (m : memo) : option addr :=
  match m with [] => None | (k, v) :: r => if Nat.eqb a k then Some v else mfind a r end.

Definition dict_keys (h : heap) (v : option value) : list value :=
  match v with
  | Some (Ref d) => match get h d with Some c => keys c | None => [] end
  | _ => []
  end.
Definition list_elems (h : heap) (v : option value) : list value :=
  match v with
  | Some (Ref d) => match get h d with Some c => elems c | None => [] end
  | _ => []
  end.

(* x._model = mdl ; x._reaction.add(self) *)
Definition relink (self : addr) (mdl : value) (h : heap) (x : value) : heap :=
  match x with
  | Ref xa =>
      let h1 := set_attr h xa "_model" mdl in
      match attr_at h1 xa "_reaction" with
      | Some (Ref s) => set_add h1 s (Ref self)
      | _ => h1
      end
  | At _ => h
  end.

Definition repoint (self : addr) (h : heap) (x : value) : heap :=
  match x with Ref xa => set_attr h xa "_model" (Ref self) | At _ => h end.

(* __setstate__ hooks run on the reconstructed object *)
Definition setstate (T : copytable) (h : heap) (a : addr) : heap :=
  match get h a with
  | None => h
  | Some c =>
      match ckind c with
      | KReaction =>                                                               (* Reaction.__setstate__ *)
          let mdl := match attr c "_model" with Some v => v | None => None_ end in
          let h1 := fold_left (relink a mdl) (dict_keys h (attr c "_metabolites")) h in
          fold_left (relink a mdl) (dict_keys h (attr c "_genes")) h1
      | KModel =>                                                                  (* Model.__setstate__ *)
          fold_left (fun h y => fold_left (repoint a) (list_elems h (attr c y)) h) (ct_repoint T) h
      | _ => h
      end
  end.

(* the state of the reconstructed object a' is filled entry by entry with deep copies *)
Fixpoint dc_items (rec : heap -> memo -> value -> heap * memo * value) (a' : addr)
         (h : heap) (m : memo) (l : list (value * sval)) {struct l} : heap * memo :=
  match l with
  | [] => (h, m)
  | (k, sv) :: r =>
      let '(h2, m2, k') := rec h m k in
      let '(h3, m3, v') :=
        match sv with
        | SV v0 => rec h2 m2 v0
        | SEmptySet => let '(hh, s) := new_cell h2 KSet in (hh, m2, s)
        | SEmptyList => let '(hh, s) := new_cell h2 KList in (hh, m2, s)
        | SGpr v0 => let '(hh, g) := gpr_rebuild h2 v0 in (hh, m2, g)
        end in
      dc_items rec a' (push h3 a' k' v') m3 r
  end.

Fixpoint dc (T : copytable) (fuel : nat) (h : heap) (m : memo) (v : value) {struct fuel} : heap * memo * value :=
  match fuel with
  | O => (h, m, At "<fuel>")
  | S f =>
      match v with
      | At _ => (h, m, v)
      | Ref a =>
          match mfind a m with
          | Some a' => (h, m, Ref a')
          | None =>
              match get h a with
              | None => (h, m, At "<dangling>")
              | Some c =>
                  let a' := List.length h in
                  let h1 := h ++ [mkCell (ckind c) []] in
                  let m1 := (a, a') :: m in
                  let '(h2, m2) := dc_items (dc T f) a' h1 m1 (getstate c) in
                  (setstate T h2 a', m2, Ref a')
              end
          end
      end
  end.

Definition deep_copy (T : copytable) (h : heap) (v : value) : heap * value :=
  let '(h1, _, v1) := dc T (2 + List.length h) h [] v in (h1, v1).

(* copy.copy(value): a new container with the SAME element references; GPR.__copy__ is a deep copy *)
Definition shallow_copy (T : copytable) (h : heap) (v : value) : heap * value :=
  match v with
  | At _ => (h, v)
  | Ref a =>
      match get h a with
      | None => (h, v)
      | Some c =>
          match ckind c with
          | KGpr => deep_copy T h v
          | _ => let '(h1, a') := alloc h (mkCell (ckind c) (citems c)) in (h1, Ref a')
          end
      end
  end.

Definition copy_value (T : copytable) (md : mode) (h : heap) (v : value) : heap * value :=
  match md with
  | ByRef => (h, v)
  | Shallow => shallow_copy T h v
  | Deep => deep_copy T h v
  end.

(* ------------------------------------------------------------------ Model.copy *)
(*   new_x = x.__class__()
     for attr, value in x.__dict__.items():
         if attr not in do_not_copy_by_ref: new_x.__dict__[attr] = <copy expression>(value)        *)
Definition copy_attr (T : copytable) (kt : ktable) (attrs : list (string * akind)) (a' : addr)
           (h : heap) (kv : value * value) : heap :=
  match fst kv with
  | At n =>
      if mems n (kt_excluded kt)
      then let '(h1, d) := default_value h (akind_of attrs n) in set_attr h1 a' n d
      else let '(h1, v') := copy_value T (mode_of kt n) h (snd kv) in set_attr h1 a' n v'
  | Ref _ => h
  end.

Definition copy_obj (T : copytable) (kt : ktable) (attrs : list (string * akind)) (h : heap) (oc : cell)
  : heap * addr :=
  let a' := List.length h in
  let h1 := h ++ [mkCell (ckind oc) []] in
  (fold_left (copy_attr T kt attrs a') (citems oc) h1, a').

Definition id_matches (h : heap) (idv : value) (e : value) : bool :=
  match e with
  | Ref x => match attr_at h x "_id" with Some i => value_eqb i idv | None => false end
  | At _ => false
  end.

(* DictList.get_by_id *)
Definition get_by_id (h : heap) (dl : addr) (idv : value) : option addr :=
  match get h dl with
  | None => None
  | Some c => match find (id_matches h idv) (elems c) with Some (Ref x) => Some x | _ => None end
  end.

(* metabolites and genes:  new_x._model = new ; new.<list>.append(new_x) *)
Definition copy_species (T : copytable) (kt : ktable) (attrs : list (string * akind)) (m' dl' : addr)
           (h : heap) (x : value) : heap :=
  match x with
  | Ref xa =>
      match get h xa with
      | Some oc =>
          let '(h1, a') := copy_obj T kt attrs h oc in
          let h2 := set_attr h1 a' "_model" (Ref m') in
          append h2 dl' (Ref a')
      | None => h
      end
  | At _ => h
  end.

(*  new_met = new.metabolites.get_by_id(metabolite.id)
    new_reaction._metabolites[new_met] = stoic ; new_met._reaction.add(new_reaction)     *)
Definition link_met (dlm r' : addr) (hb : heap * bool) (kv : value * value) : heap * bool :=
  let '(h, ok) := hb in
  match fst kv with
  | Ref ma =>
      match attr_at h ma "_id" with
      | Some idv =>
          match get_by_id h dlm idv with
          | Some nm =>
              let h1 := match attr_at h r' "_metabolites" with
                        | Some (Ref nd) => put h nd (Ref nm) (snd kv) | _ => h end in
              let h2 := match attr_at h1 nm "_reaction" with
                        | Some (Ref s) => set_add h1 s (Ref r') | _ => h1 end in
              (h2, ok)
          | None => (h, false)
          end
      | None => (h, false)
      end
  | At _ => (h, false)
  end.

(* Gene(g_id) created by update_genes_from_gpr when the model has no such gene *)
Definition new_gene (h : heap) (m' dlg : addr) (gid : value) : heap * addr :=
  let '(h1, notes) := new_cell h KDict in
  let '(h2, ann) := new_cell h1 KDict in
  let '(h3, rs) := new_cell h2 KSet in
  let '(h4, g) := alloc h3 (mkCell KGene [(At "_id", gid); (At "name", At "s:"); (At "notes", notes);
                                          (At "_annotation", ann); (At "_model", Ref m');
                                          (At "_reaction", rs); (At "_functional", At "b:True")]) in
  (append h4 dlg (Ref g), g).

(* get_context(obj): the innermost HistoryManager of obj._model._contexts, if any.  A HistoryManager is an
   opaque cell whose elements are the objects its recorded undo actions refer to. *)
Definition get_context (h : heap) (m' : addr) : option addr :=
  match last (list_elems h (attr_at h m' "_contexts")) None_ with
  | Ref hm => Some hm
  | At _ => None
  end.

(* context(partial(f, objs...)) *)
Definition record_undo (h : heap) (m' : addr) (objs : list value) : heap :=
  match get_context h m' with
  | Some hm => fold_left (fun h v => append h hm v) objs h
  | None => h
  end.

Definition assoc_gene (m' dlg r' gs : addr) (h : heap) (gid : value) : heap :=
  let '(h1, g) := match get_by_id h dlg gid with
                  | Some g => (h, g)
                  | None => let '(hh, g) := new_gene h m' dlg gid in
                            (record_undo hh m' [Ref m'; Ref g; Ref g], g)    (* remove_genes / setattr undo actions *)
                  end in
  let h2 := set_add h1 gs (Ref g) in                                (* self._genes.add(new_gene) *)
  let h3 := match attr_at h2 g "_reaction" with                     (* _associate_gene *)
            | Some (Ref s) => set_add h2 s (Ref r') | _ => h2 end in
  let h4 := set_attr h3 g "_model" (Ref m') in
  record_undo h4 m' [Ref r'; Ref g].                                (* context(partial(self._dissociate_gene, g)) *)

(* Reaction.update_genes_from_gpr on a reaction that is in model m' and has no genes yet *)
Definition update_genes (m' dlg r' : addr) (h : heap) : heap :=
  let names :=
    match attr_at h r' "_gpr" with
    | Some (Ref g) =>
        match get h g with
        | Some gc =>
            match attr gc "body" with
            | Some b => if is_none b then [] else dict_keys h (attr gc "_genes")
            | None => []
            end
        | None => []
        end
    | _ => []
    end in
  let '(h1, gs) := alloc h (mkCell KSet []) in                      (* self._genes = set() *)
  let h2 := set_attr h1 r' "_genes" (Ref gs) in
  fold_left (assoc_gene m' dlg r' gs) names h2.

Definition copy_reaction (T : copytable) (m' dlr dlm dlg : addr) (hb : heap * bool) (x : value) : heap * bool :=
  let '(h, ok) := hb in
  match x with
  | Ref ra =>
      match get h ra with
      | Some oc =>
          let '(h1, r') := copy_obj T (ct_rxn T) (ct_attrs_rxn T) h oc in
          let h2 := set_attr h1 r' "_model" (Ref m') in
          let h3 := append h2 dlr (Ref r') in
          let old_items := match attr oc "_metabolites" with
                           | Some (Ref d) => match get h3 d with Some dcell => citems dcell | None => [] end
                           | _ => [] end in
          let '(h4, ok4) := fold_left (link_met dlm r') old_items (h3, ok) in
          (update_genes m' dlg r' h4, ok4)
      | None => (h, false)
      end
  | At _ => (h, false)
  end.

Definition copy_group (T : copytable) (m' dlgr : addr) (h : heap) (x : value) : heap :=
  copy_species T (ct_group T) (ct_attrs_group T) m' dlgr h x.

(* second pass over the groups: members are looked up by id in the new lists *)
Definition member_of (dlm dlr dlg dlgr : addr) (h : heap) (x : value) : option addr :=
  match x with
  | Ref xa =>
      match get h xa with
      | Some c =>
          match attr c "_id" with
          | Some idv =>
              match ckind c with
              | KMetabolite => get_by_id h dlm idv
              | KReaction => get_by_id h dlr idv
              | KGene => get_by_id h dlg idv
              | KGroup => get_by_id h dlgr idv
              | _ => None
              end
          | None => None
          end
      | None => None
      end
  | At _ => None
  end.

Definition add_member (dlm dlr dlg dlgr ms : addr) (hb : heap * bool) (x : value) : heap * bool :=
  let '(h, ok) := hb in
  match member_of dlm dlr dlg dlgr h x with
  | Some n => (set_add h ms (Ref n), ok)
  | None => (h, false)
  end.

Definition link_group (dlm dlr dlg dlgr : addr) (hb : heap * bool) (x : value) : heap * bool :=
  let '(h, ok) := hb in
  match x with
  | Ref ga =>
      match attr_at h ga "_id" with
      | Some idv =>
          match get_by_id h dlgr idv with
          | Some ng =>
              match attr_at h ng "_members" with
              | Some (Ref ms) => fold_left (add_member dlm dlr dlg dlgr ms) (dict_keys h (attr_at h ga "_members")) (h, ok)
              | _ => (h, false)
              end
          | None => (h, false)
          end
      | None => (h, false)
      end
  | At _ => (h, false)
  end.

Definition byref_attr (excluded : list string) (m' : addr) (h : heap) (kv : value * value) : heap :=
  match fst kv with
  | At n => if mems n excluded then h else set_attr h m' n (snd kv)
  | Ref _ => h
  end.

Definition explicit_attr (T : copytable) (mc : cell) (m' : addr) (h : heap) (nm : string * mode) : heap :=
  match attr mc (fst nm) with
  | Some v => let '(h1, v') := copy_value T (snd nm) h v in set_attr h1 m' (fst nm) v'
  | None => h
  end.

Definition model_copy (T : copytable) (h : heap) (m : addr) : heap * addr * bool :=
  match get h m with
  | None => (h, m, false)
  | Some mc =>
      let m' := List.length h in
      let h := h ++ [mkCell KModel []] in                                           (* new = self.__class__() *)
      let h := fold_left (byref_attr (ct_model_excluded T) m') (citems mc) h in     (* the by-reference loop *)
      let h := if mems "_contexts" (ct_model_excluded T)                            (* else: the constructor's own [] *)
               then let '(h1, cx) := new_cell h KList in set_attr h1 m' "_contexts" cx else h in
      let h := fold_left (explicit_attr T mc m') (ct_model_explicit T) h in         (* new.notes = deepcopy(..) *)
      let '(h, dlm) := alloc h (mkCell KDictList []) in                             (* new.metabolites = DictList() *)
      let h := set_attr h m' "metabolites" (Ref dlm) in
      let h := fold_left (copy_species T (ct_met T) (ct_attrs_met T) m' dlm) (list_elems h (attr mc "metabolites")) h in
      let '(h, dlg) := alloc h (mkCell KDictList []) in
      let h := set_attr h m' "genes" (Ref dlg) in
      let h := fold_left (copy_species T (ct_gene T) (ct_attrs_gene T) m' dlg) (list_elems h (attr mc "genes")) h in
      let '(h, dlr) := alloc h (mkCell KDictList []) in
      let h := set_attr h m' "reactions" (Ref dlr) in
      let '(h, ok1) := fold_left (copy_reaction T m' dlr dlm dlg) (list_elems h (attr mc "reactions")) (h, true) in
      let '(h, dlgr) := alloc h (mkCell KDictList []) in
      let h := set_attr h m' "groups" (Ref dlgr) in
      let old_groups := list_elems h (attr mc "groups") in
      let h := fold_left (copy_group T m' dlgr) old_groups h in
      let '(h, ok2) := fold_left (link_group dlm dlr dlg dlgr) old_groups (h, ok1) in
      let '(h, sv) := match attr mc "_solver" with                                  (* new._solver = deepcopy(self.solver) *)
                      | Some v => deep_copy T h v | None => (h, None_) end in
      let h := set_attr h m' "_solver" sv in
      let '(h, cx) := new_cell h KList in                                           (* new._contexts = [] *)
      let h := set_attr h m' "_contexts" cx in
      (h, m', ok2)
  end.

(* copy.deepcopy(model) and pickle.loads(pickle.dumps(model)) *)
Definition model_deepcopy (T : copytable) (h : heap) (m : addr) : heap * addr * bool :=
  match deep_copy T h (Ref m) with
  | (h1, Ref m') => (h1, m', true)
  | (h1, At _) => (h1, m, false)
  end.

(* ------------------------------------------------------------------ Reaction.copy / Species.copy *)
Definition set_model_of (v : value) (h : heap) (x : value) : heap :=
  match x with Ref xa => set_attr h xa "_model" v | At _ => h end.

Definition reaction_copy (T : copytable) (h : heap) (r : addr) : heap * addr * bool :=
  match get h r with
  | None => (h, r, false)
  | Some rc =>
      let model := match attr rc "_model" with Some v => v | None => None_ end in
      let mets := dict_keys h (attr rc "_metabolites") in
      let gns := dict_keys h (attr rc "_genes") in
      (* owners: every metabolite / gene keeps its OWN model reference (it may belong to a model although the
         reaction does not any more) *)
      let own := fun x => match x with
                          | Ref xa => match get h xa with
                                      | Some c => match attr c "_model" with Some v => v | None => None_ end
                                      | None => None_ end
                          | At _ => None_ end in
      let h1 := set_attr h r "_model" None_ in
      let h2 := fold_left (set_model_of None_) mets h1 in
      let h3 := fold_left (set_model_of None_) gns h2 in
      let '(h4, v) := deep_copy T h3 (Ref r) in
      let h5 := set_attr h4 r "_model" model in
      let h6 := fold_left (fun hh x => set_model_of (own x) hh x) mets h5 in
      let h7 := fold_left (fun hh x => set_model_of (own x) hh x) gns h6 in
      match v with Ref r' => (h7, r', true) | At _ => (h7, r, false) end
  end.

Definition species_copy (T : copytable) (h : heap) (x : addr) : heap * addr * bool :=
  match deep_copy T h (Ref x) with
  | (h1, Ref x') => (h1, x', true)
  | (h1, At _) => (h1, x, false)
  end.

Inductive cop := OpModelCopy | OpDeepcopy | OpPickle | OpReactionCopy | OpSpeciesCopy.

Definition run_op (T : copytable) (o : cop) (h : heap) (a : addr) : heap * addr * bool :=
  match o with
  | OpModelCopy => model_copy T h a
  | OpDeepcopy | OpPickle => model_deepcopy T h a
  | OpReactionCopy => reaction_copy T h a
  | OpSpeciesCopy => species_copy T h a
  end.
