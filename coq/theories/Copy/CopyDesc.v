(* C12 — Model.copy described functionally, for EVERY heap in which the model is consistent (`ModelOk`):
   the stage lemmas (CopyModelCell, CopySpecies, CopyRxn, CopyGroups) are chained along `model_copy`.
   Result (`CopyDesc`): the copy does not raise (ok = true), and in the final heap
     - the new model holds the atoms of the old one, deep copies of notes / annotation / compartments / solver,
       four new DictLists and a fresh empty context stack;
     - new.metabolites / genes / reactions / groups hold one new object per old object, in order, each a copy of
       its original (`ObjCopied`) that points at the new model;
     - every new reaction's stoichiometry is keyed by the new metabolites (same order and coefficients), its gene
       set holds the new genes named by its rule; every new metabolite / gene knows exactly the new reactions
       that use it; every new group holds the new counterparts of its members (nested groups included). *)
From Coq Require Import List String Bool Arith Lia.
From Cobra.Copy Require Import Heap Model Obs Lemmas Proofs ModelCopy CopyWf CopyStages CopySep CopyHeapFacts CopyData
     CopyState CopyObj CopySpecies CopyLink CopyRxn CopyGroups CopyModelCell.
Import ListNotations.
Open Scope string_scope.
Open Scope list_scope.

(* ------------------------------------------------------------------ side conditions on the table (shape) *)
Record TableShape (T : copytable) : Prop := mkShape {
  sh_m_model : mems "_model" (kt_excluded (ct_met T)) = true;
  sh_m_link : mems "_reaction" (kt_excluded (ct_met T)) = true;
  sh_m_kind : akind_of (ct_attrs_met T) "_reaction" = ASet;
  sh_m_id : mems "_id" (kt_excluded (ct_met T)) = false;
  sh_g_model : mems "_model" (kt_excluded (ct_gene T)) = true;
  sh_g_link : mems "_reaction" (kt_excluded (ct_gene T)) = true;
  sh_g_kind : akind_of (ct_attrs_gene T) "_reaction" = ASet;
  sh_g_id : mems "_id" (kt_excluded (ct_gene T)) = false;
  sh_r_model : mems "_model" (kt_excluded (ct_rxn T)) = true;
  sh_r_mets : mems "_metabolites" (kt_excluded (ct_rxn T)) = true;
  sh_r_genes : mems "_genes" (kt_excluded (ct_rxn T)) = true;
  sh_r_gpr : mems "_gpr" (kt_excluded (ct_rxn T)) = false;
  sh_r_id : mems "_id" (kt_excluded (ct_rxn T)) = false;
  sh_r_kind : akind_of (ct_attrs_rxn T) "_metabolites" = ADict;
  sh_p_model : mems "_model" (kt_excluded (ct_group T)) = true;
  sh_p_link : mems "_members" (kt_excluded (ct_group T)) = true;
  sh_p_kind : akind_of (ct_attrs_group T) "_members" = ASet;
  sh_p_id : mems "_id" (kt_excluded (ct_group T)) = false;
  sh_explicit : forall s, In s ["_contexts"; "metabolites"; "genes"; "reactions"; "groups"; "_solver"] ->
                          ~ In s (map fst (ct_model_explicit T))
}.

Definition table_shape (T : copytable) : bool :=
  mems "_model" (kt_excluded (ct_met T)) && mems "_reaction" (kt_excluded (ct_met T))
  && (match akind_of (ct_attrs_met T) "_reaction" with ASet => true | _ => false end)
  && negb (mems "_id" (kt_excluded (ct_met T)))
  && mems "_model" (kt_excluded (ct_gene T)) && mems "_reaction" (kt_excluded (ct_gene T))
  && (match akind_of (ct_attrs_gene T) "_reaction" with ASet => true | _ => false end)
  && negb (mems "_id" (kt_excluded (ct_gene T)))
  && mems "_model" (kt_excluded (ct_rxn T)) && mems "_metabolites" (kt_excluded (ct_rxn T))
  && mems "_genes" (kt_excluded (ct_rxn T)) && negb (mems "_gpr" (kt_excluded (ct_rxn T)))
  && negb (mems "_id" (kt_excluded (ct_rxn T)))
  && (match akind_of (ct_attrs_rxn T) "_metabolites" with ADict => true | _ => false end)
  && mems "_model" (kt_excluded (ct_group T)) && mems "_members" (kt_excluded (ct_group T))
  && (match akind_of (ct_attrs_group T) "_members" with ASet => true | _ => false end)
  && negb (mems "_id" (kt_excluded (ct_group T)))
  && forallb (fun s => negb (mems s (map fst (ct_model_explicit T))))
             ["_contexts"; "metabolites"; "genes"; "reactions"; "groups"; "_solver"].

Lemma table_shape_sound : forall T, table_shape T = true -> TableShape T.
Proof.
  intros T H. unfold table_shape in H.
  repeat (apply andb_prop in H; let H' := fresh "A" in destruct H as [H H']).
  split; auto;
    try (intros s Hs Hin; rewrite forallb_forall in A; specialize (A s Hs); apply negb_true_iff in A;
         apply mems_In in Hin; congruence);
    repeat match goal with
           | Hn : negb _ = true |- _ => apply negb_true_iff in Hn
           end; auto;
    match goal with
    | Hm : match ?k with _ => _ end = true |- ?k = _ => destruct k; try discriminate; reflexivity
    end.
Qed.

(* ------------------------------------------------------------------ small list facts *)
Lemma nodup_app_lt : forall (l1 l2 : list addr),
    NoDup l1 -> NoDup l2 -> (forall x y, In x l1 -> In y l2 -> x < y) -> NoDup (l1 ++ l2).
Proof.
  intros l1 l2 H1 H2 Hlt. induction l1 as [|a l1 IH]; cbn; auto. inv H1. constructor.
  - intro Hin. apply in_app_or in Hin as [Hin|Hin]; [contradiction|]. pose proof (Hlt a a (or_introl eq_refl) Hin). lia.
  - apply IH; auto. intros x y Hx Hy. apply Hlt; auto. right. exact Hx.
Qed.

Lemma nodup_app_disjoint : forall {A} (l1 l2 : list A),
    NoDup l1 -> NoDup l2 -> (forall x, In x l1 -> In x l2 -> False) -> NoDup (l1 ++ l2).
Proof.
  intros A l1 l2 H1 H2 Hd. induction l1 as [|a l1 IH]; cbn; auto. inv H1. constructor.
  - intro Hin. apply in_app_or in Hin as [Hin|Hin]; [contradiction|]. eapply Hd; [left; reflexivity|exact Hin].
  - apply IH; auto. intros x Hx Hy. eapply Hd; [right; exact Hx|exact Hy].
Qed.

Lemma nodup_map_sub : forall {A} (f : A -> list addr) (g : A -> addr) (L : list A),
    (forall q, In (g q) (f q)) -> NoDup (flat_map f L) -> NoDup (map g L).
Proof.
  intros A f g L Hg. induction L as [|q L IH]; cbn; intros Hnd; [constructor|].
  constructor.
  - intro Hin. apply in_map_iff in Hin as [q2 [E Hq2]].
    eapply (nodup_app_disj (f q) (flat_map f L) (g q)); [exact Hnd|apply Hg|].
    apply in_flat_map. exists q2. split; auto. rewrite <- E. apply Hg.
  - apply IH. eapply nodup_app_r. exact Hnd.
Qed.

Section Desc.
  Variable T : copytable.
  Variable h0 : heap.
  Variable m : addr.
  Variable mc : cell.
  Variables OM OG OR OP : list addr.
  Notation n := (List.length h0).
  Notation m' := (List.length h0).
  Notation ktm := (ct_met T).
  Notation ktg := (ct_gene T).
  Notation ktr := (ct_rxn T).
  Notation ktp := (ct_group T).

  (* ---------------- the consistency of the original model *)
  Definition IdsOk (L : list addr) : Prop :=
    NoDup (map (idof h0) L) /\ forall a, In a L -> a < n /\ exists i, idof h0 a = Some i /\ is_atom i = true.

  Record RxOldO (r : addr) (oc : cell) : Prop := mkRxOldO {
    roo_get : get h0 r = Some oc;
    roo_ok : ObjOk h0 ktr oc;
    roo_k_model : In (At "_model") (keys_of (citems oc));
    roo_k_mets : In (At "_metabolites") (keys_of (citems oc));
    roo_k_genes : In (At "_genes") (keys_of (citems oc));
    roo_mets : exists d dc, attr oc "_metabolites" = Some (Ref d) /\ get h0 d = Some dc;
    roo_reg : forall kv, In kv (sitems h0 r) -> exists a, In a OM /\ fst kv = Ref a;
    roo_nd : NoDup (keys_of (sitems h0 r));
    roo_gpr : GprOk h0 r;
    roo_names : forall i, In i (gnames h0 r) -> exists g, In g OG /\ idof h0 g = Some i;
    roo_names_nd : NoDup (gnames h0 r)
  }.

  Definition MemberOkO (x : value) : Prop :=
    exists xa c idx, x = Ref xa /\ get h0 xa = Some c /\ attr c "_id" = Some idx /\
                     match ckind c with
                     | KMetabolite => In xa OM | KReaction => In xa OR | KGene => In xa OG | KGroup => In xa OP
                     | _ => False
                     end.

  Definition members0 (ga : addr) : list value := dict_keys h0 (attr_at h0 ga "_members").

  Record GrpOldO (ga : addr) : Prop := mkGrpOldO {
    goo_set : exists ms0 msc, attr_at h0 ga "_members" = Some (Ref ms0) /\ get h0 ms0 = Some msc;
    goo_members : forall x, In x (members0 ga) -> MemberOkO x;
    goo_nodup : NoDup (members0 ga)
  }.

  Record ModelOk : Prop := mkModelOk {
    mo_wf : heap_wf h0;
    mo_get : get h0 m = Some mc;
    mo_kind : ckind mc = KModel;
    mo_names : forall kv, In kv (citems mc) -> exists s, fst kv = At s;
    mo_nodup : NoDup (keys_of (citems mc));
    mo_explicit : forall nm, In nm (ct_model_explicit T) -> exists v, attr mc (fst nm) = Some v /\ Data h0 v;
    mo_solver : exists v, attr mc "_solver" = Some v /\ Data h0 v;
    mo_lm : list_elems h0 (attr mc "metabolites") = map Ref OM;
    mo_lg : list_elems h0 (attr mc "genes") = map Ref OG;
    mo_lr : list_elems h0 (attr mc "reactions") = map Ref OR;
    mo_lp : list_elems h0 (attr mc "groups") = map Ref OP;
    mo_mets : forall a, In a OM -> exists oc, SpOld h0 ktm "_reaction" a oc;
    mo_genes : forall a, In a OG -> exists oc, SpOld h0 ktg "_reaction" a oc;
    mo_grps : forall a, In a OP -> exists oc, SpOld h0 ktp "_members" a oc;
    mo_ids_m : IdsOk OM;
    mo_ids_g : IdsOk OG;
    mo_ids_r : IdsOk OR;
    mo_ids_p : IdsOk OP;
    mo_rxns : forall r, In r OR -> exists oc, RxOldO r oc;
    mo_grp2 : forall ga, In ga OP -> GrpOldO ga
  }.

  (* ---------------- what the final heap looks like *)
  Definition pairs3 (L : list rec3) : list (addr * addr) := map (fun q => (r_old q, r_new q)) L.
  Definition pairs4 (L : list rec4) : list (addr * addr) := map (fun q => (q_old q, q_new q)) L.

  Inductive CopyDesc (h' : heap) : Prop :=
  | mkCopyDesc : forall (W : list addr) (MM GG PP : list rec3) (RR : list rec4) (dlm dlg dlr dlgr cx : addr),
      St n h0 h' W ->
      (* the model cell *)
      MCell m' h' ->
      attr_at h' m' "metabolites" = Some (Ref dlm) -> attr_at h' m' "genes" = Some (Ref dlg) ->
      attr_at h' m' "reactions" = Some (Ref dlr) -> attr_at h' m' "groups" = Some (Ref dlgr) ->
      (n <= dlm /\ n <= dlg /\ n <= dlr /\ n <= dlgr) ->
      (attr_at h' m' "_contexts" = Some (Ref cx) /\ get h' cx = Some (mkCell KList []) /\ n <= cx) ->
      (forall s, In s ("_solver" :: map fst (ct_model_explicit T)) ->
                 exists v v', attr mc s = Some v /\ attr_at h' m' s = Some v' /\ DIso h0 v (PD n W (List.length h')) h' v') ->
      (forall s, ~ In s ("_contexts" :: "_solver" :: "metabolites" :: "genes" :: "reactions" :: "groups"
                                     :: map fst (ct_model_explicit T)) ->
                 attr_at h' m' s = if mems s (ct_model_excluded T) then None else attr mc s) ->
      (* the four lists *)
      get h' dlm = Some (mkCell KDictList (dl_items (map r_new MM))) -> map r_old MM = OM ->
      get h' dlg = Some (mkCell KDictList (dl_items (map r_new GG))) -> map r_old GG = OG ->
      get h' dlr = Some (mkCell KDictList (dl_items (map q_new RR))) -> map q_old RR = OR ->
      get h' dlgr = Some (mkCell KDictList (dl_items (map r_new PP))) -> map r_old PP = OP ->
      (* the objects *)
      (forall q, In q MM -> SpRec h0 m' ktm "_reaction" h' W q (set_items (rs_met h0 (r_old q) RR))) ->
      (forall q, In q GG -> SpRec h0 m' ktg "_reaction" h' W q (set_items (rs_gene h0 (r_old q) RR))) ->
      (forall q, In q RR -> exists lo, RxRec T h0 m' MM GG lo h' W q) ->
      (forall q, In q PP -> SpRec h0 m' ktp "_members" h' W q
                                  (set_items (map (new_member h0 (pairs3 MM) (pairs3 GG) (pairs4 RR) (pairs3 PP))
                                                  (members h0 (r_old q))))) ->
      CopyDesc h'.
End Desc.
