(* C12 — a small heap model of Python object graphs (DESIGN 3.4 "Object identity", scaled down).

   Values are immutable atoms (rendered canonically as strings by the harness: numbers, strings, None,
   booleans) or addresses of heap cells.  Every heap cell is MUTABLE: a cobra object (kind + attribute map),
   a dict, a list, a set, a DictList, a GPR, or an opaque external object (the optlang solver, a
   HistoryManager).  All cells share one representation: a kind tag and a list of (key, value) pairs
     object / GPR : (At attribute-name, value)        dict : (key, value)
     list / DictList : (At "", element)               set  : (element, At "")
   so "what a cell points at" is uniform.  Addresses are positions in the heap list; allocation appends. *)
From Coq Require Import List String Bool Arith Lia.
Import ListNotations.
Open Scope string_scope.
Open Scope list_scope.

Definition addr := nat.
Inductive value := At (s : string) | Ref (a : addr).
Inductive kind := KModel | KReaction | KMetabolite | KGene | KGroup | KGpr | KDictList | KDict | KList | KSet | KOpaque.
Record cell := mkCell { ckind : kind; citems : list (value * value) }.
Definition heap := list cell.

Definition value_eqb (a b : value) : bool :=
  match a, b with
  | At s, At t => String.eqb s t
  | Ref x, Ref y => Nat.eqb x y
  | _, _ => false
  end.

Definition kind_code (k : kind) : nat :=
  match k with KModel => 0 | KReaction => 1 | KMetabolite => 2 | KGene => 3 | KGroup => 4 | KGpr => 5
             | KDictList => 6 | KDict => 7 | KList => 8 | KSet => 9 | KOpaque => 10 end.
Definition kind_eqb (a b : kind) : bool := Nat.eqb (kind_code a) (kind_code b).

Definition is_atom (v : value) : bool := match v with At _ => true | Ref _ => false end.
Definition None_ : value := At "None".

(* ------------------------------------------------------------------ heap primitives *)
Definition get (h : heap) (a : addr) : option cell := nth_error h a.

Fixpoint upd (h : heap) (a : addr) (c : cell) : heap :=
  match h, a with
  | [], _ => []
  | _ :: r, O => c :: r
  | x :: r, S n => x :: upd r n c
  end.

Definition alloc (h : heap) (c : cell) : heap * addr := (h ++ [c], List.length h).

Fixpoint lookup (k : value) (l : list (value * value)) : option value :=
  match l with
  | [] => None
  | (k', v) :: r => if value_eqb k k' then Some v else lookup k r
  end.

(* Python `d[k] = v`: replace the value of an existing key, else append (a dict / an attribute map never
   holds a key twice, so any further entry with that key is dropped) *)
Definition drop_key (k : value) (l : list (value * value)) : list (value * value) :=
  filter (fun kv => negb (value_eqb k (fst kv))) l.

Fixpoint set_item (k v : value) (l : list (value * value)) : list (value * value) :=
  match l with
  | [] => [(k, v)]
  | (k', v') :: r => if value_eqb k k' then (k, v) :: drop_key k r else (k', v') :: set_item k v r
  end.

Definition attr (c : cell) (n : string) : option value := lookup (At n) (citems c).
Definition attr_at (h : heap) (a : addr) (n : string) : option value :=
  match get h a with Some c => attr c n | None => None end.

(* obj.<n> = v   /   d[k] = v   /   s.add(k) *)
Definition put (h : heap) (a : addr) (k v : value) : heap :=
  match get h a with
  | Some c => upd h a (mkCell (ckind c) (set_item k v (citems c)))
  | None => h
  end.
Definition set_attr (h : heap) (a : addr) (n : string) (v : value) : heap := put h a (At n) v.
Definition set_add (h : heap) (a : addr) (e : value) : heap := put h a e (At "").
(* l.append(e) *)
Definition append (h : heap) (a : addr) (e : value) : heap :=
  match get h a with
  | Some c => upd h a (mkCell (ckind c) (citems c ++ [(At "", e)]))
  | None => h
  end.

Definition is_object (k : kind) : bool :=
  match k with KModel | KReaction | KMetabolite | KGene | KGroup => true | _ => false end.

(* iteration over a container cell (a cobra object is not iterable) *)
Definition elems (c : cell) : list value :=                            (* list / DictList elements *)
  if is_object (ckind c) then [] else map snd (citems c).
Definition keys (c : cell) : list value :=                             (* set elements / dict keys *)
  if is_object (ckind c) then [] else map fst (citems c).

(* ------------------------------------------------------------------ pointers and reachability *)
Definition vrefs (v : value) : list addr := match v with Ref a => [a] | At _ => [] end.
Definition irefs (kv : value * value) : list addr := vrefs (fst kv) ++ vrefs (snd kv).
Definition crefs (c : cell) : list addr := flat_map irefs (citems c).

Definition edge (h : heap) (a b : addr) : Prop := exists c, get h a = Some c /\ In b (crefs c).

Inductive Reach (h : heap) : addr -> addr -> Prop :=
| reach_refl : forall a, Reach h a a
| reach_step : forall a b c, edge h a b -> Reach h b c -> Reach h a c.

(* the two models share nothing: no cell is reachable from both roots *)
Definition Separated (h : heap) (a b : addr) : Prop := forall x, Reach h a x -> Reach h b x -> False.

(* executable reachability (depth-first, `fuel` bounds the number of expansions) *)
Definition memn (a : addr) (l : list addr) : bool := existsb (Nat.eqb a) l.

Fixpoint reach_list (h : heap) (fuel : nat) (todo seen : list addr) : list addr :=
  match fuel with
  | O => seen
  | S f =>
      match todo with
      | [] => seen
      | a :: r =>
          if memn a seen then reach_list h f r seen
          else match get h a with
               | Some c => reach_list h f (crefs c ++ r) (a :: seen)
               | None => reach_list h f r (a :: seen)
               end
      end
  end.

Fixpoint total_refs (h : heap) : nat :=
  match h with [] => 0 | c :: r => List.length (crefs c) + total_refs r end.

Definition reachable (h : heap) (root : addr) : list addr :=
  reach_list h (2 + List.length h + total_refs h) [root] [].

(* ------------------------------------------------------------------ tables (generated: Gen/CopyTables.v) *)
Inductive mode := ByRef | Shallow | Deep.
Inductive akind := AAtom | ALink | ADict | ASet | AList | AGpr | ADictList | AOpaque.
Record ktable := mkKT { kt_excluded : list string; kt_special : list (string * mode); kt_default : mode }.
Record copytable := mkCT {
  ct_attrs_model : list (string * akind);
  ct_attrs_rxn : list (string * akind);
  ct_attrs_met : list (string * akind);
  ct_attrs_gene : list (string * akind);
  ct_attrs_group : list (string * akind);
  ct_model_excluded : list string;            (* do_not_copy_by_ref of the model-level loop *)
  ct_model_explicit : list (string * mode);   (* new.<attr> = deepcopy(self.<attr>) lines *)
  ct_met : ktable; ct_gene : ktable; ct_rxn : ktable; ct_group : ktable;
  ct_repoint : list string;                   (* Model.__setstate__: lists whose objects get _model = self *)
  ct_add_copies : bool; ct_sub_copies : bool  (* r1 + r2 / r1 - r2 combine with other.copy() *)
}.

Definition mems (s : string) (l : list string) : bool := existsb (String.eqb s) l.

Fixpoint assoc {A} (s : string) (l : list (string * A)) : option A :=
  match l with [] => None | (k, v) :: r => if String.eqb s k then Some v else assoc s r end.

Definition mode_of (kt : ktable) (n : string) : mode :=
  match assoc n (kt_special kt) with Some m => m | None => kt_default kt end.

Definition akind_of (attrs : list (string * akind)) (n : string) : akind :=
  match assoc n attrs with Some k => k | None => AAtom end.

Definition is_container (k : akind) : bool :=
  match k with AAtom => false | _ => true end.
