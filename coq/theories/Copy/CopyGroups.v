(* C12 — functional description of the second pass over the groups in Model.copy:
       for group in self.groups:
           new_group = new.groups.get_by_id(group.id)
           for member in group.members:  new_object = new.<list of its class>.get_by_id(member.id)
           new_group.add_members(new_objects)
   Every new group ends with exactly the NEW counterparts of the members of its original (metabolites,
   reactions, genes and groups — nested groups included), provided every member is registered in the model. *)
From Coq Require Import List String Bool Arith Lia.
From Cobra.Copy Require Import Heap Model Obs Lemmas Proofs CopyHeapFacts CopyData CopyState CopyObj CopySpecies CopyLink.
Import ListNotations.
Open Scope string_scope.
Open Scope list_scope.

Definition pair_lookup (a : addr) (L : list (addr * addr)) : addr :=
  match find (fun p : addr * addr => Nat.eqb (fst p) a) L with Some p => snd p | None => 0 end.

Lemma pair_lookup_found : forall L p, NoDup (map fst L) -> In p L -> pair_lookup (fst p) L = snd p.
Proof.
  intros L p. unfold pair_lookup. induction L as [|q L IH]; intros Hnd Hin; [contradiction|].
  cbn [find]. cbv beta. inv Hnd. destruct Hin as [->|Hin].
  - rewrite Nat.eqb_refl. reflexivity.
  - destruct (Nat.eqb (fst q) (fst p)) eqn:E; [|apply IH; auto]. apply Nat.eqb_eq in E. exfalso. apply H1.
    rewrite E. apply in_map. exact Hin.
Qed.

Section Groups.
  Variable h0 : heap.
  Notation n := (List.length h0).
  Variable m' : addr.
  Variables dlm dlg dlr dlgr : addr.
  Variables Lm Lg Lr Lp : list (addr * addr).      (* (old, new) for the four classes *)
  Variable PP : list rec3.                          (* the groups, with their member sets *)
  Variable ktp : ktable.
  Hypothesis HLp : Lp = map (fun q => (r_old q, r_new q)) PP.

  Definition Lall : list (addr * addr) := Lm ++ Lg ++ Lr ++ Lp.

  Hypothesis Hpp_nd : NoDup (flat_map cells3 PP).
  Hypothesis Hsets : forall q, In q PP -> ~ In (r_set q) (dlm :: dlg :: dlr :: dlgr :: map snd Lall).
  Hypothesis Hnew_nd : NoDup (map snd Lall).
  Hypothesis Hm_old : NoDup (map fst Lm).
  Hypothesis Hg_old : NoDup (map fst Lg).
  Hypothesis Hr_old : NoDup (map fst Lr).
  Hypothesis Hp_old : NoDup (map fst Lp).
  Hypothesis Hm_ids : NoDup (map (fun p => idof h0 (fst p)) Lm).
  Hypothesis Hg_ids : NoDup (map (fun p => idof h0 (fst p)) Lg).
  Hypothesis Hr_ids : NoDup (map (fun p => idof h0 (fst p)) Lr).
  Hypothesis Hp_ids : NoDup (map (fun p => idof h0 (fst p)) Lp).

  (* get_by_id on a list of (old, new) pairs *)
  Lemma get_by_id_pairs : forall h dl (L : list (addr * addr)) p idv,
      get h dl = Some (mkCell KDictList (dl_items (map snd L))) ->
      (forall q, In q L -> attr_at h (snd q) "_id" = idof h0 (fst q)) ->
      NoDup (map (fun q => idof h0 (fst q)) L) -> In p L -> idof h0 (fst p) = Some idv ->
      get_by_id h dl idv = Some (snd p).
  Proof.
    intros h dl L p idv Hg Hids Hnd Hin Hid.
    pose proof (get_by_id_found h0 h dl (map (fun q => (fst q, snd q, 0)) L) (fst p, snd p, 0) idv) as H.
    unfold r_new, r_old in H. cbn [fst snd] in H. rewrite map_map in H. cbn [fst snd] in H.
    apply H; auto.
    - intros q Hq. apply in_map_iff in Hq as [q0 [<- Hq0]]. cbn [fst snd]. apply Hids. exact Hq0.
    - rewrite map_map. cbn [fst snd]. exact Hnd.
    - apply in_map_iff. exists p. auto.
  Qed.

  (* the new counterpart of a member of an old group *)
  Definition new_member (x : value) : addr :=
    match x with
    | Ref xa =>
        match get h0 xa with
        | Some c =>
            match ckind c with
            | KMetabolite => pair_lookup xa Lm
            | KReaction => pair_lookup xa Lr
            | KGene => pair_lookup xa Lg
            | KGroup => pair_lookup xa Lp
            | _ => 0
            end
        | None => 0
        end
    | At _ => 0
    end.

  Definition class_list (k : kind) : option (list (addr * addr) * addr) :=
    match k with
    | KMetabolite => Some (Lm, dlm) | KReaction => Some (Lr, dlr) | KGene => Some (Lg, dlg) | KGroup => Some (Lp, dlgr)
    | _ => None
    end.

  (* x is an object of the model, registered in the list of its class *)
  Definition MemberOk (x : value) : Prop :=
    exists xa c idx L dl, x = Ref xa /\ get h0 xa = Some c /\ attr c "_id" = Some idx /\
                          class_list (ckind c) = Some (L, dl) /\ In xa (map fst L).

  Definition members (ga : addr) : list value := dict_keys h0 (attr_at h0 ga "_members").

  Record GrpOld (ga : addr) : Prop := mkGrpOld {
    go_id : exists idv, idof h0 ga = Some idv;
    go_set : exists ms0 msc, attr_at h0 ga "_members" = Some (Ref ms0) /\ get h0 ms0 = Some msc;
    go_members : forall x, In x (members ga) -> MemberOk x;
    go_nodup : NoDup (members ga)
  }.

  Record GI (h : heap) (W : list addr) (cp : addr -> list addr) : Prop := mkGI {
    gi_st : St n h0 h W;
    gi_pp : forall q, In q PP -> SpRec h0 m' ktp "_members" h W q (set_items (cp (r_old q)));
    gi_dlm : get h dlm = Some (mkCell KDictList (dl_items (map snd Lm)));
    gi_dlg : get h dlg = Some (mkCell KDictList (dl_items (map snd Lg)));
    gi_dlr : get h dlr = Some (mkCell KDictList (dl_items (map snd Lr)));
    gi_dlgr : get h dlgr = Some (mkCell KDictList (dl_items (map snd Lp)));
    gi_ids : forall p, In p Lall -> attr_at h (snd p) "_id" = idof h0 (fst p)
  }.

  Lemma in_Lall : forall p, (In p Lm \/ In p Lg \/ In p Lr \/ In p Lp) -> In p Lall.
  Proof. intros p H. unfold Lall. rewrite !in_app_iff. tauto. Qed.

  Lemma class_list_facts : forall k L dl h W cp, class_list k = Some (L, dl) -> GI h W cp ->
      get h dl = Some (mkCell KDictList (dl_items (map snd L))) /\ NoDup (map fst L) /\
      NoDup (map (fun p => idof h0 (fst p)) L) /\ (forall p, In p L -> In p Lall).
  Proof.
    intros k L dl h W cp Hc HG. destruct k; cbn in Hc; try discriminate; inv Hc.
    - split; [apply (gi_dlr _ _ _ HG)|]. split; auto. split; auto. intros p Hp. apply in_Lall. tauto.
    - split; [apply (gi_dlm _ _ _ HG)|]. split; auto. split; auto. intros p Hp. apply in_Lall. tauto.
    - split; [apply (gi_dlg _ _ _ HG)|]. split; auto. split; auto. intros p Hp. apply in_Lall. tauto.
    - split; [apply (gi_dlgr _ _ _ HG)|]. split; auto. split; auto. intros p Hp. apply in_Lall. tauto.
  Qed.

  Lemma new_member_class : forall xa c L dl, get h0 xa = Some c -> class_list (ckind c) = Some (L, dl) ->
    new_member (Ref xa) = pair_lookup xa L.
  Proof.
    intros xa c L dl Hg Hc. unfold new_member. rewrite Hg. destruct (ckind c); cbn in Hc; try discriminate; inv Hc; reflexivity.
  Qed.

  Lemma member_of_found : forall h W cp x,
      GI h W cp -> MemberOk x -> member_of dlm dlr dlg dlgr h x = Some (new_member x) /\
                                 In (new_member x) (map snd Lall).
  Proof.
    intros h W cp x HG [xa [c [idx [L [dl [-> [Hg [Hid [Hc Hin]]]]]]]]].
    pose proof (gi_st _ _ _ HG) as HS. pose proof (get_lt _ _ _ Hg) as Hlt.
    destruct (class_list_facts _ _ _ _ _ _ Hc HG) as [Hdl [Hold [Hids Hall]]].
    apply in_map_iff in Hin as [p [Hp Hin]]. subst xa.
    assert (get_by_id h dl idx = Some (snd p)) as Hgb.
    { eapply get_by_id_pairs; eauto.
      - intros q Hq. apply (gi_ids _ _ _ HG). apply Hall. exact Hq.
      - unfold idof, attr_at. rewrite Hg. exact Hid. }
    rewrite (new_member_class _ _ _ _ Hg Hc), (pair_lookup_found L p Hold Hin). split.
    - unfold member_of. rewrite (st_old _ _ _ _ HS _ Hlt), Hg, Hid.
      destruct (ckind c); cbn in Hc; try discriminate; inv Hc; exact Hgb.
    - apply in_map. apply Hall. exact Hin.
  Qed.

  (* distinct members have distinct new counterparts *)
  Lemma new_member_inj : forall x y, MemberOk x -> MemberOk y -> new_member x = new_member y -> x = y.
  Proof.
    intros x y [xa [c [idx [L [dl [-> [Hg [Hid [Hc Hin]]]]]]]]] [ya [c2 [idy [L2 [dl2 [-> [Hg2 [Hid2 [Hc2 Hin2]]]]]]]]] E.
    rewrite (new_member_class _ _ _ _ Hg Hc), (new_member_class _ _ _ _ Hg2 Hc2) in E.
    apply in_map_iff in Hin as [p [Hp Hin]]. apply in_map_iff in Hin2 as [p2 [Hp2 Hin2]]. subst xa ya.
    assert (forall k L dl, class_list k = Some (L, dl) -> NoDup (map fst L)) as Hold.
    { intros k L0 dl0 H. destruct k; cbn in H; try discriminate; inv H; auto. }
    rewrite (pair_lookup_found L p (Hold _ _ _ Hc) Hin), (pair_lookup_found L2 p2 (Hold _ _ _ Hc2) Hin2) in E.
    (* p and p2 both occur in Lall with the same second component *)
    assert (forall k L0 dl0 q, class_list k = Some (L0, dl0) -> In q L0 -> In q Lall) as Hall.
    { intros k L0 dl0 q H Hq. apply in_Lall. destruct k; cbn in H; try discriminate; inv H; tauto. }
    pose proof (Hall _ _ _ p Hc Hin) as A1. pose proof (Hall _ _ _ p2 Hc2 Hin2) as A2.
    assert (p = p2) as ->; [|reflexivity].
    clear - Hnew_nd A1 A2 E. induction Lall as [|z l IH]; [contradiction|]. cbn in Hnew_nd. inv Hnew_nd.
    destruct A1 as [->|A1], A2 as [->|A2]; auto.
    - exfalso. apply H1. rewrite E. apply in_map. exact A2.
    - exfalso. apply H1. rewrite <- E. apply in_map. exact A1.
  Qed.

  (* ---- adding to the member set of one new group keeps everything else *)
  Lemma gi_add : forall h W cp rec x,
      GI h W cp -> In rec PP -> ~ In x (cp (r_old rec)) -> NoDup (map r_old PP) ->
      let h2 := set_add h (r_set rec) (Ref x) in
      GI h2 W (fun a => if Nat.eqb a (r_old rec) then cp a ++ [x] else cp a) /\ Tr [r_set rec] h W h2 W.
  Proof.
    intros h W cp rec x HG Hrec Hx Hold. cbv zeta. pose proof HG as [HS Hpp D1 D2 D3 D4 Hids].
    destruct (sprec_add h0 m' ktp "_members" h W PP rec (fun q => cp (r_old q)) x HS Hrec Hpp_nd Hpp Hx)
      as [HS2 [HT2 [Hnew Hothers]]]. cbv zeta in *.
    pose proof (Hsets rec Hrec) as Hns.
    assert (forall y, In y (dlm :: dlg :: dlr :: dlgr :: map snd Lall) -> get (set_add h (r_set rec) (Ref x)) y = get h y) as Hsame.
    { intros y Hy. apply get_set_add_ne. intro Heq. subst y. contradiction. }
    split; [|exact HT2]. split; auto.
    - intros q Hq. destruct (Nat.eqb (r_old q) (r_old rec)) eqn:E.
      + apply Nat.eqb_eq in E. assert (q = rec) as ->.
        { clear - Hold Hq Hrec E. induction PP as [|z L IH]; [contradiction|]. cbn in Hold. inv Hold.
          destruct Hq as [->|Hq], Hrec as [->|Hrec]; auto.
          - exfalso. apply H1. rewrite E. apply in_map. exact Hrec.
          - exfalso. apply H1. rewrite <- E. apply in_map. exact Hq. }
        exact Hnew.
      + apply Hothers; auto. intro; subst. rewrite Nat.eqb_refl in E. discriminate.
    - rewrite Hsame; auto. cbn; auto.
    - rewrite Hsame; auto. cbn; auto.
    - rewrite Hsame; auto. cbn; auto.
    - rewrite Hsame; auto. cbn; auto.
    - intros p Hp. rewrite (attr_at_agree h _ (snd p) "_id"); auto. apply Hsame.
      right. right. right. right. apply in_map. exact Hp.
  Qed.

  Lemma gi_ext : forall h W cp cp2, GI h W cp -> (forall q, In q PP -> cp (r_old q) = cp2 (r_old q)) -> GI h W cp2.
  Proof. intros h W cp cp2 [HS Hpp D1 D2 D3 D4 Hids] E. split; auto. intros q Hq. rewrite <- (E q Hq). auto. Qed.

  (* ---- the loop over the members of one group *)
  Lemma add_members_loop : forall l h W cp rec ok pm,
      GI h W (fun a => if Nat.eqb a (r_old rec) then map new_member pm else cp a) ->
      In rec PP -> NoDup (map r_old PP) ->
      (forall x, In x (pm ++ l) -> MemberOk x) -> NoDup (pm ++ l) ->
      exists h2, fold_left (add_member dlm dlr dlg dlgr (r_set rec)) l (h, ok) = (h2, ok) /\
                 GI h2 W (fun a => if Nat.eqb a (r_old rec) then map new_member (pm ++ l) else cp a) /\
                 Tr [r_set rec] h W h2 W.
  Proof.
    induction l as [|x l IH]; intros h W cp rec ok pm HG Hrec Hold Hmem Hnd.
    - exists h. rewrite app_nil_r. split; [reflexivity|]. split; [exact HG|].
      eapply tr_weaken; [apply tr_refl|]. intros y [].
    - assert (In x (pm ++ x :: l)) as Hxin by (apply in_or_app; right; left; reflexivity).
      pose proof (Hmem x Hxin) as Hxok.
      destruct (member_of_found h W _ x HG Hxok) as [Hmo _].
      cbn [fold_left]. unfold add_member at 2. rewrite Hmo.
      assert (~ In (new_member x) ((fun a => if Nat.eqb a (r_old rec) then map new_member pm else cp a) (r_old rec))) as Hfresh.
      { cbv beta. rewrite Nat.eqb_refl. intro Hin. apply in_map_iff in Hin as [y [Hy Hin]].
        assert (y = x) as ->.
        { apply new_member_inj; auto. apply Hmem. apply in_or_app. left. exact Hin. }
        apply NoDup_remove_2 in Hnd. apply Hnd. apply in_or_app. left. exact Hin. }
      destruct (gi_add h W _ rec (new_member x) HG Hrec Hfresh Hold) as [HG1 HT1]. cbv zeta in HG1, HT1.
      set (h1 := set_add h (r_set rec) (Ref (new_member x))) in *.
      assert (GI h1 W (fun a => if Nat.eqb a (r_old rec) then map new_member (pm ++ [x]) else cp a)) as HG1'.
      { eapply gi_ext; [exact HG1|]. intros q Hq. cbv beta. destruct (Nat.eqb (r_old q) (r_old rec)); [|reflexivity].
        rewrite map_app. reflexivity. }
      replace (pm ++ x :: l) with ((pm ++ [x]) ++ l) in * by (rewrite <- app_assoc; reflexivity).
      destruct (IH h1 W cp rec ok _ HG1' Hrec Hold Hmem Hnd) as [h2 [E2 [HG2 HT2]]].
      exists h2. split; [exact E2|]. split; [exact HG2|].
      pose proof (tr_trans _ _ _ _ _ _ _ _ HT1 HT2) as H. eapply tr_weaken; [exact H|].
      intros y [<-|[<-|[]]]; left; reflexivity.
  Qed.

  (* ---- one group of the second pass *)
  Lemma link_group_desc : forall h W cp rec ok,
      GI h W cp -> In rec PP -> NoDup (map r_old PP) -> GrpOld (r_old rec) -> cp (r_old rec) = [] ->
      exists h2, link_group dlm dlr dlg dlgr (h, ok) (Ref (r_old rec)) = (h2, ok) /\
                 GI h2 W (fun a => if Nat.eqb a (r_old rec) then map new_member (members (r_old rec)) else cp a) /\
                 Tr [r_set rec] h W h2 W.
  Proof.
    intros h W cp rec ok HG Hrec Hold [[idv Hid] [ms0 [msc [Hms Hmsc]]] Hmem Hnd] Hempty.
    pose proof (gi_st _ _ _ HG) as HS.
    pose proof (gi_pp _ _ _ HG rec Hrec) as [Hnw [Hsw [Hne [Hoc [Hmod [Hlk Hset]]]]]].
    assert (r_old rec < n) as Hlt.
    { unfold attr_at in Hms. destruct (get h0 (r_old rec)) eqn:E; [eapply get_lt; eauto|discriminate]. }
    unfold link_group. rewrite (st_attr_old n h0 h W _ "_id" HS Hlt). fold (idof h0 (r_old rec)). rewrite Hid.
    assert (In (r_old rec, r_new rec) Lp) as HinLp by (rewrite HLp; apply in_map_iff; exists rec; auto).
    assert (get_by_id h dlgr idv = Some (r_new rec)) as Hgb.
    { apply (get_by_id_pairs h dlgr Lp (r_old rec, r_new rec) idv); auto.
      - apply (gi_dlgr _ _ _ HG).
      - intros q Hq. apply (gi_ids _ _ _ HG). apply in_Lall. tauto. }
    rewrite Hgb, Hlk. rewrite (st_attr_old n h0 h W _ "_members" HS Hlt), Hms.
    rewrite (st_dict_keys_old n h0 h W ms0 HS (get_lt _ _ _ Hmsc)).
    assert (dict_keys h0 (Some (Ref ms0)) = members (r_old rec)) as -> by (unfold members; rewrite Hms; reflexivity).
    assert (GI h W (fun a => if Nat.eqb a (r_old rec) then map new_member [] else cp a)) as HG0.
    { eapply gi_ext; [exact HG|]. intros q Hq. cbv beta. destruct (Nat.eqb (r_old q) (r_old rec)) eqn:E; [|reflexivity].
      apply Nat.eqb_eq in E. rewrite E. exact Hempty. }
    destruct (add_members_loop (members (r_old rec)) h W cp rec ok [] HG0 Hrec Hold Hmem Hnd) as [h2 [E2 [HG2 HT2]]].
    exists h2. split; [exact E2|]. split; [exact HG2|exact HT2].
  Qed.

  (* ---- the whole second pass *)
  Lemma link_groups_loop : forall (Q : list rec3) h W cp ok,
      GI h W cp -> incl Q PP -> NoDup (map r_old PP) -> NoDup (map r_old Q) ->
      (forall q, In q Q -> GrpOld (r_old q) /\ cp (r_old q) = []) ->
      exists h2, fold_left (link_group dlm dlr dlg dlgr) (map (fun q => Ref (r_old q)) Q) (h, ok) = (h2, ok) /\
                 GI h2 W (fun a => if existsb (fun q => Nat.eqb (r_old q) a) Q then map new_member (members a) else cp a) /\
                 Tr (map r_set PP) h W h2 W.
  Proof.
    induction Q as [|rec Q IH]; intros h W cp ok HG Hincl Hold HoldQ HQ.
    - exists h. split; [reflexivity|]. split; [exact HG|]. eapply tr_weaken; [apply tr_refl|]. intros y [].
    - assert (In rec PP) as Hrec by (apply Hincl; left; reflexivity).
      destruct (HQ rec (or_introl eq_refl)) as [Hgo Hemp].
      destruct (link_group_desc h W cp rec ok HG Hrec Hold Hgo Hemp) as [h1 [E1 [HG1 HT1]]].
      cbn [map fold_left]. rewrite E1. cbn in HoldQ. inv HoldQ.
      destruct (IH h1 W _ ok HG1 (fun q Hq => Hincl q (or_intror Hq)) Hold H2) as [h2 [E2 [HG2 HT2]]].
      { intros q Hq. destruct (HQ q (or_intror Hq)) as [Hg He]. split; auto. cbv beta.
        destruct (Nat.eqb (r_old q) (r_old rec)) eqn:E; auto. apply Nat.eqb_eq in E. exfalso. apply H1.
        rewrite <- E. apply in_map. exact Hq. }
      exists h2. split; [exact E2|]. split.
      + eapply gi_ext; [exact HG2|]. intros q Hq. cbv beta. cbn [existsb].
        destruct (existsb (fun q0 => Nat.eqb (r_old q0) (r_old q)) Q) eqn:Eq; [rewrite orb_true_r; reflexivity|].
        rewrite orb_false_r. rewrite (Nat.eqb_sym (r_old rec) (r_old q)).
        destruct (Nat.eqb (r_old q) (r_old rec)) eqn:E; [|reflexivity]. apply Nat.eqb_eq in E. rewrite E. reflexivity.
      + pose proof (tr_trans _ _ _ _ _ _ _ _ HT1 HT2) as H. eapply tr_weaken; [exact H|].
        intros y [<-|Hy]; [apply in_map; exact Hrec|exact Hy].
  Qed.
End Groups.
