(* C12 — `sort_items` (Copy/Obs.v: insertion sort of (key, value) trees by the string key of the first
   component) is invariant under permutation when the keys are pairwise different: attribute order and set
   order are not content.  Needs the transitivity of String.leb, which the standard library of Coq 8.16 does
   not provide. *)
From Coq Require Import List String Ascii Bool Arith NArith Lia Permutation Sorted.
From Cobra.Copy Require Import Heap Model Obs.
Import ListNotations.
Open Scope list_scope.

Lemma ascii_compare_lt_trans : forall a b c, Ascii.compare a b = Lt -> Ascii.compare b c = Lt -> Ascii.compare a c = Lt.
Proof.
  unfold Ascii.compare. intros a b c H1 H2. apply N.compare_lt_iff in H1. apply N.compare_lt_iff in H2.
  apply N.compare_lt_iff. eapply N.lt_trans; eauto.
Qed.

Lemma string_compare_lt_trans : forall a b c, String.compare a b = Lt -> String.compare b c = Lt -> String.compare a c = Lt.
Proof.
  induction a as [|x a IH]; intros [|y b] [|z c] H1 H2; cbn in *; try discriminate; auto.
  destruct (Ascii.compare x y) eqn:E1; try discriminate.
  - apply Ascii.compare_eq_iff in E1. subst y. destruct (Ascii.compare x z) eqn:E2; try discriminate; auto.
    eapply IH; eauto.
  - destruct (Ascii.compare y z) eqn:E2; try discriminate.
    + apply Ascii.compare_eq_iff in E2. subst z. rewrite E1. reflexivity.
    + rewrite (ascii_compare_lt_trans _ _ _ E1 E2). reflexivity.
Qed.

Lemma string_leb_cases : forall a b, String.leb a b = true <-> (a = b \/ String.compare a b = Lt).
Proof.
  intros a b. unfold String.leb. destruct (String.compare a b) eqn:E; split; intro H; auto; try discriminate.
  - left. apply String.compare_eq_iff. exact E.
  - destruct H as [->|H]; [|discriminate]. pose proof (String.compare_antisym b b) as A. rewrite E in A. cbn in A. discriminate.
Qed.

Lemma string_leb_trans : forall a b c, String.leb a b = true -> String.leb b c = true -> String.leb a c = true.
Proof.
  intros a b c H1 H2. apply string_leb_cases in H1. apply string_leb_cases in H2. apply string_leb_cases.
  destruct H1 as [->|H1]; auto. destruct H2 as [<-|H2]; auto. right. eapply string_compare_lt_trans; eauto.
Qed.

Lemma string_leb_refl : forall a, String.leb a a = true.
Proof. intros a. apply string_leb_cases. left. reflexivity. Qed.

(* ------------------------------------------------------------------ sort_items *)
Definition ikey (x : tree * tree) : string := tree_key (fst x).
Definition ile (x y : tree * tree) : Prop := String.leb (ikey x) (ikey y) = true.

Lemma insert_sorted_perm : forall x l, Permutation (x :: l) (insert_sorted x l).
Proof.
  intros x l. induction l as [|y r IH]; cbn; auto.
  destruct (String.leb (tree_key (fst x)) (tree_key (fst y))); auto.
  eapply perm_trans; [apply perm_swap|]. apply perm_skip. exact IH.
Qed.

Lemma sort_items_perm : forall l, Permutation l (sort_items l).
Proof.
  induction l as [|x r IH]; cbn; auto. eapply perm_trans; [|apply insert_sorted_perm]. apply perm_skip. exact IH.
Qed.

Lemma insert_sorted_sorted : forall x l, StronglySorted ile l -> StronglySorted ile (insert_sorted x l).
Proof.
  intros x l H. induction H as [|y r Hr IH Hy]; cbn.
  - constructor; constructor.
  - destruct (String.leb (tree_key (fst x)) (tree_key (fst y))) eqn:E.
    + constructor; [constructor; auto|]. constructor; [exact E|].
      rewrite Forall_forall in *. intros z Hz. unfold ile in *. eapply string_leb_trans; [exact E|]. apply Hy. exact Hz.
    + constructor; auto. rewrite Forall_forall in *. intros z Hz.
      apply (Permutation_in _ (Permutation_sym (insert_sorted_perm x r))) in Hz. destruct Hz as [<-|Hz]; [|auto].
      unfold ile, ikey. destruct (String.leb_total (tree_key (fst y)) (tree_key (fst x))) as [H1|H1]; [exact H1|congruence].
Qed.

Lemma sort_items_sorted : forall l, StronglySorted ile (sort_items l).
Proof. induction l as [|x r IH]; cbn; [constructor|]. apply insert_sorted_sorted. exact IH. Qed.

Lemma sorted_perm_unique : forall l1 l2,
    StronglySorted ile l1 -> StronglySorted ile l2 -> Permutation l1 l2 -> NoDup (map ikey l1) -> l1 = l2.
Proof.
  induction l1 as [|x r1 IH]; intros l2 S1 S2 HP Hnd.
  - apply Permutation_nil in HP. subst. reflexivity.
  - destruct l2 as [|y r2]; [apply Permutation_sym, Permutation_nil in HP; discriminate|].
    assert (x = y) as ->.
    { destruct (Permutation_in x HP (or_introl eq_refl)) as [<-|Hx]; [reflexivity|].
      destruct (Permutation_in y (Permutation_sym HP) (or_introl eq_refl)) as [->|Hy]; [reflexivity|].
      inversion S1 as [|? ? _ F1]; subst. inversion S2 as [|? ? _ F2]; subst.
      rewrite Forall_forall in F1, F2. pose proof (F1 y Hy) as L1. pose proof (F2 x Hx) as L2.
      unfold ile in L1, L2. pose proof (String.leb_antisym _ _ L1 L2) as Ek.
      cbn in Hnd. inversion Hnd as [|? ? Hnin _]; subst. exfalso. apply Hnin. rewrite Ek. apply in_map. exact Hy. }
    f_equal. inversion S1; subst. inversion S2; subst. cbn in Hnd. inversion Hnd; subst.
    apply IH; auto. eapply Permutation_cons_inv. exact HP.
Qed.

Theorem sort_items_permutation : forall l1 l2,
    Permutation l1 l2 -> NoDup (map ikey l1) -> sort_items l1 = sort_items l2.
Proof.
  intros l1 l2 HP Hnd. apply sorted_perm_unique; try apply sort_items_sorted.
  - eapply perm_trans; [apply Permutation_sym, sort_items_perm|]. eapply perm_trans; [exact HP|apply sort_items_perm].
  - eapply Permutation_NoDup; [|exact Hnd]. apply Permutation_map. apply sort_items_perm.
Qed.

(* ------------------------------------------------------------------ tree_eqb is reflexive *)
Lemma kind_eqb_refl : forall k, kind_eqb k k = true.
Proof. intros k. unfold kind_eqb. apply Nat.eqb_refl. Qed.

Lemma tree_eqb_refl : forall t, tree_eqb t t = true.
Proof.
  fix IH 1. intros [s|k i r|k l|]; cbn.
  - apply String.eqb_refl.
  - rewrite kind_eqb_refl, String.eqb_refl. destruct r; reflexivity.
  - rewrite kind_eqb_refl. cbn. induction l as [|[x y] r IHl]; [reflexivity|].
    rewrite (IH x), (IH y). cbn. exact IHl.
  - reflexivity.
Qed.
