(* C12 — `wf_model_content`: the boolean (so: evaluated on every encoded real heap by the check) consistency
   predicate of a model under which Model.copy is described functionally (Copy/CopyDesc.v):
     - no dangling pointer; the model object has its attributes once, its explicit-copy attributes and the
       solver are plain data;
     - the four lists hold objects whose attribute names are unique, that have `_model`, their link attribute
       and an atomic `_id`, identifiers unique per list, and whose copied attributes are atoms or plain data;
     - every stoichiometry key is a metabolite of the model (no key twice), every gene name of a rule is the
       identifier of a gene of the model, rules are plain data;
     - every group member is an object registered in the list of its class (metabolite, reaction, gene, group).
   `wf_model_content_sound` turns it into the Prop `ModelOk`. *)
From Coq Require Import List String Bool Arith Lia FinFun.
From Cobra.Copy Require Import Heap Model Obs Lemmas Proofs ModelCopy CopyWf CopySep CopyHeapFacts CopyData
     CopyState CopyObj CopySpecies CopyLink CopyRxn CopyGroups CopyModelCell CopyDesc CopyDescProof.
Import ListNotations.
Open Scope string_scope.
Open Scope list_scope.

Fixpoint nodup_vals (l : list value) : bool :=
  match l with [] => true | x :: r => negb (existsb (value_eqb x) r) && nodup_vals r end.

Lemma nodup_vals_sound : forall l, nodup_vals l = true -> NoDup l.
Proof.
  induction l as [|x r IH]; cbn; intros H; [constructor|]. apply andb_prop in H as [H1 H2]. constructor; auto.
  intro Hin. apply negb_true_iff in H1. assert (existsb (value_eqb x) r = true); [|congruence].
  apply existsb_exists. exists x. split; auto. apply value_eqb_refl.
Qed.

Definition has_key_b (s : string) (c : cell) : bool := existsb (value_eqb (At s)) (keys_of (citems c)).

Lemma has_key_b_sound : forall s c, has_key_b s c = true -> In (At s) (keys_of (citems c)).
Proof.
  intros s c H. unfold has_key_b in H. apply existsb_exists in H as [x [Hx He]]. apply value_eqb_eq in He. subst. exact Hx.
Qed.

Definition refs_of (l : list value) : list addr := flat_map vrefs l.

Lemma refs_of_all : forall l, forallb (fun v => negb (is_atom v)) l = true -> map Ref (refs_of l) = l.
Proof.
  induction l as [|[s|a] r IH]; cbn; intros H; auto; [discriminate|]. f_equal. apply IH. exact H.
Qed.

Section WfContent.
  Variable T : copytable.
  Variable h : heap.

  (* plain data of nesting depth <= 12 (notes / annotation / compartments are JSON-like trees; the bound keeps the
     evaluation cheap, the theorems only need SOME depth) *)
  Definition data_ok (v : value) : bool := data_b h 12 v.

  Definition obj_ok_b (kt : ktable) (oc : cell) : bool :=
    forallb (fun kv => match fst kv with
                       | At s => if mems s (kt_excluded kt) then true       (* `if`: evaluated lazily by the VM *)
                                 else data_ok (snd kv) && (is_atom (snd kv) || is_deep (mode_of kt s))
                       | Ref _ => false
                       end) (citems oc)
    && nodup_vals (keys_of (citems oc)).

  Definition sp_old_b (kt : ktable) (lk : string) (a : addr) : bool :=
    match get h a with
    | Some oc => obj_ok_b kt oc && has_key_b "_model" oc && has_key_b lk oc
    | None => false
    end.

  Definition id_val (a : addr) : value := match idof h a with Some i => i | None => At "" end.

  Definition ids_ok_b (L : list addr) : bool :=
    forallb (fun a => match get h a with Some _ => true | None => false end
                      && match idof h a with Some i => is_atom i | None => false end) L
    && nodup_vals (map id_val L).

  Definition gpr_ok_b (r : addr) : bool :=
    match attr_at h r "_gpr" with
    | Some (Ref g) =>
        match get h g with
        | Some gc =>
            forallb (fun kv => is_atom (fst kv)) (citems gc)
            && match attr gc "body" with Some b => is_atom b | None => true end
            && match attr gc "_genes" with
               | Some (Ref gset) => match get h gset with
                                    | Some gsc => forallb (fun kv => is_atom (fst kv)) (citems gsc)
                                    | None => true end
               | _ => true
               end
        | None => true
        end
    | _ => true
    end.

  Definition rx_old_b (OM OG : list addr) (r : addr) : bool :=
    match get h r with
    | Some oc =>
        obj_ok_b (ct_rxn T) oc && has_key_b "_model" oc && has_key_b "_metabolites" oc && has_key_b "_genes" oc
        && match attr oc "_metabolites" with
           | Some (Ref d) => match get h d with Some _ => true | None => false end
           | _ => false
           end
        && forallb (fun kv => match fst kv with Ref a => memn a OM | At _ => false end) (sitems h r)
        && nodup_vals (keys_of (sitems h r))
        && gpr_ok_b r
        && forallb (fun i => existsb (fun g => match idof h g with Some j => value_eqb j i | None => false end) OG) (gnames h r)
        && nodup_vals (gnames h r)
    | None => false
    end.

  Definition member_ok_b (OM OG OR OP : list addr) (x : value) : bool :=
    match x with
    | Ref xa =>
        match get h xa with
        | Some c =>
            match attr c "_id" with Some _ => true | None => false end
            && match ckind c with
               | KMetabolite => memn xa OM | KReaction => memn xa OR | KGene => memn xa OG | KGroup => memn xa OP
               | _ => false
               end
        | None => false
        end
    | At _ => false
    end.

  Definition grp_old_b (OM OG OR OP : list addr) (ga : addr) : bool :=
    match attr_at h ga "_members" with
    | Some (Ref ms0) => match get h ms0 with Some _ => true | None => false end
    | _ => false
    end
    && forallb (member_ok_b OM OG OR OP) (members0 h ga)
    && nodup_vals (members0 h ga).

  Definition all_refs (l : list value) : bool := forallb (fun v => negb (is_atom v)) l.

  Definition wf_model_content (m : addr) : bool :=
    heap_wf_b h &&
    match get h m with
    | None => false
    | Some mc =>
        let lm := list_elems h (attr mc "metabolites") in
        let lg := list_elems h (attr mc "genes") in
        let lr := list_elems h (attr mc "reactions") in
        let lp := list_elems h (attr mc "groups") in
        let OM := refs_of lm in let OG := refs_of lg in let OR := refs_of lr in let OP := refs_of lp in
        kind_eqb (ckind mc) KModel
        && forallb (fun kv => is_atom (fst kv)) (citems mc)
        && nodup_vals (keys_of (citems mc))
        && forallb (fun nm => match attr mc (fst nm) with Some v => data_ok v | None => false end) (ct_model_explicit T)
        && match attr mc "_solver" with Some v => data_ok v | None => false end
        && all_refs lm && all_refs lg && all_refs lr && all_refs lp
        && forallb (sp_old_b (ct_met T) "_reaction") OM
        && forallb (sp_old_b (ct_gene T) "_reaction") OG
        && forallb (sp_old_b (ct_group T) "_members") OP
        && ids_ok_b OM && ids_ok_b OG && ids_ok_b OR && ids_ok_b OP
        && forallb (rx_old_b OM OG) OR
        && forallb (grp_old_b OM OG OR OP) OP
    end.

  (* ---------------- soundness *)
  Lemma data_ok_sound : forall v, data_ok v = true -> Data h v.
  Proof. intros v H. exists 12. exact H. Qed.

  Lemma memn_In : forall a l, memn a l = true -> In a l.
  Proof. intros a l H. unfold memn in H. apply existsb_exists in H as [x [Hx He]]. apply Nat.eqb_eq in He. subst. exact Hx. Qed.

  Lemma is_deep_eq : forall md, is_deep md = true -> md = Deep.
  Proof. intros [] H; try discriminate; reflexivity. Qed.

  Lemma obj_ok_sound : forall kt oc, obj_ok_b kt oc = true -> ObjOk h kt oc.
  Proof.
    intros kt oc H. unfold obj_ok_b in H. apply andb_prop in H as [H1 H2]. rewrite forallb_forall in H1. split.
    - intros kv Hin. specialize (H1 kv Hin). destruct (fst kv) as [s|a]; [eauto|discriminate].
    - apply nodup_vals_sound. exact H2.
    - intros s v Hin Hex. specialize (H1 (At s, v) Hin). cbn [fst snd] in H1. rewrite Hex in H1.
      apply andb_prop in H1 as [Hd Hm]. split; [apply data_ok_sound; exact Hd|].
      apply orb_prop in Hm as [Hm|Hm]; [left; exact Hm|right; apply is_deep_eq; exact Hm].
  Qed.

  Lemma sp_old_sound : forall kt lk a, sp_old_b kt lk a = true -> exists oc, SpOld h kt lk a oc.
  Proof.
    intros kt lk a H. unfold sp_old_b in H. destruct (get h a) as [oc|] eqn:Hg; [|discriminate].
    apply andb_prop in H as [H H3]. apply andb_prop in H as [H1 H2]. exists oc. split; auto.
    - apply obj_ok_sound. exact H1.
    - apply has_key_b_sound. exact H2.
    - apply has_key_b_sound. exact H3.
  Qed.

  Lemma ids_ok_sound : forall L, ids_ok_b L = true -> IdsOk h L.
  Proof.
    intros L H. unfold ids_ok_b in H. apply andb_prop in H as [H1 H2]. rewrite forallb_forall in H1. split.
    - apply nodup_vals_sound in H2.
      assert (map (idof h) L = map (fun a => Some (id_val a)) L) as ->.
      { apply map_ext_in. intros a Ha. specialize (H1 a Ha). apply andb_prop in H1 as [_ H1]. unfold id_val.
        destruct (idof h a); [reflexivity|discriminate]. }
      rewrite <- (map_map id_val Some). apply FinFun.Injective_map_NoDup; auto. intros x y E. congruence.
    - intros a Ha. specialize (H1 a Ha). apply andb_prop in H1 as [Hg Hi]. split.
      + destruct (get h a) as [c|] eqn:E; [eapply get_lt; eauto|discriminate].
      + destruct (idof h a) as [i|]; [eauto|discriminate].
  Qed.

  Lemma gpr_ok_sound : forall r, gpr_ok_b r = true -> GprOk h r.
  Proof.
    intros r H g gc Ha Hg. unfold gpr_ok_b in H. rewrite Ha, Hg in H.
    apply andb_prop in H as [H H3]. apply andb_prop in H as [H1 H2]. rewrite forallb_forall in H1. split; [|split].
    - intros kv Hin. apply H1. exact Hin.
    - intros b Hb. rewrite Hb in H2. exact H2.
    - intros gset gsc Hs Hgs kv Hin. rewrite Hs, Hgs in H3. rewrite forallb_forall in H3. apply H3. exact Hin.
  Qed.

  Lemma rx_old_sound : forall OM OG r, rx_old_b OM OG r = true -> exists oc, RxOldO T h OM OG r oc.
  Proof.
    intros OM OG r H. unfold rx_old_b in H. destruct (get h r) as [oc|] eqn:Hg; [|discriminate].
    do 9 (apply andb_prop in H; let H' := fresh "A" in destruct H as [H H']).
    exists oc. split; auto.
    - apply obj_ok_sound. exact H.
    - apply has_key_b_sound. exact A7.
    - apply has_key_b_sound. exact A6.
    - apply has_key_b_sound. exact A5.
    - destruct (attr oc "_metabolites") as [[s|d]|]; try discriminate. destruct (get h d) as [dc|] eqn:Hd; [|discriminate]. eauto.
    - intros kv Hin. rewrite forallb_forall in A3. specialize (A3 kv Hin). destruct (fst kv) as [s|a]; [discriminate|].
      exists a. split; [apply memn_In; exact A3|reflexivity].
    - apply nodup_vals_sound. exact A2.
    - apply gpr_ok_sound. exact A1.
    - intros i Hi. rewrite forallb_forall in A0. specialize (A0 i Hi). apply existsb_exists in A0 as [g [Hgin Hm]].
      exists g. split; auto. destruct (idof h g) as [j|]; [|discriminate]. apply value_eqb_eq in Hm. congruence.
    - apply nodup_vals_sound. exact A.
  Qed.

  Lemma grp_old_sound : forall OM OG OR OP ga, grp_old_b OM OG OR OP ga = true -> GrpOldO h OM OG OR OP ga.
  Proof.
    intros OM OG OR OP ga H. unfold grp_old_b in H. apply andb_prop in H as [H H3]. apply andb_prop in H as [H1 H2]. split.
    - destruct (attr_at h ga "_members") as [[s|ms0]|]; try discriminate. destruct (get h ms0) as [c|] eqn:E; [eauto|discriminate].
    - intros x Hx. rewrite forallb_forall in H2. specialize (H2 x Hx). unfold member_ok_b in H2.
      destruct x as [s|xa]; [discriminate|]. destruct (get h xa) as [c|] eqn:Hg; [|discriminate].
      apply andb_prop in H2 as [Hi Hk]. destruct (attr c "_id") as [idx|] eqn:Hid; [|discriminate].
      exists xa, c, idx. split; auto. split; auto. split; auto.
      destruct (ckind c); try discriminate; apply memn_In; exact Hk.
    - apply nodup_vals_sound. exact H3.
  Qed.

  Theorem wf_model_content_sound : forall m,
      wf_model_content m = true ->
      exists mc OM OG OR OP, ModelOk T h m mc OM OG OR OP.
  Proof.
    intros m H. unfold wf_model_content in H. apply andb_prop in H as [Hwf H].
    destruct (get h m) as [mc|] eqn:Hm; [|discriminate]. cbv zeta in H.
    repeat (apply andb_prop in H; let H' := fresh "A" in destruct H as [H H']).
    exists mc, (refs_of (list_elems h (attr mc "metabolites"))), (refs_of (list_elems h (attr mc "genes"))),
      (refs_of (list_elems h (attr mc "reactions"))), (refs_of (list_elems h (attr mc "groups"))).
    split.
    - apply heap_wf_b_sound. exact Hwf.
    - exact Hm.
    - apply kind_eqb_eq. exact H.
    - intros kv Hin. rewrite forallb_forall in A15. specialize (A15 kv Hin). destruct (fst kv) as [s|a]; [eauto|discriminate].
    - apply nodup_vals_sound. exact A14.
    - intros nm Hnm. rewrite forallb_forall in A13. specialize (A13 nm Hnm). destruct (attr mc (fst nm)) as [v|]; [|discriminate].
      exists v. split; auto. apply data_ok_sound. exact A13.
    - destruct (attr mc "_solver") as [v|]; [|discriminate]. exists v. split; auto. apply data_ok_sound. exact A12.
    - symmetry. apply refs_of_all. exact A11.
    - symmetry. apply refs_of_all. exact A10.
    - symmetry. apply refs_of_all. exact A9.
    - symmetry. apply refs_of_all. exact A8.
    - intros a Ha. rewrite forallb_forall in A7. apply sp_old_sound. auto.
    - intros a Ha. rewrite forallb_forall in A6. apply sp_old_sound. auto.
    - intros a Ha. rewrite forallb_forall in A5. apply sp_old_sound. auto.
    - apply ids_ok_sound. exact A4.
    - apply ids_ok_sound. exact A3.
    - apply ids_ok_sound. exact A2.
    - apply ids_ok_sound. exact A1.
    - intros r Hr. rewrite forallb_forall in A0. apply rx_old_sound. auto.
    - intros ga Hga. rewrite forallb_forall in A. apply grp_old_sound. auto.
  Qed.
End WfContent.

(* ------------------------------------------------------------------ the general theorems, with boolean hypotheses *)
Theorem model_copy_structure : forall T h m h' m' ok,
    table_safe T = true -> table_shape T = true -> wf_model_content T h m = true ->
    model_copy T h m = (h', m', ok) ->
    ok = true /\ m' = List.length h /\
    exists mc OM OG OR OP, ModelOk T h m mc OM OG OR OP /\ CopyDesc T h mc OM OG OR OP h'.
Proof.
  intros T h m h' m' ok HT HS HW Hrun.
  destruct (wf_model_content_sound T h m HW) as [mc [OM [OG [OR [OP HOK]]]]].
  destruct (CopyDescProof.model_copy_desc T h m mc OM OG OR OP (table_safe_parts T HT) (table_shape_sound T HS) HOK h' m' ok Hrun)
    as [H1 [H2 H3]].
  split; auto. split; auto. exists mc, OM, OG, OR, OP. auto.
Qed.

(* Model.copy does not raise on a consistent model *)
Theorem model_copy_total : forall T h m h' m' ok,
    table_safe T = true -> table_shape T = true -> wf_model_content T h m = true ->
    model_copy T h m = (h', m', ok) -> ok = true.
Proof. intros T h m h' m' ok HT HS HW Hrun. apply (model_copy_structure T h m h' m' ok HT HS HW Hrun). Qed.
