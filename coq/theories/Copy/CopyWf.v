(* C12 — the boolean well-formedness predicate on (heap, model address) under which the general theorems
   about Model.copy are proved (Copy/CopySep.v).  It is evaluated by the check on every encoded heap
   (Copy/Check.v, code 7), so the hypothesis of the theorems is validated on the real object graphs.

   wf_model_heap T h m:
     - no dangling pointer (heap_wf_b) and the typing discipline (typed_b: an attribute that the class does not
       initialise with a container holds an atom);
     - m is a Model object that has the attributes Model.copy assigns explicitly (notes, _annotation, ...);
     - the elements of model.metabolites / genes / reactions / groups are Metabolite / Gene / Reaction / Group
       objects;
     - stoichiometric coefficients are atoms.                                                          *)
From Coq Require Import List String Bool Arith.
From Cobra.Copy Require Import Heap Model Obs.
Import ListNotations.
Open Scope string_scope.
Open Scope list_scope.

Definition ref_kind_b (h : heap) (k : kind) (x : value) : bool :=
  match x with
  | Ref a => match get h a with Some c => kind_eqb (ckind c) k | None => false end
  | At _ => false
  end.

Definition stoich_atoms_b (h : heap) (x : value) : bool :=
  match x with
  | Ref a =>
      match attr_at h a "_metabolites" with
      | Some (Ref d) => match get h d with
                        | Some c => forallb (fun kv => is_atom (snd kv)) (citems c)
                        | None => true
                        end
      | _ => true
      end
  | At _ => true
  end.

Definition has_attr (c : cell) (s : string) : bool :=
  match attr c s with Some _ => true | None => false end.

Definition wf_model_heap (T : copytable) (h : heap) (m : addr) : bool :=
  heap_wf_b h && typed_b T h &&
  match get h m with
  | None => false
  | Some mc =>
      kind_eqb (ckind mc) KModel
      && forallb (fun nm => has_attr mc (fst nm)) (ct_model_explicit T)
      && forallb (ref_kind_b h KMetabolite) (list_elems h (attr mc "metabolites"))
      && forallb (ref_kind_b h KGene) (list_elems h (attr mc "genes"))
      && forallb (ref_kind_b h KReaction) (list_elems h (attr mc "reactions"))
      && forallb (ref_kind_b h KGroup) (list_elems h (attr mc "groups"))
      && forallb (stoich_atoms_b h) (list_elems h (attr mc "reactions"))
  end.
