(* C12 — generic facts about heaps: the freshness invariant `Ext`, its preservation by the heap primitives,
   separation from freshness, and the frame lemma. *)
From Coq Require Import List String Bool Arith Lia.
From Cobra.Copy Require Import Heap.
Import ListNotations.
Open Scope list_scope.

(* ------------------------------------------------------------------ values that are "new" *)
Definition val_ok (n : nat) (v : value) : Prop := match v with At _ => True | Ref a => n <= a end.
Definition item_ok (n : nat) (kv : value * value) : Prop := val_ok n (fst kv) /\ val_ok n (snd kv).
Definition cell_ok (n : nat) (c : cell) : Prop := Forall (item_ok n) (citems c).

Lemma val_ok_atom : forall n s, val_ok n (At s).
Proof. intros; exact I. Qed.
#[export] Hint Resolve val_ok_atom : core.

Lemma val_ok_mono : forall n k v, n <= k -> val_ok k v -> val_ok n v.
Proof. intros n k [s|a] Hle H; cbn in *; auto; lia. Qed.

Lemma cell_ok_mono : forall n k c, n <= k -> cell_ok k c -> cell_ok n c.
Proof.
  unfold cell_ok; intros n k c Hle H. eapply Forall_impl; [|exact H].
  intros [a b] [H1 H2]; split; eapply val_ok_mono; eauto.
Qed.

Lemma cell_ok_crefs : forall n c b, cell_ok n c -> In b (crefs c) -> n <= b.
Proof.
  unfold cell_ok, crefs. intros n c b H Hin. apply in_flat_map in Hin as [kv [Hkv Hb]].
  rewrite Forall_forall in H. destruct (H kv Hkv) as [H1 H2]. unfold irefs in Hb.
  apply in_app_or in Hb as [Hb|Hb]; [destruct (fst kv)|destruct (snd kv)]; cbn in *; intuition; subst; auto.
Qed.

Lemma crefs_cell_ok : forall n c, (forall b, In b (crefs c) -> n <= b) -> cell_ok n c.
Proof.
  unfold cell_ok, crefs. intros n c H. apply Forall_forall. intros [k v] Hin. split; cbn.
  - destruct k as [s|a]; cbn; auto. apply H. apply in_flat_map. exists (Ref a, v). split; auto. cbn. auto.
  - destruct v as [s|a]; cbn; auto. apply H. apply in_flat_map. exists (k, Ref a). split; auto.
    unfold irefs. apply in_or_app. right. cbn. auto.
Qed.

(* ------------------------------------------------------------------ list / heap basics *)
Lemma value_eqb_eq : forall a b, value_eqb a b = true <-> a = b.
Proof.
  intros [s|x] [t|y]; cbn; split; intro H; try discriminate.
  - apply String.eqb_eq in H. congruence.
  - inversion H. apply String.eqb_refl.
  - apply Nat.eqb_eq in H. congruence.
  - inversion H. apply Nat.eqb_refl.
Qed.

Lemma get_upd_eq : forall h a c, a < List.length h -> get (upd h a c) a = Some c.
Proof.
  unfold get. induction h as [|x r IH]; intros a c Hlt; cbn in *; [lia|].
  destruct a; cbn; auto. apply IH. lia.
Qed.

Lemma get_upd_ne : forall h a b c, a <> b -> get (upd h a c) b = get h b.
Proof.
  unfold get. induction h as [|x r IH]; intros a b c Hne; cbn; auto.
  destruct a, b; cbn; auto; try congruence; try (apply IH; congruence).
Qed.

Lemma upd_length : forall h a c, List.length (upd h a c) = List.length h.
Proof. induction h as [|x r IH]; intros [|a] c; cbn; auto. Qed.

Lemma firstn_upd_ge : forall h n a c, n <= a -> firstn n (upd h a c) = firstn n h.
Proof.
  induction h as [|x r IH]; intros n a c Hle; cbn.
  - destruct a; reflexivity.
  - destruct a, n; cbn; auto; try lia. f_equal. apply IH. lia.
Qed.

Lemma get_lt : forall h a c, get h a = Some c -> a < List.length h.
Proof. unfold get. intros. apply nth_error_Some. congruence. Qed.

Lemma get_firstn : forall h n a, a < n -> get (firstn n h) a = get h a.
Proof.
  unfold get. induction h as [|x r IH]; intros n a Hlt.
  - rewrite firstn_nil. reflexivity.
  - destruct n; [lia|]. destruct a; cbn; auto. apply IH. lia.
Qed.

(* ------------------------------------------------------------------ the freshness invariant *)
(* h extends h0 (|h0| = n): the first n cells are those of h0, every later cell points only at later cells *)
Record Ext (n : nat) (h0 h : heap) : Prop := mkExt {
  ext_len : List.length h0 = n;
  ext_prefix : firstn n h = h0;
  ext_new : forall a c, n <= a -> get h a = Some c -> cell_ok n c
}.

Lemma ext_refl : forall h, Ext (List.length h) h h.
Proof.
  intros h. split; auto.
  - apply firstn_all.
  - intros a c Hle Hg. apply get_lt in Hg. lia.
Qed.

Lemma ext_le : forall n h0 h, Ext n h0 h -> n <= List.length h.
Proof.
  intros n h0 h [Hl Hp _]. rewrite <- Hl, <- Hp at 1. rewrite firstn_length. lia.
Qed.

Lemma ext_old : forall n h0 h a, Ext n h0 h -> a < n -> get h a = get h0 a.
Proof. intros n h0 h a [Hl Hp _] Hlt. rewrite <- Hp. symmetry. apply get_firstn. auto. Qed.

Lemma ext_alloc : forall n h0 h c, Ext n h0 h -> cell_ok n c -> Ext n h0 (h ++ [c]).
Proof.
  intros n h0 h c HE Hc. pose proof (ext_le _ _ _ HE) as Hle. destruct HE as [Hl Hp Hn]. split; auto.
  - rewrite firstn_app. replace (n - List.length h) with 0 by lia. cbn. rewrite app_nil_r. auto.
  - intros a c' Ha Hg. unfold get in *. destruct (Nat.lt_ge_cases a (List.length h)) as [Hlt|Hge].
    + rewrite nth_error_app1 in Hg by auto. eapply Hn; eauto.
    + rewrite nth_error_app2 in Hg by auto. destruct (a - List.length h) as [|k] eqn:E; cbn in Hg.
      * inversion Hg; subst; auto.
      * destruct k; discriminate.
Qed.

Lemma ext_upd : forall n h0 h a c, Ext n h0 h -> n <= a -> cell_ok n c -> Ext n h0 (upd h a c).
Proof.
  intros n h0 h a c [Hl Hp Hn] Ha Hc. split; auto.
  - rewrite firstn_upd_ge; auto.
  - intros b c' Hb Hg. destruct (Nat.eq_dec a b) as [->|Hne].
    + destruct (Nat.lt_ge_cases b (List.length h)) as [Hlt|Hge].
      * rewrite get_upd_eq in Hg by auto. inversion Hg; subst; auto.
      * apply get_lt in Hg. rewrite upd_length in Hg. lia.
    + rewrite get_upd_ne in Hg by auto. eapply Hn; eauto.
Qed.

Lemma ext_trans : forall n h0 h h', Ext n h0 h -> Ext (List.length h) h h' -> Ext n h0 h'.
Proof.
  intros n h0 h h' HE HE'. pose proof (ext_le _ _ _ HE) as Hle. destruct HE as [Hl Hp Hn].
  destruct HE' as [_ Hp' Hn']. split; auto.
  - rewrite <- Hp. rewrite <- Hp'. rewrite firstn_firstn. f_equal. lia.
  - intros a c Ha Hg. destruct (Nat.lt_ge_cases a (List.length h)) as [Hlt|Hge].
    + assert (get h a = Some c) as Hg'.
      { rewrite <- Hp'. rewrite get_firstn; auto. }
      eapply Hn; eauto.
    + eapply cell_ok_mono; [exact Hle|]. eapply Hn'; eauto.
Qed.

(* ---- writes *)
Lemma drop_key_ok : forall n k l, Forall (item_ok n) l -> Forall (item_ok n) (drop_key k l).
Proof.
  intros n k l H. unfold drop_key. rewrite Forall_forall in *. intros x Hx. apply filter_In in Hx. apply H. tauto.
Qed.

Lemma set_item_ok : forall n k v l, val_ok n k -> val_ok n v -> Forall (item_ok n) l -> Forall (item_ok n) (set_item k v l).
Proof.
  intros n k v l Hk Hv. induction l as [|[k' v'] r IH]; intros H; cbn.
  - constructor; [split; auto|constructor].
  - inversion H; subst. destruct (value_eqb k k').
    + constructor; [split; auto|]. apply drop_key_ok; auto.
    + constructor; auto.
Qed.

Lemma ext_put : forall n h0 h a k v, Ext n h0 h -> n <= a -> val_ok n k -> val_ok n v -> Ext n h0 (put h a k v).
Proof.
  intros n h0 h a k v HE Ha Hk Hv. unfold put. destruct (get h a) as [c|] eqn:Hg; auto.
  apply ext_upd; auto. unfold cell_ok; cbn. apply set_item_ok; auto. eapply (ext_new _ _ _ HE); eauto.
Qed.

Lemma ext_set_attr : forall n h0 h a s v, Ext n h0 h -> n <= a -> val_ok n v -> Ext n h0 (set_attr h a s v).
Proof. intros. unfold set_attr. apply ext_put; auto. Qed.

Lemma ext_set_add : forall n h0 h a e, Ext n h0 h -> n <= a -> val_ok n e -> Ext n h0 (set_add h a e).
Proof. intros. unfold set_add. apply ext_put; auto. Qed.

Lemma ext_append : forall n h0 h a e, Ext n h0 h -> n <= a -> val_ok n e -> Ext n h0 (append h a e).
Proof.
  intros n h0 h a e HE Ha He. unfold append. destruct (get h a) as [c|] eqn:Hg; auto.
  apply ext_upd; auto. unfold cell_ok; cbn. apply Forall_app. split.
  - eapply (ext_new _ _ _ HE); eauto.
  - constructor; [split; cbn; auto|constructor].
Qed.

(* ---- reads from new cells give new values *)
Lemma lookup_ok : forall n k l v, Forall (item_ok n) l -> lookup k l = Some v -> val_ok n v.
Proof.
  intros n k l v H. induction l as [|[k' v'] r IH]; cbn; intros Hl; [discriminate|].
  inversion H; subst. destruct (value_eqb k k').
  - inversion Hl; subst. destruct H2; auto.
  - auto.
Qed.

Lemma ext_attr_ok : forall n h0 h a s v, Ext n h0 h -> n <= a -> attr_at h a s = Some v -> val_ok n v.
Proof.
  intros n h0 h a s v HE Ha H. unfold attr_at in H. destruct (get h a) as [c|] eqn:Hg; [|discriminate].
  eapply lookup_ok; [|exact H]. eapply (ext_new _ _ _ HE); eauto.
Qed.

Lemma cell_attr_ok : forall n c s v, cell_ok n c -> attr c s = Some v -> val_ok n v.
Proof. intros n c s v Hc H. eapply lookup_ok; eauto. Qed.

Lemma cell_elems_ok : forall n c v, cell_ok n c -> In v (elems c) -> val_ok n v.
Proof.
  unfold elems, cell_ok. intros n c v Hc Hin. destruct (is_object (ckind c)); [contradiction|].
  apply in_map_iff in Hin as [kv [<- Hkv]]. rewrite Forall_forall in Hc. apply Hc in Hkv. apply Hkv.
Qed.

Lemma cell_keys_ok : forall n c v, cell_ok n c -> In v (keys c) -> val_ok n v.
Proof.
  unfold keys, cell_ok. intros n c v Hc Hin. destruct (is_object (ckind c)); [contradiction|].
  apply in_map_iff in Hin as [kv [<- Hkv]]. rewrite Forall_forall in Hc. apply Hc in Hkv. apply Hkv.
Qed.

Lemma fold_left_inv : forall {A B} (P : A -> Prop) (f : A -> B -> A) (l : list B) (a : A),
    (forall a x, In x l -> P a -> P (f a x)) -> P a -> P (fold_left f l a).
Proof.
  intros A B P f l. induction l as [|x r IH]; intros a Hf Ha; cbn; auto.
  apply IH; [intros; apply Hf; cbn; auto|]. apply Hf; cbn; auto.
Qed.

(* ------------------------------------------------------------------ separation from freshness *)
Definition heap_wf (h : heap) : Prop := forall a c b, get h a = Some c -> In b (crefs c) -> b < List.length h.

Lemma reach_closed : forall h (S : addr -> Prop) a b,
    (forall x y, S x -> edge h x y -> S y) -> S a -> Reach h a b -> S b.
Proof. intros h S a b Hcl Ha Hr. induction Hr; auto. apply IHHr. eapply Hcl; eauto. Qed.

Lemma reach_new : forall n h0 h a b, Ext n h0 h -> n <= a -> Reach h a b -> n <= b.
Proof.
  intros n h0 h a b HE Ha Hr. eapply (reach_closed h (fun x => n <= x)); eauto.
  intros x y Hx [c [Hg Hin]]. eapply cell_ok_crefs; [|exact Hin]. eapply (ext_new _ _ _ HE); eauto.
Qed.

Lemma reach_old : forall n h0 h a b, Ext n h0 h -> heap_wf h0 -> a < n -> Reach h a b -> b < n.
Proof.
  intros n h0 h a b HE Hwf Ha Hr. eapply (reach_closed h (fun x => x < n)); eauto.
  intros x y Hx [c [Hg Hin]]. rewrite (ext_old _ _ _ _ HE Hx) in Hg.
  rewrite <- (ext_len _ _ _ HE). eapply Hwf; eauto.
Qed.

Theorem ext_separated : forall n h0 h a b, Ext n h0 h -> heap_wf h0 -> a < n -> n <= b -> Separated h a b.
Proof.
  intros n h0 h a b HE Hwf Ha Hb x Hx Hy.
  pose proof (reach_old _ _ _ _ _ HE Hwf Ha Hx). pose proof (reach_new _ _ _ _ _ HE Hb Hy). lia.
Qed.

(* what is reachable from an old root is reachable in the old heap by the same path, and conversely *)
Lemma reach_old_same : forall n h0 h a b, Ext n h0 h -> heap_wf h0 -> a < n -> (Reach h a b <-> Reach h0 a b).
Proof.
  intros n h0 h a b HE Hwf Ha. split; intro Hr.
  - induction Hr as [a|a b c [cl [Hg Hin]] Hr IH]; [constructor|].
    rewrite (ext_old _ _ _ _ HE Ha) in Hg.
    assert (b < n) as Hb by (rewrite <- (ext_len _ _ _ HE); eapply Hwf; eauto).
    econstructor; [exists cl; split; eauto|]. auto.
  - induction Hr as [a|a b c [cl [Hg Hin]] Hr IH]; [constructor|].
    assert (b < n) as Hb by (rewrite <- (ext_len _ _ _ HE); eapply Hwf; eauto).
    econstructor; [exists cl; split; eauto; rewrite (ext_old _ _ _ _ HE Ha); auto|]. auto.
Qed.

(* ------------------------------------------------------------------ frame *)
(* `unfold`: everything that can be read from a value by following pointers, to any depth *)
Inductive utree := UAt (s : string) | UNode (a : addr) (k : kind) (items : list (utree * utree)) | UCut | UDangling.

Fixpoint unfold (h : heap) (fuel : nat) (v : value) : utree :=
  match v with
  | At s => UAt s
  | Ref a =>
      match fuel with
      | O => UCut
      | S f =>
          match get h a with
          | None => UDangling
          | Some c => UNode a (ckind c) (map (fun kv => (unfold h f (fst kv), unfold h f (snd kv))) (citems c))
          end
      end
  end.

Definition reach_val (h : heap) (root : addr) (v : value) : Prop :=
  match v with At _ => True | Ref a => Reach h root a end.

Lemma reach_trans : forall h a b c, Reach h a b -> Reach h b c -> Reach h a c.
Proof. intros h a b c H1 H2. induction H1; auto. econstructor; eauto. Qed.

Lemma reach_item : forall h root a c kv, Reach h root a -> get h a = Some c -> In kv (citems c) ->
  reach_val h root (fst kv) /\ reach_val h root (snd kv).
Proof.
  intros h root a c [k v] Hr Hg Hin. split; cbn.
  - destruct k as [s|b]; cbn; auto. eapply reach_trans; [exact Hr|]. econstructor; [|constructor].
    exists c. split; auto. unfold crefs. apply in_flat_map. exists (Ref b, v). split; auto. cbn. auto.
  - destruct v as [s|b]; cbn; auto. eapply reach_trans; [exact Hr|]. econstructor; [|constructor].
    exists c. split; auto. unfold crefs. apply in_flat_map. exists (k, Ref b). split; auto.
    unfold irefs. apply in_or_app. right. cbn. auto.
Qed.

(* two heaps that agree on every cell reachable from the root have the same unfolding from the root *)
Lemma unfold_agree : forall h1 h2 root fuel v,
    (forall a, Reach h1 root a -> get h2 a = get h1 a) ->
    reach_val h1 root v -> unfold h2 fuel v = unfold h1 fuel v.
Proof.
  intros h1 h2 root fuel. induction fuel as [|f IH]; intros v Hag Hv; destruct v as [s|a]; cbn; auto.
  cbn in Hv. rewrite (Hag a Hv). destruct (get h1 a) as [c|] eqn:Hg; auto. f_equal.
  apply map_ext_in. intros kv Hin. destruct (reach_item _ _ _ _ _ Hv Hg Hin) as [H1 H2].
  f_equal; apply IH; auto.
Qed.

(* FRAME: an arbitrary write to a cell that is not reachable from a root leaves everything readable from
   that root unchanged, to every depth *)
Theorem frame_write : forall h root a c fuel,
    ~ Reach h root a -> unfold (upd h a c) fuel (Ref root) = unfold h fuel (Ref root).
Proof.
  intros h root a c fuel Hn. apply unfold_agree with (root := root).
  - intros b Hb. apply get_upd_ne. intro; subst; auto.
  - cbn. constructor.
Qed.

(* ... and an allocation does not change it either *)
Theorem frame_alloc : forall h root c fuel,
    heap_wf h -> root < List.length h -> unfold (h ++ [c]) fuel (Ref root) = unfold h fuel (Ref root).
Proof.
  intros h root c fuel Hwf Hr. apply unfold_agree with (root := root).
  - intros b Hb. assert (b < List.length h) as Hlt.
    { eapply (reach_closed h (fun x => x < List.length h)); eauto. intros x y Hx [cl [Hg Hin]]. eapply Hwf; eauto. }
    unfold get. rewrite nth_error_app1; auto.
  - cbn. constructor.
Qed.

Lemma reach_edge : forall h a b, edge h a b -> Reach h a b.
Proof. intros. eapply reach_step; [eassumption|constructor]. Qed.

(* reachability itself is unaffected by a write outside the reachable part *)
Lemma reach_frame : forall h root a c b, ~ Reach h root a -> (Reach (upd h a c) root b <-> Reach h root b).
Proof.
  intros h root a c b Hn. split; intro Hr.
  - assert (forall x, Reach h root x -> Reach (upd h a c) x b -> Reach h x b) as Hgen.
    { clear Hr. intros x Hrx Hxb. induction Hxb as [x|x y z [cl [Hg Hin]] Hxb IH]; [constructor|].
      assert (x <> a) by (intro; subst; auto).
      rewrite get_upd_ne in Hg by auto.
      assert (edge h x y) as He by (exists cl; auto).
      eapply reach_step; [exact He|]. apply IH. eapply reach_trans; [exact Hrx|]. apply reach_edge; auto. }
    apply Hgen; auto. constructor.
  - assert (forall x, Reach h root x -> Reach h x b -> Reach (upd h a c) x b) as Hgen.
    { clear Hr. intros x Hrx Hxb. induction Hxb as [x|x y z [cl [Hg Hin]] Hxb IH]; [constructor|].
      assert (x <> a) by (intro; subst; auto).
      assert (edge h x y) as He by (exists cl; auto).
      eapply reach_step; [exists cl; split; eauto; rewrite get_upd_ne; auto|].
      apply IH. eapply reach_trans; [exact Hrx|]. apply reach_edge; auto. }
    apply Hgen; auto. constructor.
Qed.
