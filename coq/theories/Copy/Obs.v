(* C12 — `content`: what can be observed of a model (or of a detached reaction / metabolite) by reading
   through the heap, and the boolean monitors evaluated on heaps (the model's and the implementation's). *)
From Coq Require Import List String Bool Arith.
From Cobra.Copy Require Import Heap Model.
Import ListNotations.
Open Scope string_scope.
Open Scope list_scope.

Inductive tree :=
| TAt (s : string)
| TLink (k : kind) (id : string) (registered : bool)   (* a reference to a cobra object: class, id, and whether it IS
                                                          the object registered under that id in the observed model *)
| TNode (k : kind) (items : list (tree * tree))
| TCut.

Definition list_attr (k : kind) : string :=
  match k with KReaction => "reactions" | KMetabolite => "metabolites" | KGene => "genes" | KGroup => "groups" | _ => "" end.

Definition kind_name (k : kind) : string :=
  match k with KModel => "Model" | KReaction => "Reaction" | KMetabolite => "Metabolite" | KGene => "Gene"
             | KGroup => "Group" | KGpr => "GPR" | KDictList => "DictList" | KDict => "dict" | KList => "list"
             | KSet => "set" | KOpaque => "opaque" end.

Definition registered (h : heap) (root : option addr) (k : kind) (idv : value) (a : addr) : bool :=
  match root with
  | None => false
  | Some m =>
      match k with
      | KModel => Nat.eqb a m
      | _ => match attr_at h m (list_attr k) with
             | Some (Ref dl) => match get_by_id h dl idv with Some x => Nat.eqb x a | None => false end
             | _ => false
             end
      end
  end.

Definition tree_key (t : tree) : string :=
  match t with
  | TAt s => s
  | TLink k i _ => kind_name k ++ ":" ++ i
  | _ => ""
  end.

Fixpoint insert_sorted (x : tree * tree) (l : list (tree * tree)) : list (tree * tree) :=
  match l with
  | [] => [x]
  | y :: r => if String.leb (tree_key (fst x)) (tree_key (fst y)) then x :: l else y :: insert_sorted x r
  end.
Definition sort_items (l : list (tree * tree)) : list (tree * tree) := fold_right insert_sorted [] l.

(* values: containers are unfolded, references to cobra objects are summarised *)
Fixpoint obs_val (h : heap) (root : option addr) (fuel : nat) (v : value) : tree :=
  match v with
  | At s => TAt s
  | Ref a =>
      match fuel with
      | O => TCut
      | S f =>
          match get h a with
          | None => TCut
          | Some c =>
              if is_object (ckind c)
              then let idv := match attr c "_id" with Some i => i | None => At "?" end in
                   TLink (ckind c) (match idv with At s => s | Ref _ => "?" end) (registered h root (ckind c) idv a)
              else let items := map (fun kv => (obs_val h root f (fst kv), obs_val h root f (snd kv))) (citems c) in
                   TNode (ckind c) (match ckind c with KSet => sort_items items | _ => items end)
          end
      end
  end.

Definition DEPTH : nat := 8.

(* one cobra object: every attribute except those in `drop` *)
Definition obs_obj (h : heap) (root : option addr) (drop : list string) (a : addr) : tree :=
  match get h a with
  | None => TCut
  | Some c =>
      TNode (ckind c)
            (sort_items                                  (* attribute order is not content *)
              (map (fun kv => (obs_val h root DEPTH (fst kv), obs_val h root DEPTH (snd kv)))
                   (filter (fun kv => match fst kv with At n => negb (mems n drop) | Ref _ => true end) (citems c))))
  end.

Definition obs_list (h : heap) (root : addr) (v : value) : tree :=
  match v with
  | Ref dl => match get h dl with
              | Some c => TNode (ckind c) (map (fun e => (TAt "", match e with Ref x => obs_obj h (Some root) [] x | At s => TAt s end))
                                               (elems c))
              | None => TCut
              end
  | At s => TAt s
  end.

Definition is_list_attr (n : string) : bool := mems n ["reactions"; "metabolites"; "genes"; "groups"].

(* the whole model; the context stack is not content (a copy starts with an empty one) *)
Definition obs_model (h : heap) (m : addr) : tree :=
  match get h m with
  | None => TCut
  | Some c =>
      TNode KModel
           (sort_items
            (map (fun kv => (obs_val h (Some m) DEPTH (fst kv),
                             match fst kv with
                             | At n => if is_list_attr n then obs_list h m (snd kv) else obs_val h (Some m) DEPTH (snd kv)
                             | Ref _ => TCut end))
                 (filter (fun kv => negb (key_is (fst kv) "_contexts")) (citems c))))
  end.

(* a detached reaction (model None) with its metabolites and genes; a detached metabolite / gene *)
Definition obs_species (h : heap) (x : value) : tree :=
  match x with Ref a => obs_obj h None ["_model"; "_reaction"] a | At s => TAt s end.

Definition obs_reaction (h : heap) (r : addr) : tree :=
  match get h r with
  | None => TCut
  | Some c =>
      TNode KList [(TAt "self", obs_obj h None ["_model"] r);
                   (TAt "metabolites", TNode KList (map (fun x => (TAt "", obs_species h x)) (dict_keys h (attr c "_metabolites"))));
                   (TAt "genes", TNode KSet (sort_items (map (fun x => (obs_species h x, TAt "")) (dict_keys h (attr c "_genes")))))]
  end.

Fixpoint tree_eqb (a b : tree) {struct a} : bool :=
  match a, b with
  | TAt s, TAt t => String.eqb s t
  | TLink k i r, TLink k' i' r' => kind_eqb k k' && String.eqb i i' && Bool.eqb r r'
  | TNode k l, TNode k' l' =>
      kind_eqb k k' &&
      (fix go (l l' : list (tree * tree)) {struct l} : bool :=
         match l, l' with
         | [], [] => true
         | (x, y) :: r, (x', y') :: r' => tree_eqb x x' && tree_eqb y y' && go r r'
         | _, _ => false
         end) l l'
  | TCut, TCut => true
  | _, _ => false
  end.

(* ------------------------------------------------------------------ monitors *)
Definition items_eqb (a b : list (value * value)) : bool :=
  (fix go (a b : list (value * value)) : bool :=
     match a, b with
     | [], [] => true
     | (k, v) :: r, (k', v') :: r' => value_eqb k k' && value_eqb v v' && go r r'
     | _, _ => false
     end) a b.

Definition cell_eqb (a b : cell) : bool := kind_eqb (ckind a) (ckind b) && items_eqb (citems a) (citems b).

Fixpoint heap_eqb (a b : heap) : bool :=
  match a, b with
  | [], [] => true
  | x :: r, y :: s => cell_eqb x y && heap_eqb r s
  | _, _ => false
  end.

(* the part of the heap that existed before the operation is unchanged afterwards *)
Definition old_unchanged (h0 hp : heap) : bool := heap_eqb (firstn (List.length h0) hp) h0.

(* no dangling pointers *)
Definition heap_wf_b (h : heap) : bool :=
  forallb (fun c => forallb (fun b => Nat.ltb b (List.length h)) (crefs c)) h.

(* separation certificate: every cell created by the operation points only at cells created by it *)
Definition fresh_closed_b (n : nat) (hp : heap) : bool :=
  forallb (fun c => forallb (fun b => Nat.leb n b) (crefs c)) (skipn n hp).

Definition sep_cert_b (h0 hp : heap) : bool :=
  heap_wf_b h0 && old_unchanged h0 hp && fresh_closed_b (List.length h0) hp.

(* old cells reachable from the result = what the result shares with what existed before *)
Definition shared (n : nat) (hp : heap) (res : addr) : list addr :=
  filter (fun a => Nat.ltb a n) (reachable hp res).

(* the operand does not reach anything created by the operation *)
Definition stays_old (n : nat) (hp : heap) (root : addr) : bool :=
  forallb (fun a => Nat.ltb a n) (reachable hp root).

Definition subset (a b : list addr) : bool := forallb (fun x => memn x b) a.
Definition same_set (a b : list addr) : bool := subset a b && subset b a.

Definition is_new_ref (n : nat) (v : value) : bool := match v with Ref a => Nat.leb n a | At _ => false end.

(* every object of the four lists of the copy is a cell created by the copy whose _model is the copy *)
Definition list_points_to (n : nat) (hp : heap) (m' : addr) (name : string) : bool :=
  match attr_at hp m' name with
  | Some (Ref dl) =>
      Nat.leb n dl &&
      forallb (fun e => match e with
                        | Ref x => Nat.leb n x && match attr_at hp x "_model" with Some (Ref y) => Nat.eqb y m' | _ => false end
                        | At _ => false end)
              (list_elems hp (Some (Ref dl)))
  | _ => false
  end.

Definition points_to_copy_b (n : nat) (hp : heap) (m' : addr) : bool :=
  Nat.leb n m' &&
  forallb (list_points_to n hp m') ["reactions"; "metabolites"; "genes"; "groups"] &&
  match attr_at hp m' "_contexts" with                       (* a fresh, empty context stack *)
  | Some (Ref cx) => Nat.leb n cx && match get hp cx with Some c => match citems c with [] => true | _ => false end | None => false end
  | _ => false
  end &&
  match attr_at hp m' "_solver" with Some v => is_new_ref n v | None => false end.

Definition model_is_none (hp : heap) (x : value) : bool :=
  match x with
  | Ref a => match attr_at hp a "_model" with Some v => is_none v | None => false end
  | At _ => false
  end.

(* Reaction.copy: the result and its metabolites / genes are new cells with no model *)
Definition detached_reaction_b (n : nat) (hp : heap) (r' : addr) : bool :=
  Nat.leb n r' && model_is_none hp (Ref r') &&
  match get hp r' with
  | Some c =>
      forallb (fun x => is_new_ref n x && model_is_none hp x) (dict_keys hp (attr c "_metabolites")) &&
      forallb (fun x => is_new_ref n x && model_is_none hp x) (dict_keys hp (attr c "_genes"))
  | None => false
  end.

Definition detached_species_b (n : nat) (hp : heap) (x' : addr) : bool :=
  Nat.leb n x' && model_is_none hp (Ref x') &&
  match attr_at hp x' "_reaction" with
  | Some (Ref s) => match get hp s with Some c => match citems c with [] => true | _ => false end | None => false end
  | _ => false
  end.

Definition equiv_b (o : cop) (h0 : heap) (a : addr) (hp : heap) (res : addr) : bool :=
  match o with
  | OpModelCopy | OpDeepcopy | OpPickle => tree_eqb (obs_model hp res) (obs_model h0 a)
  | OpReactionCopy => tree_eqb (obs_reaction hp res) (obs_reaction h0 a)
  | OpSpeciesCopy => tree_eqb (obs_species hp (Ref res)) (obs_species h0 (Ref a))
  end.

Definition points_b (o : cop) (n : nat) (hp : heap) (res : addr) : bool :=
  match o with
  | OpModelCopy | OpDeepcopy | OpPickle => points_to_copy_b n hp res
  | OpReactionCopy => detached_reaction_b n hp res
  | OpSpeciesCopy => detached_species_b n hp res
  end.

Definition obs_result (o : cop) (hp : heap) (res : addr) : tree :=
  match o with
  | OpModelCopy | OpDeepcopy | OpPickle => obs_model hp res
  | OpReactionCopy => obs_reaction hp res
  | OpSpeciesCopy => obs_species hp (Ref res)
  end.

(* ------------------------------------------------------------------ typing discipline of the theorems *)
(* every attribute of a cobra object that its class does not initialise with a container holds an atom;
   stoichiometric coefficients are atoms; GPR bodies are atoms (the rule text) *)
Definition attrs_of (T : copytable) (k : kind) : list (string * akind) :=
  match k with
  | KModel => ct_attrs_model T | KReaction => ct_attrs_rxn T | KMetabolite => ct_attrs_met T
  | KGene => ct_attrs_gene T | KGroup => ct_attrs_group T | _ => []
  end.

Definition cell_typed (T : copytable) (h : heap) (c : cell) : bool :=
  if is_object (ckind c)
  then forallb (fun kv => match fst kv with
                          | At n => is_atom (snd kv) || is_container (akind_of (attrs_of T (ckind c)) n)
                          | Ref _ => false end) (citems c)
  else true.

Definition typed_b (T : copytable) (h : heap) : bool := forallb (cell_typed T h) h.

(* ------------------------------------------------------------------ static side condition on the generated table *)
(* Model.copy is safe when every attribute that a class initialises with a mutable container is either one of
   the re-linked attributes (excluded from the generic loop and rebuilt by the code below it) or deep-copied,
   the context stack is not shared while the objects are copied, and every container attribute of the model
   itself that the first loop copies by reference is overwritten later. *)
Definition is_deep (m : mode) : bool := match m with Deep => true | _ => false end.

Definition ktable_safe (attrs : list (string * akind)) (relinked : list string) (kt : ktable) : bool :=
  forallb (fun nk => negb (is_container (snd nk)) || mems (fst nk) (kt_excluded kt) || is_deep (mode_of kt (fst nk))) attrs
  && forallb (fun n => mems n relinked) (kt_excluded kt)
  && is_deep (kt_default kt).                 (* attributes the class does not declare are deep-copied too *)

Definition pending (T : copytable) : list string :=
  filter (fun n => negb (mems n (ct_model_excluded T)))
         (map fst (filter (fun nk => is_container (snd nk)) (ct_attrs_model T))).

Definition overwritten (T : copytable) : list string :=
  ["_solver"; "metabolites"; "genes"; "reactions"; "groups"; "_contexts"]
    ++ map fst (filter (fun nm => is_deep (snd nm)) (ct_model_explicit T)).

Definition read_names : list string :=
  ["_id"; "_reaction"; "_metabolites"; "_members"; "_genes"; "_gpr"; "_contexts"; "_model"].

Definition table_safe (T : copytable) : bool :=
  ktable_safe (ct_attrs_met T) ["_model"; "_reaction"] (ct_met T)
  && ktable_safe (ct_attrs_gene T) ["_model"; "_reaction"] (ct_gene T)
  && ktable_safe (ct_attrs_rxn T) ["_model"; "_metabolites"; "_genes"] (ct_rxn T)
  && ktable_safe (ct_attrs_group T) ["_model"; "_members"] (ct_group T)
  && forallb (fun n => mems n (overwritten T)) (pending T)
  && forallb (fun n => negb (mems n read_names)) (pending T)
  && mems "_contexts" (ct_model_excluded T)
  && forallb (fun nm => is_deep (snd nm)) (ct_model_explicit T)
  && forallb (fun n => mems n (ct_repoint T)) ["reactions"; "metabolites"; "genes"; "groups"]
  && ct_add_copies T && ct_sub_copies T.

(* executable edge test, for concrete witnesses *)
Definition edge_b (h : heap) (a b : addr) : bool :=
  match get h a with Some c => memn b (crefs c) | None => false end.
