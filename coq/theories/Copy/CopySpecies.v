(* C12 — functional description of the object loops of Model.copy that create metabolites, genes and
   (first pass) groups:
       new_x = <attribute loop>(x); new_x._model = new; new.<list>.append(new_x)
   After the loop over the old list L the new DictList holds one new object per old object, in order; each new
   object is a copy of its original (`ObjCopied`), points at the new model, and its re-linked set attribute
   (_reaction / _members) is a fresh EMPTY set cell of its own. *)
From Coq Require Import List String Bool Arith Lia.
From Cobra.Copy Require Import Heap Model Obs Lemmas Proofs CopyHeapFacts CopyData CopyState CopyObj.
Import ListNotations.
Open Scope string_scope.
Open Scope list_scope.

Definition rec3 := (addr * addr * addr)%type.
Definition r_old (r : rec3) : addr := fst (fst r).
Definition r_new (r : rec3) : addr := snd (fst r).
Definition r_set (r : rec3) : addr := snd r.

Definition dl_items (news : list addr) : list (value * value) := map (fun x => (At "", Ref x)) news.

Section Copied.
  Variable h0 : heap.
  Notation n := (List.length h0).

  (* a' (in h) is a copy of the old object a: same class, same attribute names in the same order, every attribute
     that is not excluded holds an isomorphic copy of the old value made of data cells *)
  Definition ObjCopied (kt : ktable) (h : heap) (W : list addr) (a a' : addr) : Prop :=
    exists oc c', get h0 a = Some oc /\ get h a' = Some c' /\ ckind c' = ckind oc /\
                  keys_of (citems c') = keys_of (citems oc) /\
                  forall s v, In (At s, v) (citems oc) -> mems s (kt_excluded kt) = false ->
                              exists v', attr c' s = Some v' /\ DIso h0 v (PD n W (List.length h)) h v'.

  Lemma objcopied_tr_g : forall kt FP h W h2 W2 a a',
      ObjCopied kt h W a a' -> St n h0 h W -> Tr FP h W h2 W2 -> FPok h W FP -> In a' W -> ~ In a' FP ->
      ObjCopied kt h2 W2 a a'.
  Proof.
    intros kt FP h W h2 W2 a a' [oc [c' [Ho [Hg [Hk [Hkeys Hat]]]]]] HS HT Hi Ha Hnf.
    exists oc, c'. split; auto. split.
    - rewrite (tr_same _ _ _ _ _ HT); auto. apply (st_W _ _ _ _ HS) in Ha. lia.
    - split; auto. split; auto. intros s v Hin Hex. destruct (Hat s v Hin Hex) as [v' [H1 H2]]. exists v'. split; auto.
      eapply diso_tr_g; eauto.
  Qed.

  Lemma objcopied_tr : forall kt FP h W h2 W2 a a',
      ObjCopied kt h W a a' -> St n h0 h W -> Tr FP h W h2 W2 -> incl FP W -> In a' W -> ~ In a' FP ->
      ObjCopied kt h2 W2 a a'.
  Proof. intros. eapply objcopied_tr_g; eauto. apply fpok_incl. auto. Qed.

  (* re-assigning an excluded attribute that the object already has *)
  Lemma objcopied_set_attr : forall kt h W a a' s v,
      ObjCopied kt h W a a' -> St n h0 h W -> In a' W -> mems s (kt_excluded kt) = true ->
      (forall oc, get h0 a = Some oc -> In (At s) (keys_of (citems oc)) /\ NoDup (keys_of (citems oc))) ->
      ObjCopied kt (set_attr h a' s v) W a a'.
  Proof.
    intros kt h W a a' s v [oc [c' [Ho [Hg [Hk [Hkeys Hat]]]]]] HS Ha Hex Hoc.
    destruct (Hoc oc Ho) as [Hin Hnd].
    destruct (st_set_attr n h0 h W a' s v HS Ha) as [HS2 HT2].
    exists oc, (mkCell (ckind c') (set_item (At s) v (citems c'))). split; auto. split.
    - unfold set_attr. apply get_put_eq. exact Hg.
    - split; auto. split.
      + cbn [citems]. rewrite keys_set_item_in; auto; rewrite Hkeys; auto.
      + intros t u Hinu Hext. destruct (Hat t u Hinu Hext) as [v' [H1 H2]]. exists v'. split.
        * rewrite attr_set_item_other; auto. intro; subst. congruence.
        * eapply diso_tr; [exact HS|exact HT2| |exact H2]. intros x [<-|[]]. exact Ha.
  Qed.

  Lemma objcopied_attr_atom : forall kt h W a a' s v,
      ObjCopied kt h W a a' -> attr_at h0 a s = Some v -> is_atom v = true -> mems s (kt_excluded kt) = false ->
      attr_at h a' s = Some v.
  Proof.
    intros kt h W a a' s v [oc [c' [Ho [Hg [Hk [Hkeys Hat]]]]]] Hv Hatom Hex.
    unfold attr_at in *. rewrite Ho in Hv. rewrite Hg. unfold attr in Hv. apply lookup_in in Hv.
    destruct (Hat s v Hv Hex) as [v' [H1 H2]]. rewrite H1. f_equal. eapply diso_atom_inv; eauto.
  Qed.
End Copied.

Section Species.
  Variable T : copytable.
  Variable h0 : heap.
  Notation n := (List.length h0).
  Variable m' : addr.
  Variable kt : ktable.
  Variable attrs : list (string * akind).
  Variable lk : string.
  Hypothesis Hex_model : mems "_model" (kt_excluded kt) = true.
  Hypothesis Hex_lk : mems lk (kt_excluded kt) = true.
  Hypothesis Hlk_set : akind_of attrs lk = ASet.
  Hypothesis Hlk_ne : lk <> "_model".

  (* the record of one copied metabolite / gene / group: the new object, its link set and the set's content *)
  Definition SpRec (h : heap) (W : list addr) (r : rec3) (items : list (value * value)) : Prop :=
    In (r_new r) W /\ In (r_set r) W /\ r_new r <> r_set r /\
    ObjCopied h0 kt h W (r_old r) (r_new r) /\
    attr_at h (r_new r) "_model" = Some (Ref m') /\
    attr_at h (r_new r) lk = Some (Ref (r_set r)) /\
    get h (r_set r) = Some (mkCell KSet items).

  Lemma sprec_tr_g : forall FP h W h2 W2 r items,
      SpRec h W r items -> St n h0 h W -> Tr FP h W h2 W2 -> FPok h W FP ->
      ~ In (r_new r) FP -> ~ In (r_set r) FP -> SpRec h2 W2 r items.
  Proof.
    intros FP h W h2 W2 r items [H1 [H2 [H3 [H4 [H5 [H6 H7]]]]]] HS HT Hi Hn1 Hn2.
    pose proof (st_W _ _ _ _ HS _ H1) as L1. pose proof (st_W _ _ _ _ HS _ H2) as L2.
    assert (get h2 (r_new r) = get h (r_new r)) as E1 by (apply (tr_same _ _ _ _ _ HT); auto; lia).
    assert (get h2 (r_set r) = get h (r_set r)) as E2 by (apply (tr_same _ _ _ _ _ HT); auto; lia).
    unfold SpRec. repeat split; auto; try (apply (tr_W _ _ _ _ _ HT); auto).
    - eapply objcopied_tr_g; eauto.
    - rewrite (attr_at_agree _ _ _ _ E1). exact H5.
    - rewrite (attr_at_agree _ _ _ _ E1). exact H6.
    - rewrite E2. exact H7.
  Qed.

  Lemma sprec_tr : forall FP h W h2 W2 r items,
      SpRec h W r items -> St n h0 h W -> Tr FP h W h2 W2 -> incl FP W ->
      ~ In (r_new r) FP -> ~ In (r_set r) FP -> SpRec h2 W2 r items.
  Proof. intros. eapply sprec_tr_g; eauto. apply fpok_incl. auto. Qed.

  (* what is required of an old object of the list *)
  Record SpOld (a : addr) (oc : cell) : Prop := mkSpOld {
    so_get : get h0 a = Some oc;
    so_ok : ObjOk h0 kt oc;
    so_model : In (At "_model") (keys_of (citems oc));
    so_lk : In (At lk) (keys_of (citems oc))
  }.

  Definition SpInv (lo : nat) (dl : addr) (h : heap) (W : list addr) (recs : list rec3) : Prop :=
    St n h0 h W /\ In dl W /\ dl < lo /\
    get h dl = Some (mkCell KDictList (dl_items (map r_new recs))) /\
    forall r, In r recs -> SpRec h W r [] /\ lo <= r_new r /\ lo <= r_set r.

  Lemma keys_in_item : forall k (l : list (value * value)), In k (keys_of l) -> exists v, In (k, v) l.
  Proof.
    intros k l H. unfold keys_of in H. apply in_map_iff in H as [[k' v] [Hk Hin]]. cbn in Hk. subst. eauto.
  Qed.

  Lemma copy_species_desc : forall lo dl h W recs a oc,
      SpInv lo dl h W recs -> lo <= List.length h -> SpOld a oc ->
      exists W2 s1,
        let h2 := copy_species T kt attrs m' dl h (Ref a) in
        SpInv lo dl h2 W2 (recs ++ [(a, List.length h, s1)]) /\ Tr [dl] h W h2 W2 /\
        List.length h < s1 < List.length h2.
  Proof.
    intros lo dl h W recs a oc [HS [Hdl [Hdllo [Hgdl Hrecs]]]] Hlo [Hga Hok Hmodel Hlk].
    pose proof (get_lt _ _ _ Hga) as Han.
    unfold copy_species. rewrite (st_old _ _ _ _ HS a Han), Hga.
    destruct (copy_obj T kt attrs h oc) as [h1 a1] eqn:E.
    destruct (copy_obj_desc T h0 kt attrs h W oc h1 a1 HS Hok E) as [-> [W1 [HS1 [HT1 [Ha1 [c' [Hg1 [Hk1 [Hkeys1 HA]]]]]]]]].
    set (a1 := List.length h) in *.
    (* the link set allocated by the constructor *)
    destruct (keys_in_item _ _ Hlk) as [vlk Hvlk].
    pose proof (HA lk vlk Hvlk) as Hd. rewrite Hex_lk, Hlk_set in Hd. destruct Hd as [d [Hd1 [s1 [-> [Hs1lo [Hs1W Hs1g]]]]]].
    cbn [kind_of_akind] in Hs1g.
    exists W1, s1. cbv zeta.
    (* new_x._model = new *)
    destruct (st_set_attr n h0 h1 W1 a1 "_model" (Ref m') HS1 Ha1) as [HS2 HT2].
    set (h2 := set_attr h1 a1 "_model" (Ref m')) in *.
    assert (In dl W1) as Hdl1 by (apply (tr_W _ _ _ _ _ HT1); exact Hdl).
    destruct (st_append n h0 h2 W1 dl (Ref a1) HS2 Hdl1) as [HS3 HT3].
    set (h3 := append h2 dl (Ref a1)) in *.
    pose proof (st_W _ _ _ _ HS _ Hdl) as Hdl_lt.
    assert (dl <> a1) as Hdla by (unfold a1; lia).
    assert (dl <> s1) as Hdls by lia.
    assert (a1 <> s1) as Ha1s by lia.
    assert (Tr [a1; dl] h1 W1 h3 W1) as HT23 by (apply (tr_trans _ _ _ _ _ _ _ _ HT2 HT3)).
    assert (Tr [dl] h W h3 W1) as HTall.
    { pose proof (tr_trans _ _ _ _ _ _ _ _ HT1 HT23) as H. cbn [app] in H.
      destruct H as [L A N S]. split; auto. intros x Hx Hnot. apply S; auto. intros [<-|[<-|[]]]; [unfold a1 in Hx; lia|apply Hnot; left; reflexivity]. }
    split; [|split; [exact HTall|]].
    2:{ split; [unfold a1 in Hs1lo; lia|]. apply (st_W _ _ _ _ HS3). exact Hs1W. }
    split; [exact HS3|]. split; [exact Hdl1|]. split; [exact Hdllo|]. split.
    - (* the DictList *)
      unfold h3. assert (get h2 dl = Some (mkCell KDictList (dl_items (map r_new recs)))) as Hg2.
      { unfold h2. rewrite get_set_attr_ne by auto. rewrite (tr_same _ _ _ _ _ HT1 dl); [exact Hgdl|lia|intros []]. }
      rewrite (get_append_eq _ _ _ _ Hg2). cbn [ckind citems]. unfold dl_items. rewrite map_app, map_app. reflexivity.
    - intros r Hr. apply in_app_or in Hr as [Hr|[<-|[]]].
      + destruct (Hrecs r Hr) as [Hrec [Hl1 Hl2]]. split; [|split; auto].
        destruct Hrec as [Hw1 [Hw2 Hrest]].
        pose proof (st_W _ _ _ _ HS _ Hw1) as L1. pose proof (st_W _ _ _ _ HS _ Hw2) as L2.
        eapply sprec_tr; [split; [exact Hw1|split; [exact Hw2|exact Hrest]]|exact HS|exact HTall| | |].
        * intros x [<-|[]]. exact Hdl.
        * intros [Heq|[]]. lia.
        * intros [Heq|[]]. lia.
      + split; [|unfold r_new, r_set; cbn [fst snd]; split; unfold a1; lia].
        unfold SpRec, r_new, r_set, r_old. cbn [fst snd].
        assert (get h3 a1 = Some (mkCell (ckind c') (set_item (At "_model") (Ref m') (citems c')))) as Hg3.
        { unfold h3. rewrite get_append_ne by auto. unfold h2, set_attr. apply get_put_eq. exact Hg1. }
        assert (NoDup (keys_of (citems c'))) as Hnd' by (rewrite Hkeys1; apply (ok_nodup _ _ _ Hok)).
        assert (In (At "_model") (keys_of (citems c'))) as Hmod' by (rewrite Hkeys1; exact Hmodel).
        split; [exact Ha1|]. split; [exact Hs1W|]. split; [exact Ha1s|]. split; [|split; [|split]].
        * exists oc, (mkCell (ckind c') (set_item (At "_model") (Ref m') (citems c'))).
          split; [exact Hga|]. split; [exact Hg3|]. split; [exact Hk1|]. split.
          -- cbn [citems]. rewrite keys_set_item_in; auto.
          -- intros s v Hin Hex. pose proof (HA s v Hin) as Hv. rewrite Hex in Hv. destruct Hv as [v' [Hv1 Hv2]].
             exists v'. split.
             ++ rewrite attr_set_item_other; auto. intro; subst. congruence.
             ++ eapply diso_tr; [exact HS1|exact HT23| |exact Hv2]. intros x [<-|[<-|[]]]; auto.
        * unfold attr_at. rewrite Hg3. apply attr_set_item_same.
        * unfold attr_at. rewrite Hg3. rewrite attr_set_item_other; auto.
        * rewrite (tr_same _ _ _ _ _ HT23); auto.
          -- apply (st_W _ _ _ _ HS1). exact Hs1W.
          -- intros [Heq|[Heq|[]]]; congruence.
  Qed.

  Definition cells3 (r : rec3) : list addr := [r_new r; r_set r].

  Lemma species_loop_desc : forall lo dl (L : list addr) h W recs,
      SpInv lo dl h W recs -> lo <= List.length h ->
      (forall a, In a L -> exists oc, SpOld a oc) ->
      exists W2 recs2,
        let h2 := fold_left (copy_species T kt attrs m' dl) (map Ref L) h in
        SpInv lo dl h2 W2 (recs ++ recs2) /\ map r_old recs2 = L /\ Tr [dl] h W h2 W2 /\
        NoDup (flat_map cells3 recs2) /\
        (forall r x, In r recs2 -> In x (cells3 r) -> List.length h <= x < List.length h2).
  Proof.
    intros lo dl L. induction L as [|a L IH]; intros h W recs HI Hlo HL.
    - exists W, []. cbn. rewrite app_nil_r. split; auto. split; auto. split.
      + eapply tr_weaken; [apply tr_refl|]. intros x [].
      + split; [constructor|intros r x []].
    - destruct (HL a (or_introl eq_refl)) as [oc Hoc].
      destruct (copy_species_desc lo dl h W recs a oc HI Hlo Hoc) as [W1 [s1 [HI1 [HT1 Hs1]]]]. cbv zeta in HI1, HT1, Hs1.
      set (h1 := copy_species T kt attrs m' dl h (Ref a)) in *.
      assert (lo <= List.length h1) as Hlo1 by (pose proof (tr_len _ _ _ _ _ HT1); lia).
      destruct (IH h1 W1 _ HI1 Hlo1 (fun x Hx => HL x (or_intror Hx))) as [W2 [recs2 [HI2 [Hold [HT2 [Hnd Hrng]]]]]].
      cbv zeta in HI2, HT2, Hrng. exists W2, ((a, List.length h, s1) :: recs2). cbn [map fold_left]. cbv zeta.
      rewrite <- app_assoc in HI2. cbn [app] in HI2. split; [exact HI2|]. split; [cbn; f_equal; exact Hold|]. split.
      + pose proof (tr_trans _ _ _ _ _ _ _ _ HT1 HT2) as H. eapply tr_weaken; [exact H|].
        intros x Hx. apply in_app_or in Hx as [Hx|Hx]; exact Hx.
      + pose proof (tr_len _ _ _ _ _ HT2) as Hl2. fold h1. split.
        * cbn [flat_map cells3 app]. unfold r_new at 1, r_set at 1. cbn [fst snd].
          constructor; [|constructor; auto].
          -- intros [Heq|Hin]; [lia|]. apply in_flat_map in Hin as [r [Hr Hx]]. pose proof (Hrng r _ Hr Hx). lia.
          -- intro Hin. apply in_flat_map in Hin as [r [Hr Hx]]. pose proof (Hrng r _ Hr Hx). lia.
        * intros r x [<-|Hr] Hx.
          -- unfold cells3, r_new, r_set in Hx. cbn [fst snd] in Hx. destruct Hx as [<-|[<-|[]]]; lia.
          -- pose proof (Hrng r x Hr Hx). lia.
  Qed.
End Species.
