(* C12 — Model.copy (Copy/Model.v, `model_copy`) cut into its stages, one definition per loop, so that each
   loop gets its own invariant lemma.  `model_copy_stages` shows (by computation) that the staged form IS
   `model_copy`; nothing is re-modelled here. *)
From Coq Require Import List String Bool Arith.
From Cobra.Copy Require Import Heap Model.
Import ListNotations.
Open Scope string_scope.
Open Scope list_scope.

(* new = self.__class__(); the by-reference loop; the constructor's own context stack; the explicit deep copies *)
Definition st_new (h : heap) : heap := h ++ [mkCell KModel []].

Definition st_byref (T : copytable) (mc : cell) (m' : addr) (h : heap) : heap :=
  fold_left (byref_attr (ct_model_excluded T) m') (citems mc) h.

Definition st_ctx (T : copytable) (m' : addr) (h : heap) : heap :=
  if mems "_contexts" (ct_model_excluded T)
  then let '(h1, cx) := new_cell h KList in set_attr h1 m' "_contexts" cx else h.

Definition st_explicit (T : copytable) (mc : cell) (m' : addr) (h : heap) : heap :=
  fold_left (explicit_attr T mc m') (ct_model_explicit T) h.

(* new.<name> = DictList() *)
Definition st_list (m' : addr) (name : string) (h : heap) : heap * addr :=
  (set_attr (h ++ [mkCell KDictList []]) m' name (Ref (List.length h)), List.length h).

Definition st_mets (T : copytable) (mc : cell) (m' dlm : addr) (h : heap) : heap :=
  fold_left (copy_species T (ct_met T) (ct_attrs_met T) m' dlm) (list_elems h (attr mc "metabolites")) h.

Definition st_genes (T : copytable) (mc : cell) (m' dlg : addr) (h : heap) : heap :=
  fold_left (copy_species T (ct_gene T) (ct_attrs_gene T) m' dlg) (list_elems h (attr mc "genes")) h.

Definition st_rxns (T : copytable) (mc : cell) (m' dlr dlm dlg : addr) (h : heap) : heap * bool :=
  fold_left (copy_reaction T m' dlr dlm dlg) (list_elems h (attr mc "reactions")) (h, true).

Definition st_groups (T : copytable) (m' dlgr : addr) (old_groups : list value) (h : heap) : heap :=
  fold_left (copy_group T m' dlgr) old_groups h.

Definition st_links (dlm dlr dlg dlgr : addr) (old_groups : list value) (hb : heap * bool) : heap * bool :=
  fold_left (link_group dlm dlr dlg dlgr) old_groups hb.

Definition st_solver (T : copytable) (mc : cell) (m' : addr) (h : heap) : heap :=
  let '(h1, sv) := match attr mc "_solver" with Some v => deep_copy T h v | None => (h, None_) end in
  set_attr h1 m' "_solver" sv.

Definition st_final_ctx (m' : addr) (h : heap) : heap :=
  let '(h1, cx) := new_cell h KList in set_attr h1 m' "_contexts" cx.

Definition model_copy_staged (T : copytable) (h : heap) (m : addr) : heap * addr * bool :=
  match get h m with
  | None => (h, m, false)
  | Some mc =>
      let m' := List.length h in
      let h1 := st_explicit T mc m' (st_ctx T m' (st_byref T mc m' (st_new h))) in
      let '(h2, dlm) := st_list m' "metabolites" h1 in
      let h3 := st_mets T mc m' dlm h2 in
      let '(h4, dlg) := st_list m' "genes" h3 in
      let h5 := st_genes T mc m' dlg h4 in
      let '(h6, dlr) := st_list m' "reactions" h5 in
      let '(h7, ok1) := st_rxns T mc m' dlr dlm dlg h6 in
      let '(h8, dlgr) := st_list m' "groups" h7 in
      let old_groups := list_elems h8 (attr mc "groups") in
      let h9 := st_groups T m' dlgr old_groups h8 in
      let '(h10, ok2) := st_links dlm dlr dlg dlgr old_groups (h9, ok1) in
      (st_final_ctx m' (st_solver T mc m' h10), m', ok2)
  end.

Lemma model_copy_stages : forall T h m, model_copy T h m = model_copy_staged T h m.
Proof.
  intros T h m. unfold model_copy, model_copy_staged. destruct (get h m) as [mc|]; [|reflexivity].
  unfold st_list, st_mets, st_genes, st_rxns, st_groups, st_links, st_solver, st_final_ctx, st_explicit, st_ctx, st_byref,
    st_new, alloc.
  cbv zeta.
  destruct (fold_left (copy_reaction T _ _ _ _) _ _) as [h7 ok1].
  destruct (fold_left (link_group _ _ _ _) _ _) as [h10 ok2].
  destruct (match attr mc "_solver" with Some v => deep_copy T h10 v | None => (h10, None_) end) as [h11 sv].
  destruct (new_cell _ KList) as [h12 cx].
  reflexivity.
Qed.
