(* C12 — equations for the heap primitives (what a read returns after a write), used by the functional
   description of Model.copy (Copy/CopyData.v, CopyObj.v, CopyDesc.v). *)
From Coq Require Import List String Bool Arith Lia.
From Cobra.Copy Require Import Heap Model Lemmas.
Import ListNotations.
Open Scope string_scope.
Open Scope list_scope.

Ltac inv H := inversion H; subst; clear H.

(* ------------------------------------------------------------------ value_eqb *)
Lemma value_eqb_refl : forall v, value_eqb v v = true.
Proof. intros v. apply value_eqb_eq. reflexivity. Qed.

Lemma value_eqb_neq : forall a b, a <> b -> value_eqb a b = false.
Proof. intros a b H. destruct (value_eqb a b) eqn:E; auto. apply value_eqb_eq in E. contradiction. Qed.

Lemma value_eqb_false : forall a b, value_eqb a b = false -> a <> b.
Proof. intros a b H E. subst. rewrite value_eqb_refl in H. discriminate. Qed.

Lemma value_eqb_sym : forall a b, value_eqb a b = value_eqb b a.
Proof.
  intros a b. destruct (value_eqb a b) eqn:E.
  - apply value_eqb_eq in E. subst. symmetry. apply value_eqb_refl.
  - symmetry. apply value_eqb_neq. intro H. subst. rewrite value_eqb_refl in E. discriminate.
Qed.

Lemma value_eq_dec : forall a b : value, {a = b} + {a <> b}.
Proof. intros a b. destruct (value_eqb a b) eqn:E; [left; apply value_eqb_eq; auto|right; apply value_eqb_false; auto]. Qed.

(* ------------------------------------------------------------------ association lists *)
Definition keys_of (l : list (value * value)) : list value := map fst l.

Lemma lookup_none_notin : forall k l, lookup k l = None <-> ~ In k (keys_of l).
Proof.
  intros k l. induction l as [|[k' v'] r IH]; cbn; [tauto|].
  destruct (value_eqb k k') eqn:E.
  - apply value_eqb_eq in E. subst. split; [discriminate|]. intros H. exfalso. apply H. auto.
  - apply value_eqb_false in E. rewrite IH. split.
    + intros H [H1|H1]; [congruence|auto].
    + intros H H1. apply H. auto.
Qed.

Lemma lookup_in : forall k l v, lookup k l = Some v -> In (k, v) l.
Proof.
  intros k l v. induction l as [|[k' v'] r IH]; cbn; intros H; [discriminate|].
  destruct (value_eqb k k') eqn:E.
  - apply value_eqb_eq in E. inv H. auto.
  - auto.
Qed.

Lemma in_lookup : forall k v l, NoDup (keys_of l) -> In (k, v) l -> lookup k l = Some v.
Proof.
  intros k v l. induction l as [|[k' v'] r IH]; cbn; intros Hnd Hin; [contradiction|].
  inv Hnd. destruct Hin as [Hin|Hin].
  - inv Hin. rewrite value_eqb_refl. reflexivity.
  - destruct (value_eqb k k') eqn:E; [|auto].
    apply value_eqb_eq in E. subst. exfalso. apply H1. unfold keys_of. apply in_map_iff. exists (k', v). auto.
Qed.

Lemma drop_key_notin : forall k l, ~ In k (keys_of l) -> drop_key k l = l.
Proof.
  intros k l. induction l as [|[k' v'] r IH]; cbn; intros H; auto.
  destruct (value_eqb k k') eqn:E.
  - apply value_eqb_eq in E. subst. exfalso. auto.
  - cbn. f_equal. apply IH. intro; apply H; auto.
Qed.

Lemma drop_key_cons : forall k k1 v1 r,
  drop_key k ((k1, v1) :: r) = if value_eqb k k1 then drop_key k r else (k1, v1) :: drop_key k r.
Proof. intros. unfold drop_key. cbn [filter fst]. destruct (value_eqb k k1); reflexivity. Qed.

Lemma lookup_drop_key : forall k k' l, k' <> k -> lookup k' (drop_key k l) = lookup k' l.
Proof.
  intros k k' l Hne. induction l as [|[k1 v1] r IH]; [reflexivity|].
  rewrite drop_key_cons. cbn [lookup]. destruct (value_eqb k k1) eqn:E.
  - apply value_eqb_eq in E. subst k1. rewrite (value_eqb_neq k' k Hne). exact IH.
  - cbn [lookup]. rewrite IH. reflexivity.
Qed.

Lemma lookup_set_item_eq : forall k v l, lookup k (set_item k v l) = Some v.
Proof.
  intros k v l. induction l as [|[k' v'] r IH]; cbn.
  - rewrite value_eqb_refl. reflexivity.
  - destruct (value_eqb k k') eqn:E; cbn; [rewrite value_eqb_refl; reflexivity|]. rewrite E. exact IH.
Qed.

Lemma lookup_set_item_ne : forall k k' v l, k' <> k -> lookup k' (set_item k v l) = lookup k' l.
Proof.
  intros k k' v l Hne. induction l as [|[k1 v1] r IH]; cbn.
  - rewrite (value_eqb_neq k' k Hne). reflexivity.
  - destruct (value_eqb k k1) eqn:E; cbn.
    + apply value_eqb_eq in E. subst k1. rewrite (value_eqb_neq k' k Hne). apply lookup_drop_key. exact Hne.
    + rewrite IH. reflexivity.
Qed.

Lemma set_item_new : forall k v l, ~ In k (keys_of l) -> set_item k v l = l ++ [(k, v)].
Proof.
  intros k v l. induction l as [|[k' v'] r IH]; cbn; intros H; auto.
  destruct (value_eqb k k') eqn:E.
  - apply value_eqb_eq in E. subst. exfalso. auto.
  - f_equal. apply IH. intro; apply H; auto.
Qed.

Lemma keys_set_item_in : forall k v l, NoDup (keys_of l) -> In k (keys_of l) -> keys_of (set_item k v l) = keys_of l.
Proof.
  intros k v l. induction l as [|[k' v'] r IH]; cbn; intros Hnd Hin; [contradiction|].
  inv Hnd. destruct (value_eqb k k') eqn:E.
  - apply value_eqb_eq in E. subst k'. cbn. f_equal. rewrite drop_key_notin; auto.
  - cbn. f_equal. apply IH; auto. destruct Hin as [Hin|Hin]; auto. subst. rewrite value_eqb_refl in E. discriminate.
Qed.

Lemma keys_set_item_new : forall k v l, ~ In k (keys_of l) -> keys_of (set_item k v l) = keys_of l ++ [k].
Proof. intros k v l H. rewrite set_item_new; auto. unfold keys_of. rewrite map_app. reflexivity. Qed.

Lemma keys_drop_key_in : forall k x l, In x (keys_of (drop_key k l)) -> In x (keys_of l) /\ x <> k.
Proof.
  intros k x l H. unfold keys_of, drop_key in H. apply in_map_iff in H as [[k1 v1] [Hx Hin]]. cbn in Hx. subst k1.
  apply filter_In in Hin as [Hin Hne]. cbn in Hne. apply negb_true_iff in Hne. split.
  - unfold keys_of. apply in_map_iff. exists (x, v1). auto.
  - intro; subst. rewrite value_eqb_refl in Hne. discriminate.
Qed.

Lemma nodup_drop_key : forall k l, NoDup (keys_of l) -> NoDup (keys_of (drop_key k l)).
Proof.
  intros k l. induction l as [|[k' v'] r IH]; cbn; intros H; [constructor|]. inv H.
  destruct (value_eqb k k'); cbn; auto. constructor; auto.
  intro Hin. apply keys_drop_key_in in Hin as [Hin _]. auto.
Qed.

Lemma nodup_set_item : forall k v l, NoDup (keys_of l) -> NoDup (keys_of (set_item k v l)).
Proof.
  intros k v l. induction l as [|[k' v'] r IH]; cbn; intros H.
  - constructor; [intros []|constructor].
  - inv H. destruct (value_eqb k k') eqn:E; cbn.
    + constructor; [|apply nodup_drop_key; auto]. intro Hin. apply keys_drop_key_in in Hin as [_ Hne]. congruence.
    + constructor; auto. intro Hin. apply value_eqb_false in E.
      assert (forall x, In x (keys_of (set_item k v r)) -> x = k \/ In x (keys_of r)) as Hk.
      { clear. induction r as [|[k1 v1] r IH]; cbn; intros x Hx.
        - destruct Hx as [Hx|[]]. auto.
        - destruct (value_eqb k k1) eqn:E; cbn in Hx.
          + destruct Hx as [Hx|Hx]; auto. apply keys_drop_key_in in Hx as [Hx _]. auto.
          + destruct Hx as [Hx|Hx]; auto. destruct (IH x Hx); auto. }
      destruct (Hk _ Hin); [congruence|auto].
Qed.

(* ------------------------------------------------------------------ reads after writes *)
Lemma put_length : forall h a k v, List.length (put h a k v) = List.length h.
Proof. intros. unfold put. destruct (get h a); auto. apply upd_length. Qed.

Lemma append_length : forall h a e, List.length (append h a e) = List.length h.
Proof. intros. unfold append. destruct (get h a); auto. apply upd_length. Qed.

Lemma set_attr_length' : forall h a s v, List.length (set_attr h a s v) = List.length h.
Proof. intros. apply put_length. Qed.

Lemma set_add_length : forall h a e, List.length (set_add h a e) = List.length h.
Proof. intros. apply put_length. Qed.

Lemma get_put_eq : forall h a k v c, get h a = Some c ->
  get (put h a k v) a = Some (mkCell (ckind c) (set_item k v (citems c))).
Proof. intros h a k v c Hg. unfold put. rewrite Hg. apply get_upd_eq. eapply get_lt; eauto. Qed.

Lemma get_put_ne : forall h a b k v, a <> b -> get (put h a k v) b = get h b.
Proof. intros h a b k v Hne. unfold put. destruct (get h a); auto. apply get_upd_ne. exact Hne. Qed.

Lemma get_append_eq : forall h a e c, get h a = Some c ->
  get (append h a e) a = Some (mkCell (ckind c) (citems c ++ [(At "", e)])).
Proof. intros h a e c Hg. unfold append. rewrite Hg. apply get_upd_eq. eapply get_lt; eauto. Qed.

Lemma get_append_ne : forall h a b e, a <> b -> get (append h a e) b = get h b.
Proof. intros h a b e Hne. unfold append. destruct (get h a); auto. apply get_upd_ne. exact Hne. Qed.

Lemma get_set_attr_ne : forall h a b s v, a <> b -> get (set_attr h a s v) b = get h b.
Proof. intros. apply get_put_ne. auto. Qed.

Lemma get_set_add_ne : forall h a b e, a <> b -> get (set_add h a e) b = get h b.
Proof. intros. apply get_put_ne. auto. Qed.

Lemma get_push_eq : forall h a k v c, get h a = Some c ->
  get (push h a k v) a = Some (mkCell (ckind c) (citems c ++ [(k, v)])).
Proof. intros h a k v c Hg. unfold push. rewrite Hg. apply get_upd_eq. eapply get_lt; eauto. Qed.

Lemma get_push_ne : forall h a b k v, a <> b -> get (push h a k v) b = get h b.
Proof. intros h a b k v Hne. unfold push. destruct (get h a); auto. apply get_upd_ne. exact Hne. Qed.

Lemma push_length : forall h a k v, List.length (push h a k v) = List.length h.
Proof. intros. unfold push. destruct (get h a); auto. apply upd_length. Qed.

Lemma get_alloc_new : forall (h : heap) c, get (h ++ [c]) (List.length h) = Some c.
Proof. intros. unfold get. rewrite nth_error_app2 by lia. rewrite Nat.sub_diag. reflexivity. Qed.

Lemma get_alloc_old : forall (h : heap) c a, a < List.length h -> get (h ++ [c]) a = get h a.
Proof. intros. unfold get. apply nth_error_app1. auto. Qed.

Lemma get_alloc_ne : forall (h : heap) c a, a <> List.length h -> get (h ++ [c]) a = get h a.
Proof.
  intros h c a Hne. destruct (Nat.lt_ge_cases a (List.length h)) as [Hlt|Hge]; [apply get_alloc_old; auto|].
  unfold get. rewrite nth_error_app2 by lia.
  destruct (a - List.length h) as [|k] eqn:E; [lia|]. cbn.
  assert (nth_error h a = None) as -> by (apply nth_error_None; lia). destruct k; reflexivity.
Qed.

Lemma get_some_lt : forall (h : heap) a, a < List.length h -> exists c, get h a = Some c.
Proof. intros h a H. unfold get. destruct (nth_error h a) eqn:E; eauto. apply nth_error_None in E. lia. Qed.

(* attribute reads *)
Lemma attr_at_set_attr_eq : forall h a s v, a < List.length h -> attr_at (set_attr h a s v) a s = Some v.
Proof.
  intros h a s v Hlt. destruct (get_some_lt h a Hlt) as [c Hg]. unfold attr_at, set_attr.
  rewrite (get_put_eq _ _ _ _ _ Hg). unfold attr. cbn. apply lookup_set_item_eq.
Qed.

Lemma attr_at_set_attr_ne_name : forall h a s t v, s <> t -> attr_at (set_attr h a s v) a t = attr_at h a t.
Proof.
  intros h a s t v Hne. unfold attr_at, set_attr. destruct (get h a) as [c|] eqn:Hg.
  - rewrite (get_put_eq _ _ _ _ _ Hg). unfold attr. cbn. apply lookup_set_item_ne. congruence.
  - unfold put. rewrite Hg. rewrite Hg. reflexivity.
Qed.

Lemma attr_at_set_attr_ne_addr : forall h a b s t v, a <> b -> attr_at (set_attr h a s v) b t = attr_at h b t.
Proof. intros h a b s t v Hne. unfold attr_at. rewrite get_set_attr_ne; auto. Qed.

Lemma attr_at_get : forall h a s v, attr_at h a s = Some v -> exists c, get h a = Some c /\ attr c s = Some v.
Proof. intros h a s v H. unfold attr_at in H. destruct (get h a) as [c|]; [|discriminate]. eauto. Qed.

(* agreement of two heaps on an address *)
Lemma attr_at_agree : forall h h' a s, get h' a = get h a -> attr_at h' a s = attr_at h a s.
Proof. intros h h' a s H. unfold attr_at. rewrite H. reflexivity. Qed.
