(* C12 — Model.copy, the general induction: for EVERY heap that satisfies the boolean well-formedness
   predicate `wf_model_heap` (Copy/CopyWf.v) and every table that satisfies `table_safe`, the construction
   invariant `Inv` (Copy/ModelCopy.v) is preserved by each of the loops of `model_copy`
   (by-reference loop, explicit deep copies, metabolites, genes, reactions with their stoichiometry and
   update_genes_from_gpr, the two group passes, the solver), every by-reference attribute has been overwritten
   at the end, hence the result extends the input heap with self-contained new cells (`Ext`):
   the copy is `Separated` from the original and the original part of the heap is unchanged. *)
From Coq Require Import List String Bool Arith Lia.
From Cobra.Copy Require Import Heap Model Obs Lemmas Proofs ModelCopy CopyWf CopyStages.
Import ListNotations.
Open Scope string_scope.
Open Scope list_scope.

(* ------------------------------------------------------------------ small facts *)
Lemma mems_In : forall s l, mems s l = true <-> In s l.
Proof.
  intros s l. unfold mems. rewrite existsb_exists. split.
  - intros [x [Hx He]]. apply String.eqb_eq in He. subst. exact Hx.
  - intros H. exists s. split; auto. apply String.eqb_refl.
Qed.

Lemma mems_false : forall s l, mems s l = false -> ~ In s l.
Proof. intros s l H Hin. apply mems_In in Hin. congruence. Qed.

Lemma assoc_In : forall {A} s (l : list (string * A)) v, assoc s l = Some v -> In (s, v) l.
Proof.
  intros A s l v. induction l as [|[k a] r IH]; cbn; intros H; [discriminate|].
  destruct (String.eqb s k) eqn:E.
  - apply String.eqb_eq in E. inv H. auto.
  - auto.
Qed.

Lemma last_in_or_default : forall {A} (l : list A) d, last l d = d \/ In (last l d) l.
Proof.
  intros A l d. induction l as [|x r IH]; [left; reflexivity|].
  destruct r as [|y r']; [right; cbn; auto|].
  destruct IH as [IH|IH].
  - change (last (x :: y :: r') d) with (last (y :: r') d). left. exact IH.
  - change (last (x :: y :: r') d) with (last (y :: r') d). right. right. exact IH.
Qed.

(* ---- weakening of the pending set, and the pending set written as "pending T without the names in L" *)
Lemma inv_weaken : forall n h0 h m' S S', Inv n h0 h m' S -> incl S S' -> Inv n h0 h m' S'.
Proof.
  intros n h0 h m' S S' HI Hincl. destruct HI as [Hl Hp Hm Hk Hn Hmo]. split; auto.
  intros c Hg. eapply Forall_impl; [|exact (Hmo c Hg)].
  intros kv [Hok|[s [Hs Hin]]]; [left; exact Hok|right; exists s; split; auto].
Qed.

Definition rem (L S : list string) : list string := filter (fun s => negb (mems s L)) S.

Lemma rem_In : forall s L S, In s (rem L S) <-> In s S /\ ~ In s L.
Proof.
  intros s L S. unfold rem. rewrite filter_In. split; intros [H1 H2]; split; auto.
  - apply negb_true_iff in H2. apply mems_false. exact H2.
  - apply negb_true_iff. destruct (mems s L) eqn:E; auto. apply mems_In in E. contradiction.
Qed.

Lemma inv_settle_rem : forall n h0 h m' L S s v,
    Inv n h0 h m' (rem L S) -> val_ok n v -> Inv n h0 (set_attr h m' s v) m' (rem (s :: L) S).
Proof.
  intros n h0 h m' L S s v HI Hv. eapply inv_weaken; [apply inv_settle; eauto|].
  intros x Hx. apply in_remove in Hx as [Hx Hne]. apply rem_In in Hx as [Hx1 Hx2]. apply rem_In. split; auto.
  intros [He|Hin]; [congruence|contradiction].
Qed.

Lemma rem_nil : forall S, rem [] S = S.
Proof.
  induction S as [|a S IH]; [reflexivity|]. unfold rem in *. cbn [filter]. change (mems a []) with false.
  cbn [negb]. f_equal. exact IH.
Qed.

(* ------------------------------------------------------------------ the parts of table_safe *)
Record TableSafe (T : copytable) : Prop := mkTS {
  ts_met : ktable_safe (ct_attrs_met T) ["_model"; "_reaction"] (ct_met T) = true;
  ts_gene : ktable_safe (ct_attrs_gene T) ["_model"; "_reaction"] (ct_gene T) = true;
  ts_rxn : ktable_safe (ct_attrs_rxn T) ["_model"; "_metabolites"; "_genes"] (ct_rxn T) = true;
  ts_group : ktable_safe (ct_attrs_group T) ["_model"; "_members"] (ct_group T) = true;
  ts_over : forall s, In s (pending T) -> In s (overwritten T);
  ts_read : forall s, In s (pending T) -> ~ In s read_names;
  ts_ctx : mems "_contexts" (ct_model_excluded T) = true;
  ts_explicit : forall nm, In nm (ct_model_explicit T) -> snd nm = Deep
}.

Lemma table_safe_parts : forall T, table_safe T = true -> TableSafe T.
Proof.
  intros T H. unfold table_safe in H.
  apply andb_prop in H as [H A11]. apply andb_prop in H as [H A10]. apply andb_prop in H as [H A9].
  apply andb_prop in H as [H A8]. apply andb_prop in H as [H A7]. apply andb_prop in H as [H A6].
  apply andb_prop in H as [H A5]. apply andb_prop in H as [H A4]. apply andb_prop in H as [H A3].
  apply andb_prop in H as [A1 A2].
  split; auto.
  - intros s Hs. rewrite forallb_forall in A5. apply mems_In. auto.
  - intros s Hs Hr. rewrite forallb_forall in A6. specialize (A6 s Hs). apply negb_true_iff in A6.
    apply mems_In in Hr. congruence.
  - intros nm Hnm. rewrite forallb_forall in A8. specialize (A8 nm Hnm). destruct (snd nm); cbn in A8; congruence.
Qed.

(* ------------------------------------------------------------------ section: one copy under construction *)
Section Construction.
  Variable T : copytable.
  Variable n : nat.
  Variable h0 : heap.
  Variable m' : addr.
  Hypothesis HT : TableSafe T.
  Hypothesis Hty : Typed T h0.
  Hypothesis Hwf : heap_wf h0.

  (* names the code READS from new cells are never pending *)
  Definition ReadsOk (S : list string) : Prop := forall s, In s read_names -> ~ In s S.

  Lemma reads_rem : forall L, ReadsOk (rem L (pending T)).
  Proof. intros L s Hs Hin. apply rem_In in Hin as [Hin _]. exact (ts_read T HT s Hin Hs). Qed.

  Lemma inv_m_ok : forall h S, Inv n h0 h m' S -> val_ok n (Ref m').
  Proof. intros h S HI. cbn. destruct (inv_m _ _ _ _ _ HI). lia. Qed.

  (* reads in the old part *)
  Lemma inv_old_ref : forall h S a c b, Inv n h0 h m' S -> a < n -> get h a = Some c -> In b (crefs c) -> b < n.
  Proof.
    intros h S a c b HI Ha Hg Hb. rewrite (inv_old _ _ _ _ _ _ HI Ha) in Hg. rewrite <- (inv_len _ _ _ _ _ HI).
    eapply Hwf; eauto.
  Qed.

  Lemma item_refs_snd : forall (c : cell) k a, In (k, Ref a) (citems c) -> In a (crefs c).
  Proof.
    intros c k a Hin. unfold crefs. apply in_flat_map. exists (k, Ref a). split; auto.
    unfold irefs. apply in_or_app. right. cbn. auto.
  Qed.

  Lemma item_refs_fst : forall (c : cell) v a, In (Ref a, v) (citems c) -> In a (crefs c).
  Proof.
    intros c v a Hin. unfold crefs. apply in_flat_map. exists (Ref a, v). split; auto.
    unfold irefs. apply in_or_app. left. cbn. auto.
  Qed.

  Lemma lookup_In : forall k l v, lookup k l = Some v -> exists k', In (k', v) l.
  Proof.
    intros k l v. induction l as [|[k' v'] r IH]; cbn; intros H; [discriminate|].
    destruct (value_eqb k k').
    - inv H. exists k'. auto.
    - destruct (IH H) as [k'' Hk]. exists k''. auto.
  Qed.

  Lemma attr_ref_in : forall (c : cell) s a, attr c s = Some (Ref a) -> In a (crefs c).
  Proof. intros c s a H. unfold attr in H. apply lookup_In in H as [k Hk]. eapply item_refs_snd; eauto. Qed.

  Lemma elems_ref_in : forall (c : cell) a, In (Ref a) (elems c) -> In a (crefs c).
  Proof.
    intros c a H. unfold elems in H. destruct (is_object (ckind c)); [contradiction|].
    apply in_map_iff in H as [[k v] [Hv Hin]]. cbn in Hv. subst v. eapply item_refs_snd; eauto.
  Qed.

  (* ---------------- the by-reference loop *)
  Lemma akind_container_in : forall attrs s, is_container (akind_of attrs s) = true ->
    In s (map fst (filter (fun nk => is_container (snd nk)) attrs)).
  Proof.
    intros attrs s H. unfold akind_of in H. destruct (assoc s attrs) as [k|] eqn:E; [|discriminate].
    apply assoc_In in E. apply in_map_iff. exists (s, k). split; auto. apply filter_In. split; auto.
  Qed.

  Lemma byref_attr_inv : forall h kv,
      Inv n h0 h m' (pending T) ->
      (forall s, fst kv = At s -> is_atom (snd kv) || is_container (akind_of (ct_attrs_model T) s) = true) ->
      Inv n h0 (byref_attr (ct_model_excluded T) m' h kv) m' (pending T).
  Proof.
    intros h kv HI Hkv. unfold byref_attr. destruct (fst kv) as [s|x] eqn:Ek; auto.
    destruct (mems s (ct_model_excluded T)) eqn:Hex; auto.
    apply inv_put_pending; auto. specialize (Hkv s eq_refl). apply orb_prop in Hkv as [Hat|Hc].
    - left. apply is_atom_ok. exact Hat.
    - right. unfold pending. apply filter_In. split; [apply akind_container_in; exact Hc|].
      rewrite Hex. reflexivity.
  Qed.

  Lemma st_byref_inv : forall mc h,
      Inv n h0 h m' (pending T) -> cell_typed T h0 mc = true -> ckind mc = KModel ->
      Inv n h0 (st_byref T mc m' h) m' (pending T).
  Proof.
    intros mc h HI Hmc Hk. unfold st_byref. apply fold_left_inv; auto.
    intros h1 kv Hin H1. apply byref_attr_inv; auto. intros s Hs.
    pose proof (cell_typed_item T h0 mc kv s Hmc) as Hi. rewrite Hk in Hi. cbn in Hi. apply Hi; auto.
  Qed.

  (* ---------------- the constructor's context stack *)
  Lemma st_ctx_inv : forall h L, Inv n h0 h m' (rem L (pending T)) -> Inv n h0 (st_ctx T m' h) m' (rem L (pending T)).
  Proof.
    intros h L HI. unfold st_ctx. destruct (mems "_contexts" (ct_model_excluded T)); auto.
    destruct (new_cell h KList) as [h1 cx] eqn:E. destruct (inv_new_cell _ _ _ _ _ _ _ _ HI E) as [H1 Hcx].
    apply inv_set_attr; auto. destruct (inv_m _ _ _ _ _ H1). lia.
  Qed.

  (* ---------------- new.<name> = deepcopy(self.<name>) *)
  Lemma st_explicit_inv : forall mc l h L,
      Inv n h0 h m' (rem L (pending T)) ->
      (forall nm, In nm l -> snd nm = Deep /\ has_attr mc (fst nm) = true) ->
      Inv n h0 (fold_left (explicit_attr T mc m') l h) m' (rem (rev (map fst l) ++ L) (pending T)).
  Proof.
    intros mc l. induction l as [|nm r IH]; intros h L HI Hl; cbn [fold_left map rev app]; auto.
    destruct (Hl nm (or_introl eq_refl)) as [Hd Ha].
    assert (Inv n h0 (explicit_attr T mc m' h nm) m' (rem (fst nm :: L) (pending T))) as H1.
    { unfold explicit_attr. unfold has_attr in Ha. destruct (attr mc (fst nm)) as [v|]; [|discriminate].
      rewrite Hd. cbn [copy_value]. destruct (deep_copy T h v) as [h1 v'] eqn:E.
      destruct (inv_deep_copy _ _ _ _ _ _ _ _ _ HI E) as [H1 Hv]. apply inv_settle_rem; auto. }
    specialize (IH _ _ H1 (fun x Hx => Hl x (or_intror Hx))).
    rewrite <- app_assoc. cbn [app]. exact IH.
  Qed.

  (* ---------------- new.<name> = DictList() *)
  Lemma st_list_inv : forall h L name h' dl,
      Inv n h0 h m' (rem L (pending T)) -> st_list m' name h = (h', dl) ->
      Inv n h0 h' m' (rem (name :: L) (pending T)) /\ n <= dl.
  Proof.
    intros h L name h' dl HI H. unfold st_list in H. inv H. pose proof (inv_le _ _ _ _ _ HI) as Hle. split; auto.
    apply inv_settle_rem; [|cbn; lia]. apply inv_alloc; auto. constructor.
  Qed.

  (* ---------------- metabolites, genes, groups: new_x = copy of the attributes; _model; append *)
  Definition TypedFor (attrs : list (string * akind)) (oc : cell) : Prop :=
    forall kv s, In kv (citems oc) -> fst kv = At s -> is_atom (snd kv) || is_container (akind_of attrs s) = true.

  Lemma copy_species_inv : forall S kt attrs rel dl h x,
      Inv n h0 h m' S -> ktable_safe attrs rel kt = true -> n <= dl ->
      (forall xa oc, x = Ref xa -> get h xa = Some oc -> TypedFor attrs oc) ->
      Inv n h0 (copy_species T kt attrs m' dl h x) m' S.
  Proof.
    intros S kt attrs rel dl h x HI Hs Hdl Hx. unfold copy_species. destruct x as [s|xa]; auto.
    destruct (get h xa) as [oc|] eqn:Hg; auto.
    destruct (copy_obj T kt attrs h oc) as [h1 a'] eqn:E.
    destruct (copy_obj_inv _ _ _ _ _ _ _ _ _ _ _ _ HI Hs (Hx xa oc eq_refl Hg) E) as [H1 [Ha Hne]].
    apply inv_append; [|exact Hdl|cbn; exact Ha].
    apply inv_set_attr; [exact H1|exact Ha|]. eapply inv_m_ok; eauto.
  Qed.

  (* the objects of one of the model's lists: old cells of the expected class, hence typed for its table *)
  Definition ListOf (k : kind) (l : list value) : Prop :=
    forall x, In x l -> exists xa oc, x = Ref xa /\ xa < n /\ get h0 xa = Some oc /\ ckind oc = k.

  Lemma listof_typed : forall k l h S x xa oc,
      ListOf k l -> is_object k = true -> Inv n h0 h m' S -> In x l -> x = Ref xa -> get h xa = Some oc ->
      TypedFor (attrs_of T k) oc /\ xa < n /\ get h0 xa = Some oc /\ ckind oc = k.
  Proof.
    intros k l h S x xa oc Hl Hk HI Hin Hx Hg. destruct (Hl x Hin) as [xa' [oc' [Hx' [Hlt [Hg' Hk']]]]].
    rewrite Hx in Hx'. inv Hx'. rewrite (inv_old _ _ _ _ _ _ HI Hlt) in Hg. rewrite Hg in Hg'. inv Hg'.
    split; [|auto]. intros kv s Hkv Hs. exact (cell_typed_item T h0 _ kv s (Hty _ _ Hg) Hk Hkv Hs).
  Qed.

  Lemma species_loop_inv : forall S k kt rel dl l h,
      ListOf k l -> is_object k = true -> ktable_safe (attrs_of T k) rel kt = true -> n <= dl ->
      Inv n h0 h m' S ->
      Inv n h0 (fold_left (copy_species T kt (attrs_of T k) m' dl) l h) m' S.
  Proof.
    intros S k kt rel dl l h Hl Hk Hs Hdl HI. apply fold_left_inv; auto.
    intros h1 x Hin H1. eapply copy_species_inv; eauto.
    intros xa oc Hx Hg. eapply listof_typed; eauto.
  Qed.

  (* ---------------- reactions *)
  Lemma link_met_inv : forall S dlm r' h ok kv,
      Inv n h0 h m' S -> ReadsOk S -> n <= dlm -> n <= r' -> val_ok n (snd kv) ->
      Inv n h0 (fst (link_met dlm r' (h, ok) kv)) m' S.
  Proof.
    intros S dlm r' h ok kv HI HR Hdlm Hr Hv. unfold link_met.
    destruct (fst kv) as [s|ma]; auto. destruct (attr_at h ma "_id") as [idv|]; auto.
    destruct (get_by_id h dlm idv) as [nm|] eqn:Eg; auto. cbn [fst].
    pose proof (inv_get_by_id _ _ _ _ _ _ _ _ HI Hdlm Eg) as Hnm.
    set (h1 := match attr_at h r' "_metabolites" with Some (Ref nd) => put h nd (Ref nm) (snd kv) | _ => h end).
    assert (Inv n h0 h1 m' S) as H1.
    { unfold h1. destruct (attr_at h r' "_metabolites") as [[s|nd]|] eqn:Ea; auto.
      apply inv_put; auto. apply (inv_attr_ok _ _ _ _ _ _ _ _ HI Hr (HR "_metabolites" ltac:(cbn; tauto)) Ea). }
    destruct (attr_at h1 nm "_reaction") as [[s|sa]|] eqn:Ea; auto.
    apply inv_set_add; auto. apply (inv_attr_ok _ _ _ _ _ _ _ _ H1 Hnm (HR "_reaction" ltac:(cbn; tauto)) Ea).
  Qed.

  Lemma link_mets_inv : forall S dlm r' items h ok,
      Inv n h0 h m' S -> ReadsOk S -> n <= dlm -> n <= r' -> (forall kv, In kv items -> val_ok n (snd kv)) ->
      Inv n h0 (fst (fold_left (link_met dlm r') items (h, ok))) m' S.
  Proof.
    intros S dlm r' items h ok HI HR Hdlm Hr Hit.
    apply (fold_left_inv (fun hb : heap * bool => Inv n h0 (fst hb) m' S)); auto.
    intros [h1 ok1] kv Hin H1. cbn [fst] in H1. apply link_met_inv; auto.
  Qed.

  Lemma record_undo_inv : forall S h objs,
      Inv n h0 h m' S -> ReadsOk S -> (forall v, In v objs -> val_ok n v) -> Inv n h0 (record_undo h m' objs) m' S.
  Proof.
    intros S h objs HI HR Ho. unfold record_undo, get_context.
    destruct (last (list_elems h (attr_at h m' "_contexts")) None_) as [s|hm] eqn:El; auto.
    assert (n <= hm) as Hhm.
    { destruct (last_in_or_default (list_elems h (attr_at h m' "_contexts")) None_) as [Hd|Hin].
      - rewrite El in Hd. discriminate.
      - rewrite El in Hin.
        assert (val_ok n (Ref hm)) as Hok; [|exact Hok].
        eapply inv_list_elems; [exact HI| |exact Hin].
        intros v Hv. destruct (inv_m _ _ _ _ _ HI) as [Hm _].
        apply (inv_attr_ok _ _ _ _ _ _ _ _ HI Hm (HR "_contexts" ltac:(cbn; tauto)) Hv). }
    apply fold_left_inv; auto. intros h1 v Hin H1. apply inv_append; auto.
  Qed.

  Lemma new_gene_inv : forall S h dlg gid h' g,
      Inv n h0 h m' S -> n <= dlg -> val_ok n gid -> new_gene h m' dlg gid = (h', g) ->
      Inv n h0 h' m' S /\ n <= g.
  Proof.
    intros S h dlg gid h' g HI Hdlg Hgid H. unfold new_gene in H.
    destruct (new_cell h KDict) as [h1 notes] eqn:E1. destruct (inv_new_cell _ _ _ _ _ _ _ _ HI E1) as [H1 Hn1].
    destruct (new_cell h1 KDict) as [h2 ann] eqn:E2. destruct (inv_new_cell _ _ _ _ _ _ _ _ H1 E2) as [H2 Hn2].
    destruct (new_cell h2 KSet) as [h3 rs] eqn:E3. destruct (inv_new_cell _ _ _ _ _ _ _ _ H2 E3) as [H3 Hn3].
    unfold alloc in H. inv H. pose proof (inv_le _ _ _ _ _ H3) as Hle. split; auto.
    apply inv_append; [|exact Hdlg|cbn; lia]. apply inv_alloc; [exact H3|].
    pose proof (inv_m_ok _ _ H3) as Hm.
    unfold cell_ok. cbn [citems]. repeat constructor; cbn; auto.
  Qed.

  Lemma assoc_gene_inv : forall S dlg r' gs h gid,
      Inv n h0 h m' S -> ReadsOk S -> n <= dlg -> n <= r' -> n <= gs -> val_ok n gid ->
      Inv n h0 (assoc_gene m' dlg r' gs h gid) m' S.
  Proof.
    intros S dlg r' gs h gid HI HR Hdlg Hr Hgs Hgid. unfold assoc_gene.
    pose proof (inv_m_ok _ _ HI) as Hm.
    assert (exists h1 g, (match get_by_id h dlg gid with
                          | Some g => (h, g)
                          | None => let '(hh, g) := new_gene h m' dlg gid in (record_undo hh m' [Ref m'; Ref g; Ref g], g)
                          end) = (h1, g) /\ Inv n h0 h1 m' S /\ n <= g) as [h1 [g [E [H1 Hg]]]].
    { destruct (get_by_id h dlg gid) as [g|] eqn:Eg.
      - exists h, g. split; [reflexivity|]. split; [exact HI|]. exact (inv_get_by_id _ _ _ _ _ _ _ _ HI Hdlg Eg).
      - destruct (new_gene h m' dlg gid) as [hh g] eqn:En. exists (record_undo hh m' [Ref m'; Ref g; Ref g]), g.
        destruct (new_gene_inv _ _ _ _ _ _ HI Hdlg Hgid En) as [Hh Hg]. split; [reflexivity|]. split; [|exact Hg].
        apply record_undo_inv; [exact Hh|exact HR|]. intros v [<-|[<-|[<-|[]]]]; cbn; auto. }
    rewrite E.
    assert (Inv n h0 (set_add h1 gs (Ref g)) m' S) as H2 by (apply inv_set_add; auto).
    set (h2 := set_add h1 gs (Ref g)) in *.
    set (h3 := match attr_at h2 g "_reaction" with Some (Ref s) => set_add h2 s (Ref r') | _ => h2 end).
    assert (Inv n h0 h3 m' S) as H3.
    { unfold h3. destruct (attr_at h2 g "_reaction") as [[s|sa]|] eqn:Ea; auto.
      apply inv_set_add; auto. apply (inv_attr_ok _ _ _ _ _ _ _ _ H2 Hg (HR "_reaction" ltac:(cbn; tauto)) Ea). }
    apply record_undo_inv; auto.
    - apply inv_set_attr; auto.
    - intros v [<-|[<-|[]]]; cbn; auto.
  Qed.

  Lemma update_genes_inv : forall S dlg r' h,
      Inv n h0 h m' S -> ReadsOk S -> n <= dlg -> n <= r' -> Inv n h0 (update_genes m' dlg r' h) m' S.
  Proof.
    intros S dlg r' h HI HR Hdlg Hr. unfold update_genes.
    set (names := match attr_at h r' "_gpr" with
                  | Some (Ref g) => match get h g with
                                    | Some gc => match attr gc "body" with
                                                 | Some b => if is_none b then [] else dict_keys h (attr gc "_genes")
                                                 | None => [] end
                                    | None => [] end
                  | _ => [] end).
    assert (forall x, In x names -> val_ok n x) as Hnames.
    { intros x Hx. unfold names in Hx. destruct (attr_at h r' "_gpr") as [[s|g]|] eqn:Ea; try contradiction.
      assert (n <= g) as Hg by (apply (inv_attr_ok _ _ _ _ _ _ _ _ HI Hr (HR "_gpr" ltac:(cbn; tauto)) Ea)).
      destruct (get h g) as [gc|] eqn:Hgc; [|contradiction].
      destruct (attr gc "body") as [b|]; [|contradiction]. destruct (is_none b); [contradiction|].
      eapply inv_dict_keys; [exact HI| |exact Hx]. intros v Hv.
      apply (inv_attr_ok n h0 h m' S g "_genes" v HI Hg (HR "_genes" ltac:(cbn; tauto))).
      unfold attr_at. rewrite Hgc. exact Hv. }
    clearbody names. unfold alloc.
    pose proof (inv_le _ _ _ _ _ HI) as Hle.
    apply fold_left_inv.
    - intros h1 gid Hin H1. apply assoc_gene_inv; auto.
    - apply inv_set_attr; [|exact Hr|cbn; lia]. apply inv_alloc; [exact HI|]. constructor.
  Qed.

  Definition StoichAtoms (l : list value) : Prop :=
    forall x xa oc d dc kv, In x l -> x = Ref xa -> get h0 xa = Some oc -> attr oc "_metabolites" = Some (Ref d) ->
                            get h0 d = Some dc -> In kv (citems dc) -> is_atom (snd kv) = true.

  Lemma copy_reaction_inv : forall S l dlr dlm dlg h ok x,
      ListOf KReaction l -> StoichAtoms l -> In x l ->
      Inv n h0 h m' S -> ReadsOk S -> n <= dlr -> n <= dlm -> n <= dlg ->
      Inv n h0 (fst (copy_reaction T m' dlr dlm dlg (h, ok) x)) m' S.
  Proof.
    intros S l dlr dlm dlg h ok x Hl Hst Hin HI HR Hdlr Hdlm Hdlg. unfold copy_reaction.
    destruct x as [s|ra]; auto. destruct (get h ra) as [oc|] eqn:Hg; auto.
    destruct (listof_typed KReaction l h S (Ref ra) ra oc Hl eq_refl HI Hin eq_refl Hg) as [Hty' [Hra [Hg0 Hk]]].
    destruct (copy_obj T (ct_rxn T) (ct_attrs_rxn T) h oc) as [h1 r'] eqn:E.
    destruct (copy_obj_inv _ _ _ _ _ _ _ _ _ _ _ _ HI (ts_rxn T HT) Hty' E) as [H1 [Hr Hne]].
    pose proof (inv_m_ok _ _ H1) as Hm.
    assert (Inv n h0 (append (set_attr h1 r' "_model" (Ref m')) dlr (Ref r')) m' S) as H3.
    { apply inv_append; auto. apply inv_set_attr; auto. }
    set (h3 := append (set_attr h1 r' "_model" (Ref m')) dlr (Ref r')) in *.
    set (old_items := match attr oc "_metabolites" with
                      | Some (Ref d) => match get h3 d with Some dcell => citems dcell | None => [] end
                      | _ => [] end).
    assert (forall kv, In kv old_items -> val_ok n (snd kv)) as Hitems.
    { intros kv Hkv. unfold old_items in Hkv. destruct (attr oc "_metabolites") as [[s|d]|] eqn:Ea; try contradiction.
      destruct (get h3 d) as [dc|] eqn:Hd; [|contradiction].
      assert (d < n) as Hdn.
      { rewrite <- (inv_len _ _ _ _ _ HI). eapply Hwf; [exact Hg0|]. eapply attr_ref_in; eauto. }
      rewrite (inv_old _ _ _ _ _ _ H3 Hdn) in Hd. apply is_atom_ok.
      eapply (Hst (Ref ra) ra oc d dc kv); eauto. }
    clearbody old_items.
    pose proof (link_mets_inv S dlm r' old_items h3 ok H3 HR Hdlm Hr Hitems) as H4.
    destruct (fold_left (link_met dlm r') old_items (h3, ok)) as [h4 ok4]. cbn [fst] in *.
    apply update_genes_inv; auto.
  Qed.

  Lemma st_rxns_loop_inv : forall S l dlr dlm dlg h ok,
      ListOf KReaction l -> StoichAtoms l ->
      Inv n h0 h m' S -> ReadsOk S -> n <= dlr -> n <= dlm -> n <= dlg ->
      Inv n h0 (fst (fold_left (copy_reaction T m' dlr dlm dlg) l (h, ok))) m' S.
  Proof.
    intros S l dlr dlm dlg h ok Hl Hst HI HR Hdlr Hdlm Hdlg.
    apply (fold_left_inv (fun hb : heap * bool => Inv n h0 (fst hb) m' S)); auto.
    intros [h1 ok1] x Hin H1. cbn [fst] in H1. eapply copy_reaction_inv; eauto.
  Qed.

  (* ---------------- second pass over the groups *)
  Lemma member_of_new : forall S dlm dlr dlg dlgr h x nn,
      Inv n h0 h m' S -> n <= dlm -> n <= dlr -> n <= dlg -> n <= dlgr ->
      member_of dlm dlr dlg dlgr h x = Some nn -> n <= nn.
  Proof.
    intros S dlm dlr dlg dlgr h x nn HI H1 H2 H3 H4 H. unfold member_of in H.
    destruct x as [s|xa]; [discriminate|]. destruct (get h xa) as [c|]; [|discriminate].
    destruct (attr c "_id") as [idv|]; [|discriminate].
    destruct (ckind c); try discriminate;
      first [exact (inv_get_by_id _ _ _ _ _ _ _ _ HI H1 H) | exact (inv_get_by_id _ _ _ _ _ _ _ _ HI H2 H)
            | exact (inv_get_by_id _ _ _ _ _ _ _ _ HI H3 H) | exact (inv_get_by_id _ _ _ _ _ _ _ _ HI H4 H)].
  Qed.

  Lemma link_group_inv : forall S dlm dlr dlg dlgr h ok x,
      Inv n h0 h m' S -> ReadsOk S -> n <= dlm -> n <= dlr -> n <= dlg -> n <= dlgr ->
      Inv n h0 (fst (link_group dlm dlr dlg dlgr (h, ok) x)) m' S.
  Proof.
    intros S dlm dlr dlg dlgr h ok x HI HR H1 H2 H3 H4. unfold link_group.
    destruct x as [s|ga]; auto. destruct (attr_at h ga "_id") as [idv|]; auto.
    destruct (get_by_id h dlgr idv) as [ng|] eqn:Eg; auto.
    pose proof (inv_get_by_id _ _ _ _ _ _ _ _ HI H4 Eg) as Hng.
    destruct (attr_at h ng "_members") as [[s|ms]|] eqn:Ea; auto.
    assert (n <= ms) as Hms by (apply (inv_attr_ok _ _ _ _ _ _ _ _ HI Hng (HR "_members" ltac:(cbn; tauto)) Ea)).
    apply (fold_left_inv (fun hb : heap * bool => Inv n h0 (fst hb) m' S)); auto.
    intros [h1 ok1] y Hin Hy. cbn [fst] in Hy. unfold add_member.
    destruct (member_of dlm dlr dlg dlgr h1 y) as [nn|] eqn:Em; auto. cbn [fst].
    apply inv_set_add; [exact Hy|exact Hms|]. cbn. exact (member_of_new _ _ _ _ _ _ _ _ Hy H1 H2 H3 H4 Em).
  Qed.

  Lemma st_links_inv : forall S dlm dlr dlg dlgr l h ok,
      Inv n h0 h m' S -> ReadsOk S -> n <= dlm -> n <= dlr -> n <= dlg -> n <= dlgr ->
      Inv n h0 (fst (st_links dlm dlr dlg dlgr l (h, ok))) m' S.
  Proof.
    intros S dlm dlr dlg dlgr l h ok HI HR H1 H2 H3 H4. unfold st_links.
    apply (fold_left_inv (fun hb : heap * bool => Inv n h0 (fst hb) m' S)); auto.
    intros [h1 ok1] x Hin Hx. cbn [fst] in Hx. apply link_group_inv; auto.
  Qed.

  (* ---------------- solver and the final context stack *)
  Lemma st_solver_inv : forall mc h L,
      Inv n h0 h m' (rem L (pending T)) -> Inv n h0 (st_solver T mc m' h) m' (rem ("_solver" :: L) (pending T)).
  Proof.
    intros mc h L HI. unfold st_solver. destruct (attr mc "_solver") as [v|].
    - destruct (deep_copy T h v) as [h1 sv] eqn:E. destruct (inv_deep_copy _ _ _ _ _ _ _ _ _ HI E) as [H1 Hv].
      apply inv_settle_rem; auto.
    - apply inv_settle_rem; auto. exact I.
  Qed.

  Lemma st_final_ctx_inv : forall h L,
      Inv n h0 h m' (rem L (pending T)) -> Inv n h0 (st_final_ctx m' h) m' (rem ("_contexts" :: L) (pending T)).
  Proof.
    intros h L HI. unfold st_final_ctx. destruct (new_cell h KList) as [h1 cx] eqn:E.
    destruct (inv_new_cell _ _ _ _ _ _ _ _ HI E) as [H1 Hcx]. apply inv_settle_rem; auto.
  Qed.

  (* ---------------- nothing pending is left: the invariant is Ext *)
  Lemma inv_done : forall h S, Inv n h0 h m' S -> (forall s, ~ In s S) -> Ext n h0 h.
  Proof.
    intros h S HI Hnone. destruct HI as [Hl Hp Hm Hk Hn Hmo]. split; auto.
    intros a c Ha Hg. destruct (Nat.eq_dec a m') as [->|Hne]; [|eauto].
    unfold cell_ok. eapply Forall_impl; [|exact (Hmo c Hg)].
    intros kv [Hok|[s [_ Hin]]]; [exact Hok|]. exfalso. exact (Hnone s Hin).
  Qed.
End Construction.

(* ------------------------------------------------------------------ from the boolean predicate to the hypotheses *)
Lemma ref_kind_listof : forall h k l,
    heap_wf h -> forallb (ref_kind_b h k) l = true -> ListOf (List.length h) h k l.
Proof.
  intros h k l Hwf H x Hin. rewrite forallb_forall in H. specialize (H x Hin). unfold ref_kind_b in H.
  destruct x as [s|xa]; [discriminate|]. destruct (get h xa) as [oc|] eqn:Hg; [|discriminate].
  exists xa, oc. repeat split; auto. eapply get_lt; eauto. apply kind_eqb_eq. exact H.
Qed.

Lemma stoich_atoms_sound : forall h l, forallb (stoich_atoms_b h) l = true -> StoichAtoms h l.
Proof.
  intros h l H x xa oc d dc kv Hin Hx Hg Ha Hd Hkv. rewrite forallb_forall in H. specialize (H x Hin).
  subst x. unfold stoich_atoms_b, attr_at in H. rewrite Hg, Ha, Hd in H. rewrite forallb_forall in H. auto.
Qed.

(* ------------------------------------------------------------------ the general theorem *)
Theorem model_copy_ext : forall T h m h' m' ok,
    table_safe T = true -> wf_model_heap T h m = true -> model_copy T h m = (h', m', ok) ->
    Ext (List.length h) h h' /\ m' = List.length h /\ m < List.length h /\ heap_wf h.
Proof.
  intros T h m h' m' ok HTs Hw H. apply table_safe_parts in HTs as HT.
  unfold wf_model_heap in Hw. apply andb_prop in Hw as [Hw Hw2]. apply andb_prop in Hw as [Hwfb Htyb].
  apply heap_wf_b_sound in Hwfb as Hwf. apply typed_b_Typed in Htyb as Hty.
  rewrite model_copy_stages in H. unfold model_copy_staged in H.
  destruct (get h m) as [mc|] eqn:Hm; [|discriminate].
  repeat match type of Hw2 with (_ && _) = true => let H' := fresh "W" in apply andb_prop in Hw2 as [Hw2 H'] end.
  apply kind_eqb_eq in Hw2 as Hk.
  set (n := List.length h) in *.
  (* stage 0: the new model cell and the first three blocks *)
  assert (Inv n h (st_new h) n (pending T)) as I0.
  { unfold st_new. split; auto.
    - rewrite firstn_app. replace (n - List.length h) with 0 by (unfold n; lia). cbn. rewrite app_nil_r. apply firstn_all.
    - rewrite app_length. cbn. unfold n. lia.
    - intros c Hg. unfold get in Hg. rewrite nth_error_app2 in Hg by (unfold n; lia).
      replace (n - List.length h) with 0 in Hg by (unfold n; lia). cbn in Hg. inv Hg. reflexivity.
    - intros a c Ha Hne Hg. apply get_app_new in Hg as [Hg _]; [|exact Ha]. unfold n in Hne. congruence.
    - intros c Hg. unfold get in Hg. rewrite nth_error_app2 in Hg by (unfold n; lia).
      replace (n - List.length h) with 0 in Hg by (unfold n; lia). cbn in Hg. inv Hg. constructor. }
  pose proof (st_byref_inv T n h n mc _ I0 (Hty m mc Hm) Hk) as I1.
  rewrite <- (rem_nil (pending T)) in I1.
  pose proof (st_ctx_inv T n h n _ _ I1) as I2.
  assert (forall nm, In nm (ct_model_explicit T) -> snd nm = Deep /\ has_attr mc (fst nm) = true) as Hexp.
  { intros nm Hnm. split; [apply (ts_explicit T HT); auto|]. rewrite forallb_forall in W4. auto. }
  pose proof (st_explicit_inv T n h n mc _ _ _ I2 Hexp) as I3. fold (st_explicit T mc n) in I3.
  set (h1 := st_explicit T mc n (st_ctx T n (st_byref T mc n (st_new h)))) in *.
  pose proof (reads_rem T HT) as HR.
  (* the four lists are lists of old objects *)
  assert (forall name k hh S, Inv n h hh n S -> forallb (ref_kind_b h k) (list_elems h (attr mc name)) = true ->
                              list_elems hh (attr mc name) = list_elems h (attr mc name) /\
                              ListOf n h k (list_elems h (attr mc name))) as Hlists.
  { intros name k hh S HI Hb. split; [|apply ref_kind_listof; auto].
    unfold list_elems. destruct (attr mc name) as [[s|d]|] eqn:Ea; auto.
    assert (d < n) as Hd by (eapply Hwf; [exact Hm|eapply attr_ref_in; eauto]).
    rewrite (inv_old _ _ _ _ _ _ HI Hd). reflexivity. }
  (* metabolites *)
  destruct (st_list n "metabolites" h1) as [h2 dlm] eqn:E2.
  destruct (st_list_inv T n h n _ _ _ _ _ I3 E2) as [I4 Hdlm].
  destruct (Hlists "metabolites" KMetabolite h2 _ I4 W3) as [Eq3 L3].
  assert (Inv n h (st_mets T mc n dlm h2) n (rem ("metabolites" :: rev (map fst (ct_model_explicit T)) ++ []) (pending T))) as I5.
  { unfold st_mets. rewrite Eq3.
    apply (species_loop_inv T n h n Hty _ KMetabolite (ct_met T) _ dlm _ _ L3 eq_refl (ts_met T HT) Hdlm I4). }
  set (h3 := st_mets T mc n dlm h2) in *.
  (* genes *)
  destruct (st_list n "genes" h3) as [h4 dlg] eqn:E4.
  destruct (st_list_inv T n h n _ _ _ _ _ I5 E4) as [I6 Hdlg].
  destruct (Hlists "genes" KGene h4 _ I6 W2) as [Eq5 L5].
  assert (Inv n h (st_genes T mc n dlg h4) n
              (rem ("genes" :: "metabolites" :: rev (map fst (ct_model_explicit T)) ++ []) (pending T))) as I7.
  { unfold st_genes. rewrite Eq5.
    apply (species_loop_inv T n h n Hty _ KGene (ct_gene T) _ dlg _ _ L5 eq_refl (ts_gene T HT) Hdlg I6). }
  set (h5 := st_genes T mc n dlg h4) in *.
  (* reactions *)
  destruct (st_list n "reactions" h5) as [h6 dlr] eqn:E6.
  destruct (st_list_inv T n h n _ _ _ _ _ I7 E6) as [I8 Hdlr].
  destruct (Hlists "reactions" KReaction h6 _ I8 W1) as [Eq7 L7].
  pose proof (stoich_atoms_sound _ _ W) as Hst.
  pose proof (st_rxns_loop_inv T n h n HT Hty Hwf _ _ dlr dlm dlg h6 true L7 Hst I8 (HR _) Hdlr Hdlm Hdlg) as I9.
  rewrite <- Eq7 in I9. fold (st_rxns T mc n dlr dlm dlg h6) in I9.
  destruct (st_rxns T mc n dlr dlm dlg h6) as [h7 ok1]. cbn [fst] in I9.
  (* groups *)
  destruct (st_list n "groups" h7) as [h8 dlgr] eqn:E8.
  destruct (st_list_inv T n h n _ _ _ _ _ I9 E8) as [I10 Hdlgr].
  destruct (Hlists "groups" KGroup h8 _ I10 W0) as [Eq9 L9].
  rewrite Eq9 in H.
  pose proof (species_loop_inv T n h n Hty _ KGroup (ct_group T) _ dlgr _ _ L9 eq_refl (ts_group T HT) Hdlgr I10) as I11.
  change (fold_left (copy_species T (ct_group T) (attrs_of T KGroup) n dlgr)) with (st_groups T n dlgr) in I11.
  set (h9 := st_groups T n dlgr (list_elems h (attr mc "groups")) h8) in *.
  pose proof (st_links_inv n h n _ dlm dlr dlg dlgr (list_elems h (attr mc "groups")) h9 ok1 I11 (HR _)
                           Hdlm Hdlr Hdlg Hdlgr) as I12.
  destruct (st_links dlm dlr dlg dlgr (list_elems h (attr mc "groups")) (h9, ok1)) as [h10 ok2]. cbn [fst] in I12.
  pose proof (st_solver_inv T n h n mc _ _ I12) as I13.
  pose proof (st_final_ctx_inv T n h n _ _ I13) as I14.
  inv H. split; [|split; [reflexivity|split; [eapply get_lt; eauto|exact Hwf]]].
  eapply inv_done; [exact I14|].
  intros s Hs. apply rem_In in Hs as [Hp Hnot]. apply (ts_over T HT) in Hp. apply Hnot.
  unfold overwritten in Hp. cbn [app] in Hp.
  repeat (destruct Hp as [<-|Hp]; [cbn; tauto|]).
  right. right. right. right. right. right. apply in_or_app. left. apply -> in_rev.
  apply in_map_iff in Hp as [nm [<- Hnm]]. apply filter_In in Hnm as [Hnm _]. apply in_map. exact Hnm.
Qed.

Theorem model_copy_separated : forall T h m h' m' ok,
    table_safe T = true -> wf_model_heap T h m = true -> model_copy T h m = (h', m', ok) ->
    Separated h' m m'.
Proof.
  intros T h m h' m' ok HT Hw H. destruct (model_copy_ext _ _ _ _ _ _ HT Hw H) as [HE [-> [Hm Hwf]]].
  eapply ext_separated; eauto.
Qed.

(* FRAME of the operation itself: every cell of the original heap is unchanged (so the original model, and
   anything else that existed, reads exactly as before, to every depth) *)
Theorem model_copy_frame : forall T h m h' m' ok,
    table_safe T = true -> wf_model_heap T h m = true -> model_copy T h m = (h', m', ok) ->
    firstn (List.length h) h' = h /\
    (forall a, a < List.length h -> get h' a = get h a) /\
    (forall fuel root, root < List.length h -> unfold h' fuel (Ref root) = unfold h fuel (Ref root)).
Proof.
  intros T h m h' m' ok HT Hw H. destruct (model_copy_ext _ _ _ _ _ _ HT Hw H) as [HE [-> [Hm Hwf]]].
  split; [apply (ext_prefix _ _ _ HE)|]. split.
  - intros a Ha. eapply ext_old; eauto.
  - intros fuel root Hr. apply unfold_agree with (root := root); [|cbn; constructor].
    intros a Hra. apply (ext_old _ _ _ a HE).
    eapply (reach_closed h (fun x => x < List.length h)); eauto. intros x y Hx [cl [Hg Hin]]. eapply Hwf; eauto.
Qed.

(* everything reachable from the copy was created by the copy; nothing reachable from the original was *)
Theorem model_copy_fresh : forall T h m h' m' ok,
    table_safe T = true -> wf_model_heap T h m = true -> model_copy T h m = (h', m', ok) ->
    List.length h <= m' /\
    (forall x, Reach h' m' x -> List.length h <= x) /\ (forall x, Reach h' m x -> x < List.length h).
Proof.
  intros T h m h' m' ok HT Hw H. destruct (model_copy_ext _ _ _ _ _ _ HT Hw H) as [HE [-> [Hm Hwf]]].
  split; [lia|]. split; intros x Hx.
  - eapply reach_new; eauto.
  - eapply reach_old; eauto.
Qed.
