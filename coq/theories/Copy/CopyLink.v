(* C12 — pieces shared by the re-linking loops of Model.copy: DictList.get_by_id on a list of copied objects,
   adding to the link set of one copied object while the records of all the others stay valid, and
   `get_context(new_reaction)` on a model whose context stack is empty. *)
From Coq Require Import List String Bool Arith Lia.
From Cobra.Copy Require Import Heap Model Obs Lemmas Proofs CopyHeapFacts CopyData CopyState CopyObj CopySpecies.
Import ListNotations.
Open Scope string_scope.
Open Scope list_scope.

Definition set_items (l : list addr) : list (value * value) := map (fun x => (Ref x, At "")) l.

Lemma keys_set_items : forall l, keys_of (set_items l) = map Ref l.
Proof. intros l. unfold keys_of, set_items. rewrite map_map. reflexivity. Qed.

Lemma set_items_app : forall a b, set_items (a ++ b) = set_items a ++ set_items b.
Proof. intros. unfold set_items. apply map_app. Qed.

Lemma nodup_app_r : forall {A} (a b : list A), NoDup (a ++ b) -> NoDup b.
Proof. intros A a b. induction a as [|x a IH]; cbn; intros H; auto. inv H. auto. Qed.

Lemma nodup_app_disj : forall {A} (a b : list A) x, NoDup (a ++ b) -> In x a -> In x b -> False.
Proof.
  intros A a b x. induction a as [|y a IH]; cbn; intros H Ha Hb; [contradiction|]. inv H.
  destruct Ha as [->|Ha]; [apply H2; apply in_or_app; auto|auto].
Qed.

Lemma nodup_flat_same : forall {A} (f : A -> list addr) (L : list A) r1 r2 x,
    NoDup (flat_map f L) -> In r1 L -> In r2 L -> In x (f r1) -> In x (f r2) -> r1 = r2.
Proof.
  intros A f L. induction L as [|q L IH]; intros r1 r2 x Hnd H1 H2 Hx1 Hx2; [contradiction|].
  cbn in Hnd. pose proof (nodup_app_r _ _ Hnd) as Hnd'.
  assert (forall r, In r L -> In x (f r) -> In x (f q) -> False) as Hcross.
  { intros r Hr Hxr Hxq. eapply nodup_app_disj; [exact Hnd|exact Hxq|]. apply in_flat_map. exists r. auto. }
  destruct H1 as [<-|H1], H2 as [<-|H2]; auto.
  - exfalso. eapply Hcross; eauto.
  - exfalso. eapply Hcross; eauto.
  - eapply IH; eauto.
Qed.

Section Link.
  Variable h0 : heap.
  Notation n := (List.length h0).
  Variable m' : addr.

  Definition idof (a : addr) : option value := attr_at h0 a "_id".

  Definition id_is (idv : value) (r : rec3) : bool :=
    match idof (r_old r) with Some i => value_eqb i idv | None => false end.

  (* the new object whose original carries the identifier idv / is the object a *)
  Definition find_id (idv : value) (recs : list rec3) : addr :=
    match find (id_is idv) recs with Some r => r_new r | None => 0 end.
  Definition lookup3 (a : addr) (recs : list rec3) : addr :=
    match find (fun r => Nat.eqb (r_old r) a) recs with Some r => r_new r | None => 0 end.

  Lemma find_id_found : forall recs r idv,
      NoDup (map (fun q => idof (r_old q)) recs) -> In r recs -> idof (r_old r) = Some idv -> find_id idv recs = r_new r.
  Proof.
    intros recs r idv. unfold find_id. induction recs as [|q L IH]; intros Hnd Hin Hid; [contradiction|].
    cbn [find]. inv Hnd. destruct Hin as [->|Hin].
    - unfold id_is at 1. rewrite Hid, value_eqb_refl. reflexivity.
    - destruct (id_is idv q) eqn:E; [|auto]. exfalso. unfold id_is in E.
      destruct (idof (r_old q)) as [i|] eqn:Ei; [|discriminate]. apply value_eqb_eq in E. subst i.
      apply H1. apply in_map_iff. exists r. split; [congruence|exact Hin].
  Qed.

  Lemma lookup3_found : forall recs r, NoDup (map r_old recs) -> In r recs -> lookup3 (r_old r) recs = r_new r.
  Proof.
    intros recs r. unfold lookup3. induction recs as [|q L IH]; intros Hnd Hin; [contradiction|].
    cbn [find]. inv Hnd. destruct Hin as [->|Hin].
    - rewrite Nat.eqb_refl. reflexivity.
    - destruct (Nat.eqb (r_old q) (r_old r)) eqn:E; [|auto]. apply Nat.eqb_eq in E. exfalso. apply H1.
      rewrite E. apply in_map. exact Hin.
  Qed.

  (* DictList.get_by_id on the list of the new objects *)
  Lemma get_by_id_found : forall h dl recs r idv,
      get h dl = Some (mkCell KDictList (dl_items (map r_new recs))) ->
      (forall q, In q recs -> attr_at h (r_new q) "_id" = idof (r_old q)) ->
      NoDup (map (fun q => idof (r_old q)) recs) -> In r recs -> idof (r_old r) = Some idv ->
      get_by_id h dl idv = Some (r_new r).
  Proof.
    intros h dl recs r idv Hg Hids Hnd Hin Hid. unfold get_by_id. rewrite Hg. unfold elems. cbn [ckind is_object citems].
    unfold dl_items. rewrite map_map. cbn [snd]. rewrite map_map.
    assert (forall L, (forall q, In q L -> attr_at h (r_new q) "_id" = idof (r_old q)) ->
                      NoDup (map (fun q => idof (r_old q)) L) -> In r L ->
                      find (id_matches h idv) (map (fun x => Ref (r_new x)) L) = Some (Ref (r_new r))) as Hgen.
    { clear Hg Hids Hnd Hin. induction L as [|q L IH]; intros Hids Hnd Hin; [contradiction|].
      cbn [map find]. inv Hnd. destruct Hin as [->|Hin].
      - unfold id_matches. rewrite (Hids r (or_introl eq_refl)), Hid, value_eqb_refl. reflexivity.
      - assert (id_matches h idv (Ref (r_new q)) = false) as E.
        { unfold id_matches. rewrite (Hids q (or_introl eq_refl)).
          destruct (idof (r_old q)) as [i|] eqn:Ei; auto. destruct (value_eqb i idv) eqn:E; auto.
          apply value_eqb_eq in E. subst i. exfalso. apply H1. apply in_map_iff. exists r. split; [congruence|exact Hin]. }
        rewrite E. apply IH; auto. intros x Hx. apply Hids. right. exact Hx. }
    rewrite (Hgen recs Hids Hnd Hin). reflexivity.
  Qed.

  (* get_context(obj) is None and nothing is recorded while the model's context stack is an empty list *)
  Definition CtxEmpty (h : heap) : Prop := list_elems h (attr_at h m' "_contexts") = [].

  Lemma record_undo_noop : forall h objs, CtxEmpty h -> record_undo h m' objs = h.
  Proof. intros h objs H. unfold record_undo, get_context. rewrite H. reflexivity. Qed.

  Lemma ctx_empty_agree : forall h h2 cx,
      attr_at h m' "_contexts" = Some (Ref cx) -> get h cx = Some (mkCell KList []) ->
      get h2 m' = get h m' -> get h2 cx = get h cx -> CtxEmpty h2.
  Proof.
    intros h h2 cx Ha Hg E1 E2. unfold CtxEmpty. rewrite (attr_at_agree _ _ _ _ E1), Ha. unfold list_elems.
    rewrite E2, Hg. reflexivity.
  Qed.

  (* ---- adding to the link set of one record *)
  Variable kt : ktable.
  Variable lk : string.

  Lemma sprec_add : forall h W recs rec (content : rec3 -> list addr) x,
      St n h0 h W -> In rec recs -> NoDup (flat_map cells3 recs) ->
      (forall q, In q recs -> SpRec h0 m' kt lk h W q (set_items (content q))) ->
      ~ In x (content rec) ->
      let h2 := set_add h (r_set rec) (Ref x) in
      St n h0 h2 W /\ Tr [r_set rec] h W h2 W /\
      SpRec h0 m' kt lk h2 W rec (set_items (content rec ++ [x])) /\
      (forall q, In q recs -> q <> rec -> SpRec h0 m' kt lk h2 W q (set_items (content q))).
  Proof.
    intros h W recs rec content x HS Hin Hnd Hrecs Hx. cbv zeta.
    pose proof (Hrecs rec Hin) as Hrec. destruct Hrec as [R1 [R2 [R3 [R4 [R5 [R6 R7]]]]]].
    destruct (st_set_add n h0 h W (r_set rec) (Ref x) HS R2) as [HS2 HT2].
    split; [exact HS2|]. split; [exact HT2|]. split.
    - unfold SpRec. split; [exact R1|]. split; [exact R2|]. split; [exact R3|]. split; [|split; [|split]].
      + eapply objcopied_tr; [exact R4|exact HS|exact HT2| |exact R1|].
        * intros y [<-|[]]. exact R2.
        * intros [Heq|[]]. congruence.
      + unfold attr_at. rewrite get_set_add_ne by auto. exact R5.
      + unfold attr_at. rewrite get_set_add_ne by auto. exact R6.
      + unfold set_add. rewrite (get_put_eq _ _ _ _ _ R7). cbn [ckind citems]. rewrite set_item_new.
        * rewrite set_items_app. reflexivity.
        * rewrite keys_set_items. intro Hc. apply in_map_iff in Hc as [y [Hy Hc]]. inv Hy. auto.
    - intros q Hq Hne. eapply sprec_tr; [apply Hrecs; exact Hq|exact HS|exact HT2| | |].
      + intros y [<-|[]]. exact R2.
      + intros [Heq|[]]. apply Hne. eapply (nodup_flat_same cells3 recs q rec (r_set rec)); eauto; cbn; auto.
      + intros [Heq|[]]. apply Hne. eapply (nodup_flat_same cells3 recs q rec (r_set rec)); eauto; cbn; auto.
  Qed.

  (* identifiers of the copies *)
  Lemma sprec_id : forall h W q items idv,
      SpRec h0 m' kt lk h W q items -> idof (r_old q) = Some idv -> is_atom idv = true ->
      mems "_id" (kt_excluded kt) = false -> attr_at h (r_new q) "_id" = Some idv.
  Proof.
    intros h W q items idv [_ [_ [_ [R4 _]]]] Hid Hat Hex. eapply objcopied_attr_atom; eauto.
  Qed.
End Link.
