(* C12 — correspondence + monitor functions evaluated (vm_compute) on the heaps the harness read from the
   real objects.  Nothing here is a theorem.  The model runs with the table generated from the source. *)
From Coq Require Import List String Bool Arith ZArith.
From Cobra.Copy Require Import Heap Model Obs CopyWf CopyDesc CopyWfContent CopyEquiv.
From Cobra.Gen Require Import CopyTables.
Import ListNotations.

Record ccase := mkCase {
  c_op : cop;
  c_h0 : heap;        (* every mutable object reachable from the operand before the operation *)
  c_root : addr;      (* the operand: a model, a reaction or a metabolite/gene *)
  c_hp : heap;        (* the same objects re-read afterwards (same addresses) + the objects reachable from the result *)
  c_res : addr;       (* the result *)
  c_ok : bool         (* the implementation did not raise *)
}.

(* codes: 1 model and implementation differ   2 result shares a mutable object with what existed before
          3 result is not equivalent to the operand   4 objects of the result are not fresh / do not point at the
          copy (model copies) or are not detached (Reaction.copy, Metabolite.copy)
          5 the operation changed its operand   6 input heap outside the typing discipline of the theorems
          7 (model operand) the hypothesis `wf_model_heap` of the general separation / frame theorems of Model.copy
            (Copy/CopySep.v) does not hold for this real heap
          8 (model operand) the hypothesis `wf_model_content` of the general structure theorem of Model.copy
            (Copy/CopyWfContent.v: the copy does not raise, per-class description) does not hold for this real heap
          9 (model operand) the hypothesis `consistent_b` of the general equivalence theorem `model_copy_equiv`
            (Copy/CopyEquiv.v: back references agree with the reactions) does not hold for this real heap *)
Definition is_model_op (o : cop) : bool :=
  match o with OpModelCopy | OpDeepcopy | OpPickle => true | _ => false end.

Definition check_case (c : ccase) : list (nat * nat) :=
  let T := current_table in
  let o := c_op c in
  let h0 := c_h0 c in
  let n := List.length h0 in
  let '(hm, rm, okm) := run_op T o h0 (c_root c) in
  let hp := c_hp c in
  let res := c_res c in
  let c1 := tree_eqb (obs_result o hm rm) (obs_result o hp res)
            && same_set (shared n hm rm) (shared n hp res)
            && Bool.eqb (old_unchanged h0 hm) (old_unchanged h0 hp)
            && Bool.eqb okm (c_ok c)
            && Bool.eqb (points_b o n hm rm) (points_b o n hp res)
            && Bool.eqb (stays_old n hm (c_root c)) (stays_old n hp (c_root c)) in
  let c2 := match shared n hp res with [] => true | _ => false end && fresh_closed_b n hp
            && stays_old n hp (c_root c) in
  let c3 := equiv_b o h0 (c_root c) hp res in
  let c4 := points_b o n hp res in
  let c5 := old_unchanged h0 hp in
  let c6 := heap_wf_b h0 && typed_b T h0 in
  let c7 := if is_model_op o then wf_model_heap T h0 (c_root c) else true in
  let c8 := if is_model_op o then wf_model_content T h0 (c_root c) else true in
  let c9 := if is_model_op o then consistent_b T h0 (c_root c) else true in
  (if c1 then [] else [(0%nat, 1%nat)]) ++ (if c2 then [] else [(0%nat, 2%nat)]) ++ (if c3 then [] else [(0%nat, 3%nat)]) ++
  (if c4 then [] else [(0%nat, 4%nat)]) ++ (if c5 then [] else [(0%nat, 5%nat)]) ++ (if c6 then [] else [(0%nat, 6%nat)]) ++
  (if c7 then [] else [(0%nat, 7%nat)]) ++ (if c8 then [] else [(0%nat, 8%nat)]) ++ (if c9 then [] else [(0%nat, 9%nat)]).

Definition failing (cases : list (Z * ccase)) : list (Z * list (nat * nat)) :=
  filter (fun r => match snd r with [] => false | _ => true end)
         (map (fun c => (fst c, check_case (snd c))) cases).

(* for replay files: the addresses the model predicts to be shared *)
Definition predicted_shared (c : ccase) : list nat :=
  let '(hm, rm, _) := run_op current_table (c_op c) (c_h0 c) (c_root c) in shared (List.length (c_h0 c)) hm rm.
