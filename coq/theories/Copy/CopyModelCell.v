(* C12 — the statements of Model.copy that work on the new Model object itself, described functionally:
   the by-reference loop, the constructor's context stack, the explicit deep copies, `new.<list> = DictList()`,
   `new._solver = deepcopy(self.solver)`, `new._contexts = []`.  `Step` bundles the bookkeeping of
   Copy/CopyState.v (state, transition, footprint) so that stages compose. *)
From Coq Require Import List String Bool Arith Lia.
From Cobra.Copy Require Import Heap Model Obs Lemmas Proofs CopyHeapFacts CopyData CopyState CopyObj CopyStages.
Import ListNotations.
Open Scope string_scope.
Open Scope list_scope.

Section Cell.
  Variable T : copytable.
  Variable h0 : heap.
  Notation n := (List.length h0).
  Variable m' : addr.

  Definition Step (h : heap) (W : list addr) (h2 : heap) (W2 : list addr) (FP : list addr) : Prop :=
    St n h0 h2 W2 /\ Tr FP h W h2 W2 /\ FPok h W FP.

  Lemma step_refl : forall h W, St n h0 h W -> Step h W h W [].
  Proof. intros h W HS. split; auto. split; [apply tr_refl|intros x []]. Qed.

  Lemma step_trans : forall h W h2 W2 h3 W3 FP1 FP2,
      Step h W h2 W2 FP1 -> Step h2 W2 h3 W3 FP2 -> Step h W h3 W3 (FP1 ++ FP2).
  Proof.
    intros h W h2 W2 h3 W3 FP1 FP2 [S1 [T1 F1]] [S2 [T2 F2]]. split; auto. split; [eapply tr_trans; eauto|].
    intros x Hx. apply in_app_or in Hx as [Hx|Hx]; [auto|].
    destruct (F2 x Hx) as [Hw|Hl].
    - destruct (tr_new _ _ _ _ _ T1 x Hw); auto.
    - right. pose proof (tr_len _ _ _ _ _ T1). lia.
  Qed.

  Lemma step_weaken : forall h W h2 W2 FP FP', Step h W h2 W2 FP -> incl FP FP' -> FPok h W FP' -> Step h W h2 W2 FP'.
  Proof. intros h W h2 W2 FP FP' [S1 [T1 F1]] Hi HF. split; auto. split; auto. eapply tr_weaken; eauto. Qed.

  Lemma step_write : forall h W a h2,
      St n h0 h W -> In a W -> List.length h2 = List.length h -> (forall x, x <> a -> get h2 x = get h x) ->
      Step h W h2 W [a].
  Proof.
    intros h W a h2 HS Ha Hl Hsame. destruct (st_write n h0 h W a h2 HS Ha Hl Hsame) as [H1 H2].
    split; auto. split; auto. intros x [<-|[]]. left. exact Ha.
  Qed.

  Lemma step_set_attr : forall h W a s v, St n h0 h W -> In a W -> Step h W (set_attr h a s v) W [a].
  Proof. intros. apply step_write; auto; [apply put_length|intros; apply get_put_ne; auto]. Qed.

  Lemma step_alloc : forall h W c, St n h0 h W -> Step h W (h ++ [c]) (List.length h :: W) [].
  Proof. intros h W c HS. destruct (st_alloc n h0 h W c HS). split; auto. split; auto. intros x []. Qed.

  Lemma step_deep_copy : forall h W v h' v',
      St n h0 h W -> Data h0 v -> deep_copy T h v = (h', v') ->
      Step h W h' W [] /\ DIso h0 v (PD n W (List.length h')) h' v'.
  Proof.
    intros h W v h' v' HS Dv Hrun. destruct (st_deep_copy n h0 T h W v h' v' eq_refl HS Dv Hrun) as [H1 [H2 H3]].
    split; auto. split; auto. split; auto. intros x [].
  Qed.

  (* data copies survive any step *)
  Lemma diso_step : forall h W h2 W2 FP v v',
      St n h0 h W -> Step h W h2 W2 FP ->
      DIso h0 v (PD n W (List.length h)) h v' -> DIso h0 v (PD n W2 (List.length h2)) h2 v'.
  Proof. intros h W h2 W2 FP v v' HS [S2 [T2 F2]] HD. exact (diso_tr_g n h0 FP h W h2 W2 v v' HS T2 F2 HD). Qed.

  Lemma step_get : forall h W h2 W2 FP x, Step h W h2 W2 FP -> x < List.length h -> ~ In x FP -> get h2 x = get h x.
  Proof. intros h W h2 W2 FP x [_ [T2 _]] Hx Hn. apply (tr_same _ _ _ _ _ T2); auto. Qed.

  Lemma step_W : forall h W h2 W2 FP x, Step h W h2 W2 FP -> In x W -> In x W2.
  Proof. intros h W h2 W2 FP x [_ [T2 _]] Hx. apply (tr_W _ _ _ _ _ T2); auto. Qed.

  Lemma step_len : forall h W h2 W2 FP, Step h W h2 W2 FP -> List.length h <= List.length h2.
  Proof. intros h W h2 W2 FP [_ [T2 _]]. apply (tr_len _ _ _ _ _ T2). Qed.

  (* ---------------- the new model cell *)
  Definition MCell (h : heap) : Prop :=
    exists cm, get h m' = Some cm /\ ckind cm = KModel /\ NoDup (keys_of (citems cm)) /\
               forall k, In k (keys_of (citems cm)) -> exists s, k = At s.

  Lemma mcell_set_attr : forall h s v, MCell h -> MCell (set_attr h m' s v).
  Proof.
    intros h s v [cm [Hg [Hk [Hnd Hat]]]]. exists (mkCell (ckind cm) (set_item (At s) v (citems cm))).
    split; [unfold set_attr; apply get_put_eq; exact Hg|]. split; [exact Hk|]. split; [apply nodup_set_item; exact Hnd|].
    cbn [citems]. intros k Hin. destruct (in_dec value_eq_dec (At s) (keys_of (citems cm))) as [Hi|Hni].
    - rewrite keys_set_item_in in Hin; auto.
    - rewrite keys_set_item_new in Hin; auto. apply in_app_or in Hin as [Hin|[<-|[]]]; eauto.
  Qed.

  Lemma mcell_agree : forall h h2, MCell h -> get h2 m' = get h m' -> MCell h2.
  Proof. intros h h2 [cm H] E. exists cm. rewrite E. exact H. Qed.

  Lemma mattr_set : forall h s v t, m' < List.length h ->
    attr_at (set_attr h m' s v) m' t = if String.eqb t s then Some v else attr_at h m' t.
  Proof.
    intros h s v t Hlt. destruct (String.eqb t s) eqn:E.
    - apply String.eqb_eq in E. subst. apply attr_at_set_attr_eq. exact Hlt.
    - apply String.eqb_neq in E. apply attr_at_set_attr_ne_name. congruence.
  Qed.

  Lemma lookup_app_none : forall k l1 l2, lookup k l1 = None -> lookup k (l1 ++ l2) = lookup k l2.
  Proof.
    intros k l1 l2. induction l1 as [|[k' v'] r IH]; cbn; intros H; auto.
    destruct (value_eqb k k'); [discriminate|auto].
  Qed.
  Lemma lookup_app_some : forall k l1 l2 v, lookup k l1 = Some v -> lookup k (l1 ++ l2) = Some v.
  Proof.
    intros k l1 l2 v. induction l1 as [|[k' v'] r IH]; cbn; intros H; [discriminate|].
    destruct (value_eqb k k'); auto.
  Qed.

  (* ---- the by-reference loop *)
  Lemma byref_loop_desc : forall excl l done h W,
      St n h0 h W -> In m' W -> MCell h ->
      (forall kv, In kv l -> exists s, fst kv = At s) -> NoDup (keys_of (done ++ l)) ->
      (forall s, attr_at h m' s = if mems s excl then None else lookup (At s) done) ->
      let h2 := fold_left (byref_attr excl m') l h in
      Step h W h2 W [m'] /\ MCell h2 /\
      (forall s, attr_at h2 m' s = if mems s excl then None else lookup (At s) (done ++ l)).
  Proof.
    intros excl l. induction l as [|[k v] r IH]; intros done h W HS Hm HC Hnames Hnd Hattr; cbv zeta.
    - cbn [fold_left]. rewrite app_nil_r. split; [|split; auto].
      eapply step_weaken; [apply step_refl; exact HS|intros x []|]. intros x [<-|[]]. left. exact Hm.
    - destruct (Hnames (k, v) (or_introl eq_refl)) as [s Hs]. cbn in Hs. subst k. cbn [fold_left].
      assert (lookup (At s) done = None) as Hnone.
      { apply lookup_none_notin. unfold keys_of in Hnd. rewrite map_app in Hnd. cbn in Hnd. apply NoDup_remove_2 in Hnd.
        intro Hin. apply Hnd. apply in_or_app. left. exact Hin. }
      replace (done ++ (At s, v) :: r) with ((done ++ [(At s, v)]) ++ r) in * by (rewrite <- app_assoc; reflexivity).
      pose proof (st_W _ _ _ _ HS _ Hm) as Hmlt.
      assert (byref_attr excl m' h (At s, v) = if mems s excl then h else set_attr h m' s v) as Hb by reflexivity.
      rewrite Hb. clear Hb. destruct (mems s excl) eqn:Hex.
      + assert (forall t, attr_at h m' t = if mems t excl then None else lookup (At t) (done ++ [(At s, v)])) as Hattr1.
        { intros t. rewrite Hattr. destruct (mems t excl) eqn:Et; auto.
          destruct (String.eqb t s) eqn:E.
          - apply String.eqb_eq in E. subst t. congruence.
          - destruct (lookup (At t) done) eqn:El; [symmetry; apply lookup_app_some; exact El|].
            rewrite (lookup_app_none _ _ _ El). cbn. rewrite E. reflexivity. }
        exact (IH (done ++ [(At s, v)]) h W HS Hm HC (fun kv Hkv => Hnames kv (or_intror Hkv)) Hnd Hattr1).
      + pose proof (step_set_attr h W m' s v HS Hm) as HST.
        assert (forall t, attr_at (set_attr h m' s v) m' t = if mems t excl then None else lookup (At t) (done ++ [(At s, v)])) as Hattr1.
        { intros t. rewrite mattr_set by lia. destruct (String.eqb t s) eqn:E.
          - apply String.eqb_eq in E. subst t. rewrite Hex. rewrite (lookup_app_none _ _ _ Hnone). cbn.
            rewrite String.eqb_refl. reflexivity.
          - rewrite Hattr. destruct (mems t excl); auto.
            destruct (lookup (At t) done) eqn:El; [symmetry; apply lookup_app_some; exact El|].
            rewrite (lookup_app_none _ _ _ El). cbn. rewrite E. reflexivity. }
        destruct (IH (done ++ [(At s, v)]) (set_attr h m' s v) W (proj1 HST) Hm (mcell_set_attr h s v HC)
                     (fun kv Hkv => Hnames kv (or_intror Hkv)) Hnd Hattr1) as [HST2 [HC2 Hattr2]].
        cbv zeta in HST2. split; [|split; auto].
        {
          pose proof (step_trans _ _ _ _ _ _ _ _ HST HST2) as H. eapply step_weaken; [exact H| |].
          - intros x [<-|[<-|[]]]; left; reflexivity.
          - intros x [<-|[]]. left. exact Hm. }
  Qed.

  (* ---- new.<s> = <fresh value>: only attribute s of the model cell changes *)
  Lemma model_set_desc : forall h W s v,
      St n h0 h W -> In m' W -> MCell h ->
      Step h W (set_attr h m' s v) W [m'] /\ MCell (set_attr h m' s v) /\
      (forall t, attr_at (set_attr h m' s v) m' t = if String.eqb t s then Some v else attr_at h m' t).
  Proof.
    intros h W s v HS Hm HC. split; [apply step_set_attr; auto|]. split; [apply mcell_set_attr; auto|].
    intros t. apply mattr_set. apply (st_W _ _ _ _ HS) in Hm. lia.
  Qed.

  (* ---- new.<name> = deepcopy(self.<name>) for the names of the table *)
  Lemma explicit_loop_desc : forall mc l h W,
      St n h0 h W -> In m' W -> MCell h ->
      (forall nm, In nm l -> snd nm = Deep /\ exists v, attr mc (fst nm) = Some v /\ Data h0 v) ->
      let h2 := fold_left (explicit_attr T mc m') l h in
      Step h W h2 W [m'] /\ MCell h2 /\
      (forall s, ~ In s (map fst l) -> attr_at h2 m' s = attr_at h m' s) /\
      (forall s, In s (map fst l) -> exists v v', attr mc s = Some v /\ attr_at h2 m' s = Some v' /\
                                                   DIso h0 v (PD n W (List.length h2)) h2 v').
  Proof.
    intros mc l. induction l as [|nm r IH]; intros h W HS Hm HC Hl; cbv zeta.
    - cbn [fold_left]. split; [|split; [auto|split; [auto|intros s []]]].
      eapply step_weaken; [apply step_refl; exact HS|intros x []|]. intros x [<-|[]]. left. exact Hm.
    - destruct (Hl nm (or_introl eq_refl)) as [Hd [v [Hv Dv]]]. cbn [fold_left].
      assert (explicit_attr T mc m' h nm = let '(h1, v') := deep_copy T h v in set_attr h1 m' (fst nm) v') as Hb.
      { unfold explicit_attr. rewrite Hv, Hd. reflexivity. }
      rewrite Hb. clear Hb. destruct (deep_copy T h v) as [h1 v'] eqn:E.
      destruct (step_deep_copy h W v h1 v' HS Dv E) as [HST1 HI1]. pose proof HST1 as [HS1 _].
      assert (MCell h1) as HC1.
      { eapply mcell_agree; [exact HC|]. eapply step_get; [exact HST1| |intros []]. apply (st_W _ _ _ _ HS). exact Hm. }
      destruct (model_set_desc h1 W (fst nm) v' HS1 Hm HC1) as [HST2 [HC2 Hat2]].
      set (h2 := set_attr h1 m' (fst nm) v') in *. pose proof HST2 as [HS2 _].
      destruct (IH h2 W HS2 Hm HC2 (fun x Hx => Hl x (or_intror Hx))) as [HST3 [HC3 [Hother Hnames]]]. cbv zeta in *.
      set (h3 := fold_left (explicit_attr T mc m') r h2) in *.
      pose proof (step_trans _ _ _ _ _ _ _ _ (step_trans _ _ _ _ _ _ _ _ HST1 HST2) HST3) as Hall.
      split; [|split; [exact HC3|split]].
      + eapply step_weaken; [exact Hall| |].
        * intros x Hx. cbn [app] in Hx. destruct Hx as [<-|[<-|[]]]; left; reflexivity.
        * intros x [<-|[]]. left. exact Hm.
      + intros s Hs. rewrite Hother; [|intro; apply Hs; right; auto]. rewrite Hat2.
        destruct (String.eqb s (fst nm)) eqn:Es; [apply String.eqb_eq in Es; exfalso; apply Hs; left; auto|].
        apply attr_at_agree. eapply step_get; [exact HST1| |intros []]. apply (st_W _ _ _ _ HS). exact Hm.
      + intros s Hs. destruct (in_dec string_dec s (map fst r)) as [Hin|Hnin]; [apply Hnames; exact Hin|].
        destruct Hs as [<-|Hs]; [|contradiction].
        exists v, v'. split; [exact Hv|]. split.
        * rewrite Hother by exact Hnin. rewrite Hat2. rewrite String.eqb_refl. reflexivity.
        * eapply diso_step; [exact HS2|exact HST3|]. eapply diso_step; [exact HS1|exact HST2|exact HI1].
  Qed.

  (* ---- new.<name> = DictList() *)
  Lemma st_list_desc : forall h W name h2 dl,
      St n h0 h W -> In m' W -> MCell h -> st_list m' name h = (h2, dl) ->
      dl = List.length h /\ Step h W h2 (dl :: W) [m'] /\ MCell h2 /\
      get h2 dl = Some (mkCell KDictList []) /\
      (forall t, attr_at h2 m' t = if String.eqb t name then Some (Ref dl) else attr_at h m' t).
  Proof.
    intros h W name h2 dl HS Hm HC Hrun. unfold st_list in Hrun. inv Hrun. split; [reflexivity|].
    pose proof (step_alloc h W (mkCell KDictList []) HS) as HST1. pose proof HST1 as [HS1 _].
    pose proof (st_W _ _ _ _ HS _ Hm) as Hmlt.
    assert (In m' (List.length h :: W)) as Hm1 by (right; exact Hm).
    assert (MCell (h ++ [mkCell KDictList []])) as HC1 by (eapply mcell_agree; [exact HC|apply get_alloc_old; lia]).
    destruct (model_set_desc _ _ name (Ref (List.length h)) HS1 Hm1 HC1) as [HST2 [HC2 Hat2]].
    split; [|split; [exact HC2|split]].
    - pose proof (step_trans _ _ _ _ _ _ _ _ HST1 HST2) as H. eapply step_weaken; [exact H|intros x Hx; exact Hx|].
      intros x [<-|[]]. left. exact Hm.
    - rewrite get_set_attr_ne by lia. apply get_alloc_new.
    - intros t. rewrite Hat2. destruct (String.eqb t name); auto. apply attr_at_agree. apply get_alloc_old. lia.
  Qed.

  (* ---- new._contexts = []  (the constructor's, and the final statement) *)
  Lemma ctx_desc : forall h W,
      St n h0 h W -> In m' W -> MCell h ->
      let h2 := st_final_ctx m' h in
      Step h W h2 (List.length h :: W) [m'] /\ MCell h2 /\
      get h2 (List.length h) = Some (mkCell KList []) /\
      (forall t, attr_at h2 m' t = if String.eqb t "_contexts" then Some (Ref (List.length h)) else attr_at h m' t).
  Proof.
    intros h W HS Hm HC. cbv zeta. unfold st_final_ctx, new_cell, alloc.
    pose proof (step_alloc h W (mkCell KList []) HS) as HST1. pose proof HST1 as [HS1 _].
    pose proof (st_W _ _ _ _ HS _ Hm) as Hmlt.
    assert (In m' (List.length h :: W)) as Hm1 by (right; exact Hm).
    assert (MCell (h ++ [mkCell KList []])) as HC1 by (eapply mcell_agree; [exact HC|apply get_alloc_old; lia]).
    destruct (model_set_desc _ _ "_contexts" (Ref (List.length h)) HS1 Hm1 HC1) as [HST2 [HC2 Hat2]].
    split; [|split; [exact HC2|split]].
    - pose proof (step_trans _ _ _ _ _ _ _ _ HST1 HST2) as H. eapply step_weaken; [exact H|intros x Hx; exact Hx|].
      intros x [<-|[]]. left. exact Hm.
    - rewrite get_set_attr_ne by lia. apply get_alloc_new.
    - intros t. rewrite Hat2. destruct (String.eqb t "_contexts"); auto. apply attr_at_agree. apply get_alloc_old. lia.
  Qed.

  (* ---- new._solver = deepcopy(self.solver) *)
  Lemma solver_desc : forall mc h W v,
      St n h0 h W -> In m' W -> MCell h -> attr mc "_solver" = Some v -> Data h0 v ->
      let h2 := st_solver T mc m' h in
      Step h W h2 W [m'] /\ MCell h2 /\
      (exists v', attr_at h2 m' "_solver" = Some v' /\ DIso h0 v (PD n W (List.length h2)) h2 v') /\
      (forall t, t <> "_solver" -> attr_at h2 m' t = attr_at h m' t).
  Proof.
    intros mc h W v HS Hm HC Hv Dv. cbv zeta. unfold st_solver. rewrite Hv.
    destruct (deep_copy T h v) as [h1 v'] eqn:E.
    destruct (step_deep_copy h W v h1 v' HS Dv E) as [HST1 HI1]. pose proof HST1 as [HS1 _].
    pose proof (st_W _ _ _ _ HS _ Hm) as Hmlt.
    assert (get h1 m' = get h m') as Eg by (eapply step_get; [exact HST1|lia|intros []]).
    assert (MCell h1) as HC1 by (eapply mcell_agree; eauto).
    destruct (model_set_desc h1 W "_solver" v' HS1 Hm HC1) as [HST2 [HC2 Hat2]].
    split; [|split; [exact HC2|split]].
    - pose proof (step_trans _ _ _ _ _ _ _ _ HST1 HST2) as H. eapply step_weaken; [exact H|intros x Hx; exact Hx|].
      intros x [<-|[]]. left. exact Hm.
    - exists v'. split; [rewrite Hat2; reflexivity|]. eapply diso_step; [exact HS1|exact HST2|exact HI1].
    - intros t Ht. rewrite Hat2. destruct (String.eqb t "_solver") eqn:Et; [apply String.eqb_eq in Et; contradiction|].
      apply attr_at_agree. exact Eg.
  Qed.
End Cell.
