(* C12 — the table of Model.copy as it was BEFORE the fix commits (cobrapy 4cd38c6): `_compartments`, `_contexts`
   and the notes / annotation of metabolites and genes copied by reference, reaction and group attributes copied
   shallowly.  Kept as a constant so that the refutation of separation on that code stays checkable. *)
From Coq Require Import List String Bool Arith.
From Cobra.Copy Require Import Heap Model Obs Lemmas.
Import ListNotations.
Open Scope string_scope.
Open Scope list_scope.

Definition obj_attrs : list (string * akind) :=
  [("_annotation", ADict); ("_id", AAtom); ("_model", ALink); ("name", AAtom); ("notes", ADict)].

Definition table_v0 : copytable :=
  mkCT ([("_annotation", ADict); ("_id", AAtom); ("name", AAtom); ("notes", ADict)]
          ++ [("_compartments", ADict); ("_contexts", AList); ("_solver", AOpaque); ("genes", ADictList);
                      ("groups", ADictList); ("metabolites", ADictList); ("reactions", ADictList)])
       (obj_attrs ++ [("_genes", ASet); ("_gpr", AGpr); ("_metabolites", ADict)])
       (obj_attrs ++ [("_reaction", ASet)]) (obj_attrs ++ [("_reaction", ASet)]) (obj_attrs ++ [("_members", ASet)])
       ["annotation"; "genes"; "groups"; "metabolites"; "notes"; "reactions"]
       [("notes", Deep); ("_annotation", Deep)]
       (mkKT ["_model"; "_reaction"] [("formula", Shallow)] ByRef)
       (mkKT ["_model"; "_reaction"] [("formula", Shallow)] ByRef)
       (mkKT ["_genes"; "_metabolites"; "_model"] [] Shallow)
       (mkKT ["_members"; "_model"] [] Shallow)
       ["reactions"; "genes"; "metabolites"] false false.

(* the repaired table, as a constant, for non-vacuity examples that must not depend on the generated file *)
Definition table_v1 : copytable :=
  mkCT (ct_attrs_model table_v0) (ct_attrs_rxn table_v0) (ct_attrs_met table_v0) (ct_attrs_gene table_v0)
       (ct_attrs_group table_v0)
       ["_contexts"; "annotation"; "genes"; "groups"; "metabolites"; "notes"; "reactions"]
       [("notes", Deep); ("_annotation", Deep); ("_compartments", Deep)]
       (mkKT ["_model"; "_reaction"] [] Deep) (mkKT ["_model"; "_reaction"] [] Deep)
       (mkKT ["_genes"; "_metabolites"; "_model"] [] Deep) (mkKT ["_members"; "_model"] [] Deep)
       ["reactions"; "genes"; "metabolites"; "groups"] true true.

(* a model with one metabolite A (annotation {"kegg": [..]}), one reaction R: A -> , rule "g", gene g, one group,
   compartments {"c": "cytosol"}, and a context open (HistoryManager at 26) *)
Definition toy : heap :=
  [ (* 0 *) mkCell KModel [(At "_id", At "s:toy"); (At "name", At "None"); (At "notes", Ref 1); (At "_annotation", Ref 2);
                           (At "genes", Ref 3); (At "reactions", Ref 4); (At "metabolites", Ref 5); (At "groups", Ref 6);
                           (At "_compartments", Ref 7); (At "_contexts", Ref 8); (At "_solver", Ref 9)];
    (* 1 *) mkCell KDict []; (* 2 *) mkCell KDict [];
    (* 3 *) mkCell KDictList [(At "", Ref 10)]; (* 4 *) mkCell KDictList [(At "", Ref 14)];
    (* 5 *) mkCell KDictList [(At "", Ref 21)]; (* 6 *) mkCell KDictList [(At "", Ref 27)];
    (* 7 *) mkCell KDict [(At "s:c", At "s:cytosol")];
    (* 8 *) mkCell KList [(At "", Ref 26)]; (* 9 *) mkCell KOpaque [];
    (* 10 gene *) mkCell KGene [(At "_id", At "s:g"); (At "name", At "s:"); (At "notes", Ref 11); (At "_annotation", Ref 12);
                               (At "_model", Ref 0); (At "_reaction", Ref 13); (At "_functional", At "b:True")];
    (* 11 *) mkCell KDict []; (* 12 *) mkCell KDict []; (* 13 *) mkCell KSet [(Ref 14, At "")];
    (* 14 reaction *) mkCell KReaction [(At "_id", At "s:R"); (At "name", At "s:"); (At "notes", Ref 15); (At "_annotation", Ref 16);
                               (At "_gpr", Ref 17); (At "subsystem", At "s:"); (At "_genes", Ref 19); (At "_metabolites", Ref 20);
                               (At "_model", Ref 0); (At "_lower_bound", At "n:0/1"); (At "_upper_bound", At "n:1000/1")];
    (* 15 *) mkCell KDict []; (* 16 *) mkCell KDict [(At "s:kegg", Ref 30)];
    (* 17 *) mkCell KGpr [(At "_genes", Ref 18); (At "body", At "s:g")]; (* 18 *) mkCell KSet [(At "s:g", At "")];
    (* 19 *) mkCell KSet [(Ref 10, At "")]; (* 20 *) mkCell KDict [(Ref 21, At "n:-1/1")];
    (* 21 metabolite *) mkCell KMetabolite [(At "_id", At "s:A"); (At "name", At "s:"); (At "notes", Ref 22); (At "_annotation", Ref 23);
                               (At "_model", Ref 0); (At "_reaction", Ref 25); (At "formula", At "s:H2O");
                               (At "compartment", At "s:c"); (At "charge", At "None"); (At "_bound", At "n:0/1")];
    (* 22 *) mkCell KDict []; (* 23 *) mkCell KDict [(At "s:kegg", Ref 24)]; (* 24 *) mkCell KList [(At "", At "s:C1")];
    (* 25 *) mkCell KSet [(Ref 14, At "")];
    (* 26 *) mkCell KOpaque [(At "", Ref 14)];
    (* 27 group *) mkCell KGroup [(At "_id", At "s:G"); (At "name", At "s:"); (At "notes", Ref 28); (At "_annotation", Ref 29);
                               (At "_members", Ref 31); (At "_kind", At "s:collection"); (At "_model", Ref 0)];
    (* 28 *) mkCell KDict []; (* 29 *) mkCell KDict []; (* 30 *) mkCell KList [(At "", At "s:R1")];
    (* 31 *) mkCell KSet [(Ref 14, At ""); (Ref 21, At "")] ].

Lemma edge_b_sound : forall h a b, edge_b h a b = true -> edge h a b.
Proof.
  unfold edge_b, edge. intros h a b H. destruct (get h a) as [c|]; [|discriminate]. exists c. split; auto.
  unfold memn in H. apply existsb_exists in H as [x [Hx He]]. apply Nat.eqb_eq in He. subst. exact Hx.
Qed.

Fixpoint path_b (h : heap) (p : list addr) : bool :=
  match p with
  | a :: ((b :: _) as r) => edge_b h a b && path_b h r
  | _ => true
  end.

Lemma path_b_sound : forall h p a, path_b h (a :: p) = true -> Reach h a (last p a).
Proof.
  intros h p. induction p as [|b r IH]; intros a H; cbn in *; [constructor|].
  apply andb_prop in H as [H1 H2]. eapply reach_step; [apply edge_b_sound; exact H1|].
  replace (match r with [] => b | _ :: _ => last r a end) with (last r b).
  - apply IH. exact H2.
  - clear. revert a b. induction r as [|x r IH]; intros; cbn; auto. destruct r; auto.
Qed.
