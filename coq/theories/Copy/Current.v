(* C12 — the side condition of the theorems on the table generated from the CURRENT source
   (Gen/CopyTables.v is rewritten by every check run; this file is recompiled with it). *)
From Coq Require Import List String Bool.
From Cobra.Copy Require Import Heap Model Obs.
From Cobra.Gen Require CopyTables.

Example current_table_safe : table_safe CopyTables.current_table = true.
Proof. vm_compute. reflexivity. Qed.
