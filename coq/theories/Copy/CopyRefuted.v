(* C12 — Model.copy is PARTIAL: on a model that the public API produces (a group nested in another group is
   removed with Model.remove_groups, or an outer group is added with Model.add_groups while the inner one never
   was) the member look-up `new.groups.get_by_id(member.id)` of the second pass over the groups fails: the real
   code raises KeyError, the model returns ok = false.  copy.deepcopy / pickle of the same model succeed and give
   an equivalent model.  The heap below is the toy model of Copy/Unrepaired.v whose group G (27) additionally
   has the member group G2 (32), G2 not being in model.groups. *)
From Coq Require Import List String Bool Arith.
From Cobra.Copy Require Import Heap Model Obs Lemmas Unrepaired CopyWf CopyDesc CopyWfContent.
Import ListNotations.
Open Scope string_scope.
Open Scope list_scope.

Definition toy_nested : heap :=
  upd toy 31 (mkCell KSet [(Ref 14, At ""); (Ref 21, At ""); (Ref 32, At "")])
  ++ [ (* 32 group G2, removed from the model *)
       mkCell KGroup [(At "_id", At "s:G2"); (At "name", At "s:"); (At "notes", Ref 33); (At "_annotation", Ref 34);
                      (At "_members", Ref 35); (At "_kind", At "s:collection"); (At "_model", At "None")];
       (* 33 *) mkCell KDict []; (* 34 *) mkCell KDict []; (* 35 *) mkCell KSet [(Ref 14, At "")] ].

Definition copy_nested := model_copy table_v1 toy_nested 0.
Definition deepcopy_nested := model_deepcopy table_v1 toy_nested 0.

Theorem model_copy_total_refuted :
  table_safe table_v1 = true /\ table_shape table_v1 = true /\
  wf_model_heap table_v1 toy_nested 0 = true /\        (* typed, no dangling pointer, lists of the right classes *)
  wf_model_content table_v1 toy_nested 0 = false /\    (* ... but a member that is not registered in the model *)
  snd copy_nested = false /\                           (* Model.copy raises (KeyError 'G2') *)
  snd deepcopy_nested = true /\                        (* copy.deepcopy / pickle do not *)
  equiv_b OpDeepcopy toy_nested 0 (fst (fst deepcopy_nested)) (snd (fst deepcopy_nested)) = true.
Proof. vm_compute. repeat split; reflexivity. Qed.

(* the strongest restriction that is true is exactly the registration of the members: the same heap with G2
   registered in model.groups is copied *)
Definition toy_nested_registered : heap :=
  upd (upd toy_nested 6 (mkCell KDictList [(At "", Ref 27); (At "", Ref 32)]))
      32 (mkCell KGroup [(At "_id", At "s:G2"); (At "name", At "s:"); (At "notes", Ref 33); (At "_annotation", Ref 34);
                         (At "_members", Ref 35); (At "_kind", At "s:collection"); (At "_model", Ref 0)]).

Example model_copy_nested_groups_ok :
  let r := model_copy table_v1 toy_nested_registered 0 in
  wf_model_content table_v1 toy_nested_registered 0 = true /\ snd r = true /\
  equiv_b OpModelCopy toy_nested_registered 0 (fst (fst r)) (snd (fst r)) = true /\
  points_to_copy_b (List.length toy_nested_registered) (fst (fst r)) (snd (fst r)) = true.
Proof. vm_compute. repeat split; reflexivity. Qed.

(* a gene named by a rule but missing from model.genes (model.genes.remove(g), bypassing the model API): Model.copy
   re-creates the gene, the copy has one gene more than the original: ok = true but not equivalent *)
Definition toy_gene_unregistered : heap := upd toy 3 (mkCell KDictList []).

Example model_copy_unregistered_gene :
  let r := model_copy table_v1 toy_gene_unregistered 0 in
  wf_model_heap table_v1 toy_gene_unregistered 0 = true /\ wf_model_content table_v1 toy_gene_unregistered 0 = false /\
  snd r = true /\ equiv_b OpModelCopy toy_gene_unregistered 0 (fst (fst r)) (snd (fst r)) = false.
Proof. vm_compute. repeat split; reflexivity. Qed.
