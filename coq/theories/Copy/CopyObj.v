(* C12 — the generic attribute loop of Model.copy on ONE object, described functionally:
      new_x = x.__class__()
      for attr, value in x.__dict__.items():
          if attr not in do_not_copy_by_ref: new_x.__dict__[attr] = deepcopy(value)
   The new cell has the class and exactly the attribute names of the old one (same order); every attribute that is
   not excluded holds an isomorphic fresh copy of the old value (`DIso`), every excluded attribute holds what the
   constructor puts there (None, or a fresh EMPTY container, which is a structure cell). *)
From Coq Require Import List String Bool Arith Lia.
From Cobra.Copy Require Import Heap Model Obs Lemmas Proofs CopyHeapFacts CopyData CopyState.
Import ListNotations.
Open Scope string_scope.
Open Scope list_scope.

Definition kind_of_akind (k : akind) : kind :=
  match k with ADict => KDict | ASet => KSet | AList => KList | ADictList => KDictList | _ => KOpaque end.

Section Obj.
  Variable T : copytable.
  Variable h0 : heap.
  Notation n := (List.length h0).

  (* what the constructor left in an excluded attribute: None, or a fresh empty container listed in W *)
  Definition DefVal (k : akind) (h : heap) (lo : nat) (W : list addr) (v : value) : Prop :=
    match k with
    | AAtom | ALink => v = None_
    | AGpr => True
    | _ => exists d, v = Ref d /\ lo <= d /\ In d W /\ get h d = Some (mkCell (kind_of_akind k) [])
    end.

  (* the old object: attribute names as keys, no name twice; values that are copied are atoms or plain data
     copied by deepcopy *)
  Record ObjOk (kt : ktable) (oc : cell) : Prop := mkObjOk {
    ok_names : forall kv, In kv (citems oc) -> exists s, fst kv = At s;
    ok_nodup : NoDup (keys_of (citems oc));
    ok_data : forall s v, In (At s, v) (citems oc) -> mems s (kt_excluded kt) = false ->
                          Data h0 v /\ (is_atom v = true \/ mode_of kt s = Deep)
  }.

  Lemma copy_value_desc : forall md h W v h1 v',
      St n h0 h W -> Data h0 v -> (is_atom v = true \/ md = Deep) -> copy_value T md h v = (h1, v') ->
      St n h0 h1 W /\ Tr [] h W h1 W /\ DIso h0 v (PD n W (List.length h1)) h1 v'.
  Proof.
    intros md h W v h1 v' HS Dv Hmd Hrun.
    assert (is_atom v = true -> md <> Deep -> h1 = h /\ v' = v) as Hatom.
    { intros Ha Hne. destruct v as [s|a]; [|discriminate]. destruct md; [| |congruence]; cbn in Hrun; inv Hrun; auto. }
    destruct md.
    - destruct Hmd as [Ha|Hd]; [|discriminate]. destruct (Hatom Ha ltac:(discriminate)) as [-> ->].
      split; auto. split; [apply tr_refl|]. destruct v as [s|a]; [apply diso_atom|discriminate].
    - destruct Hmd as [Ha|Hd]; [|discriminate]. destruct (Hatom Ha ltac:(discriminate)) as [-> ->].
      split; auto. split; [apply tr_refl|]. destruct v as [s|a]; [apply diso_atom|discriminate].
    - cbn [copy_value] in Hrun. exact (st_deep_copy n h0 T h W v h1 v' eq_refl HS Dv Hrun).
  Qed.

  Lemma default_value_desc : forall k h W h1 d,
      St n h0 h W -> default_value h k = (h1, d) ->
      exists W1, St n h0 h1 W1 /\ Tr [] h W h1 W1 /\ DefVal k h1 (List.length h) W1 d /\
                 (forall w, In w W1 -> In w W \/ List.length h <= w).
  Proof.
    intros k h W h1 d HS Hrun.
    assert (forall K, new_cell h K = (h1, d) ->
                      exists W1, St n h0 h1 W1 /\ Tr [] h W h1 W1 /\
                                 (exists x, d = Ref x /\ List.length h <= x /\ In x W1 /\ get h1 x = Some (mkCell K [])) /\
                                 (forall w, In w W1 -> In w W \/ List.length h <= w)) as Hnew.
    { intros K HK. unfold new_cell, alloc in HK. inv HK. destruct (st_alloc n h0 h W (mkCell K []) HS) as [H1 H2].
      exists (List.length h :: W). split; auto. split; auto. split.
      - exists (List.length h). split; auto. split; auto. split; [left; reflexivity|apply get_alloc_new].
      - intros w [<-|Hw]; auto. }
    destruct k; cbn [default_value] in Hrun;
      try (destruct (Hnew _ Hrun) as [W1 [H1 [H2 [H3 H4]]]]; exists W1; split; auto; split; auto; split; auto; exact H3).
    - inv Hrun. exists W. split; auto. split; [apply tr_refl|]. split; [reflexivity|auto].
    - inv Hrun. exists W. split; auto. split; [apply tr_refl|]. split; [reflexivity|auto].
    - unfold new_gpr, alloc in Hrun. inv Hrun.
      destruct (st_alloc n h0 h W (mkCell KSet []) HS) as [H1 H2].
      destruct (st_alloc n h0 _ _ (mkCell KGpr [(At "_genes", Ref (List.length h)); (At "body", None_)]) H1) as [H3 H4].
      eexists. split; [exact H3|]. split; [|split; [exact I|]].
      + pose proof (tr_trans _ _ _ _ _ _ _ _ H2 H4) as H5. exact H5.
      + intros w [<-|[<-|Hw]]; auto; right; rewrite ?app_length; cbn; lia.
  Qed.

  Lemma tr_fresh_fp : forall FP h W h2 W2, Tr FP h W h2 W2 -> (forall x, In x FP -> List.length h <= x) -> Tr [] h W h2 W2.
  Proof.
    intros FP h W h2 W2 [L A N S] Hfp. split; auto. intros x Hx _. apply S; auto. intro Hin. apply Hfp in Hin. lia.
  Qed.

  (* the invariant of the attribute loop *)
  Definition AttrsDone (kt : ktable) (attrs : list (string * akind)) (a1 : addr) (c' : cell) (h : heap) (W : list addr)
             (done : list (value * value)) : Prop :=
    forall s v, In (At s, v) done ->
                if mems s (kt_excluded kt)
                then exists d, attr c' s = Some d /\ DefVal (akind_of attrs s) h (S a1) W d
                else exists v', attr c' s = Some v' /\ DIso h0 v (PD n W (List.length h)) h v'.

  Lemma defval_tr : forall k h W h2 W2 lo d FP,
      DefVal k h lo W d -> Tr FP h W h2 W2 -> (forall x, In x FP -> x < lo) -> (forall x, In x W -> x < List.length h) ->
      DefVal k h2 lo W2 d.
  Proof.
    intros k h W h2 W2 lo d FP HD [L A N S] Hfp HW.
    destruct k; cbn in *; auto; destruct HD as [x [-> [Hlo [Hin Hg]]]]; exists x; repeat split; auto;
      rewrite S; auto; intro Hx; apply Hfp in Hx; lia.
  Qed.

  Lemma attrs_done_tr : forall kt attrs a1 c' h W done h2 W2,
      AttrsDone kt attrs a1 c' h W done -> St n h0 h W -> Tr [a1] h W h2 W2 -> In a1 W ->
      AttrsDone kt attrs a1 c' h2 W2 done.
  Proof.
    intros kt attrs a1 c' h W done h2 W2 HA HS HT Ha s v Hin. specialize (HA s v Hin).
    destruct (mems s (kt_excluded kt)).
    - destruct HA as [d [H1 H2]]. exists d. split; auto. eapply defval_tr; eauto.
      + intros x [<-|[]]. lia.
      + intros x Hx. apply (st_W _ _ _ _ HS) in Hx. lia.
    - destruct HA as [v' [H1 H2]]. exists v'. split; auto. eapply diso_tr; eauto.
      intros x [<-|[]]. exact Ha.
  Qed.

  Lemma attr_set_item_other : forall c s t v, s <> t ->
    attr (mkCell (ckind c) (set_item (At s) v (citems c))) t = attr c t.
  Proof. intros c s t v Hne. unfold attr. cbn. apply lookup_set_item_ne. congruence. Qed.

  Lemma attr_set_item_same : forall c s v, attr (mkCell (ckind c) (set_item (At s) v (citems c))) s = Some v.
  Proof. intros. unfold attr. cbn. apply lookup_set_item_eq. Qed.

  Lemma attrs_done_set : forall kt attrs a1 c' h W done s v,
      AttrsDone kt attrs a1 c' h W done -> ~ In (At s) (keys_of done) ->
      AttrsDone kt attrs a1 (mkCell (ckind c') (set_item (At s) v (citems c'))) h W done.
  Proof.
    intros kt attrs a1 c' h W done s v HA Hs t u Hin. specialize (HA t u Hin).
    assert (s <> t) as Hne.
    { intro; subst t. apply Hs. unfold keys_of. apply in_map_iff. exists (At s, u). auto. }
    rewrite (attr_set_item_other c' s t v Hne). exact HA.
  Qed.

  Lemma copy_attr_desc : forall kt attrs a1 K h W done s v,
      St n h0 h W -> In a1 W ->
      (exists c', get h a1 = Some c' /\ ckind c' = K /\ keys_of (citems c') = keys_of done /\
                  AttrsDone kt attrs a1 c' h W done) ->
      ~ In (At s) (keys_of done) ->
      (mems s (kt_excluded kt) = false -> Data h0 v /\ (is_atom v = true \/ mode_of kt s = Deep)) ->
      exists W2, let h2 := copy_attr T kt attrs a1 h (At s, v) in
                 St n h0 h2 W2 /\ Tr [a1] h W h2 W2 /\
                 (exists c', get h2 a1 = Some c' /\ ckind c' = K /\ keys_of (citems c') = keys_of (done ++ [(At s, v)]) /\
                             AttrsDone kt attrs a1 c' h2 W2 (done ++ [(At s, v)])).
  Proof.
    intros kt attrs a1 K h W done s v HS Ha [c' [Hg [Hk [Hkeys HA]]]] Hnew Hdata.
    unfold copy_attr. cbn [fst snd].
    assert (~ In (At s) (keys_of (citems c'))) as Hnew' by (rewrite Hkeys; exact Hnew).
    destruct (mems s (kt_excluded kt)) eqn:Hex.
    - destruct (default_value h (akind_of attrs s)) as [h1 d] eqn:E.
      destruct (default_value_desc _ _ _ _ _ HS E) as [W1 [HS1 [HT1 [HD HWn]]]].
      assert (In a1 W1) as Ha1 by (apply (tr_W _ _ _ _ _ HT1); exact Ha).
      destruct (st_set_attr n h0 h1 W1 a1 s d HS1 Ha1) as [HS2 HT2].
      exists W1. cbv zeta. split; auto. split.
      { pose proof (tr_trans _ _ _ _ _ _ _ _ HT1 HT2) as H. exact H. }
      pose proof (st_W _ _ _ _ HS _ Ha) as Ha_lt.
      assert (get h1 a1 = Some c') as Hg1 by (rewrite (tr_same _ _ _ _ _ HT1); auto; lia).
      exists (mkCell (ckind c') (set_item (At s) d (citems c'))). split; [|split; [exact Hk|split]].
      + unfold set_attr. apply get_put_eq. exact Hg1.
      + cbn [citems]. rewrite keys_set_item_new by auto. rewrite Hkeys. unfold keys_of. rewrite map_app. reflexivity.
      + intros t u Hin. apply in_app_or in Hin as [Hin|[Hin|[]]].
        * assert (AttrsDone kt attrs a1 c' h1 W1 done) as HA1.
          { eapply attrs_done_tr; eauto. eapply tr_weaken; [exact HT1|]. intros x []. }
          assert (AttrsDone kt attrs a1 c' (set_attr h1 a1 s d) W1 done) as HA2.
          { eapply attrs_done_tr; eauto. }
          apply (attrs_done_set _ _ _ _ _ _ _ s d HA2 Hnew). exact Hin.
        * inv Hin. rewrite Hex. exists d. split; [apply attr_set_item_same|].
          eapply defval_tr; [| exact HT2| |].
          -- destruct (akind_of attrs t); cbn in *; auto; destruct HD as [x [-> [Hlo [Hin Hgx]]]]; exists x; repeat split; auto; lia.
          -- intros x [<-|[]]. lia.
          -- intros x Hx. apply (st_W _ _ _ _ HS1) in Hx. lia.
    - destruct (Hdata eq_refl) as [Dv Hmd].
      destruct (copy_value T (mode_of kt s) h v) as [h1 v'] eqn:E.
      destruct (copy_value_desc _ _ _ _ _ _ HS Dv Hmd E) as [HS1 [HT1 HI]].
      destruct (st_set_attr n h0 h1 W a1 s v' HS1 Ha) as [HS2 HT2].
      exists W. cbv zeta. split; auto. split.
      { pose proof (tr_trans _ _ _ _ _ _ _ _ HT1 HT2) as H. exact H. }
      pose proof (st_W _ _ _ _ HS _ Ha) as Ha_lt.
      assert (get h1 a1 = Some c') as Hg1 by (rewrite (tr_same _ _ _ _ _ HT1); auto; lia).
      exists (mkCell (ckind c') (set_item (At s) v' (citems c'))). split; [|split; [exact Hk|split]].
      + unfold set_attr. apply get_put_eq. exact Hg1.
      + cbn [citems]. rewrite keys_set_item_new by auto. rewrite Hkeys. unfold keys_of. rewrite map_app. reflexivity.
      + intros t u Hin. apply in_app_or in Hin as [Hin|[Hin|[]]].
        * assert (AttrsDone kt attrs a1 c' h1 W done) as HA1.
          { eapply attrs_done_tr; eauto. eapply tr_weaken; [exact HT1|]. intros x []. }
          assert (AttrsDone kt attrs a1 c' (set_attr h1 a1 s v') W done) as HA2.
          { eapply attrs_done_tr; eauto. }
          apply (attrs_done_set _ _ _ _ _ _ _ s v' HA2 Hnew). exact Hin.
        * inv Hin. rewrite Hex. exists v'. split; [apply attr_set_item_same|].
          eapply diso_tr; [exact HS1|exact HT2| |exact HI]. intros x [<-|[]]. exact Ha.
  Qed.

  Lemma copy_attrs_desc : forall kt attrs a1 K l done h W,
      St n h0 h W -> In a1 W ->
      (exists c', get h a1 = Some c' /\ ckind c' = K /\ keys_of (citems c') = keys_of done /\
                  AttrsDone kt attrs a1 c' h W done) ->
      NoDup (keys_of (done ++ l)) -> (forall kv, In kv l -> exists s, fst kv = At s) ->
      (forall s v, In (At s, v) l -> mems s (kt_excluded kt) = false ->
                   Data h0 v /\ (is_atom v = true \/ mode_of kt s = Deep)) ->
      exists W2, let h2 := fold_left (copy_attr T kt attrs a1) l h in
                 St n h0 h2 W2 /\ Tr [a1] h W h2 W2 /\
                 (exists c', get h2 a1 = Some c' /\ ckind c' = K /\ keys_of (citems c') = keys_of (done ++ l) /\
                             AttrsDone kt attrs a1 c' h2 W2 (done ++ l)).
  Proof.
    intros kt attrs a1 K l. induction l as [|[k v] r IH]; intros done h W HS Ha Hc Hnd Hnames Hdata.
    - exists W. cbn [fold_left]. rewrite app_nil_r. split; auto. split; auto.
      eapply tr_weaken; [apply tr_refl|]. intros x [].
    - destruct (Hnames (k, v) (or_introl eq_refl)) as [s Hs]. cbn in Hs. subst k.
      assert (~ In (At s) (keys_of done)) as Hnew.
      { unfold keys_of in Hnd. rewrite map_app in Hnd. cbn in Hnd. apply NoDup_remove_2 in Hnd.
        intro Hin. apply Hnd. apply in_or_app. left. exact Hin. }
      destruct (copy_attr_desc kt attrs a1 K h W done s v HS Ha Hc Hnew
                  (fun Hex => Hdata s v (or_introl eq_refl) Hex)) as [W1 [HS1 [HT1 Hc1]]].
      cbv zeta in HS1, HT1, Hc1.
      assert (In a1 W1) as Ha1 by (apply (tr_W _ _ _ _ _ HT1); exact Ha).
      replace (done ++ (At s, v) :: r) with ((done ++ [(At s, v)]) ++ r) in * by (rewrite <- app_assoc; reflexivity).
      destruct (IH (done ++ [(At s, v)]) _ W1 HS1 Ha1 Hc1 Hnd
                   (fun kv Hkv => Hnames kv (or_intror Hkv))
                   (fun t u Hin Hex => Hdata t u (or_intror Hin) Hex)) as [W2 [HS2 [HT2 Hc2]]].
      exists W2. cbn [fold_left]. cbv zeta in *. split; auto. split; auto.
      pose proof (tr_trans _ _ _ _ _ _ _ _ HT1 HT2) as H. eapply tr_weaken; [exact H|].
      intros x Hx. apply in_app_or in Hx as [Hx|Hx]; exact Hx.
  Qed.

  Theorem copy_obj_desc : forall kt attrs h W oc h1 a1,
      St n h0 h W -> ObjOk kt oc -> copy_obj T kt attrs h oc = (h1, a1) ->
      a1 = List.length h /\
      exists W1, St n h0 h1 W1 /\ Tr [] h W h1 W1 /\ In a1 W1 /\
                 exists c', get h1 a1 = Some c' /\ ckind c' = ckind oc /\
                            keys_of (citems c') = keys_of (citems oc) /\
                            AttrsDone kt attrs a1 c' h1 W1 (citems oc).
  Proof.
    intros kt attrs h W oc h1 a1 HS [Hnames Hnd Hdata] Hrun. unfold copy_obj in Hrun. inv Hrun. split; [reflexivity|].
    destruct (st_alloc n h0 h W (mkCell (ckind oc) []) HS) as [HS1 HT1].
    assert (In (List.length h) (List.length h :: W)) as Ha by (left; reflexivity).
    assert (exists c', get (h ++ [mkCell (ckind oc) []]) (List.length h) = Some c' /\ ckind c' = ckind oc /\
                       keys_of (citems c') = keys_of [] /\
                       AttrsDone kt attrs (List.length h) c' (h ++ [mkCell (ckind oc) []]) (List.length h :: W) []) as Hc.
    { exists (mkCell (ckind oc) []). split; [apply get_alloc_new|]. split; auto. split; auto. intros s v []. }
    destruct (copy_attrs_desc kt attrs (List.length h) (ckind oc) (citems oc) [] _ _ HS1 Ha Hc Hnd Hnames Hdata)
      as [W2 [HS2 [HT2 Hc2]]].
    cbv zeta in *. cbn [app] in Hc2. exists W2. split; auto. split; [|split; [apply (tr_W _ _ _ _ _ HT2); exact Ha|exact Hc2]].
    pose proof (tr_trans _ _ _ _ _ _ _ _ HT1 HT2) as H. eapply tr_fresh_fp; [exact H|].
    intros x [<-|[]]. lia.
  Qed.
End Obj.
