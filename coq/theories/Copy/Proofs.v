(* C12 — proofs about the copy operations of Model.v: everything they create is fresh and points only at
   fresh cells (Ext), hence separation; the operand is untouched; soundness of the boolean certificate. *)
From Coq Require Import List String Bool Arith Lia.
From Cobra.Copy Require Import Heap Model Obs Lemmas.
Import ListNotations.
Open Scope list_scope.

Ltac inv H := inversion H; subst; clear H.

(* ------------------------------------------------------------------ allocation helpers *)
Lemma new_cell_ext : forall n h0 h k h' v, Ext n h0 h -> new_cell h k = (h', v) -> Ext n h0 h' /\ val_ok n v.
Proof.
  unfold new_cell, alloc. intros n h0 h k h' v HE H. inv H. split.
  - apply ext_alloc; auto. constructor.
  - cbn. eapply ext_le; eauto.
Qed.

Lemma new_gpr_ext : forall n h0 h names body h' v,
    Ext n h0 h -> Forall (item_ok n) names -> val_ok n body -> new_gpr h names body = (h', v) ->
    Ext n h0 h' /\ val_ok n v.
Proof.
  unfold new_gpr, alloc. intros n h0 h names body h' v HE Hn Hb H. inv H.
  pose proof (ext_le _ _ _ HE) as Hle.
  assert (Ext n h0 (h ++ [mkCell KSet names])) as H1 by (apply ext_alloc; auto).
  split.
  - apply ext_alloc; auto. repeat constructor; cbn; auto.
  - cbn. rewrite app_length. cbn. lia.
Qed.

Lemma atom_pairs_ok : forall n l, Forall (item_ok n) (atom_pairs l).
Proof.
  intros n l. unfold atom_pairs. apply Forall_forall. intros x Hx. apply in_map_iff in Hx as [kv [<- Hkv]].
  apply filter_In in Hkv as [_ Hat]. split; cbn; auto. destruct (fst kv); cbn in *; auto; discriminate.
Qed.

Lemma gpr_rebuild_ext : forall n h0 h v h' v',
    Ext n h0 h -> gpr_rebuild h v = (h', v') -> Ext n h0 h' /\ val_ok n v'.
Proof.
  intros n h0 h v h' v' HE H. unfold gpr_rebuild in H. destruct v as [s|g].
  - inv H. split; auto.
  - destruct (get h g) as [gc|]; [|inv H; split; auto; exact I].
    eapply new_gpr_ext; [exact HE| | |exact H].
    + destruct (attr gc "_genes") as [[s|a]|]; try constructor.
      destruct (get h a); [apply atom_pairs_ok|constructor].
    + destruct (attr gc "body") as [[s|a]|]; exact I.
Qed.

Lemma default_value_ext : forall n h0 h k h' v, Ext n h0 h -> default_value h k = (h', v) -> Ext n h0 h' /\ val_ok n v.
Proof.
  intros n h0 h k h' v HE H. destruct k; unfold default_value in H;
    first [ eapply new_cell_ext; eassumption
          | eapply (new_gpr_ext n h0 h [] None_); [eassumption|constructor|exact I|eassumption]
          | inv H; split; auto; try exact I ].
Qed.

Lemma ext_push : forall n h0 h a k v, Ext n h0 h -> n <= a -> val_ok n k -> val_ok n v -> Ext n h0 (push h a k v).
Proof.
  intros n h0 h a k v HE Ha Hk Hv. unfold push. destruct (get h a) as [c|] eqn:Hg; auto.
  apply ext_upd; auto. unfold cell_ok; cbn. apply Forall_app. split.
  - eapply (ext_new _ _ _ HE); eauto.
  - constructor; [split; auto|constructor].
Qed.

(* ------------------------------------------------------------------ reading containers of new cells *)
Lemma dict_keys_ok : forall n h0 h ov x, Ext n h0 h -> (forall v, ov = Some v -> val_ok n v) ->
  In x (dict_keys h ov) -> val_ok n x.
Proof.
  intros n h0 h ov x HE Hov Hin. unfold dict_keys in Hin. destruct ov as [[s|d]|]; try contradiction.
  destruct (get h d) as [c|] eqn:Hg; [|contradiction].
  eapply cell_keys_ok; [|exact Hin]. eapply (ext_new _ _ _ HE); [|exact Hg]. apply (Hov (Ref d)). auto.
Qed.

Lemma list_elems_ok : forall n h0 h ov x, Ext n h0 h -> (forall v, ov = Some v -> val_ok n v) ->
  In x (list_elems h ov) -> val_ok n x.
Proof.
  intros n h0 h ov x HE Hov Hin. unfold list_elems in Hin. destruct ov as [[s|d]|]; try contradiction.
  destruct (get h d) as [c|] eqn:Hg; [|contradiction].
  eapply cell_elems_ok; [|exact Hin]. eapply (ext_new _ _ _ HE); [|exact Hg]. apply (Hov (Ref d)). auto.
Qed.

(* ------------------------------------------------------------------ __setstate__ hooks *)
Lemma relink_ext : forall n h0 h self mdl x,
    Ext n h0 h -> n <= self -> val_ok n mdl -> val_ok n x -> Ext n h0 (relink self mdl h x).
Proof.
  intros n h0 h self mdl x HE Hs Hm Hx. unfold relink. destruct x as [s|xa]; auto. cbn in Hx.
  assert (Ext n h0 (set_attr h xa "_model" mdl)) as H1 by (apply ext_set_attr; auto).
  destruct (attr_at (set_attr h xa "_model" mdl) xa "_reaction") as [[s|sa]|] eqn:Ha; auto.
  apply ext_set_add; auto. apply (ext_attr_ok _ _ _ _ _ _ H1 Hx Ha).
Qed.

Lemma repoint_ext : forall n h0 h self x, Ext n h0 h -> n <= self -> val_ok n x -> Ext n h0 (repoint self h x).
Proof. intros n h0 h self [s|xa] HE Hs Hx; cbn; auto. apply ext_set_attr; auto. Qed.

Lemma setstate_ext : forall T n h0 h a, Ext n h0 h -> n <= a -> Ext n h0 (setstate T h a).
Proof.
  intros T n h0 h a HE Ha. unfold setstate. destruct (get h a) as [c|] eqn:Hg; auto.
  assert (cell_ok n c) as Hc by (eapply (ext_new _ _ _ HE); eauto).
  destruct (ckind c); auto.
  - (* model *)
    apply fold_left_inv; auto. intros h1 y _ H1. apply fold_left_inv; auto.
    intros h2 x Hx H2. apply repoint_ext; auto.
    eapply list_elems_ok; [exact H1| |exact Hx]. intros v Hv. eapply cell_attr_ok; eauto.
  - (* reaction *)
    assert (val_ok n match attr c "_model" with Some v => v | None => None_ end) as Hm.
    { destruct (attr c "_model") eqn:E; [eapply cell_attr_ok; eauto|exact I]. }
    apply fold_left_inv.
    + intros h1 x Hx H1. apply relink_ext; auto.
      eapply dict_keys_ok; [exact HE| |exact Hx]. intros v Hv. eapply cell_attr_ok; eauto.
    + apply fold_left_inv; auto. intros h1 x Hx H1. apply relink_ext; auto.
      eapply dict_keys_ok; [exact HE| |exact Hx]. intros v Hv. eapply cell_attr_ok; eauto.
Qed.

(* ------------------------------------------------------------------ deepcopy *)
Definition memo_ok (n : nat) (m : memo) : Prop := Forall (fun p => n <= snd p) m.

Lemma mfind_ok : forall n m a a', memo_ok n m -> mfind a m = Some a' -> n <= a'.
Proof.
  intros n m a a' H. induction m as [|[k v] r IH]; cbn; intros Hf; [discriminate|].
  inv H. destruct (Nat.eqb a k); [inv Hf; auto|auto].
Qed.

Definition rec_ok (n : nat) (h0 : heap) (rec : heap -> memo -> value -> heap * memo * value) : Prop :=
  forall h m v h' m' v', Ext n h0 h -> memo_ok n m -> rec h m v = (h', m', v') ->
                         Ext n h0 h' /\ memo_ok n m' /\ val_ok n v'.

Lemma dc_items_ext : forall n h0 rec a' l h m h' m',
    rec_ok n h0 rec -> n <= a' -> Ext n h0 h -> memo_ok n m ->
    dc_items rec a' h m l = (h', m') -> Ext n h0 h' /\ memo_ok n m'.
Proof.
  intros n h0 rec a' l. induction l as [|[k sv] r IH]; intros h m h' m' Hrec Ha HE Hm H; cbn [dc_items] in H.
  - inv H. auto.
  - destruct (rec h m k) as [[h2 m2] k'] eqn:E1.
    destruct (Hrec _ _ _ _ _ _ HE Hm E1) as [HE2 [Hm2 Hk']].
    destruct sv as [v0| | |v0].
    + destruct (rec h2 m2 v0) as [[h3 m3] v'] eqn:E2.
      destruct (Hrec _ _ _ _ _ _ HE2 Hm2 E2) as [HE3 [Hm3 Hv']].
      eapply IH; [| | |exact Hm3|exact H]; auto. apply ext_push; auto.
    + destruct (new_cell h2 KSet) as [hh s] eqn:E2. destruct (new_cell_ext _ _ _ _ _ _ HE2 E2) as [HE3 Hs].
      eapply IH; [| | |exact Hm2|exact H]; auto. apply ext_push; auto.
    + destruct (new_cell h2 KList) as [hh s] eqn:E2. destruct (new_cell_ext _ _ _ _ _ _ HE2 E2) as [HE3 Hs].
      eapply IH; [| | |exact Hm2|exact H]; auto. apply ext_push; auto.
    + destruct (gpr_rebuild h2 v0) as [hh g] eqn:E2. destruct (gpr_rebuild_ext _ _ _ _ _ _ HE2 E2) as [HE3 Hs].
      eapply IH; [| | |exact Hm2|exact H]; auto. apply ext_push; auto.
Qed.

Lemma dc_ext : forall T n h0 fuel, rec_ok n h0 (dc T fuel).
Proof.
  intros T n h0 fuel. induction fuel as [|f IH]; intros h m v h' m' v' HE Hm H; cbn [dc] in H.
  - inv H. split; [|split]; auto.
  - destruct v as [s|a]; [inv H; split; [|split]; auto|].
    destruct (mfind a m) as [a'|] eqn:Ef.
    + inv H. split; [|split]; auto. cbn. eapply mfind_ok; eauto.
    + destruct (get h a) as [c|] eqn:Hg; [|inv H; split; [|split]; auto; exact I].
      pose proof (ext_le _ _ _ HE) as Hle.
      destruct (dc_items (dc T f) (List.length h) (h ++ [mkCell (ckind c) []]) ((a, List.length h) :: m) (getstate c))
        as [h2 m2] eqn:E.
      inv H.
      assert (cell_ok n (mkCell (ckind c) [])) as Hnil by constructor.
      assert (memo_ok n ((a, List.length h) :: m)) as Hm1 by (constructor; auto).
      destruct (dc_items_ext n h0 (dc T f) (List.length h) (getstate c) _ _ _ _ IH Hle
                  (ext_alloc _ _ _ _ HE Hnil) Hm1 E) as [HE2 Hm2].
      split; [|split]; auto. apply setstate_ext; auto.
Qed.

Lemma deep_copy_ext : forall T h v h' v',
    deep_copy T h v = (h', v') -> Ext (List.length h) h h' /\ val_ok (List.length h) v'.
Proof.
  intros T h v h' v' H. unfold deep_copy in H.
  destruct (dc T (2 + List.length h) h [] v) as [[h1 m1] v1] eqn:E. inv H.
  destruct (dc_ext T (List.length h) h _ _ _ _ _ _ _ (ext_refl h) (Forall_nil _) E) as [H1 [_ H3]]. auto.
Qed.

(* used inside larger operations: a deep copy keeps a surrounding invariant *)
Lemma deep_copy_keeps : forall T n h0 h v h' v',
    Ext n h0 h -> deep_copy T h v = (h', v') -> Ext n h0 h' /\ val_ok n v'.
Proof.
  intros T n h0 h v h' v' HE H. destruct (deep_copy_ext _ _ _ _ _ H) as [H1 H2]. split.
  - eapply ext_trans; eauto.
  - eapply val_ok_mono; [|exact H2]. eapply ext_le; eauto.
Qed.

(* ------------------------------------------------------------------ deepcopy / pickle of a model; Species.copy *)
Theorem model_deepcopy_fresh : forall T h m h' m' ok,
    model_deepcopy T h m = (h', m', ok) -> Ext (List.length h) h h' /\ (ok = true -> List.length h <= m').
Proof.
  intros T h m h' m' ok H. unfold model_deepcopy in H.
  destruct (deep_copy T h (Ref m)) as [h1 [s|x]] eqn:E; inv H; destruct (deep_copy_ext _ _ _ _ _ E) as [H1 H2]; split; auto.
  discriminate.
Qed.

Theorem model_deepcopy_separated : forall T h m h' m',
    heap_wf h -> m < List.length h -> model_deepcopy T h m = (h', m', true) ->
    Separated h' m m' /\ firstn (List.length h) h' = h.
Proof.
  intros T h m h' m' Hwf Hm H. destruct (model_deepcopy_fresh _ _ _ _ _ _ H) as [HE Hm']. split.
  - eapply ext_separated; eauto.
  - apply (ext_prefix _ _ _ HE).
Qed.

Theorem species_copy_fresh : forall T h x h' x' ok,
    species_copy T h x = (h', x', ok) -> Ext (List.length h) h h' /\ (ok = true -> List.length h <= x').
Proof. exact model_deepcopy_fresh. Qed.

(* ------------------------------------------------------------------ soundness of the boolean certificate *)
Lemma items_eqb_eq : forall a b, items_eqb a b = true -> a = b.
Proof.
  induction a as [|[k v] r IH]; intros [|[k' v'] r'] H; cbn in H; try discriminate; auto.
  apply andb_prop in H as [H H3]. apply andb_prop in H as [H1 H2].
  apply value_eqb_eq in H1. apply value_eqb_eq in H2. subst. f_equal. apply IH. exact H3.
Qed.

Lemma kind_eqb_eq : forall a b, kind_eqb a b = true -> a = b.
Proof. intros a b H. apply Nat.eqb_eq in H. destruct a, b; cbn in H; congruence. Qed.

Lemma cell_eqb_eq : forall a b, cell_eqb a b = true -> a = b.
Proof.
  intros [k l] [k' l'] H. unfold cell_eqb in H. cbn in H. apply andb_prop in H as [H1 H2].
  apply kind_eqb_eq in H1. apply items_eqb_eq in H2. congruence.
Qed.

Lemma heap_eqb_eq : forall a b, heap_eqb a b = true -> a = b.
Proof.
  induction a as [|x r IH]; intros [|y s] H; cbn in H; try discriminate; auto.
  apply andb_prop in H as [H1 H2]. apply cell_eqb_eq in H1. f_equal; auto.
Qed.

Lemma heap_wf_b_sound : forall h, heap_wf_b h = true -> heap_wf h.
Proof.
  intros h H a c b Hg Hin. unfold heap_wf_b in H. rewrite forallb_forall in H.
  assert (In c h) as Hc by (eapply nth_error_In; exact Hg).
  specialize (H c Hc). rewrite forallb_forall in H. specialize (H b Hin). apply Nat.ltb_lt in H. exact H.
Qed.

Lemma nth_error_skipn' : forall {A} n (l : list A) k, nth_error (skipn n l) k = nth_error l (n + k).
Proof.
  intros A n. induction n as [|n IH]; intros l k; cbn; auto.
  destruct l; cbn; auto. destruct k; reflexivity.
Qed.

Lemma fresh_closed_b_sound : forall n hp a c, fresh_closed_b n hp = true -> n <= a -> get hp a = Some c -> cell_ok n c.
Proof.
  intros n hp a c H Ha Hg. unfold fresh_closed_b in H. rewrite forallb_forall in H.
  assert (In c (skipn n hp)) as Hc.
  { unfold get in Hg. replace a with (n + (a - n)) in Hg by lia. rewrite <- nth_error_skipn' in Hg.
    eapply nth_error_In; eauto. }
  specialize (H c Hc). rewrite forallb_forall in H. apply crefs_cell_ok. intros b Hb.
  specialize (H b Hb). apply Nat.leb_le in H. exact H.
Qed.

Theorem sep_cert_sound : forall h0 hp a b,
    sep_cert_b h0 hp = true -> a < List.length h0 -> List.length h0 <= b -> Separated hp a b.
Proof.
  intros h0 hp a b H Ha Hb. unfold sep_cert_b in H.
  apply andb_prop in H as [H H3]. apply andb_prop in H as [H1 H2].
  eapply ext_separated; [| |exact Ha|exact Hb].
  - split; auto.
    + apply heap_eqb_eq. exact H2.
    + intros x c Hx Hg. eapply fresh_closed_b_sound; eauto.
  - apply heap_wf_b_sound. exact H1.
Qed.

(* ------------------------------------------------------------------ frame with separation *)
(* a write into the part of the heap reachable from b, storing only things reachable from b, keeps a and b
   separated and leaves everything readable from a unchanged *)
Lemma reach_after_local_write : forall h b x c z,
    Reach h b x -> (forall y, In y (crefs c) -> Reach h b y) -> Reach (upd h x c) b z -> Reach h b z.
Proof.
  intros h b x c z Hx Hc Hr.
  assert (forall w, Reach h b w -> Reach (upd h x c) w z -> Reach h b z) as Hgen.
  { clear Hr. intros w Hw Hwz. induction Hwz as [w|w y z [cl [Hg Hin]] Hyz IH]; auto.
    apply IH. destruct (Nat.eq_dec w x) as [->|Hne].
    - destruct (Nat.lt_ge_cases x (List.length h)) as [Hlt|Hge].
      + rewrite get_upd_eq in Hg by auto. inv Hg. auto.
      + apply get_lt in Hg. rewrite upd_length in Hg. lia.
    - rewrite get_upd_ne in Hg by auto. eapply reach_trans; [exact Hw|]. apply reach_edge. exists cl. auto. }
  apply (Hgen b); auto. constructor.
Qed.

Theorem frame_separated : forall h a b x c fuel,
    Separated h a b -> Reach h b x -> (forall y, In y (crefs c) -> Reach h b y) ->
    unfold (upd h x c) fuel (Ref a) = unfold h fuel (Ref a) /\ Separated (upd h x c) a b.
Proof.
  intros h a b x c fuel Hs Hx Hc.
  assert (~ Reach h a x) as Hn by (intro Hax; exact (Hs x Hax Hx)).
  split; [apply frame_write; auto|].
  intros z Hza Hzb. apply (reach_frame h a x c z Hn) in Hza.
  apply (reach_after_local_write h b x c z Hx Hc) in Hzb. exact (Hs z Hza Hzb).
Qed.

Lemma separated_sym : forall h a b, Separated h a b -> Separated h b a.
Proof. intros h a b H x Hb Ha. exact (H x Ha Hb). Qed.

(* ------------------------------------------------------------------ Reaction.copy: the result is fresh *)
Lemma set_attr_length : forall h a s v, List.length (set_attr h a s v) = List.length h.
Proof. intros. unfold set_attr, put. destruct (get h a); auto. apply upd_length. Qed.

Lemma set_attr_get_ne : forall h a b s v, a <> b -> get (set_attr h a s v) b = get h b.
Proof. intros. unfold set_attr, put. destruct (get h a); auto. apply get_upd_ne; auto. Qed.

Definition val_lt (n : nat) (v : value) : Prop := match v with At _ => True | Ref a => a < n end.

Lemma fold_set_model_length : forall v l h, List.length (fold_left (set_model_of v) l h) = List.length h.
Proof.
  intros v l. induction l as [|x r IH]; intros h; cbn; auto. rewrite IH. destruct x; cbn; auto. apply set_attr_length.
Qed.

Lemma fold_set_model_get : forall n v l h b,
    (forall x, In x l -> val_lt n x) -> n <= b -> get (fold_left (set_model_of v) l h) b = get h b.
Proof.
  intros n v l. induction l as [|x r IH]; intros h b Hl Hb; cbn; auto.
  rewrite IH; auto; [|intros; apply Hl; cbn; auto].
  destruct x as [s|xa]; cbn; auto. apply set_attr_get_ne. specialize (Hl (Ref xa) (or_introl eq_refl)). cbn in Hl. lia.
Qed.

Lemma fold_set_model_get' : forall n (own : value -> value) l h b,
    (forall x, In x l -> val_lt n x) -> n <= b ->
    get (fold_left (fun hh x => set_model_of (own x) hh x) l h) b = get h b.
Proof.
  intros n own l. induction l as [|x r IH]; intros h b Hl Hb; cbn; auto.
  rewrite IH; auto; [|intros; apply Hl; cbn; auto].
  destruct x as [s|xa]; cbn; auto. apply set_attr_get_ne. specialize (Hl (Ref xa) (or_introl eq_refl)). cbn in Hl. lia.
Qed.

Lemma dict_keys_lt : forall h ov x, heap_wf h -> (forall d, ov = Some (Ref d) -> d < List.length h) ->
  (forall d c, ov = Some (Ref d) -> get h d = Some c -> forall y, In y (crefs c) -> y < List.length h) ->
  In x (dict_keys h ov) -> val_lt (List.length h) x.
Proof.
  intros h ov x Hwf Hd Hc Hin. unfold dict_keys in Hin. destruct ov as [[s|d]|]; try contradiction.
  destruct (get h d) as [c|] eqn:Hg; [|contradiction]. destruct x as [s|xa]; cbn; auto.
  eapply Hc; eauto. unfold keys in Hin. destruct (is_object (ckind c)); [contradiction|].
  apply in_map_iff in Hin as [kv [Hk Hkv]]. unfold crefs. apply in_flat_map. exists kv. split; auto.
  unfold irefs. rewrite Hk. cbn. auto.
Qed.

Theorem reaction_copy_fresh : forall T h r h' r',
    heap_wf h -> reaction_copy T h r = (h', r', true) ->
    List.length h <= r' /\
    (forall a c, List.length h <= a -> get h' a = Some c -> cell_ok (List.length h) c) /\
    (forall x, Reach h' r' x -> List.length h <= x).
Proof.
  intros T h r h' r' Hwf H. unfold reaction_copy in H. destruct (get h r) as [rc|] eqn:Hr; [|inv H].
  set (n := List.length h) in *.
  set (model := match attr rc "_model" with Some v => v | None => None_ end) in *.
  set (mets := dict_keys h (attr rc "_metabolites")) in *.
  set (gns := dict_keys h (attr rc "_genes")) in *.
  set (own := fun x : value => match x with
                          | Ref xa => match get h xa with
                                      | Some c => match attr c "_model" with Some v => v | None => None_ end
                                      | None => None_ end
                          | At _ => None_ end) in *.
  set (h3 := fold_left (set_model_of None_) gns (fold_left (set_model_of None_) mets (set_attr h r "_model" None_))) in *.
  destruct (deep_copy T h3 (Ref r)) as [h4 v] eqn:E.
  assert (List.length h3 = n) as Hl3.
  { unfold h3. rewrite !fold_set_model_length. apply set_attr_length. }
  destruct (deep_copy_ext _ _ _ _ _ E) as [HE Hv]. rewrite Hl3 in HE, Hv.
  destruct v as [s|x]; inv H. cbn in Hv.
  assert (forall l, (l = mets \/ l = gns) -> forall x, In x l -> val_lt n x) as Hlt.
  { intros l Hl x Hx.
    assert (forall nm x, In x (dict_keys h (attr rc nm)) -> val_lt n x) as Hk.
    { intros nm y Hy. unfold dict_keys in Hy. destruct (attr rc nm) as [[s|d]|] eqn:Ha; try contradiction.
      destruct (get h d) as [c|] eqn:Hg; [|contradiction]. destruct y as [s|ya]; cbn; auto.
      unfold keys in Hy. destruct (is_object (ckind c)); [contradiction|].
      apply in_map_iff in Hy as [kv [Hk Hkv]]. eapply (Hwf d c ya Hg).
      unfold crefs. apply in_flat_map. exists kv. split; auto. unfold irefs. rewrite Hk. cbn. auto. }
    destruct Hl; subst l; eapply Hk; eauto. }
  assert (r < n) as Hrn by (eapply get_lt; eauto).
  assert (forall a c, n <= a ->
            get (fold_left (fun hh x => set_model_of (own x) hh x) gns
                   (fold_left (fun hh x => set_model_of (own x) hh x) mets (set_attr h4 r "_model" model))) a = Some c ->
            cell_ok n c) as Hnew.
  { intros a c Ha Hg. rewrite (fold_set_model_get' n) in Hg; auto; [|apply (Hlt gns); auto].
    rewrite (fold_set_model_get' n) in Hg; auto; [|apply (Hlt mets); auto].
    rewrite set_attr_get_ne in Hg by lia. eapply (ext_new _ _ _ HE); eauto. }
  split; [auto|split; [exact Hnew|]].
  intros y Hy. eapply (reach_closed _ (fun z => n <= z)); [|exact Hv|exact Hy].
  intros a b Ha [c [Hg Hin]]. eapply cell_ok_crefs; [|exact Hin]. eapply Hnew; eauto.
Qed.
