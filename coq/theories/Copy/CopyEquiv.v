(* C12 — `model_copy_equiv`: for every heap in which the model is consistent (`wf_model_content`) and its back
   references agree with its reactions (`consistent_b`), both boolean and evaluated on every encoded real heap,
   and every table with `table_safe` and `table_shape`:
       Model.copy does not raise and the copy is observed exactly like the original
       (obs_model equal, i.e. `equiv_b OpModelCopy` = true). *)
From Coq Require Import List String Bool Arith Lia Permutation.
From Cobra.Copy Require Import Heap Model Obs Lemmas Proofs ModelCopy CopyWf CopyStages CopySep CopyHeapFacts CopyData
     CopyState CopyObj CopySpecies CopyLink CopyRxn CopyGroups CopyModelCell CopyDesc CopyDescProof CopyWfContent CopySort CopyObsEq.
Import ListNotations.
Open Scope string_scope.
Open Scope list_scope.

Theorem copy_desc_equiv : forall T h0 m mc OM OG OR OP h',
    TableSafe T -> TableShape T -> ModelOk T h0 m mc OM OG OR OP -> Consistent T h0 m mc OM OG OR OP ->
    CopyDesc T h0 mc OM OG OR OP h' -> obs_model h' (List.length h0) = obs_model h0 m.
Proof.
  intros T h0 m mc OM OG OR OP h' HTS HSH HOK HCO
         [W MM GG PP RR dlm dlg dlr dlgr cx D1 D2 D3 D4 D5 D6 Dge D7 D8 D9 D10 D11 D12 D13 D14 D15 D16 D17 D18 D19 D20 D21].
  exact (obs_model_eq T h0 m mc OM OG OR OP HTS HSH HOK HCO h' W MM GG PP RR dlm dlg dlr dlgr
                      D2 D3 D4 D5 D6 D8 D9 D10 D11 D12 D13 D14 D15 D16 D17 D18 D19 D20 D21).
Qed.

(* ------------------------------------------------------------------ the boolean consistency predicate *)
Section ConsistentB.
  Variable T : copytable.
  Variable h : heap.
  Variable m : addr.

  Definition kind_at (K : kind) (a : addr) : bool :=
    match get h a with Some c => kind_eqb (ckind c) K | None => false end.

  Definition set_cell_b (c : cell) : bool :=
    kind_eqb (ckind c) KSet && forallb (fun kv => negb (is_atom (fst kv)) && value_eqb (snd kv) (At "")) (citems c).

  (* the set attribute `lk` of object a holds exactly the objects of `univ` that satisfy `sel` *)
  Definition link_set_b (a : addr) (lk : string) (univ : list addr) (sel : addr -> bool) : bool :=
    match attr_at h a lk with
    | Some (Ref s) =>
        match get h s with
        | Some c =>
            let olds := refs_of (keys_of (citems c)) in
            set_cell_b c && nodup_vals (keys_of (citems c))
            && forallb (fun r => memn r univ && sel r) olds
            && forallb (fun r => if sel r then memn r olds else true) univ
        | None => false
        end
    | _ => false
    end.

  Definition specials_b (s : string) : bool :=
    mems s ("_contexts" :: "_solver" :: "metabolites" :: "genes" :: "reactions" :: "groups" :: map fst (ct_model_explicit T)).

  Definition consistent_b : bool :=
    match get h m with
    | None => false
    | Some mc =>
        let OM := refs_of (list_elems h (attr mc "metabolites")) in
        let OG := refs_of (list_elems h (attr mc "genes")) in
        let OR := refs_of (list_elems h (attr mc "reactions")) in
        let OP := refs_of (list_elems h (attr mc "groups")) in
        forallb (kind_at KMetabolite) OM && forallb (kind_at KGene) OG && forallb (kind_at KReaction) OR && forallb (kind_at KGroup) OP
        && forallb (fun name => match attr mc name with
                                | Some (Ref d) => kind_at KDictList d
                                | _ => false end) ["metabolites"; "genes"; "reactions"; "groups"]
        && forallb (fun a => match attr_at h a "_model" with Some v => value_eqb v (Ref m) | None => false end) (OM ++ OG ++ OR ++ OP)
        && negb (mems "_id" (ct_model_excluded T)) && negb (specials_b "_id")
        && forallb (fun a => link_set_b a "_reaction" OR (fun r => has_key (Ref a) (sitems h r))) OM
        && forallb (fun g => link_set_b g "_reaction" OR (fun r => has_name (idof h g) (gnames h r))) OG
        && forallb (fun r => match attr_at h r "_metabolites" with
                             | Some (Ref d) => kind_at KDict d && forallb (fun kv => is_atom (snd kv)) (sitems h r)
                             | _ => false end) OR
        && forallb (fun r => link_set_b r "_genes" OG (fun g => has_name (idof h g) (gnames h r))) OR
        && forallb (fun ga => match attr_at h ga "_members" with
                              | Some (Ref ms) => match get h ms with Some c => set_cell_b c | None => false end
                              | _ => false end) OP
        && forallb (fun kv => match fst kv with
                              | At s => if specials_b s then true
                                        else negb (mems s (ct_model_excluded T)) && is_atom (snd kv)
                              | Ref _ => true end) (citems mc)
    end.

  (* ---------------- soundness *)
  Lemma kind_at_sound : forall K a oc, kind_at K a = true -> get h a = Some oc -> ckind oc = K.
  Proof. intros K a oc H Hg. unfold kind_at in H. rewrite Hg in H. apply kind_eqb_eq. exact H. Qed.

  Lemma set_cell_sound : forall c, set_cell_b c = true -> c = mkCell KSet (set_items (refs_of (keys_of (citems c)))).
  Proof.
    intros [k items] H. unfold set_cell_b in H. cbn [ckind citems] in *. apply andb_prop in H as [Hk Hi].
    apply kind_eqb_eq in Hk. subst k. f_equal. rewrite forallb_forall in Hi.
    induction items as [|[kk v] r IH]; [reflexivity|]. cbn [keys_of map fst refs_of flat_map].
    pose proof (Hi (kk, v) (or_introl eq_refl)) as H0. cbn [fst snd] in H0. apply andb_prop in H0 as [H1 H2].
    apply value_eqb_eq in H2. subst v. destruct kk as [s|a]; [discriminate|]. cbn [vrefs app set_items map]. f_equal.
    apply IH. intros x Hx. apply Hi. right. exact Hx.
  Qed.

  Lemma refs_keys_set_items : forall olds, refs_of (keys_of (set_items olds)) = olds.
  Proof. induction olds as [|a r IH]; cbn; [reflexivity|]. f_equal. exact IH. Qed.

  Lemma link_set_sound : forall a lk univ sel, link_set_b a lk univ sel = true ->
    exists s olds, attr_at h a lk = Some (Ref s) /\ get h s = Some (mkCell KSet (set_items olds)) /\ NoDup olds /\
                   (forall r, In r olds <-> In r univ /\ sel r = true).
  Proof.
    intros a lk univ sel H. unfold link_set_b in H. destruct (attr_at h a lk) as [[x|s]|] eqn:Ea; try discriminate.
    destruct (get h s) as [c|] eqn:Hg; [|discriminate]. cbv zeta in H.
    apply andb_prop in H as [H H4]. apply andb_prop in H as [H H3]. apply andb_prop in H as [H1 H2].
    pose proof (set_cell_sound c H1) as Ec. set (olds := refs_of (keys_of (citems c))) in *.
    exists s, olds. split; [reflexivity|]. split; [rewrite Hg, Ec at 1; reflexivity|]. split.
    - apply nodup_vals_sound in H2. rewrite Ec in H2. cbn [citems] in H2. rewrite keys_set_items in H2.
      eapply NoDup_map_inv. exact H2.
    - intros r. rewrite forallb_forall in H3, H4. split.
      + intros Hr. specialize (H3 r Hr). apply andb_prop in H3 as [A B]. split; [apply memn_In; exact A|exact B].
      + intros [Hr Hs]. specialize (H4 r Hr). rewrite Hs in H4. apply memn_In. exact H4.
  Qed.

  Theorem consistent_b_sound : forall mc,
      get h m = Some mc -> consistent_b = true ->
      Consistent T h m mc (refs_of (list_elems h (attr mc "metabolites"))) (refs_of (list_elems h (attr mc "genes")))
                 (refs_of (list_elems h (attr mc "reactions"))) (refs_of (list_elems h (attr mc "groups"))).
  Proof.
    intros mc Hm H. unfold consistent_b in H. rewrite Hm in H. cbv zeta in H.
    apply andb_prop in H as [H A]. apply andb_prop in H as [H A3]. apply andb_prop in H as [H A4].
    apply andb_prop in H as [H A5]. apply andb_prop in H as [H A6]. apply andb_prop in H as [H A7].
    apply andb_prop in H as [H A8]. apply andb_prop in H as [H A9]. apply andb_prop in H as [H A10].
    apply andb_prop in H as [H A11]. apply andb_prop in H as [H A12]. apply andb_prop in H as [H A13].
    apply andb_prop in H as [A15 A14].
    split.
    - intros a oc Ha Hg. rewrite forallb_forall in A15. eapply kind_at_sound; eauto.
    - intros a oc Ha Hg. rewrite forallb_forall in A14. eapply kind_at_sound; eauto.
    - intros a oc Ha Hg. rewrite forallb_forall in A13. eapply kind_at_sound; eauto.
    - intros a oc Ha Hg. rewrite forallb_forall in A12. eapply kind_at_sound; eauto.
    - intros name Hn. rewrite forallb_forall in A11. specialize (A11 name Hn).
      destruct (attr mc name) as [[s|d]|]; try discriminate. unfold kind_at in A11. destruct (get h d) as [c|] eqn:Hd; [|discriminate].
      exists d, c. split; auto. split; auto. apply kind_eqb_eq. exact A11.
    - intros a Ha. rewrite forallb_forall in A10. specialize (A10 a Ha). destruct (attr_at h a "_model") as [v|]; [|discriminate].
      apply value_eqb_eq in A10. subst. reflexivity.
    - split; [apply negb_true_iff; exact A9|]. apply negb_true_iff in A8. unfold specials_b in A8. apply mems_false. exact A8.
    - intros a Ha. rewrite forallb_forall in A7. apply link_set_sound. apply A7. exact Ha.
    - intros g Hg. rewrite forallb_forall in A6. apply link_set_sound. apply A6. exact Hg.
    - intros r Hr. rewrite forallb_forall in A5. specialize (A5 r Hr). destruct (attr_at h r "_metabolites") as [[s|d]|]; try discriminate.
      apply andb_prop in A5 as [K1 K2]. unfold kind_at in K1. destruct (get h d) as [dc|] eqn:Hd; [|discriminate].
      exists d, dc. split; auto. split; auto. split; [apply kind_eqb_eq; exact K1|]. rewrite forallb_forall in K2. exact K2.
    - intros r Hr. rewrite forallb_forall in A4. apply link_set_sound. apply A4. exact Hr.
    - intros ga Hga. rewrite forallb_forall in A3. specialize (A3 ga Hga). destruct (attr_at h ga "_members") as [[s|ms]|]; try discriminate.
      destruct (get h ms) as [c|] eqn:Hg; [|discriminate]. exists ms, (refs_of (keys_of (citems c))). split; auto.
      rewrite Hg. f_equal. apply set_cell_sound. exact A3.
    - intros s v Hv Hns. rewrite forallb_forall in A. unfold attr in Hv. apply lookup_in in Hv. specialize (A _ Hv). cbn [fst snd] in A.
      assert (specials_b s = false) as E.
      { destruct (specials_b s) eqn:E; auto. unfold specials_b in E. apply mems_In in E. exfalso. apply Hns. exact E. }
      rewrite E in A. apply andb_prop in A as [B1 B2]. split; [apply negb_true_iff; exact B1|exact B2].
  Qed.
End ConsistentB.

(* ------------------------------------------------------------------ the general theorem *)
Theorem model_copy_equiv : forall T h m h' m' ok,
    table_safe T = true -> table_shape T = true -> wf_model_content T h m = true -> consistent_b T h m = true ->
    model_copy T h m = (h', m', ok) ->
    ok = true /\ obs_model h' m' = obs_model h m /\ equiv_b OpModelCopy h m h' m' = true.
Proof.
  intros T h m h' m' ok HT HS HW HC Hrun.
  assert (exists mc, get h m = Some mc /\
                     ModelOk T h m mc (refs_of (list_elems h (attr mc "metabolites"))) (refs_of (list_elems h (attr mc "genes")))
                             (refs_of (list_elems h (attr mc "reactions"))) (refs_of (list_elems h (attr mc "groups")))) as [mc [Hm HOK]].
  { destruct (wf_model_content_sound T h m HW) as [mc [OM [OG [OR [OP HOK]]]]].
    pose proof (mo_get _ _ _ _ _ _ _ _ HOK) as Hm. exists mc. split; [exact Hm|].
    pose proof (mo_lm _ _ _ _ _ _ _ _ HOK) as E1. pose proof (mo_lg _ _ _ _ _ _ _ _ HOK) as E2.
    pose proof (mo_lr _ _ _ _ _ _ _ _ HOK) as E3. pose proof (mo_lp _ _ _ _ _ _ _ _ HOK) as E4.
    assert (forall L, refs_of (map Ref L) = L) as Hr by (induction L as [|a r IH]; cbn; [reflexivity|f_equal; exact IH]).
    rewrite E1, E2, E3, E4, !Hr. exact HOK. }
  pose proof (consistent_b_sound T h m mc Hm HC) as HCO.
  pose proof (table_safe_parts T HT) as HTS. pose proof (table_shape_sound T HS) as HSH.
  destruct (model_copy_desc T h m mc _ _ _ _ HTS HSH HOK h' m' ok Hrun) as [H1 [H2 H3]].
  pose proof (copy_desc_equiv T h m mc _ _ _ _ h' HTS HSH HOK HCO H3) as Heq. subst m'.
  split; [exact H1|]. split; [exact Heq|]. unfold equiv_b. rewrite Heq. apply tree_eqb_refl.
Qed.

(* ------------------------------------------------------------------ the objects of the copy point at the copy *)
(* "... whose reactions, metabolites, genes and groups are distinct objects pointing at the copy": every element of
   the four lists of the copy is a cell created by the copy whose _model is the copy; the context stack is a fresh
   empty list; the solver is a fresh object *)
Lemma list_points_sound : forall n h' m' name dl (news : list addr),
    attr_at h' m' name = Some (Ref dl) -> n <= dl -> get h' dl = Some (mkCell KDictList (dl_items news)) ->
    (forall x, In x news -> n <= x /\ attr_at h' x "_model" = Some (Ref m')) ->
    list_points_to n h' m' name = true.
Proof.
  intros n h' m' name dl news Ha Hdl Hg Hn. unfold list_points_to. rewrite Ha. apply andb_true_intro. split; [apply Nat.leb_le; exact Hdl|].
  unfold list_elems. rewrite Hg, elems_dl_items. apply forallb_forall. intros e He. apply in_map_iff in He as [x [<- Hx]].
  destruct (Hn x Hx) as [H1 H2]. rewrite H2. apply andb_true_intro. split; [apply Nat.leb_le; exact H1|apply Nat.eqb_refl].
Qed.

Theorem model_copy_points_to : forall T h m h' m' ok,
    table_safe T = true -> table_shape T = true -> wf_model_content T h m = true ->
    (exists mc s, get h m = Some mc /\ attr mc "_solver" = Some (Ref s)) ->       (* the model has a solver object *)
    model_copy T h m = (h', m', ok) -> points_to_copy_b (List.length h) h' m' = true.
Proof.
  intros T h m h' m' ok HT HS HW [mc0 [sv [Hm0 Hsv]]] Hrun.
  destruct (model_copy_structure T h m h' m' ok HT HS HW Hrun) as [_ [-> [mc [OM [OG [OR [OP [HOK HD]]]]]]]].
  pose proof (mo_get _ _ _ _ _ _ _ _ HOK) as Hm. rewrite Hm0 in Hm. inv Hm.
  destruct HD as [W MM GG PP RR dlm dlg dlr dlgr cx D1 D2 D3 D4 D5 D6 [G1 [G2 [G3 G4]]] [C1 [C2 C3]] D8 D9 D10 D11 D12 D13 D14 D15 D16 D17 D18 D19 D20 D21].
  set (n := List.length h) in *.
  unfold points_to_copy_b. apply andb_true_intro. split; [apply andb_true_intro; split; [apply andb_true_intro; split|]|].
  - apply Nat.leb_le. lia.
  - cbn [forallb]. rewrite !andb_true_r.
    assert (forall kt lk (L : list rec3) (c : rec3 -> list (value * value)),
               (forall q, In q L -> SpRec h n kt lk h' W q (c q)) ->
               forall x, In x (map r_new L) -> n <= x /\ attr_at h' x "_model" = Some (Ref n)) as Hsp.
    { intros kt lk L c HL x Hx. apply in_map_iff in Hx as [q [<- Hq]]. destruct (HL q Hq) as [Hw [_ [_ [_ [Hmod _]]]]].
      split; [apply (st_W _ _ _ _ D1) in Hw; lia|exact Hmod]. }
    rewrite (list_points_sound n h' n "reactions" dlr (map q_new RR) D5 G3 D14).
    + rewrite (list_points_sound n h' n "metabolites" dlm (map r_new MM) D3 G1 D10 (Hsp _ _ MM _ D18)).
      rewrite (list_points_sound n h' n "genes" dlg (map r_new GG) D4 G2 D12 (Hsp _ _ GG _ D19)).
      rewrite (list_points_sound n h' n "groups" dlgr (map r_new PP) D6 G4 D16 (Hsp _ _ PP _ D21)). reflexivity.
    + intros x Hx. apply in_map_iff in Hx as [q [<- Hq]]. destruct (D20 q Hq) as [lo [[Hw _] [_ [_ [Hmod _]]]]].
      split; [apply (st_W _ _ _ _ D1) in Hw; lia|exact Hmod].
  - rewrite C1. apply andb_true_intro. split; [apply Nat.leb_le; exact C3|]. rewrite C2. reflexivity.
  - destruct (D8 "_solver" (or_introl eq_refl)) as [v [v' [Hv [Hv' Hiso]]]]. rewrite Hv'. rewrite Hsv in Hv. inv Hv.
    pose proof (diso_val _ _ _ _ _ Hiso) as Hval. destruct v' as [s'|a'].
    + destruct Hiso as [M [_ [_ [Mp Ev]]]]. cbn in Mp, Ev. destruct (mfind sv M); [discriminate|congruence].
    + destruct Hval as [[Hlo _] _]. cbn. apply Nat.leb_le. exact Hlo.
Qed.
