(* C12 — proof of the functional description of Model.copy (statement: Copy/CopyDesc.v). *)
From Coq Require Import List String Bool Arith Lia.
From Cobra.Copy Require Import Heap Model Obs Lemmas Proofs ModelCopy CopyWf CopyStages CopySep CopyHeapFacts CopyData
     CopyState CopyObj CopySpecies CopyLink CopyRxn CopyGroups CopyModelCell CopyDesc.
Import ListNotations.
Open Scope string_scope.
Open Scope list_scope.

Section Proof.
  Variable T : copytable.
  Variable h0 : heap.
  Variable m : addr.
  Variable mc : cell.
  Variables OM OG OR OP : list addr.
  Notation n := (List.length h0).
  Notation m' := (List.length h0).
  Notation ktm := (ct_met T).
  Notation ktg := (ct_gene T).
  Notation ktr := (ct_rxn T).
  Notation ktp := (ct_group T).
  Hypothesis HTS : TableSafe T.
  Hypothesis HSH : TableShape T.
  Hypothesis HOK : ModelOk T h0 m mc OM OG OR OP.

  (* bundles of records survive steps that do not touch their cells *)
  Lemma sprecs_step : forall kt lk (L : list rec3) (c : rec3 -> list (value * value)) h W h2 W2 FP,
      (forall q, In q L -> SpRec h0 m' kt lk h W q (c q)) -> St n h0 h W -> Step h0 h W h2 W2 FP ->
      (forall q x, In q L -> In x (cells3 q) -> ~ In x FP) ->
      forall q, In q L -> SpRec h0 m' kt lk h2 W2 q (c q).
  Proof.
    intros kt lk L c h W h2 W2 FP Hrec HS [S2 [T2 F2]] Hfp q Hq.
    eapply sprec_tr_g; [apply Hrec; exact Hq|exact HS|exact T2|exact F2| |]; eapply Hfp; eauto; cbn; auto.
  Qed.

  Lemma st_init : St n h0 h0 [].
  Proof.
    split; auto.
    - intros a [].
    - intros a c Ha _ Hg. apply get_lt in Hg. lia.
  Qed.

  (* the model's lists read in a later heap *)
  Lemma old_list : forall h W name L, St n h0 h W -> list_elems h0 (attr mc name) = map Ref L ->
                                       list_elems h (attr mc name) = map Ref L.
  Proof.
    intros h W name L HS HL. rewrite <- HL. unfold list_elems. destruct (attr mc name) as [[s|d]|] eqn:Ea; auto.
    assert (d < n) as Hd.
    { eapply (mo_wf _ _ _ _ _ _ _ _ HOK m mc d (mo_get _ _ _ _ _ _ _ _ HOK)). eapply attr_ref_in. exact Ea. }
    rewrite (st_old _ _ _ _ HS d Hd). reflexivity.
  Qed.

  Theorem model_copy_desc : forall h' mres ok,
      model_copy T h0 m = (h', mres, ok) -> ok = true /\ mres = m' /\ CopyDesc T h0 mc OM OG OR OP h'.
  Proof.
    intros h' mres ok Hrun. rewrite model_copy_stages in Hrun. unfold model_copy_staged in Hrun.
    pose proof HOK as [Hwf Hget Hkind Hnames Hnodup Hexpl Hsolv Hlm Hlg Hlr Hlp Hmets Hgenes Hgrps Him Hig Hir Hip Hrxns Hgrp2].
    rewrite Hget in Hrun.
    (* ---- A. the new model cell: by-reference loop, context stack, explicit deep copies *)
    pose proof (step_alloc h0 h0 [] (mkCell KModel []) st_init) as SA0. pose proof SA0 as [SA0s _].
    fold (st_new h0) in SA0, SA0s.
    assert (In m' [m']) as Hm0 by (left; reflexivity).
    assert (MCell m' (st_new h0)) as HC0.
    { exists (mkCell KModel []). split; [apply get_alloc_new|]. split; auto. split; [constructor|intros k []]. }
    assert (forall s, attr_at (st_new h0) m' s = if mems s (ct_model_excluded T) then None else lookup (At s) []) as Hat0.
    { intros s. unfold attr_at, st_new. rewrite get_alloc_new. cbn. destruct (mems s (ct_model_excluded T)); reflexivity. }
    destruct (byref_loop_desc h0 m' (ct_model_excluded T) (citems mc) [] (st_new h0) [m'] SA0s Hm0 HC0 Hnames Hnodup Hat0)
      as [SA1 [HC1 Hat1]]. cbv zeta in SA1, HC1, Hat1. cbn [app] in Hat1. fold (st_byref T mc m' (st_new h0)) in SA1, HC1, Hat1.
    set (ha := st_byref T mc m' (st_new h0)) in *. pose proof SA1 as [SA1s _].
    assert (st_ctx T m' ha = st_final_ctx m' ha) as Ectx by (unfold st_ctx; rewrite (ts_ctx T HTS); reflexivity).
    rewrite Ectx in Hrun.
    destruct (ctx_desc h0 m' ha [m'] SA1s Hm0 HC1) as [SA2 [HC2 [Hcx2 Hat2]]]. cbv zeta in SA2, HC2, Hcx2, Hat2.
    set (cx := List.length ha) in *. set (hb := st_final_ctx m' ha) in *. pose proof SA2 as [SA2s _].
    assert (In m' (cx :: [m'])) as Hm2 by (right; left; reflexivity).
    assert (forall nm, In nm (ct_model_explicit T) -> snd nm = Deep /\ exists v, attr mc (fst nm) = Some v /\ Data h0 v) as Hexpl'.
    { intros nm Hnm. split; [apply (ts_explicit T HTS); exact Hnm|apply Hexpl; exact Hnm]. }
    destruct (explicit_loop_desc T h0 m' mc (ct_model_explicit T) hb _ SA2s Hm2 HC2 Hexpl') as [SA3 [HC3 [Hat3o Hat3e]]].
    cbv zeta in SA3, HC3, Hat3o, Hat3e. fold (st_explicit T mc m' hb) in SA3, HC3, Hat3o, Hat3e.
    set (h1 := st_explicit T mc m' hb) in *. pose proof SA3 as [SA3s _].
    set (W1 := cx :: [m']) in *.
    assert (m' < cx) as Hmcx.
    { unfold cx. pose proof (step_len _ _ _ _ _ _ SA1). unfold st_new in H. rewrite app_length in H. cbn in H. lia. }
    assert (get h1 cx = Some (mkCell KList [])) as Hcx3.
    { rewrite (step_get _ _ _ _ _ _ _ SA3); [exact Hcx2| |intros [Heq|[]]; lia].
      unfold hb, st_final_ctx, new_cell, alloc. rewrite set_attr_length', app_length. cbn. fold cx. lia. }
    (* ---- B. metabolites *)
    destruct (st_list m' "metabolites" h1) as [h2 dlm] eqn:E2.
    destruct (st_list_desc h0 m' h1 W1 "metabolites" h2 dlm SA3s Hm2 HC3 E2) as [Edlm [SB1 [HC4 [Hgdlm4 Hat4]]]].
    pose proof SB1 as [SB1s _].
    assert (cx < dlm) as Hcxdlm by (rewrite Edlm; apply (st_W _ _ _ _ SA3s); left; reflexivity).
    assert (List.length h2 = S dlm) as Hlen2.
    { unfold st_list in E2. inv E2. rewrite set_attr_length', app_length. cbn. lia. }
    assert (SpInv h0 m' ktm "_reaction" (S dlm) dlm h2 (dlm :: W1) []) as HI2.
    { split; [exact SB1s|]. split; [left; reflexivity|]. split; [lia|]. split; [exact Hgdlm4|intros r []]. }
    unfold st_mets in Hrun. rewrite (old_list h2 _ "metabolites" OM SB1s Hlm) in Hrun.
    destruct (species_loop_desc T h0 m' ktm (ct_attrs_met T) "_reaction" (sh_m_model T HSH) (sh_m_link T HSH) (sh_m_kind T HSH)
                ltac:(discriminate) (S dlm) dlm OM h2 (dlm :: W1) [] HI2 ltac:(lia) Hmets)
      as [W3 [MM [HI3 [HoldM [TB2 [HndM HrngM]]]]]]. cbv zeta in HI3, TB2, HrngM. cbn [app] in HI3.
    set (h3 := fold_left (copy_species T ktm (ct_attrs_met T) m' dlm) (map Ref OM) h2) in *.
    destruct HI3 as [SB2s [HdlmW3 [_ [Hgdlm3 HrecM3]]]].
    assert (Step h0 h2 (dlm :: W1) h3 W3 [dlm]) as SB2.
    { split; [exact SB2s|]. split; [exact TB2|]. intros x [<-|[]]. left. left. reflexivity. }
    rewrite Hlen2 in HrngM.
    (* ---- C. genes *)
    destruct (st_list m' "genes" h3) as [h4 dlg] eqn:E4.
    assert (In m' W3) as Hm3 by (apply (step_W _ _ _ _ _ _ _ SB2); right; exact Hm2).
    assert (m' < List.length h2) as Hmlt2 by lia.
    assert (MCell m' h3) as HC5.
    { eapply mcell_agree; [exact HC4|]. eapply step_get; [exact SB2|exact Hmlt2|intros [Heq|[]]; lia]. }
    destruct (st_list_desc h0 m' h3 W3 "genes" h4 dlg SB2s Hm3 HC5 E4) as [Edlg [SC1 [HC6 [Hgdlg6 Hat6]]]].
    pose proof SC1 as [SC1s _].
    assert (List.length h4 = S dlg) as Hlen4.
    { unfold st_list in E4. inv E4. rewrite set_attr_length', app_length. cbn. lia. }
    assert (S dlm <= dlg) as Hdlmdlg by (rewrite Edlg; pose proof (step_len _ _ _ _ _ _ SB2); lia).
    assert (SpInv h0 m' ktg "_reaction" (S dlg) dlg h4 (dlg :: W3) []) as HI4.
    { split; [exact SC1s|]. split; [left; reflexivity|]. split; [lia|]. split; [exact Hgdlg6|intros r []]. }
    unfold st_genes in Hrun. rewrite (old_list h4 _ "genes" OG SC1s Hlg) in Hrun.
    destruct (species_loop_desc T h0 m' ktg (ct_attrs_gene T) "_reaction" (sh_g_model T HSH) (sh_g_link T HSH) (sh_g_kind T HSH)
                ltac:(discriminate) (S dlg) dlg OG h4 (dlg :: W3) [] HI4 ltac:(lia) Hgenes)
      as [W5 [GG [HI5 [HoldG [TC2 [HndG HrngG]]]]]]. cbv zeta in HI5, TC2, HrngG. cbn [app] in HI5.
    set (h5 := fold_left (copy_species T ktg (ct_attrs_gene T) m' dlg) (map Ref OG) h4) in *.
    destruct HI5 as [SC2s [HdlgW5 [_ [Hgdlg5 HrecG5]]]].
    assert (Step h0 h4 (dlg :: W3) h5 W5 [dlg]) as SC2.
    { split; [exact SC2s|]. split; [exact TC2|]. intros x [<-|[]]. left. left. reflexivity. }
    rewrite Hlen4 in HrngG.
    rewrite <- Edlg in HrngM.
    (* ---- D. reactions: set-up *)
    destruct (st_list m' "reactions" h5) as [h6 dlr] eqn:E6.
    assert (In m' W5) as Hm5 by (apply (step_W _ _ _ _ _ _ _ SC2); right; exact Hm3).
    assert (MCell m' h5) as HC7.
    { eapply mcell_agree; [exact HC6|]. eapply step_get; [exact SC2|lia|intros [Heq|[]]; lia]. }
    destruct (st_list_desc h0 m' h5 W5 "reactions" h6 dlr SC2s Hm5 HC7 E6) as [Edlr [SD1 [HC8 [Hgdlr8 Hat8]]]].
    pose proof SD1 as [SD1s _].
    assert (List.length h6 = S dlr) as Hlen6.
    { unfold st_list in E6. inv E6. rewrite set_attr_length', app_length. cbn. lia. }
    assert (S dlg <= dlr) as Hdlgdlr by (rewrite Edlr; pose proof (step_len _ _ _ _ _ _ SC2); lia).
    rewrite <- Edlr in HrngG.
    (* steps from the end of each species loop to h6 *)
    pose proof (step_trans _ _ _ _ _ _ _ _ _ SC1 (step_trans _ _ _ _ _ _ _ _ _ SC2 SD1)) as S36.
    pose proof (step_trans _ _ _ _ _ _ _ _ _ SB1 (step_trans _ _ _ _ _ _ _ _ _ SB2 S36)) as S16.
    assert (forall q x, In q MM -> In x (cells3 q) -> ~ In x ([m'] ++ [dlg] ++ [m'])) as HfpM.
    { intros q x Hq Hx Hin. pose proof (HrngM q x Hq Hx). cbn in Hin. destruct Hin as [<-|[<-|[<-|[]]]]; lia. }
    pose proof (sprecs_step ktm "_reaction" MM (fun _ => []) h3 W3 h6 (dlr :: W5) _
                  (fun q Hq => proj1 (HrecM3 q Hq)) SB2s S36 HfpM) as HrecM6.
    assert (forall q x, In q GG -> In x (cells3 q) -> ~ In x [m']) as HfpG.
    { intros q x Hq Hx Hin. pose proof (HrngG q x Hq Hx). destruct Hin as [<-|[]]. lia. }
    pose proof (sprecs_step ktg "_reaction" GG (fun _ => []) h5 W5 h6 (dlr :: W5) _
                  (fun q Hq => proj1 (HrecG5 q Hq)) SC2s SD1 HfpG) as HrecG6.
    assert (get h6 dlm = Some (mkCell KDictList (dl_items (map r_new MM)))) as Hgdlm6.
    { rewrite (step_get _ _ _ _ _ _ _ S36); [exact Hgdlm3| |].
      - apply (st_W _ _ _ _ SB2s). exact HdlmW3.
      - cbn. intros [Heq|[Heq|[Heq|[]]]]; lia. }
    assert (get h6 dlg = Some (mkCell KDictList (dl_items (map r_new GG)))) as Hgdlg6'.
    { rewrite (step_get _ _ _ _ _ _ _ SD1); [exact Hgdlg5| |].
      - apply (st_W _ _ _ _ SC2s). exact HdlgW5.
      - intros [Heq|[]]; lia. }
    assert (attr_at h6 m' "_contexts" = Some (Ref cx)) as Hctx6.
    { rewrite Hat8. cbn [String.eqb Ascii.eqb Bool.eqb].
      rewrite (attr_at_agree h4 h5 m' "_contexts"); [|eapply step_get; [exact SC2|lia|intros [Heq|[]]; lia]].
      rewrite Hat6. cbn [String.eqb Ascii.eqb Bool.eqb].
      rewrite (attr_at_agree h2 h3 m' "_contexts"); [|eapply step_get; [exact SB2|lia|intros [Heq|[]]; lia]].
      rewrite Hat4. cbn [String.eqb Ascii.eqb Bool.eqb].
      assert (~ In "_contexts" (map fst (ct_model_explicit T))) as Hne by (apply (sh_explicit T HSH); cbn; tauto).
      rewrite (Hat3o _ Hne). rewrite Hat2. cbn [String.eqb Ascii.eqb Bool.eqb]. reflexivity. }
    assert (get h6 cx = Some (mkCell KList [])) as Hcx6.
    { rewrite (step_get _ _ _ _ _ _ _ S16); [exact Hcx3|apply (st_W _ _ _ _ SA3s); left; reflexivity|].
      cbn. intros [Heq|[Heq|[Heq|[Heq|[Heq|[]]]]]]; lia. }
    (* the hypotheses of the reaction stage *)
    set (lo := S dlr).
    assert (forall q x, In q MM -> In x (cells3 q) -> S dlm <= x < dlg) as RM by exact HrngM.
    assert (forall q x, In q GG -> In x (cells3 q) -> S dlg <= x < dlr) as RG by exact HrngG.
    assert (NoDup (base m' cx dlm dlg MM GG)) as Hbase_nd.
    { unfold base. apply nodup_app_disjoint.
      - repeat constructor; cbn; intuition lia.
      - apply nodup_app_lt; auto. intros x y Hx Hy. apply in_flat_map in Hx as [q [Hq Hx]]. apply in_flat_map in Hy as [q2 [Hq2 Hy]].
        pose proof (RM q x Hq Hx). pose proof (RG q2 y Hq2 Hy). lia.
      - intros x Hx Hy. apply in_app_or in Hy as [Hy|Hy]; apply in_flat_map in Hy as [q [Hq Hy]].
        + pose proof (RM q x Hq Hy). cbn in Hx. destruct Hx as [<-|[<-|[<-|[<-|[]]]]]; lia.
        + pose proof (RG q x Hq Hy). cbn in Hx. destruct Hx as [<-|[<-|[<-|[<-|[]]]]]; lia. }
    assert (forall x, In x (base m' cx dlm dlg MM GG) -> x < dlr) as Hbase_lt.
    { intros x Hx. unfold base in Hx. apply in_app_or in Hx as [Hx|Hx].
      - cbn in Hx. destruct Hx as [<-|[<-|[<-|[<-|[]]]]]; lia.
      - apply in_app_or in Hx as [Hx|Hx]; apply in_flat_map in Hx as [q [Hq Hx]];
          [pose proof (RM q x Hq Hx)|pose proof (RG q x Hq Hx)]; lia. }
    assert (forall x, In x (base m' cx dlm dlg MM GG) -> x < lo) as Hbase_lo by (intros x Hx; apply Hbase_lt in Hx; unfold lo; lia).
    assert (~ In dlr (base m' cx dlm dlg MM GG) /\ dlr < lo) as Hdlr.
    { split; [intro Hin; apply Hbase_lt in Hin; lia|unfold lo; lia]. }
    destruct Him as [HimN HimA]. destruct Hig as [HigN HigA]. destruct Hir as [HirN HirA]. destruct Hip as [HipN HipA].
    assert (NoDup (map r_old MM)) as HMM_old by (rewrite HoldM; eapply NoDup_map_inv; exact HimN).
    assert (NoDup (map r_old GG)) as HGG_old by (rewrite HoldG; eapply NoDup_map_inv; exact HigN).
    assert (NoDup (map (fun q => idof h0 (r_old q)) MM)) as HMM_ids by (rewrite <- (map_map r_old (idof h0)), HoldM; exact HimN).
    assert (NoDup (map (fun q => idof h0 (r_old q)) GG)) as HGG_ids by (rewrite <- (map_map r_old (idof h0)), HoldG; exact HigN).
    assert (forall q, In q MM -> r_old q < n /\ exists i, idof h0 (r_old q) = Some i /\ is_atom i = true) as HMM_idat.
    { intros q Hq. apply HimA. rewrite <- HoldM. apply in_map. exact Hq. }
    assert (forall q, In q GG -> r_old q < n /\ exists i, idof h0 (r_old q) = Some i /\ is_atom i = true) as HGG_idat.
    { intros q Hq. apply HigA. rewrite <- HoldG. apply in_map. exact Hq. }
    assert (forall q oc, In q GG -> get h0 (r_old q) = Some oc ->
                         In (At "_model") (keys_of (citems oc)) /\ NoDup (keys_of (citems oc))) as HGG_model.
    { intros q oc Hq Hg. assert (In (r_old q) OG) as Hin by (rewrite <- HoldG; apply in_map; exact Hq).
      destruct (Hgenes _ Hin) as [oc' [G1 G2 G3 G4]]. rewrite Hg in G1. inv G1. split; auto. apply (ok_nodup _ _ _ G2). }
    assert (forall r, In r OR -> exists oc, RxOld T h0 MM GG r oc) as HrxOld.
    { intros r Hr. destruct (Hrxns r Hr) as [oc [R1 R2 R3 R4 R5 R6 R7 R8 R9 R10 R11]]. exists oc. split; auto.
      - intros kv Hkv. destruct (R7 kv Hkv) as [a [Ha Hf]]. rewrite <- HoldM in Ha. apply in_map_iff in Ha as [q [<- Hq]]. eauto.
      - intros i Hi. destruct (R10 i Hi) as [g [Hg Hid]]. rewrite <- HoldG in Hg. apply in_map_iff in Hg as [q [<- Hq]]. eauto. }
    assert (RxInv T h0 m' cx dlm dlg dlr MM GG lo h6 (dlr :: W5) []) as HRI6.
    { split; [|split; [left; reflexivity|split; [exact Hgdlr8|split; [intros q []|unfold lo; lia]]]].
      split.
      - exact SD1s.
      - intros q Hq. exact (HrecM6 q Hq).
      - intros q Hq. exact (HrecG6 q Hq).
      - exact Hgdlm6.
      - exact Hgdlg6'.
      - split; [exact Hctx6|exact Hcx6].
      - intros x Hx. right. cbn in Hx. destruct Hx as [<-|[<-|[<-|[<-|[]]]]].
        + exact Hm5.
        + apply (step_W _ _ _ _ _ _ _ SC2). right. apply (step_W _ _ _ _ _ _ _ SB2). right. left. reflexivity.
        + apply (step_W _ _ _ _ _ _ _ SC2). right. exact HdlmW3.
        + exact HdlgW5. }
    unfold st_rxns in Hrun. rewrite (old_list h6 _ "reactions" OR SD1s Hlr) in Hrun.
    destruct (reaction_loop_desc T h0 m' cx dlm dlg dlr MM GG lo (sh_m_id T HSH) (sh_g_id T HSH) (sh_g_model T HSH)
                (sh_r_model T HSH) (sh_r_mets T HSH) (sh_r_genes T HSH) (sh_r_gpr T HSH) (sh_r_kind T HSH)
                Hbase_nd Hbase_lo Hdlr HMM_old HGG_old HMM_ids HGG_ids HMM_idat HGG_idat HGG_model
                OR h6 (dlr :: W5) [] true HRI6 HrxOld)
      as [W7 [RR [h7 [E7 [HRI7 [HoldR [TE [HndR HgeR]]]]]]]]. cbn [app] in HRI7.
    rewrite E7 in Hrun.
    (* ---- F. groups, first pass *)
    destruct HRI7 as [HR7 [HdlrW7 [Hgdlr7 [HrecR7 Hlo7]]]]. pose proof (ri_st _ _ _ _ _ _ _ _ _ _ _ _ HR7) as SE7s.
    assert (forall x, In x (FPr dlr MM GG) -> In x (dlr :: W5) /\ x < S dlr /\ m' < x) as HFPr.
    { intros x [<-|Hx]; [split; [left; reflexivity|lia]|].
      apply in_app_or in Hx as [Hx|Hx]; [|apply in_app_or in Hx as [Hx|Hx]]; apply in_map_iff in Hx as [q [<- Hq]].
      - destruct (HrecM6 q Hq) as [_ [Hw _]]. pose proof (RM q (r_set q) Hq ltac:(cbn; auto)). split; [exact Hw|lia].
      - destruct (HrecG6 q Hq) as [_ [Hw _]]. pose proof (RG q (r_set q) Hq ltac:(cbn; auto)). split; [exact Hw|lia].
      - destruct (HrecG6 q Hq) as [Hw _]. pose proof (RG q (r_new q) Hq ltac:(cbn; auto)). split; [exact Hw|lia]. }
    assert (Step h0 h6 (dlr :: W5) h7 W7 (FPr dlr MM GG)) as SE.
    { split; [exact SE7s|]. split; [exact TE|]. intros x Hx. left. apply HFPr. exact Hx. }
    assert (In m' W7) as Hm7 by (apply (step_W _ _ _ _ _ _ _ SE); right; exact Hm5).
    assert (MCell m' h7) as HC9.
    { eapply mcell_agree; [exact HC8|]. eapply step_get; [exact SE|lia|]. intro Hin. apply HFPr in Hin. lia. }
    destruct (st_list m' "groups" h7) as [h8 dlgr] eqn:E8.
    destruct (st_list_desc h0 m' h7 W7 "groups" h8 dlgr SE7s Hm7 HC9 E8) as [Edlgr [SF1 [HC10 [Hgdlgr10 Hat10]]]].
    pose proof SF1 as [SF1s _].
    assert (List.length h8 = S dlgr) as Hlen8.
    { unfold st_list in E8. inv E8. rewrite set_attr_length', app_length. cbn. lia. }
    assert (S dlr <= dlgr) as Hdlrdlgr by (rewrite Edlgr; pose proof (step_len _ _ _ _ _ _ SE); lia).
    rewrite (old_list h8 _ "groups" OP SF1s Hlp) in Hrun.
    assert (SpInv h0 m' ktp "_members" (S dlgr) dlgr h8 (dlgr :: W7) []) as HI8.
    { split; [exact SF1s|]. split; [left; reflexivity|]. split; [lia|]. split; [exact Hgdlgr10|intros r []]. }
    change (st_groups T m' dlgr (map Ref OP) h8)
      with (fold_left (copy_species T ktp (ct_attrs_group T) m' dlgr) (map Ref OP) h8) in Hrun.
    destruct (species_loop_desc T h0 m' ktp (ct_attrs_group T) "_members" (sh_p_model T HSH) (sh_p_link T HSH) (sh_p_kind T HSH)
                ltac:(discriminate) (S dlgr) dlgr OP h8 (dlgr :: W7) [] HI8 ltac:(lia) Hgrps)
      as [W9 [PP [HI9 [HoldP [TF2 [HndP HrngP]]]]]]. cbv zeta in HI9, TF2, HrngP. cbn [app] in HI9.
    set (h9 := fold_left (copy_species T ktp (ct_attrs_group T) m' dlgr) (map Ref OP) h8) in *.
    destruct HI9 as [SF2s [HdlgrW9 [_ [Hgdlgr9 HrecP9]]]].
    assert (Step h0 h8 (dlgr :: W7) h9 W9 [dlgr]) as SF2.
    { split; [exact SF2s|]. split; [exact TF2|]. intros x [<-|[]]. left. left. reflexivity. }
    rewrite Hlen8 in HrngP.
    pose proof (step_trans _ _ _ _ _ _ _ _ _ SF1 SF2) as S79.
    (* the records of the reactions, metabolites and genes in h9 *)
    assert (forall q, In q RR -> dlr < q_new q < dlgr /\ dlr < q_mets q < dlgr /\ dlr < q_genes q < dlgr) as RRrng.
    { intros q Hq. destruct (HrecR7 q Hq) as [[Hw1 [Hw2 Hw3]] [[Hl1 [Hl2 Hl3]] _]].
      apply (st_W _ _ _ _ SE7s) in Hw1, Hw2, Hw3. unfold lo in *. lia. }
    assert (forall q, In q MM -> SpRec h0 m' ktm "_reaction" h9 W9 q (set_items (rs_met h0 (r_old q) RR))) as HrecM9.
    { apply (sprecs_step ktm "_reaction" MM (fun q => set_items (rs_met h0 (r_old q) RR)) h7 W7 h9 W9 _
                         (ri_mm _ _ _ _ _ _ _ _ _ _ _ _ HR7) SE7s S79).
      intros q x Hq Hx Hin. pose proof (RM q x Hq Hx). cbn in Hin. destruct Hin as [<-|[<-|[]]]; lia. }
    assert (forall q, In q GG -> SpRec h0 m' ktg "_reaction" h9 W9 q (set_items (rs_gene h0 (r_old q) RR))) as HrecG9.
    { apply (sprecs_step ktg "_reaction" GG (fun q => set_items (rs_gene h0 (r_old q) RR)) h7 W7 h9 W9 _
                         (ri_gg _ _ _ _ _ _ _ _ _ _ _ _ HR7) SE7s S79).
      intros q x Hq Hx Hin. pose proof (RG q x Hq Hx). cbn in Hin. destruct Hin as [<-|[<-|[]]]; lia. }
    assert (forall q, In q RR -> RxRec T h0 m' MM GG lo h9 W9 q) as HrecR9.
    { intros q Hq. destruct S79 as [S9 [T9 F9]]. destruct (RRrng q Hq) as [R1 [R2 R3]].
      eapply rxrec_tr; [apply HrecR7; exact Hq|exact SE7s|exact T9|exact F9| | |];
        cbn; intros [Heq|[Heq|[]]]; lia. }
    (* ---- G. groups, second pass *)
    set (Lm := pairs3 MM). set (Lg := pairs3 GG). set (Lr := pairs4 RR). set (Lp := pairs3 PP).
    assert (forall q x, In q PP -> In x (cells3 q) -> S dlgr <= x < List.length h9) as RP by exact HrngP.
    assert (map snd Lm = map r_new MM) as EsM by (unfold Lm, pairs3; rewrite map_map; reflexivity).
    assert (map snd Lg = map r_new GG) as EsG by (unfold Lg, pairs3; rewrite map_map; reflexivity).
    assert (map snd Lr = map q_new RR) as EsR by (unfold Lr, pairs4; rewrite map_map; reflexivity).
    assert (map snd Lp = map r_new PP) as EsP by (unfold Lp, pairs3; rewrite map_map; reflexivity).
    assert (map fst Lm = OM) as EfM by (unfold Lm, pairs3; rewrite map_map; exact HoldM).
    assert (map fst Lg = OG) as EfG by (unfold Lg, pairs3; rewrite map_map; exact HoldG).
    assert (map fst Lr = OR) as EfR by (unfold Lr, pairs4; rewrite map_map; exact HoldR).
    assert (map fst Lp = OP) as EfP by (unfold Lp, pairs3; rewrite map_map; exact HoldP).
    assert (forall x, In x (map r_new MM) -> S dlm <= x < dlg) as NM.
    { intros x Hx. apply in_map_iff in Hx as [q [<- Hq]]. apply (RM q); auto. cbn; auto. }
    assert (forall x, In x (map r_new GG) -> S dlg <= x < dlr) as NG.
    { intros x Hx. apply in_map_iff in Hx as [q [<- Hq]]. apply (RG q); auto. cbn; auto. }
    assert (forall x, In x (map q_new RR) -> dlr < x < dlgr) as NR.
    { intros x Hx. apply in_map_iff in Hx as [q [<- Hq]]. apply (RRrng q Hq). }
    assert (forall x, In x (map r_new PP) -> S dlgr <= x < List.length h9) as NP.
    { intros x Hx. apply in_map_iff in Hx as [q [<- Hq]]. apply (RP q); auto. cbn; auto. }
    assert (NoDup (map snd (Lall Lm Lg Lr Lp))) as Hnew_nd.
    { unfold Lall. rewrite !map_app, EsM, EsG, EsR, EsP.
      apply nodup_app_lt; [eapply (nodup_map_sub cells3 r_new); [intros q; cbn; auto|exact HndM]| |].
      - apply nodup_app_lt; [eapply (nodup_map_sub cells3 r_new); [intros q; cbn; auto|exact HndG]| |].
        + apply nodup_app_lt; [exact HndR|eapply (nodup_map_sub cells3 r_new); [intros q; cbn; auto|exact HndP]|].
          intros x y Hx Hy. apply NR in Hx. apply NP in Hy. lia.
        + intros x y Hx Hy. apply NG in Hx. apply in_app_or in Hy as [Hy|Hy]; [apply NR in Hy|apply NP in Hy]; lia.
      - intros x y Hx Hy. apply NM in Hx. apply in_app_or in Hy as [Hy|Hy]; [apply NG in Hy; lia|].
        apply in_app_or in Hy as [Hy|Hy]; [apply NR in Hy|apply NP in Hy]; lia. }
    assert (forall q, In q PP -> ~ In (r_set q) (dlm :: dlg :: dlr :: dlgr :: map snd (Lall Lm Lg Lr Lp))) as Hsets.
    { intros q Hq Hin. pose proof (RP q (r_set q) Hq ltac:(cbn; auto)) as Hr.
      destruct Hin as [Heq|[Heq|[Heq|[Heq|Hin]]]]; try lia.
      unfold Lall in Hin. rewrite !map_app, EsM, EsG, EsR, EsP in Hin.
      apply in_app_or in Hin as [Hin|Hin]; [apply NM in Hin; lia|].
      apply in_app_or in Hin as [Hin|Hin]; [apply NG in Hin; lia|].
      apply in_app_or in Hin as [Hin|Hin]; [apply NR in Hin; lia|].
      apply in_map_iff in Hin as [q2 [E Hq2]].
      assert (q2 = q) as ->.
      { apply (nodup_flat_same cells3 PP q2 q (r_set q) HndP Hq2 Hq); [rewrite <- E; cbn; auto|cbn; auto]. }
      destruct (HrecP9 q Hq) as [[_ [_ [Hne _]]] _]. congruence. }
    assert (forall (L : list addr), NoDup (map (idof h0) L) -> NoDup L) as Hinv by (intros L HL; eapply NoDup_map_inv; exact HL).
    assert (NoDup (map (fun p : addr * addr => idof h0 (fst p)) Lm)) as HidM by (rewrite <- (map_map fst (idof h0)), EfM; exact HimN).
    assert (NoDup (map (fun p : addr * addr => idof h0 (fst p)) Lg)) as HidG by (rewrite <- (map_map fst (idof h0)), EfG; exact HigN).
    assert (NoDup (map (fun p : addr * addr => idof h0 (fst p)) Lr)) as HidR by (rewrite <- (map_map fst (idof h0)), EfR; exact HirN).
    assert (NoDup (map (fun p : addr * addr => idof h0 (fst p)) Lp)) as HidP by (rewrite <- (map_map fst (idof h0)), EfP; exact HipN).
    assert (NoDup (map r_old PP)) as HPP_old by (rewrite HoldP; apply Hinv; exact HipN).
    (* identifiers of the new objects *)
    assert (forall p, In p (Lall Lm Lg Lr Lp) -> attr_at h9 (snd p) "_id" = idof h0 (fst p)) as Hids9.
    { intros p Hp. unfold Lall in Hp. apply in_app_or in Hp as [Hp|Hp]; [|apply in_app_or in Hp as [Hp|Hp]; [|apply in_app_or in Hp as [Hp|Hp]]].
      - apply in_map_iff in Hp as [q [<- Hq]]. cbn [fst snd]. destruct (HMM_idat q Hq) as [_ [i [Hi Hat]]]. rewrite Hi.
        exact (sprec_id h0 m' ktm "_reaction" h9 W9 q _ i (HrecM9 q Hq) Hi Hat (sh_m_id T HSH)).
      - apply in_map_iff in Hp as [q [<- Hq]]. cbn [fst snd]. destruct (HGG_idat q Hq) as [_ [i [Hi Hat]]]. rewrite Hi.
        exact (sprec_id h0 m' ktg "_reaction" h9 W9 q _ i (HrecG9 q Hq) Hi Hat (sh_g_id T HSH)).
      - apply in_map_iff in Hp as [q [<- Hq]]. cbn [fst snd].
        assert (In (q_old q) OR) as Hin by (rewrite <- HoldR; apply in_map; exact Hq).
        destruct (HirA _ Hin) as [_ [i [Hi Hat]]]. rewrite Hi.
        destruct (HrecR9 q Hq) as [_ [_ [Hoc _]]]. eapply objcopied_attr_atom; [exact Hoc|exact Hi|exact Hat|exact (sh_r_id T HSH)].
      - apply in_map_iff in Hp as [q [<- Hq]]. cbn [fst snd].
        assert (In (r_old q) OP) as Hin by (rewrite <- HoldP; apply in_map; exact Hq).
        destruct (HipA _ Hin) as [_ [i [Hi Hat]]]. rewrite Hi.
        exact (sprec_id h0 m' ktp "_members" h9 W9 q _ i (proj1 (HrecP9 q Hq)) Hi Hat (sh_p_id T HSH)). }
    assert (forall x, x < dlgr -> x <> m' -> get h9 x = get h7 x) as Hsame79.
    { intros x Hx Hne. eapply step_get; [exact S79|lia|]. cbn. intros [Heq|[Heq|[]]]; lia. }
    assert (GI h0 m' dlm dlg dlr dlgr Lm Lg Lr Lp PP ktp h9 W9 (fun _ => [])) as HG9.
    { split.
      - exact SF2s.
      - intros q Hq. exact (proj1 (HrecP9 q Hq)).
      - rewrite Hsame79 by lia. rewrite EsM. exact (ri_dlm _ _ _ _ _ _ _ _ _ _ _ _ HR7).
      - rewrite Hsame79 by lia. rewrite EsG. exact (ri_dlg _ _ _ _ _ _ _ _ _ _ _ _ HR7).
      - rewrite Hsame79 by lia. rewrite EsR. exact Hgdlr7.
      - rewrite EsP. exact Hgdlgr9.
      - exact Hids9. }
    assert (forall q, In q PP -> GrpOld h0 dlm dlg dlr dlgr Lm Lg Lr Lp (r_old q) /\ (fun _ : addr => @nil addr) (r_old q) = []) as HgrpOld.
    { intros q Hq. split; [|reflexivity].
      assert (In (r_old q) OP) as Hin by (rewrite <- HoldP; apply in_map; exact Hq).
      destruct (Hgrp2 _ Hin) as [G1 G2 G3]. destruct (HipA _ Hin) as [_ [i [Hi _]]]. split; eauto.
      intros x Hx. destruct (G2 x Hx) as [xa [c [idx [-> [Hg [Hid Hk]]]]]].
      destruct (ckind c) eqn:Ek; try contradiction.
      - exists xa, c, idx, Lr, dlr. rewrite Ek, EfR. cbn. auto.
      - exists xa, c, idx, Lm, dlm. rewrite Ek, EfM. cbn. auto.
      - exists xa, c, idx, Lg, dlg. rewrite Ek, EfG. cbn. auto.
      - exists xa, c, idx, Lp, dlgr. rewrite Ek, EfP. cbn. auto. }
    assert (map Ref OP = map (fun q => Ref (r_old q)) PP) as EOP by (rewrite <- HoldP, map_map; reflexivity).
    rewrite EOP in Hrun.
    destruct (link_groups_loop h0 m' dlm dlg dlr dlgr Lm Lg Lr Lp PP ktp eq_refl HndP Hsets Hnew_nd
                ltac:(rewrite EfM; apply Hinv; exact HimN) ltac:(rewrite EfG; apply Hinv; exact HigN)
                ltac:(rewrite EfR; apply Hinv; exact HirN) ltac:(rewrite EfP; apply Hinv; exact HipN)
                HidM HidG HidR HidP PP h9 W9 (fun _ => []) true HG9 (incl_refl PP) HPP_old HPP_old HgrpOld)
      as [h10 [E10 [HG10 TG]]].
    unfold st_links in Hrun. rewrite E10 in Hrun. injection Hrun as Eh' Em' Eok. subst h' mres ok.
    split; [reflexivity|]. split; [reflexivity|].
    (* ---- H. solver, final context stack *)
    pose proof (gi_st _ _ _ _ _ _ _ _ _ _ _ _ _ _ _ HG10) as SG10s.
    assert (forall x, In x (map r_set PP) -> In x W9 /\ S dlgr <= x) as HsetsP.
    { intros x Hx. apply in_map_iff in Hx as [q [<- Hq]]. destruct (HrecP9 q Hq) as [[_ [Hw _]] _].
      split; [exact Hw|]. apply (RP q); auto. cbn; auto. }
    assert (Step h0 h9 W9 h10 W9 (map r_set PP)) as SG.
    { split; [exact SG10s|]. split; [exact TG|]. intros x Hx. left. apply HsetsP. exact Hx. }
    assert (In m' W9) as Hm9 by (apply (step_W _ _ _ _ _ _ _ S79); exact Hm7).
    assert (get h10 m' = get h8 m') as Em10.
    { rewrite (step_get _ _ _ _ _ _ _ SG); [|apply (st_W _ _ _ _ SF2s); exact Hm9|intro Hin; apply HsetsP in Hin; lia].
      eapply step_get; [exact SF2|lia|intros [Heq|[]]; lia]. }
    assert (MCell m' h10) as HC11 by (eapply mcell_agree; [exact HC10|exact Em10]).
    destruct Hsolv as [vs [Hvs Dvs]].
    destruct (solver_desc T h0 m' mc h10 W9 vs SG10s Hm9 HC11 Hvs Dvs) as [SH1 [HC12 [[vs' [Hvs' Ivs]] Hat12]]].
    cbv zeta in SH1, HC12, Hvs', Ivs, Hat12. set (h11 := st_solver T mc m' h10) in *. pose proof SH1 as [SH1s _].
    destruct (ctx_desc h0 m' h11 W9 SH1s Hm9 HC12) as [SH2 [HC13 [Hcx13 Hat13]]].
    cbv zeta in SH2, HC13, Hcx13, Hat13. set (cx2 := List.length h11) in *. set (h12 := st_final_ctx m' h11) in *.
    pose proof SH2 as [SH2s _].
    pose proof (step_trans _ _ _ _ _ _ _ _ _ SH1 SH2) as S10_12.
    pose proof (step_trans _ _ _ _ _ _ _ _ _ SG S10_12) as S9_12.
    assert (forall x, In x (map r_set PP ++ [m'] ++ [m']) -> x = m' \/ S dlgr <= x) as HFP912.
    { intros x Hx. apply in_app_or in Hx as [Hx|Hx]; [right; apply HsetsP; exact Hx|]. cbn in Hx. destruct Hx as [<-|[<-|[]]]; auto. }
    (* the attributes of the new model cell *)
    assert (forall t, attr_at h12 m' t =
                      if String.eqb t "_contexts" then Some (Ref cx2)
                      else if String.eqb t "_solver" then Some vs'
                      else if String.eqb t "groups" then Some (Ref dlgr)
                      else if String.eqb t "reactions" then Some (Ref dlr)
                      else if String.eqb t "genes" then Some (Ref dlg)
                      else if String.eqb t "metabolites" then Some (Ref dlm)
                      else attr_at h1 m' t) as Hchain.
    { intros t. rewrite Hat13. destruct (String.eqb t "_contexts") eqn:E1; [reflexivity|].
      destruct (String.eqb t "_solver") eqn:E2'; [apply String.eqb_eq in E2'; subst t; exact Hvs'|].
      apply String.eqb_neq in E2'. rewrite (Hat12 t E2').
      rewrite (attr_at_agree h8 h10 m' t Em10). rewrite Hat10. destruct (String.eqb t "groups"); [reflexivity|].
      rewrite (attr_at_agree h6 h7 m' t); [|eapply step_get; [exact SE|lia|intro Hin; apply HFPr in Hin; lia]].
      rewrite Hat8. destruct (String.eqb t "reactions"); [reflexivity|].
      rewrite (attr_at_agree h4 h5 m' t); [|eapply step_get; [exact SC2|lia|intros [Heq|[]]; lia]].
      rewrite Hat6. destruct (String.eqb t "genes"); [reflexivity|].
      rewrite (attr_at_agree h2 h3 m' t); [|eapply step_get; [exact SB2|lia|intros [Heq|[]]; lia]].
      rewrite Hat4. destruct (String.eqb t "metabolites"); reflexivity. }
    (* one step from h1 to the end, for the explicit deep copies *)
    pose proof (step_trans _ _ _ _ _ _ _ _ _ S16 (step_trans _ _ _ _ _ _ _ _ _ SE (step_trans _ _ _ _ _ _ _ _ _ S79 S9_12))) as S1_12.
    assert (forall q x, In q MM -> In x (cells3 q) -> ~ In x (map r_set PP ++ [m'] ++ [m'])) as HfpM9.
    { intros q x Hq Hx Hin. pose proof (RM q x Hq Hx). destruct (HFP912 x Hin); lia. }
    assert (forall q x, In q GG -> In x (cells3 q) -> ~ In x (map r_set PP ++ [m'] ++ [m'])) as HfpG9.
    { intros q x Hq Hx Hin. pose proof (RG q x Hq Hx). destruct (HFP912 x Hin); lia. }
    assert (forall x, x < S dlgr -> x <> m' -> get h12 x = get h9 x) as Hsame912.
    { intros x Hx Hne. eapply step_get; [exact S9_12|pose proof (step_len _ _ _ _ _ _ SF2); lia|].
      intro Hin. destruct (HFP912 x Hin); lia. }
    apply (mkCopyDesc T h0 mc OM OG OR OP h12 (cx2 :: W9) MM GG PP RR dlm dlg dlr dlgr cx2).
    - exact SH2s.
    - exact HC13.
    - rewrite Hchain. reflexivity.
    - rewrite Hchain. reflexivity.
    - rewrite Hchain. reflexivity.
    - rewrite Hchain. reflexivity.
    - lia.
    - split; [rewrite Hchain; reflexivity|]. split; [exact Hcx13|]. unfold cx2. pose proof (st_len _ _ _ _ SH1s). lia.
    - intros s [<-|Hs].
      + exists vs, vs'. split; [exact Hvs|]. split; [rewrite Hchain; reflexivity|]. eapply diso_step; [exact SH1s|exact SH2|exact Ivs].
      + destruct (Hat3e s Hs) as [v [v' [Hv [Hv' Iv]]]]. exists v, v'. split; [exact Hv|]. split.
        * rewrite Hchain.
          assert (forall nm, In nm ["_contexts"; "metabolites"; "genes"; "reactions"; "groups"; "_solver"] -> String.eqb s nm = false) as Hne.
          { intros nm Hnm. apply String.eqb_neq. intro; subst nm. exact (sh_explicit T HSH s Hnm Hs). }
          rewrite !Hne by (cbn; tauto). exact Hv'.
        * eapply diso_step; [exact SA3s|exact S1_12|exact Iv].
    - intros s Hs. rewrite Hchain.
      assert (forall nm, In nm ["_contexts"; "_solver"; "metabolites"; "genes"; "reactions"; "groups"] -> String.eqb s nm = false) as Hne.
      { intros nm Hnm. apply String.eqb_neq. intro; subst nm. apply Hs. cbn in Hnm. cbn. tauto. }
      rewrite !Hne by (cbn; tauto).
      rewrite Hat3o by (intro Hin; apply Hs; do 6 right; exact Hin).
      rewrite Hat2, (Hne "_contexts") by (cbn; tauto). rewrite Hat1. reflexivity.
    - rewrite Hsame912 by lia. rewrite <- EsM. exact (gi_dlm _ _ _ _ _ _ _ _ _ _ _ _ _ _ _ HG9).
    - exact HoldM.
    - rewrite Hsame912 by lia. rewrite <- EsG. exact (gi_dlg _ _ _ _ _ _ _ _ _ _ _ _ _ _ _ HG9).
    - exact HoldG.
    - rewrite Hsame912 by lia. rewrite <- EsR. exact (gi_dlr _ _ _ _ _ _ _ _ _ _ _ _ _ _ _ HG9).
    - exact HoldR.
    - rewrite Hsame912 by lia. rewrite <- EsP. exact (gi_dlgr _ _ _ _ _ _ _ _ _ _ _ _ _ _ _ HG9).
    - exact HoldP.
    - exact (sprecs_step ktm "_reaction" MM (fun q => set_items (rs_met h0 (r_old q) RR)) h9 W9 h12 _ _ HrecM9 SF2s S9_12 HfpM9).
    - exact (sprecs_step ktg "_reaction" GG (fun q => set_items (rs_gene h0 (r_old q) RR)) h9 W9 h12 _ _ HrecG9 SF2s S9_12 HfpG9).
    - intros q Hq. exists lo. destruct S9_12 as [S12 [T12 F12]]. destruct (RRrng q Hq) as [R1 [R2 R3]].
      eapply rxrec_tr; [apply HrecR9; exact Hq|exact SF2s|exact T12|exact F12| | |];
        intro Hin; destruct (HFP912 _ Hin); lia.
    - intros q Hq.
      assert (SpRec h0 m' ktp "_members" h10 W9 q (set_items (map (new_member h0 Lm Lg Lr Lp) (members h0 (r_old q))))) as Hq10.
      { pose proof (gi_pp _ _ _ _ _ _ _ _ _ _ _ _ _ _ _ HG10 q Hq) as H. cbv beta in H.
        assert (existsb (fun q0 : rec3 => Nat.eqb (r_old q0) (r_old q)) PP = true) as Ee.
        { apply existsb_exists. exists q. split; auto. apply Nat.eqb_refl. }
        rewrite Ee in H. exact H. }
      destruct S10_12 as [S12 [T12 F12]].
      eapply sprec_tr_g; [exact Hq10|exact SG10s|exact T12|exact F12| |];
        cbn; intros [Heq|[Heq|[]]]; [pose proof (RP q (r_new q) Hq ltac:(cbn; auto))|pose proof (RP q (r_new q) Hq ltac:(cbn; auto))
                                     |pose proof (RP q (r_set q) Hq ltac:(cbn; auto))|pose proof (RP q (r_set q) Hq ltac:(cbn; auto))]; lia.
  Qed.
End Proof.
