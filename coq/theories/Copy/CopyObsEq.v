(* C12 — `copy_equiv`: from the functional description of Model.copy (`CopyDesc`) to the equality of the
   observations `obs_model` (Copy/Obs.v) of the copy and of the original, for every model that is consistent
   (`ModelOk`) and whose back references are consistent with its reactions (`Consistent`: every object points at
   the model, metabolite / gene `_reaction` sets and reaction `_genes` sets agree with the stoichiometry and the
   rules, link containers have the classes the constructors give them). *)
From Coq Require Import List String Bool Arith Lia Permutation.
From Cobra.Copy Require Import Heap Model Obs Lemmas Proofs ModelCopy CopyWf CopyStages CopySep CopyHeapFacts CopyData
     CopyState CopyObj CopySpecies CopyLink CopyRxn CopyGroups CopyModelCell CopyDesc CopySort.
Import ListNotations.
Open Scope string_scope.
Open Scope list_scope.

Lemma DEPTH_S : DEPTH = S 7.
Proof. reflexivity. Qed.

Local Opaque DEPTH.

(* ------------------------------------------------------------------ generic facts about obs *)
Lemma obs_val_atom : forall h r f s, obs_val h r f (At s) = TAt s.
Proof. intros h r [|f] s; reflexivity. Qed.

Lemma filter_keep_all : forall (l : list (value * value)),
    filter (fun kv => match fst kv with At n => negb (mems n []) | Ref _ => true end) l = l.
Proof.
  intros l. assert (forall (f : value * value -> bool) (l : list (value * value)), (forall x, f x = true) -> filter f l = l) as Hf.
  { intros f l0 Hall. induction l0 as [|x r IH]; cbn; [reflexivity|]. rewrite Hall, IH. reflexivity. }
  apply Hf. intros [[s|a] v]; reflexivity.
Qed.

Definition obj_kind (k : kind) : Prop := k = KMetabolite \/ k = KGene \/ k = KReaction \/ k = KGroup.

(* the objects of one class of a model, as seen from the root R in heap H *)
Definition ClassIn (H : heap) (R : addr) (K : kind) (objs : list addr) : Prop :=
  (exists dl c, attr_at H R (list_attr K) = Some (Ref dl) /\ get H dl = Some c /\ is_object (ckind c) = false /\
                elems c = map Ref objs) /\
  NoDup (map (fun a => attr_at H a "_id") objs) /\
  forall a, In a objs -> exists oc i, get H a = Some oc /\ ckind oc = K /\ attr oc "_id" = Some (At i).

Lemma find_id_matches : forall H idv objs a,
    NoDup (map (fun x => attr_at H x "_id") objs) -> In a objs -> attr_at H a "_id" = Some idv ->
    find (id_matches H idv) (map Ref objs) = Some (Ref a).
Proof.
  intros H idv objs a. induction objs as [|x r IH]; intros Hnd Hin Hid; [contradiction|].
  cbn [map find]. inv Hnd. destruct Hin as [->|Hin].
  - unfold id_matches. rewrite Hid, value_eqb_refl. reflexivity.
  - assert (id_matches H idv (Ref x) = false) as ->; [|auto].
    unfold id_matches. destruct (attr_at H x "_id") as [i|] eqn:E; auto. destruct (value_eqb i idv) eqn:Ev; auto.
    apply value_eqb_eq in Ev. subst i. exfalso. apply H2. apply in_map_iff. exists a. split; [congruence|exact Hin].
Qed.

(* a reference to a registered object is observed as (class, id, registered = true) *)
Lemma tlink_class : forall H R K objs a i f,
    ClassIn H R K objs -> obj_kind K -> In a objs -> attr_at H a "_id" = Some (At i) ->
    obs_val H (Some R) (S f) (Ref a) = TLink K i true.
Proof.
  intros H R K objs a i f [[dl [c [Hl [Hg [Hno He]]]]] [Hnd Hobj]] HK Hin Hid.
  destruct (Hobj a Hin) as [oc [i' [Hoc [Hk Hi']]]].
  assert (i' = i) as -> by (unfold attr_at in Hid; rewrite Hoc in Hid; congruence).
  cbn [obs_val]. rewrite Hoc, Hk.
  assert (is_object K = true) as -> by (destruct HK as [E|[E|[E|E]]]; subst K; reflexivity).
  rewrite Hi'. f_equal. unfold registered.
  assert (match K with KModel => Nat.eqb a R | _ =>
            match attr_at H R (list_attr K) with
            | Some (Ref dl0) => match get_by_id H dl0 (At i) with Some x => Nat.eqb x a | None => false end
            | _ => false end end = true) as Hr.
  { assert (get_by_id H dl (At i) = Some a) as Hgb.
    { unfold get_by_id. rewrite Hg, He. rewrite (find_id_matches H (At i) objs a Hnd Hin Hid). reflexivity. }
    destruct HK as [E|[E|[E|E]]]; subst K; cbn [list_attr] in *; rewrite Hl, Hgb; apply Nat.eqb_refl. }
  destruct HK as [E|[E|[E|E]]]; subst K; exact Hr.
Qed.

(* two object cells with the same attribute names whose values are observed equal *)
Lemma map_items_obs : forall (H1 H2 : heap) r1 r2 (d : nat) (l1 l2 : list (value * value)),
    keys_of l1 = keys_of l2 -> NoDup (keys_of l2) -> (forall k, In k (keys_of l2) -> is_atom k = true) ->
    (forall k v1 v2, lookup k l1 = Some v1 -> lookup k l2 = Some v2 -> obs_val H1 r1 d v1 = obs_val H2 r2 d v2) ->
    map (fun kv => (obs_val H1 r1 d (fst kv), obs_val H1 r1 d (snd kv))) l1 =
    map (fun kv => (obs_val H2 r2 d (fst kv), obs_val H2 r2 d (snd kv))) l2.
Proof.
  intros H1 H2 r1 r2 d l1. induction l1 as [|[k1 v1] t1 IH]; intros [|[k2 v2] t2] Hk Hnd Hat Hrel; cbn in Hk; try discriminate; auto.
  injection Hk as Ek Et. subst k1. cbn [map fst snd]. cbn [keys_of map fst] in Hnd. inversion Hnd as [|? ? Hnin Hnd']; subst.
  assert (is_atom k2 = true) as Ha by (apply Hat; left; reflexivity). destruct k2 as [s|a]; [|discriminate].
  rewrite !obs_val_atom. f_equal.
  - f_equal. apply (Hrel (At s)); cbn [lookup]; rewrite value_eqb_refl; reflexivity.
  - apply IH; auto.
    + intros k Hin. apply Hat. right. exact Hin.
    + intros k w1 w2 L1 L2. apply (Hrel k); cbn [lookup].
      * destruct (value_eqb k (At s)) eqn:E; [|exact L1]. apply value_eqb_eq in E. subst k.
        exfalso. apply Hnin. apply lookup_in in L2. apply in_map_iff. exists (At s, w2). auto.
      * destruct (value_eqb k (At s)) eqn:E; [|exact L2]. apply value_eqb_eq in E. subst k.
        exfalso. apply Hnin. apply lookup_in in L2. apply in_map_iff. exists (At s, w2). auto.
Qed.

Lemma obs_obj_eq : forall (H1 H2 : heap) r1 r2 a1 a2 c1 c2,
    get H1 a1 = Some c1 -> get H2 a2 = Some c2 -> ckind c1 = ckind c2 ->
    keys_of (citems c1) = keys_of (citems c2) -> NoDup (keys_of (citems c2)) ->
    (forall k, In k (keys_of (citems c2)) -> is_atom k = true) ->
    (forall s v1 v2, attr c1 s = Some v1 -> attr c2 s = Some v2 -> obs_val H1 r1 DEPTH v1 = obs_val H2 r2 DEPTH v2) ->
    obs_obj H1 r1 [] a1 = obs_obj H2 r2 [] a2.
Proof.
  intros H1 H2 r1 r2 a1 a2 c1 c2 G1 G2 Hk Hkeys Hnd Hat Hrel. unfold obs_obj. rewrite G1, G2, Hk.
  rewrite (filter_keep_all (citems c1)), (filter_keep_all (citems c2)).
  assert (map (fun kv => (obs_val H1 r1 DEPTH (fst kv), obs_val H1 r1 DEPTH (snd kv))) (citems c1) =
          map (fun kv => (obs_val H2 r2 DEPTH (fst kv), obs_val H2 r2 DEPTH (snd kv))) (citems c2)) as ->; [|reflexivity].
  apply (map_items_obs H1 H2 r1 r2 DEPTH); [exact Hkeys|exact Hnd|exact Hat|].
  intros k v1 v2 L1 L2. assert (is_atom k = true) as Ha.
  { apply Hat. apply lookup_in in L2. unfold keys_of. apply in_map_iff. exists (k, v2). auto. }
  destruct k as [s|a]; [|discriminate]. apply (Hrel s); assumption.
Qed.

(* ---- sets of references: the order of the elements is not content *)
Lemma append_inj_l : forall (p a b : string), (p ++ a)%string = (p ++ b)%string -> a = b.
Proof. induction p as [|c p IH]; cbn; intros a b H; auto. inv H. auto. Qed.

Lemma link_key_inj : forall k1 i1 k2 i2 b1 b2, obj_kind k1 -> obj_kind k2 ->
    tree_key (TLink k1 i1 b1) = tree_key (TLink k2 i2 b2) -> k1 = k2 /\ i1 = i2.
Proof.
  intros k1 i1 k2 i2 b1 b2 K1 K2 E. unfold tree_key in E.
  assert (k1 = k2) as ->.
  { apply (f_equal (substring 0 2)) in E.
    destruct K1 as [E1|[E1|[E1|E1]]], K2 as [E2|[E2|[E2|E2]]]; subst k1 k2; try reflexivity;
      unfold kind_name in E; cbn [append substring] in E; discriminate. }
  split; [reflexivity|]. apply append_inj_l in E. apply append_inj_l in E. exact E.
Qed.

Lemma set_obs_eq : forall (H1 H2 : heap) r1 r2 s1 s2 (PL : list (addr * addr)) (olds : list addr)
                          (t : addr * addr -> tree) f,
    get H1 s1 = Some (mkCell KSet (set_items (map snd PL))) ->
    get H2 s2 = Some (mkCell KSet (set_items olds)) ->
    Permutation (map fst PL) olds ->
    (forall p, In p PL -> obs_val H1 r1 f (Ref (snd p)) = t p /\ obs_val H2 r2 f (Ref (fst p)) = t p) ->
    NoDup (map (fun p => tree_key (t p)) PL) ->
    obs_val H1 r1 (S f) (Ref s1) = obs_val H2 r2 (S f) (Ref s2).
Proof.
  intros H1 H2 r1 r2 s1 s2 PL olds t f G1 G2 HP Ht Hnd. cbn [obs_val]. rewrite G1, G2. cbn [ckind is_object citems].
  f_equal. unfold set_items. rewrite !map_map. cbn [fst snd]. rewrite !obs_val_atom.
  assert (map (fun x => (obs_val H1 r1 f (Ref (snd x)), TAt "")) PL = map (fun p => (t p, TAt "")) PL) as ->.
  { apply map_ext_in. intros p Hp. rewrite (proj1 (Ht p Hp)). reflexivity. }
  (* the old side, through the permutation *)
  assert (forall o, In o olds -> exists p, In p PL /\ fst p = o) as Hcov.
  { intros o Ho. apply (Permutation_in _ (Permutation_sym HP)) in Ho. apply in_map_iff in Ho as [p [E Hp]]. eauto. }
  set (told := fun o : addr => obs_val H2 r2 f (Ref o)).
  assert (map (fun x => (obs_val H2 r2 f (Ref x), TAt "")) olds = map (fun o => (told o, TAt "")) olds) as -> by reflexivity.
  assert (map (fun p => (t p, TAt "")) PL = map (fun o => (told o, TAt "")) (map fst PL)) as ->.
  { rewrite map_map. apply map_ext_in. intros p Hp. unfold told. rewrite (proj2 (Ht p Hp)). reflexivity. }
  apply sort_items_permutation.
  - apply Permutation_map. exact HP.
  - rewrite !map_map. unfold ikey. cbn [fst].
    assert (map (fun x => tree_key (told (fst x))) PL = map (fun p => tree_key (t p)) PL) as ->; [|exact Hnd].
    apply map_ext_in. intros p Hp. unfold told. rewrite (proj2 (Ht p Hp)). reflexivity.
Qed.

Lemma obs_val_ref_plain : forall H r f a c,
    get H a = Some c -> is_object (ckind c) = false ->
    obs_val H r (S f) (Ref a) =
    TNode (ckind c) (match ckind c with
                     | KSet => sort_items (map (fun kv => (obs_val H r f (fst kv), obs_val H r f (snd kv))) (citems c))
                     | _ => map (fun kv => (obs_val H r f (fst kv), obs_val H r f (snd kv))) (citems c)
                     end).
Proof. intros H r f a c Hg Hk. cbn [obs_val]. rewrite Hg, Hk. reflexivity. Qed.

(* an object is observed as (class, id, registered) whatever the depth; the model itself too *)
Lemma tlink_model : forall H R f c i,
    get H R = Some c -> ckind c = KModel -> attr c "_id" = Some (At i) ->
    obs_val H (Some R) (S f) (Ref R) = TLink KModel i true.
Proof.
  intros H R f c i Hg Hk Hi. cbn [obs_val]. rewrite Hg, Hk. cbn [is_object]. rewrite Hi. unfold registered.
  rewrite Nat.eqb_refl. reflexivity.
Qed.

Lemma tlink_model_noid : forall H R f c,
    get H R = Some c -> ckind c = KModel -> attr c "_id" = None ->
    obs_val H (Some R) (S f) (Ref R) = TLink KModel "?" true.
Proof.
  intros H R f c Hg Hk Hi. cbn [obs_val]. rewrite Hg, Hk. cbn [is_object]. rewrite Hi. unfold registered.
  rewrite Nat.eqb_refl. reflexivity.
Qed.

Lemma elems_dl_items : forall news, elems (mkCell KDictList (dl_items news)) = map Ref news.
Proof. intros news. unfold elems, dl_items. cbn [ckind is_object citems]. rewrite map_map. reflexivity. Qed.

Section ObsEq.
  Variable T : copytable.
  Variable h0 : heap.
  Variable m : addr.
  Variable mc : cell.
  Variables OM OG OR OP : list addr.
  Notation n := (List.length h0).
  Notation m' := (List.length h0).
  Notation ktm := (ct_met T).
  Notation ktg := (ct_gene T).
  Notation ktr := (ct_rxn T).
  Notation ktp := (ct_group T).
  Hypothesis HTS : TableSafe T.
  Hypothesis HSH : TableShape T.
  Hypothesis HOK : ModelOk T h0 m mc OM OG OR OP.

  Definition specials : list string :=
    "_contexts" :: "_solver" :: "metabolites" :: "genes" :: "reactions" :: "groups" :: map fst (ct_model_explicit T).

  (* the back references of the original model agree with its reactions *)
  Record Consistent : Prop := mkConsistent {
    co_kind_m : forall a oc, In a OM -> get h0 a = Some oc -> ckind oc = KMetabolite;
    co_kind_g : forall a oc, In a OG -> get h0 a = Some oc -> ckind oc = KGene;
    co_kind_r : forall a oc, In a OR -> get h0 a = Some oc -> ckind oc = KReaction;
    co_kind_p : forall a oc, In a OP -> get h0 a = Some oc -> ckind oc = KGroup;
    co_list : forall name, In name ["metabolites"; "genes"; "reactions"; "groups"] ->
                           exists d c, attr mc name = Some (Ref d) /\ get h0 d = Some c /\ ckind c = KDictList;
    co_model_ptr : forall a, In a (OM ++ OG ++ OR ++ OP) -> attr_at h0 a "_model" = Some (Ref m);
    co_mid : mems "_id" (ct_model_excluded T) = false /\ ~ In "_id" specials;
    co_met_set : forall a, In a OM -> exists s olds,
          attr_at h0 a "_reaction" = Some (Ref s) /\ get h0 s = Some (mkCell KSet (set_items olds)) /\ NoDup olds /\
          (forall r, In r olds <-> In r OR /\ has_key (Ref a) (sitems h0 r) = true);
    co_gene_set : forall g, In g OG -> exists s olds,
          attr_at h0 g "_reaction" = Some (Ref s) /\ get h0 s = Some (mkCell KSet (set_items olds)) /\ NoDup olds /\
          (forall r, In r olds <-> In r OR /\ has_name (idof h0 g) (gnames h0 r) = true);
    co_rxn_mets : forall r, In r OR -> exists d dc,
          attr_at h0 r "_metabolites" = Some (Ref d) /\ get h0 d = Some dc /\ ckind dc = KDict /\
          forall kv, In kv (sitems h0 r) -> is_atom (snd kv) = true;
    co_rxn_genes : forall r, In r OR -> exists gs olds,
          attr_at h0 r "_genes" = Some (Ref gs) /\ get h0 gs = Some (mkCell KSet (set_items olds)) /\ NoDup olds /\
          (forall g, In g olds <-> In g OG /\ has_name (idof h0 g) (gnames h0 r) = true);
    co_grp_set : forall ga, In ga OP -> exists ms olds,
          attr_at h0 ga "_members" = Some (Ref ms) /\ get h0 ms = Some (mkCell KSet (set_items olds));
    co_model_cell : forall s v, attr mc s = Some v -> ~ In s specials ->
                                mems s (ct_model_excluded T) = false /\ is_atom v = true
  }.
  Hypothesis HCO : Consistent.

  (* ---------------- the description of the final heap (the fields of CopyDesc) *)
  Variable h' : heap.
  Variable W : list addr.
  Variables MM GG PP : list rec3.
  Variable RR : list rec4.
  Variables dlm dlg dlr dlgr cx : addr.
  Hypothesis D_cell : MCell m' h'.
  Hypothesis D_am : attr_at h' m' "metabolites" = Some (Ref dlm).
  Hypothesis D_ag : attr_at h' m' "genes" = Some (Ref dlg).
  Hypothesis D_ar : attr_at h' m' "reactions" = Some (Ref dlr).
  Hypothesis D_ap : attr_at h' m' "groups" = Some (Ref dlgr).
  Hypothesis D_deep : forall s, In s ("_solver" :: map fst (ct_model_explicit T)) ->
      exists v v', attr mc s = Some v /\ attr_at h' m' s = Some v' /\ DIso h0 v (PD n W (List.length h')) h' v'.
  Hypothesis D_other : forall s, ~ In s specials ->
      attr_at h' m' s = if mems s (ct_model_excluded T) then None else attr mc s.
  Hypothesis D_dlm : get h' dlm = Some (mkCell KDictList (dl_items (map r_new MM))).
  Hypothesis D_oldM : map r_old MM = OM.
  Hypothesis D_dlg : get h' dlg = Some (mkCell KDictList (dl_items (map r_new GG))).
  Hypothesis D_oldG : map r_old GG = OG.
  Hypothesis D_dlr : get h' dlr = Some (mkCell KDictList (dl_items (map q_new RR))).
  Hypothesis D_oldR : map q_old RR = OR.
  Hypothesis D_dlgr : get h' dlgr = Some (mkCell KDictList (dl_items (map r_new PP))).
  Hypothesis D_oldP : map r_old PP = OP.
  Hypothesis D_MM : forall q, In q MM -> SpRec h0 m' ktm "_reaction" h' W q (set_items (rs_met h0 (r_old q) RR)).
  Hypothesis D_GG : forall q, In q GG -> SpRec h0 m' ktg "_reaction" h' W q (set_items (rs_gene h0 (r_old q) RR)).
  Hypothesis D_RR : forall q, In q RR -> exists lo, RxRec T h0 m' MM GG lo h' W q.
  Hypothesis D_PP : forall q, In q PP -> SpRec h0 m' ktp "_members" h' W q
                        (set_items (map (new_member h0 (pairs3 MM) (pairs3 GG) (pairs4 RR) (pairs3 PP)) (members h0 (r_old q)))).

  (* ---------------- identifiers *)
  Lemma ids_str : forall L a, IdsOk h0 L -> In a L -> exists i, idof h0 a = Some (At i).
  Proof.
    intros L a [_ H] Ha. destruct (H a Ha) as [_ [i [Hi Hat]]]. destruct i as [s|x]; [eauto|discriminate].
  Qed.

  Lemma objcopied_get : forall kt a a', ObjCopied h0 kt h' W a a' ->
    exists oc c', get h0 a = Some oc /\ get h' a' = Some c' /\ ckind c' = ckind oc /\ keys_of (citems c') = keys_of (citems oc).
  Proof. intros kt a a' [oc [c' [H1 [H2 [H3 [H4 _]]]]]]. eauto 8. Qed.

  (* the four classes, in the copy and in the original *)
  Lemma class_new_gen : forall K kt (L : list (addr * addr)) dl olds,
      obj_kind K -> attr_at h' m' (list_attr K) = Some (Ref dl) ->
      get h' dl = Some (mkCell KDictList (dl_items (map snd L))) -> map fst L = olds -> IdsOk h0 olds ->
      mems "_id" (kt_excluded kt) = false ->
      (forall p, In p L -> ObjCopied h0 kt h' W (fst p) (snd p)) ->
      (forall a oc, In a olds -> get h0 a = Some oc -> ckind oc = K) ->
      ClassIn h' m' K (map snd L) /\ forall p, In p L -> attr_at h' (snd p) "_id" = idof h0 (fst p).
  Proof.
    intros K kt L dl olds HK Hattr Hdl Hold Hids Hex Hoc Hkind.
    assert (forall p, In p L -> attr_at h' (snd p) "_id" = idof h0 (fst p)) as Hid.
    { intros p Hp. assert (In (fst p) olds) as Hin by (rewrite <- Hold; apply in_map; exact Hp).
      destruct (proj2 Hids _ Hin) as [_ [i [Hi Hat]]]. rewrite Hi.
      eapply objcopied_attr_atom; [apply Hoc; exact Hp|exact Hi|exact Hat|exact Hex]. }
    split; [|exact Hid]. split; [|split].
    - exists dl, (mkCell KDictList (dl_items (map snd L))). split; [exact Hattr|]. split; [exact Hdl|]. split; [reflexivity|].
      apply elems_dl_items.
    - rewrite map_map. assert (map (fun x => attr_at h' (snd x) "_id") L = map (idof h0) (map fst L)) as ->.
      { rewrite map_map. apply map_ext_in. intros p Hp. apply Hid. exact Hp. }
      rewrite Hold. apply Hids.
    - intros a Ha. apply in_map_iff in Ha as [p [<- Hp]].
      destruct (objcopied_get _ _ _ (Hoc p Hp)) as [oc [c' [G1 [G2 [G3 _]]]]].
      assert (In (fst p) olds) as Hin by (rewrite <- Hold; apply in_map; exact Hp).
      destruct (ids_str olds _ Hids Hin) as [i Hi].
      exists c', i. split; [exact G2|]. split; [rewrite G3; eapply Hkind; eauto|].
      pose proof (Hid p Hp) as E. rewrite Hi in E. unfold attr_at in E. rewrite G2 in E. exact E.
  Qed.

  Lemma class_old_gen : forall K name olds,
      obj_kind K -> list_attr K = name -> In name ["metabolites"; "genes"; "reactions"; "groups"] ->
      list_elems h0 (attr mc name) = map Ref olds -> IdsOk h0 olds ->
      (forall a oc, In a olds -> get h0 a = Some oc -> ckind oc = K) ->
      ClassIn h0 m K olds.
  Proof.
    intros K name olds HK Hname Hin Hl Hids Hkind. destruct (co_list HCO name Hin) as [d [c [Ha [Hg Hk]]]].
    split; [|split].
    - exists d, c. rewrite Hname. split; [unfold attr_at; rewrite (mo_get _ _ _ _ _ _ _ _ HOK); exact Ha|].
      split; [exact Hg|]. split; [rewrite Hk; reflexivity|].
      rewrite Ha in Hl. unfold list_elems in Hl. rewrite Hg in Hl. exact Hl.
    - apply Hids.
    - intros a Ha'. destruct (proj2 Hids a Ha') as [Hlt _]. destruct (ids_str olds a Hids Ha') as [i Hi].
      destruct (get_some_lt h0 a Hlt) as [oc Hoc]. exists oc, i. split; [exact Hoc|]. split; [eapply Hkind; eauto|].
      unfold idof, attr_at in Hi. rewrite Hoc in Hi. exact Hi.
  Qed.

  (* ---------------- the four classes instantiated *)
  Definition LM := pairs3 MM.
  Definition LG := pairs3 GG.
  Definition LR := pairs4 RR.
  Definition LP := pairs3 PP.

  Lemma fst_LM : map fst LM = OM. Proof. unfold LM, pairs3. rewrite map_map. exact D_oldM. Qed.
  Lemma fst_LG : map fst LG = OG. Proof. unfold LG, pairs3. rewrite map_map. exact D_oldG. Qed.
  Lemma fst_LR : map fst LR = OR. Proof. unfold LR, pairs4. rewrite map_map. exact D_oldR. Qed.
  Lemma fst_LP : map fst LP = OP. Proof. unfold LP, pairs3. rewrite map_map. exact D_oldP. Qed.
  Lemma snd_LM : map snd LM = map r_new MM. Proof. unfold LM, pairs3. rewrite map_map. reflexivity. Qed.
  Lemma snd_LG : map snd LG = map r_new GG. Proof. unfold LG, pairs3. rewrite map_map. reflexivity. Qed.
  Lemma snd_LR : map snd LR = map q_new RR. Proof. unfold LR, pairs4. rewrite map_map. reflexivity. Qed.
  Lemma snd_LP : map snd LP = map r_new PP. Proof. unfold LP, pairs3. rewrite map_map. reflexivity. Qed.

  Lemma oc_M : forall p, In p LM -> ObjCopied h0 ktm h' W (fst p) (snd p).
  Proof. intros p Hp. apply in_map_iff in Hp as [q [<- Hq]]. apply (D_MM q Hq). Qed.
  Lemma oc_G : forall p, In p LG -> ObjCopied h0 ktg h' W (fst p) (snd p).
  Proof. intros p Hp. apply in_map_iff in Hp as [q [<- Hq]]. apply (D_GG q Hq). Qed.
  Lemma oc_R : forall p, In p LR -> ObjCopied h0 ktr h' W (fst p) (snd p).
  Proof. intros p Hp. apply in_map_iff in Hp as [q [<- Hq]]. destruct (D_RR q Hq) as [lo H]. apply H. Qed.
  Lemma oc_P : forall p, In p LP -> ObjCopied h0 ktp h' W (fst p) (snd p).
  Proof. intros p Hp. apply in_map_iff in Hp as [q [<- Hq]]. apply (D_PP q Hq). Qed.

  Definition kM : obj_kind KMetabolite := or_introl eq_refl.
  Definition kG : obj_kind KGene := or_intror (or_introl eq_refl).
  Definition kR : obj_kind KReaction := or_intror (or_intror (or_introl eq_refl)).
  Definition kP : obj_kind KGroup := or_intror (or_intror (or_intror eq_refl)).

  Lemma cls_new_M : ClassIn h' m' KMetabolite (map snd LM) /\ forall p, In p LM -> attr_at h' (snd p) "_id" = idof h0 (fst p).
  Proof.
    apply (class_new_gen KMetabolite ktm LM dlm OM kM D_am); [rewrite snd_LM; exact D_dlm|exact fst_LM|apply (mo_ids_m _ _ _ _ _ _ _ _ HOK)
                                                              |apply (sh_m_id T HSH)|exact oc_M|apply (co_kind_m HCO)].
  Qed.
  Lemma cls_new_G : ClassIn h' m' KGene (map snd LG) /\ forall p, In p LG -> attr_at h' (snd p) "_id" = idof h0 (fst p).
  Proof.
    apply (class_new_gen KGene ktg LG dlg OG kG D_ag); [rewrite snd_LG; exact D_dlg|exact fst_LG|apply (mo_ids_g _ _ _ _ _ _ _ _ HOK)
                                                        |apply (sh_g_id T HSH)|exact oc_G|apply (co_kind_g HCO)].
  Qed.
  Lemma cls_new_R : ClassIn h' m' KReaction (map snd LR) /\ forall p, In p LR -> attr_at h' (snd p) "_id" = idof h0 (fst p).
  Proof.
    apply (class_new_gen KReaction ktr LR dlr OR kR D_ar); [rewrite snd_LR; exact D_dlr|exact fst_LR|apply (mo_ids_r _ _ _ _ _ _ _ _ HOK)
                                                            |apply (sh_r_id T HSH)|exact oc_R|apply (co_kind_r HCO)].
  Qed.
  Lemma cls_new_P : ClassIn h' m' KGroup (map snd LP) /\ forall p, In p LP -> attr_at h' (snd p) "_id" = idof h0 (fst p).
  Proof.
    apply (class_new_gen KGroup ktp LP dlgr OP kP D_ap); [rewrite snd_LP; exact D_dlgr|exact fst_LP|apply (mo_ids_p _ _ _ _ _ _ _ _ HOK)
                                                          |apply (sh_p_id T HSH)|exact oc_P|apply (co_kind_p HCO)].
  Qed.

  Lemma cls_old_M : ClassIn h0 m KMetabolite OM.
  Proof. apply (class_old_gen KMetabolite "metabolites" OM kM eq_refl); [cbn; tauto|apply (mo_lm _ _ _ _ _ _ _ _ HOK)|apply (mo_ids_m _ _ _ _ _ _ _ _ HOK)|apply (co_kind_m HCO)]. Qed.
  Lemma cls_old_G : ClassIn h0 m KGene OG.
  Proof. apply (class_old_gen KGene "genes" OG kG eq_refl); [cbn; tauto|apply (mo_lg _ _ _ _ _ _ _ _ HOK)|apply (mo_ids_g _ _ _ _ _ _ _ _ HOK)|apply (co_kind_g HCO)]. Qed.
  Lemma cls_old_R : ClassIn h0 m KReaction OR.
  Proof. apply (class_old_gen KReaction "reactions" OR kR eq_refl); [cbn; tauto|apply (mo_lr _ _ _ _ _ _ _ _ HOK)|apply (mo_ids_r _ _ _ _ _ _ _ _ HOK)|apply (co_kind_r HCO)]. Qed.
  Lemma cls_old_P : ClassIn h0 m KGroup OP.
  Proof. apply (class_old_gen KGroup "groups" OP kP eq_refl); [cbn; tauto|apply (mo_lp _ _ _ _ _ _ _ _ HOK)|apply (mo_ids_p _ _ _ _ _ _ _ _ HOK)|apply (co_kind_p HCO)]. Qed.

  (* one statement for the four classes: a pair (old, new) of class K is observed as the same link on both sides *)
  Definition ClassPair (K : kind) (L : list (addr * addr)) (olds : list addr) : Prop :=
    obj_kind K /\ map fst L = olds /\ IdsOk h0 olds /\ ClassIn h' m' K (map snd L) /\ ClassIn h0 m K olds /\
    forall p, In p L -> attr_at h' (snd p) "_id" = idof h0 (fst p).

  Lemma cp_M : ClassPair KMetabolite LM OM.
  Proof. split; [exact kM|]. split; [exact fst_LM|]. split; [apply (mo_ids_m _ _ _ _ _ _ _ _ HOK)|]. split; [apply cls_new_M|]. split; [exact cls_old_M|apply cls_new_M]. Qed.
  Lemma cp_G : ClassPair KGene LG OG.
  Proof. split; [exact kG|]. split; [exact fst_LG|]. split; [apply (mo_ids_g _ _ _ _ _ _ _ _ HOK)|]. split; [apply cls_new_G|]. split; [exact cls_old_G|apply cls_new_G]. Qed.
  Lemma cp_R : ClassPair KReaction LR OR.
  Proof. split; [exact kR|]. split; [exact fst_LR|]. split; [apply (mo_ids_r _ _ _ _ _ _ _ _ HOK)|]. split; [apply cls_new_R|]. split; [exact cls_old_R|apply cls_new_R]. Qed.
  Lemma cp_P : ClassPair KGroup LP OP.
  Proof. split; [exact kP|]. split; [exact fst_LP|]. split; [apply (mo_ids_p _ _ _ _ _ _ _ _ HOK)|]. split; [apply cls_new_P|]. split; [exact cls_old_P|apply cls_new_P]. Qed.

  Lemma tlink_pair : forall K L olds p f, ClassPair K L olds -> In p L ->
    exists i, idof h0 (fst p) = Some (At i) /\
              obs_val h' (Some m') (S f) (Ref (snd p)) = TLink K i true /\
              obs_val h0 (Some m) (S f) (Ref (fst p)) = TLink K i true.
  Proof.
    intros K L olds p f [HK [Hf [Hids [Cn [Co Hid]]]]] Hp.
    assert (In (fst p) olds) as Hin by (rewrite <- Hf; apply in_map; exact Hp).
    destruct (ids_str olds _ Hids Hin) as [i Hi]. exists i. split; [exact Hi|]. split.
    - apply (tlink_class h' m' K (map snd L) (snd p) i f Cn HK); [apply in_map; exact Hp|]. rewrite (Hid p Hp). exact Hi.
    - apply (tlink_class h0 m K olds (fst p) i f Co HK Hin). exact Hi.
  Qed.

  (* pairs are determined by their old component, and distinct pairs have distinct link keys *)
  Lemma pair_fst_inj : forall K L olds p q, ClassPair K L olds -> In p L -> In q L -> fst p = fst q ->
    attr_at h' (snd p) "_id" = attr_at h' (snd q) "_id".
  Proof. intros K L olds p q [_ [_ [_ [_ [_ Hid]]]]] Hp Hq E. rewrite (Hid p Hp), (Hid q Hq), E. reflexivity. Qed.

  (* ---------------- attributes that are copied *)
  Lemma attr_rel_copied : forall kt a a' oc c' s v1 v2,
      ObjCopied h0 kt h' W a a' -> get h0 a = Some oc -> get h' a' = Some c' ->
      mems s (kt_excluded kt) = false -> attr c' s = Some v1 -> attr oc s = Some v2 ->
      obs_val h' (Some m') DEPTH v1 = obs_val h0 (Some m) DEPTH v2.
  Proof.
    intros kt a a' oc c' s v1 v2 [oc0 [c0 [G1 [G2 [_ [_ Hat]]]]]] Ho Hc Hex A1 A2.
    rewrite Ho in G1. inv G1. rewrite Hc in G2. inv G2.
    unfold attr in A2. apply lookup_in in A2. destruct (Hat s v2 A2 Hex) as [v' [Hv' Hiso]].
    rewrite A1 in Hv'. inv Hv'. eapply diso_obs_val. exact Hiso.
  Qed.

  (* ---------------- the pointer to the model *)
  Lemma model_link_eq : forall f, obs_val h' (Some m') (S f) (Ref m') = obs_val h0 (Some m) (S f) (Ref m).
  Proof.
    intros f. destruct D_cell as [cm [Hg [Hk _]]]. destruct (co_mid HCO) as [Hex Hns].
    pose proof (D_other "_id" Hns) as Hid. rewrite Hex in Hid. unfold attr_at in Hid. rewrite Hg in Hid.
    pose proof (mo_get _ _ _ _ _ _ _ _ HOK) as Hm. pose proof (mo_kind _ _ _ _ _ _ _ _ HOK) as Hmk.
    destruct (attr mc "_id") as [v|] eqn:Ei.
    - destruct (co_model_cell HCO "_id" v Ei Hns) as [_ Hat]. destruct v as [i|x]; [|discriminate].
      transitivity (TLink KModel i true); [apply (tlink_model h' m' f cm i Hg Hk Hid)|symmetry; apply (tlink_model h0 m f mc i Hm Hmk Ei)].
    - transitivity (TLink KModel "?" true); [apply (tlink_model_noid h' m' f cm Hg Hk Hid)|symmetry; apply (tlink_model_noid h0 m f mc Hm Hmk Ei)].
  Qed.

  (* ---------------- link sets *)
  Definition AllPairs (p : addr * addr) : Prop := In p LM \/ In p LG \/ In p LR \/ In p LP.

  Lemma ids_inj : forall L a b, IdsOk h0 L -> In a L -> In b L -> idof h0 a = idof h0 b -> a = b.
  Proof.
    intros L a b [Hnd _]. induction L as [|x r IH]; intros Ha Hb E; [contradiction|]. cbn in Hnd. inv Hnd.
    destruct Ha as [->|Ha], Hb as [->|Hb]; auto.
    - exfalso. apply H1. rewrite E. apply in_map. exact Hb.
    - exfalso. apply H1. rewrite <- E. apply in_map. exact Ha.
  Qed.

  Lemma allpairs_tlink : forall p f, AllPairs p ->
    exists K i, obj_kind K /\ idof h0 (fst p) = Some (At i) /\
                obs_val h' (Some m') (S f) (Ref (snd p)) = TLink K i true /\
                obs_val h0 (Some m) (S f) (Ref (fst p)) = TLink K i true /\
                ((K = KMetabolite /\ In p LM) \/ (K = KGene /\ In p LG) \/ (K = KReaction /\ In p LR) \/ (K = KGroup /\ In p LP)).
  Proof.
    intros p f [H|[H|[H|H]]].
    - destruct (tlink_pair _ _ _ p f cp_M H) as [i [H1 [H2 H3]]]. exists KMetabolite, i. split; [exact kM|]. repeat split; auto.
    - destruct (tlink_pair _ _ _ p f cp_G H) as [i [H1 [H2 H3]]]. exists KGene, i. split; [exact kG|]. repeat split; auto.
    - destruct (tlink_pair _ _ _ p f cp_R H) as [i [H1 [H2 H3]]]. exists KReaction, i. split; [exact kR|]. repeat split; auto.
    - destruct (tlink_pair _ _ _ p f cp_P H) as [i [H1 [H2 H3]]]. exists KGroup, i. split; [exact kP|]. repeat split; auto.
  Qed.

  Lemma in_pairs_fst : forall (L : list (addr * addr)) olds p, map fst L = olds -> In p L -> In (fst p) olds.
  Proof. intros L olds p E Hp. rewrite <- E. apply in_map. exact Hp. Qed.

  Lemma allpairs_key_inj : forall p q f, AllPairs p -> AllPairs q ->
    tree_key (obs_val h0 (Some m) (S f) (Ref (fst p))) = tree_key (obs_val h0 (Some m) (S f) (Ref (fst q))) -> fst p = fst q.
  Proof.
    intros p q f Hp Hq E.
    destruct (allpairs_tlink p f Hp) as [K1 [i1 [HK1 [I1 [_ [O1 C1]]]]]].
    destruct (allpairs_tlink q f Hq) as [K2 [i2 [HK2 [I2 [_ [O2 C2]]]]]].
    rewrite O1, O2 in E. destruct (link_key_inj _ _ _ _ _ _ HK1 HK2 E) as [EK Ei]. subst K2 i2.
    assert (idof h0 (fst p) = idof h0 (fst q)) as Eid by congruence.
    destruct C1 as [[E1 P1]|[[E1 P1]|[[E1 P1]|[E1 P1]]]]; destruct C2 as [[E2 P2]|[[E2 P2]|[[E2 P2]|[E2 P2]]]]; try congruence.
    - eapply (ids_inj OM); eauto using (mo_ids_m _ _ _ _ _ _ _ _ HOK), in_pairs_fst, fst_LM.
    - eapply (ids_inj OG); eauto using (mo_ids_g _ _ _ _ _ _ _ _ HOK), in_pairs_fst, fst_LG.
    - eapply (ids_inj OR); eauto using (mo_ids_r _ _ _ _ _ _ _ _ HOK), in_pairs_fst, fst_LR.
    - eapply (ids_inj OP); eauto using (mo_ids_p _ _ _ _ _ _ _ _ HOK), in_pairs_fst, fst_LP.
  Qed.

  Lemma nodup_map_inj_in : forall {A B} (g : A -> B) (L : list A),
      NoDup L -> (forall x y, In x L -> In y L -> g x = g y -> x = y) -> NoDup (map g L).
  Proof.
    intros A B g L Hnd. induction Hnd as [|x r Hx Hr IH]; intros Hinj; cbn; [constructor|]. constructor.
    - intro Hin. apply in_map_iff in Hin as [y [E Hy]]. assert (y = x) as -> by (apply Hinj; cbn; auto). contradiction.
    - apply IH. intros a b Ha Hb. apply Hinj; right; assumption.
  Qed.

  Lemma link_set_eq : forall (PL : list (addr * addr)) s' s olds,
      (forall p, In p PL -> AllPairs p) -> NoDup (map fst PL) ->
      get h' s' = Some (mkCell KSet (set_items (map snd PL))) ->
      get h0 s = Some (mkCell KSet (set_items olds)) ->
      Permutation (map fst PL) olds ->
      obs_val h' (Some m') DEPTH (Ref s') = obs_val h0 (Some m) DEPTH (Ref s).
  Proof.
    intros PL s' s olds Hall Hnd G1 G2 HP. rewrite DEPTH_S.
    apply (set_obs_eq h' h0 (Some m') (Some m) s' s PL olds (fun p => obs_val h0 (Some m) 7 (Ref (fst p))) 7 G1 G2 HP).
    - intros p Hp. split; [|reflexivity].
      destruct (allpairs_tlink p 6 (Hall p Hp)) as [K [i [_ [_ [N1 [O1 _]]]]]]. rewrite N1, O1. reflexivity.
    - rewrite <- (map_map fst (fun a => tree_key (obs_val h0 (Some m) 7 (Ref a)))).
      apply nodup_map_inj_in; [exact Hnd|].
      intros a b Ha Hb E. apply in_map_iff in Ha as [p [<- Hp]]. apply in_map_iff in Hb as [q [<- Hq]].
      apply (allpairs_key_inj p q 6); auto.
  Qed.

  (* ---------------- metabolites, genes, groups: one object *)
  Lemma excluded_in : forall attrs rel kt x, ktable_safe attrs rel kt = true -> mems x (kt_excluded kt) = true -> In x rel.
  Proof.
    intros attrs rel kt x H Hx. unfold ktable_safe in H. apply andb_prop in H as [H _]. apply andb_prop in H as [_ H].
    rewrite forallb_forall in H. apply mems_In. apply H. apply mems_In. exact Hx.
  Qed.

  Lemma species_obj_eq : forall kt lk (q : rec3) (PL : list (addr * addr)) s olds,
      SpRec h0 m' kt lk h' W q (set_items (map snd PL)) ->
      (forall x, mems x (kt_excluded kt) = true -> x = "_model" \/ x = lk) ->
      (forall oc, get h0 (r_old q) = Some oc -> ObjOk h0 kt oc) ->
      attr_at h0 (r_old q) "_model" = Some (Ref m) ->
      attr_at h0 (r_old q) lk = Some (Ref s) -> get h0 s = Some (mkCell KSet (set_items olds)) ->
      (forall p, In p PL -> AllPairs p) -> NoDup (map fst PL) -> Permutation (map fst PL) olds ->
      obs_obj h' (Some m') [] (r_new q) = obs_obj h0 (Some m) [] (r_old q).
  Proof.
    intros kt lk q PL s olds [_ [_ [_ [Hoc [Hmod [Hlk Hset]]]]]] Hex Hok Hom Hol Hos Hall Hnd HP.
    destruct (objcopied_get _ _ _ Hoc) as [oc [c' [G1 [G2 [G3 G4]]]]].
    pose proof (Hok oc G1) as [Hnames Hnodup _].
    apply (obs_obj_eq h' h0 (Some m') (Some m) (r_new q) (r_old q) c' oc G2 G1 G3 G4 Hnodup).
    - intros k Hk. unfold keys_of in Hk. apply in_map_iff in Hk as [kv [<- Hkv]]. destruct (Hnames kv Hkv) as [x ->]. reflexivity.
    - intros x v1 v2 A1 A2. destruct (mems x (kt_excluded kt)) eqn:E.
      + destruct (Hex x E) as [->| ->].
        * unfold attr_at in Hmod, Hom. rewrite G2 in Hmod. rewrite G1 in Hom. rewrite A1 in Hmod. rewrite A2 in Hom.
          inv Hmod. inv Hom. rewrite DEPTH_S. apply model_link_eq.
        * unfold attr_at in Hlk, Hol. rewrite G2 in Hlk. rewrite G1 in Hol. rewrite A1 in Hlk. rewrite A2 in Hol.
          inv Hlk. inv Hol. eapply link_set_eq; eauto.
      + eapply attr_rel_copied; eauto.
  Qed.

  Lemma nodup_map_filter : forall {A B} (g : A -> B) (f : A -> bool) (L : list A), NoDup (map g L) -> NoDup (map g (filter f L)).
  Proof.
    intros A B g f L. induction L as [|x r IH]; cbn; intros H; [constructor|]. inv H.
    destruct (f x); cbn; auto. constructor; auto. intro Hin. apply H2. apply in_map_iff in Hin as [y [E Hy]].
    apply filter_In in Hy as [Hy _]. apply in_map_iff. eauto.
  Qed.

  Lemma nodup_OR : NoDup (map q_old RR).
  Proof. rewrite D_oldR. eapply NoDup_map_inv. apply (mo_ids_r _ _ _ _ _ _ _ _ HOK). Qed.

  (* the pairs (old reaction, new reaction) selected by a predicate on the old reaction *)
  Definition rx_pairs (f : addr -> bool) : list (addr * addr) :=
    map (fun x => (q_old x, q_new x)) (filter (fun x => f (q_old x)) RR).

  Lemma rx_pairs_facts : forall f olds,
      NoDup olds -> (forall r, In r olds <-> In r OR /\ f r = true) ->
      (forall p, In p (rx_pairs f) -> AllPairs p) /\ NoDup (map fst (rx_pairs f)) /\ Permutation (map fst (rx_pairs f)) olds /\
      map snd (rx_pairs f) = map q_new (filter (fun x => f (q_old x)) RR).
  Proof.
    intros f olds Hnd Hiff. unfold rx_pairs. split; [|split; [|split]].
    - intros p Hp. apply in_map_iff in Hp as [x [<- Hx]]. apply filter_In in Hx as [Hx _]. right. right. left.
      unfold LR, pairs4. apply in_map_iff. exists x. auto.
    - rewrite map_map. cbn [fst]. apply nodup_map_filter. exact nodup_OR.
    - rewrite map_map. cbn [fst]. apply NoDup_Permutation; [apply nodup_map_filter; exact nodup_OR|exact Hnd|].
      intros r. rewrite Hiff. split.
      + intros Hin. apply in_map_iff in Hin as [x [<- Hx]]. apply filter_In in Hx as [Hx Hf]. split; auto.
        rewrite <- D_oldR. apply in_map. exact Hx.
      + intros [Hr Hf]. rewrite <- D_oldR in Hr. apply in_map_iff in Hr as [x [<- Hx]]. apply in_map_iff. exists x.
        split; auto. apply filter_In. auto.
    - rewrite map_map. reflexivity.
  Qed.

  Lemma met_obj_eq : forall q, In q MM -> obs_obj h' (Some m') [] (r_new q) = obs_obj h0 (Some m) [] (r_old q).
  Proof.
    intros q Hq. assert (In (r_old q) OM) as Hin by (rewrite <- D_oldM; apply in_map; exact Hq).
    destruct (co_met_set HCO _ Hin) as [s [olds [Hs [Hg [Hnd Hiff]]]]].
    destruct (rx_pairs_facts (fun r => has_key (Ref (r_old q)) (sitems h0 r)) olds Hnd Hiff) as [Hall [Hnd2 [HP Hsnd]]].
    apply (species_obj_eq ktm "_reaction" q (rx_pairs (fun r => has_key (Ref (r_old q)) (sitems h0 r))) s olds); auto.
    - rewrite Hsnd. apply (D_MM q Hq).
    - intros x Hx. pose proof (excluded_in _ _ _ x (ts_met T HTS) Hx) as H. destruct H as [<-|[<-|[]]]; auto.
    - intros oc Hoc. destruct (mo_mets _ _ _ _ _ _ _ _ HOK _ Hin) as [oc' [G1 G2 _ _]]. rewrite Hoc in G1. inv G1. exact G2.
    - apply (co_model_ptr HCO). apply in_or_app. left. exact Hin.
  Qed.

  Lemma gene_obj_eq : forall q, In q GG -> obs_obj h' (Some m') [] (r_new q) = obs_obj h0 (Some m) [] (r_old q).
  Proof.
    intros q Hq. assert (In (r_old q) OG) as Hin by (rewrite <- D_oldG; apply in_map; exact Hq).
    destruct (co_gene_set HCO _ Hin) as [s [olds [Hs [Hg [Hnd Hiff]]]]].
    destruct (rx_pairs_facts (fun r => has_name (idof h0 (r_old q)) (gnames h0 r)) olds Hnd Hiff) as [Hall [Hnd2 [HP Hsnd]]].
    apply (species_obj_eq ktg "_reaction" q (rx_pairs (fun r => has_name (idof h0 (r_old q)) (gnames h0 r))) s olds); auto.
    - rewrite Hsnd. apply (D_GG q Hq).
    - intros x Hx. pose proof (excluded_in _ _ _ x (ts_gene T HTS) Hx) as H. destruct H as [<-|[<-|[]]]; auto.
    - intros oc Hoc. destruct (mo_genes _ _ _ _ _ _ _ _ HOK _ Hin) as [oc' [G1 G2 _ _]]. rewrite Hoc in G1. inv G1. exact G2.
    - apply (co_model_ptr HCO). apply in_or_app. right. apply in_or_app. left. exact Hin.
  Qed.

  (* ---------------- groups *)
  Lemma pair_lookup_in : forall (L : list (addr * addr)) a, NoDup (map fst L) -> In a (map fst L) -> In (a, pair_lookup a L) L.
  Proof.
    intros L a Hnd Hin. apply in_map_iff in Hin as [p [<- Hp]]. rewrite (pair_lookup_found L p Hnd Hp).
    destruct p; exact Hp.
  Qed.

  Lemma nodup_of_ids : forall L, IdsOk h0 L -> NoDup L.
  Proof. intros L [H _]. eapply NoDup_map_inv. exact H. Qed.

  Lemma member_pair : forall x, MemberOkO h0 OM OG OR OP x ->
    exists a, x = Ref a /\ AllPairs (a, new_member h0 LM LG LR LP x).
  Proof.
    intros x [xa [c [idx [-> [Hg [Hid Hk]]]]]]. exists xa. split; [reflexivity|]. unfold new_member. rewrite Hg.
    destruct (ckind c) eqn:Ek; try contradiction.
    - right. right. left. apply pair_lookup_in; rewrite fst_LR; [apply nodup_of_ids; apply (mo_ids_r _ _ _ _ _ _ _ _ HOK)|exact Hk].
    - left. apply pair_lookup_in; rewrite fst_LM; [apply nodup_of_ids; apply (mo_ids_m _ _ _ _ _ _ _ _ HOK)|exact Hk].
    - right. left. apply pair_lookup_in; rewrite fst_LG; [apply nodup_of_ids; apply (mo_ids_g _ _ _ _ _ _ _ _ HOK)|exact Hk].
    - right. right. right. apply pair_lookup_in; rewrite fst_LP; [apply nodup_of_ids; apply (mo_ids_p _ _ _ _ _ _ _ _ HOK)|exact Hk].
  Qed.

  Lemma grp_obj_eq : forall q, In q PP -> obs_obj h' (Some m') [] (r_new q) = obs_obj h0 (Some m) [] (r_old q).
  Proof.
    intros q Hq. assert (In (r_old q) OP) as Hin by (rewrite <- D_oldP; apply in_map; exact Hq).
    destruct (co_grp_set HCO _ Hin) as [ms [olds [Hs Hg]]].
    destruct (mo_grp2 _ _ _ _ _ _ _ _ HOK _ Hin) as [_ Hmem Hnd].
    assert (members h0 (r_old q) = map Ref olds) as Emem.
    { unfold members. rewrite Hs. unfold dict_keys. rewrite Hg. unfold keys. cbn [ckind is_object citems].
      unfold set_items. rewrite map_map. reflexivity. }
    unfold members0 in Hmem, Hnd. fold (members h0 (r_old q)) in Hmem, Hnd. rewrite Emem in Hmem, Hnd.
    set (PL := map (fun a => (a, new_member h0 LM LG LR LP (Ref a))) olds).
    assert (map fst PL = olds) as Ef by (unfold PL; rewrite map_map; cbn [fst]; apply map_id).
    apply (species_obj_eq ktp "_members" q PL ms olds); auto.
    - assert (map snd PL = map (new_member h0 LM LG LR LP) (members h0 (r_old q))) as ->.
      { unfold PL. rewrite Emem, !map_map. reflexivity. }
      apply (D_PP q Hq).
    - intros x Hx. pose proof (excluded_in _ _ _ x (ts_group T HTS) Hx) as H. destruct H as [<-|[<-|[]]]; auto.
    - intros oc Hoc. destruct (mo_grps _ _ _ _ _ _ _ _ HOK _ Hin) as [oc' [G1 G2 _ _]]. rewrite Hoc in G1. injection G1 as <-. exact G2.
    - apply (co_model_ptr HCO). apply in_or_app. right. apply in_or_app. right. apply in_or_app. right. exact Hin.
    - intros p Hp. unfold PL in Hp. apply in_map_iff in Hp as [a [<- Ha]].
      destruct (member_pair (Ref a) (Hmem (Ref a) (in_map Ref _ _ Ha))) as [a2 [E Hall]]. injection E as <-. exact Hall.
    - rewrite Ef. eapply NoDup_map_inv. exact Hnd.
    - rewrite Ef. apply Permutation_refl.
  Qed.

  (* ---------------- reactions *)
  Definition gpair (i : value) : addr * addr :=
    match find (id_is h0 i) GG with Some g => (r_old g, r_new g) | None => (0, 0) end.

  Lemma gpair_found : forall i g, In g OG -> idof h0 g = Some i ->
    exists q, In q GG /\ r_old q = g /\ gpair i = (g, r_new q) /\ find_id h0 i GG = r_new q.
  Proof.
    intros i g Hg Hid. rewrite <- D_oldG in Hg. apply in_map_iff in Hg as [q [<- Hq]].
    assert (NoDup (map (fun q => idof h0 (r_old q)) GG)) as Hnd.
    { rewrite <- (map_map r_old (idof h0)), D_oldG. apply (mo_ids_g _ _ _ _ _ _ _ _ HOK). }
    exists q. split; [exact Hq|]. split; [reflexivity|].
    assert (find (id_is h0 i) GG = Some q) as Hf.
    { clear - Hnd Hq Hid. induction GG as [|z L IH]; [contradiction|]. cbn [find]. cbn in Hnd. inv Hnd.
      destruct Hq as [->|Hq].
      - unfold id_is. rewrite Hid, value_eqb_refl. reflexivity.
      - assert (id_is h0 i z = false) as ->; [|auto].
        unfold id_is. destruct (idof h0 (r_old z)) as [j|] eqn:Ej; auto. destruct (value_eqb j i) eqn:Ev; auto.
        apply value_eqb_eq in Ev. subst j. exfalso. apply H1. apply in_map_iff. exists q. split; [congruence|exact Hq]. }
    unfold gpair, find_id. rewrite Hf. auto.
  Qed.

  Lemma lookup3_LM : forall a, In a OM -> In (a, lookup3 a MM) LM.
  Proof.
    intros a Ha. rewrite <- D_oldM in Ha. apply in_map_iff in Ha as [q [<- Hq]].
    rewrite (lookup3_found MM q); [|rewrite D_oldM; apply nodup_of_ids; apply (mo_ids_m _ _ _ _ _ _ _ _ HOK)|exact Hq].
    unfold LM, pairs3. apply in_map_iff. exists q. auto.
  Qed.

  Lemma rxn_obj_eq : forall q, In q RR -> obs_obj h' (Some m') [] (q_new q) = obs_obj h0 (Some m) [] (q_old q).
  Proof.
    intros q Hq. assert (In (q_old q) OR) as Hin by (rewrite <- D_oldR; apply in_map; exact Hq).
    destruct (D_RR q Hq) as [lo [_ [_ [Hoc [Hmod [Hme [Hnd [Hge Hgs]]]]]]]].
    destruct (objcopied_get _ _ _ Hoc) as [oc [c' [G1 [G2 [G3 G4]]]]].
    destruct (mo_rxns _ _ _ _ _ _ _ _ HOK _ Hin) as [oc' [R1 R2 _ _ _ _ Rreg Rnd _ Rnames Rnn]]. rewrite G1 in R1. inv R1.
    pose proof R2 as [Hnames Hnodup _].
    destruct (co_rxn_mets HCO _ Hin) as [d [dc [Hd [Hdc [Hdk Hcoef]]]]].
    destruct (co_rxn_genes HCO _ Hin) as [gs0 [olds [Hg0 [Hgs0 [Hndo Hiff]]]]].
    assert (sitems h0 (q_old q) = citems dc) as Esit by (unfold sitems; rewrite Hd, Hdc; reflexivity).
    apply (obs_obj_eq h' h0 (Some m') (Some m) (q_new q) (q_old q) c' oc' G2 G1 G3 G4 Hnodup).
    - intros k Hk. unfold keys_of in Hk. apply in_map_iff in Hk as [kv [<- Hkv]]. destruct (Hnames kv Hkv) as [x ->]. reflexivity.
    - intros x v1 v2 A1 A2. destruct (mems x (kt_excluded ktr)) eqn:E.
      + pose proof (excluded_in _ _ _ x (ts_rxn T HTS) E) as Hx. destruct Hx as [<-|[<-|[<-|[]]]].
        * (* _model *)
          pose proof (co_model_ptr HCO (q_old q)) as Hom. unfold attr_at in Hmod, Hom. rewrite G2 in Hmod. rewrite G1 in Hom.
          rewrite A1 in Hmod. rewrite A2 in Hom. inv Hmod.
          assert (Some v2 = Some (Ref m)) as Ev2 by (apply Hom; apply in_or_app; right; apply in_or_app; right; apply in_or_app; left; exact Hin).
          inv Ev2. rewrite DEPTH_S. apply model_link_eq.
        * (* _metabolites *)
          unfold attr_at in Hme, Hd. rewrite G2 in Hme. rewrite G1 in Hd. rewrite A1 in Hme. rewrite A2 in Hd. inv Hme. inv Hd.
          rewrite DEPTH_S.
          rewrite (obs_val_ref_plain h' (Some m') 7 _ _ Hnd eq_refl).
          rewrite (obs_val_ref_plain h0 (Some m) 7 d dc Hdc ltac:(rewrite Hdk; reflexivity)). rewrite Hdk.
          cbn [ckind citems]. f_equal. rewrite map_map, Esit.
          apply map_ext_in. intros kv Hkv. rewrite <- Esit in Hkv.
          destruct (Rreg kv Hkv) as [a [Ha Hf]]. unfold fM. cbn [fst snd]. rewrite Hf.
          destruct (allpairs_tlink (a, lookup3 a MM) 6 (or_introl (lookup3_LM a Ha))) as [K [i [_ [_ [N1 [O1 _]]]]]].
          cbn [fst snd] in N1, O1. apply (f_equal2 pair).
          -- transitivity (TLink K i true); [exact N1|symmetry; exact O1].
          -- pose proof (Hcoef kv Hkv) as Hat. destruct (snd kv) as [c|x]; [|discriminate]. rewrite !obs_val_atom. reflexivity.
        * (* _genes *)
          unfold attr_at in Hge, Hg0. rewrite G2 in Hge. rewrite G1 in Hg0. rewrite A1 in Hge. rewrite A2 in Hg0. inv Hge. inv Hg0.
          set (PL := map gpair (gnames h0 (q_old q))).
          assert (forall i, In i (gnames h0 (q_old q)) -> exists g gq, In g OG /\ idof h0 g = Some i /\ In gq GG /\ r_old gq = g /\
                                                                        gpair i = (g, r_new gq) /\ find_id h0 i GG = r_new gq) as Hgp.
          { intros i Hi. destruct (Rnames i Hi) as [g [Hg Hid]]. destruct (gpair_found i g Hg Hid) as [gq [H1 [H2 [H3 H4]]]].
            exists g, gq. auto 8. }
          apply (link_set_eq PL (q_genes q) gs0 olds).
          -- intros p Hp. unfold PL in Hp. apply in_map_iff in Hp as [i [<- Hi]].
             destruct (Hgp i Hi) as [g [gq [_ [_ [Hgq [Hro [Hpair _]]]]]]]. rewrite Hpair. right. left.
             unfold LG, pairs3. apply in_map_iff. exists gq. rewrite Hro. auto.
          -- unfold PL. rewrite map_map. apply nodup_map_inj_in; [exact Rnn|].
             intros i j Hi Hj Eij. destruct (Hgp i Hi) as [g [gq [_ [Hid [_ [_ [Hpair _]]]]]]].
             destruct (Hgp j Hj) as [g2 [gq2 [_ [Hid2 [_ [_ [Hpair2 _]]]]]]]. rewrite Hpair, Hpair2 in Eij. cbn in Eij. subst g2. congruence.
          -- assert (map snd PL = map (newG h0 GG) (gnames h0 (q_old q))) as ->; [|exact Hgs].
             unfold PL. rewrite map_map. apply map_ext_in. intros i Hi.
             destruct (Hgp i Hi) as [g [gq [_ [_ [_ [_ [Hpair Hfi]]]]]]]. rewrite Hpair. unfold newG. rewrite Hfi. reflexivity.
          -- exact Hgs0.
          -- apply NoDup_Permutation; [| exact Hndo |].
             ++ unfold PL. rewrite map_map. apply nodup_map_inj_in; [exact Rnn|].
                intros i j Hi Hj Eij. destruct (Hgp i Hi) as [g [gq [_ [Hid [_ [_ [Hpair _]]]]]]].
                destruct (Hgp j Hj) as [g2 [gq2 [_ [Hid2 [_ [_ [Hpair2 _]]]]]]]. rewrite Hpair, Hpair2 in Eij. cbn in Eij. subst g2. congruence.
             ++ intros g. rewrite Hiff. unfold PL. rewrite map_map. split.
                ** intros Hgin. apply in_map_iff in Hgin as [i [Ei Hi]]. destruct (Hgp i Hi) as [g1 [gq1 [Hg1 [Hid [_ [_ [Hpair _]]]]]]].
                   rewrite Hpair in Ei. cbn in Ei. subst g1. split; [exact Hg1|]. rewrite Hid. cbn.
                   apply existsb_exists. exists i. split; [exact Hi|apply value_eqb_refl].
                ** intros [Hg Hn]. destruct (ids_str OG g (mo_ids_g _ _ _ _ _ _ _ _ HOK) Hg) as [s Hs]. rewrite Hs in Hn. cbn in Hn.
                   apply existsb_exists in Hn as [i [Hi Ei]]. apply value_eqb_eq in Ei. subst i.
                   apply in_map_iff. exists (At s). split; [|exact Hi].
                   destruct (gpair_found (At s) g Hg Hs) as [gq [_ [_ [Hpair _]]]]. rewrite Hpair. reflexivity.
      + eapply attr_rel_copied; eauto.
  Qed.

  (* ---------------- the four lists *)
  Lemma list_obs_eq : forall name dl (news olds : list addr),
      In name ["metabolites"; "genes"; "reactions"; "groups"] ->
      get h' dl = Some (mkCell KDictList (dl_items news)) ->
      list_elems h0 (attr mc name) = map Ref olds ->
      Forall2 (fun a' a => obs_obj h' (Some m') [] a' = obs_obj h0 (Some m) [] a) news olds ->
      exists od, attr mc name = Some (Ref od) /\ obs_list h' m' (Ref dl) = obs_list h0 m (Ref od).
  Proof.
    intros name dl news olds Hname Hdl Hl HF. destruct (co_list HCO name Hname) as [od [c [Ha [Hg Hk]]]].
    exists od. split; [exact Ha|]. unfold obs_list. rewrite Hdl, Hg, Hk. cbn [ckind]. f_equal.
    rewrite elems_dl_items. rewrite Ha in Hl. unfold list_elems in Hl. rewrite Hg in Hl. rewrite Hl. rewrite !map_map.
    clear - HF. induction HF as [|a' a r' r E HF IH]; cbn [map]; [reflexivity|]. cbv beta iota. f_equal; [f_equal; exact E|exact IH].
  Qed.

  Lemma forall2_map : forall {A} (f g : A -> addr) (L : list A),
      (forall q, In q L -> obs_obj h' (Some m') [] (f q) = obs_obj h0 (Some m) [] (g q)) ->
      Forall2 (fun a' a => obs_obj h' (Some m') [] a' = obs_obj h0 (Some m) [] a) (map f L) (map g L).
  Proof.
    intros A f g L H. induction L as [|x r IH]; cbn; constructor.
    - apply H. left. reflexivity.
    - apply IH. intros q Hq. apply H. right. exact Hq.
  Qed.

  (* ---------------- the model object *)
  Definition Fv (H : heap) (R : addr) (s : string) (v : value) : tree :=
    if is_list_attr s then obs_list H R v else obs_val H (Some R) DEPTH v.

  Lemma explicit_not_list : forall s, In s ("_solver" :: map fst (ct_model_explicit T)) -> is_list_attr s = false.
  Proof.
    intros s Hs. destruct (is_list_attr s) eqn:E; auto. exfalso. unfold is_list_attr in E. apply mems_In in E.
    destruct Hs as [<-|Hs]; [cbn in E; intuition discriminate|].
    apply (sh_explicit T HSH s); [|exact Hs]. cbn in E. cbn. tauto.
  Qed.

  Lemma model_attr_rel : forall cm s, get h' m' = Some cm -> s <> "_contexts" ->
      (attr cm s = None /\ attr mc s = None) \/
      (exists v' v, attr cm s = Some v' /\ attr mc s = Some v /\ Fv h' m' s v' = Fv h0 m s v).
  Proof.
    intros cm s Hcm Hne.
    assert (forall t, attr cm t = attr_at h' m' t) as Hat by (intros t; unfold attr_at; rewrite Hcm; reflexivity).
    destruct (in_dec string_dec s ["metabolites"; "genes"; "reactions"; "groups"]) as [Hl|Hnl].
    - (* one of the four lists *)
      right. assert (is_list_attr s = true) as Eil.
      { unfold is_list_attr. apply mems_In. cbn in Hl. cbn. tauto. }
      unfold Fv. rewrite Eil.
      assert (exists dl news olds, attr_at h' m' s = Some (Ref dl) /\ get h' dl = Some (mkCell KDictList (dl_items news)) /\
                                   list_elems h0 (attr mc s) = map Ref olds /\
                                   Forall2 (fun a' a => obs_obj h' (Some m') [] a' = obs_obj h0 (Some m) [] a) news olds) as Hx.
      { destruct Hl as [<-|[<-|[<-|[<-|[]]]]].
        - exists dlm, (map r_new MM), (map r_old MM). split; [exact D_am|]. split; [exact D_dlm|]. split; [rewrite D_oldM; apply (mo_lm _ _ _ _ _ _ _ _ HOK)|].
          apply forall2_map. exact met_obj_eq.
        - exists dlg, (map r_new GG), (map r_old GG). split; [exact D_ag|]. split; [exact D_dlg|]. split; [rewrite D_oldG; apply (mo_lg _ _ _ _ _ _ _ _ HOK)|].
          apply forall2_map. exact gene_obj_eq.
        - exists dlr, (map q_new RR), (map q_old RR). split; [exact D_ar|]. split; [exact D_dlr|]. split; [rewrite D_oldR; apply (mo_lr _ _ _ _ _ _ _ _ HOK)|].
          apply forall2_map. exact rxn_obj_eq.
        - exists dlgr, (map r_new PP), (map r_old PP). split; [exact D_ap|]. split; [exact D_dlgr|]. split; [rewrite D_oldP; apply (mo_lp _ _ _ _ _ _ _ _ HOK)|].
          apply forall2_map. exact grp_obj_eq. }
      destruct Hx as [dl [news [olds [Ha [Hdl [Hle HF]]]]]].
      destruct (list_obs_eq s dl news olds Hl Hdl Hle HF) as [od [Hod Heq]].
      exists (Ref dl), (Ref od). split; [rewrite Hat; exact Ha|]. split; [exact Hod|exact Heq].
    - destruct (in_dec string_dec s ("_solver" :: map fst (ct_model_explicit T))) as [He|Hne2].
      + right. destruct (D_deep s He) as [v [v' [Hv [Hv' Hiso]]]]. exists v', v. split; [rewrite Hat; exact Hv'|]. split; [exact Hv|].
        unfold Fv. rewrite (explicit_not_list s He). eapply diso_obs_val. exact Hiso.
      + assert (~ In s specials) as Hns.
        { unfold specials. intros [E|[E|Hin]]; [congruence|apply Hne2; left; exact E|].
          do 4 (destruct Hin as [E|Hin]; [apply Hnl; cbn; rewrite <- E; tauto|]). apply Hne2. right. exact Hin. }
        pose proof (D_other s Hns) as Ho. rewrite <- Hat in Ho.
        destruct (attr mc s) as [v|] eqn:Ev.
        * right. destruct (co_model_cell HCO s v Ev Hns) as [Hex Hatom]. rewrite Hex in Ho. exists v, v. split; [exact Ho|]. split; [reflexivity|].
          unfold Fv. assert (is_list_attr s = false) as ->.
          { destruct (is_list_attr s) eqn:E; auto. exfalso. apply Hnl. unfold is_list_attr in E. apply mems_In in E. cbn in E. cbn. tauto. }
          destruct v as [a|x]; [|discriminate]. rewrite !obs_val_atom. reflexivity.
        * left. split; [|reflexivity]. destruct (mems s (ct_model_excluded T)); exact Ho.
  Qed.

  Definition Fitem (H : heap) (R : addr) (kv : value * value) : tree * tree :=
    (obs_val H (Some R) DEPTH (fst kv),
     match fst kv with
     | At nm => if is_list_attr nm then obs_list H R (snd kv) else obs_val H (Some R) DEPTH (snd kv)
     | Ref _ => TCut
     end).

  Lemma Fitem_at : forall H R s v, Fitem H R (At s, v) = (TAt s, Fv H R s v).
  Proof. intros H R s v. unfold Fitem, Fv. cbn [fst snd]. rewrite obs_val_atom. reflexivity. Qed.

  Definition not_ctx (kv : value * value) : bool := negb (key_is (fst kv) "_contexts").

  Lemma not_ctx_at : forall s v, not_ctx (At s, v) = true <-> s <> "_contexts".
  Proof.
    intros s v. unfold not_ctx, key_is. cbn [fst]. rewrite negb_true_iff. split.
    - intros H E. subst. rewrite String.eqb_refl in H. discriminate.
    - intros H. apply String.eqb_neq. exact H.
  Qed.

  Lemma obs_model_unfold : forall H R c, get H R = Some c ->
    obs_model H R = TNode KModel (sort_items (map (Fitem H R) (filter not_ctx (citems c)))).
  Proof. intros H R c Hg. unfold obs_model. rewrite Hg. reflexivity. Qed.

  Lemma items_side : forall (H1 H2 : heap) R1 R2 (c1 c2 : cell) x,
      NoDup (keys_of (citems c1)) -> (forall k, In k (keys_of (citems c1)) -> exists s, k = At s) ->
      (forall s, s <> "_contexts" -> forall v1, attr c1 s = Some v1 -> exists v2, attr c2 s = Some v2 /\ Fv H1 R1 s v1 = Fv H2 R2 s v2) ->
      In x (map (Fitem H1 R1) (filter not_ctx (citems c1))) -> In x (map (Fitem H2 R2) (filter not_ctx (citems c2))).
  Proof.
    intros H1 H2 R1 R2 c1 c2 x Hnd Hat Hrel Hin. apply in_map_iff in Hin as [[k v1] [<- Hkv]].
    apply filter_In in Hkv as [Hkv Hf].
    destruct (Hat k) as [s ->]; [unfold keys_of; apply in_map_iff; exists (k, v1); auto|].
    apply not_ctx_at in Hf.
    assert (attr c1 s = Some v1) as A1 by (unfold attr; apply in_lookup; auto).
    destruct (Hrel s Hf v1 A1) as [v2 [A2 E]]. rewrite Fitem_at, E, <- Fitem_at. apply in_map.
    apply filter_In. split; [unfold attr in A2; apply lookup_in; exact A2|]. apply not_ctx_at. exact Hf.
  Qed.

  Lemma nodup_items : forall (H : heap) R (c : cell),
      NoDup (keys_of (citems c)) -> (forall k, In k (keys_of (citems c)) -> exists s, k = At s) ->
      NoDup (map ikey (map (Fitem H R) (filter not_ctx (citems c)))).
  Proof.
    intros H R c Hnd Hat. rewrite map_map.
    assert (forall l : list (value * value), NoDup (keys_of l) -> (forall k, In k (keys_of l) -> exists s, k = At s) ->
                                               NoDup (map (fun x => ikey (Fitem H R x)) (filter not_ctx l))) as Hgen.
    { induction l as [|[k v] r IH]; intros Hn Ha; cbn [filter map]; [constructor|]. cbn in Hn. inv Hn.
      assert (forall k0, In k0 (keys_of r) -> exists s, k0 = At s) as Ha' by (intros k0 Hk0; apply Ha; right; exact Hk0).
      destruct (not_ctx (k, v)); [|apply IH; auto]. cbn [map]. constructor; [|apply IH; auto].
      destruct (Ha k (or_introl eq_refl)) as [s ->]. intro Hin. apply in_map_iff in Hin as [[k2 v2] [E Hk2]].
      apply filter_In in Hk2 as [Hk2 _]. destruct (Ha' k2) as [s2 ->]; [unfold keys_of; apply in_map_iff; exists (k2, v2); auto|].
      rewrite !Fitem_at in E. unfold ikey in E. cbn [fst tree_key] in E. subst s2. apply H2. unfold keys_of. apply in_map_iff. exists (At s, v2). auto. }
    apply Hgen; auto.
  Qed.

  Theorem obs_model_eq : obs_model h' m' = obs_model h0 m.
  Proof.
    destruct D_cell as [cm [Hcm [Hk [Hnd Hat]]]].
    pose proof (mo_get _ _ _ _ _ _ _ _ HOK) as Hm.
    rewrite (obs_model_unfold h' m' cm Hcm), (obs_model_unfold h0 m mc Hm).
    assert (forall k, In k (keys_of (citems mc)) -> exists s, k = At s) as Hatm.
    { intros k Hk'. unfold keys_of in Hk'. apply in_map_iff in Hk' as [kv [<- Hkv]]. apply (mo_names _ _ _ _ _ _ _ _ HOK kv Hkv). }
    pose proof (mo_nodup _ _ _ _ _ _ _ _ HOK) as Hndm.
    assert (sort_items (map (Fitem h' m') (filter not_ctx (citems cm))) =
            sort_items (map (Fitem h0 m) (filter not_ctx (citems mc)))) as ->; [|reflexivity].
    apply sort_items_permutation; [|exact (nodup_items h' m' cm Hnd Hat)].
    apply NoDup_Permutation.
    - eapply NoDup_map_inv. exact (nodup_items h' m' cm Hnd Hat).
    - eapply NoDup_map_inv. exact (nodup_items h0 m mc Hndm Hatm).
    - intros x. split.
      + apply (items_side h' h0 m' m cm mc x Hnd Hat). intros s Hs v1 A1.
        destruct (model_attr_rel cm s Hcm Hs) as [[N1 _]|[v' [v [B1 [B2 E]]]]]; [congruence|].
        rewrite A1 in B1. injection B1 as <-. exists v. split; [exact B2|exact E].
      + apply (items_side h0 h' m m' mc cm x Hndm Hatm). intros s Hs v1 A1.
        destruct (model_attr_rel cm s Hcm Hs) as [[_ N2]|[v' [v [B1 [B2 E]]]]]; [congruence|].
        rewrite A1 in B2. injection B2 as <-. exists v'. split; [exact B1|symmetry; exact E].
  Qed.
End ObsEq.
