(* C14 — scheduling model of cobrapy's parallel analyses.

   Mirrors  flux_analysis/variability.py  (flux_variability_analysis: the two passes, the
   `processes = min(processes, n)`, `chunk_size = n // processes`, `pool.imap_unordered(step, ids,
   chunksize=chunk_size)` and `fva_result.at[rxn_id, what] = value`),  flux_analysis/deletion.py
   (_multi_deletion: the same dispatch, rows appended in completion order) and what
   multiprocessing.Pool does with these calls (chunks are cut off the item sequence by
   `islice(it, size)`, a free worker takes the next chunk, runs `list(map(func, chunk))` on its
   own process-global model — carrying whatever state the previous task left behind —, chunks are
   delivered to the parent in completion order, the first raising chunk ends the iteration).

   This file only has computable definitions; proofs are in Proofs.v.                       *)
From Coq Require Import List Bool Arith ZArith.
Import ListNotations.

Set Implicit Arguments.

Section Sched.
  Variables W I R K : Type.
  Variable key : I -> K.                    (* the id a result is stored under              *)
  Variable key_eqb : K -> K -> bool.
  Variable task : W -> I -> W * R.          (* one call of the worker function              *)
  Variable fails : R -> bool.               (* the call raised (result = the exception)     *)

  (* what the parent sees of a chunk / of the whole iteration *)
  Inductive delivered (A : Type) : Type :=
  | Rows (rows : A)
  | Raised (r : R).
  Arguments Raised {A} r.

  (* mapstar: `list(map(func, chunk))` in one worker process; state is carried from item to
     item; a raising item ends the chunk, the items before it are computed but not delivered *)
  Fixpoint run_chunk (w : W) (c : list I) : W * delivered (list (I * R)) :=
    match c with
    | [] => (w, Rows [])
    | i :: c' =>
        let (w1, r) := task w i in
        if fails r then (w1, Raised r)
        else let (w2, d) := run_chunk w1 c' in
             (w2, match d with Rows l => Rows ((i, r) :: l) | Raised e => Raised e end)
    end.

  (* One event = (worker number, chunk).  The list order is the order in which chunks are
     DELIVERED to the parent (imap_unordered); one worker delivers its chunks in the order it
     ran them, so the sub-list of a worker is also its execution order.                       *)
  Definition event : Type := (nat * list I)%type.

  Definition upd (ws : nat -> W) (p : nat) (w : W) : nat -> W :=
    fun q => if Nat.eqb q p then w else ws q.

  (* the parent's `for item in pool.imap_unordered(...)` loop: rows in delivery order *)
  Fixpoint run_sched (ws : nat -> W) (acc : list (I * R)) (evs : list event) : delivered (list (I * R)) :=
    match evs with
    | [] => Rows acc
    | (p, c) :: evs' =>
        let (w', d) := run_chunk (ws p) c in
        match d with
        | Raised e => Raised e
        | Rows l => run_sched (upd ws p w') (acc ++ l) evs'
        end
    end.

  (* every worker process is a fork of the parent taken when the pool is created *)
  Definition run_pool (s0 : W) (evs : list event) : delivered (list (I * R)) :=
    run_sched (fun _ => s0) [] evs.

  (* `processes == 1` branch:  `for ... in map(step, ids)`  in the parent's own model        *)
  Definition run_serial (s0 : W) (items : list I) : W * delivered (list (I * R)) :=
    run_chunk s0 items.

  (* results keyed by id:  `frame.at[key, col] = value`  (later writes win) *)
  Definition kmap : Type := K -> option R.
  Definition kempty : kmap := fun _ => None.
  Definition kset (m : kmap) (k : K) (r : R) : kmap := fun k' => if key_eqb k' k then Some r else m k'.
  Definition assemble (rows : list (I * R)) : kmap :=
    fold_left (fun m ir => kset m (key (fst ir)) (snd ir)) rows kempty.

  (* the reference: every item computed alone on a fresh worker *)
  Definition single (s0 : W) (i : I) : R := snd (task s0 i).
  Definition map_of (s0 : W) (items : list I) : kmap :=
    assemble (map (fun i => (i, single s0 i)) items).

  (* the frame a user sees: one row per requested item, in request order *)
  Definition frame (items : list I) (m : kmap) : list (K * option R) :=
    map (fun i => (key i, m (key i))) items.

  (* ---------------------------------------------------------------- Pool's chunking *)
  Fixpoint chunks_aux (fuel cs : nat) (l : list I) : list (list I) :=
    match fuel with
    | O => []
    | S f => match l with
             | [] => []
             | _ => firstn cs l :: chunks_aux f cs (skipn cs l)
             end
    end.
  Definition chunks (cs : nat) (l : list I) : list (list I) := chunks_aux (length l) cs l.

  (* cobrapy's dispatch *)
  Inductive mode := Serial | Pool (procs chunksize : nat).
  Definition dispatch (processes : nat) (items : list I) : mode :=
    let n := length items in
    let p := Nat.min processes n in
    if Nat.ltb 1 p then Pool p (n / p) else Serial.

  (* a deterministic representative schedule (chunk j goes to worker j mod p, delivered in
     order) — used by the correspondence check to compute a prediction                      *)
  Fixpoint round_robin (p j : nat) (cs : list (list I)) : list event :=
    match cs with
    | [] => []
    | c :: cs' => (Nat.modulo j p, c) :: round_robin p (S j) cs'
    end.

  Definition driver (processes : nat) (s0 : W) (items : list I) : delivered (list (I * R)) :=
    match dispatch processes items with
    | Serial => snd (run_serial s0 items)
    | Pool p cs => run_pool s0 (round_robin p 0 (chunks cs items))
    end.
End Sched.

Arguments Raised {R A} r.
Arguments Rows {R A} rows.
