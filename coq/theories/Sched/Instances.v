(* C14 — the generic schedule-independence theorem instantiated with the FVA step and the
   deletion workers, for ANY worker skeleton that satisfies the boolean restoration condition
   (worker_ok / del_ok).  Current.v feeds the skeleton regenerated from the source. *)
From Coq Require Import List Bool Arith ZArith QArith Permutation Lia.
From Cobra.Sched Require Import Model Proofs Workers WorkerProofs.
Import ListNotations.

Lemma Zeqb_spec' : forall a b : Z, Z.eqb a b = true <-> a = b.
Proof. intros a b. apply Z.eqb_eq. Qed.

Fixpoint lz_eqb (a b : list Z) : bool :=
  match a, b with
  | [], [] => true
  | x :: a', y :: b' => Z.eqb x y && lz_eqb a' b'
  | _, _ => false
  end.
Lemma lz_eqb_spec : forall a b, lz_eqb a b = true <-> a = b.
Proof.
  induction a as [|x a IH]; destruct b as [|y b]; cbn; split; try discriminate; try reflexivity.
  - intros H. apply andb_true_iff in H. destruct H as [H1 H2]. apply Z.eqb_eq in H1. apply IH in H2. now subst.
  - intros [= -> ->]. rewrite Z.eqb_refl. cbn. now apply IH.
Qed.

Definition zid (i : Z) : Z := i.

(* ================================================================== FVA *)
Section FVA.
  Variable solve : row -> bool -> Z * option Q.
  Variable status_raises : Z -> bool.
  Variable loopless : bool.
  Variable loopless_iter : row -> bool -> Z -> option Q.
  Hypothesis solve_ext : forall o o' d, (forall v, o v = o' v) -> solve o d = solve o' d.
  Hypothesis loopless_ext : forall o o' d r, (forall v, o v = o' v) -> loopless_iter o d r = loopless_iter o' d r.

  Notation step_of := (step_of solve status_raises loopless loopless_iter).

  Variable sk : list wstmt.
  Hypothesis sk_ok : worker_ok sk = true.

  (* one pass (one pool) of flux_variability_analysis: every worker is a fork of s0, the parent's
     model after `model.objective = Zero` and `_init_worker(..., sense)` *)
  Section Pass.
    Variable s0 : lpstate.
    Hypothesis s0_zero : zero_row s0.

    Let restores := fva_task_restores solve status_raises loopless loopless_iter sk s0 sk_ok s0_zero.
    Let respects := fva_task_respects solve status_raises loopless loopless_iter solve_ext loopless_ext sk s0.

    Lemma zid_determines items : key_determines zid (step_of sk) s0 items.
    Proof. apply injective_key_determines. intros i j _ _ H. exact H. Qed.

    (* No step raises: the frame column is, for EVERY schedule, the column of single calls.
       Duplicate ids in the request are harmless in the model (same key, same value).        *)
    Theorem fva_schedule_independent : forall items evs,
      valid evs items -> ok_items (step_of sk) fres_fails s0 items ->
      exists rows, run_pool (step_of sk) fres_fails s0 evs = Rows rows /\
        (forall k, assemble zid Z.eqb rows k = map_of zid Z.eqb (step_of sk) s0 items k) /\
        frame zid items (assemble zid Z.eqb rows) = map (fun i => (i, Some (single (step_of sk) s0 i))) items.
    Proof.
      intros items evs Hv Hok.
      destruct (@schedule_independent _ _ _ _ zid Z.eqb Zeqb_spec' (step_of sk) fres_fails lp_eqv s0
                  (lp_eqv_refl s0) restores respects items evs Hv Hok (zid_determines items)) as [rows [Hr Hk]].
      exists rows. split; [exact Hr|]. split; [exact Hk|].
      unfold frame. apply map_ext_in. intros i Hi. rewrite Hk.
      rewrite (@map_of_lookup _ _ _ _ zid Z.eqb Zeqb_spec' (step_of sk) s0 items i (zid_determines items) Hi).
      reflexivity.
    Qed.

    (* Some step raises (solver status not optimal): every schedule ends in an exception, and it is
       the exception of an item that raises when asked alone. *)
    Theorem fva_schedule_raises : forall items evs,
      valid evs items ->
      (exists i, In i items /\ fres_fails (single (step_of sk) s0 i) = true) ->
      exists j, In j items /\ fres_fails (single (step_of sk) s0 j) = true /\
                run_pool (step_of sk) fres_fails s0 evs = Raised (single (step_of sk) s0 j).
    Proof.
      intros items evs Hv Hex.
      exact (@schedule_raises _ _ _ (step_of sk) fres_fails lp_eqv s0 (lp_eqv_refl s0) restores respects items evs Hv Hex).
    Qed.

    (* the processes = 1 branch runs in the parent's own model and leaves its objective row as it was *)
    Theorem fva_serial_restores : forall items,
      ok_items (step_of sk) fres_fails s0 items ->
      lp_eqv (fst (run_serial (step_of sk) fres_fails s0 items)) s0.
    Proof.
      intros items Hok.
      exact (@serial_restores _ _ _ (step_of sk) fres_fails lp_eqv s0 (lp_eqv_refl s0) restores respects items Hok).
    Qed.
  End Pass.

  (* both passes; in the serial branch the "maximum" pass starts from whatever the "minimum"
     pass left in the parent's model *)
  Definition fva_serial (st : lpstate) (items : list Z) :=
    let (st1, dmin) := run_serial (step_of sk) fres_fails (init_worker st false) items in
    match dmin with
    | Raised e => (@Raised fres (list (Z * fres)) e, @Raised fres (list (Z * fres)) e)
    | Rows _ => (dmin, snd (run_serial (step_of sk) fres_fails (init_worker st1 true) items))
    end.

  Lemma init_worker_zero st d : zero_row st -> zero_row (init_worker st d).
  Proof. intros H r k. apply H. Qed.

  Lemma run_chunk_respects : forall c a b, lp_eqv a b ->
    snd (run_chunk (step_of sk) fres_fails a c) = snd (run_chunk (step_of sk) fres_fails b c).
  Proof.
    induction c as [|i c IH]; intros a b Hab; cbn; [reflexivity|].
    destruct (exec_respects solve status_raises loopless loopless_iter solve_ext loopless_ext sk a b regs0 i Hab) as [Hs He].
    unfold Workers.step_of. destruct (exec _ _ _ _ sk a regs0 i) as [a1 ra]. destruct (exec _ _ _ _ sk b regs0 i) as [b1 rb].
    cbn in Hs, He. subst rb. destruct (fres_fails ra); [reflexivity|].
    specialize (IH a1 b1 He). destruct (run_chunk _ _ a1 c) as [a2 da]. destruct (run_chunk _ _ b1 c) as [b2 db].
    cbn in IH. now subst db.
  Qed.

  (* serial two-pass FVA = the two one-chunk pool passes from the same parent state *)
  Theorem fva_serial_is_two_passes : forall st items,
    zero_row st ->
    ok_items (step_of sk) fres_fails (init_worker st false) items ->
    fva_serial st items =
      (run_pool (step_of sk) fres_fails (init_worker st false) [(0%nat, items)],
       run_pool (step_of sk) fres_fails (init_worker st true) [(0%nat, items)]).
  Proof.
    intros st items Hz Hok. unfold fva_serial.
    pose proof (fva_serial_restores (init_worker st false) (init_worker_zero st false Hz) items Hok) as Hrest.
    rewrite <- !serial_is_schedule.
    destruct (run_serial (step_of sk) fres_fails (init_worker st false) items) as [st1 dmin] eqn:E1.
    cbn in Hrest.
    pose proof (@run_chunk_ok _ _ _ (step_of sk) fres_fails lp_eqv (init_worker st false)
                  (fva_task_restores solve status_raises loopless loopless_iter sk _ sk_ok (init_worker_zero st false Hz))
                  (fva_task_respects solve status_raises loopless loopless_iter solve_ext loopless_ext sk _)
                  items _ (lp_eqv_refl _)) as Hc.
    unfold run_serial in E1. rewrite E1 in Hc. cbn in Hc.
    destruct dmin as [l|e].
    - cbn. f_equal. unfold run_serial. apply run_chunk_respects.
      destruct Hrest as [Ho _]. split; [exact Ho|reflexivity].
    - destruct Hc as [i [Hi [_ Hf]]]. rewrite (Hok i Hi) in Hf. discriminate.
  Qed.
End FVA.

(* ================================================================== deletions *)
Section Deletion.
  Variable B : Type.
  Variable b_eqb : B -> B -> bool.
  Variable zero_b : B.
  Variable rxns_of : Z -> list Z.
  Variable rule : Z -> (Z -> bool) -> bool.
  Variable growth_of : (Z -> B) -> option Q * Z.
  Hypothesis rule_ext : forall r f f', (forall g, f g = f' g) -> rule r f = rule r f'.
  Hypothesis growth_ext : forall b b', (forall r, b r = b' r) -> growth_of b = growth_of b'.

  Variable sk : list dstmt.
  Hypothesis sk_ok : del_ok sk = true.

  (* entity = "reaction" or "gene" *)
  Variable knock : dstate B -> Z -> dstate B.
  Hypothesis knock_inv : forall base st i, Inv B base st -> Inv B base (knock st i).
  Hypothesis knock_cong : forall a b i, d_eqv a b -> d_eqv (knock a i) (knock b i).

  (* the worker never raises (_get_growth turns SolverError into nan) *)
  Definition del_task (st : dstate B) (ids : list Z) : dstate B * dres := exec_del growth_of knock sk st ids g0.
  Definition never (r : dres) : bool := false.

  Variable s0 : dstate B.

  Lemma d_eqv_refl' (a : dstate B) : d_eqv a a.
  Proof. split; [reflexivity|split; reflexivity]. Qed.
  Lemma d_eqv_trans' (a b c : dstate B) : d_eqv a b -> d_eqv b c -> d_eqv a c.
  Proof.
    intros [H1 [H2 H3]] [H4 [H5 H6]]. split; [intros r; now rewrite H1|split; [intros g; now rewrite H2|congruence]].
  Qed.

  Lemma del_task_restores : task_restores del_task never d_eqv s0.
  Proof.
    intros w i Hw _. apply d_eqv_trans' with w; [|exact Hw].
    unfold del_task. apply (exec_del_restores B growth_of knock knock_inv). exact sk_ok.
  Qed.

  Lemma del_task_respects : task_respects del_task d_eqv s0.
  Proof.
    intros w i Hw. unfold single, del_task.
    apply (exec_del_cong B growth_of growth_ext knock knock_cong). exact Hw.
  Qed.

  (* the rows of the returned frame (one per knock-out set, in delivery order) are a permutation
     of the single-call rows, for every schedule and every enumeration order of the `args` set *)
  Theorem deletion_schedule_independent : forall (items : list (list Z)) evs,
    valid evs items ->
    exists rows, run_pool del_task never s0 evs = Rows rows /\
      Permutation rows (map (fun ids => (ids, single del_task s0 ids)) items) /\
      (forall k, assemble (fun i : list Z => i) lz_eqb rows k = map_of (fun i => i) lz_eqb del_task s0 items k) /\
      (forall ids, In ids items -> assemble (fun i : list Z => i) lz_eqb rows ids = Some (single del_task s0 ids)).
  Proof.
    intros items evs Hv.
    assert (ok_items del_task never s0 items) as Hok by (intros i _; reflexivity).
    assert (key_determines (fun i : list Z => i) del_task s0 items) as Hd
      by (apply injective_key_determines; intros i j _ _ H; exact H).
    destruct (@schedule_rows _ _ _ del_task never d_eqv s0 (d_eqv_refl' s0) del_task_restores del_task_respects
                items evs Hv Hok) as [rows [Hr HP]].
    destruct (@schedule_independent _ _ _ _ (fun i : list Z => i) lz_eqb lz_eqb_spec del_task never d_eqv s0
                (d_eqv_refl' s0) del_task_restores del_task_respects items evs Hv Hok Hd) as [rows' [Hr' Hk]].
    rewrite Hr in Hr'. injection Hr' as <-.
    exists rows. split; [exact Hr|]. split; [exact HP|]. split; [exact Hk|].
    intros ids Hin. rewrite Hk.
    exact (@map_of_lookup _ _ _ _ (fun i : list Z => i) lz_eqb lz_eqb_spec del_task s0 items ids Hd Hin).
  Qed.

  (* processes = 1: `map(partial(worker, model), args)` on the parent's model leaves it restored *)
  Theorem deletion_serial_restores : forall items,
    d_eqv (fst (run_serial del_task never s0 items)) s0.
  Proof.
    intros items.
    apply (@serial_restores _ _ _ del_task never d_eqv s0 (d_eqv_refl' s0) del_task_restores del_task_respects).
    intros i _. reflexivity.
  Qed.
End Deletion.
