(* C14 — schedule independence of the generic pool model (Model.v). *)
From Coq Require Import List Bool Arith ZArith Permutation Lia.
From Cobra.Sched Require Import Model.
Import ListNotations.

Set Implicit Arguments.

(* ------------------------------------------------------------------ list facts *)
Lemma Permutation_concat {A} (l l' : list (list A)) :
  Permutation l l' -> Permutation (concat l) (concat l').
Proof.
  induction 1 as [|x l l' HP IH|x y l|l l' l'' HP1 IH1 HP2 IH2]; cbn.
  - constructor.
  - apply Permutation_app_head. exact IH.
  - rewrite !app_assoc. apply Permutation_app_tail. apply Permutation_app_comm.
  - etransitivity; eassumption.
Qed.

Section Sched.
  Variables W I R K : Type.
  Variable key : I -> K.
  Variable key_eqb : K -> K -> bool.
  Hypothesis key_eqb_spec : forall a b, key_eqb a b = true <-> a = b.
  Variable task : W -> I -> W * R.
  Variable fails : R -> bool.

  Variable eqv : W -> W -> Prop.            (* "same as far as any later task can tell" *)
  Variable s0 : W.

  Notation f := (@single W I R task s0).
  Notation run_chunk := (@Model.run_chunk W I R task fails).
  Notation run_sched := (@Model.run_sched W I R task fails).
  Notation assemble := (@Model.assemble I R K key key_eqb).

  (* a task that does not raise leaves an (equivalent to) initial worker as it found it *)
  Definition task_restores : Prop :=
    forall w i, eqv w s0 -> fails (snd (task w i)) = false -> eqv (fst (task w i)) s0.
  (* on equivalent states the result is the same *)
  Definition task_respects : Prop :=
    forall w i, eqv w s0 -> snd (task w i) = f i.

  Hypothesis eqv_refl0 : eqv s0 s0.
  Hypothesis Hrestores : task_restores.
  Hypothesis Hrespects : task_respects.

  Definition ok_items (l : list I) : Prop := forall i, In i l -> fails (f i) = false.
  Definition rows_of (l : list I) : list (I * R) := map (fun i => (i, f i)) l.

  Lemma run_chunk_ok : forall c w, eqv w s0 ->
    match snd (run_chunk w c) with
    | Rows l => eqv (fst (run_chunk w c)) s0 /\ l = rows_of c /\ ok_items c
    | Raised e => exists i, In i c /\ e = f i /\ fails (f i) = true
    end.
  Proof.
    induction c as [|i c IH]; intros w Hw; cbn.
    - split; [exact Hw|]. split; [reflexivity|]. intros i [].
    - pose proof (Hrespects i Hw) as Hres. pose proof (Hrestores i Hw) as Hrst.
      destruct (task w i) as [w1 r] eqn:Et. cbn in Hres, Hrst. subst r.
      destruct (fails (f i)) eqn:Ef; cbn.
      + exists i. split; [now left|]. split; [reflexivity|exact Ef].
      + specialize (IH w1 (Hrst eq_refl)).
        destruct (run_chunk w1 c) as [w2 d]. cbn in IH |- *.
        destruct d as [l|e]; cbn.
        * destruct IH as [Hw2 [Hl Hok]]. split; [exact Hw2|]. split.
          -- unfold rows_of. cbn. now rewrite Hl.
          -- intros j [Hj|Hj]; [now subst j|now apply Hok].
        * destruct IH as [j [Hj [He Hfj]]]. exists j. split; [now right|]. now split.
  Qed.

  Definition all_eqv (ws : nat -> W) : Prop := forall p, eqv (ws p) s0.

  Lemma upd_all_eqv ws p w : all_eqv ws -> eqv w s0 -> all_eqv (upd ws p w).
  Proof. intros H Hw q. unfold upd. destruct (Nat.eqb q p); auto. Qed.

  Lemma run_sched_ok : forall evs ws acc, all_eqv ws ->
    match run_sched ws acc evs with
    | Rows rows => rows = acc ++ rows_of (concat (map snd evs)) /\ ok_items (concat (map snd evs))
    | Raised e => exists i, In i (concat (map snd evs)) /\ e = f i /\ fails (f i) = true
    end.
  Proof.
    induction evs as [|[p c] evs IH]; intros ws acc Hws; cbn.
    - split; [now rewrite app_nil_r|]. intros i [].
    - pose proof (run_chunk_ok c (Hws p)) as Hc.
      destruct (run_chunk (ws p) c) as [w' d]. cbn in Hc.
      destruct d as [l|e].
      + destruct Hc as [Hw' [Hl Hok]].
        specialize (IH (upd ws p w') (acc ++ l) (upd_all_eqv p Hws Hw')).
        destruct (run_sched (upd ws p w') (acc ++ l) evs) as [rows|e].
        * destruct IH as [Hr Hok2]. split.
          -- rewrite Hr, Hl. unfold rows_of. rewrite map_app, app_assoc. reflexivity.
          -- intros i Hi. apply in_app_or in Hi. destruct Hi; [now apply Hok|now apply Hok2].
        * destruct IH as [i [Hi H]]. exists i. split; [apply in_or_app; now right|exact H].
      + destruct Hc as [i [Hi H]]. exists i. split; [apply in_or_app; now left|exact H].
  Qed.

  (* a schedule for `items`: ANY cutting into chunks, ANY assignment of the chunks to workers
     and ANY delivery order, as long as every requested item is run exactly as often as it was
     requested *)
  Definition valid (evs : list (event I)) (items : list I) : Prop :=
    Permutation (concat (map snd evs)) items.

  Lemma ok_items_perm l l' : Permutation l l' -> ok_items l -> ok_items l'.
  Proof. intros HP H i Hi. apply H. eapply Permutation_in; [symmetry; exact HP|exact Hi]. Qed.

  (* 1. no item fails  ->  the parent receives exactly the single-call results (as a multiset) *)
  Theorem schedule_rows : forall items evs,
    valid evs items -> ok_items items ->
    exists rows, run_pool task fails s0 evs = Rows rows /\ Permutation rows (rows_of items).
  Proof.
    intros items evs Hv Hok. unfold run_pool.
    pose proof (@run_sched_ok evs (fun _ => s0) [] (fun _ => eqv_refl0)) as H.
    destruct (run_sched (fun _ => s0) [] evs) as [rows|e].
    - destruct H as [Hr _]. exists rows. split; [reflexivity|]. rewrite Hr. cbn.
      unfold rows_of. apply Permutation_map. exact Hv.
    - destruct H as [i [Hi [_ Hf]]].
      assert (In i items) as Hi' by (eapply Permutation_in; [exact Hv|exact Hi]).
      rewrite (Hok i Hi') in Hf. discriminate.
  Qed.

  (* 2. some item fails alone  <->  the whole call raises, with the exception of an item that
        also fails alone (WHICH failing item is reported may depend on the schedule)          *)
  Theorem schedule_raises : forall items evs,
    valid evs items ->
    (exists i, In i items /\ fails (f i) = true) ->
    exists j, In j items /\ fails (f j) = true /\ run_pool task fails s0 evs = Raised (f j).
  Proof.
    intros items evs Hv [i [Hi Hf]]. unfold run_pool.
    pose proof (@run_sched_ok evs (fun _ => s0) [] (fun _ => eqv_refl0)) as H.
    destruct (run_sched (fun _ => s0) [] evs) as [rows|e].
    - destruct H as [_ Hok]. assert (In i (concat (map snd evs))) as Hi'
        by (eapply Permutation_in; [symmetry; exact Hv|exact Hi]).
      rewrite (Hok i Hi') in Hf. discriminate.
    - destruct H as [j [Hj [He Hfj]]]. exists j. split.
      + eapply Permutation_in; [exact Hv|exact Hj].
      + split; [exact Hfj|now rewrite He].
  Qed.

  Theorem schedule_raised_is_single : forall items evs e,
    valid evs items -> run_pool task fails s0 evs = Raised e ->
    exists j, In j items /\ fails (f j) = true /\ e = f j.
  Proof.
    intros items evs e Hv Hr. unfold run_pool in Hr.
    pose proof (@run_sched_ok evs (fun _ => s0) [] (fun _ => eqv_refl0)) as H.
    rewrite Hr in H. destruct H as [j [Hj [He Hfj]]]. exists j. split.
    - eapply Permutation_in; [exact Hv|exact Hj].
    - now split.
  Qed.

  (* ---------------------------------------------------------------- keyed assembly *)
  Lemma fold_kset_last rows2 : forall (m : kmap R K) k,
    fold_left (fun m ir => kset key_eqb m (key (fst ir)) (snd ir)) rows2 m k =
    match assemble rows2 k with Some r => Some r | None => m k end.
  Proof.
    unfold Model.assemble.
    induction rows2 as [|[i r] rows2 IH] using rev_ind; intros m k; cbn.
    - reflexivity.
    - rewrite !fold_left_app. cbn. unfold kset at 1 3. destruct (key_eqb k (key i)); [reflexivity|].
      apply IH.
  Qed.

  Lemma assemble_app rows1 rows2 k :
    assemble (rows1 ++ rows2) k =
    match assemble rows2 k with Some r => Some r | None => assemble rows1 k end.
  Proof.
    unfold Model.assemble at 1 3. rewrite fold_left_app. apply fold_kset_last.
  Qed.

  (* rows in which equal keys carry equal results *)
  Definition consistent (rows : list (I * R)) : Prop :=
    forall i r j r', In (i, r) rows -> In (j, r') rows -> key i = key j -> r = r'.

  Lemma assemble_spec rows k :
    consistent rows ->
    (forall r, assemble rows k = Some r <-> exists i, In (i, r) rows /\ key i = k) .
  Proof.
    induction rows as [|[i r] rows IH] using rev_ind; intros Hc r0.
    - cbn. split; [discriminate|]. intros [j [[] _]].
    - rewrite assemble_app. cbn. unfold kset, kempty.
      assert (consistent rows) as Hc'.
      { intros a ra b rb Ha Hb. apply Hc; apply in_or_app; now left. }
      destruct (key_eqb k (key i)) eqn:Ek.
      + apply key_eqb_spec in Ek. split.
        * intros [= <-]. exists i. split; [apply in_or_app; right; now left|now symmetry].
        * intros [j [Hj Hk]]. f_equal. eapply (Hc i r j r0).
          -- apply in_or_app. right. now left.
          -- exact Hj.
          -- congruence.
      + rewrite (IH Hc' r0). split.
        * intros [j [Hj Hk]]. exists j. split; [apply in_or_app; now left|exact Hk].
        * intros [j [Hj Hk]]. apply in_app_or in Hj. destruct Hj as [Hj|[Hj|[]]].
          -- exists j. now split.
          -- injection Hj as Hi' _. rewrite <- Hi' in Hk. symmetry in Hk. apply key_eqb_spec in Hk.
             rewrite Hk in Ek. discriminate.
  Qed.

  Lemma option_ext {A} (x y : option A) : (forall r, x = Some r <-> y = Some r) -> x = y.
  Proof.
    intros H. destruct x as [a|], y as [b|]; try reflexivity.
    - symmetry. apply (H a). reflexivity.
    - destruct (H a) as [H1 _]. specialize (H1 eq_refl). discriminate.
    - destruct (H b) as [_ H2]. specialize (H2 eq_refl). discriminate.
  Qed.

  Lemma assemble_perm rows rows' :
    Permutation rows rows' -> consistent rows -> forall k, assemble rows k = assemble rows' k.
  Proof.
    intros HP Hc k. apply option_ext. intros r.
    assert (consistent rows') as Hc'.
    { intros a ra b rb Ha Hb. apply Hc; eapply Permutation_in; try (symmetry; exact HP); assumption. }
    rewrite (assemble_spec k Hc r), (assemble_spec k Hc' r). split; intros [i [Hi Hk]]; exists i; split; auto.
    - eapply Permutation_in; [exact HP|exact Hi].
    - eapply Permutation_in; [symmetry; exact HP|exact Hi].
  Qed.

  (* the results of the requested items are determined by their keys: either no two requested
     items share a key (NoDup), or — as for FVA, where the key IS the item — equal keys mean
     equal items *)
  Definition key_determines (items : list I) : Prop :=
    forall i j, In i items -> In j items -> key i = key j -> f i = f j.

  Lemma NoDup_key_determines items : NoDup (map key items) -> key_determines items.
  Proof.
    induction items as [|a l IH]; intros Hnd i j Hi Hj Hk; [destruct Hi|].
    inversion Hnd as [|? ? Hna Hnd']; subst.
    destruct Hi as [<-|Hi], Hj as [<-|Hj]; try reflexivity.
    - exfalso. apply Hna. rewrite Hk. now apply in_map.
    - exfalso. apply Hna. rewrite <- Hk. now apply in_map.
    - now apply IH.
  Qed.

  Lemma injective_key_determines items :
    (forall i j, In i items -> In j items -> key i = key j -> i = j) -> key_determines items.
  Proof. intros H i j Hi Hj Hk. now rewrite (H i j Hi Hj Hk). Qed.

  Lemma rows_of_consistent items : key_determines items -> consistent (rows_of items).
  Proof.
    intros Hd i r j r' Hi Hj Hk. unfold rows_of in *.
    apply in_map_iff in Hi. destruct Hi as [a [Ea Ha]]. apply in_map_iff in Hj. destruct Hj as [b [Eb Hb]].
    inversion Ea; inversion Eb; subst. now apply Hd.
  Qed.

  (* 3. THE THEOREM: whatever the schedule, the keyed result equals the map of single calls *)
  Theorem schedule_independent : forall items evs,
    valid evs items -> ok_items items -> key_determines items ->
    exists rows, run_pool task fails s0 evs = Rows rows /\
                 forall k, assemble rows k = map_of key key_eqb task s0 items k.
  Proof.
    intros items evs Hv Hok Hd. destruct (schedule_rows Hv Hok) as [rows [Hr HP]].
    exists rows. split; [exact Hr|]. intros k. unfold map_of.
    symmetry. apply assemble_perm; [now symmetry|]. now apply rows_of_consistent.
  Qed.

  (* ... and a requested key holds the result of the single call (duplicates included) *)
  Theorem map_of_lookup : forall items i,
    key_determines items -> In i items -> map_of key key_eqb task s0 items (key i) = Some (f i).
  Proof.
    intros items i Hd Hi. unfold map_of.
    apply (assemble_spec (key i) (rows_of_consistent Hd)). exists i. split; [|reflexivity].
    unfold rows_of. apply in_map_iff. exists i. now split.
  Qed.

  Theorem map_of_absent : forall items k,
    (forall i, In i items -> key i <> k) -> map_of key key_eqb task s0 items k = None.
  Proof.
    intros items k Hn. unfold map_of. induction items as [|a l IH] using rev_ind; [reflexivity|].
    rewrite map_app, assemble_app. cbn. unfold kset, kempty.
    destruct (key_eqb k (key a)) eqn:E.
    - apply key_eqb_spec in E. exfalso. apply (Hn a); [apply in_or_app; right; now left|now symmetry].
    - apply IH. intros i Hi. apply Hn. apply in_or_app. now left.
  Qed.

  (* the frame: one row per requested item, in request order, each holding the single-call result *)
  Corollary frame_independent : forall items evs,
    valid evs items -> ok_items items -> key_determines items ->
    exists rows, run_pool task fails s0 evs = Rows rows /\
      frame key items (assemble rows) = map (fun i => (key i, Some (f i))) items.
  Proof.
    intros items evs Hv Hok Hd. destruct (schedule_independent Hv Hok Hd) as [rows [Hr Hk]].
    exists rows. split; [exact Hr|]. unfold frame. apply map_ext_in. intros i Hi.
    rewrite Hk, (@map_of_lookup items i Hd Hi). reflexivity.
  Qed.

  (* the serial branch is the one-worker one-chunk schedule, and leaves the parent's model restored *)
  Theorem serial_is_schedule : forall items,
    snd (run_serial task fails s0 items) = run_pool task fails s0 [(0%nat, items)].
  Proof.
    intros items. unfold run_serial, run_pool. cbn.
    destruct (run_chunk s0 items) as [w d]. cbn. destruct d; reflexivity.
  Qed.

  Theorem serial_restores : forall items,
    ok_items items -> eqv (fst (run_serial task fails s0 items)) s0.
  Proof.
    intros items Hok. unfold run_serial. pose proof (run_chunk_ok items eqv_refl0) as H.
    destruct (run_chunk s0 items) as [w d]. cbn in *. destruct d as [l|e]; [tauto|].
    destruct H as [i [Hi [_ Hf]]]. rewrite (Hok i Hi) in Hf. discriminate.
  Qed.
End Sched.

(* ---------------------------------------------------------------------- chunking facts *)
Section Chunks.
  Variable I : Type.

  Lemma chunks_aux_concat : forall fuel cs (l : list I),
    (0 < cs)%nat -> (length l <= fuel)%nat -> concat (chunks_aux fuel cs l) = l.
  Proof.
    induction fuel as [|fuel IH]; intros cs l Hcs Hlen.
    - destruct l; [reflexivity|cbn in Hlen; lia].
    - destruct l as [|a l]; [reflexivity|].
      cbn [chunks_aux concat]. rewrite IH; [apply firstn_skipn|exact Hcs|].
      rewrite skipn_length. cbn [length] in *. lia.
  Qed.

  Lemma chunks_concat cs (l : list I) : (0 < cs)%nat -> concat (chunks cs l) = l.
  Proof. intros H. apply chunks_aux_concat; [exact H|lia]. Qed.

  Lemma round_robin_chunks p j (cs : list (list I)) : map snd (round_robin p j cs) = cs.
  Proof. revert j. induction cs as [|c cs IH]; intros j; cbn; [reflexivity|now rewrite IH]. Qed.

  (* ANY assignment of Pool's chunks to workers in ANY delivery order is a valid schedule *)
  Lemma pool_schedule_valid cs (items : list I) (evs : list (event I)) :
    (0 < cs)%nat -> Permutation (map snd evs) (chunks cs items) -> valid evs items.
  Proof.
    intros Hcs HP. unfold valid. rewrite <- (chunks_concat items Hcs). now apply Permutation_concat.
  Qed.

  (* cobrapy's chunk size is positive whenever the pool branch is taken *)
  Lemma dispatch_pool processes (items : list I) p cs :
    dispatch processes items = Pool p cs ->
    (1 < p)%nat /\ (p <= length items)%nat /\ (p <= processes)%nat /\ cs = (length items / p)%nat /\ (0 < cs)%nat.
  Proof.
    unfold dispatch. destruct (Nat.ltb_spec 1 (Nat.min processes (length items))) as [Hlt|Hge]; [|discriminate].
    intros [= <- <-]. repeat split; try lia.
    apply Nat.div_str_pos. lia.
  Qed.

  Lemma dispatch_serial processes (items : list I) :
    dispatch processes items = Serial -> (processes <= 1 \/ length items <= 1)%nat.
  Proof.
    unfold dispatch. destruct (Nat.ltb_spec 1 (Nat.min processes (length items))) as [Hlt|Hge]; [discriminate|].
    intros _. lia.
  Qed.
End Chunks.
