(* C14 — correspondence + monitor functions evaluated (vm_compute) on what the harness observed
   of the real pools.  Nothing here is a theorem.

   A case = one analysis on one model:
     c_single : the result of asking for each item ALONE (single-item calls of the real code)
     c_runs   : runs of the real code with some process count, some order of the requested items,
                injected delays; each with the rows it returned and (when it could be observed) the
                actual schedule = which worker ran which chunk, in delivery order.
   The model (Model.v) is run with `task := look the item up in c_single` — by the theorems the
   state a worker carries cannot matter — once on cobrapy's dispatch + Pool's chunking with a
   round-robin assignment (`driver`) and once on the OBSERVED schedule.                          *)
From Coq Require Import ZArith List Bool QArith Qabs Qminmax.
From Cobra.Sched Require Import Model.
Import ListNotations.
Open Scope Z_scope.

Definition res : Type := (Z * list (option Q))%type.   (* status / exception code, values (None = nan) *)
Definition res_fails (r : res) : bool := 100 <=? fst r.

Record run := mkRun {
  r_procs : Z;
  r_items : list Z;                 (* the request, in the order given to the call *)
  r_events : list (Z * list Z);     (* observed schedule (worker, chunk) in delivery order; [] = not observed *)
  r_raised : option Z;              (* the whole call raised (exception code) *)
  r_rows : list (Z * res)           (* returned rows, in returned order *)
}.
Record case := mkCase {
  c_kind : Z;                       (* 0: frame indexed by the request (row order = request order)
                                       1: rows in delivery order / a set (order not part of the result) *)
  c_single : list (Z * res);
  c_runs : list run
}.

Definition tol : Q := 1 # 1000000.

Definition q_close (x y : Q) : bool :=            (* |x - y| <= 1e-6 * max(1, |x|) *)
  Qle_bool (Qabs (x - y)) (tol * Qmax 1 (Qabs x)).

Definition oq_close (a b : option Q) : bool :=
  match a, b with Some x, Some y => q_close x y | None, None => true | _, _ => false end.

Fixpoint list_close (a b : list (option Q)) : bool :=
  match a, b with
  | [], [] => true
  | x :: a', y :: b' => oq_close x y && list_close a' b'
  | _, _ => false
  end.

Definition res_close (a b : res) : bool := (fst a =? fst b) && list_close (snd a) (snd b).

Fixpoint lookup (k : Z) (l : list (Z * res)) : option res :=
  match l with [] => None | (a, r) :: l' => if a =? k then Some r else lookup k l' end.

Definition missing : res := (999, []).
Definition table_task (tbl : list (Z * res)) (w : unit) (i : Z) : unit * res :=
  (w, match lookup i tbl with Some r => r | None => missing end).

Definition ores_close (a b : option res) : bool :=
  match a, b with Some x, Some y => res_close x y | None, None => true | _, _ => false end.

(* ordered comparison (kind 0) *)
Fixpoint rows_close (a : list (Z * option res)) (b : list (Z * res)) : bool :=
  match a, b with
  | [], [] => true
  | (k, r) :: a', (k', r') :: b' => (k =? k') && ores_close r (Some r') && rows_close a' b'
  | _, _ => false
  end.

(* unordered comparison (kind 1) *)
Definition rows_sub (a b : list (Z * res)) : bool :=
  forallb (fun kr => match lookup (fst kr) b with Some r => res_close (snd kr) r | None => false end) a.
Definition rows_same_set (a b : list (Z * res)) : bool :=
  (Nat.eqb (length a) (length b)) && rows_sub a b && rows_sub b a.

Definition count (x : Z) (l : list Z) : nat := length (filter (Z.eqb x) l).
Definition perm_b (a b : list Z) : bool :=
  Nat.eqb (length a) (length b) && forallb (fun x => Nat.eqb (count x a) (count x b)) a.

Fixpoint lz_eqb (a b : list Z) : bool :=
  match a, b with
  | [], [] => true
  | x :: a', y :: b' => (x =? y) && lz_eqb a' b'
  | _, _ => false
  end.
Definition countl (x : list Z) (l : list (list Z)) : nat := length (filter (lz_eqb x) l).
Definition perm_lb (a b : list (list Z)) : bool :=
  Nat.eqb (length a) (length b) && forallb (fun x => Nat.eqb (countl x a) (countl x b)) a.

Definition nat_events (evs : list (Z * list Z)) : list (event Z) :=
  map (fun e => (Z.to_nat (fst e), snd e)) evs.

Definition zid_key (i : Z) : Z := i.

(* prediction vs observation of one run *)
Definition compare (kind : Z) (items : list Z) (pred : delivered res (list (Z * res)))
           (raised : option Z) (rows : list (Z * res)) (tbl : list (Z * res)) : bool :=
  match pred, raised with
  | Raised e, Some code =>
      (* which failing item is reported may depend on the schedule: any failing single will do *)
      existsb (fun kr => res_fails (snd kr) && (fst (snd kr) =? code)) tbl && res_fails e
  | Rows prows, None =>
      if kind =? 0
      then rows_close (frame zid_key items (assemble zid_key Z.eqb prows)) rows
      else rows_same_set prows rows
  | _, _ => false
  end.

(* the observed schedule is one the model quantifies over (every requested item run exactly as
   often as requested) *)
Definition schedule_ok (procs : Z) (items : list Z) (evs : list (Z * list Z)) : bool :=
  perm_b (concat (map snd evs)) items.

(* informational (not a failure): the observed chunks are the ones the model's dispatch cuts *)
Definition chunking_matches (procs : Z) (items : list Z) (evs : list (Z * list Z)) : bool :=
  match dispatch (Z.to_nat procs) items with
  | Serial => match evs with [(0, c)] => lz_eqb c items | _ => false end
  | Pool p cs => perm_lb (map snd evs) (chunks cs items) &&
                 forallb (fun e => (0 <=? fst e) && (fst e <? Z.of_nat p)) evs
  end.

(* the property on the observation alone: every returned row is the single-item result, rows are
   exactly the requested items (in request order for kind 0) *)
Definition monitor_single (kind : Z) (r : run) (tbl : list (Z * res)) : bool :=
  match r_raised r with
  | Some code => existsb (fun i => match lookup i tbl with
                                   | Some x => res_fails x && (fst x =? code) | None => false end) (r_items r)
  | None =>
      forallb (fun kr => match lookup (fst kr) tbl with
                         | Some x => negb (res_fails x) && res_close x (snd kr) | None => false end) (r_rows r) &&
      (if kind =? 0 then lz_eqb (map fst (r_rows r)) (r_items r)
       else perm_b (map fst (r_rows r)) (r_items r))
  end.

Definition monitor_cross (first r : run) : bool :=
  match r_raised first, r_raised r with
  | Some a, Some b => true
  | None, None => rows_same_set (r_rows first) (r_rows r)
  | _, _ => false
  end.

Definition code (n : nat) (ok : bool) : list nat := if ok then [] else [n].

Definition check_run (c : case) (first : run) (r : run) : list nat :=
  let tbl := c_single c in
  let task := table_task tbl in
  code 1 (compare (c_kind c) (r_items r) (driver task res_fails (Z.to_nat (r_procs r)) tt (r_items r))
            (r_raised r) (r_rows r) tbl) ++
  code 2 (monitor_cross first r) ++
  code 3 (monitor_single (c_kind c) r tbl) ++
  match r_events r with
  | [] => []
  | evs =>
      code 4 (schedule_ok (r_procs r) (r_items r) evs) ++
      code 5 (compare (c_kind c) (r_items r) (run_pool task res_fails tt (nat_events evs))
                (r_raised r) (r_rows r) tbl)
  end.

Fixpoint number {A} (n : nat) (l : list A) : list (nat * A) :=
  match l with [] => [] | x :: l' => (n, x) :: number (S n) l' end.

Definition check_case (c : case) : list (nat * nat) :=
  match c_runs c with
  | [] => []
  | first :: _ =>
      flat_map (fun nr => map (fun cd => (fst nr, cd)) (check_run c first (snd nr))) (number 0 (c_runs c))
  end.

(* number of observed schedules whose chunk structure is NOT the model's (expected: none) *)
Definition chunk_mismatches (cases : list (Z * case)) : list (Z * list (nat * nat)) :=
  flat_map (fun ic =>
    match flat_map (fun nr => match r_events (snd nr) with
                              | [] => []
                              | evs => if chunking_matches (r_procs (snd nr)) (r_items (snd nr)) evs then []
                                       else [(fst nr, 9%nat)]
                              end) (number 0 (c_runs (snd ic))) with
    | [] => []
    | l => [(fst ic, l)]
    end) cases.

Definition failing (cases : list (Z * case)) : list (Z * list (nat * nat)) :=
  flat_map (fun ic => match check_case (snd ic) with [] => [] | l => [(fst ic, l)] end) cases.

(* failures, followed by the informational chunk mismatches under index + 1000000 *)
Definition report (cases : list (Z * case)) : list (Z * list (nat * nat)) :=
  failing cases ++ map (fun il => (fst il + 1000000, snd il)) (chunk_mismatches cases).
