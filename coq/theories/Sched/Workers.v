(* C14 — the worker functions the pools run, as state machines over the part of the
   process-global `_model` they write.

   FVA      (flux_analysis/variability.py: _init_worker, _fva_step): the state is the LP's objective
            row and direction; everything else of the worker's LP is never written by a step.
            The step is given twice: as an interpreter `exec` of a *skeleton* (the statement sequence
            that harness/tables_sched.py regenerates from the current source, Gen/SchedSkeleton.v)
            and hand-written (`fva_step`, mirroring the Python statement by statement);
            Current.v proves that the two coincide on the current skeleton.
   Deletion (flux_analysis/deletion.py: _reaction_deletion, _gene_deletion, _get_growth): the
            state is the reactions' bounds, the genes' `functional` flags and the stack of
            `with model:` histories (cobra.util.context.HistoryManager / resettable).        *)
From Coq Require Import List Bool ZArith QArith.
Import ListNotations.
Open Scope Z_scope.

(* ================================================================== FVA *)
Inductive var := VF (r : Z) | VR (r : Z) | VO (n : Z).   (* forward / reverse variable of reaction r; any other *)

Definition var_eqb (a b : var) : bool :=
  match a, b with
  | VF x, VF y | VR x, VR y | VO x, VO y => Z.eqb x y
  | _, _ => false
  end.

Definition row := var -> Z.
Definition rset (o : row) (v : var) (c : Z) : row := fun v' => if var_eqb v' v then c else o v'.

Record lpstate := mkLP { obj : row; dir_max : bool }.

Inductive vk := KFwd | KRev.
Definition vk_eqb (a b : vk) : bool := match a, b with KFwd, KFwd | KRev, KRev => true | _, _ => false end.
Definition var_of (k : vk) (r : Z) : var := match k with KFwd => VF r | KRev => VR r end.

(* statement kinds of `_fva_step`, in source order *)
Inductive wstmt :=
| SLookup                        (* rxn = _model.reactions.get_by_id(reaction_id)                       *)
| SSetObj (ws : list (vk * Z))   (* _model.solver.objective.set_linear_coefficients({var: c, ...})     *)
| SSolve                         (* _model.slim_optimize()                                              *)
| SCheckStatus                   (* sutil.check_solver_status(_model.solver.status)   -- may raise      *)
| SValue                         (* value = loopless_fva_iter(_model, rxn) if _loopless else objective.value *)
| SNanIfNone                     (* if value is None: value = nan (+ warning)                           *)
| SReturn.                       (* return reaction_id, value                                           *)

Fixpoint apply_writes (ws : list (vk * Z)) (r : Z) (o : row) : row :=
  match ws with
  | [] => o
  | (k, c) :: ws' => apply_writes ws' r (rset o (var_of k r) c)
  end.

(* the coefficient writes executed before the (first) return *)
Fixpoint writes (sk : list wstmt) : list (vk * Z) :=
  match sk with
  | [] => []
  | SSetObj ws :: k => ws ++ writes k
  | SReturn :: _ => []
  | _ :: k => writes k
  end.

Fixpoint has_return (sk : list wstmt) : bool :=
  match sk with [] => false | SReturn :: _ => true | _ :: k => has_return k end.

(* last value written to the variable of kind k, if any *)
Fixpoint final (k : vk) (ws : list (vk * Z)) : option Z :=
  match ws with
  | [] => None
  | (k', c) :: ws' => match final k ws' with
                      | Some c' => Some c'
                      | None => if vk_eqb k k' then Some c else None
                      end
  end.

(* THE CONDITION THE RESTORATION THEOREM NEEDS: the step returns, and every coefficient it
   writes is written back to 0 (the value `model.objective = Zero` left there) before it returns *)
Definition worker_ok (sk : list wstmt) : bool :=
  has_return sk &&
  forallb (fun k => match final k (writes sk) with None => true | Some c => Z.eqb c 0 end) [KFwd; KRev].

(* shape of the measuring part (not needed for restoration; pinned as well): exactly this
   statement sequence up to renaming-free details *)
Fixpoint nonzero_write (ws : list (vk * Z)) : bool :=
  match ws with [] => false | (_, c) :: ws' => negb (Z.eqb c 0) || nonzero_write ws' end.
Fixpoint solve_placed_aux (armed solved : bool) (sk : list wstmt) : bool :=
  match sk with
  | [] => false
  | SSetObj ws :: k => if solved then negb (nonzero_write ws) && solve_placed_aux armed solved k
                       else solve_placed_aux (armed || nonzero_write ws) solved k
  | SSolve :: k => armed && negb solved && solve_placed_aux armed true k
  | SValue :: k => solved && solve_placed_aux armed solved k
  | SReturn :: _ => solved
  | _ :: k => solve_placed_aux armed solved k
  end.
Definition solve_placed (sk : list wstmt) : bool := solve_placed_aux false false sk.

Section FVA.
  (* the worker's LP apart from its objective row and direction is fixed; `solve` is
     `slim_optimize` on it: (solver status, objective value) *)
  Variable solve : row -> bool -> Z * option Q.
  Variable status_raises : Z -> bool.              (* check_solver_status raises for this status *)
  Variable loopless : bool.
  Variable loopless_iter : row -> bool -> Z -> option Q.   (* loopless_fva_iter, as a function of the LP *)

  Inductive fres := FVal (v : option Q) (* None = nan *) | FExc (status : Z).
  Definition fres_fails (r : fres) : bool := match r with FExc _ => true | FVal _ => false end.

  Record regs := mkRegs { r_status : option Z; r_solved : option Q; r_value : option Q }.
  Definition regs0 := mkRegs None None None.

  Definition set_all (st : lpstate) (ws : list (vk * Z)) (r : Z) : lpstate :=
    mkLP (apply_writes ws r (obj st)) (dir_max st).

  (* interpreter of a skeleton: one call `_fva_step(reaction_id)` on worker state st *)
  Fixpoint exec (sk : list wstmt) (st : lpstate) (rg : regs) (rxn : Z) : lpstate * fres :=
    match sk with
    | [] => (st, FExc (-2))                       (* falls off the end: the parent cannot unpack None *)
    | SLookup :: k => exec k st rg rxn
    | SSetObj ws :: k => exec k (set_all st ws rxn) rg rxn
    | SSolve :: k =>
        let (s, v) := solve (obj st) (dir_max st) in
        exec k st (mkRegs (Some s) v (r_value rg)) rxn
    | SCheckStatus :: k =>
        match r_status rg with
        | None => (st, FExc (-1))                 (* "Model is not optimized yet" *)
        | Some s => if status_raises s then (st, FExc s) else exec k st rg rxn
        end
    | SValue :: k =>
        let v := if loopless then loopless_iter (obj st) (dir_max st) rxn else r_solved rg in
        exec k st (mkRegs (r_status rg) (r_solved rg) v) rxn
    | SNanIfNone :: k => exec k st rg rxn         (* None and nan are both `None` here *)
    | SReturn :: _ => (st, FVal (r_value rg))
    end.

  Definition step_of (sk : list wstmt) (st : lpstate) (rxn : Z) : lpstate * fres := exec sk st regs0 rxn.

  (* hand-written mirror of _fva_step *)
  Definition fva_step (st : lpstate) (rxn : Z) : lpstate * fres :=
    (* _model.solver.objective.set_linear_coefficients({rxn.forward_variable: 1, rxn.reverse_variable: -1}) *)
    let st1 := mkLP (rset (rset (obj st) (VF rxn) 1) (VR rxn) (-1)) (dir_max st) in
    (* _model.slim_optimize() *)
    let (s, v) := solve (obj st1) (dir_max st1) in
    (* sutil.check_solver_status(_model.solver.status) *)
    if status_raises s then (st1, FExc s) else
    (* value = loopless_fva_iter(_model, rxn) if _loopless else _model.solver.objective.value *)
    let value := if loopless then loopless_iter (obj st1) (dir_max st1) rxn else v in
    (* _model.solver.objective.set_linear_coefficients({rxn.forward_variable: 0, rxn.reverse_variable: 0}) *)
    let st2 := mkLP (rset (rset (obj st1) (VF rxn) 0) (VR rxn) 0) (dir_max st1) in
    (st2, FVal value).

  (* _init_worker(model, loopless, sense): the direction is set once per pool / per pass *)
  Definition init_worker (st : lpstate) (sense_max : bool) : lpstate := mkLP (obj st) sense_max.

  (* states that no later step can tell apart *)
  Definition lp_eqv (a b : lpstate) : Prop := (forall v, obj a v = obj b v) /\ dir_max a = dir_max b.
End FVA.


(* ================================================================== deletions *)
Section Deletion.
  Variable B : Type.                         (* a (lower, upper) pair *)
  Variable b_eqb : B -> B -> bool.           (* Python's == on the pairs (resettable's early exit) *)
  Variable zero_b : B.                       (* (0, 0) *)
  Variable rxns_of : Z -> list Z.            (* gene.reactions, in iteration order *)
  Variable rule : Z -> (Z -> bool) -> bool.  (* reaction.functional given the genes' flags *)
  Variable growth_of : (Z -> B) -> option Q * Z.   (* _get_growth: (growth | nan, solver status) *)

  Inductive undo := UBnd (r : Z) (b : B) | UFn (g : Z) (v : bool).

  (* hist: the stack `model._contexts`, innermost first; one frame = HistoryManager._history,
     most recent entry first *)
  Record dstate := mkD { bnd : Z -> B; fn : Z -> bool; hist : list (list undo) }.

  Definition fupd {A} (f : Z -> A) (k : Z) (a : A) : Z -> A := fun k' => if Z.eqb k' k then a else f k'.

  Definition record (u : undo) (h : list (list undo)) : list (list undo) :=
    match h with [] => [] | top :: rest => (u :: top) :: rest end.

  (* `reaction.bounds = b` through @resettable *)
  Definition set_bnd (st : dstate) (r : Z) (b : B) : dstate :=
    match hist st with
    | [] => mkD (fupd (bnd st) r b) (fn st) []
    | _ => if b_eqb (bnd st r) b then st
           else mkD (fupd (bnd st) r b) (fn st) (record (UBnd r (bnd st r)) (hist st))
    end.

  (* `gene.functional = v` through @resettable *)
  Definition set_fn (st : dstate) (g : Z) (v : bool) : dstate :=
    match hist st with
    | [] => mkD (bnd st) (fupd (fn st) g v) []
    | _ => if Bool.eqb (fn st g) v then st
           else mkD (bnd st) (fupd (fn st) g v) (record (UFn g (fn st g)) (hist st))
    end.

  Definition enter (st : dstate) : dstate := mkD (bnd st) (fn st) ([] :: hist st).

  Definition undo1 (st : dstate) (u : undo) : dstate :=
    match u with
    | UBnd r b => mkD (fupd (bnd st) r b) (fn st) (hist st)
    | UFn g v => mkD (bnd st) (fupd (fn st) g v) (hist st)
    end.

  (* Model.__exit__: pop the innermost history and run its entries, most recent first *)
  Definition exit (st : dstate) : dstate :=
    match hist st with
    | [] => st
    | top :: rest => let st' := fold_left undo1 top st in mkD (bnd st') (fn st') rest
    end.

  (* Reaction.knock_out / Gene.knock_out *)
  Definition knock_reaction (st : dstate) (r : Z) : dstate := set_bnd st r zero_b.
  Definition knock_gene (st : dstate) (g : Z) : dstate :=
    let st1 := set_fn st g false in
    fold_left (fun s r => if rule r (fn s) then s else set_bnd s r zero_b) (rxns_of g) st1.

  Inductive dsimple := DKnockLoop | DGrowth | DReturn.
  Inductive dstmt := DWith (body : list dsimple) | DTop (s : dsimple).

  Definition dres : Type := (option Q * Z)%type.       (* (growth | nan, status) *)

  Section Exec.
    Variable knock : dstate -> Z -> dstate.

    (* returns (state, last growth, returned?) *)
    Fixpoint exec_simple (body : list dsimple) (st : dstate) (ids : list Z) (g : dres) : dstate * dres * bool :=
      match body with
      | [] => (st, g, false)
      | DKnockLoop :: k => exec_simple k (fold_left knock ids st) ids g
      | DGrowth :: k => exec_simple k st ids (growth_of (bnd st))
      | DReturn :: _ => (st, g, true)
      end.

    Fixpoint exec_del (sk : list dstmt) (st : dstate) (ids : list Z) (g : dres) : dstate * dres :=
      match sk with
      | [] => (st, g)
      | DWith body :: k =>
          match exec_simple body (enter st) ids g with
          | (st', g', returned) => if returned then (exit st', g') else exec_del k (exit st') ids g'
          end
      | DTop s :: k =>
          match exec_simple [s] st ids g with
          | (st', g', returned) => if returned then (st', g') else exec_del k st' ids g'
          end
      end.
  End Exec.

  Definition g0 : dres := (None, -1).

  (* the condition the restoration theorem needs: knock-outs only inside a `with` block *)
  Definition del_ok (sk : list dstmt) : bool :=
    forallb (fun s => match s with DTop DKnockLoop => false | _ => true end) sk.

  (* shape of the measuring part: the growth is read inside the block, after the knock-outs *)
  Fixpoint measured_after_knock (seen : bool) (body : list dsimple) : bool :=
    match body with
    | [] => false
    | DKnockLoop :: k => measured_after_knock true k
    | DGrowth :: k => seen
    | DReturn :: _ => false
    end.
  Definition del_measures (sk : list dstmt) : bool :=
    match sk with
    | [DWith body; DTop DReturn] => measured_after_knock false body
    | _ => false
    end.

  (* hand-written mirrors of _reaction_deletion / _gene_deletion *)
  Definition reaction_deletion (st : dstate) (ids : list Z) : dstate * dres :=
    let st1 := enter st in                                   (* with model:                          *)
    let st2 := fold_left knock_reaction ids st1 in           (*   for id in ids: ....knock_out()     *)
    let g := growth_of (bnd st2) in                          (*   growth, status = _get_growth(model) *)
    (exit st2, g).                                           (* return ids, growth, status           *)
  Definition gene_deletion (st : dstate) (ids : list Z) : dstate * dres :=
    let st1 := enter st in
    let st2 := fold_left knock_gene ids st1 in
    let g := growth_of (bnd st2) in
    (exit st2, g).

  Definition d_eqv (a b : dstate) : Prop :=
    (forall r, bnd a r = bnd b r) /\ (forall g, fn a g = fn b g) /\ hist a = hist b.
End Deletion.

Arguments bnd {B} d.
Arguments fn {B} d.
Arguments hist {B} d.
Arguments mkD {B} bnd fn hist.
Arguments UBnd {B} r b.
Arguments UFn {B} g v.
Arguments undo1 {B} st u.
Arguments enter {B} st.
Arguments exit {B} st.
Arguments set_fn {B} st g v.
Arguments record {B} u h.
Arguments d_eqv {B} a b.
Arguments set_bnd {B} b_eqb st r b.
Arguments knock_reaction {B} b_eqb zero_b st r.
Arguments knock_gene {B} b_eqb zero_b rxns_of rule st g.
Arguments exec_simple {B} growth_of knock body st ids g.
Arguments exec_del {B} growth_of knock sk st ids g.
Arguments reaction_deletion {B} b_eqb zero_b growth_of st ids.
Arguments gene_deletion {B} b_eqb zero_b rxns_of rule growth_of st ids.
