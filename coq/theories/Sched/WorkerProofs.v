(* C14 — the worker steps restore what they write (FVA: objective coefficients; deletions:
   bounds and gene flags through the `with model:` history), and their result only depends on
   the part of the state they read. *)
From Coq Require Import List Bool ZArith QArith Lia.
From Cobra.Sched Require Import Workers.
Import ListNotations.
Open Scope Z_scope.

(* ================================================================== FVA *)
Lemma var_eqb_refl v : var_eqb v v = true.
Proof. destruct v; cbn; apply Z.eqb_refl. Qed.

Lemma var_eqb_eq a b : var_eqb a b = true -> a = b.
Proof. destruct a, b; cbn; try discriminate; intros H; apply Z.eqb_eq in H; now subst. Qed.

Lemma var_eqb_kind k k' r : var_eqb (var_of k r) (var_of k' r) = vk_eqb k k'.
Proof. destruct k, k'; cbn; try reflexivity; apply Z.eqb_refl. Qed.

Lemma apply_writes_app ws ws' r o : apply_writes (ws ++ ws') r o = apply_writes ws' r (apply_writes ws r o).
Proof. revert o. induction ws as [|[k c] ws IH]; intros o; cbn; [reflexivity|apply IH]. Qed.

Lemma apply_writes_other ws r : forall o x, (forall k, x <> var_of k r) -> apply_writes ws r o x = o x.
Proof.
  induction ws as [|[k c] ws IH]; intros o x Hx; cbn; [reflexivity|].
  rewrite IH by exact Hx. unfold rset. destruct (var_eqb x (var_of k r)) eqn:E; [|reflexivity].
  apply var_eqb_eq in E. exfalso. exact (Hx k E).
Qed.

Lemma apply_writes_kind ws r k : forall o,
  apply_writes ws r o (var_of k r) = match final k ws with Some c => c | None => o (var_of k r) end.
Proof.
  induction ws as [|[k' c] ws IH]; intros o; cbn; [reflexivity|].
  rewrite IH. destruct (final k ws); [reflexivity|].
  unfold rset. rewrite var_eqb_kind. destruct (vk_eqb k k'); reflexivity.
Qed.

Lemma apply_writes_ext ws r : forall o o', (forall v, o v = o' v) -> forall v, apply_writes ws r o v = apply_writes ws r o' v.
Proof.
  induction ws as [|[k c] ws IH]; intros o o' H v; cbn; [apply H|].
  apply IH. intros v'. unfold rset. destruct (var_eqb v' (var_of k r)); [reflexivity|apply H].
Qed.

Lemma var_kind_dec x r : (exists k, x = var_of k r) \/ (forall k, x <> var_of k r).
Proof.
  destruct x as [r'|r'|n].
  - destruct (Z.eq_dec r' r) as [->|Hn]; [left; now exists KFwd|right; intros [|]; cbn; congruence].
  - destruct (Z.eq_dec r' r) as [->|Hn]; [left; now exists KRev|right; intros [|]; cbn; congruence].
  - right. intros [|]; cbn; discriminate.
Qed.

Section FVA.
  Variable solve : row -> bool -> Z * option Q.
  Variable status_raises : Z -> bool.
  Variable loopless : bool.
  Variable loopless_iter : row -> bool -> Z -> option Q.

  (* the solver (and loopless_fva_iter, which is assumed to put back what it changes — C13) answer
     for the LP they are given: pointwise equal objective rows give the same answer *)
  Hypothesis solve_ext : forall o o' d, (forall v, o v = o' v) -> solve o d = solve o' d.
  Hypothesis loopless_ext : forall o o' d r, (forall v, o v = o' v) -> loopless_iter o d r = loopless_iter o' d r.

  Notation exec := (exec solve status_raises loopless loopless_iter).
  Notation step_of := (step_of solve status_raises loopless loopless_iter).

  Lemma exec_state : forall sk st rg r st' v,
    exec sk st rg r = (st', FVal v) ->
    dir_max st' = dir_max st /\ forall x, obj st' x = apply_writes (writes sk) r (obj st) x.
  Proof.
    induction sk as [|s sk IH]; intros st rg r st' v H; cbn in H; [discriminate|].
    destruct s; cbn [writes].
    - exact (IH _ _ _ _ _ H).
    - destruct (IH _ _ _ _ _ H) as [Hd Ho]. split; [exact Hd|].
      intros x. rewrite Ho. cbn. now rewrite apply_writes_app.
    - destruct (solve (obj st) (dir_max st)) as [s v0]. exact (IH _ _ _ _ _ H).
    - destruct (r_status rg) as [s|]; [|discriminate].
      destruct (status_raises s); [discriminate|]. exact (IH _ _ _ _ _ H).
    - exact (IH _ _ _ _ _ H).
    - exact (IH _ _ _ _ _ H).
    - injection H as <- _. split; [reflexivity|]. intros x. reflexivity.
  Qed.

  (* restoration: every coefficient the step touches is 0 before and after *)
  Theorem exec_restores : forall sk st rg r st' v,
    worker_ok sk = true ->
    (forall k, obj st (var_of k r) = 0) ->
    exec sk st rg r = (st', FVal v) ->
    lp_eqv st' st.
  Proof.
    intros sk st rg r st' v Hok Hz H. destruct (exec_state _ _ _ _ _ _ H) as [Hd Ho].
    split; [|exact Hd]. intros x. rewrite Ho.
    unfold worker_ok in Hok. apply andb_true_iff in Hok. destruct Hok as [_ Hf].
    destruct (var_kind_dec x r) as [[k ->]|Hn].
    - rewrite apply_writes_kind.
      assert (In k [KFwd; KRev]) as Hin by (destruct k; cbn; auto).
      rewrite forallb_forall in Hf. specialize (Hf k Hin).
      destruct (final k (writes sk)) as [c|]; [|reflexivity].
      apply Z.eqb_eq in Hf. subst c. symmetry. apply Hz.
    - now apply apply_writes_other.
  Qed.

  (* the hypothesis `initial coefficient = 0` cannot be dropped: the reset writes 0, not the old value *)
  Remark reset_is_to_zero_not_to_old :
    let sk := [SSetObj [(KFwd, 1)]; SSolve; SValue; SSetObj [(KFwd, 0)]; SReturn] in
    worker_ok sk = true /\
    forall st rg r st' v, obj st (VF r) = 5 -> exec sk st rg r = (st', FVal v) -> obj st' (VF r) = 0.
  Proof.
    split; [reflexivity|]. intros st rg r st' v H5 H. destruct (exec_state _ _ _ _ _ _ H) as [_ Ho].
    rewrite Ho. cbn. unfold rset. now rewrite var_eqb_refl.
  Qed.

  Lemma exec_respects : forall sk a b rg r,
    lp_eqv a b ->
    snd (exec sk a rg r) = snd (exec sk b rg r) /\ lp_eqv (fst (exec sk a rg r)) (fst (exec sk b rg r)).
  Proof.
    induction sk as [|s sk IH]; intros a b rg r Hab; cbn; [now split|].
    destruct Hab as [Ho Hd]. destruct s.
    - apply IH. now split.
    - apply IH. split; [|exact Hd]. cbn. intros v. now apply apply_writes_ext.
    - rewrite (solve_ext (obj a) (obj b) (dir_max a) Ho), Hd.
      destruct (solve (obj b) (dir_max b)) as [s v0]. apply IH. now split.
    - destruct (r_status rg) as [s|]; [|split; [reflexivity|now split]].
      destruct (status_raises s); [split; [reflexivity|now split]|]. apply IH. now split.
    - rewrite (loopless_ext (obj a) (obj b) (dir_max a) r Ho), Hd. apply IH. now split.
    - apply IH. now split.
    - split; [reflexivity|now split].
  Qed.

  Definition zero_row (st : lpstate) : Prop := forall r k, obj st (var_of k r) = 0.

  Lemma lp_eqv_refl a : lp_eqv a a.
  Proof. now split. Qed.
  Lemma lp_eqv_trans a b c : lp_eqv a b -> lp_eqv b c -> lp_eqv a c.
  Proof. intros [H1 H2] [H3 H4]. split; [intros v; now rewrite H1|congruence]. Qed.
  Lemma lp_eqv_sym a b : lp_eqv a b -> lp_eqv b a.
  Proof. intros [H1 H2]. split; [intros v; now rewrite H1|congruence]. Qed.

  (* the two hypotheses of the generic theorem, for the step interpreted from ANY skeleton that
     satisfies worker_ok, started on a worker whose objective row is zero on the reaction variables
     (what `model.objective = Zero` establishes before the pools are created) *)
  Lemma fva_task_restores sk s0 :
    worker_ok sk = true -> zero_row s0 ->
    forall w i, lp_eqv w s0 -> fres_fails (snd (step_of sk w i)) = false -> lp_eqv (fst (step_of sk w i)) s0.
  Proof.
    intros Hok Hz w i Hw Hnf. unfold step_of in *.
    destruct (exec sk w regs0 i) as [w' res] eqn:E. cbn in *.
    destruct res as [v|s]; [|discriminate].
    apply lp_eqv_trans with w; [|exact Hw].
    eapply exec_restores; [exact Hok| |exact E].
    intros k. destruct Hw as [Ho _]. rewrite Ho. apply Hz.
  Qed.

  Lemma fva_task_respects sk s0 :
    forall w i, lp_eqv w s0 -> snd (step_of sk w i) = snd (step_of sk s0 i).
  Proof. intros w i Hw. apply exec_respects. exact Hw. Qed.

  (* the hand-written mirror is the interpretation of the statement sequence it mirrors *)
  Definition fva_skeleton_expected : list wstmt :=
    [SLookup; SSetObj [(KFwd, 1); (KRev, -1)]; SSolve; SCheckStatus; SValue; SNanIfNone;
     SSetObj [(KFwd, 0); (KRev, 0)]; SReturn].

  Lemma fva_step_is_exec st r :
    step_of fva_skeleton_expected st r = fva_step solve status_raises loopless loopless_iter st r.
  Proof.
    unfold step_of, fva_step, fva_skeleton_expected. cbn.
    destruct (solve _ _) as [s v]. cbn. destruct (status_raises s); reflexivity.
  Qed.
End FVA.

(* ================================================================== deletions *)
Section Deletion.
  Variable B : Type.
  Variable b_eqb : B -> B -> bool.
  Variable zero_b : B.
  Variable rxns_of : Z -> list Z.
  Variable rule : Z -> (Z -> bool) -> bool.
  Variable growth_of : (Z -> B) -> option Q * Z.

  Hypothesis rule_ext : forall r f f', (forall g, f g = f' g) -> rule r f = rule r f'.
  Hypothesis growth_ext : forall b b', (forall r, b r = b' r) -> growth_of b = growth_of b'.

  Notation dstate := (dstate B).
  Notation set_bnd := (set_bnd b_eqb).
  Notation knock_reaction := (knock_reaction b_eqb zero_b).
  Notation knock_gene := (knock_gene b_eqb zero_b rxns_of rule).
  
  Lemma fupd_same {A} (f : Z -> A) k a : fupd f k a k = a.
  Proof. unfold fupd. now rewrite Z.eqb_refl. Qed.

  Lemma fupd_undo {A} (f : Z -> A) k a x : fupd (fupd f k a) k (f k) x = f x.
  Proof. unfold fupd. destruct (Z.eqb x k) eqn:E; [apply Z.eqb_eq in E; now subst|reflexivity]. Qed.

  (* values after undoing a frame only depend on the values before *)
  Lemma fold_undo_ext : forall top (a b : dstate),
    (forall r, bnd a r = bnd b r) -> (forall g, fn a g = fn b g) ->
    (forall r, bnd (fold_left undo1 top a) r = bnd (fold_left undo1 top b) r) /\
    (forall g, fn (fold_left undo1 top a) g = fn (fold_left undo1 top b) g).
  Proof.
    induction top as [|u top IH]; intros a b Hb Hf; cbn; [now split|].
    apply IH; destruct u; cbn; intros x; unfold fupd; try destruct (Z.eqb x _); auto.
  Qed.

  (* in-context invariant: undoing the innermost frame gives back the values at block entry *)
  Definition Inv (base st : dstate) : Prop :=
    exists top, hist st = top :: hist base /\
      (forall r, bnd (fold_left undo1 top st) r = bnd base r) /\
      (forall g, fn (fold_left undo1 top st) g = fn base g).

  Lemma enter_inv st : Inv st (enter st).
  Proof. exists []. cbn. repeat split; reflexivity. Qed.

  Lemma exit_inv base st : Inv base st -> d_eqv (exit st) base.
  Proof.
    intros [top [Hh [Hb Hf]]]. unfold exit. rewrite Hh. cbn. repeat split; assumption.
  Qed.

  Lemma set_bnd_inv base st r b : Inv base st -> Inv base (set_bnd st r b).
  Proof.
    intros [top [Hh [Hb Hf]]]. unfold Workers.set_bnd. rewrite Hh.
    destruct (b_eqb (bnd st r) b); [exists top; now repeat split|].
    exists (UBnd r (bnd st r) :: top). cbn. split; [reflexivity|].
    match goal with |- context [fold_left undo1 top ?x] => set (a := x) end.
    destruct (@fold_undo_ext top a st) as [E1 E2].
    - intros x. subst a. cbn. apply fupd_undo.
    - intros g. reflexivity.
    - split; [intros x; now rewrite E1|intros g; now rewrite E2].
  Qed.

  Lemma set_fn_inv base st g v : Inv base st -> Inv base (set_fn st g v).
  Proof.
    intros [top [Hh [Hb Hf]]]. unfold set_fn. rewrite Hh.
    destruct (Bool.eqb (fn st g) v); [exists top; now repeat split|].
    exists (UFn g (fn st g) :: top). cbn. split; [reflexivity|].
    match goal with |- context [fold_left undo1 top ?x] => set (a := x) end.
    destruct (@fold_undo_ext top a st) as [E1 E2].
    - intros x. reflexivity.
    - intros x. subst a. cbn. apply fupd_undo.
    - split; [intros x; now rewrite E1|intros x; now rewrite E2].
  Qed.

  Lemma knock_reaction_inv base st r : Inv base st -> Inv base (knock_reaction st r).
  Proof. apply set_bnd_inv. Qed.

  Lemma knock_gene_inv base st g : Inv base st -> Inv base (knock_gene st g).
  Proof.
    intros H. unfold Workers.knock_gene.
    assert (Inv base (set_fn st g false)) as H1 by now apply set_fn_inv.
    revert H1. generalize (set_fn st g false). induction (rxns_of g) as [|r l IH]; intros s Hs; cbn; [exact Hs|].
    apply IH. destruct (rule r (fn s)); [exact Hs|now apply set_bnd_inv].
  Qed.

  Section Exec.
    Variable knock : dstate -> Z -> dstate.
    Hypothesis knock_inv : forall base st i, Inv base st -> Inv base (knock st i).

    Notation exec_simple := (exec_simple growth_of knock).
    Notation exec_del := (exec_del growth_of knock).

    Lemma fold_knock_inv base ids : forall st, Inv base st -> Inv base (fold_left knock ids st).
    Proof. induction ids as [|i ids IH]; intros st H; cbn; [exact H|]. apply IH. now apply knock_inv. Qed.

    Lemma exec_simple_inv base : forall body st ids g,
      Inv base st -> Inv base (fst (fst (exec_simple body st ids g))).
    Proof.
      induction body as [|s body IH]; intros st ids g H; cbn; [exact H|].
      destruct s; cbn.
      - apply IH. now apply fold_knock_inv.
      - now apply IH.
      - exact H.
    Qed.

    Lemma d_eqv_refl (a : dstate) : d_eqv a a.
    Proof. now repeat split. Qed.
    Lemma d_eqv_trans (a b c : dstate) : d_eqv a b -> d_eqv b c -> d_eqv a c.
    Proof.
      intros [H1 [H2 H3]] [H4 [H5 H6]]. repeat split; [intros r; now rewrite H1|intros g; now rewrite H2|congruence].
    Qed.

    (* restoration: knock-outs only inside `with` blocks  ->  the worker's model is as before *)
    Theorem exec_del_restores : forall sk st ids g,
      del_ok sk = true -> d_eqv (fst (exec_del sk st ids g)) st.
    Proof.
      induction sk as [|s sk IH]; intros st ids g Hok; cbn; [apply d_eqv_refl|].
      cbn in Hok. apply andb_true_iff in Hok. destruct Hok as [Hs Hok].
      destruct s as [body|s].
      - pose proof (@exec_simple_inv st body (enter st) ids g (enter_inv st)) as Hi.
        destruct (exec_simple body (enter st) ids g) as [[st' g'] ret]. cbn in Hi.
        apply exit_inv in Hi. destruct ret; cbn; [exact Hi|].
        eapply d_eqv_trans; [apply IH; exact Hok|exact Hi].
      - destruct s; [discriminate| |]; cbn.
        + now apply IH.
        + apply d_eqv_refl.
    Qed.
  End Exec.

  (* ------------------------------------------------ results only depend on the values read *)
  Lemma set_bnd_cong (a b : dstate) r x : d_eqv a b -> d_eqv (set_bnd a r x) (set_bnd b r x).
  Proof.
    intros [Hb [Hf Hh]]. unfold Workers.set_bnd. rewrite Hh, (Hb r).
    assert (forall y, fupd (bnd a) r x y = fupd (bnd b) r x y) as Hu
      by (intros y; unfold fupd; destruct (Z.eqb y r); auto).
    destruct (hist b) as [|top rest] eqn:Eh.
    - split; [exact Hu|]. split; [exact Hf|reflexivity].
    - destruct (b_eqb (bnd b r) x).
      + split; [exact Hb|]. split; [exact Hf|congruence].
      + split; [exact Hu|]. split; [exact Hf|reflexivity].
  Qed.

  Lemma set_fn_cong (a b : dstate) g v : d_eqv a b -> d_eqv (set_fn a g v) (set_fn b g v).
  Proof.
    intros [Hb [Hf Hh]]. unfold set_fn. rewrite Hh, (Hf g).
    assert (forall y, fupd (fn a) g v y = fupd (fn b) g v y) as Hu
      by (intros y; unfold fupd; destruct (Z.eqb y g); auto).
    destruct (hist b) as [|top rest] eqn:Eh.
    - split; [exact Hb|]. split; [exact Hu|reflexivity].
    - destruct (Bool.eqb (fn b g) v).
      + split; [exact Hb|]. split; [exact Hf|congruence].
      + split; [exact Hb|]. split; [exact Hu|reflexivity].
  Qed.

  Lemma knock_reaction_cong (a b : dstate) r : d_eqv a b -> d_eqv (knock_reaction a r) (knock_reaction b r).
  Proof. apply set_bnd_cong. Qed.

  Lemma knock_gene_cong (a b : dstate) g : d_eqv a b -> d_eqv (knock_gene a g) (knock_gene b g).
  Proof.
    intros H. unfold Workers.knock_gene.
    pose proof (set_fn_cong a b g false H) as H1. revert H1.
    generalize (set_fn a g false) (set_fn b g false).
    induction (rxns_of g) as [|r l IH]; intros x y Hxy; cbn; [exact Hxy|].
    apply IH. destruct Hxy as [Hb [Hf Hh]]. rewrite (rule_ext r (fn x) (fn y) Hf).
    destruct (rule r (fn y)); [repeat split; auto|]. apply set_bnd_cong. repeat split; auto.
  Qed.

  Lemma enter_cong (a b : dstate) : d_eqv a b -> d_eqv (enter a) (enter b).
  Proof. intros [Hb [Hf Hh]]. repeat split; cbn; auto. now rewrite Hh. Qed.

  Lemma exit_cong (a b : dstate) : d_eqv a b -> d_eqv (exit a) (exit b).
  Proof.
    intros [Hb [Hf Hh]]. unfold exit. rewrite Hh. destruct (hist b) as [|top rest] eqn:Eh.
    - split; [exact Hb|]. split; [exact Hf|congruence].
    - destruct (@fold_undo_ext top a b Hb Hf) as [E1 E2].
      split; [exact E1|]. split; [exact E2|reflexivity].
  Qed.

  Section ExecCong.
    Variable knock : dstate -> Z -> dstate.
    Hypothesis knock_cong : forall a b i, d_eqv a b -> d_eqv (knock a i) (knock b i).

    Notation exec_simple := (exec_simple growth_of knock).
    Notation exec_del := (exec_del growth_of knock).

    Lemma fold_knock_cong ids : forall a b, d_eqv a b -> d_eqv (fold_left knock ids a) (fold_left knock ids b).
    Proof. induction ids as [|i ids IH]; intros a b H; cbn; [exact H|]. apply IH. now apply knock_cong. Qed.

    Lemma exec_simple_cong : forall body a b ids g, d_eqv a b ->
      d_eqv (fst (fst (exec_simple body a ids g))) (fst (fst (exec_simple body b ids g))) /\
      snd (fst (exec_simple body a ids g)) = snd (fst (exec_simple body b ids g)) /\
      snd (exec_simple body a ids g) = snd (exec_simple body b ids g).
    Proof.
      induction body as [|s body IH]; intros a b ids g H; cbn; [split; [exact H|split; reflexivity]|].
      destruct s; cbn.
      - apply IH. now apply fold_knock_cong.
      - destruct H as [Hb [Hf Hh]]. rewrite (growth_ext (bnd a) (bnd b) Hb). apply IH. split; [exact Hb|split; [exact Hf|exact Hh]].
      - split; [exact H|split; reflexivity].
    Qed.

    Lemma exec_del_cong : forall sk a b ids g, d_eqv a b ->
      d_eqv (fst (exec_del sk a ids g)) (fst (exec_del sk b ids g)) /\
      snd (exec_del sk a ids g) = snd (exec_del sk b ids g).
    Proof.
      induction sk as [|s sk IH]; intros a b ids g H; cbn; [now split|].
      destruct s as [body|s].
      - destruct (@exec_simple_cong body (enter a) (enter b) ids g (enter_cong a b H)) as [H1 [H2 H3]].
        destruct (exec_simple body (enter a) ids g) as [[a' ga] ra].
        destruct (exec_simple body (enter b) ids g) as [[b' gb] rb]. cbn in *. subst gb rb.
        destruct ra; cbn.
        + split; [now apply exit_cong|reflexivity].
        + apply IH. now apply exit_cong.
      - destruct s; cbn.
        + apply IH. now apply fold_knock_cong.
        + destruct H as [Hb [Hf Hh]]. rewrite (growth_ext (bnd a) (bnd b) Hb). apply IH.
          split; [exact Hb|split; [exact Hf|exact Hh]].
        + split; [exact H|reflexivity].
    Qed.
  End ExecCong.

  Definition del_skeleton_expected : list dstmt := [DWith [DKnockLoop; DGrowth]; DTop DReturn].

  Lemma reaction_deletion_is_exec st ids :
    exec_del growth_of knock_reaction del_skeleton_expected st ids g0 =
    reaction_deletion b_eqb zero_b growth_of st ids.
  Proof. reflexivity. Qed.

  Lemma gene_deletion_is_exec st ids :
    exec_del growth_of knock_gene del_skeleton_expected st ids g0 =
    gene_deletion b_eqb zero_b rxns_of rule growth_of st ids.
  Proof. reflexivity. Qed.
End Deletion.
