(* C14 — obligations about the skeletons regenerated from the CURRENT source
   (Gen/SchedSkeleton.v, written by harness/tables_sched.py on every run).
   If `_fva_step` loses its reset line, writes another coefficient, or a deletion worker knocks
   out outside its `with model:` block, one of these `vm_compute` proofs fails. *)
From Coq Require Import List Bool ZArith QArith Permutation.
From Cobra.Sched Require Import Model Proofs Workers WorkerProofs Instances.
From Cobra.Gen Require Import SchedSkeleton.
Import ListNotations.

(* the boolean conditions of the restoration theorems *)
Lemma current_fva_worker_ok : worker_ok current_fva_skeleton = true.
Proof. vm_compute. reflexivity. Qed.

Lemma current_reaction_deletion_ok : del_ok current_reaction_deletion_skeleton = true.
Proof. vm_compute. reflexivity. Qed.

Lemma current_gene_deletion_ok : del_ok current_gene_deletion_skeleton = true.
Proof. vm_compute. reflexivity. Qed.

(* the measuring part has the expected shape *)
Lemma current_fva_solve_placed : solve_placed current_fva_skeleton = true.
Proof. vm_compute. reflexivity. Qed.

Lemma current_deletions_measure :
  del_measures current_reaction_deletion_skeleton && del_measures current_gene_deletion_skeleton = true.
Proof. vm_compute. reflexivity. Qed.

(* the hand-written mirrors in Workers.v are the interpretation of the current source *)
Lemma current_fva_is_expected : current_fva_skeleton = fva_skeleton_expected.
Proof. reflexivity. Qed.

Lemma current_deletions_are_expected :
  current_reaction_deletion_skeleton = del_skeleton_expected /\
  current_gene_deletion_skeleton = del_skeleton_expected.
Proof. split; reflexivity. Qed.

(* what the drivers do around the workers, as far as the theorems' hypotheses depend on it:
   the objective row is zero when the pools fork (zero_row), results are stored under the item's
   id (keyed assembly), the pool workers are the modelled functions on the process-global model.
   (The other facts in Gen/SchedSkeleton.v — chunk size, imap_unordered, pass order, ... — are
   informational: the theorems hold for every chunking and delivery order.)                      *)
Lemma current_driver_facts :
  forallb (fun b : bool => b)
    [fva_objective_zeroed_before_passes; fva_results_keyed_by_id; deletion_workers_delegate] = true.
Proof. vm_compute. reflexivity. Qed.

(* ------------------------------------------------------------------ the theorems, for the current source *)
Section CurrentFVA.
  Variable solve : row -> bool -> Z * option Q.
  Variable status_raises : Z -> bool.
  Variable loopless : bool.
  Variable loopless_iter : row -> bool -> Z -> option Q.
  Hypothesis solve_ext : forall o o' d, (forall v, o v = o' v) -> solve o d = solve o' d.
  Hypothesis loopless_ext : forall o o' d r, (forall v, o v = o' v) -> loopless_iter o d r = loopless_iter o' d r.

  Notation fva_step := (fva_step solve status_raises loopless loopless_iter).
  Definition fst_res (x : lpstate * fres) : fres := snd x.

  Lemma current_step_is_fva_step st r :
    step_of solve status_raises loopless loopless_iter current_fva_skeleton st r = fva_step st r.
  Proof. rewrite current_fva_is_expected. apply fva_step_is_exec. Qed.

  (* `_fva_step` as it is written today restores the objective row (both variables) *)
  Theorem fva_step_restores : forall st r v st',
    (forall k, obj st (var_of k r) = 0%Z) ->
    fva_step st r = (st', FVal v) -> lp_eqv st' st.
  Proof.
    intros st r v st' Hz H. rewrite <- current_step_is_fva_step in H.
    exact (exec_restores solve status_raises loopless loopless_iter current_fva_skeleton st regs0 r st' v
             current_fva_worker_ok Hz H).
  Qed.

  Notation current_step := (step_of solve status_raises loopless loopless_iter current_fva_skeleton).

  (* the step as it is written today (pointwise equal to fva_step by current_step_is_fva_step) *)
  Theorem current_fva_schedule_independent : forall s0 items evs,
    zero_row s0 -> valid evs items -> ok_items current_step fres_fails s0 items ->
    exists rows, run_pool current_step fres_fails s0 evs = Rows rows /\
      (forall k, assemble zid Z.eqb rows k = map_of zid Z.eqb current_step s0 items k) /\
      frame zid items (assemble zid Z.eqb rows) = map (fun i => (i, Some (fst_res (fva_step s0 i)))) items.
  Proof.
    intros s0 items evs Hz Hv Hok.
    destruct (fva_schedule_independent solve status_raises loopless loopless_iter solve_ext loopless_ext
                current_fva_skeleton current_fva_worker_ok s0 Hz items evs Hv Hok) as [rows [Hr [Hk Hf]]].
    exists rows. split; [exact Hr|]. split; [exact Hk|]. rewrite Hf. apply map_ext. intros i.
    unfold single, fst_res. now rewrite current_step_is_fva_step.
  Qed.
End CurrentFVA.

Section CurrentDeletion.
  Variable B : Type.
  Variable b_eqb : B -> B -> bool.
  Variable zero_b : B.
  Variable rxns_of : Z -> list Z.
  Variable rule : Z -> (Z -> bool) -> bool.
  Variable growth_of : (Z -> B) -> option Q * Z.
  Hypothesis rule_ext : forall r f f', (forall g, f g = f' g) -> rule r f = rule r f'.
  Hypothesis growth_ext : forall b b', (forall r, b r = b' r) -> growth_of b = growth_of b'.

  Notation reaction_deletion := (reaction_deletion b_eqb zero_b growth_of).
  Notation gene_deletion := (gene_deletion b_eqb zero_b rxns_of rule growth_of).

  (* the workers as they are written today restore bounds, gene flags and the context stack *)
  Theorem reaction_deletion_restores : forall st ids, d_eqv (fst (reaction_deletion st ids)) st.
  Proof.
    intros st ids. rewrite <- reaction_deletion_is_exec.
    apply (exec_del_restores B growth_of (knock_reaction b_eqb zero_b) (knock_reaction_inv B b_eqb zero_b)).
    reflexivity.
  Qed.

  Theorem gene_deletion_restores : forall st ids, d_eqv (fst (gene_deletion st ids)) st.
  Proof.
    intros st ids. rewrite <- gene_deletion_is_exec.
    apply (exec_del_restores B growth_of (knock_gene b_eqb zero_b rxns_of rule)
             (knock_gene_inv B b_eqb zero_b rxns_of rule)).
    reflexivity.
  Qed.

  Theorem current_reaction_deletion_schedule_independent : forall s0 (items : list (list Z)) evs,
    valid evs items ->
    exists rows, run_pool reaction_deletion never s0 evs = Rows rows /\
      Permutation rows (map (fun ids => (ids, single reaction_deletion s0 ids)) items) /\
      (forall ids, In ids items ->
         assemble (fun i : list Z => i) lz_eqb rows ids = Some (single reaction_deletion s0 ids)).
  Proof.
    intros s0 items evs Hv.
    destruct (deletion_schedule_independent B growth_of growth_ext current_reaction_deletion_skeleton
                current_reaction_deletion_ok (knock_reaction b_eqb zero_b)
                (knock_reaction_inv B b_eqb zero_b) (knock_reaction_cong B b_eqb zero_b) s0 items evs Hv)
      as [rows [Hr [HP [_ Hl]]]].
    exists rows. split; [exact Hr|]. split; [exact HP|exact Hl].
  Qed.

  Theorem current_gene_deletion_schedule_independent : forall s0 (items : list (list Z)) evs,
    valid evs items ->
    exists rows, run_pool gene_deletion never s0 evs = Rows rows /\
      Permutation rows (map (fun ids => (ids, single gene_deletion s0 ids)) items) /\
      (forall ids, In ids items ->
         assemble (fun i : list Z => i) lz_eqb rows ids = Some (single gene_deletion s0 ids)).
  Proof.
    intros s0 items evs Hv.
    destruct (deletion_schedule_independent B growth_of growth_ext current_gene_deletion_skeleton
                current_gene_deletion_ok (knock_gene b_eqb zero_b rxns_of rule)
                (knock_gene_inv B b_eqb zero_b rxns_of rule) (knock_gene_cong B b_eqb zero_b rxns_of rule rule_ext)
                s0 items evs Hv)
      as [rows [Hr [HP [_ Hl]]]].
    exists rows. split; [exact Hr|]. split; [exact HP|exact Hl].
  Qed.
End CurrentDeletion.
