(* Documented effect of every operation of the genes kernel, and that everything else stays (frame). *)
From Coq Require Import ZArith List Bool Lia.
From Cobra.Genes Require Import Model Inv Proofs.
Import ListNotations.
Open Scope Z_scope.

Ltac proj := cbn [rids rin rule rgenes glist gid gback gmod nextg].
Ltac proj_in H := cbn [rids rin rule rgenes glist gid gback gmod nextg] in H.

Lemma Base_Part_none : forall s, Base s -> Part s (fun _ => False).
Proof. intros s B. split; [exact B|intros r []]. Qed.

(* reaction.gene_reaction_rule = t: the rule is t; membership, the other reactions' rules and gene sets, the
   other reactions' entries in gene.reactions and the identifiers of the model's genes stay; model.genes can
   only gain newly created genes, and none when the reaction is outside the model. *)
Theorem set_rule_effect : forall r t s, GInv s ->
  let s' := set_rule r t s in
  rule s' = upd (rule s) r t /\ rin s' = rin s /\
  (forall r', r' <> r -> rgenes s' r' = rgenes s r') /\
  (forall g r', In g (glist s) -> r' <> r -> gback s' g r' = gback s g r') /\
  (forall g, In g (glist s) -> In g (glist s') /\ gid s' g = gid s g) /\
  (forall g, In g (glist s') -> In g (glist s) \/ nextg s <= g) /\
  (rin s r = false -> glist s' = glist s).
Proof.
  intros r t s [B _]. cbn zeta. unfold set_rule.
  assert (B1 : Base (set_rule_field r t s)) by (destruct B; constructor; unfold set_rule_field; proj; assumption).
  destruct (update_genes_part r _ _ (Base_Part_none _ B1)) as [_ [U1 U2 U3 U4 U5 U6 U7 U8 U9 U10]].
  unfold set_rule_field in *. cbn [rids rin rule rgenes glist gid gback gmod nextg] in *.
  repeat split; auto.
  - intros. apply U7; [apply (b_fresh s B)|]; assumption.
  - apply U6, (b_fresh s B), H.
Qed.

(* model.add_reactions([r]) for a reaction outside the model: it joins; rules do not change; the rest as above *)
Theorem add_rxn_effect : forall r s, GInv s -> In r (rids s) -> rin s r = false ->
  let s' := add_rxn r s in
  rin s' = upd (rin s) r true /\ rule s' = rule s /\
  (forall r', r' <> r -> rgenes s' r' = rgenes s r') /\
  (forall g r', In g (glist s) -> r' <> r -> gback s' g r' = gback s g r') /\
  (forall g, In g (glist s) -> In g (glist s') /\ gid s' g = gid s g) /\
  (forall g, In g (glist s') -> In g (glist s) \/ nextg s <= g).
Proof.
  intros r s [B _] Hr Er. cbn zeta. unfold add_rxn. rewrite Er.
  assert (B1 : Base (set_rin r true s)).
  { destruct B as [B1 B2 B3 B4 B5 B6]. constructor; unfold set_rin; proj; try assumption.
    - intros r'. unfold upd. destruct (Z.eqb_spec r' r); [subst; auto|apply B2].
    - intros g r' Hg Hb. destruct (B6 g r' Hg Hb) as [H1 H2]. split; [|exact H2].
      unfold upd. destruct (r' =? r); [reflexivity|exact H1]. }
  destruct (update_genes_part r _ _ (Base_Part_none _ B1)) as [_ [U1 U2 U3 U4 U5 U6 U7 U8 U9 U10]].
  unfold set_rin in *. cbn [rids rin rule rgenes glist gid gback gmod nextg] in *.
  repeat split; auto.
  - intros. apply U7; [apply (b_fresh s B)|]; assumption.
  - apply U6, (b_fresh s B), H.
Qed.

(* adding a reaction whose identifier is already in the model is ignored *)
Theorem add_rxn_ignored : forall r s, rin s r = true -> add_rxn r s = s.
Proof. intros r s H. unfold add_rxn. rewrite H. reflexivity. Qed.

(* model.remove_reactions([r], remove_orphans) *)
Lemma unlink_keeps : forall r orph todo s g, In g (glist s) ->
  In g (glist (fold_left (unlink_gene r orph) todo s)) \/ (orph = true /\ In g todo).
Proof.
  intros r orph todo. induction todo as [|x todo IH]; intros s g Hg; cbn [fold_left]; [left; exact Hg|].
  assert (Hx : In g (glist (unlink_gene r orph s x)) \/ (orph = true /\ g = x)).
  { unfold unlink_gene. destruct (gback s x r); [|left; exact Hg].
    destruct orph; cbn [andb]; [|left; exact Hg].
    match goal with |- context [if ?c then _ else _] => destruct c end; [|left; exact Hg].
    destruct (Z.eq_dec g x) as [->|Hne]; [right; auto|]. left. unfold set_glist. proj. apply drop_In. split; [exact Hg|].
    intros [E|[]]. congruence. }
  destruct Hx as [Hx|[Ho ->]]; [|right; split; [exact Ho|left; reflexivity]].
  destruct (IH _ g Hx) as [H|[H1 H2]]; [left; exact H|right; split; [exact H1|right; exact H2]].
Qed.

Theorem remove_rxn_effect : forall r orph s, GInv s -> rin s r = true ->
  let s' := remove_rxn r orph s in
  (forall r', rin s' r' = rin s r' && negb (r' =? r)) /\ rule s' = rule s /\ rgenes s' = rgenes s /\ gid s' = gid s /\
  (forall g, In g (glist s') -> In g (glist s)) /\
  (* only with remove_orphans, and only genes of the removed reaction, leave the model *)
  (forall g, In g (glist s) -> In g (glist s') \/ (orph = true /\ In g (rgenes s r))) /\
  GInv s'.
Proof.
  intros r orph s G Er. cbn zeta.
  assert (Hall : orph = true -> forall r', rin s r' = true -> (fun _ : Z => True) r') by auto.
  destruct (remove_rxn_part r orph (fun _ => True) s G Hall) as [P [A1 [A2 [A3 [A4 [A5 [A6 A7]]]]]]].
  split; [exact A6|]. split; [exact A2|]. split; [exact A3|]. split; [exact A4|]. split; [exact A7|]. split; [|exact P].
  intros g Hg. unfold remove_rxn. rewrite Er. apply unlink_keeps. unfold set_rin. proj. exact Hg.
Qed.

Theorem remove_rxn_ignored : forall r orph s, rin s r = false -> remove_rxn r orph s = s.
Proof. intros r orph s H. unfold remove_rxn. rewrite H. reflexivity. Qed.

(* remove_genes *)
Lemma lookup_all_spec : forall s l gs, lookup_all s l = Some gs ->
  (forall g, In g gs -> In g (glist s) /\ In (gid s g) l) /\ (forall i, In i l -> exists g, In g gs /\ gid s g = i).
Proof.
  intros s l. induction l as [|i l IH]; intros gs H; cbn in H.
  - inversion H; subst. split; [intros g []|intros i []].
  - destruct (lookup s i) as [g|] eqn:El; [|discriminate]. destruct (lookup_all s l) as [gs'|]; [|discriminate].
    inversion H; subst. destruct (IH _ eq_refl) as [I1 I2]. apply lookup_some in El as [L1 L2]. split.
    + intros g' [<-|Hg']; [split; [exact L1|left; auto]|]. destruct (I1 g' Hg') as [H1 H2]. split; [exact H1|right; exact H2].
    + intros j [<-|Hj]; [exists g; split; [left; reflexivity|exact L2]|]. destruct (I2 j Hj) as [g' [H1 H2]].
      exists g'. split; [right; exact H1|exact H2].
Qed.

Lemma removes_keeps : forall l s g, In g (glist s) -> In g (glist (removes l s)).
Proof.
  induction l as [|r l IH]; intros s g Hg; cbn; [exact Hg|]. fold (removes l (remove_rxn r false s)). apply IH.
  unfold remove_rxn. destruct (rin s r); [|exact Hg].
  destruct (unlink_keeps r false (rgenes s r) (set_rin r false s) g Hg) as [H|[H _]]; [exact H|discriminate].
Qed.

Theorem remove_genes_unknown : forall l rr s, lookup_all s l = None -> remove_genes l rr s = (s, RaiseKeyError).
Proof. intros l rr s H. unfold remove_genes. rewrite H. reflexivity. Qed.

Theorem remove_genes_effect : forall l rr s gs, GInv s -> lookup_all s l = Some gs ->
  let K := fun i => memz i l in
  let s' := fst (remove_genes l rr s) in
  snd (remove_genes l rr s) = Ok /\
  (* reactions whose rule became false leave (remove_reactions=True); the others lose the genes from their rule *)
  (forall r, rin s' r = rin s r && negb (memz r (filter (is_target s K rr) (model_rxns s)))) /\
  (forall r, rule s' r = if memz r (filter (is_revisit s K rr) (model_rxns s)) then remove_rule K (rule s r) else rule s r) /\
  (* exactly the named genes leave the model; the others keep their identifiers *)
  (forall g, In g gs -> ~ In g (glist s')) /\
  (forall g, In g (glist s) -> ~ In g gs -> In g (glist s') /\ gid s' g = gid s g).
Proof.
  intros l rr s gs [B HD] El. cbn zeta. unfold remove_genes. rewrite El. cbn [fst snd]. split; [reflexivity|].
  set (K := fun i => memz i l).
  set (targets := filter (is_target s K rr) (model_rxns s)).
  set (revisit := filter (is_revisit s K rr) (model_rxns s)).
  set (s1 := mkSt (rids s) (rin s) (fun r => if memz r revisit then remove_rule K (rule s r) else rule s r)
                  (rgenes s) (drop gs (glist s)) (gid s) (gback s) (fun g => if memz g gs then false else gmod s g) (nextg s)).
  assert (B1 : Base s1).
  { destruct B as [B1 B2 B3 B4 B5 B6]. constructor; unfold s1; proj; try assumption.
    - unfold drop. apply NoDup_map_filter, B1.
    - intros g Hg. apply drop_In in Hg as [Hg _]. apply B3, Hg.
    - intros g Hg. apply drop_In in Hg as [Hg Hn]. apply memz_false in Hn. rewrite Hn. apply B5, Hg.
    - intros g r Hg. apply drop_In in Hg as [Hg _]. apply B6, Hg. }
  fold (removes targets s1).
  destruct (removes_part targets s1 _ (Base_Part_none _ B1)) as [P2 [A1 [A2 [A3 [A4 [A5 A6]]]]]].
  fold (updates revisit (removes targets s1)).
  destruct (updates_part revisit _ _ P2) as [_ [F1 F2 F3 F4 F5 F6 F7]].
  destruct (lookup_all_spec _ _ _ El) as [L1 _].
  split; [|split; [|split]].
  - intros r. rewrite F2, A3. reflexivity.
  - intros r. rewrite F3, A2. reflexivity.
  - intros g Hg Hin. destruct (L1 g Hg) as [Hgl _]. pose proof (b_fresh s B g Hgl) as Hlt.
    destruct (F7 g Hin) as [H|H].
    + apply A4 in H. unfold s1 in H. proj_in H. apply drop_In in H as [_ H]. contradiction.
    + rewrite A6 in H. unfold s1 in H. proj_in H. lia.
  - intros g Hg Hn. split.
    + apply F6, removes_keeps. unfold s1. proj. apply drop_In. split; assumption.
    + rewrite F5; [rewrite A5; reflexivity|]. rewrite A6. unfold s1. proj. apply (b_fresh s B g Hg).
Qed.

(* rename_genes *)
Lemma trename_id : forall d t, (forall i, In i (tgenes t) -> dget d i = i) -> trename d t = t.
Proof.
  intros d t. induction t as [i|a l IH] using tree_ind'; intros H; cbn.
  - rewrite H; [reflexivity|left; reflexivity].
  - f_equal. induction IH as [|x l Hx _ IHl]; cbn; [reflexivity|]. rewrite Hx, IHl; [reflexivity| |].
    + intros i Hi. apply H. cbn. apply in_or_app. right. exact Hi.
    + intros i Hi. apply H. cbn. apply in_or_app. left. exact Hi.
Qed.

(* Every reaction of the model has its rule renamed through the dictionary (a name that is not a key stays);
   membership and the rules of reactions outside the model do not change. *)
Theorem rename_genes_effect : forall d s, GInv s -> NoDup (keys d) -> no_chain d = true ->
  let s' := rename_genes d s in
  rin s' = rin s /\
  (forall r, rin s r = true -> rule s' r = rename_rule d (rule s r)) /\
  (forall r, rin s r = false -> rule s' r = rule s r).
Proof.
  intros d s [B HD] Hk Hc. cbn zeta. unfold rename_genes.
  destruct (rename_loop d s [] []) as [[s1 rem] tou] eqn:E.
  assert (R0 : RL s [] s [] []).
  { constructor; try (intros; contradiction); auto.
    - unfold same_but_gid. repeat split; reflexivity.
    - apply (b_ids s B). }
  pose proof (rename_loop_spec d [] s s [] [] s1 rem tou Hk (no_chain_spec d Hc) (b_ids s B) R0 E) as R.
  cbn [app] in R. destruct R as [[S1 [S2 [S3 [S4 [S5 [S6 [S7 S8]]]]]]] Ro Ri Rg Rr Rt Rn].
  set (recompute := fun r => existsb (fun g => gback s g r) tou).
  set (s2 := rename_rules d recompute s1).
  assert (B2 : Base s2).
  { destruct B as [B1 B2 B3 B4 B5 B6]. constructor; unfold s2, rename_rules; proj;
      rewrite ?S1, ?S2, ?S4, ?S5, ?S6, ?S7, ?S8; assumption. }
  destruct (repair_inv s2 B2) as [_ [F1 F2 F3 F4 F5 F6 F7]].
  unfold drop_genes. proj. rewrite F2, F3. unfold s2, rename_rules. proj. rewrite S2, S3.
  split; [reflexivity|]. split.
  - intros r Hrin. destruct (recompute r) eqn:Erc; [reflexivity|].
    destruct (HD r I Hrin) as [H1 [H2 _]].
    assert (Hid : forall i, In i (genes_of (rule s r)) -> dget d i = i).
    { intros i Hi. destruct (in_dec Z.eq_dec i (keys d)) as [Hik|Hik]; [|apply dget_notkey, Hik].
      pose proof (dget_key d i Hik) as Hp. destruct (Z.eq_dec i (dget d i)) as [He|Hne]; [auto|]. exfalso.
      apply H2 in Hi. apply in_map_iff in Hi as [g [Eg Hg]]. destruct (H1 g Hg) as [Hl Hb].
      pose proof (Rt i (dget d i) g Hp Hne Hl Eg) as Ht.
      unfold recompute in Erc. assert (Hx : existsb (fun g0 => gback s g0 r) tou = true).
      { apply existsb_exists. exists g. split; assumption. }
      congruence. }
    destruct (rule s r) as [t|]; cbn; [|reflexivity]. rewrite trename_id; [reflexivity|exact Hid].
  - intros r Hrin. destruct (recompute r) eqn:Erc; [|reflexivity]. exfalso.
    unfold recompute in Erc. apply existsb_exists in Erc as [g [Hg Hb]].
    destruct (b_bwd s B g r (Rn g Hg) Hb) as [H _]. congruence.
Qed.

(* model.repair(): membership and rules stay, existing genes stay with their identifiers *)
Theorem repair_effect : forall s, GInv s ->
  rin (repair s) = rin s /\ rule (repair s) = rule s /\
  (forall g, In g (glist s) -> In g (glist (repair s)) /\ gid (repair s) g = gid s g).
Proof.
  intros s [B _]. destruct (repair_inv s B) as [_ [F1 F2 F3 F4 F5 F6 F7]]. repeat split; auto.
  apply F5, (b_fresh s B), H.
Qed.
