(* What the invariant says, spelled out; a non-trivial history that meets the conditions on operations; and the
   dictionaries on which rename_genes (as implemented) breaks the invariant. *)
From Coq Require Import ZArith List Bool Lia.
From Cobra.Genes Require Import Model Inv Proofs.
Import ListNotations.
Open Scope Z_scope.

Theorem GInv_meaning : forall s, GInv s ->
  (* a reaction of the model lists a gene only if the gene is in the model, lists the reaction, points to the
     model and is the object found under its identifier *)
  (forall r g, rin s r = true -> In g (rgenes s r) ->
     In g (glist s) /\ gback s g r = true /\ gmod s g = true /\ lookup s (gid s g) = Some g) /\
  (* a gene of the model lists a reaction only if the reaction is in the model and lists the gene *)
  (forall g r, In g (glist s) -> gback s g r = true -> rin s r = true /\ In g (rgenes s r)) /\
  (* the genes of a reaction are exactly the genes of its rule *)
  (forall r, rin s r = true -> forall i, In i (map (gid s) (rgenes s r)) <-> In i (genes_of (rule s r))) /\
  (* identifiers are unique; every gene of the model belongs to it and is found under its identifier *)
  NoDup (map (gid s) (glist s)) /\
  (forall g, In g (glist s) -> gmod s g = true /\ lookup s (gid s g) = Some g).
Proof.
  intros s [B HD]. split; [|split; [|split; [|split]]].
  - intros r g Hr Hg. destruct (HD r I Hr) as [G1 _]. destruct (G1 g Hg) as [H1 H2].
    split; [exact H1|]. split; [exact H2|]. split; [apply (b_mod s B), H1|apply lookup_self; [apply (b_ids s B)|exact H1]].
  - apply (b_bwd s B).
  - intros r Hr. destruct (HD r I Hr) as [_ [G2 _]]. exact G2.
  - apply (b_ids s B).
  - intros g Hg. split; [apply (b_mod s B), Hg|apply lookup_self; [apply (b_ids s B)|exact Hg]].
Qed.

Definition g (i : Z) : tree := TGene i.
Definition hist : list op :=
  [ SetRule 0 (Some (TBool true [g 0; TBool false [g 1; g 2]])); AddRxn 0;
    AddRxn 1; SetRule 1 (Some (TBool false [g 2; g 3]));
    SetRule 2 (Some (g 3)); AddRxn 2;
    RenameGenes [(0, 5); (1, 5); (7, 8); (3, 3)];      (* two identifiers merged into a new one, unknown, identity *)
    RemoveGenes [2] true;                              (* R0 = g5 and (g5 or g2) survives, R1 = g2 or g3 survives *)
    RemoveRxn 2 true; SetRule 1 None; Repair; AddRxn 2 ].

(* the conditions on operations are met by a history that uses every operation *)
Example hist_ok : ok_run (init [0; 1; 2]) hist.
Proof. vm_compute. repeat split. Qed.
Example hist_nontrivial :
  let s := run hist (init [0; 1; 2]) in
  map (gid s) (glist s) = [5; 3] /\ map (rin s) [0; 1; 2] = [true; true; true] /\
  rule s 0 = Some (TBool true [g 5; g 5]) /\ map (gid s) (rgenes s 0) = [5].
Proof. vm_compute. repeat split. Qed.

(* rename_genes with a value that is also another key (a swap): both genes leave model.genes although the
   reaction still lists them.  The implementation does the same (known finding of the C02 check). *)
Definition swap_state : st := run [SetRule 0 (Some (TBool true [g 0; g 1])); AddRxn 0] (init [0]).
Theorem rename_swap_refuted :
  GInv swap_state /\ NoDup (keys [(0, 1); (1, 0)]) /\ ~ GInv (rename_genes [(0, 1); (1, 0)] swap_state).
Proof.
  split; [|split].
  - apply run_GInv; [apply init_GInv|]. vm_compute. repeat split.
  - apply nodupb_NoDup. reflexivity.
  - intros [_ HD]. destruct (HD 0 I eq_refl) as [G1 _].
    assert (Hin : In 3 (rgenes (rename_genes [(0, 1); (1, 0)] swap_state) 0)) by (vm_compute; auto).
    destruct (G1 3 Hin) as [H _]. vm_compute in H. exact H.
Qed.
