(* The invariant of the genes kernel holds initially and is kept by every operation (hence along every
   history). *)
From Coq Require Import ZArith List Bool Lia.
From Cobra.Genes Require Import Model Inv.
Import ListNotations.
Open Scope Z_scope.

(* ---------- creating / finding the genes of a rule ---------- *)
(* s' extends s: the reaction side is untouched, existing objects keep their attributes, model.genes only
   grows, by objects created in between (in the model, without back references). *)
Record Ext (s s' : st) : Prop := mkExt {
  e_rids : rids s' = rids s; e_rin : rin s' = rin s; e_rule : rule s' = rule s; e_rgenes : rgenes s' = rgenes s;
  e_next : nextg s <= nextg s';
  e_old : forall g, g < nextg s -> gid s' g = gid s g /\ gmod s' g = gmod s g /\ (forall r, gback s' g r = gback s g r);
  e_sub : forall g, In g (glist s) -> In g (glist s');
  e_new : forall g, In g (glist s') -> In g (glist s) \/
            (nextg s <= g /\ g < nextg s' /\ gmod s' g = true /\ forall r, gback s' g r = false) }.

Lemma Ext_refl : forall s, Ext s s.
Proof. intros s. constructor; auto; try lia. Qed.

Lemma Ext_trans : forall a b c, Ext a b -> Ext b c -> Ext a c.
Proof.
  intros a b c [A1 A2 A3 A4 A5 A6 A7 A8] [B1 B2 B3 B4 B5 B6 B7 B8]. constructor; try congruence; try lia.
  - intros g Hg. destruct (A6 g Hg) as [X1 [X2 X3]]. assert (Hg' : g < nextg b) by lia.
    destruct (B6 g Hg') as [Y1 [Y2 Y3]]. repeat split; try congruence; intros r; rewrite Y3; apply X3.
  - auto.
  - intros g Hg. destruct (B8 g Hg) as [H|[H1 [H2 [H3 H4]]]].
    + destruct (A8 g H) as [H'|[H1 [H2 [H3 H4]]]]; [left; exact H'|]. right.
      destruct (B6 g H2) as [Y1 [Y2 Y3]]. repeat split; try lia; try congruence; intros r; rewrite Y3; apply H4.
    + right. repeat split; try lia; assumption.
Qed.

Definition Ids (s : st) : Prop := NoDup (map (gid s) (glist s)) /\ forall g, In g (glist s) -> g < nextg s.

Lemma map_upd_fresh : forall s i, (forall g, In g (glist s) -> g < nextg s) ->
  map (upd (gid s) (nextg s) i) (glist s) = map (gid s) (glist s).
Proof. intros s i Hf. apply map_ext_in. intros g Hg. apply upd_other. specialize (Hf g Hg). lia. Qed.

Lemma new_gene_spec : forall i b s s' g, new_gene i b s = (s', g) ->
  Ids s -> (b = true -> lookup s i = None) ->
  Ext s s' /\ Ids s' /\ g = nextg s /\ nextg s' = g + 1 /\ gid s' g = i /\ (forall r, gback s' g r = false) /\
  gmod s' g = b /\ glist s' = (if b then glist s ++ [g] else glist s).
Proof.
  intros i b s s' g H [Hn Hf] Hl. unfold new_gene in H. inversion H; subst; clear H.
  split; [|split; [|split; [|split; [|split; [|split; [|split]]]]]]; cbn.
  - constructor; cbn; try reflexivity; try lia.
    + intros g Hg. rewrite !upd_other by lia. auto.
    + intros g Hg. destruct b; [apply in_or_app; left|]; exact Hg.
    + intros g Hg. destruct b; [|left; exact Hg]. apply in_app_or in Hg as [Hg|[Hg|[]]]; [left; exact Hg|]. subst. right.
      rewrite !upd_same. repeat split; try lia.
  - split; cbn.
    + destruct b.
      * rewrite map_app. cbn. rewrite upd_same, (map_upd_fresh s i Hf).
        apply NoDup_snoc; [exact Hn|]. intros Hin. apply in_map_iff in Hin as [g [E' Hg]].
        exact (lookup_none _ _ (Hl eq_refl) g Hg E').
      * rewrite (map_upd_fresh s i Hf). exact Hn.
    + intros g Hg. destruct b; [apply in_app_or in Hg as [Hg|[Hg|[]]]|]; try (specialize (Hf g Hg)); lia.
  - reflexivity.
  - reflexivity.
  - apply upd_same.
  - intros r. rewrite upd_same. reflexivity.
  - apply upd_same.
  - reflexivity.
Qed.

Lemma ensure_spec : forall b i s s' g, ensure b i s = (s', g) -> Ids s ->
  Ext s s' /\ Ids s' /\ gid s' g = i /\ g < nextg s' /\
  (b = true -> In g (glist s')) /\ (b = false -> glist s' = glist s /\ nextg s <= g).
Proof.
  intros b i s s' g H HI. unfold ensure in H. destruct b.
  - destruct (lookup s i) as [g0|] eqn:El.
    + inversion H; subst. apply lookup_some in El as [L1 L2]. destruct HI as [Hn Hf].
      split; [apply Ext_refl|]. split; [split; assumption|]. split; [exact L2|]. split; [apply Hf, L1|].
      split; [intros _; exact L1|discriminate].
    + destruct (new_gene_spec i true s s' g H HI (fun _ => El)) as [X1 [X2 [X3 [X4 [X5 [X6 [X7 X8]]]]]]].
      split; [exact X1|]. split; [exact X2|]. split; [exact X5|]. split; [lia|].
      split; [intros _; rewrite X8; apply in_or_app; right; left; reflexivity|discriminate].
  - assert (Hd : true = false -> lookup s i = None) by discriminate.
    destruct (new_gene_spec i false s s' g H HI) as [X1 [X2 [X3 [X4 [X5 [X6 [X7 X8]]]]]]]; [discriminate|].
    split; [exact X1|]. split; [exact X2|]. split; [exact X5|]. split; [lia|].
    split; [discriminate|intros _; split; [exact X8|lia]].
Qed.

Lemma ensure_all_spec : forall b names s s' gs, ensure_all b names s = (s', gs) -> Ids s ->
  Ext s s' /\ Ids s' /\ map (gid s') gs = names /\ (forall g, In g gs -> g < nextg s') /\
  (b = true -> forall g, In g gs -> In g (glist s')) /\
  (b = false -> glist s' = glist s /\ forall g, In g gs -> nextg s <= g).
Proof.
  intros b names. induction names as [|i names IH]; intros s s' gs H HI.
  - cbn in H. inversion H; subst. split; [apply Ext_refl|]. split; [exact HI|]. split; [reflexivity|].
    split; [intros g []|]. split; [intros _ g []|intros _; split; [reflexivity|intros g []]].
  - cbn in H. destruct (ensure b i s) as [s1 g] eqn:E1. destruct (ensure_all b names s1) as [s2 gs'] eqn:E2.
    inversion H; subst; clear H.
    destruct (ensure_spec _ _ _ _ _ E1 HI) as [A1 [A2 [A3 [A4 [A5 A6]]]]].
    destruct (IH _ _ _ E2 A2) as [B1 [B2 [B3 [B4 [B5 B6]]]]].
    split; [eapply Ext_trans; eassumption|]. split; [exact B2|].
    destruct (e_old _ _ B1 g A4) as [O1 _].
    split; [cbn; rewrite O1, A3, B3; reflexivity|].
    split.
    { intros g' [Hg|Hg]; [subst g'; pose proof (e_next _ _ B1); lia|apply B4, Hg]. }
    split.
    { intros Hb g' [Hg|Hg]; [subst g'; apply (e_sub _ _ B1), A5, Hb|apply B5; assumption]. }
    intros Hb. destruct (A6 Hb) as [C1 C2]. destruct (B6 Hb) as [D1 D2]. split; [congruence|].
    intros g' [Hg|Hg]; [subst g'; exact C2|]. specialize (D2 g' Hg). pose proof (e_next _ _ A1). lia.
Qed.

Ltac proj := cbn [rids rin rule rgenes glist gid gback gmod nextg].
Ltac proj_in H := cbn [rids rin rule rgenes glist gid gback gmod nextg] in H.

Lemma Base_Ids : forall s, Base s -> Ids s.
Proof. intros s B. split; [apply (b_ids s B)|apply (b_fresh s B)]. Qed.

(* what update_genes_from_gpr leaves alone (frame), for any reaction *)
Record Upd (r : Z) (s s' : st) : Prop := mkUpd {
  u_rids : rids s' = rids s; u_rin : rin s' = rin s; u_rule : rule s' = rule s;
  u_rgenes : forall r', r' <> r -> rgenes s' r' = rgenes s r';
  u_next : nextg s <= nextg s';
  u_gid : forall g, g < nextg s -> gid s' g = gid s g;
  u_back : forall g r', g < nextg s -> r' <> r -> gback s' g r' = gback s g r';
  u_sub : forall g, In g (glist s) -> In g (glist s');
  u_new : forall g, In g (glist s') -> In g (glist s) \/ nextg s <= g;
  u_out : rin s r = false -> glist s' = glist s }.

Lemma update_genes_part : forall r s D, Part s D ->
  Part (update_genes r s) (fun r' => D r' \/ r' = r) /\ Upd r s (update_genes r s).
Proof.
  intros r s D [B HD]. unfold update_genes.
  destruct (ensure_all (rin s r) (dedup (genes_of (rule s r))) s) as [s1 new] eqn:E.
  destruct (ensure_all_spec _ _ _ _ _ E (Base_Ids s B)) as [X [[I1 I2] [Hmap [Hlt [Hin Hout]]]]].
  destruct X as [X1 X2 X3 X4 X5 X6 X7 X8].
  assert (Hnew_out : rin s r = false -> forall g, In g new -> ~ In g (glist s1)).
  { intros Hb g Hg Hg1. destruct (Hout Hb) as [O1 O2]. rewrite O1 in Hg1. specialize (O2 g Hg).
    pose proof (b_fresh s B g Hg1). lia. }
  assert (Hold : forall g r', In g (glist s1) -> gback s1 g r' = true -> In g (glist s) /\ gback s g r' = true).
  { intros g r' Hg Hb. destruct (X8 g Hg) as [H|[_ [_ [_ H]]]]; [|rewrite H in Hb; discriminate].
    split; [exact H|]. destruct (X6 g (b_fresh s B g H)) as [_ [_ Hk]]. rewrite <- Hk. exact Hb. }
  split; [split|].
  - (* Base *)
    constructor; unfold relink; proj.
    + exact I1.
    + intros r'. rewrite X2, X1. apply (b_univ s B).
    + exact I2.
    + intros r' g. unfold upd. destruct (r' =? r); [apply Hlt|]. rewrite X4. intros Hg.
      pose proof (b_rfresh s B r' g Hg). lia.
    + intros g Hg. destruct (memz g new) eqn:Em.
      * apply memz_In in Em. destruct (rin s r) eqn:Eb; [reflexivity|]. exfalso. exact (Hnew_out eq_refl g Em Hg).
      * destruct (X8 g Hg) as [H|[_ [_ [H _]]]]; [|exact H].
        destruct (X6 g (b_fresh s B g H)) as [_ [Hm _]]. rewrite Hm. apply (b_mod s B g H).
    + intros g r' Hg. destruct (Z.eqb_spec r' r) as [->|Hne].
      * destruct (memz g new) eqn:Em.
        -- intros _. apply memz_In in Em. rewrite upd_same. split; [|exact Em]. rewrite X2.
           destruct (rin s r) eqn:Eb; [reflexivity|]. exfalso. exact (Hnew_out eq_refl g Em Hg).
        -- destruct (memz g (rgenes s r)) eqn:Eo; [discriminate|]. intros Hb.
           destruct (Hold g r Hg Hb) as [H1 H2]. destruct (b_bwd s B g r H1 H2) as [_ H3].
           apply memz_false in Eo. contradiction.
      * intros Hb. destruct (Hold g r' Hg Hb) as [H1 H2]. destruct (b_bwd s B g r' H1 H2) as [H3 H4].
        rewrite X2, upd_other, X4 by exact Hne. split; assumption.
  - (* the reactions of D and r itself *)
    intros r' HD' Hrin. unfold relink in Hrin. proj_in Hrin. rewrite X2 in Hrin. unfold Good, relink. proj.
    destruct (Z.eqb_spec r' r) as [->|Hne].
    + rewrite Hrin in *. rewrite !upd_same. split; [|split].
      * intros g Hg. split; [apply Hin; auto|]. apply memz_In in Hg. rewrite Hg. reflexivity.
      * intros i. rewrite Hmap, X3. apply dedup_In.
      * apply (NoDup_map_NoDup (gid s1)). rewrite Hmap. apply dedup_NoDup.
    + assert (Hd : D r') by (destruct HD' as [H|H]; [exact H|contradiction]).
      destruct (HD r' Hd Hrin) as [G1 [G2 G3]].
      rewrite !upd_other, X4 by exact Hne. split; [|split].
      * intros g Hg. destruct (G1 g Hg) as [H1 H2]. split; [apply X7, H1|].
        destruct (X6 g (b_fresh s B g H1)) as [_ [_ Hk]]. rewrite Hk. exact H2.
      * intros i. rewrite X3, <- G2.
        assert (Em : map (gid s1) (rgenes s r') = map (gid s) (rgenes s r')).
        { apply map_ext_in. intros g Hg. apply X6, (b_rfresh s B r' g Hg). }
        rewrite Em. tauto.
      * exact G3.
  - (* frame *)
    constructor; unfold relink; proj; auto.
    + intros r' Hne. rewrite upd_other, X4 by exact Hne. reflexivity.
    + intros g Hg. apply X6, Hg.
    + intros g r' Hg Hne. apply Z.eqb_neq in Hne. rewrite Hne. apply X6, Hg.
    + intros g Hg. destruct (X8 g Hg) as [H|[H _]]; [left; exact H|right; exact H].
    + intros Hb. apply Hout, Hb.
Qed.

Lemma Part_weaken : forall s (D D' : Z -> Prop), (forall r, D' r -> D r) -> Part s D -> Part s D'.
Proof. intros s D D' H [B HD]. split; [exact B|]. intros r Hr. apply HD, H, Hr. Qed.

Lemma Part_weaken_in : forall s (D D' : Z -> Prop), Part s D -> (forall r, D' r -> rin s r = true -> D r) -> Part s D'.
Proof. intros s D D' [B HD] H. split; [exact B|]. intros r Hr Hrin. apply HD; [apply H|]; assumption. Qed.

(* ---------- reaction.gene_reaction_rule = ... ---------- *)
Lemma set_rule_inv : forall r t s, GInv s -> GInv (set_rule r t s).
Proof.
  intros r t s [B HD]. unfold set_rule.
  assert (P : Part (set_rule_field r t s) (fun r' => r' <> r)).
  { split.
    - destruct B. constructor; unfold set_rule_field; proj; assumption.
    - intros r' Hne Hrin. unfold set_rule_field in *. proj_in Hrin. unfold Good. proj.
      rewrite upd_other by exact Hne. apply (HD r' I Hrin). }
  apply update_genes_part with (r := r) in P. destruct P as [P _].
  eapply Part_weaken; [|exact P]. intros r' _. cbn. destruct (Z.eq_dec r' r); auto.
Qed.

(* ---------- model.add_reactions([r]) ---------- *)
Lemma add_rxn_inv : forall r s, GInv s -> In r (rids s) -> GInv (add_rxn r s).
Proof.
  intros r s [B HD] Hr. unfold add_rxn. destruct (rin s r) eqn:Er; [split; assumption|].
  assert (P : Part (set_rin r true s) (fun r' => r' <> r)).
  { split.
    - destruct B as [B1 B2 B3 B4 B5 B6]. constructor; unfold set_rin; proj; try assumption.
      + intros r'. unfold upd. destruct (Z.eqb_spec r' r); [subst; auto|apply B2].
      + intros g r' Hg Hb. destruct (B6 g r' Hg Hb) as [H1 H2]. split; [|exact H2].
        unfold upd. destruct (r' =? r); [reflexivity|exact H1].
    - intros r' Hne Hrin. unfold set_rin in *. proj_in Hrin. rewrite upd_other in Hrin by exact Hne.
      unfold Good. proj. apply (HD r' I Hrin). }
  apply update_genes_part with (r := r) in P. destruct P as [P _].
  eapply Part_weaken; [|exact P]. intros r' _. cbn. destruct (Z.eq_dec r' r); auto.
Qed.

(* ---------- model.remove_reactions([r], remove_orphans) ---------- *)
(* inside the gene loop: r has left the model, the genes of `todo` may still list it *)
Record RInv (r : Z) (orph : bool) (D : Z -> Prop) (todo : list Z) (s : st) : Prop := mkRInv {
  ri_ids : NoDup (map (gid s) (glist s));
  ri_univ : forall r', rin s r' = true -> In r' (rids s);
  ri_fresh : forall g, In g (glist s) -> g < nextg s;
  ri_rfresh : forall r' g, In g (rgenes s r') -> g < nextg s;
  ri_mod : forall g, In g (glist s) -> gmod s g = true;
  ri_bwd : forall g r', r' <> r -> In g (glist s) -> gback s g r' = true -> rin s r' = true /\ In g (rgenes s r');
  ri_col : forall g, In g (glist s) -> gback s g r = true -> In g todo;
  ri_out : rin s r = false;
  ri_good : forall r', D r' -> rin s r' = true -> Good s r';
  ri_all : orph = true -> forall r', rin s r' = true -> D r' }.

(* what the loop leaves alone *)
Record RFrame (r : Z) (s s' : st) : Prop := mkRFrame {
  rf_rids : rids s' = rids s; rf_rin : rin s' = rin s; rf_rule : rule s' = rule s; rf_rgenes : rgenes s' = rgenes s;
  rf_gid : gid s' = gid s; rf_gmod : gmod s' = gmod s; rf_next : nextg s' = nextg s;
  rf_back : forall g r', r' <> r -> gback s' g r' = gback s g r';
  rf_sub : forall g, In g (glist s') -> In g (glist s) }.

Lemma RFrame_refl : forall r s, RFrame r s s.
Proof. intros. constructor; auto. Qed.
Lemma RFrame_trans : forall r a b c, RFrame r a b -> RFrame r b c -> RFrame r a c.
Proof.
  intros r a b c [A1 A2 A3 A4 A5 A6 A7 A8 A9] [B1 B2 B3 B4 B5 B6 B7 B8 B9]. constructor; try congruence.
  - intros g r' Hne. rewrite B8, A8 by exact Hne. reflexivity.
  - auto.
Qed.

Lemma no_back_spec : forall s g, no_back s g = true -> forall r, In r (rids s) -> gback s g r = false.
Proof.
  intros s g H r Hr. unfold no_back in H. rewrite forallb_forall in H. specialize (H r Hr).
  apply negb_true_iff in H. exact H.
Qed.

Lemma unlink_gene_step : forall r orph D g todo s, RInv r orph D (g :: todo) s ->
  RInv r orph D todo (unlink_gene r orph s g) /\ RFrame r s (unlink_gene r orph s g).
Proof.
  intros r orph D g todo s [I1 I2 I3 I4 I5 I6 I7 I8 I9 I10]. unfold unlink_gene.
  destruct (gback s g r) eqn:Eb.
  2:{ split; [|apply RFrame_refl]. constructor; auto.
      intros g' Hg' Hb. destruct (I7 g' Hg' Hb) as [->|H]; [congruence|exact H]. }
  set (s1 := mkSt (rids s) (rin s) (rule s) (rgenes s) (glist s) (gid s)
                  (fun g' r' => if (g' =? g) && (r' =? r) then false else gback s g' r') (gmod s) (nextg s)).
  assert (Hb1 : forall g' r', r' <> r -> gback s1 g' r' = gback s g' r').
  { intros g' r' Hne. unfold s1. proj. apply Z.eqb_neq in Hne. rewrite Hne, andb_false_r. reflexivity. }
  assert (Hcol : forall g', gback s1 g' r = true -> g' <> g /\ gback s g' r = true).
  { intros g'. unfold s1. proj. rewrite Z.eqb_refl, andb_true_r. destruct (Z.eqb_spec g' g); [discriminate|auto]. }
  assert (R1 : RInv r orph D todo s1).
  { constructor; try (unfold s1; proj; assumption).
    - intros g' r' Hne Hg'. rewrite Hb1 by exact Hne. unfold s1. proj. apply I6; assumption.
    - intros g' Hg' Hb. destruct (Hcol g' Hb) as [Hne Hb']. unfold s1 in Hg'. proj_in Hg'.
      destruct (I7 g' Hg' Hb') as [H|H]; [congruence|exact H].
    - intros r' Hd Hrin. unfold s1 in Hrin. proj_in Hrin. destruct (I9 r' Hd Hrin) as [G1 [G2 G3]].
      assert (Hne : r' <> r) by (intros ->; congruence).
      unfold Good. split; [|split]; [|exact G2|exact G3].
      intros g' Hg'. rewrite Hb1 by exact Hne. apply G1, Hg'. }
  assert (F1 : RFrame r s s1) by (constructor; unfold s1; proj; auto).
  destruct (orph && no_back s1 g) eqn:Eo; [|split; assumption].
  apply andb_true_iff in Eo as [Eo1 Eo2]. subst orph.
  destruct R1 as [J1 J2 J3 J4 J5 J6 J7 J8 J9 J10].
  split.
  - constructor; unfold set_glist; proj; try assumption.
    + unfold drop. apply NoDup_map_filter. exact J1.
    + intros g' Hg'. apply drop_In in Hg' as [Hg' _]. apply J3, Hg'.
    + intros g' Hg'. apply drop_In in Hg' as [Hg' _]. apply J5, Hg'.
    + intros g' r' Hne Hg'. apply drop_In in Hg' as [Hg' _]. apply J6; assumption.
    + intros g' Hg'. apply drop_In in Hg' as [Hg' _]. apply J7, Hg'.
    + intros r' Hd Hrin. destruct (J9 r' Hd Hrin) as [G1 [G2 G3]]. unfold Good. proj.
      split; [|split]; [|exact G2|exact G3].
      intros g' Hg'. destruct (G1 g' Hg') as [H1 H2]. split; [|exact H2]. apply drop_In. split; [exact H1|].
      intros [->|[]]. rewrite (no_back_spec s1 g' Eo2 r' (J2 r' Hrin)) in H2. discriminate.
  - eapply RFrame_trans; [exact F1|]. constructor; unfold set_glist; proj; auto.
    intros g' Hg'. apply drop_In in Hg' as [Hg' _]. exact Hg'.
Qed.

Lemma unlink_fold : forall r orph D todo s, RInv r orph D todo s ->
  RInv r orph D [] (fold_left (unlink_gene r orph) todo s) /\ RFrame r s (fold_left (unlink_gene r orph) todo s).
Proof.
  intros r orph D todo. induction todo as [|g todo IH]; intros s H; cbn.
  - split; [exact H|apply RFrame_refl].
  - destruct (unlink_gene_step _ _ _ _ _ _ H) as [H1 F1]. destruct (IH _ H1) as [H2 F2].
    split; [exact H2|eapply RFrame_trans; eassumption].
Qed.

Lemma remove_rxn_part : forall r orph D s, Part s D -> (orph = true -> forall r', rin s r' = true -> D r') ->
  Part (remove_rxn r orph s) D /\
  rids (remove_rxn r orph s) = rids s /\ rule (remove_rxn r orph s) = rule s /\ rgenes (remove_rxn r orph s) = rgenes s /\
  gid (remove_rxn r orph s) = gid s /\ nextg (remove_rxn r orph s) = nextg s /\
  (forall r', rin (remove_rxn r orph s) r' = rin s r' && negb (r' =? r)) /\
  (forall g, In g (glist (remove_rxn r orph s)) -> In g (glist s)).
Proof.
  intros r orph D s [B HD] Hall. unfold remove_rxn. destruct (rin s r) eqn:Er.
  2:{ split; [split; assumption|]. repeat split; auto.
      intros r'. destruct (Z.eqb_spec r' r); [subst; rewrite Er; reflexivity|rewrite andb_true_r; reflexivity]. }
  destruct B as [B1 B2 B3 B4 B5 B6].
  assert (R0 : RInv r orph D (rgenes s r) (set_rin r false s)).
  { constructor; unfold set_rin; proj; try assumption.
    - intros r'. unfold upd. destruct (r' =? r); [discriminate|apply B2].
    - intros g r' Hne Hg Hb. rewrite upd_other by exact Hne. apply B6; assumption.
    - intros g Hg Hb. apply (B6 g r Hg Hb).
    - apply upd_same.
    - intros r' Hd. unfold upd. destruct (Z.eqb_spec r' r); [discriminate|]. intros Hrin. apply (HD r' Hd Hrin).
    - intros Ho r'. unfold upd. destruct (Z.eqb_spec r' r); [discriminate|]. apply Hall, Ho. }
  destruct (unlink_fold _ _ _ _ _ R0) as [[I1 I2 I3 I4 I5 I6 I7 I8 I9 I10] [F1 F2 F3 F4 F5 F6 F7 F8 F9]].
  unfold set_rin in *. cbn [rids rin rule rgenes glist gid gback gmod nextg] in *.
  split; [split|].
  - constructor; try assumption.
    intros g r' Hg Hb. destruct (Z.eq_dec r' r) as [->|Hne]; [destruct (I7 g Hg Hb)|]. apply I6; assumption.
  - exact I9.
  - repeat split; try assumption.
    intros r'. rewrite F2. unfold upd. destruct (Z.eqb_spec r' r); [subst; rewrite andb_false_r; reflexivity|rewrite andb_true_r; reflexivity].
Qed.

Lemma remove_rxn_inv : forall r orph s, GInv s -> GInv (remove_rxn r orph s).
Proof. intros r orph s H. apply remove_rxn_part; [exact H|auto]. Qed.

(* ---------- several update_genes_from_gpr in a row; model.repair() ---------- *)
Record Frame (s s' : st) : Prop := mkFrame {
  f_rids : rids s' = rids s; f_rin : rin s' = rin s; f_rule : rule s' = rule s;
  f_next : nextg s <= nextg s';
  f_gid : forall g, g < nextg s -> gid s' g = gid s g;
  f_sub : forall g, In g (glist s) -> In g (glist s');
  f_new : forall g, In g (glist s') -> In g (glist s) \/ nextg s <= g }.

Lemma Frame_refl : forall s, Frame s s.
Proof. intros. constructor; auto; lia. Qed.
Lemma Frame_trans : forall a b c, Frame a b -> Frame b c -> Frame a c.
Proof.
  intros a b c [A1 A2 A3 A4 A5 A6 A7] [B1 B2 B3 B4 B5 B6 B7]. constructor; try congruence; try lia; auto.
  - intros g Hg. rewrite B5 by lia. apply A5, Hg.
  - intros g Hg. destruct (B7 g Hg) as [H|H]; [|right; lia]. destruct (A7 g H) as [H'|H']; [left; exact H'|right; exact H'].
Qed.
Lemma Upd_Frame : forall r s s', Upd r s s' -> Frame s s'.
Proof. intros r s s' [U1 U2 U3 U4 U5 U6 U7 U8 U9 U10]. constructor; auto. Qed.

Definition updates (l : list Z) (s : st) : st := fold_left (fun s r => update_genes r s) l s.

Lemma updates_part : forall l s D, Part s D ->
  Part (updates l s) (fun r => D r \/ In r l) /\ Frame s (updates l s).
Proof.
  induction l as [|r l IH]; intros s D P; cbn.
  - split; [|apply Frame_refl]. eapply Part_weaken; [|exact P]. intros r [H|[]]. exact H.
  - destruct (update_genes_part r s D P) as [P1 U1]. destruct (IH _ _ P1) as [P2 F2]. split.
    + eapply Part_weaken; [|exact P2]. cbn. intros r' [H|[H|H]]; auto.
    + eapply Frame_trans; [eapply Upd_Frame; exact U1|exact F2].
Qed.

Lemma model_rxns_In : forall s r, In r (model_rxns s) <-> In r (rids s) /\ rin s r = true.
Proof. intros. unfold model_rxns. apply filter_In. Qed.

Lemma repair_inv : forall s, Base s -> GInv (repair s) /\ Frame s (repair s).
Proof.
  intros s B. unfold repair.
  set (s1 := mkSt (rids s) (rin s) (rule s) (rgenes s) (glist s) (gid s)
                  (fun g r => if memz g (glist s) then false else gback s g r) (gmod s) (nextg s)).
  assert (P1 : Part s1 (fun _ => False)).
  { split; [|intros r []]. destruct B as [B1 B2 B3 B4 B5 B6]. constructor; unfold s1; proj; try assumption.
    intros g r Hg. apply memz_In in Hg. rewrite Hg. discriminate. }
  fold (updates (model_rxns s) s1).
  destruct (updates_part (model_rxns s) s1 _ P1) as [[B2 HD] F].
  set (s2 := updates (model_rxns s) s1) in *.
  assert (F' : Frame s s2) by (destruct F as [F1 F2 F3 F4 F5 F6 F7]; constructor; assumption).
  split.
  - split.
    + destruct B2 as [C1 C2 C3 C4 C5 C6]. constructor; proj; try assumption.
      intros g Hg. apply memz_In in Hg. rewrite Hg. reflexivity.
    + intros r _ Hrin. proj_in Hrin. unfold Good. proj. apply HD; [|exact Hrin]. right.
      apply model_rxns_In. destruct F' as [F1 F2 F3 _ _ _ _]. rewrite <- F1, <- F2.
      split; [apply (b_univ s2 B2), Hrin|exact Hrin].
  - destruct F' as [F1 F2 F3 F4 F5 F6 F7]. constructor; proj; assumption.
Qed.

Lemma repair_GInv : forall s, GInv s -> GInv (repair s).
Proof. intros s [B _]. apply repair_inv, B. Qed.

(* ---------- remove_genes ---------- *)
Definition removes (l : list Z) (s : st) : st := fold_left (fun s r => remove_rxn r false s) l s.

Lemma removes_part : forall l s D, Part s D ->
  Part (removes l s) D /\ rids (removes l s) = rids s /\ rule (removes l s) = rule s /\
  (forall r', rin (removes l s) r' = rin s r' && negb (memz r' l)) /\
  (forall g, In g (glist (removes l s)) -> In g (glist s)) /\ gid (removes l s) = gid s /\ nextg (removes l s) = nextg s.
Proof.
  induction l as [|r l IH]; intros s D P; [cbn|change (removes (r :: l) s) with (removes l (remove_rxn r false s))].
  - split; [exact P|]. split; [reflexivity|]. split; [reflexivity|]. split; [|split; [auto|split; reflexivity]].
    intros r'. rewrite andb_true_r. reflexivity.
  - assert (Hf : false = true -> forall r', rin s r' = true -> D r') by discriminate.
    destruct (remove_rxn_part r false D s P Hf) as [P1 [A1 [A2 [A3 [A4 [A5 [A6 A7]]]]]]].
    destruct (IH _ _ P1) as [P2 [C1 [C2 [C3 [C4 [C5 C6]]]]]].
    split; [exact P2|]. split; [congruence|]. split; [congruence|]. split; [|split; [auto|split; congruence]].
    intros r'. rewrite C3, A6. unfold memz. cbn [existsb]. destruct (r' =? r); cbn [negb orb]; rewrite ?andb_false_r, ?andb_true_r; reflexivity.
Qed.

Lemma remove_genes_inv : forall l rr s, GInv s -> GInv (fst (remove_genes l rr s)).
Proof.
  intros l rr s [B HD]. unfold remove_genes. destruct (lookup_all s l) as [gs|]; [|split; assumption]. cbn [fst].
  set (K := fun i => memz i l).
  set (targets := filter (is_target s K rr) (model_rxns s)).
  set (revisit := filter (is_revisit s K rr) (model_rxns s)).
  set (s1 := mkSt (rids s) (rin s) (fun r => if memz r revisit then remove_rule K (rule s r) else rule s r)
                  (rgenes s) (drop gs (glist s)) (gid s) (gback s) (fun g => if memz g gs then false else gmod s g) (nextg s)).
  set (D0 := fun r => shown_empty (rule s r) = true).
  assert (P1 : Part s1 D0).
  { split.
    - destruct B as [B1 B2 B3 B4 B5 B6]. constructor; unfold s1; proj; try assumption.
      + unfold drop. apply NoDup_map_filter, B1.
      + intros g Hg. apply drop_In in Hg as [Hg _]. apply B3, Hg.
      + intros g Hg. apply drop_In in Hg as [Hg Hn]. apply memz_false in Hn. rewrite Hn. apply B5, Hg.
      + intros g r Hg. apply drop_In in Hg as [Hg _]. apply B6, Hg.
    - intros r Hd Hrin. unfold s1 in Hrin. proj_in Hrin. destruct (HD r I Hrin) as [G1 [G2 G3]].
      unfold D0 in Hd. pose proof (shown_empty_genes _ Hd) as He. rewrite He in G2.
      assert (Hnil : rgenes s r = []).
      { destruct (rgenes s r) as [|g rest]; [reflexivity|]. exfalso. apply (G2 (gid s g)). left. reflexivity. }
      assert (Hnr : memz r revisit = false).
      { apply memz_false. unfold revisit. rewrite filter_In. intros [_ H]. unfold is_revisit in H. rewrite Hd in H. discriminate. }
      unfold Good, s1. proj. rewrite Hnr, Hnil, He. split; [intros g []|]. split; [tauto|constructor]. }
  fold (removes targets s1).
  destruct (removes_part targets s1 D0 P1) as [P2 [A1 [A2 [A3 _]]]].
  fold (updates revisit (removes targets s1)).
  destruct (updates_part revisit _ _ P2) as [P3 [F1 F2 F3 _ _ _ _]].
  apply (Part_weaken_in _ _ _ P3). intros r _ Er. rewrite F2, A3 in Er. apply andb_true_iff in Er as [Er1 Er2].
  unfold s1 in Er1. proj_in Er1. apply negb_true_iff, memz_false in Er2.
  destruct (shown_empty (rule s r)) eqn:E; [left; exact E|]. right.
  assert (Hm : In r (model_rxns s)) by (apply model_rxns_In; split; [apply (b_univ s B), Er1|exact Er1]).
  unfold revisit. apply filter_In. split; [exact Hm|]. unfold is_revisit. rewrite E. cbn [negb andb].
  destruct (rr && negb (eval_rule K (rule s r))) eqn:Et; [|reflexivity]. exfalso. apply Er2.
  unfold targets. apply filter_In. split; [exact Hm|]. unfold is_target. rewrite E, Et. reflexivity.
Qed.

(* ---------- rename_genes ---------- *)
Lemma NoDup_map_upd : forall (f : Z -> Z) g n l, NoDup (map f l) -> (forall x, In x l -> f x <> n) ->
  NoDup (map (upd f g n) l).
Proof.
  induction l as [|x l IH]; cbn; intros Hn Hf; [constructor|].
  inversion Hn as [|? ? Hx Hd]; subst. constructor.
  - intros Hin. apply in_map_iff in Hin as [y [E Hy]]. unfold upd in E.
    destruct (x =? g) eqn:Ex, (y =? g) eqn:Ey.
    + apply Z.eqb_eq in Ex, Ey. subst. apply Hx. apply in_map, Hy.
    + apply (Hf y); [right; exact Hy|congruence].
    + apply (Hf x); [left; reflexivity|congruence].
    + apply Hx. rewrite <- E. apply in_map, Hy.
  - apply IH; [exact Hd|]. intros y Hy. apply Hf. right. exact Hy.
Qed.

Definition same_but_gid (s0 s : st) : Prop :=
  rids s = rids s0 /\ rin s = rin s0 /\ rule s = rule s0 /\ rgenes s = rgenes s0 /\ glist s = glist s0 /\
  gback s = gback s0 /\ gmod s = gmod s0 /\ nextg s = nextg s0.

(* after the pairs d1 of the dictionary (s0: the state before rename_genes) *)
Record RL (s0 : st) (d1 : list (Z * Z)) (s : st) (rem tou : list Z) : Prop := mkRL {
  rl_same : same_but_gid s0 s;
  rl_out : forall g, ~ In g (glist s0) -> gid s g = gid s0 g;
  rl_ids : NoDup (map (gid s) (glist s0));
  rl_gid : forall g, In g (glist s0) -> gid s g = gid s0 g \/ (In (gid s0 g, gid s g) d1 /\ gid s0 g <> gid s g);
  rl_rem : forall g, In g rem -> In g (glist s0) /\ gid s g = gid s0 g /\ In g tou /\
                                 exists v, In (gid s0 g, v) d1 /\ v <> gid s0 g;
  rl_tou : forall k v g, In (k, v) d1 -> k <> v -> In g (glist s0) -> gid s0 g = k -> In g tou;
  rl_tin : forall g, In g tou -> In g (glist s0) }.

Lemma keys_app : forall a b, keys (a ++ b) = keys a ++ keys b.
Proof. intros. unfold keys. apply map_app. Qed.

Lemma rename_loop_spec : forall d2 d1 s0 s rem tou s' rem' tou',
  NoDup (keys (d1 ++ d2)) ->
  (forall k v, In (k, v) (d1 ++ d2) -> In v (keys (d1 ++ d2)) -> v = k) ->
  NoDup (map (gid s0) (glist s0)) ->
  RL s0 d1 s rem tou -> rename_loop d2 s rem tou = (s', rem', tou') -> RL s0 (d1 ++ d2) s' rem' tou'.
Proof.
  induction d2 as [|[o n] rest IH]; intros d1 s0 s rem tou s' rem' tou' Hk Hc Hn0 R H.
  - cbn in H. inversion H; subst. rewrite app_nil_r. exact R.
  - assert (Eapp : d1 ++ (o, n) :: rest = (d1 ++ [(o, n)]) ++ rest) by (rewrite <- app_assoc; reflexivity).
    rewrite Eapp in *.
    destruct R as [Rs Ro Ri Rg Rr Rt Rn]. pose proof Rs as [S1 [S2 [S3 [S4 [S5 [S6 [S7 S8]]]]]]].
    assert (F1 : ~ In o (keys d1)).
    { rewrite !keys_app in Hk. cbn in Hk. rewrite <- app_assoc in Hk. cbn in Hk.
      apply NoDup_remove_2 in Hk. intros Hi. apply Hk. apply in_or_app. left. exact Hi. }
    assert (Hin_d : forall p, In p (d1 ++ [(o, n)]) -> In p ((d1 ++ [(o, n)]) ++ rest)) by (intros p Hp; apply in_or_app; left; exact Hp).
    assert (Hmono : forall p, In p d1 -> In p (d1 ++ [(o, n)])) by (intros p Hp; apply in_or_app; left; exact Hp).
    assert (Hlast : In (o, n) (d1 ++ [(o, n)])) by (apply in_or_app; right; left; reflexivity).
    assert (Hokey : In o (keys ((d1 ++ [(o, n)]) ++ rest))).
    { apply in_map_iff. exists (o, n). split; [reflexivity|apply Hin_d, Hlast]. }
    assert (F2 : forall g, lookup s o = Some g -> In g (glist s0) /\ gid s g = o /\ gid s0 g = o).
    { intros g Hl. apply lookup_some in Hl as [L1 L2]. rewrite S5 in L1. split; [exact L1|]. split; [exact L2|].
      destruct (Rg g L1) as [E|[E1 E2]]; [congruence|]. rewrite L2 in E1.
      symmetry. apply (Hc (gid s0 g) o); [apply Hin_d, Hmono, E1|exact Hokey]. }
    assert (Ttou : forall tou2, (forall g, In g tou -> In g tou2) ->
              (forall g, In g (glist s0) -> gid s0 g = o -> o <> n -> In g tou2) ->
              forall k v g, In (k, v) (d1 ++ [(o, n)]) -> k <> v -> In g (glist s0) -> gid s0 g = k -> In g tou2).
    { intros tou2 Hsub Hnew k v g Hp Hne Hg Ek. apply in_app_or in Hp as [Hp|[Hp|[]]].
      - apply Hsub. eapply Rt; eauto.
      - inversion Hp; subst. apply Hnew; auto. }
    cbn [rename_loop] in H.
    destruct (lookup s o) as [g|] eqn:Elo.
    + destruct (F2 g eq_refl) as [G1 [G2 G3]].
      destruct (lookup s n) as [g'|] eqn:Eln.
      * destruct (Z.eqb_spec g g') as [->|Hgg].
        -- (* identity: nothing happens *)
           apply (IH (d1 ++ [(o, n)]) s0 s rem tou); try assumption.
           constructor; try assumption.
           ++ intros g Hg. destruct (Rg g Hg) as [E|[E1 E2]]; [left; exact E|right; split; [apply Hmono, E1|exact E2]].
           ++ intros g Hg. destruct (Rr g Hg) as [A [B [C [v [V1 V2]]]]]. repeat split; try assumption.
              exists v. split; [apply Hmono, V1|exact V2].
           ++ apply Ttou; [auto|]. intros g _ _ Hne. exfalso. apply lookup_some in Eln as [_ L2]. congruence.
        -- (* the new identifier exists: the old gene is to be removed *)
           assert (Hon : n <> o).
           { intros ->. rewrite Elo in Eln. inversion Eln. contradiction. }
           apply (IH (d1 ++ [(o, n)]) s0 s (g :: rem) (g :: tou)); try assumption.
           constructor; try assumption.
           ++ intros g2 Hg. destruct (Rg g2 Hg) as [E|[E1 E2]]; [left; exact E|right; split; [apply Hmono, E1|exact E2]].
           ++ intros g2 [<-|Hg].
              ** split; [exact G1|]. split; [congruence|]. split; [left; reflexivity|].
                 exists n. rewrite G3. split; [exact Hlast|exact Hon].
              ** destruct (Rr g2 Hg) as [A [B [C [v [V1 V2]]]]]. split; [exact A|]. split; [exact B|]. split; [right; exact C|].
                 exists v. split; [apply Hmono, V1|exact V2].
           ++ apply Ttou; [intros g2 Hg2; right; exact Hg2|]. intros g2 Hg2 E2 _. left.
              apply (NoDup_map_inj (gid s0) (glist s0)); try assumption. congruence.
           ++ intros g2 [<-|Hg2]; [exact G1|apply Rn, Hg2].
      * (* rename *)
        assert (Hon : n <> o).
        { intros ->. rewrite Elo in Eln. discriminate. }
        apply (IH (d1 ++ [(o, n)]) s0 (set_gid g n s) rem (g :: tou)); try assumption.
        constructor.
        -- unfold same_but_gid, set_gid. proj. repeat split; assumption.
        -- intros g2 Hg2. unfold set_gid. proj. rewrite upd_other; [apply Ro, Hg2|]. intros ->. contradiction.
        -- unfold set_gid. proj. apply NoDup_map_upd; [exact Ri|]. intros x Hx. rewrite <- S5 in Hx.
           apply (lookup_none _ _ Eln x Hx).
        -- intros g2 Hg2. unfold set_gid. proj. destruct (Z.eq_dec g2 g) as [->|Hne].
           ++ rewrite upd_same. right. rewrite G3. split; [exact Hlast|auto].
           ++ rewrite upd_other by exact Hne. destruct (Rg g2 Hg2) as [E|[E1 E2]]; [left; exact E|right; split; [apply Hmono, E1|exact E2]].
        -- intros g2 Hg. destruct (Rr g2 Hg) as [A [B [C [v [V1 V2]]]]].
           assert (Hne : g2 <> g).
           { intros ->. apply F1. apply in_map_iff. exists (gid s0 g, v). split; [cbn; exact G3|exact V1]. }
           split; [exact A|]. split; [unfold set_gid; proj; rewrite upd_other by exact Hne; exact B|]. split; [right; exact C|].
           exists v. split; [apply Hmono, V1|exact V2].
        -- apply Ttou; [intros g2 Hg2; right; exact Hg2|]. intros g2 Hg2 E2 _. left.
           apply (NoDup_map_inj (gid s0) (glist s0)); try assumption. congruence.
        -- intros g2 [<-|Hg2]; [exact G1|apply Rn, Hg2].
    + (* no such gene *)
      apply (IH (d1 ++ [(o, n)]) s0 s rem tou); try assumption.
      constructor; try assumption.
      * intros g Hg. destruct (Rg g Hg) as [E|[E1 E2]]; [left; exact E|right; split; [apply Hmono, E1|exact E2]].
      * intros g Hg. destruct (Rr g Hg) as [A [B [C [v [V1 V2]]]]]. repeat split; try assumption.
        exists v. split; [apply Hmono, V1|exact V2].
      * apply Ttou; [auto|]. intros g Hg Eg _. exfalso.
        destruct (Rg g Hg) as [E|[E1 E2]].
        -- rewrite <- S5 in Hg. apply (lookup_none _ _ Elo g Hg). congruence.
        -- apply F1. apply in_map_iff. exists (gid s0 g, gid s g). split; [cbn; exact Eg|exact E1].
Qed.

(* removing genes that no reaction of the model lists *)
Lemma drop_unref : forall s rem, GInv s ->
  (forall g r, In g rem -> rin s r = true -> ~ In g (rgenes s r)) ->
  GInv (drop_genes rem s).
Proof.
  intros s rem [[B1 B2 B3 B4 B5 B6] HD] Hun. unfold drop_genes. split.
  - constructor; proj; try assumption.
    + unfold drop. apply NoDup_map_filter, B1.
    + intros g Hg. apply drop_In in Hg as [Hg _]. apply B3, Hg.
    + intros g Hg. apply drop_In in Hg as [Hg Hn]. apply memz_false in Hn. rewrite Hn. apply B5, Hg.
    + intros g r Hg. apply drop_In in Hg as [Hg _]. apply B6, Hg.
  - intros r _ Hrin. proj_in Hrin. destruct (HD r I Hrin) as [G1 [G2 G3]]. unfold Good. proj.
    split; [|split; assumption]. intros g Hg. destruct (G1 g Hg) as [H1 H2]. split; [|exact H2].
    apply drop_In. split; [exact H1|]. intros Hr. exact (Hun g r Hr Hrin Hg).
Qed.

Lemma rename_genes_inv : forall d s, GInv s -> NoDup (keys d) -> no_chain d = true -> GInv (rename_genes d s).
Proof.
  intros d s [B HD] Hk Hc. unfold rename_genes.
  destruct (rename_loop d s [] []) as [[s1 rem] tou] eqn:E.
  assert (R0 : RL s [] s [] []).
  { constructor; try (intros; contradiction); auto.
    - unfold same_but_gid. repeat split; reflexivity.
    - apply (b_ids s B). }
  pose proof (rename_loop_spec d [] s s [] [] s1 rem tou Hk (no_chain_spec d Hc) (b_ids s B) R0 E) as R.
  cbn [app] in R. destruct R as [[S1 [S2 [S3 [S4 [S5 [S6 [S7 S8]]]]]]] Ro Ri Rg Rr Rt Rn].
  set (recompute := fun r => existsb (fun g => gback s g r) tou).
  set (s2 := rename_rules d recompute s1).
  assert (B2 : Base s2).
  { destruct B as [B1 B2 B3 B4 B5 B6]. constructor; unfold s2, rename_rules; proj; rewrite ?S1, ?S2, ?S4, ?S5, ?S6, ?S7, ?S8; assumption. }
  destruct (repair_inv s2 B2) as [G3 [F1 F2 F3 F4 F5 F6 F7]].
  apply drop_unref; [exact G3|].
  intros g r Hg Hrin Hin.
  destruct (Rr g Hg) as [A1 [A2 [A3 [v [V1 V2]]]]].
  destruct G3 as [B3 HD3]. destruct (HD3 r I Hrin) as [_ [G2 _]].
  assert (Hk3 : In (gid (repair s2) g) (genes_of (rule (repair s2) r))) by (apply G2, in_map, Hin).
  assert (Eg : gid (repair s2) g = gid s g).
  { rewrite F5; [unfold s2, rename_rules; proj; exact A2|]. unfold s2, rename_rules. proj. rewrite S8. apply (b_fresh s B), A1. }
  rewrite Eg, F3 in Hk3. unfold s2, rename_rules in Hk3. proj_in Hk3. rewrite S3 in Hk3.
  rewrite F2 in Hrin. unfold s2, rename_rules in Hrin. proj_in Hrin. rewrite S2 in Hrin.
  set (k := gid s g) in *.
  assert (Hkk : In k (keys d)) by (apply in_map_iff; exists (k, v); split; [reflexivity|exact V1]).
  destruct (recompute r) eqn:Erc.
  - rewrite genes_of_rename in Hk3. apply in_map_iff in Hk3 as [n0 [En Hn]].
    destruct (in_dec Z.eq_dec n0 (keys d)) as [Hi|Hi].
    + pose proof (dget_key d n0 Hi) as Hp. rewrite En in Hp.
      pose proof (no_chain_spec d Hc n0 k Hp Hkk) as Ekn. subst n0.
      rewrite (dget_pair d k v Hk V1) in En. contradiction.
    + rewrite (dget_notkey d n0 Hi) in En. subst n0. contradiction.
  - destruct (HD r I Hrin) as [H1 [H2 _]]. apply H2 in Hk3. apply in_map_iff in Hk3 as [g2 [E2 Hg2]].
    destruct (H1 g2 Hg2) as [Hl Hb].
    assert (g2 = g) by (apply (NoDup_map_inj (gid s) (glist s)); [apply (b_ids s B)|exact Hl|exact A1|exact E2]). subst g2.
    unfold recompute in Erc. assert (Ht : existsb (fun g0 => gback s g0 r) tou = true).
    { apply existsb_exists. exists g. split; [exact A3|exact Hb]. }
    congruence.
Qed.

(* ---------- the repaired rename_genes keeps the invariant for every dictionary ---------- *)
Lemma rename_loop_ids : forall d s rem tou s' rem' tou', rename_loop d s rem tou = (s', rem', tou') ->
  NoDup (map (gid s) (glist s)) -> same_but_gid s s' /\ NoDup (map (gid s') (glist s')).
Proof.
  induction d as [|[o n] d IH]; intros s rem tou s' rem' tou' E Hn; cbn in E.
  - inversion E; subst. split; [unfold same_but_gid; repeat split; reflexivity|exact Hn].
  - destruct (lookup s o) as [g|] eqn:Elo; [|apply (IH _ _ _ _ _ _ E Hn)].
    destruct (lookup s n) as [g'|] eqn:Eln; [destruct (g =? g'); apply (IH _ _ _ _ _ _ E Hn)|].
    assert (Hn' : NoDup (map (gid (set_gid g n s)) (glist (set_gid g n s)))).
    { unfold set_gid. cbn [gid glist]. apply NoDup_map_upd; [exact Hn|]. intros x Hx. apply (lookup_none _ _ Eln x Hx). }
    destruct (IH _ _ _ _ _ _ E Hn') as [[S1 [S2 [S3 [S4 [S5 [S6 [S7 S8]]]]]]] H2]. split; [|exact H2].
    unfold set_gid in *. cbn [rids rin rule rgenes glist gid gback gmod nextg] in *. unfold same_but_gid. repeat split; assumption.
Qed.

Theorem rename_genes_fixed_inv : forall d s, GInv s -> GInv (rename_genes_fixed d s).
Proof.
  intros d s [B _]. unfold rename_genes_fixed.
  destruct (rename_loop d s [] []) as [[s1 rem] tou] eqn:E.
  destruct (rename_loop_ids _ _ _ _ _ _ _ E (b_ids s B)) as [[S1 [S2 [S3 [S4 [S5 [S6 [S7 S8]]]]]]] Hn].
  set (s2 := rename_rules d (fun r => existsb (fun g => gback s g r) tou) s1).
  assert (B2 : Base s2).
  { destruct B as [B1 B2 B3 B4 B5 B6]. constructor; unfold s2, rename_rules; cbn [rids rin rule rgenes glist gid gback gmod nextg];
      try exact Hn; rewrite ?S1, ?S2, ?S4, ?S5, ?S6, ?S7, ?S8; assumption. }
  destruct (repair_inv s2 B2) as [G3 _].
  apply drop_unref; [exact G3|].
  intros g r Hg Hrin Hin. apply filter_In in Hg as [_ Hnb].
  destruct G3 as [B3 HD3]. destruct (HD3 r I Hrin) as [G1 _]. destruct (G1 g Hin) as [_ Hb].
  rewrite (no_back_spec _ _ Hnb r (b_univ _ B3 r Hrin)) in Hb. discriminate.
Qed.

(* ---------- every operation, every history ---------- *)
Theorem step_GInv : forall s o, GInv s -> op_ok s o -> GInv (fst (step s o)).
Proof.
  intros s o H Hok. unfold op_ok in Hok. destruct o as [r t|r|r orph|l rr|d|d|]; cbn [step fst op_okb] in *.
  - apply set_rule_inv, H.
  - apply add_rxn_inv; [exact H|apply memz_In, Hok].
  - apply remove_rxn_inv, H.
  - apply remove_genes_inv, H.
  - apply andb_true_iff in Hok as [H1 H2]. apply rename_genes_inv; [exact H|apply nodupb_NoDup, H1|exact H2].
  - apply rename_genes_fixed_inv, H.
  - apply repair_GInv, H.
Qed.

Fixpoint ok_run (s : st) (ops : list op) : Prop :=
  match ops with [] => True | o :: ops' => op_ok s o /\ ok_run (fst (step s o)) ops' end.

Theorem run_GInv : forall ops s, GInv s -> ok_run s ops -> GInv (run ops s).
Proof.
  induction ops as [|o ops IH]; intros s H Hok; cbn [run fold_left ok_run] in *; [exact H|].
  destruct Hok as [H1 H2]. apply (IH (fst (step s o))); [apply step_GInv; assumption|exact H2].
Qed.

(* the universe of reactions never changes, so `op_ok` can be decided up front *)
Lemma ensure_all_rids : forall b names s s' gs, ensure_all b names s = (s', gs) -> rids s' = rids s.
Proof.
  intros b names. induction names as [|i names IH]; intros s s' gs E; cbn in E.
  - inversion E; reflexivity.
  - destruct (ensure b i s) as [sa g] eqn:Ea. destruct (ensure_all b names sa) as [sb gs'] eqn:Eb.
    inversion E; subst. rewrite (IH _ _ _ Eb). unfold ensure, new_gene in Ea.
    destruct b; [destruct (lookup s i)|]; inversion Ea; reflexivity.
Qed.
Lemma update_genes_rids : forall r s, rids (update_genes r s) = rids s.
Proof.
  intros r s. unfold update_genes. destruct (ensure_all _ _ _) as [s1 new] eqn:E. unfold relink. proj.
  apply (ensure_all_rids _ _ _ _ _ E).
Qed.
Lemma updates_rids : forall l s, rids (updates l s) = rids s.
Proof. induction l as [|r l IH]; intros s; cbn; [reflexivity|]. fold (updates l (update_genes r s)). rewrite IH. apply update_genes_rids. Qed.
Lemma remove_rxn_rids : forall r orph s, rids (remove_rxn r orph s) = rids s.
Proof.
  intros r orph s. unfold remove_rxn. destruct (rin s r); [|reflexivity].
  change (rids s) with (rids (set_rin r false s)). generalize (set_rin r false s). generalize (rgenes s r).
  induction l as [|g l IH]; intros s0; cbn; [reflexivity|]. rewrite IH. unfold unlink_gene.
  destruct (gback s0 g r); [|reflexivity]. destruct (orph && _); reflexivity.
Qed.
Lemma removes_rids : forall l s, rids (removes l s) = rids s.
Proof. induction l as [|r l IH]; intros s; cbn; [reflexivity|]. fold (removes l (remove_rxn r false s)). rewrite IH. apply remove_rxn_rids. Qed.
Lemma repair_rids : forall s, rids (repair s) = rids s.
Proof. intros s. unfold repair. proj. fold (updates (model_rxns s)). rewrite updates_rids. reflexivity. Qed.
Lemma rename_loop_rids : forall d s rem tou s' rem' tou', rename_loop d s rem tou = (s', rem', tou') -> rids s' = rids s.
Proof.
  induction d as [|[o n] d IH]; intros s rem tou s' rem' tou' E; cbn in E.
  - inversion E; reflexivity.
  - destruct (lookup s o) as [g|]; [|apply (IH _ _ _ _ _ _ E)].
    destruct (lookup s n) as [g'|]; [destruct (g =? g'); apply (IH _ _ _ _ _ _ E)|].
    rewrite (IH _ _ _ _ _ _ E). reflexivity.
Qed.

Lemma step_rids : forall s o, rids (fst (step s o)) = rids s.
Proof.
  intros s o. destruct o as [r t|r|r orph|l rr|d|d|]; cbn [step fst].
  - unfold set_rule. rewrite update_genes_rids. reflexivity.
  - unfold add_rxn. destruct (rin s r); [reflexivity|]. rewrite update_genes_rids. reflexivity.
  - apply remove_rxn_rids.
  - unfold remove_genes. destruct (lookup_all s l) as [gs|]; [|reflexivity]. cbn [fst].
    match goal with |- rids (fold_left _ ?rv (fold_left _ ?tg ?s1)) = _ =>
      fold (removes tg s1); fold (updates rv (removes tg s1)) end.
    rewrite updates_rids, removes_rids. reflexivity.
  - unfold rename_genes. destruct (rename_loop d s [] []) as [[s1 rem] tou] eqn:E. unfold drop_genes. proj.
    rewrite repair_rids. unfold rename_rules. proj. apply (rename_loop_rids _ _ _ _ _ _ _ E).
  - unfold rename_genes_fixed. destruct (rename_loop d s [] []) as [[s1 rem] tou] eqn:E. unfold drop_genes. proj.
    rewrite repair_rids. unfold rename_rules. proj. apply (rename_loop_rids _ _ _ _ _ _ _ E).
  - apply repair_rids.
Qed.
