(* Correspondence and monitor functions of the genes kernel (C02), evaluated by vm_compute on what the
   harness observed of the real objects after every operation.  Nothing here is a theorem.

   Gene objects are not numbered in an observation (the numbering and the order of model.genes are not
   determined by the operations: Python iterates sets of identifiers in hash order).  An observation
   describes the object graph through identifiers and identity tests made on the real objects, and the
   model state is projected onto the same shape.                                                       *)
From Coq Require Import ZArith List Bool.
From Cobra.Genes Require Import Model.
Import ListNotations.
Open Scope Z_scope.

(* a gene of model.genes *)
Record gobs := mkG {
  go_id : Z;
  go_back : list Z;        (* gene._reaction, as reaction numbers *)
  go_mod : bool;           (* gene._model is the model *)
  go_lookup : bool }.      (* model.genes.get_by_id(gene.id) is gene, and index(gene.id) is its position *)
(* an element of reaction._genes *)
Record eobs := mkE {
  eo_id : Z;
  eo_in : bool;            (* the object is an element of model.genes (identity) *)
  eo_back : bool;          (* reaction in gene._reaction *)
  eo_mod : bool;           (* gene._model is the model *)
  eo_nback : Z }.          (* len(gene._reaction) *)
Record robs := mkR { ro_id : Z; ro_in : bool; ro_rule : rl; ro_genes : list eobs }.
Record obs := mkO {
  o_rx : list robs;
  o_genes : list gobs;
  o_shape : bool;          (* len(ids) == len(set(ids)) == len(index), reaction._model agrees with membership,
                              gene._model is the model or None, back references are reactions of the case *)
  o_res : res }.

Fixpoint tree_eqb (a b : tree) : bool :=
  match a, b with
  | TGene x, TGene y => x =? y
  | TBool o l, TBool o' l' =>
      Bool.eqb o o' &&
      (fix go (l l' : list tree) : bool :=
         match l, l' with [], [] => true | x :: r, y :: s => tree_eqb x y && go r s | _, _ => false end) l l'
  | _, _ => false
  end.
Definition rl_eqb (a b : rl) : bool :=
  match a, b with None, None => true | Some x, Some y => tree_eqb x y | _, _ => false end.
Definition res_eqb (a b : res) : bool :=
  match a, b with Ok, Ok | RaiseKeyError, RaiseKeyError | RaiseOther, RaiseOther => true | _, _ => false end.
Fixpoint nodupb (l : list Z) : bool := match l with [] => true | x :: r => negb (memz x r) && nodupb r end.
Definition subset (a b : list Z) : bool := forallb (fun x => memz x b) a.
Definition same_set (a b : list Z) : bool := subset a b && subset b a.

(* ---- code 1: the model state, projected, equals the observation ---- *)
Definition e_eqb (a b : eobs) : bool :=
  (eo_id a =? eo_id b) && Bool.eqb (eo_in a) (eo_in b) && Bool.eqb (eo_back a) (eo_back b) &&
  Bool.eqb (eo_mod a) (eo_mod b) && (eo_nback a =? eo_nback b).
Definition proj_e (s : st) (r g : Z) : eobs :=
  mkE (gid s g) (memz g (glist s)) (gback s g r) (gmod s g)
      (Z.of_nat (length (filter (fun r' => gback s g r') (rids s)))).
Definition g_eqb (a b : gobs) : bool :=
  (go_id a =? go_id b) && same_set (go_back a) (go_back b) && Bool.eqb (go_mod a) (go_mod b).
Definition proj_g (s : st) (g : Z) : gobs :=
  mkG (gid s g) (filter (fun r => gback s g r) (rids s)) (gmod s g) true.
Definition agree (s : st) (o : obs) : bool :=
  forallb (fun x =>
     let r := ro_id x in
     let pe := map (proj_e s r) (rgenes s r) in
     Bool.eqb (rin s r) (ro_in x) && rl_eqb (rule s r) (ro_rule x) &&
     Nat.eqb (length pe) (length (ro_genes x)) &&
     forallb (fun e => existsb (e_eqb e) pe) (ro_genes x) &&
     forallb (fun e => existsb (e_eqb e) (ro_genes x)) pe) (o_rx o) &&
  (let pg := map (proj_g s) (glist s) in
   Nat.eqb (length pg) (length (o_genes o)) &&
   forallb (fun e => existsb (g_eqb e) pg) (o_genes o) &&
   forallb (fun e => existsb (g_eqb e) (o_genes o)) pg).

(* ---- code 3: the gene cross references of the observed object graph (the gene clauses of C02) ---- *)
Definition find_r (k : Z) (l : list robs) : option robs := find (fun x => ro_id x =? k) l.
Definition find_g (k : Z) (l : list gobs) : option gobs := find (fun x => go_id x =? k) l.
Definition ginv_b (o : obs) : bool :=
  o_shape o &&
  (* identifiers are unique, every gene of the model is the one found by looking up its identifier and
     belongs to the model *)
  nodupb (map go_id (o_genes o)) &&
  forallb (fun g => go_lookup g && go_mod g &&
     (* a gene lists a reaction only if that reaction is in the model and lists this very gene *)
     forallb (fun r => match find_r r (o_rx o) with
                       | Some x => ro_in x && existsb (fun e => (eo_id e =? go_id g) && eo_in e) (ro_genes x)
                       | None => false end) (go_back g)) (o_genes o) &&
  (* a reaction of the model lists only genes of the model, which list it; its genes are those of its rule *)
  forallb (fun x => negb (ro_in x) ||
     (forallb (fun e => eo_in e && eo_back e && eo_mod e &&
                        match find_g (eo_id e) (o_genes o) with
                        | Some g => memz (ro_id x) (go_back g) | None => false end) (ro_genes x) &&
      nodupb (map eo_id (ro_genes x)) &&
      same_set (map eo_id (ro_genes x)) (genes_of (ro_rule x)))) (o_rx o).

Fixpoint check_steps (s : st) (synced : bool) (steps : list (op * obs)) (n : nat) : list (nat * nat) :=
  match steps with
  | [] => []
  | (o, ob) :: rest =>
      let '(s', r) := step s o in
      let c1 := negb synced || (agree s' ob && res_eqb r (o_res ob)) in
      let c3 := ginv_b ob in
      (if c1 then [] else [(n, 1%nat)]) ++ (if c3 then [] else [(n, 3%nat)]) ++
      check_steps s' (synced && c1) rest (S n)
  end.

Definition check_case (c : obs * list (op * obs)) : list (nat * nat) :=
  let '(ob0, steps) := c in
  let s0 := init (map ro_id (o_rx ob0)) in
  (if agree s0 ob0 then [] else [(0%nat, 1%nat)]) ++ (if ginv_b ob0 then [] else [(0%nat, 3%nat)]) ++
  check_steps s0 true steps 1.

Definition failing (cases : list (Z * (obs * list (op * obs)))) : list (Z * list (nat * nat)) :=
  filter (fun r => match snd r with [] => false | _ => true end)
         (map (fun c => (fst c, check_case (snd c))) cases).

(* ---------- contexts (C03): code 4 = the observation after leaving a block differs from the one at entry,
   code 5 = __exit__ raised.  Both are computed on the implementation's own observations.  Compared: membership
   and rule of every reaction, the gene set of every reaction that is in the model at either end, model.genes with
   back references, _model pointers and look-ups (the order of model.genes aside). ---------- *)
Definition same_entries (a b : list eobs) : bool :=
  Nat.eqb (length a) (length b) && forallb (fun e => existsb (e_eqb e) b) a && forallb (fun e => existsb (e_eqb e) a) b.
Definition g_same (a b : gobs) : bool := g_eqb a b && Bool.eqb (go_lookup a) (go_lookup b).
Fixpoint all2 {A} (f : A -> A -> bool) (l m : list A) : bool :=
  match l, m with [], [] => true | a :: l', b :: m' => f a b && all2 f l' m' | _, _ => false end.
Definition restored (a b : obs) : bool :=
  Bool.eqb (o_shape a) (o_shape b) &&
  all2 (fun x y => (ro_id x =? ro_id y) && Bool.eqb (ro_in x) (ro_in y) && rl_eqb (ro_rule x) (ro_rule y) &&
                   (if ro_in x || ro_in y then same_entries (ro_genes x) (ro_genes y) else true)) (o_rx a) (o_rx b) &&
  Nat.eqb (length (o_genes a)) (length (o_genes b)) &&
  forallb (fun g => existsb (g_same g) (o_genes b)) (o_genes a) &&
  forallb (fun g => existsb (g_same g) (o_genes a)) (o_genes b).

Definition is_exit (o : cop) : bool := match o with Exit => true | _ => false end.
Definition is_enter (o : cop) : bool := match o with Enter => true | _ => false end.

Fixpoint check_csteps (c : cst) (synced : bool) (stack : list obs) (prev : obs) (steps : list (cop * obs)) (n : nat)
  : list (nat * nat) :=
  match steps with
  | [] => []
  | (o, ob) :: rest =>
      let '(c', r) := cstep c o in
      let c1 := negb synced || (agree (cur c') ob && res_eqb r (o_res ob)) in
      let c3 := ginv_b ob in
      let '(c4, c5, stack') :=
        if is_enter o then (true, true, prev :: stack)
        else if is_exit o then
          match stack with
          | e :: st' => (restored e ob, res_eqb (o_res ob) Ok, st')
          | [] => (true, true, [])
          end
        else (true, true, stack) in
      (if c1 then [] else [(n, 1%nat)]) ++ (if c3 then [] else [(n, 3%nat)]) ++
      (if c4 then [] else [(n, 4%nat)]) ++ (if c5 then [] else [(n, 5%nat)]) ++
      check_csteps c' (synced && c1) stack' ob rest (S n)
  end.

Definition check_ccase (c : obs * list (cop * obs)) : list (nat * nat) :=
  let '(ob0, steps) := c in
  let s0 := init (map ro_id (o_rx ob0)) in
  (if agree s0 ob0 then [] else [(0%nat, 1%nat)]) ++ (if ginv_b ob0 then [] else [(0%nat, 3%nat)]) ++
  check_csteps (mkC s0 []) true [] ob0 steps 1.

Definition failing_ctx (cases : list (Z * (obs * list (cop * obs)))) : list (Z * list (nat * nat)) :=
  filter (fun r => match snd r with [] => false | _ => true end)
         (map (fun c => (fst c, check_ccase (snd c))) cases).
