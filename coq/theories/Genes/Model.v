(* Kernel II of the stateful core (property C02): gene bookkeeping.

   Executable model of what cobrapy keeps about genes and of the public operations that edit it:
     Reaction.gene_reaction_rule / Reaction.gpr setters  -> Reaction.update_genes_from_gpr
       (_associate_gene, _dissociate_gene)                        core/reaction.py
     Model.add_reactions, Model.remove_reactions(remove_orphans)  core/model.py (gene parts)
     Model.repair                                                 core/model.py (gene parts)
     cobra.manipulation.delete.remove_genes (with _GeneRemover)   manipulation/delete.py
     cobra.manipulation.modify.rename_genes (with _Renamer)       manipulation/modify.py

   Reactions are integers of a universe `rids` fixed up front (one Python object per reaction
   identifier, as in Core/Model.v).  Genes are different: cobrapy creates a NEW Gene object whenever a
   rule names an identifier the model does not have (and always for a reaction outside a model), and
   rename_genes changes the identifier of an object.  So a gene OBJECT is an integer handed out by the
   allocation counter `nextg`, and `gid` maps an object to its identifier (also an integer: "g<k>").
   `glist` is model.genes (a DictList, looked up by identifier), `rgenes r` is reaction._genes,
   `gback g r` says r is in gene._reaction, `gmod g` says gene._model is the model.
   The order of model.genes and the numbering of objects are not observable through the comparison in
   Check.v (Python iterates sets of identifiers in hash order); nothing below depends on either.

   Outside: contexts (`with model:`), groups, Gene.name/annotation, the text form of rules (C08).   *)
From Coq Require Import ZArith List Bool.
Import ListNotations.
Open Scope Z_scope.

Definition memz (z : Z) (l : list Z) : bool := existsb (Z.eqb z) l.
Definition upd {A} (f : Z -> A) (k : Z) (v : A) : Z -> A := fun k' => if k' =? k then v else f k'.
Definition dedup (l : list Z) : list Z := nodup Z.eq_dec l.

(* ---------- rules: ast.Name / ast.BoolOp over gene identifiers; None = empty rule (body None) ---------- *)
Inductive tree := TGene (i : Z) | TBool (is_and : bool) (l : list tree).
Definition rl := option tree.

Fixpoint tgenes (t : tree) : list Z :=
  match t with TGene i => [i] | TBool _ l => flat_map tgenes l end.
Definition genes_of (r : rl) : list Z := match r with None => [] | Some t => tgenes t end.

(* GPR._eval_gpr: Name -> id not in knockouts; Or -> any; And -> all *)
Fixpoint teval (K : Z -> bool) (t : tree) : bool :=
  match t with
  | TGene i => negb (K i)
  | TBool true l => forallb (teval K) l
  | TBool false l => existsb (teval K) l
  end.
Definition eval_rule (K : Z -> bool) (r : rl) : bool := match r with None => true | Some t => teval K t end.

Section Omap.
  Context {A B : Type} (f : A -> option B).
  Fixpoint omap (l : list A) : list B :=
    match l with [] => [] | x :: r => match f x with Some y => y :: omap r | None => omap r end end.
End Omap.

(* _GeneRemover: visit_Name -> None for a target; visit_BoolOp: children that became None are dropped;
   no child left -> None; an And that lost a child -> None; one child left -> that child. *)
Fixpoint tremove (K : Z -> bool) (t : tree) : option tree :=
  match t with
  | TGene i => if K i then None else Some (TGene i)
  | TBool a l =>
      let l' := omap (tremove K) l in
      match l' with
      | [] => None
      | _ => if Nat.ltb (length l') (length l) && a then None
             else match l' with [x] => Some x | _ => Some (TBool a l') end
      end
  end.
Definition remove_rule (K : Z -> bool) (r : rl) : rl := match r with None => None | Some t => tremove K t end.

(* _Renamer.visit_Name: node.id = rename_dict.get(node.id, node.id) *)
Fixpoint dget (d : list (Z * Z)) (i : Z) : Z :=
  match d with [] => i | (k, v) :: r => if k =? i then v else dget r i end.
Fixpoint trename (d : list (Z * Z)) (t : tree) : tree :=
  match t with TGene i => TGene (dget d i) | TBool a l => TBool a (map (trename d) l) end.
Definition rename_rule (d : list (Z * Z)) (r : rl) : rl := option_map (trename d) r.

(* reaction.gene_reaction_rule == "" : no body, or a BoolOp without operands at the top (never produced
   by the parser or the remover; kept so that the model is total and faithful) *)
Definition shown_empty (r : rl) : bool :=
  match r with None => true | Some (TBool _ []) => true | _ => false end.

(* ---------- state ---------- *)
Record st := mkSt {
  rids : list Z;            (* the reaction objects of the history *)
  rin : Z -> bool;          (* reaction._model is the model and it is in model.reactions *)
  rule : Z -> rl;           (* reaction._gpr *)
  rgenes : Z -> list Z;     (* reaction._genes (gene objects) *)
  glist : list Z;           (* model.genes (gene objects) *)
  gid : Z -> Z;             (* gene.id *)
  gback : Z -> Z -> bool;   (* reaction in gene._reaction *)
  gmod : Z -> bool;         (* gene._model is the model (false: None) *)
  nextg : Z                 (* objects >= nextg have not been created yet *)
}.

Definition init (rs : list Z) : st :=
  mkSt rs (fun _ => false) (fun _ => None) (fun _ => []) [] (fun g => g) (fun _ _ => false) (fun _ => false) 0.

Inductive res := Ok | RaiseKeyError | RaiseOther.

(* model.genes.get_by_id / has_id / `in` *)
Definition lookup (s : st) (i : Z) : option Z := find (fun g => gid s g =? i) (glist s).
Definition has_id (s : st) (i : Z) : bool := match lookup s i with Some _ => true | None => false end.
Definition drop (gs : list Z) (l : list Z) : list Z := filter (fun g => negb (memz g gs)) l.

(* Gene(i): a new object without back references and without model *)
Definition new_gene (i : Z) (inmodel : bool) (s : st) : st * Z :=
  let g := nextg s in
  (mkSt (rids s) (rin s) (rule s) (rgenes s) (if inmodel then glist s ++ [g] else glist s)
        (upd (gid s) g i) (upd (gback s) g (fun _ => false)) (upd (gmod s) g inmodel) (g + 1), g).

(* update_genes_from_gpr, first half.  In a model: for every identifier of the rule the model's gene,
   created and appended to model.genes when there is none.  Outside: a fresh Gene per identifier. *)
Definition ensure (inmodel : bool) (i : Z) (s : st) : st * Z :=
  if inmodel then match lookup s i with Some g => (s, g) | None => new_gene i true s end
  else new_gene i false s.
Fixpoint ensure_all (inmodel : bool) (names : list Z) (s : st) : st * list Z :=
  match names with
  | [] => (s, [])
  | i :: r => let '(s1, g) := ensure inmodel i s in
              let '(s2, gs) := ensure_all inmodel r s1 in (s2, g :: gs)
  end.

(* second half: self._genes = new; _associate_gene for every new one (back reference, gene._model =
   reaction._model); _dissociate_gene for every old one that is not new *)
Definition relink (r : Z) (old new : list Z) (inmodel : bool) (s : st) : st :=
  mkSt (rids s) (rin s) (rule s) (upd (rgenes s) r new) (glist s) (gid s)
       (fun g r' => if r' =? r then (if memz g new then true else if memz g old then false else gback s g r')
                    else gback s g r')
       (fun g => if memz g new then inmodel else gmod s g) (nextg s).

Definition update_genes (r : Z) (s : st) : st :=
  let inmodel := rin s r in
  let '(s1, new) := ensure_all inmodel (dedup (genes_of (rule s r))) s in
  relink r (rgenes s r) new inmodel s1.

Definition set_rule_field (r : Z) (t : rl) (s : st) : st :=
  mkSt (rids s) (rin s) (upd (rule s) r t) (rgenes s) (glist s) (gid s) (gback s) (gmod s) (nextg s).
Definition set_rin (r : Z) (b : bool) (s : st) : st :=
  mkSt (rids s) (upd (rin s) r b) (rule s) (rgenes s) (glist s) (gid s) (gback s) (gmod s) (nextg s).
Definition set_glist (l : list Z) (s : st) : st :=
  mkSt (rids s) (rin s) (rule s) (rgenes s) l (gid s) (gback s) (gmod s) (nextg s).

(* reaction.gene_reaction_rule = text  /  reaction.gpr = GPR : the new rule, then update_genes_from_gpr *)
Definition set_rule (r : Z) (t : rl) (s : st) : st := update_genes r (set_rule_field r t s).

(* model.add_reactions([r]): ignored when the identifier is already there; reaction._model = model;
   update_genes_from_gpr; model.reactions += [r] *)
Definition add_rxn (r : Z) (s : st) : st :=
  if rin s r then s else update_genes r (set_rin r true s).

(* len(gene._reaction) == 0 *)
Definition no_back (s : st) (g : Z) : bool := forallb (fun r => negb (gback s g r)) (rids s).

(* the gene loop of model.remove_reactions for one reaction *)
Definition unlink_gene (r : Z) (orphans : bool) (s : st) (g : Z) : st :=
  if gback s g r then
    let s1 := mkSt (rids s) (rin s) (rule s) (rgenes s) (glist s) (gid s)
                   (fun g' r' => if (g' =? g) && (r' =? r) then false else gback s g' r') (gmod s) (nextg s) in
    if orphans && no_back s1 g then set_glist (drop [g] (glist s1)) s1 else s1
  else s.
Definition remove_rxn (r : Z) (orphans : bool) (s : st) : st :=
  if rin s r then fold_left (unlink_gene r orphans) (rgenes s r) (set_rin r false s) else s.

(* model.repair(): every model gene forgets its reactions, every model reaction runs
   update_genes_from_gpr, every model gene gets _model = model *)
Definition model_rxns (s : st) : list Z := filter (rin s) (rids s).
Definition repair (s : st) : st :=
  let s1 := mkSt (rids s) (rin s) (rule s) (rgenes s) (glist s) (gid s)
                 (fun g r => if memz g (glist s) then false else gback s g r) (gmod s) (nextg s) in
  let s2 := fold_left (fun s r => update_genes r s) (model_rxns s) s1 in
  mkSt (rids s2) (rin s2) (rule s2) (rgenes s2) (glist s2) (gid s2) (gback s2)
       (fun g => if memz g (glist s2) then true else gmod s2 g) (nextg s2).

(* remove_genes(model, l, remove_reactions) *)
Fixpoint lookup_all (s : st) (l : list Z) : option (list Z) :=
  match l with
  | [] => Some []
  | i :: r => match lookup s i, lookup_all s r with Some g, Some gs => Some (g :: gs) | _, _ => None end
  end.
Definition is_target (s : st) (K : Z -> bool) (rr : bool) (r : Z) : bool :=
  negb (shown_empty (rule s r)) && (rr && negb (eval_rule K (rule s r))).
Definition is_revisit (s : st) (K : Z -> bool) (rr : bool) (r : Z) : bool :=
  negb (shown_empty (rule s r)) && negb (rr && negb (eval_rule K (rule s r))).
Definition remove_genes (l : list Z) (rr : bool) (s : st) : st * res :=
  match lookup_all s l with
  | None => (s, RaiseKeyError)                      (* get_by_id of an unknown identifier *)
  | Some gs =>
      let K := fun i => memz i l in
      let targets := filter (is_target s K rr) (model_rxns s) in
      let revisit := filter (is_revisit s K rr) (model_rxns s) in
      let s1 := mkSt (rids s) (rin s)
                     (fun r => if memz r revisit then remove_rule K (rule s r) else rule s r)
                     (rgenes s) (drop gs (glist s)) (gid s) (gback s)
                     (fun g => if memz g gs then false else gmod s g) (nextg s) in
      let s2 := fold_left (fun s r => remove_rxn r false s) targets s1 in
      (fold_left (fun s r => update_genes r s) revisit s2, Ok)
  end.

(* rename_genes(model, d): the loop over the dictionary.  acc = (state, genes to remove, genes touched) *)
Definition set_gid (g i : Z) (s : st) : st :=
  mkSt (rids s) (rin s) (rule s) (rgenes s) (glist s) (upd (gid s) g i) (gback s) (gmod s) (nextg s).
Fixpoint rename_loop (d : list (Z * Z)) (s : st) (rem tou : list Z) : st * list Z * list Z :=
  match d with
  | [] => (s, rem, tou)
  | (o, n) :: rest =>
      match lookup s o with
      | None => rename_loop rest s rem tou
      | Some g =>
          match lookup s n with
          | Some g' => if g =? g' then rename_loop rest s rem tou
                       else rename_loop rest s (g :: rem) (g :: tou)
          | None => rename_loop rest (set_gid g n s) rem (g :: tou)
          end
      end
  end.
(* recompute_reactions = union of gene.reactions of the touched genes; _Renamer over their rules *)
Definition rename_rules (d : list (Z * Z)) (recompute : Z -> bool) (s : st) : st :=
  mkSt (rids s) (rin s) (fun r => if recompute r then rename_rule d (rule s r) else rule s r)
       (rgenes s) (glist s) (gid s) (gback s) (gmod s) (nextg s).
(* for i in remove_genes: model.genes.remove(i); i._model = None *)
Definition drop_genes (rem : list Z) (s : st) : st :=
  mkSt (rids s) (rin s) (rule s) (rgenes s) (drop rem (glist s)) (gid s) (gback s)
       (fun g => if memz g rem then false else gmod s g) (nextg s).
Definition rename_genes (d : list (Z * Z)) (s : st) : st :=
  let '(s1, rem, tou) := rename_loop d s [] [] in
  drop_genes rem (repair (rename_rules d (fun r => existsb (fun g => gback s g r) tou) s1)).

(* the repaired rename_genes (fixes/rename-genes-chain.patch; /repo is unchanged): after model.repair() a gene
   marked for removal goes only if no reaction lists it any more.  The check probes which of the two the
   implementation under test is and uses that one. *)
Definition rename_genes_fixed (d : list (Z * Z)) (s : st) : st :=
  let '(s1, rem, tou) := rename_loop d s [] [] in
  let s3 := repair (rename_rules d (fun r => existsb (fun g => gback s g r) tou) s1) in
  drop_genes (filter (no_back s3) rem) s3.

Inductive op :=
| SetRule (r : Z) (t : rl)
| AddRxn (r : Z)
| RemoveRxn (r : Z) (orphans : bool)
| RemoveGenes (l : list Z) (remove_reactions : bool)
| RenameGenes (d : list (Z * Z))
| RenameGenesFixed (d : list (Z * Z))
| Repair.

Definition step (s : st) (o : op) : st * res :=
  match o with
  | SetRule r t => (set_rule r t s, Ok)
  | AddRxn r => (add_rxn r s, Ok)
  | RemoveRxn r orphans => (remove_rxn r orphans s, Ok)
  | RemoveGenes l rr => remove_genes l rr s
  | RenameGenes d => (rename_genes d s, Ok)
  | RenameGenesFixed d => (rename_genes_fixed d s, Ok)
  | Repair => (repair s, Ok)
  end.

Definition run (ops : list op) (s : st) : st := fold_left (fun s o => fst (step s o)) ops s.

(* ---------- `with model:` at SPECIFICATION level (property C03) ----------
   No undo closures are modelled: entering a block saves the state, leaving it puts the saved state back.
   That the implementation does the same for the operations it documents as reversible is what the C03
   check compares (Check.v, code 4).  Gene objects created inside the block are never handed out again. *)
Record cst := mkC { cur : st; saved : list st }.
Inductive cop := Do (o : op) | Enter | Exit.

Definition restore (e s : st) : st :=
  mkSt (rids e) (rin e) (rule e) (rgenes e) (glist e) (gid e) (gback e) (gmod e) (nextg s).

Definition cstep (c : cst) (o : cop) : cst * res :=
  match o with
  | Do o => let '(s, r) := step (cur c) o in (mkC s (saved c), r)
  | Enter => (mkC (cur c) (cur c :: saved c), Ok)
  | Exit => match saved c with e :: rest => (mkC (restore e (cur c)) rest, Ok) | [] => (c, Ok) end
  end.

Definition crun (ops : list cop) (c : cst) : cst := fold_left (fun c o => fst (cstep c o)) ops c.
