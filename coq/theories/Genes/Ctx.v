(* `with model:` at specification level (Model.v `cst`, `cstep`): the invariant also holds along histories with
   blocks, and a closed block gives back the state at its entry.  The second statement is the specification
   itself (Exit is defined as putting the saved state back); that the implementation meets it is what the C03
   check compares on the real objects (Check.v `restored`, code 4). *)
From Coq Require Import ZArith List Bool Lia.
From Cobra.Genes Require Import Model Inv Proofs.
Import ListNotations.
Open Scope Z_scope.

Ltac proj := cbn [rids rin rule rgenes glist gid gback gmod nextg].

(* objects are never handed out twice: the allocation counter never decreases *)
Lemma ensure_all_next : forall b names s s' gs, ensure_all b names s = (s', gs) -> nextg s <= nextg s'.
Proof.
  intros b names. induction names as [|i names IH]; intros s s' gs E; cbn in E.
  - inversion E; lia.
  - destruct (ensure b i s) as [sa g] eqn:Ea. destruct (ensure_all b names sa) as [sb gs'] eqn:Eb.
    inversion E; subst. specialize (IH _ _ _ Eb). unfold ensure, new_gene in Ea.
    destruct b; [destruct (lookup s i)|]; inversion Ea; subst; cbn in *; lia.
Qed.
Lemma update_genes_next : forall r s, nextg s <= nextg (update_genes r s).
Proof.
  intros r s. unfold update_genes. destruct (ensure_all _ _ _) as [s1 new] eqn:E. unfold relink. proj.
  apply (ensure_all_next _ _ _ _ _ E).
Qed.
Lemma updates_next : forall l s, nextg s <= nextg (updates l s).
Proof.
  induction l as [|r l IH]; intros s; cbn; [lia|]. fold (updates l (update_genes r s)).
  specialize (IH (update_genes r s)). pose proof (update_genes_next r s). lia.
Qed.
Lemma remove_rxn_next : forall r orph s, nextg (remove_rxn r orph s) = nextg s.
Proof.
  intros r orph s. unfold remove_rxn. destruct (rin s r); [|reflexivity].
  change (nextg s) with (nextg (set_rin r false s)). generalize (set_rin r false s). generalize (rgenes s r).
  induction l as [|g l IH]; intros s0; cbn; [reflexivity|]. rewrite IH. unfold unlink_gene.
  destruct (gback s0 g r); [|reflexivity]. destruct (orph && _); reflexivity.
Qed.
Lemma removes_next : forall l s, nextg (removes l s) = nextg s.
Proof. induction l as [|r l IH]; intros s; cbn; [reflexivity|]. fold (removes l (remove_rxn r false s)). rewrite IH. apply remove_rxn_next. Qed.
Lemma repair_next : forall s, nextg s <= nextg (repair s).
Proof.
  intros s. unfold repair. cbn [nextg].
  match goal with |- _ <= nextg (fold_left _ ?l ?x) => exact (updates_next l x) end.
Qed.
Lemma rename_loop_next : forall d s rem tou s' rem' tou', rename_loop d s rem tou = (s', rem', tou') -> nextg s' = nextg s.
Proof.
  induction d as [|[o n] d IH]; intros s rem tou s' rem' tou' E; cbn in E.
  - inversion E; reflexivity.
  - destruct (lookup s o) as [g|]; [|apply (IH _ _ _ _ _ _ E)].
    destruct (lookup s n) as [g'|]; [destruct (g =? g'); apply (IH _ _ _ _ _ _ E)|].
    rewrite (IH _ _ _ _ _ _ E). reflexivity.
Qed.

Lemma step_next : forall s o, nextg s <= nextg (fst (step s o)).
Proof.
  intros s o. destruct o as [r t|r|r orph|l rr|d|d|]; cbn [step fst].
  - unfold set_rule. pose proof (update_genes_next r (set_rule_field r t s)) as H. exact H.
  - unfold add_rxn. destruct (rin s r); [lia|]. pose proof (update_genes_next r (set_rin r true s)) as H. exact H.
  - rewrite remove_rxn_next. lia.
  - unfold remove_genes. destruct (lookup_all s l) as [gs|]; [|cbn; lia]. cbn [fst].
    match goal with |- _ <= nextg (fold_left _ ?rv (fold_left _ ?tg ?s1)) =>
      fold (removes tg s1); fold (updates rv (removes tg s1));
      pose proof (updates_next rv (removes tg s1)) as H; rewrite removes_next in H end.
    exact H.
  - unfold rename_genes. destruct (rename_loop d s [] []) as [[s1 rem] tou] eqn:E. unfold drop_genes. proj.
    match goal with |- _ <= nextg (repair ?x) => pose proof (repair_next x) as H; change (nextg x) with (nextg s1) in H end.
    rewrite (rename_loop_next _ _ _ _ _ _ _ E) in H. exact H.
  - unfold rename_genes_fixed. destruct (rename_loop d s [] []) as [[s1 rem] tou] eqn:E. unfold drop_genes. proj.
    match goal with |- _ <= nextg (repair ?x) => pose proof (repair_next x) as H; change (nextg x) with (nextg s1) in H end.
    rewrite (rename_loop_next _ _ _ _ _ _ _ E) in H. exact H.
  - apply repair_next.
Qed.

(* the invariant with blocks: the current state and every saved state are consistent *)
Definition CInv (c : cst) : Prop :=
  GInv (cur c) /\ Forall (fun e => GInv e /\ nextg e <= nextg (cur c)) (saved c).

Definition cop_ok (c : cst) (o : cop) : Prop := match o with Do o => op_ok (cur c) o | _ => True end.

Lemma restore_GInv : forall e s, GInv e -> nextg e <= nextg s -> GInv (restore e s).
Proof.
  intros e s [[B1 B2 B3 B4 B5 B6] HD] Hle. split.
  - constructor; unfold restore; proj; try assumption.
    + intros g Hg. specialize (B3 g Hg). lia.
    + intros r g Hg. specialize (B4 r g Hg). lia.
  - intros r _ Hr. unfold restore in Hr. cbn [rin] in Hr. apply (HD r I Hr).
Qed.

Theorem cstep_CInv : forall c o, CInv c -> cop_ok c o -> CInv (fst (cstep c o)).
Proof.
  intros [s st0] o [H1 H2] Hok. unfold CInv. cbn [cur saved] in *. destruct o as [o| |]; cbn [cstep cop_ok cur saved] in *.
  - destruct (step s o) as [s' r] eqn:E. cbn [fst cur saved].
    assert (Es : s' = fst (step s o)) by (rewrite E; reflexivity). split.
    + rewrite Es. apply step_GInv; assumption.
    + eapply Forall_impl; [|exact H2]. intros e [G L]. split; [exact G|]. pose proof (step_next s o). rewrite Es. cbn [cur]. lia.
  - cbn [fst cur saved]. split; [exact H1|]. constructor; [split; [exact H1|lia]|exact H2].
  - destruct st0 as [|e rest]; cbn [fst cur saved]; [split; assumption|].
    inversion H2 as [|? ? [G L] Hrest]; subst. split.
    + apply restore_GInv; assumption.
    + eapply Forall_impl; [|exact Hrest]. intros e' [G' L']. split; [exact G'|]. unfold restore. cbn [nextg]. exact L'.
Qed.

Fixpoint cok_run (c : cst) (ops : list cop) : Prop :=
  match ops with [] => True | o :: ops' => cop_ok c o /\ cok_run (fst (cstep c o)) ops' end.

Theorem crun_CInv : forall ops c, CInv c -> cok_run c ops -> CInv (crun ops c).
Proof.
  induction ops as [|o ops IH]; intros c H Hok; cbn [crun fold_left cok_run] in *; [exact H|].
  destruct Hok as [A B]. apply (IH (fst (cstep c o))); [apply cstep_CInv; assumption|exact B].
Qed.

(* a well-bracketed piece of history leaves the stack of saved states as it found it ... *)
Fixpoint balanced (d : nat) (ops : list cop) : bool :=
  match ops with
  | [] => Nat.eqb d 0
  | Enter :: r => balanced (S d) r
  | Exit :: r => match d with O => false | S d' => balanced d' r end
  | Do _ :: r => balanced d r
  end.

Lemma crun_saved : forall ops d c, balanced d ops = true -> (d <= length (saved c))%nat ->
  saved (crun ops c) = skipn d (saved c).
Proof.
  induction ops as [|o ops IH]; intros d c Hb Hd; cbn [crun fold_left].
  - cbn in Hb. apply Nat.eqb_eq in Hb. subst. reflexivity.
  - fold (crun ops (fst (cstep c o))). destruct o as [o| |]; cbn [balanced] in Hb.
    + rewrite (IH d); [|exact Hb|]; cbn [cstep]; destruct (step (cur c) o); cbn [fst saved]; [reflexivity|exact Hd].
    + rewrite (IH (S d)); [|exact Hb|]; cbn [cstep fst saved]; [reflexivity|cbn; lia].
    + destruct d as [|d']; [discriminate|]. destruct c as [s [|e rest]]; cbn [saved length] in Hd; [lia|].
      rewrite (IH d'); [|exact Hb|]; cbn [cstep fst saved]; [reflexivity|lia].
Qed.

Lemma crun_app : forall a b c, crun (a ++ b) c = crun b (crun a c).
Proof. intros. unfold crun. apply fold_left_app. Qed.

(* ... so a block `Enter; ops; Exit` with well-bracketed ops ends in the state saved at its entry (objects created
   inside are not handed out again) on top of the same enclosing blocks: the specification the implementation is
   compared with *)
Theorem block_restores : forall ops c, balanced 0 ops = true ->
  crun (Enter :: ops ++ [Exit]) c =
  mkC (restore (cur c) (cur (crun ops (mkC (cur c) (cur c :: saved c))))) (saved c).
Proof.
  intros ops c Hb. change (Enter :: ops ++ [Exit]) with ([Enter] ++ ops ++ [Exit]). rewrite !crun_app.
  change (crun [Enter] c) with (mkC (cur c) (cur c :: saved c)).
  set (c1 := mkC (cur c) (cur c :: saved c)).
  pose proof (crun_saved ops 0 c1 Hb (Nat.le_0_l _)) as Hs. cbn [skipn] in Hs.
  destruct (crun ops c1) as [s2 st2] eqn:E. cbn [saved] in Hs. subst st2. reflexivity.
Qed.
