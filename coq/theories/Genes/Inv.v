(* The gene clauses of C02 as an invariant of the genes kernel, the conditions on operations, and the
   basic facts about look-ups, rules and dictionaries the proofs use. *)
From Coq Require Import ZArith List Bool Lia.
From Cobra.Genes Require Import Model.
Import ListNotations.
Open Scope Z_scope.

(* ---------- the invariant ---------- *)
(* Clauses that do not single out a reaction. *)
Record Base (s : st) : Prop := mkBase {
  b_ids : NoDup (map (gid s) (glist s));                        (* identifiers are unique *)
  b_univ : forall r, rin s r = true -> In r (rids s);
  b_fresh : forall g, In g (glist s) -> g < nextg s;            (* objects not yet created are nowhere *)
  b_rfresh : forall r g, In g (rgenes s r) -> g < nextg s;
  b_mod : forall g, In g (glist s) -> gmod s g = true;          (* a listed gene belongs to the model *)
  (* a gene of the model lists a reaction only if the reaction is in the model and lists the gene *)
  b_bwd : forall g r, In g (glist s) -> gback s g r = true -> rin s r = true /\ In g (rgenes s r) }.

(* Clauses about one reaction: every gene it lists is in the model and lists the reaction; the
   identifiers of its genes are exactly those of its rule; no gene twice. *)
Definition Good (s : st) (r : Z) : Prop :=
  (forall g, In g (rgenes s r) -> In g (glist s) /\ gback s g r = true) /\
  (forall i, In i (map (gid s) (rgenes s r)) <-> In i (genes_of (rule s r))) /\
  NoDup (rgenes s r).

(* `Part s D`: the reactions in D are good (the others may be in transit inside an operation). *)
Definition Part (s : st) (D : Z -> Prop) : Prop :=
  Base s /\ forall r, D r -> rin s r = true -> Good s r.

Definition GInv (s : st) : Prop := Part s (fun _ => True).

(* ---------- conditions on operations (boolean; the generator's histories satisfy them, except the
   dictionaries with a value that is also another key, on which rename_genes breaks the invariant) ---------- *)
Definition keys (d : list (Z * Z)) : list Z := map fst d.
Fixpoint nodupb (l : list Z) : bool := match l with [] => true | x :: r => negb (memz x r) && nodupb r end.
(* no value is a different key *)
Definition no_chain (d : list (Z * Z)) : bool :=
  forallb (fun kv => negb (memz (snd kv) (keys d)) || (snd kv =? fst kv)) d.
Definition op_okb (s : st) (o : op) : bool :=
  match o with
  | SetRule r _ | AddRxn r | RemoveRxn r _ => memz r (rids s)
  | RemoveGenes _ _ | Repair => true
  | RenameGenesFixed d => nodupb (keys d)
  | RenameGenes d => nodupb (keys d) && no_chain d        (* keys of a Python dict are distinct *)
  end.
Definition op_ok (s : st) (o : op) : Prop := op_okb s o = true.

(* ---------- small facts ---------- *)
Lemma memz_In : forall z l, memz z l = true <-> In z l.
Proof.
  intros z l. unfold memz. rewrite existsb_exists. split.
  - intros [x [Hx He]]. apply Z.eqb_eq in He. subst. exact Hx.
  - intros H. exists z. split; [exact H|apply Z.eqb_refl].
Qed.
Lemma memz_false : forall z l, memz z l = false <-> ~ In z l.
Proof.
  intros z l. rewrite <- memz_In. destruct (memz z l); split; intro H.
  - discriminate.
  - exfalso. apply H. reflexivity.
  - intro H'. discriminate.
  - reflexivity.
Qed.

Lemma nodupb_NoDup : forall l, nodupb l = true <-> NoDup l.
Proof.
  induction l as [|x l IH]; cbn.
  - split; intros; [constructor|reflexivity].
  - rewrite andb_true_iff, negb_true_iff, memz_false, IH. split.
    + intros [H1 H2]. constructor; assumption.
    + intros H. inversion H; subst. split; assumption.
Qed.

Lemma upd_same : forall A (f : Z -> A) k v, upd f k v k = v.
Proof. intros. unfold upd. rewrite Z.eqb_refl. reflexivity. Qed.
Lemma upd_other : forall A (f : Z -> A) k v k', k' <> k -> upd f k v k' = f k'.
Proof. intros. unfold upd. destruct (Z.eqb_spec k' k); [contradiction|reflexivity]. Qed.

Lemma dedup_In : forall i l, In i (dedup l) <-> In i l.
Proof. intros. unfold dedup. apply nodup_In. Qed.
Lemma dedup_NoDup : forall l, NoDup (dedup l).
Proof. intros. unfold dedup. apply NoDup_nodup. Qed.

Lemma drop_In : forall g gs l, In g (drop gs l) <-> In g l /\ ~ In g gs.
Proof. intros. unfold drop. rewrite filter_In, negb_true_iff, memz_false. tauto. Qed.

Lemma NoDup_map_filter : forall (f : Z -> Z) (p : Z -> bool) l, NoDup (map f l) -> NoDup (map f (filter p l)).
Proof.
  induction l as [|x l IH]; cbn; intros H; [constructor|].
  inversion H as [|? ? Hn Hd]; subst. destruct (p x); cbn; [constructor|]; auto.
  intros Hin. apply Hn. apply in_map_iff in Hin as [y [E Hy]]. apply filter_In in Hy as [Hy _].
  apply in_map_iff. exists y. split; assumption.
Qed.

Lemma NoDup_map_inj : forall (f : Z -> Z) l a b, NoDup (map f l) -> In a l -> In b l -> f a = f b -> a = b.
Proof.
  induction l as [|x l IH]; cbn; intros a b H Ha Hb E; [contradiction|].
  inversion H as [|? ? Hn Hd]; subst.
  destruct Ha as [Ha|Ha], Hb as [Hb|Hb]; subst; auto.
  - exfalso. apply Hn. rewrite E. apply in_map. exact Hb.
  - exfalso. apply Hn. rewrite <- E. apply in_map. exact Ha.
Qed.

Lemma NoDup_map_NoDup : forall (f : Z -> Z) l, NoDup (map f l) -> NoDup l.
Proof.
  induction l as [|x l IH]; cbn; intros H; [constructor|].
  inversion H; subst. constructor; auto. intros Hin. apply H2. apply in_map. exact Hin.
Qed.

Lemma NoDup_snoc : forall (l : list Z) x, NoDup l -> ~ In x l -> NoDup (l ++ [x]).
Proof.
  induction l as [|y l IH]; cbn; intros x Hn Hx.
  - constructor; [intros []|constructor].
  - inversion Hn; subst. constructor.
    + intros Hin. apply in_app_or in Hin as [Hin|[Hin|[]]]; [contradiction|]. subst. apply Hx. left. reflexivity.
    + apply IH; [assumption|]. intros Hin. apply Hx. right. exact Hin.
Qed.

(* look-ups *)
Lemma lookup_some : forall s i g, lookup s i = Some g -> In g (glist s) /\ gid s g = i.
Proof. intros s i g H. unfold lookup in H. apply find_some in H as [H1 H2]. apply Z.eqb_eq in H2. auto. Qed.
Lemma lookup_none : forall s i, lookup s i = None -> forall g, In g (glist s) -> gid s g <> i.
Proof. intros s i H g Hg E. unfold lookup in H. apply (find_none _ _ H) in Hg. apply Z.eqb_neq in Hg. auto. Qed.
Lemma lookup_self : forall s g, NoDup (map (gid s) (glist s)) -> In g (glist s) -> lookup s (gid s g) = Some g.
Proof.
  intros s g Hn Hg. destruct (lookup s (gid s g)) as [g'|] eqn:E.
  - apply lookup_some in E as [H1 H2]. f_equal. eapply NoDup_map_inj; eauto.
  - exfalso. exact (lookup_none _ _ E g Hg eq_refl).
Qed.

(* rules *)
Section TreeInd.
  Variable P : tree -> Prop.
  Hypothesis Hg : forall i, P (TGene i).
  Hypothesis Hb : forall a l, Forall P l -> P (TBool a l).
  Fixpoint tree_ind' (t : tree) : P t :=
    match t with
    | TGene i => Hg i
    | TBool a l => Hb a l ((fix go (l : list tree) : Forall P l :=
                              match l with [] => Forall_nil _ | x :: r => Forall_cons _ (tree_ind' x) (go r) end) l)
    end.
End TreeInd.

Lemma tgenes_rename : forall d t, tgenes (trename d t) = map (dget d) (tgenes t).
Proof.
  intros d t. induction t as [i|a l IH] using tree_ind'; cbn; [reflexivity|].
  induction IH as [|x l Hx _ IHl]; cbn; [reflexivity|]. rewrite map_app, Hx, IHl. reflexivity.
Qed.
Lemma genes_of_rename : forall d r, genes_of (rename_rule d r) = map (dget d) (genes_of r).
Proof. intros d [t|]; cbn; [apply tgenes_rename|reflexivity]. Qed.

Lemma omap_In : forall A B (f : A -> option B) l y, In y (omap f l) -> exists x, In x l /\ f x = Some y.
Proof.
  induction l as [|x l IH]; cbn; intros y H; [contradiction|].
  destruct (f x) as [z|] eqn:E.
  - destruct H as [H|H]; [subst; exists x; auto|]. destruct (IH _ H) as [x' [H1 H2]]. exists x'. auto.
  - destruct (IH _ H) as [x' [H1 H2]]. exists x'. auto.
Qed.

(* what the remover leaves names only genes of the old rule that are not removed *)
Lemma tremove_genes : forall K t t', tremove K t = Some t' -> forall i, In i (tgenes t') -> In i (tgenes t) /\ K i = false.
Proof.
  intros K t. induction t as [j|a l IH] using tree_ind'; intros t' H i Hi.
  - cbn in H. destruct (K j) eqn:E; [discriminate|]. inversion H; subst. cbn in Hi. destruct Hi as [Hi|[]]. subst.
    split; [left; reflexivity|exact E].
  - cbn [tremove] in H.
    assert (Hall : forall y, In y (omap (tremove K) l) -> forall i, In i (tgenes y) -> In i (tgenes (TBool a l)) /\ K i = false).
    { intros y Hy k Hk. apply omap_In in Hy as [x [Hx Ex]]. rewrite Forall_forall in IH.
      destruct (IH x Hx _ Ex k Hk) as [H1 H2]. split; [|exact H2]. cbn. apply in_flat_map. exists x. auto. }
    destruct (omap (tremove K) l) as [|y1 l1] eqn:El; [discriminate|].
    destruct (Nat.ltb (length (y1 :: l1)) (length l) && a); [discriminate|].
    destruct l1 as [|y2 l2].
    + inversion H; subst. apply (Hall t'); [left; reflexivity|exact Hi].
    + inversion H; subst. cbn [tgenes] in Hi. apply in_flat_map in Hi as [y [Hy Hk]]. exact (Hall y Hy i Hk).
Qed.
Lemma remove_rule_genes : forall K r i, In i (genes_of (remove_rule K r)) -> In i (genes_of r) /\ K i = false.
Proof.
  intros K [t|] i H; cbn in *; [|contradiction].
  destruct (tremove K t) as [t'|] eqn:E; cbn in H; [|contradiction]. exact (tremove_genes K t t' E i H).
Qed.

Lemma shown_empty_genes : forall r, shown_empty r = true -> genes_of r = [].
Proof. intros [[i|a [|x l]]|]; cbn; intros H; try discriminate; reflexivity. Qed.

(* dictionaries *)
Lemma dget_notkey : forall d i, ~ In i (keys d) -> dget d i = i.
Proof.
  induction d as [|[k v] d IH]; cbn; intros i H; [reflexivity|].
  destruct (Z.eqb_spec k i); [exfalso; apply H; left; assumption|]. apply IH. intros Hi. apply H. right. exact Hi.
Qed.
Lemma dget_key : forall d i, In i (keys d) -> In (i, dget d i) d.
Proof.
  induction d as [|[k v] d IH]; cbn; intros i H; [contradiction|].
  destruct (Z.eqb_spec k i); [subst; left; reflexivity|]. destruct H as [H|H]; [contradiction|]. right. apply IH, H.
Qed.
Lemma dget_pair : forall d k v, NoDup (keys d) -> In (k, v) d -> dget d k = v.
Proof.
  induction d as [|[k' v'] d IH]; cbn; intros k v Hn H; [contradiction|].
  inversion Hn as [|? ? Hnk Hd]; subst.
  destruct H as [H|H].
  - inversion H; subst. rewrite Z.eqb_refl. reflexivity.
  - destruct (Z.eqb_spec k' k); [subst; exfalso; apply Hnk; apply in_map_iff; exists (k, v); auto|]. apply IH; assumption.
Qed.
Lemma no_chain_spec : forall d, no_chain d = true -> forall k v, In (k, v) d -> In v (keys d) -> v = k.
Proof.
  intros d H k v Hkv Hv. unfold no_chain in H. rewrite forallb_forall in H. specialize (H _ Hkv). cbn in H.
  apply orb_true_iff in H as [H|H].
  - apply negb_true_iff, memz_false in H. contradiction.
  - apply Z.eqb_eq in H. exact H.
Qed.

(* init *)
Lemma init_GInv : forall rs, GInv (init rs).
Proof.
  intros rs. split.
  - constructor; cbn; intros; try contradiction; try discriminate. constructor.
  - intros r _ H. cbn in H. discriminate.
Qed.
