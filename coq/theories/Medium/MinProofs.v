(* Proofs about the minimal_medium model (C18, second half). *)
From Coq Require Import QArith List Bool Lia Lqa.
From Cobra.LP Require Import Defs Cert Fba.
From Cobra.Medium Require Import Model Proofs MinMedium.
Import ListNotations.
Open Scope Q_scope.

(* ---------- feasibility of the LP cobrapy builds ---------- *)
Lemma mm_feasible_iff m ex t x :
  feasible (mm_lp m ex t) x <-> feasible (split_lp m) x /\ t <= dot (dup (cvec m)) x.
Proof.
  unfold feasible, mm_lp. cbn [vbounds rows]. rewrite Forall_app. split.
  - intros [Hb [Hr Hg]]. inversion Hg as [|g l Hg' _]; subst. unfold row_ok, inb in Hg'. cbn in Hg'. tauto.
  - intros [[Hb Hr] Hg]. repeat split; auto. constructor; [|constructor]. unfold row_ok, inb. cbn. tauto.
Qed.

Lemma value_mm m ex t x : value (mm_lp m ex t) x == - dot (imp_flat ex) x.
Proof. unfold value, mm_lp. cbn [obj]. apply dot_vopp. Qed.

Lemma split_nonneg lb ub f r : valid lb ub ->
  inb (fst (split_bounds lb ub)) f -> inb (snd (split_bounds lb ub)) r -> 0 <= f /\ 0 <= r.
Proof.
  unfold valid, split_bounds, inb. intros [Hle [Hl Hu]].
  destruct (epos lb) eqn:E1; [|destruct (eneg ub) eqn:E2]; cbn [fst snd];
    destruct lb as [|l|]; destruct ub as [|u|]; cbn in *; try congruence; try tauto; qb;
    intros [? ?] [? ?]; split; lra.
Qed.

Definition nonneg2 (fr : Q * Q) : Prop := 0 <= fst fr /\ 0 <= snd fr.

Lemma split_feasible_nonneg rs : forall zs,
  Forall (fun r => valid (rx_lb r) (rx_ub r)) rs ->
  Forall2 inb (flat_bounds (map (fun r => split_bounds (rx_lb r) (rx_ub r)) rs)) (flat zs) ->
  Forall nonneg2 zs.
Proof.
  induction rs as [|r rs IH]; intros zs Hv H; cbn in *.
  - destruct zs as [|[f r0] zs]; cbn in *; [constructor|inversion H].
  - inversion Hv as [|r' rs' V Hv']; subst.
    destruct (split_bounds (rx_lb r) (rx_ub r)) as [fb rb] eqn:E.
    destruct zs as [|[f r0] zs]; cbn in *; [inversion H|].
    inversion H as [|b1 x1 l1 l1' Hf H1]; subst. inversion H1 as [|b2 x2 l2 l2' Hr H2]; subst.
    constructor; [|apply IH; assumption].
    apply (split_nonneg _ _ _ _ V); rewrite E; assumption.
Qed.

Lemma qpos_le_of x y : 0 <= y -> x <= y -> qpos x <= y.
Proof. unfold qpos. destruct (Qle_bool 0 x); intros; lra. Qed.

Lemma imp_ge ex : forall zs, Forall nonneg2 zs -> total_import ex (nets zs) <= dot (imp_flat ex) (flat zs).
Proof.
  induction ex as [|e ex IH]; intros zs H; [cbn; lra|].
  destruct zs as [|[f r] zs].
  - destruct e as [[|]|]; cbn; lra.
  - inversion H as [|fr zs' [Hf Hr] H']; subst. cbn in Hf, Hr. specialize (IH zs H').
    destruct e as [[|]|]; cbn [total_import nets map imp_flat flat dot fst snd imp]; fold (nets zs).
    + assert (qpos (- (f - r)) <= r) by (apply qpos_le_of; lra). lra.
    + assert (qpos (f - r) <= f) by (apply qpos_le_of; lra). lra.
    + lra.
Qed.

Lemma imp_canon ex : forall v, dot (imp_flat ex) (flat (splits v)) == total_import ex v.
Proof.
  induction ex as [|e ex IH]; intros v; [reflexivity|].
  destruct v as [|x v].
  - destruct e as [[|]|]; reflexivity.
  - specialize (IH v). destruct e as [[|]|]; cbn [total_import splits map imp_flat flat dot imp];
      fold (splits v); rewrite IH; lra.
Qed.

(* ---------- min_medium_lp ---------- *)
Theorem min_medium_lp m ex t zs : valid_model m -> is_opt (mm_lp m ex t) (flat zs) ->
  let v := nets zs in
  feasible (net_lp m) v /\ t <= dot (cvec m) v /\
  dot (imp_flat ex) (flat zs) == total_import ex v /\
  forall v', feasible (net_lp m) v' -> t <= dot (cvec m) v' -> total_import ex v <= total_import ex v'.
Proof.
  intros Hv [Hf Hopt]. cbn zeta.
  apply mm_feasible_iff in Hf as [Hs Hg].
  destruct (split_to_net m zs Hv Hs) as [Hn _].
  rewrite dot_dup in Hg.
  assert (NN : Forall nonneg2 zs) by (destruct Hs as [Hb _]; eapply split_feasible_nonneg; eauto).
  pose proof (imp_ge ex zs NN) as GE.
  assert (LE : forall v', feasible (net_lp m) v' -> t <= dot (cvec m) v' ->
                          dot (imp_flat ex) (flat zs) <= total_import ex v').
  { intros v' Hn' Hg'. destruct (net_to_split m v' Hv Hn') as [Hs' _].
    assert (F' : feasible (mm_lp m ex t) (flat (splits v'))).
    { apply mm_feasible_iff. split; [exact Hs'|]. rewrite dot_dup.
      rewrite (dot_ext _ _ _ (nets_splits v')). exact Hg'. }
    specialize (Hopt _ F'). rewrite !value_mm in Hopt. rewrite imp_canon in Hopt. lra. }
  split; [exact Hn|]. split; [exact Hg|]. split.
  - specialize (LE _ Hn Hg). lra.
  - intros v' Hn' Hg'. specialize (LE _ Hn' Hg'). lra.
Qed.

(* the objective is bounded: the problem is never unbounded *)
Theorem mm_bounded m ex t x : valid_model m -> feasible (mm_lp m ex t) x -> value (mm_lp m ex t) x <= 0.
Proof.
  intros Hv Hf. apply mm_feasible_iff in Hf as [[Hb Hr] _]. rewrite value_mm.
  assert (S : exists zs, x = flat zs).
  { clear - Hb. cbn in Hb. revert x Hb.
    generalize (map (fun r => split_bounds (rx_lb r) (rx_ub r)) (rxns m)) as bs.
    induction bs as [|[fb rb] bs IH]; intros x H; cbn in H.
    - inversion H. exists []. reflexivity.
    - inversion H as [|b1 x1 l1 l1' Hf H1]; subst. inversion H1 as [|b2 x2 l2 l2' Hr' H2]; subst.
      destruct (IH _ H2) as [zs ->]. exists ((x1, x2) :: zs). reflexivity. }
  destruct S as [zs ->].
  assert (NN : Forall nonneg2 zs) by (eapply split_feasible_nonneg; eauto).
  clear - NN. revert zs NN. induction ex as [|e ex IH]; intros zs NN; [cbn; lra|].
  destruct zs as [|[f r] zs]; [destruct e as [[|]|]; cbn; lra|].
  inversion NN as [|fr zs' [Hf Hr'] NN']; subst. cbn in Hf, Hr'. specialize (IH zs NN').
  destruct e as [[|]|]; cbn [imp_flat flat dot]; lra.
Qed.

Lemma flat_shape bs : forall x, Forall2 inb (flat_bounds bs) x -> exists zs, x = flat zs.
Proof.
  induction bs as [|[fb rb] bs IH]; intros x H; cbn in H.
  - inversion H. exists []. reflexivity.
  - inversion H as [|b1 x1 l1 l1' Hf H1]; subst. inversion H1 as [|b2 x2 l2 l2' Hr' H2]; subst.
    destruct (IH _ H2) as [zs ->]. exists ((x1, x2) :: zs). reflexivity.
Qed.

(* None is returned (status not optimal) exactly when no flux distribution within the current bounds
   reaches the requested objective value                                                      *)
Theorem min_medium_none m ex t : valid_model m ->
  (infeasible (mm_lp m ex t) <-> ~ exists v, feasible (net_lp m) v /\ t <= dot (cvec m) v).
Proof.
  intros Hv. split.
  - intros Hi [v [Hn Hg]]. destruct (net_to_split m v Hv Hn) as [Hs _].
    apply (Hi (flat (splits v))). apply mm_feasible_iff. split; [exact Hs|].
    rewrite dot_dup. rewrite (dot_ext _ _ _ (nets_splits v)). exact Hg.
  - intros Hn x Hf. apply mm_feasible_iff in Hf as [Hs Hg].
    destruct (flat_shape _ _ (proj1 Hs)) as [zs ->].
    destruct (split_to_net m zs Hv Hs) as [Hnf _]. rewrite dot_dup in Hg. apply Hn. eauto.
Qed.

(* ---------- the returned medium is sufficient ---------- *)
Definition med_of (e : option bool) (x : Q) : option Q :=
  match e with Some b => if Qlt_b 0 (imp b x) then Some (imp b x) else None | None => None end.

Lemma med_rxn_keeps e r x : valid (rx_lb r) (rx_ub r) -> inb (rx_lb r, rx_ub r) x ->
  exists r', med_rxn e r (med_of e x) = Some r' /\ inb (rx_lb r', rx_ub r') x /\
             rx_col r' = rx_col r /\ rx_obj r' = rx_obj r /\ valid (rx_lb r') (rx_ub r').
Proof.
  unfold valid, inb, med_rxn, med_of, xr_of, close_rxn, set_active_bound, set_lower, set_upper, Qlt_b, imp.
  intros [Hle [Hl Hu]] [H1 H2]. cbn [fst snd] in *.
  destruct e as [[|]|]; cbn [x_exch x_react x_prod x_lb x_ub negb andb];
    destruct (rx_lb r) as [|l|], (rx_ub r) as [|u|]; cbn in *; try congruence; try tauto;
    repeat match goal with
           | |- context [Qle_bool ?a ?b] => let E := fresh "E" in destruct (Qle_bool a b) eqn:E; cbn
           end;
    qb; try (exfalso; lra);
    (eexists; split; [reflexivity|]; cbn; repeat split; auto; try congruence; try lra).
Qed.

Lemma assoc_app i l1 l2 : assoc i (l1 ++ l2) = match assoc i l1 with Some b => Some b | None => assoc i l2 end.
Proof.
  induction l1 as [|[j b] l1 IH]; cbn; [reflexivity|]. destruct (Nat.eqb i j); [reflexivity|exact IH].
Qed.

Lemma assoc_as_medium_lt ex : forall v i0 i exports, (i < i0)%nat -> assoc i (as_medium_from i0 exports ex v) = None.
Proof.
  induction ex as [|e ex IH]; intros v i0 i exports Hlt; [reflexivity|].
  destruct v as [|x v]; [reflexivity|]. cbn [as_medium_from]. rewrite assoc_app.
  rewrite (IH v (S i0) i exports) by lia.
  destruct e as [b|]; [|reflexivity].
  destruct (Qeq_bool x 0); [reflexivity|].
  destruct (exports || Qlt_b 0 (imp b x)); [|reflexivity].
  cbn. destruct (Nat.eqb i i0) eqn:E; [apply Nat.eqb_eq in E; lia|reflexivity].
Qed.

Lemma assoc_head e x i0 ex v :
  assoc i0 (as_medium_from i0 false (e :: ex) (x :: v)) = med_of e x.
Proof.
  cbn [as_medium_from]. rewrite assoc_app. rewrite assoc_as_medium_lt by lia.
  unfold med_of. destruct e as [b|]; [|reflexivity].
  destruct (Qeq_bool x 0) eqn:E0.
  - cbn. apply Qeq_bool_iff in E0. unfold Qlt_b.
    assert (Qle_bool (imp b x) 0 = true) by (apply Qle_bool_iff; unfold imp; destruct b; lra).
    now rewrite H.
  - cbn [orb]. destruct (Qlt_b 0 (imp b x)); cbn; [now rewrite Nat.eqb_refl|reflexivity].
Qed.

Lemma apply_from_ext ex : forall rs i1 mu mu',
  (forall i, (i1 <= i)%nat -> assoc i mu = assoc i mu') -> apply_from i1 ex rs mu = apply_from i1 ex rs mu'.
Proof.
  induction ex as [|e ex IH]; intros rs i1 mu mu' H; [reflexivity|].
  destruct rs as [|r rs]; [reflexivity|]. cbn. rewrite (H i1) by lia.
  rewrite (IH rs (S i1) mu mu'); [reflexivity|]. intros i Hi. apply H. lia.
Qed.

Lemma apply_from_keeps ex : forall rs v i0,
  Forall (fun r => valid (rx_lb r) (rx_ub r)) rs ->
  Forall2 inb (map (fun r => (rx_lb r, rx_ub r)) rs) v -> length ex = length rs ->
  exists rs', apply_from i0 ex rs (as_medium_from i0 false ex v) = Some rs' /\
              Forall2 inb (map (fun r => (rx_lb r, rx_ub r)) rs') v /\
              map rx_col rs' = map rx_col rs /\ map rx_obj rs' = map rx_obj rs /\
              Forall (fun r => valid (rx_lb r) (rx_ub r)) rs'.
Proof.
  induction ex as [|e ex IH]; intros rs v i0 Hv Hb Hlen.
  - destruct rs; [|discriminate]. exists []. cbn. inversion Hb; subst. repeat split; constructor.
  - destruct rs as [|r rs]; [discriminate|]. cbn in Hlen. injection Hlen as Hlen.
    cbn in Hb. inversion Hb as [|b x l v' Hx Hb']; subst.
    inversion Hv as [|r0 rs0 V Hv']; subst.
    destruct (med_rxn_keeps e r x V Hx) as [r' [E1 [I1 [C1 [O1 V1]]]]].
    destruct (IH rs v' (S i0) Hv' Hb' Hlen) as [rs' [E2 [I2 [C2 [O2 V2]]]]].
    exists (r' :: rs'). cbn [apply_from]. rewrite assoc_head, E1.
    rewrite (apply_from_ext ex rs (S i0) _ (as_medium_from (S i0) false ex v')).
    + rewrite E2. repeat split; cbn; try constructor; auto; congruence.
    + intros i Hi. cbn [as_medium_from]. rewrite assoc_app.
      destruct e as [b|]; [|reflexivity].
      destruct (Qeq_bool x 0); [reflexivity|].
      destruct (false || Qlt_b 0 (imp b x)); [|reflexivity].
      cbn. destruct (Nat.eqb i i0) eqn:E; [apply Nat.eqb_eq in E; lia|reflexivity].
Qed.

Theorem medium_sufficient m ex v : valid_model m -> length ex = length (rxns m) -> feasible (net_lp m) v ->
  exists m', apply_medium m ex (as_medium false ex v) = Some m' /\
             feasible (net_lp m') v /\ cvec m' = cvec m /\ valid_model m'.
Proof.
  intros Hv Hlen [Hb Hr]. cbn in Hb.
  destruct (apply_from_keeps ex (rxns m) v 0 Hv Hb Hlen) as [rs' [E [I [C [O V]]]]].
  exists (mkFba (nmets m) rs' (maximize m)). unfold apply_medium, as_medium. rewrite E.
  split; [reflexivity|]. split; [|split; [exact O|exact V]].
  assert (R : forall i, met_row rs' i = met_row (rxns m) i).
  { intros i. unfold met_row. rewrite <- (map_map rx_col (fun c => nth i c 0)).
    rewrite <- (map_map rx_col (fun c => nth i c 0) (rxns m)). now rewrite C. }
  split; [exact I|]. unfold net_lp in *. cbn [rows rxns nmets] in *.
  rewrite Forall_forall in *. intros rw Hin. apply in_map_iff in Hin as [i [E' Hi]]. subst rw.
  rewrite R. apply Hr. apply in_map_iff. exists i. auto.
Qed.

(* ---------- exhaustive subset enumeration is sound ---------- *)
Definition bit (e : option bool) (x : Q) : bool :=
  match e with Some b => Qlt_b 0 (imp b x) | None => false end.

Lemma restrict_sound e k r x :
  inb (rx_lb (restrict_rxn e k r), rx_ub (restrict_rxn e k r)) x ->
  inb (rx_lb r, rx_ub r) x /\ (bit e x = true -> k = true).
Proof.
  unfold restrict_rxn, inb, bit, Qlt_b, imp. destruct e as [[|]|], k; cbn [fst snd rx_lb rx_ub];
    destruct (rx_lb r) as [|l|], (rx_ub r) as [|u|]; cbn;
    repeat match goal with
           | |- context [Qle_bool ?a ?b] => let E := fresh "E" in destruct (Qle_bool a b) eqn:E; cbn
           end;
    intros [H1 H2]; qb;
    (split; [split; try tauto; try lra
            |intros Hbit; try reflexivity; try discriminate; exfalso; lra]).
Qed.

Lemma restrict_complete e r x :
  inb (rx_lb r, rx_ub r) x -> inb (rx_lb (restrict_rxn e (bit e x) r), rx_ub (restrict_rxn e (bit e x) r)) x.
Proof.
  unfold restrict_rxn, inb, bit, Qlt_b, imp. destruct e as [[|]|]; cbn [fst snd]; try tauto; intros [H1 H2].
  - destruct (Qle_bool (- x) 0) eqn:E; cbn [negb rx_lb rx_ub]; [|tauto]. qb.
    split; [|assumption]. destruct (eneg (rx_lb r)); [cbn; lra|assumption].
  - destruct (Qle_bool x 0) eqn:E; cbn [negb rx_lb rx_ub]; [|tauto]. qb.
    split; [assumption|]. destruct (epos (rx_ub r)); [cbn; lra|assumption].
Qed.

Definition below (p a : list bool) : Prop := Forall2 (fun x k => x = true -> k = true) p a.

Lemma card_below p : forall a, below p a -> (card p <= card a)%nat.
Proof.
  unfold card. induction p as [|x p IH]; intros a H; inversion H as [|x' k p' a' Hk H']; subst; cbn; [lia|].
  specialize (IH _ H'). destruct x; cbn.
  - rewrite (Hk eq_refl). cbn. lia.
  - destruct k; cbn; lia.
Qed.

Lemma restrict_vars_sound ex : forall a rs v,
  length a = length ex -> length rs = length ex ->
  Forall2 inb (map (fun r => (rx_lb r, rx_ub r)) (restrict_rxns ex a rs)) v ->
  Forall2 inb (map (fun r => (rx_lb r, rx_ub r)) rs) v /\ below (pattern ex v) a.
Proof.
  induction ex as [|e ex IH]; intros a rs v La Lr H.
  - destruct a, rs; try discriminate. cbn in *. inversion H; subst. split; constructor.
  - destruct a as [|k a], rs as [|r rs]; try discriminate. cbn in La, Lr. injection La as La. injection Lr as Lr.
    cbn in H. inversion H as [|b x l v' Hx H']; subst.
    destruct (IH a rs v' La Lr H') as [I1 I2]. destruct (restrict_sound e k r x Hx) as [S1 S2].
    split; [cbn; constructor; assumption|]. cbn [pattern]. constructor; [exact S2|exact I2].
Qed.

Lemma restrict_vars_complete ex : forall rs v, length rs = length ex ->
  Forall2 inb (map (fun r => (rx_lb r, rx_ub r)) rs) v ->
  Forall2 inb (map (fun r => (rx_lb r, rx_ub r)) (restrict_rxns ex (pattern ex v) rs)) v.
Proof.
  induction ex as [|e ex IH]; intros rs v Lr H.
  - destruct rs; try discriminate. cbn in *. exact H.
  - destruct rs as [|r rs]; try discriminate. cbn in Lr. injection Lr as Lr.
    cbn in H. inversion H as [|b x l v' Hx H']; subst. cbn [pattern restrict_rxns map].
    constructor; [apply (restrict_complete e r x Hx)|apply IH; assumption].
Qed.

Lemma pattern_in_subsets ex : forall v, length v = length ex -> In (pattern ex v) (subsets ex).
Proof.
  induction ex as [|e ex IH]; intros v L.
  - destruct v; [now left|discriminate].
  - destruct v as [|x v]; [discriminate|]. cbn in L. injection L as L. specialize (IH v L). cbn [pattern subsets].
    destruct e as [b|].
    + apply in_or_app. destruct (Qlt_b 0 (imp b x)); [right|left]; apply in_map; exact IH.
    + apply in_map. exact IH.
Qed.

Lemma subsets_length ex : forall a, In a (subsets ex) -> length a = length ex.
Proof.
  induction ex as [|e ex IH]; intros a H; cbn in H.
  - destruct H as [<-|[]]. reflexivity.
  - destruct e as [b|].
    + apply in_app_or in H as [H|H]; apply in_map_iff in H as [a' [<- H]]; cbn; f_equal; auto.
    + apply in_map_iff in H as [a' [<- H]]. cbn. f_equal. auto.
Qed.

Definition feasA (m : fbamodel) (ex : exmap) (t : Q) (a : list bool) : Prop :=
  exists x, feasible (restricted_lp m ex a) x /\ t <= dot (cvec m) x.

Lemma min_card_spec m ex t : forall subs certs res, min_card m ex t subs certs = Some res ->
  (forall a, In a subs -> feasA m ex t a -> match res with Some n => (n <= card a)%nat | None => False end) /\
  (forall n, res = Some n -> exists a, In a subs /\ feasA m ex t a /\ card a = n).
Proof.
  induction subs as [|a subs IH]; intros certs res H; destruct certs as [|c certs]; cbn [min_card] in H; try discriminate.
  - injection H as <-. split; [intros a []|discriminate].
  - destruct (min_card m ex t subs certs) as [best|] eqn:Eb; [|discriminate].
    destruct (IH _ _ Eb) as [I1 I2].
    destruct c as [x y|y].
    + destruct (check_opt (restricted_lp m ex a) x y) eqn:Ec; [|discriminate].
      apply check_opt_sound in Ec. destruct Ec as [Fx Ox].
      destruct (Qle_bool t (value (restricted_lp m ex a) x)) eqn:Et.
      * apply Qle_bool_iff in Et. injection H as <-. split.
        -- intros a' [<-|Hin] FA.
           ++ destruct best; lia.
           ++ specialize (I1 a' Hin FA). destruct best; [lia|contradiction].
        -- intros n Hn. injection Hn as <-. destruct best as [n0|].
           ++ destruct (Nat.min_spec n0 (card a)) as [[_ ->]|[_ ->]].
              ** destruct (I2 n0 eq_refl) as [a0 [Hin [FA Hc]]]. exists a0. auto with datatypes.
              ** exists a. split; [now left|]. split; [exists x; split; assumption|reflexivity].
           ++ exists a. split; [now left|]. split; [exists x; split; assumption|reflexivity].
      * injection H as <-. split.
        -- intros a' [<-|Hin] FA; [|apply (I1 a' Hin FA)].
           exfalso. destruct FA as [x' [Fx' Hx']]. specialize (Ox x' Fx'). unfold value in *. cbn [obj restricted_lp growth_lp] in *.
           qb. lra.
        -- intros n Hn. destruct (I2 n Hn) as [a0 [Hin R]]. exists a0. auto with datatypes.
    + destruct (check_infeasible (restricted_lp m ex a) y) eqn:Ec; [|discriminate].
      apply check_infeasible_sound in Ec. injection H as <-. split.
      * intros a' [<-|Hin] FA; [|apply (I1 a' Hin FA)].
        exfalso. destruct FA as [x' [Fx' _]]. exact (Ec x' Fx').
      * intros n Hn. destruct (I2 n Hn) as [a0 [Hin R]]. exists a0. auto with datatypes.
Qed.

Lemma restricted_feasible_sound m ex a v : length ex = length (rxns m) -> In a (subsets ex) ->
  feasible (restricted_lp m ex a) v -> feasible (net_lp m) v /\ (ncomp ex v <= card a)%nat.
Proof.
  intros L Hin [Hb Hr]. apply subsets_length in Hin.
  destruct (restrict_vars_sound ex a (rxns m) v Hin (eq_sym L) Hb) as [B P].
  split; [split; [exact B|exact Hr]|]. apply card_below. exact P.
Qed.

Lemma restricted_feasible_complete m ex v : length ex = length (rxns m) ->
  feasible (net_lp m) v -> feasible (restricted_lp m ex (pattern ex v)) v.
Proof.
  intros L [Hb Hr]. split; [|exact Hr]. apply restrict_vars_complete; [now symmetry|exact Hb].
Qed.

Lemma feasible_length m v : feasible (net_lp m) v -> length v = length (rxns m).
Proof.
  intros [Hb _]. cbn in Hb. revert v Hb. induction (rxns m) as [|r rs IH]; intros v Hb; inversion Hb; subst; cbn; auto.
Qed.

(* The exact oracle for the number of components: Some (Some n) means a flux distribution reaching t
   with at most n importing exchanges exists and none with fewer; Some None means none reaches t. *)
Theorem check_components_sound m ex t certs : length ex = length (rxns m) ->
  (forall n, check_components m ex t certs = Some (Some n) ->
     (exists v, feasible (net_lp m) v /\ t <= dot (cvec m) v /\ (ncomp ex v <= n)%nat) /\
     (forall v, feasible (net_lp m) v -> t <= dot (cvec m) v -> (n <= ncomp ex v)%nat)) /\
  (check_components m ex t certs = Some None ->
     forall v, feasible (net_lp m) v -> ~ t <= dot (cvec m) v).
Proof.
  intros L. unfold check_components. split.
  - intros n H. destruct (min_card_spec _ _ _ _ _ _ H) as [S1 S2]. split.
    + destruct (S2 n eq_refl) as [a [Hin [[x [Fx Hx]] Hc]]].
      destruct (restricted_feasible_sound m ex a x L Hin Fx) as [Fn Nc]. exists x. split; [exact Fn|]. split; [exact Hx|lia].
    + intros v Fv Hv. pose proof (feasible_length _ _ Fv) as Lv.
      assert (FA : feasA m ex t (pattern ex v)) by (exists v; split; [now apply restricted_feasible_complete|exact Hv]).
      apply (S1 _ (pattern_in_subsets ex v ltac:(congruence)) FA).
  - intros H v Fv Hv. destruct (min_card_spec _ _ _ _ _ _ H) as [S1 _].
    pose proof (feasible_length _ _ Fv) as Lv.
    assert (FA : feasA m ex t (pattern ex v)) by (exists v; split; [now apply restricted_feasible_complete|exact Hv]).
    apply (S1 _ (pattern_in_subsets ex v ltac:(congruence)) FA).
Qed.
