(* Correspondence + monitor functions for C18 (medium get/set), evaluated by vm_compute on the
   observations the harness took from the real Model.medium getter/setter.  Nothing here is a theorem. *)
From Coq Require Import String QArith List Bool ZArith.
From Cobra.LP Require Import Defs Cert Fba.
From Cobra.Medium Require Import Model.
From Cobra.Gen Require Import MediumTables.
Import ListNotations.
Open Scope Q_scope.

Definition eb_eqb (a b : ebound) : bool :=
  match a, b with
  | NegInf, NegInf | PosInf, PosInf => true
  | Fin x, Fin y => Qeq_bool x y
  | _, _ => false
  end.
Definition oeb_eqb (a b : option ebound) : bool :=
  match a, b with Some x, Some y => eb_eqb x y | None, None => true | _, _ => false end.
Definition xr_eqb (a b : xr) : bool :=
  Bool.eqb (x_exch a) (x_exch b) && Bool.eqb (x_react a) (x_react b) && Bool.eqb (x_prod a) (x_prod b) &&
  eb_eqb (x_lb a) (x_lb b) && eb_eqb (x_ub a) (x_ub b).
Definition world_eqb (a b : world) : bool := forall2b xr_eqb a b.
Definition med_eqb (a b : list (nat * option ebound)) : bool :=
  forall2b (fun x y => Nat.eqb (fst x) (fst y) && oeb_eqb (snd x) (snd y)) a b.
Definition pair_eqb (a b : ebound * ebound) : bool := eb_eqb (fst a) (fst b) && eb_eqb (snd a) (snd b).

Inductive obs_exn := NoExn | ExKey | ExValue | ExOther.

Record gscase := mkGS {
  g_w : world;                              (* before; x_exch = membership in model.exchanges *)
  g_info : list rinfo;                      (* what is_boundary_type looks at, per reaction *)
  g_med0 : list (nat * option ebound);      (* model.medium before, sorted by reaction index *)
  g_mu : list (nat * Q);                    (* the assigned dictionary, in insertion order *)
  g_exn : obs_exn;
  g_w' : world;                             (* after *)
  g_med1 : list (nat * option ebound);      (* model.medium after *)
  g_raw : list ((ebound * ebound) * (ebound * ebound))  (* forward / reverse variable bounds in the solver, after *)
}.

Definition exn_match (e : exn) (o : obs_exn) : bool :=
  match e, o with KeyError, ExKey | ValueError, ExValue => true | _, _ => false end.

(* listed reactions only (used when the second loop raised: the rest is order dependent) *)
Definition listed_eqb (mu : list (nat * Q)) (a b : world) : bool :=
  forallb (fun kb => match nth_error a (fst kb), nth_error b (fst kb) with
                     | Some x, Some y => xr_eqb x y | None, None => true | _, _ => false end) mu.

Definition exch_ok (c : gscase) : bool :=
  forall2b (fun r i => match is_boundary_type excludes sbo_terms i "exchange" with
                       | Some b => Bool.eqb b (x_exch r) | None => false end) (g_w c) (g_info c).

Definition corr_ok (c : gscase) : bool :=
  exch_ok c &&
  med_eqb (medium_get (g_w c)) (g_med0 c) &&
  match medium_set (g_w c) (g_mu c) with
  | Ok w' => match g_exn c with NoExn => true | _ => false end &&
             world_eqb w' (g_w' c) && med_eqb (medium_get w') (g_med1 c) &&
             forall2b (fun r o => pair_eqb (fst (split_bounds (x_lb r) (x_ub r))) (fst o) &&
                                  pair_eqb (snd (split_bounds (x_lb r) (x_ub r))) (snd o)) w' (g_raw c)
  | Raised e w1 =>
      exn_match e (g_exn c) &&
      match set_listed (g_w c) (g_mu c) with
      | Ok _ => listed_eqb (g_mu c) w1 (g_w' c)          (* raised while closing *)
      | Raised _ _ => world_eqb w1 (g_w' c)              (* raised in the first loop: deterministic *)
      end
  end.

(* ---- the property, evaluated on the implementation's own observations (no exception case) ---- *)
Definition nodup_keys (mu : list (nat * Q)) : bool :=
  (fix go (l : list nat) := match l with [] => true | k :: l' => negb (mem k l') && go l' end) (map fst mu).

Fixpoint zip3 (i : nat) (a b : world) : list (nat * xr * xr) :=
  match a, b with
  | x :: a', y :: b' => (i, x, y) :: zip3 (S i) a' b'
  | _, _ => []
  end.

Definition mon_listed (c : gscase) : bool :=      (* listed exchange: import bound = value *)
  forallb (fun t => let '(i, r, r') := t in
     match assoc i (g_mu c) with
     | Some b => if x_exch r then eb_eqb (import_bound r') (Fin b) else true
     | None => true end) (zip3 0 (g_w c) (g_w' c)).
Definition mon_closed (c : gscase) : bool :=      (* unlisted exchange: import closed, by the code's rule *)
  forallb (fun t => let '(i, r, r') := t in
     match assoc i (g_mu c) with
     | None => if x_exch r then eb_eqb (import_bound r') (emin0 (import_bound r)) && negb (epos (import_bound r')) else true
     | Some _ => true end) (zip3 0 (g_w c) (g_w' c)).
Definition mon_export (c : gscase) : bool :=      (* export bounds untouched *)
  forallb (fun t => let '(i, r, r') := t in
     if x_exch r then eb_eqb (export_bound r') (export_bound r) else true) (zip3 0 (g_w c) (g_w' c)).
Definition mon_frame (c : gscase) : bool :=       (* nothing else changes *)
  Nat.eqb (length (g_w c)) (length (g_w' c)) &&
  forallb (fun t => let '(i, r, r') := t in
     Bool.eqb (x_exch r) (x_exch r') && Bool.eqb (x_react r) (x_react r') && Bool.eqb (x_prod r) (x_prod r') &&
     match assoc i (g_mu c) with
     | None => if x_exch r then true else xr_eqb r r'
     | Some _ => true end) (zip3 0 (g_w c) (g_w' c)).
Definition mon_readback (c : gscase) : bool :=    (* medium read back = positive entries, by index order *)
  let expected :=
    flat_map (fun t => let '(i, r, _) := t in
      match assoc i (g_mu c) with
      | Some b => if x_exch r && negb (Qle_bool b 0) then [(i, Some (Fin b))] else []
      | None => [] end) (zip3 0 (g_w c) (g_w' c)) in
  med_eqb expected (g_med1 c).

Definition in_scope (c : gscase) : bool :=        (* the quantifier of the property *)
  wf_world (g_w c) && nodup_keys (g_mu c) &&
  forallb (fun kb => match nth_error (g_w c) (fst kb) with Some r => x_exch r | None => false end) (g_mu c).

Definition gs_checks (c : gscase) : list nat :=
  (if corr_ok c then [] else [1%nat]) ++
  match g_exn c with
  | NoExn =>
      if in_scope c then
        (if mon_listed c then [] else [2%nat]) ++
        (if mon_closed c then [] else [3%nat]) ++
        (if mon_export c then [] else [4%nat]) ++
        (if mon_frame c then [] else [5%nat]) ++
        (if mon_readback c then [] else [6%nat])
      else []
  | ExOther => [7%nat]
  | _ => []
  end.

Inductive c18case := GS (c : gscase).
Definition checks (c : c18case) : list nat := match c with GS g => gs_checks g end.

Definition failing (cases : list (Z * c18case)) : list (Z * list (nat * nat)) :=
  filter (fun r => match snd r with [] => false | _ => true end)
         (map (fun c => (fst c, map (fun k => (0%nat, k)) (checks (snd c)))) cases).
