(* Correspondence + monitor functions for C18 (medium get/set), evaluated by vm_compute on the
   observations the harness took from the real Model.medium getter/setter.  Nothing here is a theorem. *)
From Coq Require Import String QArith List Bool ZArith.
From Cobra.LP Require Import Defs Cert Fba.
From Cobra.Medium Require Import Model MinMedium.
From Cobra.Gen Require Import MediumTables.
Import ListNotations.
Open Scope Q_scope.
Open Scope list_scope.

Definition eb_eqb (a b : ebound) : bool :=
  match a, b with
  | NegInf, NegInf | PosInf, PosInf => true
  | Fin x, Fin y => Qeq_bool x y
  | _, _ => false
  end.
Definition oeb_eqb (a b : option ebound) : bool :=
  match a, b with Some x, Some y => eb_eqb x y | None, None => true | _, _ => false end.
Definition xr_eqb (a b : xr) : bool :=
  Bool.eqb (x_exch a) (x_exch b) && Bool.eqb (x_react a) (x_react b) && Bool.eqb (x_prod a) (x_prod b) &&
  eb_eqb (x_lb a) (x_lb b) && eb_eqb (x_ub a) (x_ub b).
Definition world_eqb (a b : world) : bool := forall2b xr_eqb a b.
Definition med_eqb (a b : list (nat * option ebound)) : bool :=
  forall2b (fun x y => Nat.eqb (fst x) (fst y) && oeb_eqb (snd x) (snd y)) a b.
Definition pair_eqb (a b : ebound * ebound) : bool := eb_eqb (fst a) (fst b) && eb_eqb (snd a) (snd b).

Inductive obs_exn := NoExn | ExKey | ExValue | ExOther.

Record gscase := mkGS {
  g_w : world;                              (* before; x_exch = membership in model.exchanges *)
  g_info : list rinfo;                      (* what is_boundary_type looks at, per reaction *)
  g_med0 : list (nat * option ebound);      (* model.medium before, sorted by reaction index *)
  g_mu : list (nat * Q);                    (* the assigned dictionary, in insertion order *)
  g_exn : obs_exn;
  g_w' : world;                             (* after *)
  g_med1 : list (nat * option ebound);      (* model.medium after *)
  g_raw : list ((ebound * ebound) * (ebound * ebound))  (* forward / reverse variable bounds in the solver, after *)
}.

Definition exn_match (e : exn) (o : obs_exn) : bool :=
  match e, o with KeyError, ExKey | ValueError, ExValue => true | _, _ => false end.

(* listed reactions only (used when the second loop raised: the rest is order dependent) *)
Definition listed_eqb (mu : list (nat * Q)) (a b : world) : bool :=
  forallb (fun kb => match nth_error a (fst kb), nth_error b (fst kb) with
                     | Some x, Some y => xr_eqb x y | None, None => true | _, _ => false end) mu.

Definition exch_ok (c : gscase) : bool :=
  forall2b (fun r i => match is_boundary_type excludes sbo_terms i "exchange" with
                       | Some b => Bool.eqb b (x_exch r) | None => false end) (g_w c) (g_info c).

Definition corr_ok (c : gscase) : bool :=
  exch_ok c &&
  med_eqb (medium_get (g_w c)) (g_med0 c) &&
  match medium_set (g_w c) (g_mu c) with
  | Ok w' => match g_exn c with NoExn => true | _ => false end &&
             world_eqb w' (g_w' c) && med_eqb (medium_get w') (g_med1 c) &&
             forall2b (fun r o => pair_eqb (fst (split_bounds (x_lb r) (x_ub r))) (fst o) &&
                                  pair_eqb (snd (split_bounds (x_lb r) (x_ub r))) (snd o)) w' (g_raw c)
  | Raised e w1 =>
      exn_match e (g_exn c) &&
      match set_listed (g_w c) (g_mu c) with
      | Ok _ => listed_eqb (g_mu c) w1 (g_w' c)          (* raised while closing *)
      | Raised _ _ => world_eqb w1 (g_w' c)              (* raised in the first loop: deterministic *)
      end
  end.

(* ---- the property, evaluated on the implementation's own observations (no exception case) ---- *)
Definition nodup_keys (mu : list (nat * Q)) : bool :=
  (fix go (l : list nat) := match l with [] => true | k :: l' => negb (mem k l') && go l' end) (map fst mu).

Fixpoint zip3 (i : nat) (a b : world) : list (nat * xr * xr) :=
  match a, b with
  | x :: a', y :: b' => (i, x, y) :: zip3 (S i) a' b'
  | _, _ => []
  end.

Definition mon_listed (c : gscase) : bool :=      (* listed exchange: import bound = value *)
  forallb (fun t => let '(i, r, r') := t in
     match assoc i (g_mu c) with
     | Some b => if x_exch r then eb_eqb (import_bound r') (Fin b) else true
     | None => true end) (zip3 0 (g_w c) (g_w' c)).
Definition mon_closed (c : gscase) : bool :=      (* unlisted exchange: import closed, by the code's rule *)
  forallb (fun t => let '(i, r, r') := t in
     match assoc i (g_mu c) with
     | None => if x_exch r then eb_eqb (import_bound r') (emin0 (import_bound r)) && negb (epos (import_bound r')) else true
     | Some _ => true end) (zip3 0 (g_w c) (g_w' c)).
Definition mon_export (c : gscase) : bool :=      (* export bounds untouched *)
  forallb (fun t => let '(i, r, r') := t in
     if x_exch r then eb_eqb (export_bound r') (export_bound r) else true) (zip3 0 (g_w c) (g_w' c)).
Definition mon_frame (c : gscase) : bool :=       (* nothing else changes *)
  Nat.eqb (length (g_w c)) (length (g_w' c)) &&
  forallb (fun t => let '(i, r, r') := t in
     Bool.eqb (x_exch r) (x_exch r') && Bool.eqb (x_react r) (x_react r') && Bool.eqb (x_prod r) (x_prod r') &&
     match assoc i (g_mu c) with
     | None => if x_exch r then true else xr_eqb r r'
     | Some _ => true end) (zip3 0 (g_w c) (g_w' c)).
Definition mon_readback (c : gscase) : bool :=    (* medium read back = positive entries, by index order *)
  let expected :=
    flat_map (fun t => let '(i, r, _) := t in
      match assoc i (g_mu c) with
      | Some b => if x_exch r && negb (Qle_bool b 0) then [(i, Some (Fin b))] else []
      | None => [] end) (zip3 0 (g_w c) (g_w' c)) in
  med_eqb expected (g_med1 c).

Definition in_scope (c : gscase) : bool :=        (* the quantifier of the property *)
  wf_world (g_w c) && nodup_keys (g_mu c) &&
  forallb (fun kb => match nth_error (g_w c) (fst kb) with Some r => x_exch r | None => false end) (g_mu c).

Definition gs_checks (c : gscase) : list nat :=
  (if corr_ok c then [] else [1%nat]) ++
  match g_exn c with
  | NoExn =>
      if in_scope c then
        (if mon_listed c then [] else [2%nat]) ++
        (if mon_closed c then [] else [3%nat]) ++
        (if mon_export c then [] else [4%nat]) ++
        (if mon_frame c then [] else [5%nat]) ++
        (if mon_readback c then [] else [6%nat])
      else []
  | ExOther => [7%nat]
  | _ => []
  end.


(* ================= minimal_medium ================= *)
Inductive moracle := MOpt (x y : vec) | MInf (y : vec).

Record mmcase := mkMM {
  mm_m : fbamodel;                          (* the model as given *)
  mm_ex : exmap;                            (* find_boundary_types(model, "exchange") + notation, per reaction *)
  mm_t : Q;                                 (* min_objective_value *)
  mm_open : option Q;                       (* open_exchanges: None = False, Some 1000 = True, Some B = number *)
  mm_exports : bool;
  mm_k : nat;                               (* minimize_components: 0 = False, k >= 1 = up to k alternatives *)
  mm_raised : bool;                         (* the call raised *)
  mm_res : option (list (list (nat * Q)));  (* None = returned None; the media (one per column), all entries *)
  mm_oracle : moracle;                      (* certificate for the LP of add_linear_obj + growth constraint *)
  mm_suff : list moracle;                   (* per medium: maximal growth with its positive part applied as medium *)
  mm_pin : list moracle;                    (* per medium (exports only): maximal growth with all exchange fluxes pinned *)
  mm_certs : list scert                     (* subset enumeration (components only) *)
}.

Definition tol6 : Q := 1 # 1000000.
Definition tol5 : Q := 1 # 100000.
Definition slack (t : Q) : Q := tol5 * Qmax' 1 (Qabs' t).

Definition positive_part (mu : list (nat * Q)) : list (nat * Q) := filter (fun kb => Qlt_b 0 (snd kb)) mu.
Definition msum (mu : list (nat * Q)) : Q := fold_right (fun kb a => snd kb + a) 0 mu.
Definition keys_sorted (mu : list (nat * Q)) : list nat := map fst mu.

Definition emax_q (b : ebound) (q : Q) : ebound := match b with Fin l => Fin (Qmax' l q) | _ => Fin q end.
Definition emin_q (b : ebound) (q : Q) : ebound := match b with Fin u => Fin (if Qle_bool u q then u else q) | _ => Fin q end.
Fixpoint pin_from (i : nat) (ex : exmap) (rs : list rxn) (mu : list (nat * Q)) : list rxn :=
  match ex, rs with
  | e :: ex', r :: rs' =>
      (match e with
       | Some b => let val := match assoc i mu with Some v => v | None => 0 end in
                   let x := imp b val in      (* net flux = -import for `A -->` *)
                   let d := tol6 * Qmax' 1 (Qabs' x) in
                   mkRxn (rx_col r) (emax_q (rx_lb r) (x - d)) (emin_q (rx_ub r) (x + d)) (rx_obj r)
       | None => r end) :: pin_from (S i) ex' rs' mu
  | _, _ => []
  end.

Definition growth_cert_ok (m : fbamodel) (rs : list rxn) (t : Q) (c : moracle) : list nat * bool :=
  (* (harness faults, growth >= t - slack) *)
  match c with
  | MOpt x y => if check_opt (growth_lp m rs) x y then ([], Qle_bool (t - slack t) (value (growth_lp m rs) x)) else ([9%nat], true)
  | MInf y => if check_infeasible (growth_lp m rs) y then ([], false) else ([9%nat], true)
  end.

Fixpoint pairwise_distinct (l : list (list nat)) : bool :=
  match l with
  | [] => true
  | a :: l' => negb (existsb (fun b => forall2b Nat.eqb a b) l') && pairwise_distinct l'
  end.

Definition is_exch (ex : exmap) (i : nat) : bool := match nth_error ex i with Some (Some _) => true | _ => false end.

Definition mm_checks (c : mmcase) : list nat :=
  if mm_raised c then [17%nat] else
  match open_model (mm_m c) (mm_ex c) (mm_open c) with
  | None => [17%nat]                       (* the model predicts a ValueError, none was raised *)
  | Some m =>
    if negb (valid_model_b m && Nat.eqb (length (mm_ex c)) (length (rxns m))) then [9%nat] else
    let ex := mm_ex c in let t := mm_t c in
    let lpo := mm_lp m ex t in
    match mm_oracle c, mm_res c with
    | MInf y, None => if check_infeasible lpo y then [] else [9%nat]
    | MInf y, Some _ => if check_infeasible lpo y then [10%nat] else [9%nat]
    | MOpt x y, None => if check_opt lpo x y then [10%nat] else [9%nat]
    | MOpt x y, Some media =>
      if negb (check_opt lpo x y) then [9%nat] else
      let best_total := - value lpo x in
      (* shape of the result *)
      (if forallb (fun mu => forallb (fun kb => is_exch ex (fst kb) && (mm_exports c || Qlt_b 0 (snd kb))) mu) media
       then [] else [15%nat]) ++
      (* sufficiency of every returned medium *)
      (if Nat.eqb (length media) (length (mm_suff c)) then
         flat_map (fun mc => let '(mu, cert) := mc in
            match apply_medium m ex (positive_part mu) with
            | None => [12%nat]
            | Some m' => let '(f, ok) := growth_cert_ok m (rxns m') t cert in f ++ (if ok then [] else [12%nat])
            end) (combine media (mm_suff c))
       else [9%nat]) ++
      (* exports: the reported exchange fluxes extend to a flux distribution reaching t *)
      (if mm_exports c then
         if Nat.eqb (length media) (length (mm_pin c)) then
           flat_map (fun mc => let '(mu, cert) := mc in
              let '(f, ok) := growth_cert_ok m (pin_from 0 ex (rxns m) mu) t cert in f ++ (if ok then [] else [16%nat]))
             (combine media (mm_pin c))
         else [9%nat]
       else []) ++
      match mm_k c with
      | O =>   (* linear: minimal total import *)
          match media with
          | [mu] => if close tol6 (msum (positive_part mu)) best_total then [] else [11%nat]
          | _ => [15%nat]
          end
      | S _ =>
          match check_components m ex t (mm_certs c) with
          | Some (Some n) =>
              (if forallb (fun mu => Nat.eqb (length (positive_part mu)) n) media then [] else [13%nat]) ++
              (* with n = 0 the code never excludes anything and returns k copies of the empty medium *)
              (if (Nat.eqb n 0 || pairwise_distinct (map (fun mu => map fst (positive_part mu)) media))
                  && Nat.leb (length media) (mm_k c) && Nat.leb 1 (length media) then [] else [14%nat])
          | _ => [9%nat]
          end
      end
    end
  end.

Inductive c18case := GS (c : gscase) | MM (c : mmcase).
Definition checks (c : c18case) : list nat := match c with GS g => gs_checks g | MM g => mm_checks g end.

Definition failing (cases : list (Z * c18case)) : list (Z * list (nat * nat)) :=
  filter (fun r => match snd r with [] => false | _ => true end)
         (map (fun c => (fst c, map (fun k => (0%nat, k)) (checks (snd c)))) cases).
