(* minimal_medium(minimize_components=...): an optimum of the MILP built by add_mip_obj uses the
   smallest possible number of importing exchanges.                                          *)
From Coq Require Import QArith List Bool Lia Lqa.
From Cobra.LP Require Import Defs Cert Fba.
From Cobra.Medium Require Import Model Proofs MinMedium MinProofs.
Import ListNotations.
Open Scope Q_scope.

Fixpoint ncompQ (ex : exmap) (v : vec) : Q :=
  match ex, v with
  | Some b :: ex', x :: v' => (if Qlt_b 0 (imp b x) then 1 else 0) + ncompQ ex' v'
  | None :: ex', _ :: v' => ncompQ ex' v'
  | _, _ => 0
  end.

Lemma ncompQ_nat ex : forall v, ncompQ ex v == inject_Z (Z.of_nat (ncomp ex v)).
Proof.
  unfold ncomp, card. induction ex as [|e ex IH]; intros v; [reflexivity|].
  destruct v as [|x v]; [destruct e as [b|]; reflexivity|].
  specialize (IH v). destruct e as [b|]; cbn [ncompQ pattern].
  - destruct (Qlt_b 0 (imp b x)); cbn [filter length].
    + rewrite Nat2Z.inj_succ. unfold Z.succ. rewrite inject_Z_plus. rewrite IH. change (inject_Z 1) with 1. lra.
    + rewrite IH. lra.
  - cbn [filter length]. exact IH.
Qed.

Lemma ncomp_le_of_Q ex v v' : ncompQ ex v <= ncompQ ex v' -> (ncomp ex v <= ncomp ex v')%nat.
Proof.
  rewrite !ncompQ_nat. intros H. rewrite <- Zle_Qle in H. lia.
Qed.

(* an importing exchange forces its indicator to 1 *)
Lemma ind_covers M ex : forall zs inds, Forall nonneg2 zs -> ind_ok M ex zs inds ->
  ncompQ ex (nets zs) <= ind_sum ex inds.
Proof.
  induction ex as [|e ex IH]; intros zs inds NN H.
  - destruct zs, inds; cbn in *; try contradiction; lra.
  - destruct zs as [|[f r] zs]; [contradiction|]. destruct inds as [|z inds]; [contradiction|].
    cbn [ind_ok] in H. destruct H as [He H]. inversion NN as [|fr zs' [Hf Hr] NN']; subst. cbn in Hf, Hr.
    specialize (IH zs inds NN' H). cbn [nets map fst snd]. fold (nets zs).
    destruct e as [b|]; cbn [ncompQ ind_sum]; [|exact IH].
    destruct He as [Hz Hm].
    assert (Hz0 : 0 <= z) by (destruct Hz as [Hz|Hz]; rewrite Hz; lra).
    destruct (Qlt_b 0 (imp b (f - r))) eqn:Eb; [|lra].
    unfold Qlt_b in Eb. apply negb_true_iff in Eb. qb.
    destruct Hz as [Hz|Hz].
    + exfalso. assert (E0 : M * z == 0) by (rewrite Hz; ring).
      unfold imp_var, imp in *. destruct b; cbn [fst snd] in *; lra.
    + rewrite Hz. lra.
Qed.

(* the indicators of the importing exchanges of a flux vector *)
Fixpoint inds_of (ex : exmap) (v : vec) : vec :=
  match ex, v with
  | e :: ex', x :: v' => (match e with Some b => if Qlt_b 0 (imp b x) then 1 else 0 | None => 0 end) :: inds_of ex' v'
  | _, _ => []
  end.

Lemma ind_sum_inds_of ex : forall v, ind_sum ex (inds_of ex v) == ncompQ ex v.
Proof.
  induction ex as [|e ex IH]; intros v; [reflexivity|].
  destruct v as [|x v]; [destruct e; reflexivity|].
  specialize (IH v). destruct e as [b|]; cbn [inds_of ind_sum ncompQ]; [rewrite IH; reflexivity|exact IH].
Qed.

Lemma ebabs_hi b M x : ebabs_le b M -> le_hi x b -> x <= M.
Proof. destruct b; cbn; try tauto. intros [? ?] ?. lra. Qed.
Lemma ebabs_lo b M x : ebabs_le b M -> le_lo b x -> - M <= x.
Proof. destruct b; cbn; try tauto. intros [? ?] ?. lra. Qed.

Lemma inds_of_ok M ex : forall rs v, length rs = length ex ->
  Forall2 inb (map (fun r => (rx_lb r, rx_ub r)) rs) v -> bigm_ok M ex rs ->
  ind_ok M ex (splits v) (inds_of ex v).
Proof.
  induction ex as [|e ex IH]; intros rs v Len Hb HM.
  - destruct rs; [|discriminate]. cbn in Hb. inversion Hb; subst. exact I.
  - destruct rs as [|r rs]; [discriminate|]. cbn in Len. injection Len as Len.
    cbn in Hb. inversion Hb as [|bd x l v' Hx Hb']; subst.
    cbn [splits map inds_of ind_ok]. fold (splits v'). split.
    + destruct e as [b|]; [|exact I]. cbn [bigm_ok] in HM. destruct HM as [Ml [Mu _]].
      destruct Hx as [Hl Hu]. cbn [fst snd] in Hl, Hu.
      pose proof (ebabs_hi _ _ _ Mu Hu) as U. pose proof (ebabs_lo _ _ _ Ml Hl) as Lo.
      destruct (qpos_spec x) as [P1 [P2 [P3 [P4 P5]]]]. destruct (qpos_spec (- x)) as [N1 [N2 [N3 [N4 N5]]]].
      destruct (Qlt_b 0 (imp b x)) eqn:Eb; unfold Qlt_b in Eb.
      * apply negb_true_iff in Eb. qb. split; [right; reflexivity|].
        unfold imp_var, imp in *. destruct b; cbn [fst snd] in *.
        -- assert (0 <= - x) by lra. specialize (N4 H0). lra.
        -- assert (0 <= x) by lra. specialize (P4 H0). lra.
      * apply negb_false_iff in Eb. qb. split; [left; reflexivity|].
        unfold imp_var, imp in *. destruct b; cbn [fst snd] in *.
        -- assert (- x <= 0) by lra. specialize (N5 H). lra.
        -- specialize (P5 Eb). lra.
    + apply (IH rs v' Len Hb'). destruct e; cbn [bigm_ok] in HM; tauto.
Qed.

Theorem min_medium_milp m ex t M zs inds :
  valid_model m -> length ex = length (rxns m) -> bigm_ok M ex (rxns m) ->
  mip_opt m ex t M zs inds ->
  let v := nets zs in
  feasible (net_lp m) v /\ t <= dot (cvec m) v /\
  ind_sum ex inds == inject_Z (Z.of_nat (ncomp ex v)) /\
  forall v', feasible (net_lp m) v' -> t <= dot (cvec m) v' -> (ncomp ex v <= ncomp ex v')%nat.
Proof.
  intros Hv Len HM [[Hf Hi] Hopt]. cbn zeta.
  apply mm_feasible_iff in Hf as [Hs Hg].
  destruct (split_to_net m zs Hv Hs) as [Hn _]. rewrite dot_dup in Hg.
  assert (NN : Forall nonneg2 zs) by (destruct Hs as [Hb _]; eapply split_feasible_nonneg; eauto).
  pose proof (ind_covers M ex zs inds NN Hi) as C1.
  assert (LE : forall v', feasible (net_lp m) v' -> t <= dot (cvec m) v' -> ind_sum ex inds <= ncompQ ex v').
  { intros v' Hn' Hg'. destruct (net_to_split m v' Hv Hn') as [Hs' _].
    assert (F' : mip_feasible m ex t M (splits v') (inds_of ex v')).
    { split.
      - apply mm_feasible_iff. split; [exact Hs'|]. rewrite dot_dup.
        rewrite (dot_ext _ _ _ (nets_splits v')). exact Hg'.
      - apply (inds_of_ok M ex (rxns m) v'); [now symmetry|exact (proj1 Hn')|exact HM]. }
    specialize (Hopt _ _ F'). rewrite ind_sum_inds_of in Hopt. exact Hopt. }
  split; [exact Hn|]. split; [exact Hg|]. split.
  - rewrite <- ncompQ_nat. specialize (LE _ Hn Hg). lra.
  - intros v' Hn' Hg'. apply ncomp_le_of_Q. specialize (LE _ Hn' Hg'). lra.
Qed.
