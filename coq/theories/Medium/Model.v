(* Executable model of Model.medium (getter and setter, core/model.py) and of is_boundary_type
   (medium/boundary_types.py).  Mirrors the Python statement by statement: the order of the two
   loops of the setter, where it raises, and the closing rule min(0.0, .).                   *)
From Coq Require Import QArith List Bool Lia String.
From Cobra.LP Require Import Defs Fba.
Import ListNotations.
Open Scope Q_scope.

(* What the getter/setter look at in a reaction: is it in model.exchanges, does it have
   reactants (coefficient < 0) / products (coefficient >= 0), and its two bounds.            *)
Record xr := mkXr { x_exch : bool; x_react : bool; x_prod : bool; x_lb : ebound; x_ub : ebound }.
Definition world := list xr.          (* model.reactions, in order; keys of a medium are indices *)

(* a > b on Python floats (incl. +-inf) *)
Definition egt (a b : ebound) : bool :=
  match a, b with
  | PosInf, PosInf => false
  | PosInf, _ => true
  | _, PosInf => false
  | NegInf, _ => false
  | Fin _, NegInf => true
  | Fin x, Fin y => negb (Qle_bool x y)
  end.

(* min(0.0, a) *)
Definition emin0 (a : ebound) : ebound :=
  match a with
  | PosInf => Fin 0
  | NegInf => NegInf
  | Fin q => if Qle_bool 0 q then Fin 0 else Fin q
  end.

(* ---- getter ---- *)
Definition is_active (r : xr) : bool :=
  (x_prod r && epos (x_ub r)) || (x_react r && eneg (x_lb r)).

Definition get_active_bound (r : xr) : option ebound :=     (* None = Python's implicit None *)
  if x_react r then Some (eopp (x_lb r))
  else if x_prod r then Some (x_ub r)
  else None.

Fixpoint get_from (i : nat) (w : world) : list (nat * option ebound) :=
  match w with
  | [] => []
  | r :: w' => (if x_exch r && is_active r then [(i, get_active_bound r)] else []) ++ get_from (S i) w'
  end.
Definition medium_get (w : world) := get_from 0 w.

(* ---- setter ---- *)
Inductive exn := KeyError | ValueError.
Inductive outcome := Ok (w : world) | Raised (e : exn) (w : world).

(* Reaction.lower_bound = v / upper_bound = v : _check_bounds raises when lb > ub *)
Definition set_lower (r : xr) (v : ebound) : option xr :=
  if egt v (x_ub r) then None else Some (mkXr (x_exch r) (x_react r) (x_prod r) v (x_ub r)).
Definition set_upper (r : xr) (v : ebound) : option xr :=
  if egt (x_lb r) v then None else Some (mkXr (x_exch r) (x_react r) (x_prod r) (x_lb r) v).

Definition set_active_bound (r : xr) (b : ebound) : option xr :=
  if x_react r then set_lower r (eopp b)
  else if x_prod r then set_upper r b
  else Some r.

Fixpoint upd (i : nat) (r' : xr) (w : world) : world :=
  match w, i with
  | [], _ => []
  | _ :: w', O => r' :: w'
  | r :: w', S j => r :: upd j r' w'
  end.

(* first loop: for rxn_id, rxn_bound in medium.items() *)
Fixpoint set_listed (w : world) (mu : list (nat * Q)) : outcome :=
  match mu with
  | [] => Ok w
  | (i, b) :: mu' =>
      match nth_error w i with
      | None => Raised KeyError w                         (* reactions.get_by_id *)
      | Some r =>
          match set_active_bound r (Fin b) with
          | None => Raised ValueError w
          | Some r' => set_listed (upd i r' w) mu'
          end
      end
  end.

(* second loop: for rxn in exchange_rxns - frozen_media_rxns *)
Definition close_rxn (r : xr) : option xr :=
  let is_export := x_react r && negb (x_prod r) in
  set_active_bound r (emin0 (if is_export then eopp (x_lb r) else x_ub r)).

Definition mem (i : nat) (ks : list nat) : bool := existsb (Nat.eqb i) ks.

Fixpoint close_from (i : nat) (keys : list nat) (w : world) : option world :=
  match w with
  | [] => Some []
  | r :: w' =>
      match (if x_exch r && negb (mem i keys) then close_rxn r else Some r), close_from (S i) keys w' with
      | Some r', Some w'' => Some (r' :: w'')
      | _, _ => None
      end
  end.

(* When the second loop raises, which of the unlisted exchanges were already closed depends on the
   iteration order of a frozenset of objects (address dependent): the model returns the state after
   the first loop and the correspondence compares only the listed reactions in that case.   *)
Definition medium_set (w : world) (mu : list (nat * Q)) : outcome :=
  match set_listed w mu with
  | Ok w1 =>
      match close_from 0 (map fst mu) w1 with
      | Some w2 => Ok w2
      | None => Raised ValueError w1
      end
  | o => o
  end.

(* ---- vocabulary of the property ---- *)
Definition import_bound (r : xr) : ebound := if x_react r then eopp (x_lb r) else x_ub r.
Definition export_bound (r : xr) : ebound := if x_react r then x_ub r else x_lb r.
Fixpoint assoc (i : nat) (mu : list (nat * Q)) : option Q :=
  match mu with
  | [] => None
  | (j, b) :: mu' => if Nat.eqb i j then Some b else assoc i mu'
  end.
(* an exchange has exactly one metabolite: it is written `A -->` (reactant) or `--> A` (product) *)
Definition wf_xr (r : xr) : bool := if x_exch r then xorb (x_react r) (x_prod r) else true.
Definition wf_world (w : world) : bool := forallb wf_xr w.

(* ---- is_boundary_type (medium/boundary_types.py) over the regenerated tables ---- *)
Open Scope string_scope.
Fixpoint is_prefix (p s : string) : bool :=
  match p, s with
  | EmptyString, _ => true
  | String a p', String b s' => Ascii.eqb a b && is_prefix p' s'
  | _, EmptyString => false
  end.
Fixpoint is_sub (p s : string) : bool :=            (* p in s *)
  is_prefix p s || match s with EmptyString => false | String _ s' => is_sub p s' end.

Fixpoint lookup {A} (k : string) (t : list (string * A)) : option A :=
  match t with
  | [] => None
  | (k', v) :: t' => if String.eqb k k' then Some v else lookup k t'
  end.

Record rinfo := mkRinfo {
  ri_id : string;
  ri_sbo : string;           (* first "sbo" annotation, upper-cased; "" when absent *)
  ri_boundary : bool;        (* Reaction.boundary *)
  ri_in_ext : bool;          (* external_compartment in reaction.compartments *)
  ri_rev : bool              (* Reaction.reversibility *)
}.

(* None = KeyError (boundary type missing from a table) *)
Definition is_boundary_type (excl : list (string * list string)) (sbo : list (string * string))
           (r : rinfo) (bt : string) : option bool :=
  match lookup bt sbo, lookup bt excl with
  | Some own, Some ex =>
      if String.eqb (ri_sbo r) own then Some true
      else if existsb (fun kv => negb (String.eqb (fst kv) bt) && String.eqb (ri_sbo r) (snd kv)) sbo then Some false
      else
        let cc := if String.eqb bt "exchange" then ri_in_ext r else negb (ri_in_ext r) in
        let rev_type := if String.eqb bt "demand" then negb (ri_rev r)
                        else if String.eqb bt "sink" then ri_rev r else true in
        Some (ri_boundary r && negb (existsb (fun e => is_sub e (ri_id r)) ex) && cc && rev_type)
  | Some own, None =>
      if String.eqb (ri_sbo r) own then Some true
      else if existsb (fun kv => negb (String.eqb (fst kv) bt) && String.eqb (ri_sbo r) (snd kv)) sbo then Some false
      else None
  | None, _ => None
  end.

(* side condition on the tables: the SBO terms are pairwise different and both tables know "exchange" *)
Fixpoint distinct_vals (t : list (string * string)) : bool :=
  match t with
  | [] => true
  | (_, v) :: t' => negb (existsb (fun kv => String.eqb v (snd kv)) t') && distinct_vals t'
  end.
Definition tables_wf (excl : list (string * list string)) (sbo : list (string * string)) : bool :=
  distinct_vals sbo &&
  match lookup "exchange" sbo, lookup "exchange" excl with Some v, Some _ => negb (String.eqb v "") | _, _ => false end.
