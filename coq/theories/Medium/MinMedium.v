(* Model of cobra.medium.minimal_medium (medium/minimal_medium.py): the LP built by
   add_linear_obj + the growth constraint, the MILP built by add_mip_obj, _as_medium, open_exchanges,
   and the specification-level notions (total import, number of components, applying a medium). *)
From Coq Require Import QArith List Bool Lia Lqa.
From Cobra.LP Require Import Defs Cert Fba.
From Cobra.Medium Require Import Model.
Import ListNotations.
Open Scope Q_scope.

(* Per reaction: None = not in find_boundary_types(model, "exchange");
   Some true = `export = len(rxn.reactants) == 1` (written `A -->`), Some false = written `--> A`. *)
Definition exmap := list (option bool).

(* import flux of an exchange with net flux x *)
Definition imp (e : bool) (x : Q) : Q := if e then - x else x.

(* ---- the problem cobrapy builds (forward / reverse encoding) ---- *)
Definition cvec (m : fbamodel) : vec := map rx_obj (rxns m).      (* mod.objective.expression, unsigned *)
Definition growth_row (m : fbamodel) (t : Q) : row := mkRow (dup (cvec m)) (Fin t) PosInf.   (* medium_obj_constraint *)

(* add_linear_obj: coefficient 1 on reverse_variable (export notation) / forward_variable *)
Fixpoint imp_flat (ex : exmap) : vec :=
  match ex with
  | [] => []
  | Some true :: ex' => 0 :: 1 :: imp_flat ex'
  | Some false :: ex' => 1 :: 0 :: imp_flat ex'
  | None :: ex' => 0 :: 0 :: imp_flat ex'
  end.

(* minimise  sum of import variables  ==  maximise its negation *)
Definition mm_lp (m : fbamodel) (ex : exmap) (t : Q) : lp :=
  mkLP (vbounds (split_lp m)) (rows (split_lp m) ++ [growth_row m t]) (vopp (imp_flat ex)).

(* ---- specification level ---- *)
Fixpoint total_import (ex : exmap) (v : vec) : Q :=
  match ex, v with
  | Some e :: ex', x :: v' => qpos (imp e x) + total_import ex' v'
  | None :: ex', _ :: v' => total_import ex' v'
  | _, _ => 0
  end.

Definition Qlt_b (a b : Q) : bool := negb (Qle_bool b a).

(* which exchanges import (flux into the system > 0) *)
Fixpoint pattern (ex : exmap) (v : vec) : list bool :=
  match ex, v with
  | e :: ex', x :: v' => (match e with Some b => Qlt_b 0 (imp b x) | None => false end) :: pattern ex' v'
  | _, _ => []
  end.
Definition card (a : list bool) : nat := length (filter (fun b => b) a).
Definition ncomp (ex : exmap) (v : vec) : nat := card (pattern ex v).

(* _as_medium with tolerance 0: exports = false keeps the positive entries *)
Fixpoint as_medium_from (i : nat) (exports : bool) (ex : exmap) (v : vec) : list (nat * Q) :=
  match ex, v with
  | e :: ex', x :: v' =>
      (match e with
       | Some b => if Qeq_bool x 0 then []
                   else if exports || Qlt_b 0 (imp b x) then [(i, imp b x)] else []
       | None => [] end) ++ as_medium_from (S i) exports ex' v'
  | _, _ => []
  end.
Definition as_medium := as_medium_from 0.

(* applying a medium to the model = the setter of Model.v, reaction by reaction (this is what
   medium_set does when no key occurs twice: theorem medium_set_effect)                    *)
Definition xr_of (e : option bool) (r : rxn) : xr :=
  match e with
  | Some b => mkXr true b (negb b) (rx_lb r) (rx_ub r)
  | None => mkXr false true true (rx_lb r) (rx_ub r)
  end.
Definition med_rxn (e : option bool) (r : rxn) (ob : option Q) : option rxn :=
  let x := xr_of e r in
  match (match ob with
         | Some b => set_active_bound x (Fin b)
         | None => if x_exch x then close_rxn x else Some x end) with
  | Some x' => Some (mkRxn (rx_col r) (x_lb x') (x_ub x') (rx_obj r))
  | None => None
  end.
Fixpoint apply_from (i : nat) (ex : exmap) (rs : list rxn) (mu : list (nat * Q)) : option (list rxn) :=
  match ex, rs with
  | e :: ex', r :: rs' =>
      match med_rxn e r (assoc i mu), apply_from (S i) ex' rs' mu with
      | Some r', Some rs'' => Some (r' :: rs'')
      | _, _ => None
      end
  | _, _ => Some []
  end.
Definition apply_medium (m : fbamodel) (ex : exmap) (mu : list (nat * Q)) : option fbamodel :=
  match apply_from 0 ex (rxns m) mu with
  | Some rs => Some (mkFba (nmets m) rs (maximize m))
  | None => None
  end.

(* open_exchanges: `if open_exchanges:` (0 is falsy); rxn.bounds = (-B, B) raises when -B > B *)
Definition open_rxn (B : Q) (e : option bool) (r : rxn) : rxn :=
  match e with Some _ => mkRxn (rx_col r) (Fin (- B)) (Fin B) (rx_obj r) | None => r end.
Fixpoint map2 {A B C} (f : A -> B -> C) (l : list A) (l' : list B) : list C :=
  match l, l' with a :: t, b :: t' => f a b :: map2 f t t' | _, _ => [] end.
Definition open_model (m : fbamodel) (ex : exmap) (ob : option Q) : option fbamodel :=   (* None = ValueError *)
  match ob with
  | None => Some m
  | Some B =>
      if Qeq_bool B 0 then Some m
      else if Qle_bool 0 B || negb (existsb (fun e => match e with Some _ => true | None => false end) ex)
           then Some (mkFba (nmets m) (map2 (open_rxn B) ex (rxns m)) (maximize m))
      else None
  end.

(* ---- add_mip_obj: one binary indicator per exchange, import variable - big_m * indicator <= 0.
   The family of indicators (keyed by exchange id in the code) is represented as a list aligned with
   the reactions; entries at non-exchange positions stand for "no variable" and are ignored.     *)
Definition imp_var (e : bool) (fr : Q * Q) : Q := if e then snd fr else fst fr.

Fixpoint ind_ok (M : Q) (ex : exmap) (zs : list (Q * Q)) (inds : vec) : Prop :=
  match ex, zs, inds with
  | [], [], [] => True
  | e :: ex', fr :: zs', z :: inds' =>
      match e with
      | Some b => (z == 0 \/ z == 1) /\ imp_var b fr - M * z <= 0
      | None => True
      end /\ ind_ok M ex' zs' inds'
  | _, _, _ => False
  end.
Fixpoint ind_sum (ex : exmap) (inds : vec) : Q :=
  match ex, inds with
  | Some _ :: ex', z :: inds' => z + ind_sum ex' inds'
  | None :: ex', _ :: inds' => ind_sum ex' inds'
  | _, _ => 0
  end.
Definition mip_feasible (m : fbamodel) (ex : exmap) (t M : Q) (zs : list (Q * Q)) (inds : vec) : Prop :=
  feasible (mm_lp m ex t) (flat zs) /\ ind_ok M ex zs inds.
Definition mip_opt (m : fbamodel) (ex : exmap) (t M : Q) (zs : list (Q * Q)) (inds : vec) : Prop :=
  mip_feasible m ex t M zs inds /\
  forall zs' inds', mip_feasible m ex t M zs' inds' -> ind_sum ex inds <= ind_sum ex inds'.

(* big_m = max(abs(b) for r in exchange_rxns for b in r.bounds), as a hypothesis on M *)
Definition ebabs_le (b : ebound) (M : Q) : Prop := match b with Fin q => - M <= q /\ q <= M | _ => False end.
Fixpoint bigm_ok (M : Q) (ex : exmap) (rs : list rxn) : Prop :=
  match ex, rs with
  | Some _ :: ex', r :: rs' => ebabs_le (rx_lb r) M /\ ebabs_le (rx_ub r) M /\ bigm_ok M ex' rs'
  | None :: ex', _ :: rs' => bigm_ok M ex' rs'
  | _, _ => True
  end.

(* ---- exhaustive subset enumeration (exact oracle for the number of components) ---- *)
(* the model with the import of every exchange outside `a` closed *)
Definition restrict_rxn (e : option bool) (keep : bool) (r : rxn) : rxn :=
  match e with
  | Some true => if keep then r else mkRxn (rx_col r) (if eneg (rx_lb r) then Fin 0 else rx_lb r) (rx_ub r) (rx_obj r)
  | Some false => if keep then r else mkRxn (rx_col r) (rx_lb r) (if epos (rx_ub r) then Fin 0 else rx_ub r) (rx_obj r)
  | None => r
  end.
Fixpoint restrict_rxns (ex : exmap) (a : list bool) (rs : list rxn) : list rxn :=
  match ex, a, rs with
  | e :: ex', k :: a', r :: rs' => restrict_rxn e k r :: restrict_rxns ex' a' rs'
  | _, _, _ => []
  end.
(* maximise the (unsigned) objective over the restricted flux polytope *)
Definition growth_lp (m : fbamodel) (rs : list rxn) : lp :=
  mkLP (map (fun r => (rx_lb r, rx_ub r)) rs) (rows (net_lp m)) (cvec m).
Definition restricted_lp (m : fbamodel) (ex : exmap) (a : list bool) : lp :=
  growth_lp m (restrict_rxns ex a (rxns m)).

Fixpoint subsets (ex : exmap) : list (list bool) :=
  match ex with
  | [] => [[]]
  | None :: ex' => map (cons false) (subsets ex')
  | Some _ :: ex' => map (cons false) (subsets ex') ++ map (cons true) (subsets ex')
  end.

Inductive scert := SOpt (x y : vec) | SInf (y : vec).

(* smallest cardinality among the subsets whose certified maximal growth reaches t;
   None = a certificate was rejected or the lists do not line up; Some None = no subset suffices *)
Fixpoint min_card (m : fbamodel) (ex : exmap) (t : Q) (subs : list (list bool)) (certs : list scert)
  : option (option nat) :=
  match subs, certs with
  | [], [] => Some None
  | a :: subs', c :: certs' =>
      match min_card m ex t subs' certs' with
      | None => None
      | Some best =>
          match c with
          | SOpt x y =>
              if check_opt (restricted_lp m ex a) x y then
                if Qle_bool t (value (restricted_lp m ex a) x)
                then Some (Some (match best with Some n => Nat.min n (card a) | None => card a end))
                else Some best
              else None
          | SInf y => if check_infeasible (restricted_lp m ex a) y then Some best else None
          end
      end
  | _, _ => None
  end.
Definition check_components (m : fbamodel) (ex : exmap) (t : Q) (certs : list scert) : option (option nat) :=
  min_card m ex t (subsets ex) certs.
