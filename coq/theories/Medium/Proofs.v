(* Proofs about the medium getter / setter model (C18, first half). *)
From Coq Require Import String QArith List Bool Lia Lqa.
From Cobra.LP Require Import Defs Fba.
From Cobra.Medium Require Import Model.
Import ListNotations.
Open Scope Q_scope.

(* ---------- lists ---------- *)
Lemma upd_length i r' : forall w, length (upd i r' w) = length w.
Proof. induction i as [|i IH]; intros [|r w]; cbn; auto. Qed.

Lemma nth_upd_same : forall i r' w r, nth_error w i = Some r -> nth_error (upd i r' w) i = Some r'.
Proof. induction i as [|i IH]; intros r' [|r0 w] r H; cbn in *; try discriminate; eauto. Qed.

Lemma nth_upd_other : forall i j r' w, i <> j -> nth_error (upd i r' w) j = nth_error w j.
Proof.
  induction i as [|i IH]; intros [|j] r' [|r0 w] H; cbn; try reflexivity; try lia.
  apply IH. lia.
Qed.

Lemma mem_assoc i mu : mem i (map fst mu) = match assoc i mu with Some _ => true | None => false end.
Proof.
  induction mu as [|[j b] mu IH]; cbn; [reflexivity|].
  destruct (Nat.eqb i j); cbn; [reflexivity|exact IH].
Qed.

Lemma assoc_in i b mu : assoc i mu = Some b -> In (i, b) mu.
Proof.
  induction mu as [|[j c] mu IH]; cbn; [discriminate|].
  destruct (Nat.eqb i j) eqn:E.
  - apply Nat.eqb_eq in E. intros H. injection H as ->. subst. now left.
  - intros H. right. auto.
Qed.

Lemma in_assoc i b mu : NoDup (map fst mu) -> In (i, b) mu -> assoc i mu = Some b.
Proof.
  induction mu as [|[j c] mu IH]; cbn; intros ND H; [contradiction|].
  inversion ND as [|k ks Hn ND']; subst.
  destruct H as [H|H].
  - injection H as -> ->. now rewrite Nat.eqb_refl.
  - destruct (Nat.eqb i j) eqn:E.
    + apply Nat.eqb_eq in E. subst. exfalso. apply Hn. apply in_map_iff. exists (j, b). auto.
    + auto.
Qed.

Lemma assoc_none_notin i mu : assoc i mu = None -> ~ In i (map fst mu).
Proof.
  induction mu as [|[j c] mu IH]; cbn; [tauto|].
  destruct (Nat.eqb i j) eqn:E; [discriminate|].
  apply Nat.eqb_neq in E. intros H [K|K]; [congruence|]. now apply IH.
Qed.

(* ---------- the bound setters ---------- *)
Lemma Qopp_opp_eq (q : Q) : - - q = q.
Proof. destruct q as [n d]. unfold Qopp. cbn. now rewrite Z.opp_involutive. Qed.
Lemma eopp_involutive b : eopp (eopp b) = b.
Proof. destruct b; cbn; try reflexivity. now rewrite Qopp_opp_eq. Qed.

Lemma set_active_bound_spec r b r' : set_active_bound r b = Some r' ->
  x_exch r' = x_exch r /\ x_react r' = x_react r /\ x_prod r' = x_prod r /\
  (x_react r = true -> x_lb r' = eopp b /\ x_ub r' = x_ub r) /\
  (x_react r = false -> x_prod r = true -> x_ub r' = b /\ x_lb r' = x_lb r) /\
  (x_react r = false -> x_prod r = false -> r' = r).
Proof.
  unfold set_active_bound, set_lower, set_upper.
  destruct (x_react r) eqn:Er.
  - destruct (egt (eopp b) (x_ub r)); [discriminate|]. intros H; injection H as <-. cbn.
    repeat split; auto; intros; discriminate.
  - destruct (x_prod r) eqn:Ep.
    + destruct (egt (x_lb r) b); [discriminate|]. intros H; injection H as <-. cbn.
      repeat split; auto; intros; discriminate.
    + intros H; injection H as <-. repeat split; auto; intros; discriminate.
Qed.

(* ---------- first loop ---------- *)
Definition listed_res (r : xr) (ob : option Q) : option xr :=
  match ob with Some b => set_active_bound r (Fin b) | None => Some r end.

Lemma set_listed_ok mu : forall w w1, NoDup (map fst mu) -> set_listed w mu = Ok w1 ->
  length w1 = length w /\
  forall i, nth_error w1 i = match nth_error w i with Some r => listed_res r (assoc i mu) | None => None end.
Proof.
  induction mu as [|[j b] mu IH]; intros w w1 ND H; cbn in H.
  - injection H as <-. split; [reflexivity|]. intros i. cbn. destruct (nth_error w i); reflexivity.
  - inversion ND as [|k ks Hn ND']; subst.
    destruct (nth_error w j) as [rj|] eqn:Ej; [|discriminate].
    destruct (set_active_bound rj (Fin b)) as [rj'|] eqn:Es; [|discriminate].
    destruct (IH _ _ ND' H) as [L N]. split; [now rewrite L, upd_length|].
    intros i. rewrite N. cbn [assoc]. destruct (Nat.eqb i j) eqn:E.
    + apply Nat.eqb_eq in E. subst i. rewrite (nth_upd_same _ _ _ _ Ej), Ej. cbn.
      destruct (assoc j mu) eqn:Ea; [|now rewrite Es].
      exfalso. apply Hn. apply assoc_in in Ea. apply in_map_iff. exists (j, q). auto.
    + apply Nat.eqb_neq in E. rewrite nth_upd_other by congruence. reflexivity.
Qed.

Lemma set_listed_succeeds mu : forall w, NoDup (map fst mu) ->
  (forall i b, In (i, b) mu -> exists r, nth_error w i = Some r /\ set_active_bound r (Fin b) <> None) ->
  exists w1, set_listed w mu = Ok w1.
Proof.
  induction mu as [|[j b] mu IH]; intros w ND H; cbn.
  - eauto.
  - inversion ND as [|k ks Hn ND']; subst.
    destruct (H j b (or_introl eq_refl)) as [rj [Ej Es]]. rewrite Ej.
    destruct (set_active_bound rj (Fin b)) as [rj'|]; [|congruence].
    apply IH; [exact ND'|]. intros i c Hin.
    destruct (H i c (or_intror Hin)) as [r [Ei Hs]]. exists r. split; [|exact Hs].
    rewrite nth_upd_other; [exact Ei|]. intros ->. apply Hn. apply in_map_iff. exists (i, c). auto.
Qed.

Lemma set_listed_fails_inv mu : forall w e w1, set_listed w mu = Raised e w1 ->
  exists i b, In (i, b) mu /\
    ((e = KeyError /\ nth_error w1 i = None) \/
     (e = ValueError /\ exists r, nth_error w1 i = Some r /\ set_active_bound r (Fin b) = None)).
Proof.
  induction mu as [|[j b] mu IH]; intros w e w1 H; cbn in H; [discriminate|].
  destruct (nth_error w j) as [rj|] eqn:Ej.
  - destruct (set_active_bound rj (Fin b)) as [rj'|] eqn:Es.
    + destruct (IH _ _ _ H) as [i [c [Hin K]]]. exists i, c. split; [now right|exact K].
    + injection H as <- <-. exists j, b. split; [now left|]. right. split; [reflexivity|]. eauto.
  - injection H as <- <-. exists j, b. split; [now left|]. left. auto.
Qed.

(* ---------- second loop ---------- *)
Lemma close_from_ok keys : forall w i0 w2, close_from i0 keys w = Some w2 ->
  length w2 = length w /\
  forall k r, nth_error w k = Some r ->
    (if x_exch r && negb (mem (i0 + k) keys) then close_rxn r else Some r) = nth_error w2 k.
Proof.
  induction w as [|r0 w IH]; intros i0 w2 H; cbn in H.
  - injection H as <-. split; [reflexivity|]. intros [|k] r; discriminate.
  - destruct (if x_exch r0 && negb (mem i0 keys) then close_rxn r0 else Some r0) as [r0'|] eqn:E0; [|discriminate].
    destruct (close_from (S i0) keys w) as [w2'|] eqn:E1; [|discriminate].
    injection H as <-. destruct (IH _ _ E1) as [L N]. split; [cbn; now rewrite L|].
    intros [|k] r Hk; cbn in *.
    + injection Hk as <-. rewrite Nat.add_0_r. exact E0.
    + rewrite <- (N k r Hk). now rewrite Nat.add_succ_r.
Qed.

Lemma close_from_succeeds keys : forall w i0,
  (forall k r, nth_error w k = Some r -> x_exch r && negb (mem (i0 + k) keys) = true -> close_rxn r <> None) ->
  exists w2, close_from i0 keys w = Some w2.
Proof.
  induction w as [|r0 w IH]; intros i0 H; cbn; [eauto|].
  destruct (IH (S i0)) as [w2 E].
  { intros k r Hk Hc. apply (H (S k) r Hk). now rewrite Nat.add_succ_r. }
  rewrite E. destruct (x_exch r0 && negb (mem i0 keys)) eqn:Ec.
  - specialize (H O r0 eq_refl). rewrite Nat.add_0_r in H. specialize (H Ec).
    destruct (close_rxn r0); [eauto|congruence].
  - eauto.
Qed.

(* ---------- medium_set_effect ---------- *)
Theorem medium_set_effect w mu w' : NoDup (map fst mu) -> medium_set w mu = Ok w' ->
  length w' = length w /\
  forall i r, nth_error w i = Some r ->
    exists r', nth_error w' i = Some r' /\
      match assoc i mu with
      | Some b => set_active_bound r (Fin b) = Some r'
      | None => if x_exch r then close_rxn r = Some r' else r' = r
      end.
Proof.
  unfold medium_set. intros ND H.
  destruct (set_listed w mu) as [w1|] eqn:E1; [|discriminate].
  destruct (close_from 0 (map fst mu) w1) as [w2|] eqn:E2; [|discriminate].
  injection H as <-.
  destruct (set_listed_ok _ _ _ ND E1) as [L1 N1]. destruct (close_from_ok _ _ _ _ E2) as [L2 N2].
  split; [congruence|]. intros i r Hi.
  specialize (N1 i). rewrite Hi in N1. cbn in N1.
  destruct (assoc i mu) as [b|] eqn:Ea; cbn in N1.
  - destruct (set_active_bound r (Fin b)) as [r1|] eqn:Es.
    + specialize (N2 i r1 N1). cbn in N2. rewrite mem_assoc, Ea in N2. rewrite andb_false_r in N2.
      exists r1. split; [now symmetry|reflexivity].
    + (* nth_error w1 i = None although i < length w: impossible *)
      exfalso. apply nth_error_None in N1. assert (i < length w)%nat by (apply nth_error_Some; congruence). lia.
  - specialize (N2 i r N1). cbn in N2. rewrite mem_assoc, Ea in N2. rewrite andb_true_r in N2.
    destruct (x_exch r) eqn:Ex.
    + destruct (close_rxn r) as [r2|] eqn:Ec.
      * exists r2. split; [now symmetry|reflexivity].
      * exfalso. symmetry in N2. apply nth_error_None in N2.
        assert (i < length w)%nat by (apply nth_error_Some; congruence). lia.
    + exists r. split; [now symmetry|reflexivity].
Qed.

(* the same, in the words of the property: for an exchange written in either notation, the
   import bound becomes the listed value / is closed (min(0, old import bound)) when unlisted, the
   export bound is untouched, the classification flags never change, non-exchanges not listed
   are untouched. *)
Theorem medium_set_bounds w mu w' : wf_world w = true -> NoDup (map fst mu) -> medium_set w mu = Ok w' ->
  length w' = length w /\
  forall i r, nth_error w i = Some r ->
    exists r', nth_error w' i = Some r' /\
      x_exch r' = x_exch r /\ x_react r' = x_react r /\ x_prod r' = x_prod r /\
      (x_exch r = true ->
         export_bound r' = export_bound r /\
         import_bound r' = match assoc i mu with Some b => Fin b | None => emin0 (import_bound r) end) /\
      (x_exch r = false -> assoc i mu = None -> r' = r).
Proof.
  intros WF ND H. destruct (medium_set_effect _ _ _ ND H) as [L N]. split; [exact L|].
  intros i r Hi. destruct (N i r Hi) as [r' [Hi' K]]. exists r'. split; [exact Hi'|].
  assert (W : wf_xr r = true).
  { unfold wf_world in WF. rewrite forallb_forall in WF. apply WF. eapply nth_error_In; eauto. }
  unfold wf_xr in W.
  destruct (assoc i mu) as [b|] eqn:Ea.
  - destruct (set_active_bound_spec _ _ _ K) as [A [B [C [D [E F]]]]].
    split; [exact A|]. split; [exact B|]. split; [exact C|]. split; [|intros; discriminate].
    intros Ex. rewrite Ex in W. unfold export_bound, import_bound. rewrite B.
    destruct (x_react r) eqn:Er.
    + destruct (D eq_refl) as [D1 D2]. split; [exact D2|]. rewrite D1. cbn. now rewrite Qopp_opp_eq.
    + destruct (x_prod r) eqn:Ep; [|discriminate]. destruct (E eq_refl eq_refl) as [E1 E2]. split; assumption.
  - destruct (x_exch r) eqn:Ex.
    + unfold close_rxn in K. destruct (set_active_bound_spec _ _ _ K) as [A [B [C [D [E F]]]]].
      split; [congruence|]. split; [exact B|]. split; [exact C|]. split; [|intros; discriminate].
      intros _. unfold export_bound, import_bound. rewrite B.
      destruct (x_react r) eqn:Er.
      * destruct (x_prod r) eqn:Ep; [discriminate|]. cbn in *.
        destruct (D eq_refl) as [D1 D2]. split; [exact D2|]. rewrite D1. now rewrite eopp_involutive.
      * destruct (x_prod r) eqn:Ep; [|discriminate]. cbn in *. destruct (E eq_refl eq_refl) as [E1 E2]. split; assumption.
    + subst r'. repeat split; auto; intros; discriminate.
Qed.

(* ---------- reading back ---------- *)
Lemma in_get_from : forall w i0 i v,
  In (i, v) (get_from i0 w) <->
  exists k r, i = (i0 + k)%nat /\ nth_error w k = Some r /\ x_exch r = true /\ is_active r = true /\ v = get_active_bound r.
Proof.
  induction w as [|r0 w IH]; intros i0 i v; cbn.
  - split; [tauto|]. intros [[|k] [r [_ [H _]]]]; discriminate.
  - rewrite in_app_iff, IH. split.
    + intros [H|[k [r [E [Hk R]]]]].
      * destruct (x_exch r0 && is_active r0) eqn:Ec; [|contradiction].
        destruct H as [H|[]]. injection H as <- <-. apply andb_true_iff in Ec as [A B].
        exists O, r0. rewrite Nat.add_0_r. auto.
      * exists (S k), r. rewrite Nat.add_succ_r. auto.
    + intros [[|k] [r [E [Hk [A [B C]]]]]]; cbn in Hk.
      * injection Hk as <-. left. rewrite A, B. cbn. left. rewrite Nat.add_0_r in E. now subst.
      * right. exists k, r. rewrite Nat.add_succ_r in E. auto.
Qed.

Lemma emin0_not_pos b : epos (emin0 b) = false.
Proof.
  destruct b as [|q|]; cbn; try reflexivity.
  destruct (Qle_bool 0 q) eqn:E; cbn; [reflexivity|]. qb. apply negb_false_iff, Qle_bool_iff. lra.
Qed.
Lemma eneg_eopp b : eneg (eopp b) = epos b.
Proof.
  destruct b as [|q|]; cbn; try reflexivity. f_equal.
  destruct (Qle_bool 0 (- q)) eqn:E1; destruct (Qle_bool q 0) eqn:E2; qb; try reflexivity; lra.
Qed.
Lemma epos_fin b : epos (Fin b) = true <-> 0 < b.
Proof.
  cbn. split; intros H.
  - apply negb_true_iff in H. qb. assumption.
  - apply negb_true_iff. destruct (Qle_bool b 0) eqn:E; [qb; lra|reflexivity].
Qed.

(* is_active / get_active_bound through import_bound, for a well-formed exchange *)
Lemma active_import r : x_exch r = true -> wf_xr r = true ->
  is_active r = epos (import_bound r) /\ get_active_bound r = Some (import_bound r).
Proof.
  unfold wf_xr, is_active, get_active_bound, import_bound. intros -> W.
  destruct (x_react r), (x_prod r); try discriminate; cbn.
  - split; [|reflexivity]. rewrite <- (eopp_involutive (x_lb r)) at 1. now rewrite eneg_eopp.
  - now rewrite orb_false_r.
Qed.

Theorem medium_set_get w mu w' : wf_world w = true -> NoDup (map fst mu) ->
  (forall i b, In (i, b) mu -> exists r, nth_error w i = Some r /\ x_exch r = true) ->
  medium_set w mu = Ok w' ->
  forall i v, In (i, v) (medium_get w') <-> exists b, In (i, b) mu /\ 0 < b /\ v = Some (Fin b).
Proof.
  intros WF ND EX H i v. destruct (medium_set_bounds _ _ _ WF ND H) as [L N].
  unfold medium_get. rewrite in_get_from. cbn. split.
  - intros [k [r' [-> [Hk [Ex' [Ac ->]]]]]].
    assert (Hlt : (k < length w)%nat) by (rewrite <- L; apply nth_error_Some; congruence).
    destruct (nth_error w k) as [r|] eqn:Er; [|apply nth_error_None in Er; lia].
    destruct (N k r Er) as [r'' [Hk'' [A [B [C [D E]]]]]]. rewrite Hk in Hk''. injection Hk'' as <-.
    assert (Ex : x_exch r = true) by congruence.
    destruct (D Ex) as [_ Imp].
    assert (W' : wf_xr r' = true).
    { unfold wf_world in WF. rewrite forallb_forall in WF.
      specialize (WF r (nth_error_In _ _ Er)). unfold wf_xr in *. now rewrite A, B, C. }
    destruct (active_import r' Ex' W') as [Ia Ig]. rewrite Ia, Imp in Ac. rewrite Ig, Imp.
    destruct (assoc k mu) as [b|] eqn:Ea.
    + exists b. split; [now apply assoc_in|]. split; [now apply epos_fin|reflexivity].
    + now rewrite emin0_not_pos in Ac.
  - intros [b [Hin [Hb ->]]]. destruct (EX i b Hin) as [r [Er Ex]].
    destruct (N i r Er) as [r' [Hk' [A [B [C [D E]]]]]]. destruct (D Ex) as [_ Imp].
    rewrite (in_assoc _ _ _ ND Hin) in Imp.
    assert (Ex' : x_exch r' = true) by congruence.
    assert (W' : wf_xr r' = true).
    { unfold wf_world in WF. rewrite forallb_forall in WF.
      specialize (WF r (nth_error_In _ _ Er)). unfold wf_xr in *. now rewrite A, B, C. }
    destruct (active_import r' Ex' W') as [Ia Ig].
    exists i, r'. repeat split; auto.
    + rewrite Ia, Imp. now apply epos_fin.
    + now rewrite Ig, Imp.
Qed.

Lemma get_from_keys_ge : forall w i0 i, In i (map fst (get_from i0 w)) -> (i0 <= i)%nat.
Proof.
  intros w i0 i H. apply in_map_iff in H as [[j v] [E Hin]]. cbn in E. subst j.
  apply in_get_from in Hin as [k [r [-> _]]]. lia.
Qed.
Lemma medium_get_nodup w : NoDup (map fst (medium_get w)).
Proof.
  unfold medium_get. generalize 0%nat. induction w as [|r w IH]; intros i0; cbn; [constructor|].
  destruct (x_exch r && is_active r); cbn; [|apply IH].
  constructor; [|apply IH]. intros H. apply get_from_keys_ge in H. lia.
Qed.

(* ---------- when does the setter raise ---------- *)
Theorem medium_set_ok_iff w mu : NoDup (map fst mu) ->
  ((exists w', medium_set w mu = Ok w') <->
   (forall i b, In (i, b) mu -> exists r, nth_error w i = Some r /\ set_active_bound r (Fin b) <> None) /\
   (forall i r, nth_error w i = Some r -> x_exch r = true -> assoc i mu = None -> close_rxn r <> None)).
Proof.
  intros ND. split.
  - intros [w' H]. destruct (medium_set_effect _ _ _ ND H) as [L N]. split.
    + intros i b Hin. pose proof (in_assoc _ _ _ ND Hin) as Ea.
      destruct (nth_error w i) as [r|] eqn:Er.
      * exists r. split; [reflexivity|]. destruct (N i r Er) as [r' [_ K]]. rewrite Ea in K. congruence.
      * exfalso. unfold medium_set in H. destruct (set_listed w mu) as [w1|] eqn:E1; [|discriminate].
        destruct (set_listed_ok _ _ _ ND E1) as [_ N1].
        (* a listed key that is out of range makes the first loop raise *)
        clear - E1 Hin Er ND. revert w E1 Er. induction mu as [|[j c] mu IH]; intros w E1 Er; [contradiction|].
        cbn in E1. inversion ND as [|k ks Hn ND']; subst. destruct Hin as [Hin|Hin].
        -- injection Hin as -> ->. now rewrite Er in E1.
        -- destruct (nth_error w j) as [rj|] eqn:Ej; [|discriminate].
           destruct (set_active_bound rj (Fin c)) as [rj'|]; [|discriminate].
           apply (IH ND' Hin _ E1). rewrite nth_upd_other; [exact Er|].
           intros ->. congruence.
    + intros i r Er Ex Ea. destruct (N i r Er) as [r' [_ K]]. rewrite Ea, Ex in K. congruence.
  - intros [HL HC]. destruct (set_listed_succeeds mu w ND HL) as [w1 E1].
    destruct (set_listed_ok _ _ _ ND E1) as [L1 N1].
    destruct (close_from_succeeds (map fst mu) w1 0) as [w2 E2].
    + intros k r1 Hk Hc. cbn in Hc. apply andb_true_iff in Hc as [Ex Hm].
      rewrite mem_assoc in Hm. destruct (assoc k mu) eqn:Ea; [discriminate|].
      specialize (N1 k). rewrite Hk in N1. destruct (nth_error w k) as [r|] eqn:Er; [|discriminate].
      rewrite Ea in N1. cbn in N1. injection N1 as ->. eapply HC; eauto.
    + exists w2. unfold medium_set. now rewrite E1, E2.
Qed.

(* in words, for an exchange whose bounds are valid (lb <= ub): a listed value b is rejected exactly
   when it conflicts with the export bound (`A -->`: -b > ub ; `--> A`: lb > b), and closing an
   unlisted exchange is rejected exactly when the reaction is forced to import (`A -->`: ub < 0 ;
   `--> A`: lb > 0).                                                                       *)
Lemma listed_raises_iff r b : wf_xr r = true -> x_exch r = true ->
  (set_active_bound r (Fin b) = None <->
   (if x_react r then egt (Fin (- b)) (x_ub r) else egt (x_lb r) (Fin b)) = true).
Proof.
  unfold wf_xr, set_active_bound, set_lower, set_upper. intros W Ex. rewrite Ex in W.
  destruct (x_react r), (x_prod r); try discriminate; cbn [eopp].
  - destruct (egt (Fin (- b)) (x_ub r)); split; congruence.
  - destruct (egt (x_lb r) (Fin b)); split; congruence.
Qed.

Lemma close_raises_iff r : wf_xr r = true -> x_exch r = true -> valid_b (x_lb r) (x_ub r) = true ->
  (close_rxn r = None <-> (if x_react r then eneg (x_ub r) else epos (x_lb r)) = true).
Proof.
  unfold wf_xr, close_rxn, set_active_bound, set_lower, set_upper. intros W Ex V. rewrite Ex in W.
  destruct (x_react r), (x_prod r); try discriminate; cbn [andb negb];
    destruct (x_lb r) as [|l|], (x_ub r) as [|u|]; cbn in *; try discriminate;
    repeat match goal with
           | |- context [Qle_bool ?a ?b] => let E := fresh "E" in destruct (Qle_bool a b) eqn:E; cbn
           end;
    try (split; intros; congruence); qb; exfalso; lra.
Qed.

(* ---------- is_boundary_type: annotations dominate, under the table side condition ---------- *)
Open Scope string_scope.
Lemma sbo_other_false excl sbo r bt own k v :
  distinct_vals sbo = true -> lookup bt sbo = Some own ->
  In (k, v) sbo -> k <> bt -> ri_sbo r = v -> v <> own ->
  is_boundary_type excl sbo r bt = Some false.
Proof.
  intros _ Lo Hin Hk Hs Hv. unfold is_boundary_type. rewrite Lo.
  assert (E1 : String.eqb (ri_sbo r) own = false) by (apply String.eqb_neq; congruence).
  assert (E2 : existsb (fun kv => negb (String.eqb (fst kv) bt) && String.eqb (ri_sbo r) (snd kv)) sbo = true).
  { apply existsb_exists. exists (k, v). split; [exact Hin|]. cbn.
    apply andb_true_iff. split; [apply negb_true_iff, String.eqb_neq; exact Hk|apply String.eqb_eq; exact Hs]. }
  destruct (lookup bt excl); now rewrite E1, E2.
Qed.

Lemma sbo_own_true excl sbo r bt own :
  lookup bt sbo = Some own -> ri_sbo r = own -> is_boundary_type excl sbo r bt = Some true.
Proof.
  intros Lo Hs. unfold is_boundary_type. rewrite Lo.
  assert (E1 : String.eqb (ri_sbo r) own = true) by (apply String.eqb_eq; exact Hs).
  destruct (lookup bt excl); now rewrite E1.
Qed.

Lemma distinct_vals_in t : distinct_vals t = true -> forall k1 k2 v, In (k1, v) t -> In (k2, v) t -> lookup k1 t = Some v -> lookup k2 t = Some v -> k1 = k2.
Proof.
  induction t as [|[k w] t IH]; cbn; [tauto|]. intros D k1 k2 v H1 H2 L1 L2.
  apply andb_true_iff in D as [D1 D2]. apply negb_true_iff in D1.
  assert (NI : forall k', ~ In (k', w) t).
  { intros k' Hin. assert (existsb (fun kv => String.eqb w (snd kv)) t = true); [|congruence].
    apply existsb_exists. exists (k', w). split; [exact Hin|apply String.eqb_refl]. }
  destruct (String.eqb k1 k) eqn:E1; destruct (String.eqb k2 k) eqn:E2.
  - apply String.eqb_eq in E1, E2. congruence.
  - injection L1 as ->. apply String.eqb_eq in E1. subst.
    destruct H2 as [H2|H2]; [injection H2 as ->; now rewrite String.eqb_refl in E2|]. exfalso. eapply NI; eauto.
  - injection L2 as ->. apply String.eqb_eq in E2. subst.
    destruct H1 as [H1|H1]; [injection H1 as ->; now rewrite String.eqb_refl in E1|]. exfalso. eapply NI; eauto.
  - destruct H1 as [H1|H1]; [injection H1 as -> ->; now rewrite String.eqb_refl in E1|].
    destruct H2 as [H2|H2]; [injection H2 as -> ->; now rewrite String.eqb_refl in E2|].
    eapply IH; eauto.
Qed.
