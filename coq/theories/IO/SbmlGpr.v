(* Gene product associations: writing a rule tree as nested fbc:and / fbc:or / fbc:geneProductRef and reading
   it back (SbmlDoc.write_assoc / read_assoc) gives the tree [assoc_norm t] -- single-child operators dropped,
   nested operators of the same kind merged -- with the original gene ids, and that tree denotes the same
   Boolean function, for every tree. *)
From Coq Require Import ZArith QArith List Bool Lia.
From Cobra.GPR Require Import Syntax Proofs.
From Cobra.IO Require Import Str JVal DictModel SbmlId SbmlDoc.
Import ListNotations.
Open Scope Z_scope.

Lemma forallb_flat_map {A B} (p : B -> bool) (g : A -> list B) : forall l,
  forallb p (flat_map g l) = forallb (fun x => forallb p (g x)) l.
Proof. induction l as [|x l IH]; cbn; auto. rewrite forallb_app, IH. reflexivity. Qed.

Lemma existsb_flat_map {A B} (p : B -> bool) (g : A -> list B) : forall l,
  existsb p (flat_map g l) = existsb (fun x => existsb p (g x)) l.
Proof. induction l as [|x l IH]; cbn; auto. rewrite existsb_app, IH. reflexivity. Qed.

(* ------------------------------------------------------------------ the Boolean function is kept *)
Lemma eval_collapse : forall K t, eval K (collapse t) = eval K t.
Proof.
  intros K t. induction t as [g|o l IH] using gpr_ind'; [reflexivity|].
  rewrite Forall_forall in IH.
  destruct l as [|x [|y r]].
  - reflexivity.
  - cbn [collapse]. rewrite (IH x (or_introl eq_refl)). destruct o; cbn; [symmetry; apply andb_true_r | symmetry; apply orb_false_r].
  - change (collapse (Bool o (x :: y :: r))) with (Bool o (map collapse (x :: y :: r))).
    destruct o; cbn [eval].
    + rewrite forallb_map'. apply forallb_ext_in. exact IH.
    + rewrite existsb_map'. apply existsb_ext_in. exact IH.
Qed.

(* the children a flattened subtree contributes to a parent with operator o *)
Definition splice (o : bop) (y : gpr) : list gpr :=
  match y with
  | Bool o' l' => if bop_eqb o o' then l' else [Bool o' l']
  | Gene g => [Gene g]
  end.

Lemma flatten_bool : forall o l, flatten (Bool o l) = Bool o (flat_map (fun x => splice o (flatten x)) l).
Proof. reflexivity. Qed.

Lemma eval_splice_and : forall K y, forallb (eval K) (splice And y) = eval K y.
Proof.
  intros K [g|o' l']; cbn [splice]; [cbn; apply andb_true_r|].
  destruct o'; cbn [bop_eqb]; [reflexivity|]. cbn. apply andb_true_r.
Qed.

Lemma eval_splice_or : forall K y, existsb (eval K) (splice Or y) = eval K y.
Proof.
  intros K [g|o' l']; cbn [splice]; [cbn; apply orb_false_r|].
  destruct o'; cbn [bop_eqb]; [|reflexivity]. cbn. apply orb_false_r.
Qed.

Lemma eval_flatten : forall K t, eval K (flatten t) = eval K t.
Proof.
  intros K t. induction t as [g|o l IH] using gpr_ind'; [reflexivity|].
  rewrite Forall_forall in IH. rewrite flatten_bool. destruct o; cbn [eval].
  - rewrite forallb_flat_map. apply forallb_ext_in. intros x Hx. rewrite eval_splice_and. apply IH. exact Hx.
  - rewrite existsb_flat_map. apply existsb_ext_in. intros x Hx. rewrite eval_splice_or. apply IH. exact Hx.
Qed.

Theorem eval_assoc_norm : forall K t, eval K (assoc_norm t) = eval K t.
Proof. intros K t. unfold assoc_norm. rewrite eval_flatten. apply eval_collapse. Qed.

(* ------------------------------------------------------------------ gene ids *)
Lemma rename_rename : forall f g t, rename f (rename g t) = rename (fun s => f (g s)) t.
Proof.
  intros f g t. induction t as [h|o l IH] using gpr_ind'; [reflexivity|].
  cbn [rename]. f_equal. rewrite map_map. apply map_ext_in. rewrite Forall_forall in IH. exact IH.
Qed.

Lemma rename_id : forall f t, (forall g, In g (genes t) -> f g = g) -> rename f t = t.
Proof.
  intros f t. induction t as [h|o l IH] using gpr_ind'; intros H.
  - cbn. rewrite H by (left; reflexivity). reflexivity.
  - cbn [rename]. f_equal. rewrite Forall_forall in IH.
    rewrite <- (map_id l) at 2. apply map_ext_in. intros x Hx. apply IH; [exact Hx|].
    intros g Hg. apply H. cbn [genes]. apply in_flat_map. exists x. split; assumption.
Qed.

Lemma eval_rename : forall K f t, eval K (rename f t) = eval (fun g => K (f g)) t.
Proof.
  intros K f t. induction t as [h|o l IH] using gpr_ind'; [reflexivity|].
  rewrite Forall_forall in IH. cbn [rename]. destruct o; cbn [eval].
  - rewrite forallb_map'. apply forallb_ext_in. exact IH.
  - rewrite existsb_map'. apply existsb_ext_in. exact IH.
Qed.

Lemma genes_collapse : forall t g, In g (genes (collapse t)) -> In g (genes t).
Proof.
  intros t. induction t as [h|o l IH] using gpr_ind'; intros g Hg; [exact Hg|].
  rewrite Forall_forall in IH. destruct l as [|x [|y r]].
  - exact Hg.
  - cbn [collapse] in Hg. cbn [genes flat_map]. rewrite app_nil_r. apply IH; [left; reflexivity|exact Hg].
  - change (collapse (Bool o (x :: y :: r))) with (Bool o (map collapse (x :: y :: r))) in Hg.
    cbn [genes] in *. apply in_flat_map in Hg. destruct Hg as [z [Hz Hg]].
    apply in_map_iff in Hz. destruct Hz as [w [<- Hw]]. apply in_flat_map. exists w. split; [exact Hw|].
    apply IH; assumption.
Qed.

Lemma genes_splice : forall o y g, In g (flat_map genes (splice o y)) -> In g (genes y).
Proof.
  intros o [h|o' l'] g H; cbn [splice] in H.
  - cbn in H. rewrite ?app_nil_r in H. exact H.
  - destruct (bop_eqb o o'); [exact H|]. cbn [flat_map] in H. rewrite ?app_nil_r in H. exact H.
Qed.

Lemma genes_flatten : forall t g, In g (genes (flatten t)) -> In g (genes t).
Proof.
  intros t. induction t as [h|o l IH] using gpr_ind'; intros g Hg; [exact Hg|].
  rewrite Forall_forall in IH. rewrite flatten_bool in Hg. cbn [genes] in *.
  apply in_flat_map in Hg. destruct Hg as [z [Hz Hg]]. apply in_flat_map in Hz. destruct Hz as [x [Hx Hz]].
  apply in_flat_map. exists x. split; [exact Hx|]. apply IH; [exact Hx|]. apply genes_splice with (o := o).
  apply in_flat_map. exists z. split; assumption.
Qed.

Lemma genes_assoc_norm : forall t g, In g (genes (assoc_norm t)) -> In g (genes t).
Proof. intros t g H. apply genes_collapse. apply genes_flatten. exact H. Qed.

(* ------------------------------------------------------------------ the round trip of an association *)
Section Assoc.
  Variable dec : Z -> str.
  Variable undec : str -> Z.
  Variable clean : str -> str.
  Variable E : senv.

  Notation write_assoc := (write_assoc dec E).
  Notation read_assoc := (read_assoc undec clean E).

  (* for every tree: a tree with an operator without operands is not written at all; any other tree comes
     back as assoc_norm t (given that its gene ids survive the id codec and GPRCleaner), and assoc_norm t is
     the same Boolean function as t *)
  Theorem gpr_assoc_roundtrip : forall t,
    (wf t = false -> write_assoc t = None) /\
    (wf t = true ->
     (forall g, In g (genes t) -> clean (dec_g undec E (enc_g dec E g)) = g) ->
     option_map read_assoc (write_assoc t) = Some (assoc_norm t)) /\
    (forall K, eval K (assoc_norm t) = eval K t).
  Proof.
    intros t. split; [|split].
    - intros H. unfold SbmlDoc.write_assoc. rewrite H. reflexivity.
    - intros H Hg. unfold SbmlDoc.write_assoc. rewrite H. cbn [option_map]. f_equal.
      unfold SbmlDoc.read_assoc. rewrite rename_rename. apply rename_id.
      intros g Hin. apply Hg. apply genes_assoc_norm. exact Hin.
    - intros K. apply eval_assoc_norm.
  Qed.

  (* what is read is a Boolean function of the same genes: evaluated on any knockout set it agrees with the
     rule that was written *)
  Corollary gpr_assoc_same_function : forall t r,
    wf t = true -> (forall g, In g (genes t) -> clean (dec_g undec E (enc_g dec E g)) = g) ->
    option_map read_assoc (write_assoc t) = Some r -> forall K, eval K r = eval K t.
  Proof.
    intros t r H Hg Hr K. destruct (gpr_assoc_roundtrip t) as [_ [H2 H3]].
    rewrite (H2 H Hg) in Hr. inversion Hr; subst. apply H3.
  Qed.
End Assoc.
