(* sbml_ok, conjunct by conjunct: for each one a concrete model that violates it and for which the round
   trip of the faithful model (with the constants regenerated from the source, CPython's decimal printer,
   the 15-digit number writer and GPRCleaner) does NOT return [norm m] -- so none of them can be dropped.
   Then non-vacuity (a model with several reactions, infinite / default / own bounds, a nested gene rule, a
   group and a minimisation objective satisfies sbml_ok) and the statements the faithful model refutes
   outside the findings known before this file was written (docs/C10.md):
     - numbers that need more than 15 significant digits are changed by the trip   (sbml_numbers_refuted)
     - the written document can contain one SId twice                               (sbml_duplicate_sid_refuted)
     - a gene that is written like one of the groups (both prefixes are G_) is lost as a group member
                                                                                    (need_gene_member_not_group_sid)
   A group with a gene among its members could not be read at all before /repo ed33fe7
   (fixes/io-sbml-group-gene-member.patch); with the repaired reader it is inside sbml_ok
   (sbml_group_gene_member_ok; need_reader_knows_genes keeps the old behaviour as the table flag's meaning).
   Each was replayed on the real code (harness corpus: corpus/C10/*.json). *)
From Coq Require Import ZArith QArith List Bool String.
From Cobra.GPR Require Syntax.
From Cobra.IO Require Import Str JVal DictModel SbmlId SbmlNum SbmlDoc SbmlCheck.
From Cobra.Gen Require Import SbmlTables.
Import ListNotations.
Open Scope Z_scope.

Definition RT := roundtrip to_dec parse_dec wnum15 cur_clean cur_env.
Definition OKB := sbml_ok to_dec wnum15 cur_clean cur_env.
Definition NORM := norm to_dec cur_env.

(* the regenerated constants are well-formed *)
Example env_ok_current : env_ok cur_env = true.
Proof. vm_compute. reflexivity. Qed.

Definition S (s : string) : str := of_string s.
Definition cfg0 : cfg := mkCfg (-1000 # 1) (1000 # 1).
Definition met (i c : string) : amet := mkMet (S i) [] (Some (S c)) None None 0 [] [].
Definition rxn (i : string) (st : list (str * Q)) (lb ub : ebound) (obj : Q) : arxn :=
  mkRxn (S i) [] st lb ub [] obj [] [] [].
Definition gene (i n : string) : agene := mkGene (S i) (S n) [] [].
Definition G (i : string) : Syntax.gpr := Syntax.Gene (S i).
Definition st_ab : list (str * Q) := [(S "a", (-1) # 1); (S "b", 1 # 1)]%Q.
Definition mets_ab : list amet := [met "a" "c"; met "b" "c"].
Definition r1 : arxn * Syntax.rule := (rxn "R1" st_ab (Fin 0) (Fin (1000 # 1)) 1, None).
Definition model (mets : list amet) (rxns : list (arxn * Syntax.rule)) (genes : list agene) (groups : list agroup) : smodel :=
  mkSModel (Some (S "m")) None mets rxns genes [] true groups.

(* the double nearest to 1/3, to -1/3, to 2/3 *)
Definition third : Q := 6004799503160661 # 18014398509481984.

Ltac nec := vm_compute; repeat split; first [reflexivity | discriminate].

(* ------------------------------------------------------------------ metabolites *)
Example need_met_sid_ok :           (* known: the id codec is not injective on __<digits>__ *)
  let m := model [met "a__45__b" "c"] [] [] [] in
  OKB cfg0 m = false /\ sid_ok sb_prefix_specie (S "a__45__b") = false /\ RT cfg0 m <> Ok (NORM m).
Proof. nec. Qed.

Example need_met_id_nonempty :      (* Model.add_metabolites refuses an empty id *)
  let m := model [met "" "c"] [] [] [] in OKB cfg0 m = false /\ RT cfg0 m = Err EValue.
Proof. vm_compute. split; reflexivity. Qed.

Example need_met_compartment :      (* known: setCompartment(None) raises TypeError *)
  let m := model [mkMet (S "a") [] None None None 0 [] []] [] [] [] in OKB cfg0 m = false /\ RT cfg0 m = Err EType.
Proof. vm_compute. split; reflexivity. Qed.

Example need_compartment_is_sid :   (* compartment ids are not encoded: setId refuses "c-1", the reader finds no id *)
  let m := model [met "a" "c-1"] [] [] [] in
  OKB cfg0 m = false /\ is_sid (S "c-1") = false /\ RT cfg0 m = Err EOther.
Proof. vm_compute. repeat split; reflexivity. Qed.

Example need_met_ids_distinct :
  let m := model [met "a" "c"; met "a" "c"] [] [] [] in OKB cfg0 m = false /\ RT cfg0 m = Err EValue.
Proof. vm_compute. split; reflexivity. Qed.

(* ------------------------------------------------------------------ genes *)
Example need_gene_sid_ok :          (* known codec finding, for genes *)
  let m := model mets_ab [r1] [gene "a__45__b" "n"] [] in OKB cfg0 m = false /\ RT cfg0 m <> Ok (NORM m).
Proof. nec. Qed.

Example need_gene_no_dot_marker :   (* the id has no "__<digit>" and no marker, but what is written contains __SBML_DOT__ *)
  let m := model mets_ab [r1] [gene "-SBML_DOT-" "n"] [] in
  OKB cfg0 m = false /\ sid_ok sb_prefix_gene (S "-SBML_DOT-") = true /\ contains sb_dot (S "G_-SBML_DOT-") = false /\
  RT cfg0 m <> Ok (NORM m).
Proof. nec. Qed.

Example need_gene_ids_distinct :
  let m := model mets_ab [r1] [gene "g" "n"; gene "g" "n"] [] in OKB cfg0 m = false /\ RT cfg0 m = Err EValue.
Proof. vm_compute. split; reflexivity. Qed.

(* ------------------------------------------------------------------ reactions *)
Example need_rxn_sid_ok :           (* known codec finding, for reactions *)
  let m := model mets_ab [(rxn "r__91__" st_ab (Fin 0) (Fin (1000 # 1)) 1, None)] [] [] in
  OKB cfg0 m = false /\ RT cfg0 m <> Ok (NORM m).
Proof. nec. Qed.

Example need_rxn_ids_distinct :
  let m := model mets_ab [r1; r1] [] [] in OKB cfg0 m = false /\ RT cfg0 m = Err EValue.
Proof. vm_compute. split; reflexivity. Qed.

Example need_bounds_ordered :       (* the bound setters refuse lb > ub *)
  let m := model mets_ab [(rxn "R1" st_ab (Fin (5 # 1)) (Fin (1 # 1)) 1, None)] [] [] in
  OKB cfg0 m = false /\ RT cfg0 m = Err EValue.
Proof. vm_compute. split; reflexivity. Qed.

(* known (fixes/io-sbml-bounds-wide-default.patch, applied to the source this file was generated from): with a
   reader that starts from Reaction(rid) a lower bound above the default upper bound cannot be read *)
Definition narrow_env : senv :=
  mkEnv sb_prefix_gene sb_prefix_specie sb_prefix_reaction sb_prefix_group sb_dot
        sb_lower_bound_id sb_upper_bound_id sb_zero_bound_id sb_minus_inf_id sb_plus_inf_id false sb_sidmap_genes.
Example need_lb_below_default_ub :
  let m := model mets_ab [(rxn "R1" st_ab (Fin (1500 # 1)) (Fin (2000 # 1)) 1, None)] [] [] in
  sbml_ok to_dec wnum15 cur_clean narrow_env cfg0 m = false /\
  roundtrip to_dec parse_dec wnum15 cur_clean narrow_env cfg0 m = Err EValue /\
  (if sb_reader_wide_default then OKB cfg0 m else negb (OKB cfg0 m)) = true.
Proof. vm_compute. repeat split; reflexivity. Qed.

Example need_lower_bound_15_digits :
  let m := model mets_ab [(rxn "R1" st_ab (Fin (Qopp third)) (Fin (1000 # 1)) 1, None)] [] [] in
  OKB cfg0 m = false /\ bound_num_ok wnum15 cfg0 (Fin (Qopp third)) = false /\ RT cfg0 m <> Ok (NORM m).
Proof. nec. Qed.

Example need_upper_bound_15_digits :
  let m := model mets_ab [(rxn "R1" st_ab (Fin 0) (Fin third) 1, None)] [] [] in
  OKB cfg0 m = false /\ bound_num_ok wnum15 cfg0 (Fin third) = false /\ RT cfg0 m <> Ok (NORM m).
Proof. nec. Qed.

Example need_stoich_keys_distinct : (* a dict has one entry per metabolite: the reader adds them up *)
  let m := model mets_ab [(rxn "R1" [(S "a", 1 # 1); (S "a", 2 # 1)]%Q (Fin 0) (Fin (1000 # 1)) 1, None)] [] [] in
  OKB cfg0 m = false /\ RT cfg0 m <> Ok (NORM m).
Proof. nec. Qed.

Example need_stoich_keys_known :    (* model.metabolites.get_by_id raises KeyError *)
  let m := model mets_ab [(rxn "R1" [(S "zz", 1 # 1)]%Q (Fin 0) (Fin (1000 # 1)) 1, None)] [] [] in
  OKB cfg0 m = false /\ RT cfg0 m = Err EKey.
Proof. vm_compute. split; reflexivity. Qed.

Example need_coefficient_15_digits :
  let m := model mets_ab [(rxn "R1" [(S "a", Qopp third)] (Fin 0) (Fin (1000 # 1)) 1, None)] [] [] in
  OKB cfg0 m = false /\ num_ok wnum15 third = false /\ RT cfg0 m <> Ok (NORM m).
Proof. nec. Qed.

Example need_objective_15_digits :
  let m := model mets_ab [(rxn "R1" st_ab (Fin 0) (Fin (1000 # 1)) third, None)] [] [] in
  OKB cfg0 m = false /\ RT cfg0 m <> Ok (NORM m).
Proof. nec. Qed.

(* ------------------------------------------------------------------ gene rules *)
Example need_rule_wf :              (* an operator without operands prints as "": nothing is written, the rule is gone *)
  let t := Syntax.Bool Syntax.Or [] in
  let m := model mets_ab [(rxn "R1" st_ab (Fin 0) (Fin (1000 # 1)) 1, Some t)] [] [] in
  OKB cfg0 m = false /\ Syntax.wf t = false /\ RT cfg0 m <> Ok (NORM m) /\
  (* and the Boolean function changes: "or" of nothing is false, the empty rule is true *)
  Syntax.eval_rule (fun _ => false) (Some t) = false /\ Syntax.eval_rule (fun _ => false) None = true.
Proof. nec. Qed.

Example need_rule_genes_known :     (* add_reactions creates the gene the rule names *)
  let m := model mets_ab [(rxn "R1" st_ab (Fin 0) (Fin (1000 # 1)) 1, Some (G "g2"))] [gene "g1" "n"] [] in
  OKB cfg0 m = false /\ RT cfg0 m <> Ok (NORM m).
Proof. nec. Qed.

Example need_rule_genes_clean :     (* GPRCleaner turns __COBRA_DOT__ into "." in every Name it visits *)
  let m := model mets_ab [(rxn "R1" st_ab (Fin 0) (Fin (1000 # 1)) 1, Some (G "a__COBRA_DOT__b"))]
                 [gene "a__COBRA_DOT__b" "n"] [] in
  OKB cfg0 m = false /\ gene_sid_ok to_dec cur_env (S "a__COBRA_DOT__b") = true /\
  cur_clean (S "a__COBRA_DOT__b") = S "a.b" /\ RT cfg0 m <> Ok (NORM m).
Proof. nec. Qed.

(* ------------------------------------------------------------------ groups *)
Definition grp (i : string) (ms : list (Z * str)) : agroup := mkGroup (S i) [] KCollection ms.

Example need_group_sid_ok :
  let m := model mets_ab [r1] [] [grp "g__45__x" [(2, S "R1")]] in OKB cfg0 m = false /\ RT cfg0 m <> Ok (NORM m).
Proof. nec. Qed.

Example need_group_ids_distinct :
  let m := model mets_ab [r1] [] [grp "g" []; grp "g" []] in OKB cfg0 m = false /\ RT cfg0 m = Err EValue.
Proof. vm_compute. split; reflexivity. Qed.

Example need_group_members_known :  (* the idRef is not in the reader's sid_map *)
  let m := model mets_ab [r1] [] [grp "g" [(2, S "R9")]] in OKB cfg0 m = false /\ RT cfg0 m = Err EKey.
Proof. vm_compute. split; reflexivity. Qed.

Definition rg1 : arxn * Syntax.rule := (rxn "R1" st_ab (Fin 0) (Fin (1000 # 1)) 1, Some (G "x")).

Example need_gene_member_not_group_sid :  (* gene x and group x are both written G_x: the idRef resolves to the group *)
  let m := model mets_ab [rg1] [gene "x" "n"] [grp "x" [(2, S "R1")]; grp "k" [(0, S "x")]] in
  OKB cfg0 m = false /\ RT cfg0 m <> Ok (NORM m) /\
  (* with another id for the group the same model is inside *)
  (if sb_sidmap_genes then OKB cfg0 (model mets_ab [rg1] [gene "x" "n"] [grp "x2" [(2, S "R1")]; grp "k" [(0, S "x")]])
   else true) = true.
Proof. nec. Qed.

Example need_gene_member_known :
  let m := model mets_ab [rg1] [gene "x" "n"] [grp "k" [(0, S "zz")]] in OKB cfg0 m = false /\ RT cfg0 m = Err EKey.
Proof. vm_compute. split; reflexivity. Qed.

(* fixed in /repo by ed33fe7: a reader whose sid_map has no gene products cannot resolve a gene member *)
Definition no_genes_env : senv :=
  mkEnv sb_prefix_gene sb_prefix_specie sb_prefix_reaction sb_prefix_group sb_dot
        sb_lower_bound_id sb_upper_bound_id sb_zero_bound_id sb_minus_inf_id sb_plus_inf_id sb_reader_wide_default false.
Example need_reader_knows_genes :
  let m := model mets_ab [rg1] [gene "x" "n"] [grp "k" [(0, S "x"); (2, S "R1")]] in
  sbml_ok to_dec wnum15 cur_clean no_genes_env cfg0 m = false /\
  roundtrip to_dec parse_dec wnum15 cur_clean no_genes_env cfg0 m = Err EKey /\
  (if sb_sidmap_genes then OKB cfg0 m else negb (OKB cfg0 m)) = true.
Proof. vm_compute. repeat split; reflexivity. Qed.

(* ------------------------------------------------------------------ non-vacuity *)
Definition witness : smodel :=
  mkSModel (Some (S "iTest")) (Some (S "a model"))
    [mkMet (S "glc__D_e") (S "D-Glucose") (Some (S "e")) (Some 0) (Some (S "C6H12O6")) 0 [] [];
     mkMet (S "h2o.c") (S "Water") (Some (S "c")) None None 0 [] []; met "x[e]" "e"; mkMet (945 :: S "-D") [] (Some (S "C_x")) None None 0 [] []]
    [(rxn "EX_glc(e)" [(S "glc__D_e", (-1) # 1)]%Q NegInf PosInf 0, None);
     (rxn "PFK.1" [(S "glc__D_e", (-1) # 1); (S "h2o.c", 5 # 2)]%Q (Fin ((-1000) # 1)) (Fin (1000 # 1)) (1 # 1),
      Some (Syntax.Bool Syntax.And [G "b0001"; Syntax.Bool Syntax.Or [G "s0001.1"; Syntax.Bool Syntax.And [G "YAL-1"; G "b0001"]]]));
     (rxn "r-2" [(S "x[e]", 1 # 4); ((945%Z :: S "-D"), (-3) # 2)]%Q (Fin ((-5) # 1)) (Fin (15 # 2)) ((-2) # 1),
      Some (Syntax.Bool Syntax.Or [G "b0001"; Syntax.Bool Syntax.Or [G "YAL-1"; G "s0001.1"]]));
     (mkRxn [946] [] [(S "h2o.c", 1 # 1)]%Q (Fin 0) PosInf [] 0 [] [] [], None);
     (rxn "3x" [(S "x[e]", (-1) # 1)]%Q NegInf (Fin 0) 0, Some (G "YAL-1"))]
    [gene "b0001" "thrL"; gene "s0001.1" "spontaneous"; gene "YAL-1" "y"]
    [(S "c", S "cytosol"); (S "unused", S "nobody lives here")]
    false
    [mkGroup (S "grp 1") (S "Transport, extracellular") KPartonomy [(0, S "s0001.1"); (1, S "glc__D_e"); (2, S "EX_glc(e)"); (2, S "r-2")]].

Example sbml_ok_witness :
  OKB cfg0 witness = true /\ RT cfg0 witness = Ok (NORM witness) /\
  (* the second rule is merged by the writer, the declared but unused compartment disappears *)
  NORM witness <> forget witness.
Proof. vm_compute. repeat split; try reflexivity. discriminate. Qed.

(* ------------------------------------------------------------------ refuted beyond the known findings *)
(* "same bounds, stoichiometry, objective coefficients": FALSE for a double that needs 16 or 17 significant
   digits.  -1/3 is written as -0.333333333333333 and read as that (a different double). *)
Theorem sbml_numbers_refuted :
  exists c m, RT c m <> Ok (NORM m) /\
    exists m', RT c m = Ok m' /\
      map (fun rr => r_lb (fst rr)) (sm_rxns m') = [Fin ((-6004799503160655) # 18014398509481984)] /\
      map (fun rr => r_lb (fst rr)) (sm_rxns m) = [Fin ((-6004799503160661) # 18014398509481984)].
Proof.
  exists cfg0, (model mets_ab [(rxn "R1" st_ab (Fin (Qopp third)) (Fin (1000 # 1)) 1, None)] [] []).
  split; [vm_compute; discriminate|]. eexists. split; [vm_compute; reflexivity|]. split; reflexivity.
Qed.

(* genes as group members (refuted before /repo ed33fe7, see need_reader_knows_genes): with the repaired reader
   the model is inside sbml_ok and comes back as norm m *)
Example sbml_group_gene_member_ok :
  let m := model mets_ab [(rxn "R1" st_ab (Fin 0) (Fin (1000 # 1)) 1, Some (G "g1"))] [gene "g1" "n"]
                 [grp "g" [(0, S "g1"); (2, S "R1")]] in
  (if sb_sidmap_genes then OKB cfg0 m else negb (OKB cfg0 m)) = true /\
  (if sb_sidmap_genes then rres_eqb (RT cfg0 m) (Ok (NORM m)) else true) = true.
Proof. vm_compute. split; reflexivity. Qed.

(* "a document libsbml validates": the written document can contain the same SId twice -- a reaction whose id is
   another reaction's id followed by _lower_bound / _upper_bound collides with that reaction's own bound
   parameter; a compartment whose id is M_<metabolite id> collides with that species (compartment ids are
   written as they are) *)
Theorem sbml_duplicate_sid_refuted :
  (exists c m d, OKB c m = true /\ m_write c m = Ok d /\ nodupb (core_sids d) = false /\
                 str_mem (S "R_R1_lower_bound") (map dr_id (d_rxns d)) = true /\
                 str_mem (S "R_R1_lower_bound") (map (fun p => fst (fst p)) (d_params d)) = true) /\
  (exists c m d, OKB c m = true /\ m_write c m = Ok d /\ nodupb (core_sids d) = false /\
                 str_mem (S "M_a") (map fst (d_comps d)) = true /\ str_mem (S "M_a") (map sp_id (d_species d)) = true).
Proof.
  split.
  - exists cfg0, (model mets_ab [(rxn "R1" st_ab (Fin ((-5) # 1)) (Fin (1000 # 1)) 1, None);
                                 (rxn "R1_lower_bound" st_ab (Fin 0) (Fin (1000 # 1)) 0, None)] [] []).
    eexists. split; [vm_compute; reflexivity|]. split; [vm_compute; reflexivity|]. vm_compute. repeat split; reflexivity.
  - exists cfg0, (model [met "a" "c"; met "b" "M_a"] [r1] [] []).
    eexists. split; [vm_compute; reflexivity|]. split; [vm_compute; reflexivity|]. vm_compute. repeat split; reflexivity.
Qed.
