(* Correspondence and monitor functions for C11, evaluated by vm_compute on generated cases.
   Nothing here is a theorem. *)
From Coq Require Import ZArith QArith List Bool String.
From Cobra.IO Require Import Str JVal DictModel.
From Cobra.Gen Require Import DictTables.
Import ListNotations.
Open Scope Z_scope.

Definition current_tables : tables :=
  mkTables dt_req_rxn dt_opt_rxn_keys dt_opt_rxn_defaults dt_req_met dt_opt_met_keys dt_opt_met_defaults
           dt_req_gene dt_opt_gene_keys dt_opt_gene_defaults dt_opt_model_keys dt_opt_model_defaults
           dt_rxn_skip dt_bounds_at_once dt_model_attrs.

(* gene ids of a rule text for the generated rules: maximal runs of characters other than blank and
   parentheses, minus the words and / or; the generator only uses ids without such characters *)
Definition is_sep (c : Z) : bool := (c =? 32) || (c =? 40) || (c =? 41).
Fixpoint tokens (s : str) (cur : str) : list str :=
  match s with
  | [] => match cur with [] => [] | _ => [rev cur] end
  | c :: s' => if is_sep c then match cur with [] => tokens s' [] | _ => rev cur :: tokens s' [] end
               else tokens s' (c :: cur)
  end.
Definition w_and := Eval compute in of_string "and"%string.
Definition w_or := Eval compute in of_string "or"%string.
Definition check_gpr : gpr_api :=
  mkGpr (fun s => s)
        (fun s => filter (fun t => negb (str_eqb t w_and || str_eqb t w_or)) (tokens s [])).

(* ---- encoding of an abstract model as a jval (total, injective on what is observed) *)
Definition enc_ob (b : ebound) : jval :=
  match b with NegInf => JInf true | Fin q => JNum q | PosInf => JInf false end.
Definition enc_ostr (o : option str) : jval := match o with Some s => JStr s | None => JNull end.
Definition enc_met (m : amet) : jval :=
  JList [JStr (m_id m); JStr (m_name m); enc_ostr (m_comp m);
         match m_charge m with Some z => JNum (inject_Z z) | None => JNull end;
         enc_ostr (m_formula m); JNum (m_bound m); JDict (m_notes m); JDict (m_annot m)].
Definition enc_gene (g : agene) : jval := JList [JStr (g_id g); JStr (g_name g); JDict (g_notes g); JDict (g_annot g)].
Definition enc_rxn (r : arxn) : jval :=
  JList [JStr (r_id r); JStr (r_name r); JDict (map (fun p => (fst p, JNum (snd p))) (r_stoich r));
         enc_ob (r_lb r); enc_ob (r_ub r); JStr (r_rule r); JNum (r_obj r); JStr (r_subsystem r);
         JDict (r_notes r); JDict (r_annot r)].
(* everything except direction, metabolite compartments and compartment descriptions *)
Definition enc_met_nocomp (m : amet) : jval :=
  JList [JStr (m_id m); JStr (m_name m);
         match m_charge m with Some z => JNum (inject_Z z) | None => JNull end;
         enc_ostr (m_formula m); JNum (m_bound m); JDict (m_notes m); JDict (m_annot m)].
Definition enc_core (m : amodel) : jval :=
  JList [enc_ostr (a_id m); enc_ostr (a_name m); JList (map enc_met_nocomp (a_mets m));
         JList (map enc_rxn (a_rxns m)); JList (map enc_gene (a_genes m)); JDict (a_notes m); JDict (a_annot m)].
Definition enc_comps (m : amodel) : jval :=
  JList [JList (map (fun x => enc_ostr (m_comp x)) (a_mets m)); comps_val (dsort (public_comps m))].

Definition sort_model (m : amodel) : amodel :=
  mkModel (a_id m) (a_name m) (sort_by m_id (a_mets m)) (sort_by r_id (a_rxns m)) (sort_by g_id (a_genes m))
          (a_comps m) (a_notes m) (a_annot m) (a_max m).

Definition res_eqb (a b : result amodel) : bool :=
  match a, b with
  | Ok x, Ok y => jval_eqb (enc_core x) (enc_core y) && jval_eqb (enc_comps x) (enc_comps y) &&
                  Bool.eqb (a_max x) (a_max y) &&
                  jval_eqb (JDict (map (fun p => (fst p, JStr (snd p))) (a_comps x)))
                           (JDict (map (fun p => (fst p, JStr (snd p))) (a_comps y)))
  | Err x, Err y => match x, y with
                    | EValue, EValue | EKey, EKey | EType, EType | EAttr, EAttr => true
                    | _, _ => false
                    end
  | _, _ => false
  end.

Definition unmodelled {A} (r : result A) : bool := match r with Err EUnmodelled => true | _ => false end.

(* an observed model with its raw LP (variables+bounds, constraint rows, objective coefficients;
   direction is in the model record) *)
Definition obs := (amodel * jval)%type.

Definition none_to_empty (m : amodel) : amodel :=
  mkModel (a_id m) (a_name m)
          (map (fun x => mkMet (m_id x) (m_name x) (match m_comp x with None => Some [] | c => c end) (m_charge x)
                               (m_formula x) (m_bound x) (m_notes x) (m_annot x)) (a_mets m))
          (a_rxns m) (a_genes m) (a_comps m) (a_notes m) (a_annot m) (a_max m).

Definition lb_above_default (c : cfg) (m : amodel) : bool :=
  existsb (fun r => negb (eb_leb (r_lb r) (Fin (c_ub c)))) (a_rxns m).

(* monitor of one trip: m0 observed before, r observed after (Coq-defined predicate on the
   implementation's own observations).  codes:
   2 loading failed; 12 loading failed and some lower bound is above the configured default upper bound;
   3 content differs (anything but the two narrow cases below);
   4 the only direction change: a minimisation came back as maximisation;
   5 the only compartment change: compartment None came back as "" (with its entry in model.compartments);
   6 raw LP differs *)
Definition trip_codes (c : cfg) (sort : bool) (o0 : obs) (r : result obs) : list nat :=
  let (m0, lp0) := o0 in
  let e0 := if sort then sort_model m0 else m0 in
  match r with
  | Err _ => if lb_above_default c m0 then [12%nat] else [2%nat]
  | Ok (m1, lp1) =>
      let same_comps := jval_eqb (enc_comps m1) (enc_comps e0) in
      let none_comps := jval_eqb (enc_comps m1) (enc_comps (none_to_empty e0)) in
      (if jval_eqb (enc_core m1) (enc_core e0) && (same_comps || none_comps) &&
          (Bool.eqb (a_max m1) (a_max m0) || (a_max m1 && negb (a_max m0))) then [] else [3%nat]) ++
      (if a_max m1 && negb (a_max m0) then [4%nat] else []) ++
      (if negb same_comps && none_comps then [5%nat] else []) ++
      (if jval_eqb lp1 lp0 then [] else [6%nat])
  end.

(* second trip: nothing changes any more (7), and it loads (8) *)
Definition again_codes (r1 r2 : result obs) : list nat :=
  match r1, r2 with
  | Ok (m1, lp1), Ok (m2, lp2) =>
      if jval_eqb (enc_core m1) (enc_core m2) && jval_eqb (enc_comps m1) (enc_comps m2) &&
         Bool.eqb (a_max m1) (a_max m2) && jval_eqb lp1 lp2 then [] else [7%nat]
  | Ok _, Err _ => [8%nat]
  | Err _, _ => []
  end.

Record case := mkCase {
  k_cfg : cfg; k_sort : bool; k_obs0 : obs;
  k_dict : result jval;                          (* the implementation's model_to_dict *)
  k_loads : list (jval * result amodel);         (* dicts and the implementation's model_from_dict result *)
  k_trips : list (Z * result obs * result obs)   (* format tag, after one trip, after two trips *)
}.

(* step numbering: 1 = to_dict, 10+i = i-th load, 100+tag = trip of format tag (first), 200+tag = second *)
Definition dict_res_eqb (a b : result jval) : bool :=
  match a, b with
  | Ok x, Ok y => jval_eqb x y
  | Err x, Err y => match x, y with EAttr, EAttr => true | _, _ => false end
  | _, _ => false
  end.

Fixpoint load_codes (c : cfg) (i : nat) (l : list (jval * result amodel)) : list (nat * nat) :=
  match l with
  | [] => []
  | (d, r) :: l' =>
      let mr := from_dict check_gpr current_tables c d in
      (if unmodelled mr then [((10 + i)%nat, 99%nat)]
       else if res_eqb mr r then [] else [((10 + i)%nat, 1%nat)]) ++ load_codes c (S i) l'
  end.

Definition case_codes (k : case) : list (nat * nat) :=
  (if dict_res_eqb (to_dict current_tables (k_sort k) (fst (k_obs0 k))) (k_dict k) then [] else [(1%nat, 1%nat)]) ++
  load_codes (k_cfg k) 0 (k_loads k) ++
  flat_map (fun t => match t with
                     | (tag, r1, r2) =>
                         (* sort= only exists for the dict-based formats (tags 0..5); pickle / deepcopy keep the order *)
                         map (fun c => ((100 + Z.to_nat tag)%nat, c))
                             (trip_codes (k_cfg k) (k_sort k && (tag <? 6)) (k_obs0 k) r1) ++
                         map (fun c => ((200 + Z.to_nat tag)%nat, c)) (again_codes r1 r2)
                     end) (k_trips k).

Definition failing (cases : list (Z * case)) : list (Z * list (nat * nat)) :=
  flat_map (fun ic => match case_codes (snd ic) with [] => [] | l => [(fst ic, l)] end) cases.
