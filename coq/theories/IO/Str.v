(* Strings as lists of Unicode code points, ordering as Python orders str (by code point),
   stable insertion sort keyed by a string (Python list.sort(key=...) on unique keys).  *)
From Coq Require Import ZArith List Bool Lia Permutation String Ascii.
Import ListNotations.
Open Scope Z_scope.

Definition str := list Z.

Fixpoint str_eqb (a b : str) : bool :=
  match a, b with
  | [], [] => true
  | x :: a', y :: b' => (x =? y) && str_eqb a' b'
  | _, _ => false
  end.

Lemma str_eqb_eq : forall a b, str_eqb a b = true <-> a = b.
Proof.
  induction a as [|x a IH]; destruct b as [|y b]; cbn; split; intros H; try discriminate; auto.
  - apply andb_true_iff in H. destruct H as [H1 H2]. apply Z.eqb_eq in H1. apply IH in H2. congruence.
  - inversion H; subst. rewrite Z.eqb_refl. cbn. apply IH. reflexivity.
Qed.

Lemma str_eqb_refl : forall a, str_eqb a a = true.
Proof. intros a. apply str_eqb_eq. reflexivity. Qed.

Lemma str_eqb_neq : forall a b, str_eqb a b = false <-> a <> b.
Proof.
  intros a b. split.
  - intros H E. apply str_eqb_eq in E. congruence.
  - intros H. destruct (str_eqb a b) eqn:E; auto. apply str_eqb_eq in E. contradiction.
Qed.

(* a <= b in Python's str order *)
Fixpoint str_leb (a b : str) : bool :=
  match a, b with
  | [], _ => true
  | _ :: _, [] => false
  | x :: a', y :: b' => if x <? y then true else if x =? y then str_leb a' b' else false
  end.

Definition str_ltb (a b : str) : bool := str_leb a b && negb (str_eqb a b).

Lemma str_leb_total : forall a b, str_leb a b = false -> str_leb b a = true.
Proof.
  induction a as [|x a IH]; destruct b as [|y b]; cbn; intros H; try discriminate; auto.
  destruct (x <? y) eqn:E1; try discriminate.
  destruct (x =? y) eqn:E2.
  - apply Z.eqb_eq in E2. subst. rewrite E1. rewrite Z.eqb_refl. auto.
  - apply Z.ltb_ge in E1. apply Z.eqb_neq in E2.
    assert (y <? x = true) as -> by (apply Z.ltb_lt; lia). reflexivity.
Qed.

Lemma str_leb_refl : forall a, str_leb a a = true.
Proof. induction a as [|x a IH]; cbn; auto. rewrite Z.ltb_irrefl, Z.eqb_refl. exact IH. Qed.

Lemma str_ltb_leb : forall a b, str_ltb a b = true -> str_leb a b = true.
Proof. intros a b H. apply andb_true_iff in H. tauto. Qed.

(* Converting an ASCII literal to code points (used for attribute names). *)
Fixpoint of_string (s : string) : str :=
  match s with
  | EmptyString => []
  | String c s' => Z.of_nat (nat_of_ascii c) :: of_string s'
  end.

(* ---------------------------------------------------------------- keyed insertion sort *)
Section Sort.
  Context {A : Type} (key : A -> str).

  Fixpoint insert_by (x : A) (l : list A) : list A :=
    match l with
    | [] => [x]
    | y :: l' => if str_leb (key x) (key y) then x :: l else y :: insert_by x l'
    end.

  Fixpoint sort_by (l : list A) : list A :=
    match l with
    | [] => []
    | x :: l' => insert_by x (sort_by l')
    end.

  (* adjacent elements in non-decreasing key order *)
  Fixpoint sorted_by (l : list A) : bool :=
    match l with
    | [] => true
    | x :: l' => match l' with
                 | [] => true
                 | y :: _ => str_leb (key x) (key y) && sorted_by l'
                 end
    end.

  Fixpoint ssorted_by (l : list A) : bool :=
    match l with
    | [] => true
    | x :: l' => match l' with
                 | [] => true
                 | y :: _ => str_ltb (key x) (key y) && ssorted_by l'
                 end
    end.

  Lemma ssorted_sorted : forall l, ssorted_by l = true -> sorted_by l = true.
  Proof.
    induction l as [|x l IH]; auto. destruct l as [|y l]; auto.
    cbn [ssorted_by sorted_by]. intros H. apply andb_true_iff in H. destruct H as [H1 H2].
    rewrite (str_ltb_leb _ _ H1). cbn. apply IH. exact H2.
  Qed.

  Lemma sorted_tail : forall x l, sorted_by (x :: l) = true -> sorted_by l = true.
  Proof. intros x [|y l] H; auto. cbn [sorted_by] in H. apply andb_true_iff in H. tauto. Qed.

  Lemma sort_sorted_id : forall l, sorted_by l = true -> sort_by l = l.
  Proof.
    induction l as [|x l IH]; auto. intros H. cbn [sort_by].
    rewrite (IH (sorted_tail _ _ H)). destruct l as [|y l]; auto.
    cbn [sorted_by] in H. apply andb_true_iff in H. destruct H as [H1 _].
    cbn [insert_by]. rewrite H1. reflexivity.
  Qed.

  Lemma insert_sorted : forall x l, sorted_by l = true -> sorted_by (insert_by x l) = true.
  Proof.
    induction l as [|y l IH]; auto. intros H. cbn [insert_by].
    destruct (str_leb (key x) (key y)) eqn:E.
    - cbn [sorted_by]. rewrite E. exact H.
    - pose proof (str_leb_total _ _ E) as E'. specialize (IH (sorted_tail _ _ H)).
      destruct l as [|z l].
      + cbn. rewrite E'. reflexivity.
      + cbn [insert_by] in *. destruct (str_leb (key x) (key z)) eqn:E2.
        * cbn [sorted_by]. rewrite E', E2. cbn [sorted_by] in H. apply andb_true_iff in H.
          destruct H as [_ H]. rewrite H. reflexivity.
        * cbn [sorted_by] in H. apply andb_true_iff in H. destruct H as [H1 _].
          change (sorted_by (y :: z :: insert_by x l)) with
              (str_leb (key y) (key z) && sorted_by (z :: insert_by x l)).
          rewrite H1. exact IH.
  Qed.

  Lemma sort_sorted : forall l, sorted_by (sort_by l) = true.
  Proof. induction l as [|x l IH]; auto. cbn [sort_by]. apply insert_sorted. exact IH. Qed.

  Lemma sort_idem : forall l, sort_by (sort_by l) = sort_by l.
  Proof. intros l. apply sort_sorted_id. apply sort_sorted. Qed.

  Lemma insert_perm : forall x l, Permutation (x :: l) (insert_by x l).
  Proof.
    induction l as [|y l IH]; cbn; auto. destruct (str_leb (key x) (key y)); auto.
    eapply perm_trans. apply perm_swap. apply perm_skip. exact IH.
  Qed.

  Lemma sort_perm : forall l, Permutation l (sort_by l).
  Proof.
    induction l as [|x l IH]; cbn; auto. eapply perm_trans. apply perm_skip. exact IH. apply insert_perm.
  Qed.
End Sort.

Lemma insert_by_map {A B} (f : A -> B) (kb : B -> str) (ka : A -> str) :
  (forall a, kb (f a) = ka a) ->
  forall x l, insert_by kb (f x) (map f l) = map f (insert_by ka x l).
Proof.
  intros Hk x l. induction l as [|y l IH]; cbn; auto.
  rewrite !Hk. destruct (str_leb (ka x) (ka y)); cbn; auto. rewrite IH. reflexivity.
Qed.

Lemma sort_by_map {A B} (f : A -> B) (kb : B -> str) (ka : A -> str) :
  (forall a, kb (f a) = ka a) ->
  forall l, sort_by kb (map f l) = map f (sort_by ka l).
Proof.
  intros Hk l. induction l as [|x l IH]; cbn; auto. rewrite IH. apply insert_by_map. exact Hk.
Qed.

(* ---------------------------------------------------------------- duplicate-freeness *)
Fixpoint str_mem (s : str) (l : list str) : bool :=
  match l with
  | [] => false
  | x :: l' => str_eqb s x || str_mem s l'
  end.

Lemma str_mem_In : forall s l, str_mem s l = true <-> In s l.
Proof.
  induction l as [|x l IH]; cbn; split; intros H; try discriminate; try contradiction.
  - apply orb_true_iff in H. destruct H as [H|H]; [left; symmetry; apply str_eqb_eq; exact H | right; apply IH; exact H].
  - apply orb_true_iff. destruct H as [H|H]; [left; apply str_eqb_eq; auto | right; apply IH; exact H].
Qed.

Fixpoint nodupb (l : list str) : bool :=
  match l with
  | [] => true
  | x :: l' => negb (str_mem x l') && nodupb l'
  end.

Lemma nodupb_NoDup : forall l, nodupb l = true <-> NoDup l.
Proof.
  induction l as [|x l IH]; cbn; split; intros H; auto using NoDup_nil.
  - apply andb_true_iff in H. destruct H as [H1 H2]. constructor; [|apply IH; exact H2].
    intros Hin. apply str_mem_In in Hin. rewrite Hin in H1. discriminate.
  - inversion H; subst. apply andb_true_iff. split; [|apply IH; assumption].
    destruct (str_mem x l) eqn:E; auto. apply str_mem_In in E. contradiction.
Qed.

Lemma nodupb_perm : forall l l', Permutation l l' -> nodupb l = true -> nodupb l' = true.
Proof. intros l l' P H. apply nodupb_NoDup. eapply Permutation_NoDup; eauto. apply nodupb_NoDup. exact H. Qed.

Lemma str_mem_perm : forall s l l', Permutation l l' -> str_mem s l = str_mem s l'.
Proof.
  intros s l l' P. destruct (str_mem s l) eqn:E1; destruct (str_mem s l') eqn:E2; auto.
  - apply str_mem_In in E1. apply (Permutation_in _ P) in E1. apply str_mem_In in E1. congruence.
  - apply str_mem_In in E2. apply (Permutation_in _ (Permutation_sym P)) in E2. apply str_mem_In in E2. congruence.
Qed.
