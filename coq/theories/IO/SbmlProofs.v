(* Proofs about the SBML identifier codec and the flux-bound parameters (SbmlId.v). *)
From Coq Require Import ZArith QArith List Bool Lia Lqa.
From Cobra.IO Require Import Str JVal DictModel SbmlId.
Import ListNotations.
Open Scope Z_scope.

Section CodecProofs.
  Variable dec : Z -> str.
  Variable undec : str -> Z.
  Hypothesis undec_dec : forall c, undec (dec c) = c.
  Hypothesis dec_digits : forall c, dec c <> [] /\ forallb is_digit (dec c) = true.

  Notation escape := (escape dec).
  Notation esc_char := (esc_char dec).
  Notation try_esc := (try_esc undec).

  Lemma digit_not_95 : is_digit 95 = false.
  Proof. reflexivity. Qed.

  Lemma span_digits_app : forall ds r,
    forallb is_digit ds = true -> match r with [] => true | x :: _ => negb (is_digit x) end = true ->
    span_digits (ds ++ r) = (ds, r).
  Proof.
    induction ds as [|d ds IH]; cbn; intros r Hd Hr.
    - destruct r as [|x r]; auto. cbn. apply negb_true_iff in Hr. rewrite Hr. reflexivity.
    - apply andb_true_iff in Hd. destruct Hd as [H1 H2]. rewrite H1, (IH r H2 Hr). reflexivity.
  Qed.

  Lemma try_esc_escaped : forall c r, is_plain c = false -> try_esc (esc_char c ++ r) = Some (c, r).
  Proof.
    intros c r Hc. unfold SbmlId.esc_char. rewrite Hc. destruct (dec_digits c) as [Hne Hd].
    cbn [app]. unfold SbmlId.try_esc. rewrite Z.eqb_refl. cbn [andb].
    rewrite <- app_assoc. rewrite (span_digits_app (dec c) ([95; 95] ++ r) Hd eq_refl).
    destruct (dec c) as [|d ds] eqn:E; [congruence|]. cbn [app]. rewrite Z.eqb_refl. cbn [andb].
    rewrite <- E, undec_dec. reflexivity.
  Qed.

  Lemma plain_95 : is_plain 95 = true.
  Proof. reflexivity. Qed.

  Lemma try_esc_plain : forall c w,
    is_plain c = true -> starts_esc (c :: w) = false -> try_esc (c :: escape w) = None.
  Proof.
    intros c w Hc Hs. unfold SbmlId.try_esc.
    destruct w as [|c2 w]; [reflexivity|].
    cbn [SbmlId.escape flat_map]. unfold SbmlId.esc_char at 1.
    destruct (is_plain c2) eqn:E2.
    - cbn [app]. destruct (c =? 95) eqn:Ec; [|reflexivity]. destruct (c2 =? 95) eqn:Ec2; [|reflexivity].
      cbn [andb]. destruct w as [|c3 w].
      + reflexivity.
      + unfold starts_esc in Hs. rewrite Ec, Ec2 in Hs. cbn [andb] in Hs.
        cbn [flat_map]. unfold SbmlId.esc_char at 1. destruct (is_plain c3) eqn:E3.
        * cbn [app span_digits]. rewrite Hs. reflexivity.
        * cbn [app span_digits]. rewrite digit_not_95. reflexivity.
    - cbn [app]. destruct (c =? 95) eqn:Ec; [|reflexivity]. cbn. reflexivity.
  Qed.

  Lemma no_esc_tail : forall c w, no_esc (c :: w) = true -> starts_esc (c :: w) = false /\ no_esc w = true.
  Proof.
    intros c w H. cbn [no_esc] in H. apply andb_true_iff in H. destruct H as [H1 H2].
    apply negb_true_iff in H1. auto.
  Qed.

  Lemma unescape_escape_fuel : forall w n,
    (length (escape w) < n)%nat -> no_esc w = true -> unescape_fuel undec n (escape w) = w.
  Proof.
    induction w as [|c w IH]; intros n Hn Hok.
    - destruct n; [inversion Hn|reflexivity].
    - destruct n as [|f]; [inversion Hn|]. destruct (no_esc_tail c w Hok) as [Hs Hw].
      cbn [SbmlId.escape flat_map] in *. change (flat_map (SbmlId.esc_char dec) w) with (escape w) in *.
      destruct (is_plain c) eqn:Ec.
      + assert (He : esc_char c = [c]) by (unfold SbmlId.esc_char; rewrite Ec; reflexivity).
        rewrite He in *. cbn [app] in *. cbn [unescape_fuel].
        rewrite (try_esc_plain c w Ec Hs). f_equal. apply IH; auto. cbn [length] in Hn. lia.
      + assert (He : esc_char c = 95 :: 95 :: dec c ++ [95; 95]) by (unfold SbmlId.esc_char; rewrite Ec; reflexivity).
        assert (Hlen : (length (escape w) < f)%nat).
        { rewrite app_length, He in Hn. cbn [length] in Hn. lia. }
        pose proof (try_esc_escaped c (escape w) Ec) as Ht.
        destruct (esc_char c ++ escape w) as [|x xs] eqn:Ex.
        * rewrite He in Ex. discriminate.
        * cbn [unescape_fuel]. rewrite Ht. f_equal. apply IH; auto.
  Qed.

  Lemma unescape_escape : forall w, no_esc w = true -> unescape undec (escape w) = w.
  Proof. intros w H. unfold unescape. apply unescape_escape_fuel; auto. Qed.

  Lemma escape_plain : forall p, forallb is_plain p = true -> escape p = p.
  Proof.
    induction p as [|c p IH]; cbn; intros H; auto. apply andb_true_iff in H. destruct H as [H1 H2].
    unfold SbmlId.esc_char. rewrite H1. cbn. f_equal. apply IH. exact H2.
  Qed.

  Lemma starts_with_app : forall p s, starts_with p (p ++ s) = true.
  Proof. induction p as [|c p IH]; cbn; intros s; auto. rewrite Z.eqb_refl. apply IH. Qed.

  Lemma skipn_app_len {A} : forall (p s : list A), skipn (length p) (p ++ s) = s.
  Proof. induction p as [|c p IH]; cbn; auto. Qed.

  (* metabolite, reaction and group identifiers *)
  Theorem sid_roundtrip : forall p s, sid_ok p s = true -> f_fwd undec p (f_rev dec p s) = s.
  Proof.
    intros p s H. unfold sid_ok in H. apply andb_true_iff in H. destruct H as [H1 H2].
    unfold f_fwd, f_rev. rewrite <- (escape_plain p H2) at 1.
    unfold SbmlId.escape. rewrite <- flat_map_app. fold (escape (p ++ s)).
    rewrite (unescape_escape _ H1). unfold clip. rewrite starts_with_app. apply skipn_app_len.
  Qed.

  Theorem sid_injective : forall p s t, sid_ok p s = true -> sid_ok p t = true ->
    f_rev dec p s = f_rev dec p t -> s = t.
  Proof.
    intros p s t Hs Ht E. rewrite <- (sid_roundtrip p s Hs), <- (sid_roundtrip p t Ht), E. reflexivity.
  Qed.
End CodecProofs.

(* ---------------------------------------------------------------- bounds *)
Lemma eb_eqb_refl : forall v, eb_eqb v v = true.
Proof. intros [|q|]; cbn; auto. apply Qeq_bool_iff. reflexivity. Qed.

Lemma eb_eqb_sym : forall a b, eb_eqb a b = true -> eb_eqb b a = true.
Proof.
  intros [|x|] [|y|]; cbn; auto. intros H. apply Qeq_bool_iff in H. apply Qeq_bool_iff. symmetry. exact H.
Qed.

(* the parameter a bound refers to carries the bound's value: every value incl. the infinities, the
   configured defaults and zero, and the per-reaction parameters *)
Theorem bound_param_roundtrip : forall c v, eb_eqb (bref_value c (create_bound c v)) v = true.
Proof.
  intros c v. unfold create_bound.
  destruct (eb_eqb v (Fin (c_lb c))) eqn:E1; [apply eb_eqb_sym; exact E1|].
  destruct (eb_eqb v (Fin 0)) eqn:E2; [apply eb_eqb_sym; exact E2|].
  destruct (eb_eqb v (Fin (c_ub c))) eqn:E3; [apply eb_eqb_sym; exact E3|].
  destruct (eb_eqb v NegInf) eqn:E4; [apply eb_eqb_sym; exact E4|].
  destruct (eb_eqb v PosInf) eqn:E5; [apply eb_eqb_sym; exact E5|].
  apply eb_eqb_refl.
Qed.

(* the reader accepts every valid pair of bounds when the fresh reaction is unbounded, and exactly the
   pairs whose lower bound is not above the default upper bound otherwise *)
Theorem read_bounds_wide : forall c lb ub, eb_leb lb ub = true -> read_bounds true c lb ub = Ok (lb, ub).
Proof.
  intros c lb ub H. unfold read_bounds, check_bounds. replace (eb_leb lb PosInf) with true by (destruct lb; reflexivity).
  cbn. rewrite H. reflexivity.
Qed.

Theorem read_bounds_narrow : forall c lb ub, eb_leb lb ub = true ->
  read_bounds false c lb ub = if eb_leb lb (Fin (c_ub c)) then Ok (lb, ub) else Err EValue.
Proof.
  intros c lb ub H. unfold read_bounds, check_bounds. destruct (eb_leb lb (Fin (c_ub c))); cbn; auto.
  rewrite H. reflexivity.
Qed.

(* a coefficient survives the split into reactants / products *)
Theorem stoich_split_roundtrip : forall q, Qeq (import_coef (export_coef q)) q.
Proof.
  intros q. unfold export_coef, import_coef. destruct (Qle_bool 0 q); cbn [fst snd]; ring.
Qed.
