(* Loading what was saved: the hypothesis `model_loadable` of the load-totality theorem is exact.
   With the one-at-a-time loader (t_bounds_at_once = false) a valid model whose document loads has no
   lower bound above the default upper bound; with the both-at-once loader the hypothesis is empty. *)
From Coq Require Import ZArith QArith List Bool Lia Permutation.
From Cobra.IO Require Import Str StrOrder JVal DictModel DictProofs DictComps DictResave.
Import ListNotations.
Open Scope Z_scope.

Lemma mapM_err_uniform {A B} (f : A -> result B) (e : err) : forall l,
  (forall y, In y l -> f y = Err e \/ exists z, f y = Ok z) ->
  (exists x, In x l /\ f x = Err e) -> mapM f l = Err e.
Proof.
  induction l as [|y l IH]; intros Hall [x [Hx Hf]]; [contradiction|].
  cbn [mapM]. destruct (Hall y (or_introl eq_refl)) as [Hy|[z Hy]]; rewrite Hy; cbn [bind]; [reflexivity|].
  destruct Hx as [Hx|Hx]; [subst y; congruence|].
  rewrite IH; [reflexivity| |exists x; auto]. intros y' Hy'. apply Hall. right. exact Hy'.
Qed.

Lemma forallb_false_ex {A} (p : A -> bool) : forall l,
  forallb p l = false -> exists x, In x l /\ p x = false.
Proof.
  induction l as [|r l IH]; intros HL; [discriminate|]. cbn [forallb] in HL.
  destruct (p r) eqn:E.
  - cbn [andb] in HL. destruct (IH HL) as [x [Hx1 Hx2]]. exists x. split; [right; exact Hx1|exact Hx2].
  - exists r. split; [left; reflexivity|exact E].
Qed.

Section NotLoadable.
  Variable G : gpr_api.
  Variable C : cfg.

  Arguments load_stoich : simpl never.
  Arguments set_lb : simpl never.
  Arguments set_ub : simpl never.
  Arguments py_float : simpl never.
  Arguments save_bound : simpl never.
  Arguments eb_val : simpl never.
  Arguments stoich_val : simpl never.
  Arguments check_bounds : simpl never.

  (* the one-at-a-time loader refuses the saved lower bound when it exceeds the default upper bound *)
  Lemma rxn_not_loadable : forall mids mids' gids r,
    valid_rxn G mids gids r = true -> (forall s, str_mem s mids' = str_mem s mids) ->
    eb_leb (r_lb r) (Fin (c_ub C)) = false ->
    rxn_from_dict G (ref_tables false) C mids' (JDict (rxn_items r)) = Err EValue.
  Proof.
    intros mids mids' gids [i n st lb ub ru ob su nt an] H Hm HL.
    unfold valid_rxn in H. cbn [r_stoich r_lb r_ub r_obj r_notes r_annot r_rule] in H.
    repeat (apply andb_true_iff in H; destruct H as [H ?]).
    cbn [r_lb] in HL.
    assert (Hst : load_stoich mids' (stoich_val (sort_by fst st)) = Ok st).
    { apply load_stoich_ok; auto. rewrite forallb_forall in *. intros p Hp. rewrite Hm. auto. }
    unfold rxn_items, rxn_to_dict, rxn_from_dict, ref_tables. cbn -[jval_eqb].
    rewrite Hst. cbn -[jval_eqb]. rewrite set_lb_save. cbn [r_ub default_rxn]. rewrite HL. reflexivity.
  Qed.

  Lemma loadable_false : forall r, loadable C false r = eb_leb (r_lb r) (Fin (c_ub C)).
  Proof. reflexivity. Qed.

  Arguments met_items : simpl never.
  Arguments gene_items : simpl never.
  Arguments rxn_items : simpl never.
  Arguments load_comps : simpl never.
  Arguments comps_val : simpl never.
  Arguments fix_type : simpl never.
  Arguments mapM : simpl never.
  Arguments set_objs : simpl never.
  Arguments check_ids : simpl never.
  Arguments forallb : simpl never.
  Arguments missing_genes : simpl never.

  Theorem not_loadable_fails : forall s m,
    valid G m = true -> model_loadable C false m = false ->
    exists d, to_dict (ref_tables false) s m = Ok d /\ from_dict G (ref_tables false) C d = Err EValue.
  Proof.
    intros s m Hv HL.
    unfold valid in Hv. repeat (apply andb_true_iff in Hv; destruct Hv as [Hv ?]).
    rename Hv into Hmets.
    match goal with Hx : nodupb (map m_id _) = true |- _ => rename Hx into Hmid end.
    match goal with Hx : nodupb (map g_id _) = true |- _ => rename Hx into Hgid end.
    match goal with Hx : forallb valid_gene _ = true |- _ => rename Hx into Hgenes end.
    match goal with Hx : forallb (valid_rxn _ _ _) _ = true |- _ => rename Hx into Hrxns end.
    rewrite forallb_forall in Hmets, Hgenes, Hrxns.
    unfold model_loadable in HL.
    assert (Hbad : exists r, In r (a_rxns m) /\ loadable C false r = false).
    { apply forallb_false_ex. exact HL. }
    destruct m as [mi mn mets rxns genes comps nt an mx].
    cbn [a_mets a_genes a_rxns a_notes a_annot a_id a_name] in *.
    set (mets' := srt s m_id mets). set (rxns' := srt s r_id rxns). set (genes' := srt s g_id genes).
    assert (Hmids : forall x, str_mem x (map m_id (map norm_met mets')) = str_mem x (map m_id mets)).
    { intros x. rewrite map_mid_norm. apply str_mem_perm. apply Permutation_map.
      apply Permutation_sym, srt_perm. }
    assert (L1 : mapM met_from_dict (map (fun x => JDict (met_items x)) mets') = Ok (map norm_met mets')).
    { apply mapM_map2. intros x Hx. apply (met_trip false x). apply Hmets. eapply srt_In; exact Hx. }
    assert (L2 : mapM gene_from_dict (map (fun x => JDict (gene_items x)) genes') = Ok genes').
    { rewrite <- (map_id genes') at 2. apply mapM_map2. intros x Hx. apply (gene_trip false x). apply Hgenes.
      eapply srt_In; exact Hx. }
    assert (L3 : mapM (rxn_from_dict G (ref_tables false) C (map m_id (map norm_met mets')))
                      (map (fun x => JDict (rxn_items x)) rxns') = Err EValue).
    { apply mapM_err_uniform.
      - intros y Hy. apply in_map_iff in Hy. destruct Hy as [x [<- Hx]].
        assert (Hin : In x rxns) by (eapply srt_In; exact Hx).
        destruct (loadable C false x) eqn:E.
        + right. eexists. apply (rxn_trip G C false (map m_id mets) _ _ x (Hrxns x Hin) E Hmids).
        + left. eapply rxn_not_loadable; [apply (Hrxns x Hin)|exact Hmids|exact E].
      - destruct Hbad as [r [Hr1 Hr2]]. exists (JDict (rxn_items r)). split.
        + apply (in_map (fun x => JDict (rxn_items x))). eapply Permutation_in; [apply srt_perm|exact Hr1].
        + eapply rxn_not_loadable; [apply (Hrxns r Hr1)|exact Hmids|exact Hr2]. }
    assert (K1 : List.forallb (fun x => negb (is_nil (m_id x))) (map norm_met mets') = true).
    { apply forallb_forall. intros x Hx. apply in_map_iff in Hx. destruct Hx as [y [<- Hy]].
      specialize (Hmets y (srt_In _ _ _ _ Hy)). unfold valid_met in Hmets.
      repeat (apply andb_true_iff in Hmets; destruct Hmets as [Hmets ?]). destruct y; exact Hmets. }
    assert (K2 : check_ids (map m_id (map norm_met mets')) = Ok tt).
    { unfold check_ids. rewrite map_mid_norm.
      rewrite (nodupb_perm (map m_id mets) (map m_id mets')); auto. apply Permutation_map, srt_perm. }
    assert (K3 : check_ids (map g_id genes') = Ok tt).
    { unfold check_ids. rewrite (nodupb_perm (map g_id genes) (map g_id genes')); auto. apply Permutation_map, srt_perm. }
    destruct (to_dict_total false s (mkModel mi mn mets rxns genes comps nt an mx)) as [d Hd].
    exists d. split; [exact Hd|].
    rewrite to_dict_form in Hd. destruct (model_opt false (mkModel mi mn mets rxns genes comps nt an mx)) as [opt|e];
      [|discriminate]. cbn [bind] in Hd. inversion Hd; subst d. clear Hd.
    unfold doc_lists. cbn [a_mets a_rxns a_genes a_id]. fold mets' rxns' genes'.
    unfold from_dict. cbn -[dsort].
    rewrite L1; cbn -[dsort]; rewrite K1; cbn -[dsort]; rewrite K2; cbn -[dsort].
    rewrite L2; cbn -[dsort]; rewrite K3; cbn -[dsort]. rewrite L3. reflexivity.
  Qed.

  (* the hypothesis model_loadable of the load-totality theorem is necessary and sufficient *)
  Theorem load_total_iff : forall T s m,
    tables_ok T = true -> valid G m = true ->
    ((exists d m', to_dict T s m = Ok d /\ from_dict G T C d = Ok m') <->
     model_loadable C (t_bounds_at_once T) m = true).
  Proof.
    intros T s m HT Hv. split.
    - intros [d [m' [E1 E2]]]. destruct (model_loadable C (t_bounds_at_once T) m) eqn:EL; [reflexivity|].
      assert (ET := tables_ok_eq T HT). destruct (t_bounds_at_once T) eqn:Eb.
      + unfold model_loadable, loadable in EL. cbn [orb] in EL.
        assert (List.forallb (fun _ : arxn => true) (a_rxns m) = true) as Ht by (apply forallb_forall; reflexivity).
        rewrite Ht in EL. discriminate.
      + rewrite ET in E1, E2. destruct (not_loadable_fails s m Hv EL) as [d0 [F1 F2]].
        rewrite E1 in F1. inversion F1; subst d0. rewrite E2 in F2. discriminate.
    - intros HL. destruct (roundtrip G C T s m HT Hv HL) as [d [H1 H2]]. exists d, (rt s m). auto.
  Qed.
End NotLoadable.
