(* Proofs about the model of io/dict.py (DictModel.v): what one save/load trip returns. *)
From Coq Require Import ZArith QArith List Bool Lia Permutation.
From Cobra.IO Require Import Str JVal DictModel.
Import ListNotations.
Open Scope Z_scope.

Arguments dsort : simpl never.
Arguments sort_by : simpl never.

(* ------------------------------------------------------------------ small facts *)
Definition canon0 (q : Q) : bool := negb (Qnum q =? 0) || (Pos.eqb (Qden q) 1).

Lemma canon0_zero : forall q, canon0 q = true -> q_is_zero q = true -> q = 0%Q.
Proof.
  intros [n d] Hc Hz. unfold canon0, q_is_zero in *. cbn [Qnum Qden] in *. rewrite Hz in Hc.
  cbn [negb orb] in Hc. apply Pos.eqb_eq in Hc. apply Z.eqb_eq in Hz. subst. reflexivity.
Qed.

Lemma Qeq_bool_zero : forall q, Qeq_bool q 0 = q_is_zero q.
Proof. intros [[|p|p] d]; reflexivity. Qed.

Lemma jnum_default : forall q, jval_eqb (JNum q) (JNum 0) = q_is_zero q.
Proof. intros q. cbn. unfold q_eqb. apply Qeq_bool_zero. Qed.

Lemma mapM_map {A B} (f : A -> result B) (g : A -> B) :
  forall l, (forall x, In x l -> f x = Ok (g x)) -> mapM f l = Ok (map g l).
Proof.
  induction l as [|x l IH]; intros H; cbn; auto.
  rewrite (H x (or_introl eq_refl)). cbn. rewrite IH by (intros y Hy; apply H; right; exact Hy). reflexivity.
Qed.

Lemma mapM_map2 {A B C} (f : B -> result C) (h : A -> B) (g : A -> C) :
  forall l, (forall x, In x l -> f (h x) = Ok (g x)) -> mapM f (map h l) = Ok (map g l).
Proof.
  induction l as [|x l IH]; intros H; cbn; auto.
  rewrite (H x (or_introl eq_refl)). cbn. rewrite IH by (intros y Hy; apply H; right; exact Hy). reflexivity.
Qed.

(* ------------------------------------------------------------------ metabolites *)
Definition valid_met (m : amet) : bool :=
  negb (is_nil (m_id m)) && dsorted (m_notes m) && dsorted (m_annot m) && canon0 (m_bound m).

Definition norm_met (m : amet) : amet :=
  mkMet (m_id m) (m_name m) (match m_comp m with None => Some [] | c => c end) (m_charge m) (m_formula m)
        (m_bound m) (m_notes m) (m_annot m).

Definition met_items (m : amet) : dict :=
  match met_to_dict (ref_tables false) m with Ok (JDict l) => l | _ => [] end.

Lemma charge_back : forall z, (Z.pos (Qden (inject_Z z)) =? 1) = true /\ Qnum (inject_Z z) = z.
Proof. intros z. split; reflexivity. Qed.

Lemma met_trip : forall b m, valid_met m = true ->
  met_to_dict (ref_tables b) m = Ok (JDict (met_items m)) /\
  met_from_dict (JDict (met_items m)) = Ok (norm_met m) /\
  jid (JDict (met_items m)) = m_id m.
Proof.
  intros b [i n c ch f bd nt an] H. unfold valid_met in H. cbn in H.
  repeat (apply andb_true_iff in H; destruct H as [H ?]).
  assert (Hb : q_is_zero bd = true -> bd = 0%Q) by (apply canon0_zero; assumption).
  unfold met_items, met_to_dict, ref_tables. cbn -[jval_eqb].
  rewrite jnum_default.
  rewrite !(dsort_id nt), !(dsort_id an) by assumption.
  destruct c as [c|]; destruct ch as [ch|]; destruct f as [f|]; destruct (q_is_zero bd) eqn:Ez;
    destruct nt as [|[k1 v1] nt]; destruct an as [|[k2 v2] an]; cbn -[dsort];
    rewrite ?(dsort_id ((k1, v1) :: nt)), ?(dsort_id ((k2, v2) :: an)) by assumption;
    try rewrite (Hb eq_refl); repeat split; reflexivity.
Qed.

(* ------------------------------------------------------------------ genes *)
Definition valid_gene (g : agene) : bool := dsorted (g_notes g) && dsorted (g_annot g).

Definition gene_items (g : agene) : dict :=
  match gene_to_dict (ref_tables false) g with Ok (JDict l) => l | _ => [] end.

Lemma gene_trip : forall b g, valid_gene g = true ->
  gene_to_dict (ref_tables b) g = Ok (JDict (gene_items g)) /\
  gene_from_dict (JDict (gene_items g)) = Ok g /\
  jid (JDict (gene_items g)) = g_id g.
Proof.
  intros b [i n nt an] H. unfold valid_gene in H. cbn in H.
  apply andb_true_iff in H; destruct H as [H1 H2].
  unfold gene_items, gene_to_dict, ref_tables. cbn -[jval_eqb].
  rewrite !(dsort_id nt), !(dsort_id an) by assumption.
  destruct nt as [|[k1 v1] nt]; destruct an as [|[k2 v2] an]; cbn -[dsort];
    rewrite ?(dsort_id ((k1, v1) :: nt)), ?(dsort_id ((k2, v2) :: an)) by assumption;
    repeat split; reflexivity.
Qed.

(* ------------------------------------------------------------------ reactions *)
Section Rxn.
  Variable G : gpr_api.
  Variable C : cfg.

  Definition nonzero (p : str * Q) : bool := negb (q_is_zero (snd p)).

  Definition valid_rxn (mids gids : list str) (r : arxn) : bool :=
    dsorted (r_stoich r) && forallb (fun p => str_mem (fst p) mids) (r_stoich r) &&
    forallb nonzero (r_stoich r) && eb_leb (r_lb r) (r_ub r) && canon0 (r_obj r) &&
    dsorted (r_notes r) && dsorted (r_annot r) && str_eqb (rule_norm G (r_rule r)) (r_rule r) &&
    forallb (fun g => str_mem g gids) (rule_genes G (r_rule r)).

  (* the condition under which the one-at-a-time loader accepts the saved bounds *)
  Definition loadable (b : bool) (r : arxn) : bool := b || eb_leb (r_lb r) (Fin (c_ub C)).

  Definition rxn_items (r : arxn) : dict :=
    match rxn_to_dict (ref_tables false) r with Ok (JDict l) => l | _ => [] end.

  Lemma parse_stoich_ok : forall mids st,
    forallb (fun p => str_mem (fst p) mids) st = true ->
    parse_stoich mids (map (fun p => (fst p, JNum (snd p))) st) = Ok st.
  Proof.
    induction st as [|[k q] st IH]; cbn; intros H; auto.
    apply andb_true_iff in H. destruct H as [H1 H2]. rewrite H1, (IH H2). reflexivity.
  Qed.

  Lemma filter_all {A} (f : A -> bool) : forall l, forallb f l = true -> filter f l = l.
  Proof.
    induction l as [|x l IH]; cbn; intros H; auto.
    apply andb_true_iff in H. destruct H as [H1 H2]. rewrite H1, (IH H2). reflexivity.
  Qed.

  Lemma load_stoich_ok : forall mids st,
    dsorted st = true -> forallb (fun p => str_mem (fst p) mids) st = true -> forallb nonzero st = true ->
    load_stoich mids (stoich_val (sort_by fst st)) = Ok st.
  Proof.
    intros mids st H1 H2 H3. unfold load_stoich, stoich_val.
    change (sort_by fst st) with (dsort st). rewrite (dsort_id st H1). cbn [as_dict bind].
    rewrite (parse_stoich_ok _ _ H2). cbn [bind]. fold nonzero. rewrite (filter_all _ _ H3), (dsort_id st H1).
    reflexivity.
  Qed.

  Lemma py_float_save : forall b, py_float (save_bound (eb_val b)) = Ok b.
  Proof. intros [|q|]; reflexivity. Qed.

  Lemma set_lb_save : forall r b, set_lb r (save_bound (eb_val b)) =
    if eb_leb b (r_ub r) then Ok (set_r_bounds r b (r_ub r)) else Err EValue.
  Proof. intros r b. unfold set_lb. rewrite py_float_save. cbn. unfold check_bounds. destruct (eb_leb b (r_ub r)); reflexivity. Qed.

  Lemma set_ub_save : forall r b, set_ub r (save_bound (eb_val b)) =
    if eb_leb (r_lb r) b then Ok (set_r_bounds r (r_lb r) b) else Err EValue.
  Proof. intros r b. unfold set_ub. rewrite py_float_save. cbn. unfold check_bounds. destruct (eb_leb (r_lb r) b); reflexivity. Qed.

  Arguments load_stoich : simpl never.
  Arguments set_lb : simpl never.
  Arguments set_ub : simpl never.
  Arguments py_float : simpl never.
  Arguments save_bound : simpl never.
  Arguments eb_val : simpl never.
  Arguments stoich_val : simpl never.
  Arguments check_bounds : simpl never.

  Lemma rxn_trip : forall b mids mids' gids r,
    valid_rxn mids gids r = true -> loadable b r = true ->
    (forall s, str_mem s mids' = str_mem s mids) ->
    rxn_to_dict (ref_tables b) r = Ok (JDict (rxn_items r)) /\
    rxn_from_dict G (ref_tables b) C mids' (JDict (rxn_items r)) = Ok (with_obj r 0) /\
    obj_coefficient (rxn_items r) = Ok (r_obj r) /\
    jid (JDict (rxn_items r)) = r_id r.
  Proof.
    intros b mids mids' gids [i n st lb ub ru ob su nt an] H HL Hm.
    unfold valid_rxn in H. cbn [r_stoich r_lb r_ub r_obj r_notes r_annot r_rule] in H.
    repeat (apply andb_true_iff in H; destruct H as [H ?]).
    unfold loadable in HL. cbn [r_lb] in HL.
    assert (Hst : load_stoich mids' (stoich_val (sort_by fst st)) = Ok st).
    { apply load_stoich_ok; auto. rewrite forallb_forall in *. intros p Hp. rewrite Hm. auto. }
    assert (Hob : q_is_zero ob = true -> ob = 0%Q) by (apply canon0_zero; assumption).
    match goal with Hr : str_eqb (rule_norm G ru) ru = true |- _ => apply str_eqb_eq in Hr; rename Hr into Hrule end.
    unfold rxn_items, rxn_to_dict, rxn_from_dict, ref_tables. cbn -[jval_eqb].
    rewrite jnum_default.
    rewrite !(dsort_id nt), !(dsort_id an) by assumption.
    destruct (q_is_zero ob) eqn:Ez; destruct su as [|c0 su];
      destruct nt as [|[k1 v1] nt]; destruct an as [|[k2 v2] an]; destruct b; cbn -[dsort];
      try unfold init_bounds; cbn -[dsort];
      rewrite ?py_float_save; cbn -[dsort];
      unfold check_bounds;
      repeat match goal with Hx : eb_leb lb ub = true |- _ => rewrite Hx end; cbn -[dsort];
      rewrite ?Hst; cbn -[dsort]; rewrite ?set_lb_save; cbn -[dsort];
      repeat match goal with
             | Hx : false || eb_leb _ _ = true |- _ => cbn in Hx; rewrite Hx
             end; cbn -[dsort];
      rewrite ?set_ub_save; cbn -[dsort];
      repeat match goal with Hx : eb_leb lb ub = true |- _ => rewrite Hx end; cbn -[dsort];
      rewrite ?Hrule; rewrite ?Ez;
      rewrite ?(dsort_id ((k1, v1) :: nt)), ?(dsort_id ((k2, v2) :: an)) by assumption;
      try rewrite (Hob eq_refl); repeat split; try reflexivity.
  Qed.
End Rxn.

(* ------------------------------------------------------------------ whole models *)
Lemma list_eqb_eq {A} (eqb : A -> A -> bool) :
  (forall x y, eqb x y = true -> x = y) -> forall a b, list_eqb eqb a b = true -> a = b.
Proof.
  intros He. induction a as [|x a IH]; destruct b as [|y b]; cbn; intros H; try discriminate; auto.
  apply andb_true_iff in H. destruct H as [H1 H2]. f_equal; auto.
Qed.

Lemma strs_eqb_eq : forall a b, strs_eqb a b = true -> a = b.
Proof. apply list_eqb_eq. intros x y H. apply str_eqb_eq. exact H. Qed.

Lemma dflt_eqb_eq : forall a b, dflt_eqb a b = true -> a = b.
Proof.
  apply list_eqb_eq. intros [k1 z1] [k2 z2] H. cbn in H. apply andb_true_iff in H. destruct H as [H1 H2].
  apply str_eqb_eq in H1. apply Z.eqb_eq in H2. congruence.
Qed.

Lemma tables_ok_eq : forall T, tables_ok T = true -> T = ref_tables (t_bounds_at_once T).
Proof.
  intros T H. unfold tables_ok, tables_eqb in H.
  repeat (apply andb_true_iff in H; destruct H as [H ?]).
  destruct T. cbn in *.
  repeat match goal with
         | Hx : list_eqb str_eqb _ _ = true |- _ => apply strs_eqb_eq in Hx
         | Hx : list_eqb (fun p q => _) _ _ = true |- _ => apply dflt_eqb_eq in Hx
         end.
  subst. reflexivity.
Qed.

Section Model.
  Variable G : gpr_api.
  Variable C : cfg.

  Definition valid (m : amodel) : bool :=
    forallb valid_met (a_mets m) && nodupb (map m_id (a_mets m)) &&
    forallb valid_gene (a_genes m) && nodupb (map g_id (a_genes m)) &&
    forallb (valid_rxn G (map m_id (a_mets m)) (map g_id (a_genes m))) (a_rxns m) &&
    nodupb (map r_id (a_rxns m)) && dsorted (a_notes m) && dsorted (a_annot m).

  Definition model_loadable (b : bool) (m : amodel) : bool := forallb (loadable C b) (a_rxns m).

  Definition srt {A} (s : bool) (key : A -> str) (l : list A) : list A := if s then sort_by key l else l.

  (* what one trip through model_to_dict / model_from_dict returns *)
  Definition rt (s : bool) (m : amodel) : amodel :=
    mkModel (a_id m) (a_name m) (map norm_met (srt s m_id (a_mets m))) (srt s r_id (a_rxns m))
            (srt s g_id (a_genes m)) (dsort (public_comps m)) (a_notes m) (a_annot m) true.

  Lemma srt_perm {A} s (key : A -> str) l : Permutation l (srt s key l).
  Proof. destruct s; cbn; [apply sort_perm | apply Permutation_refl]. Qed.

  Lemma srt_In {A} s (key : A -> str) l x : In x (srt s key l) -> In x l.
  Proof. intros H. eapply Permutation_in; [apply Permutation_sym, srt_perm | exact H]. Qed.

  Lemma srt_map {A B} (s : bool) (f : A -> B) (kb : B -> str) (ka : A -> str) :
    (forall a, kb (f a) = ka a) -> forall l, (if s then sort_by kb (map f l) else map f l) = map f (srt s ka l).
  Proof. intros Hk l. destruct s; cbn; auto. apply sort_by_map. exact Hk. Qed.

  Lemma jid_met : forall m, jid (JDict (met_items m)) = m_id m.
  Proof. intros m; destruct m. reflexivity. Qed.
  Lemma jid_gene : forall g, jid (JDict (gene_items g)) = g_id g.
  Proof. intros g; destruct g. reflexivity. Qed.
  Lemma jid_rxn : forall r, jid (JDict (rxn_items r)) = r_id r.
  Proof. intros r; destruct r. reflexivity. Qed.

  Lemma map_mid_norm : forall l, map m_id (map norm_met l) = map m_id l.
  Proof. intros l. rewrite map_map. apply map_ext. intros x; destruct x; reflexivity. Qed.

  Lemma missing_none : forall cands have,
    forallb (fun g => str_mem g have) cands = true -> missing_genes have cands = [].
  Proof.
    induction cands as [|c cs IH]; cbn; intros have H; auto.
    apply andb_true_iff in H. destruct H as [H1 H2]. rewrite H1. apply IH. exact H2.
  Qed.

  Lemma with_obj_back : forall r, with_obj (with_obj r 0) (r_obj r) = r.
  Proof. intros []. reflexivity. Qed.

  Lemma set_objs_ok : forall rs,
    (forall r, In r rs -> obj_coefficient (rxn_items r) = Ok (r_obj r)) ->
    set_objs (map (fun r => with_obj r 0) rs) (map (fun r => JDict (rxn_items r)) rs) = Ok rs.
  Proof.
    induction rs as [|r rs IH]; intros H; cbn [map set_objs]; auto.
    rewrite (H r (or_introl eq_refl)). cbn [bind]. rewrite IH by (intros x Hx; apply H; right; exact Hx).
    cbn [bind]. rewrite with_obj_back. reflexivity.
  Qed.

  Lemma comps_of_val : forall l, comps_of (map (fun p => (fst p, JStr (snd p))) l) = Ok l.
  Proof. induction l as [|[k v] l IH]; cbn; auto. rewrite IH. reflexivity. Qed.

  Lemma load_comps_val : forall l, load_comps (fix_type (comps_val l)) = Ok (dsort l).
  Proof.
    intros l. unfold load_comps, comps_val, fix_type. unfold dsort at 1.
    rewrite (sort_by_map (fun p : str * str => (fst p, JStr (snd p))) fst fst) by reflexivity.
    cbn [as_dict bind]. rewrite comps_of_val. cbn [bind]. fold (dsort l). unfold dsort. rewrite sort_idem. reflexivity.
  Qed.

  Lemma comps_default : forall l, is_null (comps_val l) || jval_eqb (comps_val l) (JList []) = false.
  Proof. reflexivity. Qed.

  Lemma flat_map_rule : forall rs,
    flat_map (fun r => rule_genes G (r_rule r)) (map (fun r => with_obj r 0) rs) =
    flat_map (fun r => rule_genes G (r_rule r)) rs.
  Proof. induction rs as [|[] rs IH]; cbn; auto. rewrite IH. reflexivity. Qed.

  Lemma forallb_flat_map {A} (f : A -> list str) (p : str -> bool) : forall l,
    forallb (fun x => forallb p (f x)) l = true -> forallb p (flat_map f l) = true.
  Proof.
    induction l as [|x l IH]; cbn; intros H; auto. apply andb_true_iff in H. destruct H as [H1 H2].
    rewrite forallb_app, H1, (IH H2). reflexivity.
  Qed.

  Arguments met_items : simpl never.
  Arguments gene_items : simpl never.
  Arguments rxn_items : simpl never.
  Arguments load_comps : simpl never.
  Arguments comps_val : simpl never.
  Arguments fix_type : simpl never.
  Arguments mapM : simpl never.
  Arguments set_objs : simpl never.
  Arguments check_ids : simpl never.
  Arguments forallb : simpl never.
  Arguments missing_genes : simpl never.

  Theorem roundtrip : forall T s m,
    tables_ok T = true -> valid m = true -> model_loadable (t_bounds_at_once T) m = true ->
    exists d, to_dict T s m = Ok d /\ from_dict G T C d = Ok (rt s m).
  Proof.
    intros T s m HT Hv HL. rewrite (tables_ok_eq T HT) in *. set (b := t_bounds_at_once T) in *. clearbody b. clear HT T.
    unfold valid in Hv. repeat (apply andb_true_iff in Hv; destruct Hv as [Hv ?]).
    rename Hv into Hmets.
    match goal with Hx : nodupb (map m_id _) = true |- _ => rename Hx into Hmid end.
    match goal with Hx : nodupb (map g_id _) = true |- _ => rename Hx into Hgid end.
    match goal with Hx : nodupb (map r_id _) = true |- _ => rename Hx into Hrid end.
    match goal with Hx : forallb valid_gene _ = true |- _ => rename Hx into Hgenes end.
    match goal with Hx : forallb (valid_rxn _ _ _) _ = true |- _ => rename Hx into Hrxns end.
    rewrite forallb_forall in Hmets, Hgenes, Hrxns. unfold model_loadable in HL. rewrite forallb_forall in HL.
    destruct m as [mi mn mets rxns genes comps nt an mx]. cbn [a_mets a_genes a_rxns a_notes a_annot a_id a_name] in *.
    set (mets' := srt s m_id mets). set (rxns' := srt s r_id rxns). set (genes' := srt s g_id genes).
    assert (Hmids : forall x, str_mem x (map m_id (map norm_met mets')) = str_mem x (map m_id mets)).
    { intros x. rewrite map_mid_norm. apply str_mem_perm. apply Permutation_map.
      apply Permutation_sym, srt_perm. }
    (* saving *)
    assert (E1 : mapM (met_to_dict (ref_tables b)) mets = Ok (map (fun x => JDict (met_items x)) mets)).
    { apply mapM_map. intros x Hx. apply (met_trip b x (Hmets x Hx)). }
    assert (E2 : mapM (rxn_to_dict (ref_tables b)) rxns = Ok (map (fun x => JDict (rxn_items x)) rxns)).
    { apply mapM_map. intros x Hx.
      apply (rxn_trip G C b _ (map m_id mets) _ x (Hrxns x Hx) (HL x Hx) (fun _ => eq_refl)). }
    assert (E3 : mapM (gene_to_dict (ref_tables b)) genes = Ok (map (fun x => JDict (gene_items x)) genes)).
    { apply mapM_map. intros x Hx. apply (gene_trip b x (Hgenes x Hx)). }
    (* loading the three lists *)
    assert (L1 : mapM met_from_dict (map (fun x => JDict (met_items x)) mets') = Ok (map norm_met mets')).
    { apply mapM_map2. intros x Hx. apply (met_trip b x). apply Hmets. eapply srt_In; exact Hx. }
    assert (L2 : mapM gene_from_dict (map (fun x => JDict (gene_items x)) genes') = Ok genes').
    { rewrite <- (map_id genes') at 2. apply mapM_map2. intros x Hx. apply (gene_trip b x). apply Hgenes.
      eapply srt_In; exact Hx. }
    assert (L3 : mapM (rxn_from_dict G (ref_tables b) C (map m_id (map norm_met mets')))
                      (map (fun x => JDict (rxn_items x)) rxns') = Ok (map (fun r => with_obj r 0) rxns')).
    { apply mapM_map2. intros x Hx. assert (Hin : In x rxns) by (eapply srt_In; exact Hx).
      apply (rxn_trip G C b (map m_id mets) _ _ x (Hrxns x Hin) (HL x Hin) Hmids). }
    assert (L4 : set_objs (map (fun r => with_obj r 0) rxns') (map (fun r => JDict (rxn_items r)) rxns') = Ok rxns').
    { apply set_objs_ok. intros x Hx. assert (Hin : In x rxns) by (eapply srt_In; exact Hx).
      apply (rxn_trip G C b (map m_id mets) _ _ x (Hrxns x Hin) (HL x Hin) Hmids). }
    assert (K1 : forallb (fun x => negb (is_nil (m_id x))) (map norm_met mets') = true).
    { apply forallb_forall. intros x Hx. apply in_map_iff in Hx. destruct Hx as [y [<- Hy]].
      specialize (Hmets y (srt_In _ _ _ _ Hy)). unfold valid_met in Hmets.
      repeat (apply andb_true_iff in Hmets; destruct Hmets as [Hmets ?]). destruct y; exact Hmets. }
    assert (K2 : check_ids (map m_id (map norm_met mets')) = Ok tt).
    { unfold check_ids. rewrite map_mid_norm.
      rewrite (nodupb_perm (map m_id mets) (map m_id mets')); auto. apply Permutation_map, srt_perm. }
    assert (K3 : check_ids (map g_id genes') = Ok tt).
    { unfold check_ids. rewrite (nodupb_perm (map g_id genes) (map g_id genes')); auto. apply Permutation_map, srt_perm. }
    assert (K4 : check_ids (map r_id (map (fun r => with_obj r 0) rxns')) = Ok tt).
    { unfold check_ids. rewrite map_map.
      replace (map (fun x => r_id (with_obj x 0)) rxns') with (map r_id rxns') by (apply map_ext; intros []; reflexivity).
      rewrite (nodupb_perm (map r_id rxns) (map r_id rxns')); auto. apply Permutation_map, srt_perm. }
    assert (K5 : missing_genes (map g_id genes')
                   (flat_map (fun r => rule_genes G (r_rule r)) (map (fun r => with_obj r 0) rxns')) = []).
    { rewrite flat_map_rule. apply missing_none. apply forallb_flat_map. apply forallb_forall. intros x Hx.
      specialize (Hrxns x (srt_In _ _ _ _ Hx)). unfold valid_rxn in Hrxns.
      apply andb_true_iff in Hrxns. destruct Hrxns as [_ Hg].
      rewrite forallb_forall in *. intros g Hgin. rewrite <- (Hg g Hgin). apply str_mem_perm.
      apply Permutation_map, Permutation_sym, srt_perm. }
    unfold to_dict. cbn [a_mets a_rxns a_genes]. rewrite E1, E2, E3. cbn [bind].
    rewrite (srt_map s (fun x => JDict (met_items x)) jid m_id jid_met).
    rewrite (srt_map s (fun x => JDict (rxn_items x)) jid r_id jid_rxn).
    rewrite (srt_map s (fun x => JDict (gene_items x)) jid g_id jid_gene).
    fold mets' rxns' genes'.
    unfold ref_tables at 1 2. cbn -[jval_eqb]. rewrite comps_default.
    assert (Hnt : fix_type (JDict nt) = JDict nt) by (unfold fix_type; rewrite dsort_id by assumption; reflexivity).
    assert (Han : fix_type (JDict an) = JDict an) by (unfold fix_type; rewrite dsort_id by assumption; reflexivity).
    rewrite Hnt, Han.
    destruct mi as [mi|]; destruct mn as [mn|]; destruct nt as [|[k1 v1] nt]; destruct an as [|[k2 v2] an];
      cbn -[dsort]; eexists; (split; [reflexivity|]);
      unfold from_dict; cbn -[dsort];
      rewrite L1; cbn -[dsort]; rewrite K1; cbn -[dsort]; rewrite K2; cbn -[dsort];
      rewrite L2; cbn -[dsort]; rewrite K3; cbn -[dsort];
      rewrite L3; cbn -[dsort]; rewrite K4; cbn -[dsort]; rewrite L4; cbn -[dsort]; rewrite K5;
      cbn -[dsort]; rewrite ?load_comps_val; cbn -[dsort];
      rewrite ?(dsort_id ((k1, v1) :: nt)), ?(dsort_id ((k2, v2) :: an)) by assumption;
      unfold rt; cbn -[dsort]; rewrite ?app_nil_r; reflexivity.
  Qed.
End Model.

(* ------------------------------------------------------------------ consequences *)
Section More.
  Variable G : gpr_api.
  Variable C : cfg.

  Definition dir_max (m : amodel) : bool := a_max m.
  Definition comps_some (m : amodel) : bool :=
    forallb (fun x => match m_comp x with Some _ => true | None => false end) (a_mets m).
  (* the private compartment table holds exactly the compartments in use *)
  Definition comps_canonical (m : amodel) : Prop := a_comps m = dsort (public_comps m).

  Lemma norm_met_some : forall l,
    forallb (fun x => match m_comp x with Some _ => true | None => false end) l = true -> map norm_met l = l.
  Proof.
    induction l as [|x l IH]; cbn; intros H; auto. apply andb_true_iff in H. destruct H as [H1 H2].
    rewrite (IH H2). destruct x as [i n [c|] ch f b nt an]; try discriminate. reflexivity.
  Qed.

  (* without sorting, a model whose direction is max, whose metabolites all have a compartment and whose
     compartment table is canonical comes back unchanged *)
  Lemma rt_identity : forall m,
    dir_max m = true -> comps_some m = true -> comps_canonical m -> rt false m = m.
  Proof.
    intros [mi mn mets rxns genes comps nt an mx] H1 H2 H3. unfold rt, srt, dir_max, comps_some, comps_canonical in *.
    cbn [a_mets a_rxns a_genes a_id a_name a_notes a_annot a_max a_comps] in *.
    rewrite (norm_met_some _ H2). subst mx. rewrite <- H3. reflexivity.
  Qed.

  (* every listed attribute other than direction / compartments is returned unchanged, in any case *)
  Lemma rt_fields : forall m,
    a_id (rt false m) = a_id m /\ a_name (rt false m) = a_name m /\ a_rxns (rt false m) = a_rxns m /\
    a_genes (rt false m) = a_genes m /\ a_notes (rt false m) = a_notes m /\ a_annot (rt false m) = a_annot m /\
    map (fun x => (m_id x, m_name x, m_charge x, m_formula x, m_bound x, m_notes x, m_annot x)) (a_mets (rt false m)) =
    map (fun x => (m_id x, m_name x, m_charge x, m_formula x, m_bound x, m_notes x, m_annot x)) (a_mets m).
  Proof.
    intros m. unfold rt, srt. cbn. repeat split. rewrite map_map. apply map_ext. intros x; destruct x; reflexivity.
  Qed.

  Lemma valid_met_norm : forall x, valid_met (norm_met x) = valid_met x.
  Proof. intros x; destruct x; reflexivity. Qed.

  Lemma forallb_perm {A} (p : A -> bool) l l' : Permutation l l' -> forallb p l = true -> forallb p l' = true.
  Proof.
    intros P H. rewrite forallb_forall in *. intros x Hx. apply H. eapply Permutation_in; [apply Permutation_sym; exact P|exact Hx].
  Qed.

  Lemma forallb_ext_in {A} (p q : A -> bool) l : (forall x, p x = q x) -> forallb p l = forallb q l.
  Proof. intros H. induction l as [|x l IH]; cbn; auto. rewrite H, IH. reflexivity. Qed.

  Lemma valid_rxn_mem : forall mids mids' gids gids' r,
    (forall s, str_mem s mids' = str_mem s mids) -> (forall s, str_mem s gids' = str_mem s gids) ->
    valid_rxn G mids' gids' r = valid_rxn G mids gids r.
  Proof.
    intros mids mids' gids gids' r Hm Hg. unfold valid_rxn.
    rewrite (forallb_ext_in (fun p => str_mem (fst p) mids') (fun p => str_mem (fst p) mids)) by (intros; apply Hm).
    rewrite (forallb_ext_in (fun g => str_mem g gids') (fun g => str_mem g gids)) by (intros; apply Hg).
    reflexivity.
  Qed.

  Lemma valid_rt : forall s m, valid G m = true -> valid G (rt s m) = true.
  Proof.
    intros s [mi mn mets rxns genes comps nt an mx] Hv. unfold valid in *.
    cbn [rt a_mets a_rxns a_genes a_id a_name a_notes a_annot a_max a_comps] in *.
    repeat (apply andb_true_iff in Hv; destruct Hv as [Hv ?]).
    repeat (apply andb_true_iff; split); auto.
    - rewrite forallb_forall. intros x Hx. apply in_map_iff in Hx. destruct Hx as [y [<- Hy]].
      rewrite valid_met_norm. rewrite forallb_forall in Hv. apply Hv. eapply srt_In; exact Hy.
    - rewrite map_mid_norm. eapply nodupb_perm; [apply Permutation_map, srt_perm|assumption].
    - eapply forallb_perm; [apply srt_perm|assumption].
    - eapply nodupb_perm; [apply Permutation_map, srt_perm|assumption].
    - eapply forallb_perm; [apply srt_perm|].
      erewrite forallb_ext_in; [eassumption|]. intros x. apply valid_rxn_mem.
      + intros z. rewrite map_mid_norm. apply str_mem_perm, Permutation_map, Permutation_sym, srt_perm.
      + intros z. apply str_mem_perm, Permutation_map, Permutation_sym, srt_perm.
    - eapply nodupb_perm; [apply Permutation_map, srt_perm|assumption].
  Qed.

  Lemma loadable_rt : forall b s m, model_loadable C b m = true -> model_loadable C b (rt s m) = true.
  Proof. intros b s m H. unfold model_loadable in *. cbn [rt a_rxns]. eapply forallb_perm; [apply srt_perm|exact H]. Qed.

  Definition set_comps (m : amodel) (c : list (str * str)) : amodel :=
    mkModel (a_id m) (a_name m) (a_mets m) (a_rxns m) (a_genes m) c (a_notes m) (a_annot m) (a_max m).

  Lemma norm_met_idem : forall x, norm_met (norm_met x) = norm_met x.
  Proof. intros x; destruct x as [i n [c|] ch f b nt an]; reflexivity. Qed.

  Lemma srt_idem {A} s (key : A -> str) l : srt s key (srt s key l) = srt s key l.
  Proof. destruct s; cbn; auto. apply sort_idem. Qed.

  Lemma srt_norm : forall s l, srt s m_id (map norm_met l) = map norm_met (srt s m_id l).
  Proof.
    intros s l. destruct s; cbn; auto. apply sort_by_map. intros a; destruct a; reflexivity.
  Qed.

  (* a second trip re-derives the private compartment table and changes nothing else *)
  Lemma rt_rt : forall s m, rt s (rt s m) = set_comps (rt s m) (dsort (public_comps (rt s m))).
  Proof.
    intros s m. unfold rt at 1. unfold set_comps. f_equal.
    - cbn [rt a_mets]. rewrite srt_norm, srt_idem, map_map. apply map_ext. intros x. apply norm_met_idem.
    - cbn [rt a_rxns]. apply srt_idem.
    - cbn [rt a_genes]. apply srt_idem.
  Qed.
End More.

Section Sorted.
  Variable G : gpr_api.
  Variable C : cfg.

  (* the model with its three lists in the order model_to_dict(sort=s) writes them *)
  Definition sorted_model (s : bool) (m : amodel) : amodel :=
    mkModel (a_id m) (a_name m) (srt s m_id (a_mets m)) (srt s r_id (a_rxns m)) (srt s g_id (a_genes m))
            (a_comps m) (a_notes m) (a_annot m) (a_max m).

  Lemma rt_sorted : forall s m,
    dir_max m = true -> comps_some m = true -> comps_canonical m -> rt s m = sorted_model s m.
  Proof.
    intros s [mi mn mets rxns genes comps nt an mx] H1 H2 H3.
    unfold rt, sorted_model, dir_max, comps_some, comps_canonical in *.
    cbn [a_mets a_rxns a_genes a_id a_name a_notes a_annot a_max a_comps] in *.
    rewrite (norm_met_some (srt s m_id mets)) by (eapply forallb_perm; [apply srt_perm|exact H2]).
    subst mx. rewrite <- H3. reflexivity.
  Qed.
End Sorted.
