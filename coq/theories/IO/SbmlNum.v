(* What happens to a number on its way through an SBML file: libsbml prints a double with 15
   significant decimal digits (C "%.15g": the exact binary value, correctly rounded, ties to even) and
   reads the decimal text back as the nearest double (strtod, ties to even).  Numbers are exact
   rationals here (every finite double is one).  Executable; subnormal results are handled by the
   exponent floor -1074, overflow is not modelled (the text of such a number is INF in any case).
   Nothing here is a theorem about printf/strtod: harness/c10.py compares [wnum15] with what was
   actually written and parsed for every number of every generated document. *)
From Coq Require Import ZArith QArith List Bool.
Import ListNotations.
Open Scope Z_scope.

(* (n/d) / base^x as a fraction *)
Definition scale (base n d x : Z) : Z * Z :=
  if 0 <=? x then (n, d * base ^ x) else (n * base ^ (- x), d).
(* base^x <= n/d *)
Definition ge_pow (base n d x : Z) : bool := let (a, b) := scale base n d x in b <=? a.

Fixpoint climb (fuel : nat) (base n d x : Z) : Z :=
  match fuel with
  | O => x
  | S f => if ge_pow base n d (x + 1) then climb f base n d (x + 1) else x
  end.

(* floor (log10 (n/d)) and floor (log2 (n/d)) for n, d > 0 *)
Definition floor_log10 (n d : Z) : Z :=
  climb 6 10 n d ((Z.log2 n - Z.log2 d - 1) * 30103 / 100000 - 1).
Definition floor_log2 (n d : Z) : Z := climb 4 2 n d (Z.log2 n - Z.log2 d - 2).

(* a/b rounded to the nearest integer, ties to even (b > 0) *)
Definition round_he (a b : Z) : Z :=
  let fl := a / b in
  let r := a mod b in
  if 2 * r <? b then fl else if b <? 2 * r then fl + 1 else if Z.even fl then fl else fl + 1.

(* m * base^x as a rational *)
Definition unscale (base m x : Z) : Q :=
  if 0 <=? x then (m * base ^ x) # 1 else m # (Z.to_pos (base ^ (- x))).

(* positive rational to 15 significant decimal digits *)
Definition round15_pos (n d : Z) : Q :=
  let s := floor_log10 n d - 14 in
  let (a, b) := scale 10 n d s in
  unscale 10 (round_he a b) s.

(* positive rational to the nearest double *)
Definition to_double_pos (n d : Z) : Q :=
  let e := Z.max (floor_log2 n d - 52) (-1074) in
  let (a, b) := scale 2 n d e in
  unscale 2 (round_he a b) e.

Definition on_pos (f : Z -> Z -> Q) (q : Q) : Q :=
  let q := Qred q in
  match Qnum q with
  | Z0 => 0%Q
  | Zpos n => Qred (f (Zpos n) (Zpos (Qden q)))
  | Zneg n => Qred (Qopp (f (Zpos n) (Zpos (Qden q))))
  end.

Definition round15 : Q -> Q := on_pos round15_pos.
Definition to_double : Q -> Q := on_pos to_double_pos.

(* the value that is read back after a double with exact value q was written *)
Definition wnum15 (q : Q) : Q := to_double (round15 q).

(* samples: short decimals survive; 1/3 (the double nearest to it) and 0.1 + 0.2 do not *)
Example wnum15_samples :
  map wnum15 [0; 1; (-5 # 2); (1048576 # 1); (3602879701896397 # 36028797018963968); (-1000 # 1)]%Q =
  [0; 1; (-5 # 2); (1048576 # 1); (3602879701896397 # 36028797018963968); (-1000 # 1)]%Q.
Proof. vm_compute. reflexivity. Qed.

Example wnum15_third :
  wnum15 (6004799503160661 # 18014398509481984) = (6004799503160655 # 18014398509481984)%Q /\
  wnum15 (1351079888211149 # 4503599627370496) = (5404319552844595 # 18014398509481984)%Q.
Proof. vm_compute. split; reflexivity. Qed.
