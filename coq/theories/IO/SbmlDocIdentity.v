(* "the same model": for a model that is already in the form the trip produces (sbml_canon, a boolean
   test) the normalisation is the identity on the fields the document carries, so
   read_doc (write_doc m) = Ok (forget m). *)
From Coq Require Import ZArith QArith List Bool Lia.
From Cobra.GPR Require Syntax Proofs.
From Cobra.IO Require Import Str JVal DictModel SbmlId SbmlDoc SbmlDocProofs.
Import ListNotations.
Open Scope Z_scope.

Definition q_same (a b : Q) : bool := (Qnum a =? Qnum b) && Pos.eqb (Qden a) (Qden b).
Definition eb_same (a b : ebound) : bool :=
  match a, b with
  | Fin x, Fin y => q_same x y
  | NegInf, NegInf | PosInf, PosInf => true
  | _, _ => false
  end.
Definition coef_same (p q : str * Q) : bool := str_eqb (fst p) (fst q) && q_same (snd p) (snd q).
Definition pair_same (p q : str * str) : bool := str_eqb (fst p) (fst q) && str_eqb (snd p) (snd q).

Lemma q_same_eq : forall a b, q_same a b = true -> a = b.
Proof.
  intros [n d] [n' d'] H. unfold q_same in H. cbn in H. apply andb_true_iff in H. destruct H as [H1 H2].
  apply Z.eqb_eq in H1. apply Pos.eqb_eq in H2. subst. reflexivity.
Qed.

Lemma eb_same_eq : forall a b, eb_same a b = true -> a = b.
Proof. intros [|x|] [|y|] H; cbn in H; try discriminate; auto. f_equal. apply q_same_eq. exact H. Qed.

Lemma list_eqb_sound {A} (eqb : A -> A -> bool) :
  (forall x y, eqb x y = true -> x = y) -> forall a b, list_eqb eqb a b = true -> a = b.
Proof.
  intros He. induction a as [|x a IH]; destruct b as [|y b]; cbn; intros H; try discriminate; auto.
  apply andb_true_iff in H. destruct H as [H1 H2]. f_equal; auto.
Qed.

Lemma coef_same_eq : forall p q, coef_same p q = true -> p = q.
Proof.
  intros [k v] [k' v'] H. unfold coef_same in H. cbn in H. apply andb_true_iff in H. destruct H as [H1 H2].
  apply str_eqb_eq in H1. apply q_same_eq in H2. subst. reflexivity.
Qed.

Lemma pair_same_eq : forall p q, pair_same p q = true -> p = q.
Proof.
  intros [k v] [k' v'] H. unfold pair_same in H. cbn in H. apply andb_true_iff in H. destruct H as [H1 H2].
  apply str_eqb_eq in H1. apply str_eqb_eq in H2. subst. reflexivity.
Qed.

Lemma mem_eqb_eq : forall p q, mem_eqb p q = true -> p = q.
Proof.
  intros [k v] [k' v'] H. unfold mem_eqb in H. cbn in H. apply andb_true_iff in H. destruct H as [H1 H2].
  apply Z.eqb_eq in H1. apply str_eqb_eq in H2. subst. reflexivity.
Qed.

Lemma gpr_eqb_eq : forall a b, Syntax.gpr_eqb a b = true -> a = b.
Proof.
  induction a as [g|o l IH] using Proofs.gpr_ind'; intros [h|o' l'] H; cbn in H; try discriminate.
  - f_equal. apply Proofs.str_eqb_eq. exact H.
  - apply andb_true_iff in H. destruct H as [H1 H2].
    assert (o = o') by (destruct o, o'; cbn in H1; congruence). subst o'. f_equal.
    revert l' H2. induction l as [|x l IHl]; intros [|y l'] H2; try discriminate; auto.
    apply andb_true_iff in H2. destruct H2 as [Hx Hl]. inversion IH as [|? ? IHx IHr]; subst.
    f_equal; [apply IHx; exact Hx|apply IHl; assumption].
Qed.

Definition met_canon (x : amet) : bool := match m_formula x with Some [] => false | _ => true end.
Definition gene_canon (g : agene) : bool := negb (is_nil (g_name g)).
Definition rxn_canon (rr : arxn * Syntax.rule) : bool :=
  let r := fst rr in
  str_eqb (py_strip (r_name r)) (r_name r) &&
  list_eqb coef_same (dsort (filter nonzero (map qred_snd (r_stoich r)))) (r_stoich r) &&
  eb_same (eb_red (r_lb r)) (r_lb r) && eb_same (eb_red (r_ub r)) (r_ub r) && q_same (obj_red (r_obj r)) (r_obj r) &&
  match snd rr with Some t => Syntax.gpr_eqb (assoc_norm t) t | None => true end.
Definition group_canon (g : agroup) : bool := list_eqb mem_eqb (canon_members (gr_members g)) (gr_members g).

(* the model is in the form one trip produces: the model id is an SId, the model name is not "", no formula is
   "", gene names are not empty, reaction names have no surrounding blanks, stoichiometry is sorted with
   non-zero coefficients, numbers are in lowest terms, rule trees have no single-child or nested same-kind
   operators, the compartment table is exactly that of the metabolites, group members are sorted sets *)
Definition sbml_canon (m : smodel) : bool :=
  match sm_id m with Some s => is_sid s | None => false end &&
  match sm_name m with Some [] => false | _ => true end &&
  forallb met_canon (sm_mets m) && forallb rxn_canon (sm_rxns m) && forallb gene_canon (sm_genes m) &&
  list_eqb pair_same (dsort (public_comps_from (sm_comps m) (sm_mets m) [])) (sm_comps m) &&
  forallb group_canon (sm_groups m).

Theorem norm_canon : forall dec E m, sbml_canon m = true -> norm dec E m = forget m.
Proof.
  intros dec E [mid mname mets rxns genes comps mx groups] H. unfold sbml_canon in H.
  cbn [sm_id sm_name sm_mets sm_rxns sm_genes sm_comps sm_max sm_groups] in H.
  rewrite !andb_true_iff in H. destruct H as [[[[[[H1 H2] H3] H4] H5] H6] H7].
  unfold norm, forget. cbn [sm_id sm_name sm_mets sm_rxns sm_genes sm_comps sm_max sm_groups]. f_equal.
  - destruct mid as [s|]; [|discriminate]. unfold sid_or_empty. rewrite H1. reflexivity.
  - destruct mname as [[|a n]|]; try reflexivity. discriminate.
  - apply map_ext_in. intros x Hx. rewrite forallb_forall in H3. specialize (H3 x Hx).
    unfold met_canon in H3. unfold norm_met, forget_met. destruct (m_formula x) as [[|a f]|]; try reflexivity. discriminate.
  - apply map_ext_in. intros [r rule] Hx. rewrite forallb_forall in H4. specialize (H4 _ Hx).
    unfold rxn_canon in H4. cbn [fst snd] in H4. rewrite !andb_true_iff in H4.
    destruct H4 as [[[[[C1 C2] C3] C4] C5] C6].
    apply str_eqb_eq in C1. apply (list_eqb_sound _ coef_same_eq) in C2. apply eb_same_eq in C3, C4. apply q_same_eq in C5.
    unfold norm_rxn, forget_rxn. cbn [fst snd]. rewrite C1, C2, C3, C4, C5. f_equal.
    destruct rule as [t|]; [|reflexivity]. apply gpr_eqb_eq in C6. rewrite C6. reflexivity.
  - apply map_ext_in. intros g Hg. rewrite forallb_forall in H5. specialize (H5 g Hg). unfold gene_canon in H5.
    apply negb_true_iff in H5. unfold norm_gene, forget_gene. rewrite H5. reflexivity.
  - apply (list_eqb_sound _ pair_same_eq). exact H6.
  - rewrite <- (map_id groups) at 2. apply map_ext_in. intros [i n k ms] Hg. rewrite forallb_forall in H7.
    specialize (H7 _ Hg). unfold group_canon in H7. cbn [gr_members] in H7. apply (list_eqb_sound _ mem_eqb_eq) in H7.
    unfold norm_group. cbn [gr_id gr_name gr_kind gr_members]. rewrite H7. reflexivity.
Qed.

Section Identity.
  Variable dec : Z -> str.
  Variable undec : str -> Z.
  Variable wnum : Q -> Q.
  Variable clean : str -> str.
  Variable E : senv.
  Hypothesis undec_dec : forall c, undec (dec c) = c.
  Hypothesis dec_digits : forall c, dec c <> [] /\ forallb is_digit (dec c) = true.
  Hypothesis HE : env_ok E = true.

  (* the property as stated: the model that is read is the model that was written, on every field the
     document carries *)
  Theorem sbml_doc_identity : forall c m,
    sbml_ok dec wnum clean E c m = true -> sbml_canon m = true ->
    roundtrip dec undec wnum clean E c m = Ok (forget m).
  Proof.
    intros c m H1 H2. rewrite (sbml_doc_roundtrip dec undec wnum clean E undec_dec dec_digits HE c m H1).
    rewrite (norm_canon dec E m H2). reflexivity.
  Qed.
End Identity.
