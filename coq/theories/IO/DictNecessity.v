(* Every hypothesis of the round-trip identity (`C11_dict_roundtrip_partial`) is needed: for each one a
   concrete model that meets all the others and does not come back unchanged (evaluated, vm_compute).
   `valid` is split into its 20 conjuncts (`valid_parts`); a witness violates exactly one of them.

   Reading guide (what the real code can say about each):
   * conjuncts 1,5,8,10,11,12,16,17,18 of `valid` are invariants of cobra.Model that its public API
     maintains (non-empty unique ids, stoichiometry over model metabolites without zero entries,
     lb <= ub, rule text in the printed form of its GPR, genes of rules present): the witness is not a
     model cobrapy can build, the hypothesis only says "m is the image of a cobra.Model";
   * conjuncts 2,3,4,6,7,9,13,14,15,19,20 are canonical forms of the abstract record (dict-valued
     attributes sorted by key, zero written 0#1): two records that differ there denote the same
     Python object;
   * direction, compartment None and the one-at-a-time loader are the known findings;
   * `comps_canonical` speaks about the private `_compartments`; without it everything else
     (the public Model.compartments included) still comes back: `roundtrip_public`.               *)
From Coq Require Import ZArith QArith List Bool Lia.
From Cobra.IO Require Import Str JVal DictModel DictProofs DictComps DictCheck.
Import ListNotations.
Open Scope Z_scope.

(* ------------------------------------------------------------------ one trip, as a function *)
Definition trip (G : gpr_api) (T : tables) (C : cfg) (s : bool) (m : amodel) : result amodel :=
  d <- to_dict T s m ;; from_dict G T C d.

Lemma trip_iff : forall G T C s m m',
  (exists d, to_dict T s m = Ok d /\ from_dict G T C d = Ok m') <-> trip G T C s m = Ok m'.
Proof.
  intros G T C s m m'. unfold trip. destruct (to_dict T s m) as [d|e]; cbn [bind]; split.
  - intros [d0 [E1 E2]]. inversion E1; subst. exact E2.
  - intros H. exists d. auto.
  - intros [d0 [E1 _]]. discriminate.
  - discriminate.
Qed.

(* ------------------------------------------------------------------ valid, conjunct by conjunct *)
Definition valid_parts (G : gpr_api) (m : amodel) : list bool :=
  let mids := map m_id (a_mets m) in
  let gids := map g_id (a_genes m) in
  [ forallb (fun x => negb (is_nil (m_id x))) (a_mets m);                          (*  1 *)
    forallb (fun x => dsorted (m_notes x)) (a_mets m);                              (*  2 *)
    forallb (fun x => dsorted (m_annot x)) (a_mets m);                              (*  3 *)
    forallb (fun x => canon0 (m_bound x)) (a_mets m);                               (*  4 *)
    nodupb mids;                                                                    (*  5 *)
    forallb (fun g => dsorted (g_notes g)) (a_genes m);                             (*  6 *)
    forallb (fun g => dsorted (g_annot g)) (a_genes m);                             (*  7 *)
    nodupb gids;                                                                    (*  8 *)
    forallb (fun r => dsorted (r_stoich r)) (a_rxns m);                             (*  9 *)
    forallb (fun r => forallb (fun p => str_mem (fst p) mids) (r_stoich r)) (a_rxns m);   (* 10 *)
    forallb (fun r => forallb nonzero (r_stoich r)) (a_rxns m);                     (* 11 *)
    forallb (fun r => eb_leb (r_lb r) (r_ub r)) (a_rxns m);                         (* 12 *)
    forallb (fun r => canon0 (r_obj r)) (a_rxns m);                                 (* 13 *)
    forallb (fun r => dsorted (r_notes r)) (a_rxns m);                              (* 14 *)
    forallb (fun r => dsorted (r_annot r)) (a_rxns m);                              (* 15 *)
    forallb (fun r => str_eqb (rule_norm G (r_rule r)) (r_rule r)) (a_rxns m);      (* 16 *)
    forallb (fun r => forallb (fun g => str_mem g gids) (rule_genes G (r_rule r))) (a_rxns m);  (* 17 *)
    nodupb (map r_id (a_rxns m));                                                   (* 18 *)
    dsorted (a_notes m);                                                            (* 19 *)
    dsorted (a_annot m) ].                                                          (* 20 *)

Lemma forallb_andb {A} (p q : A -> bool) : forall l,
  forallb (fun x => p x && q x) l = forallb p l && forallb q l.
Proof.
  induction l as [|x l IH]; cbn [forallb]; [reflexivity|]. rewrite IH.
  destruct (p x), (q x), (forallb p l), (forallb q l); reflexivity.
Qed.

Lemma valid_parts_ok : forall G m, valid G m = forallb (fun b => b) (valid_parts G m).
Proof.
  intros G m. unfold valid, valid_parts, valid_met, valid_gene, valid_rxn. cbv zeta.
  rewrite !forallb_andb. cbn [forallb]. rewrite andb_true_r, <- !andb_assoc. reflexivity.
Qed.

(* the other hypotheses of the identity, as booleans *)
Definition comps_canon_b (m : amodel) : bool :=
  list_eqb (fun p q => str_eqb (fst p) (fst q) && str_eqb (snd p) (snd q)) (a_comps m) (dsort (public_comps m)).

Lemma comps_canon_b_ok : forall m, comps_canon_b m = true -> comps_canonical m.
Proof.
  intros m H. unfold comps_canonical. unfold comps_canon_b in H. revert H. apply list_eqb_eq.
  intros [k1 v1] [k2 v2] Hxy. cbn [fst snd] in Hxy. apply andb_true_iff in Hxy. destruct Hxy as [H1 H2].
  apply str_eqb_eq in H1. apply str_eqb_eq in H2. congruence.
Qed.

Definition other_hyps (T : tables) (C : cfg) (m : amodel) : list bool :=
  [tables_ok T; model_loadable C (t_bounds_at_once T) m; dir_max m; comps_some m; comps_canon_b m].

(* ------------------------------------------------------------------ witnesses *)
Definition K0 : cfg := mkCfg ((-1000) # 1) (1000 # 1).
Definition Tb : tables := ref_tables true.
Definition sa : str := [97].    Definition sb : str := [98].   Definition sc : str := [99].
Definition sg : str := [103].   Definition sh : str := [104].  Definition sz : str := [122].
Definition sR : str := [82].    Definition sx : str := [120].
Definition unsorted : dict := [(sb, JStr []); (sa, JStr [])].
Definition zero2 : Q := 0 # 2.

Definition met' (i : str) (nt an : dict) (bd : Q) : amet := mkMet i [] (Some sc) None None bd nt an.
Definition gene' (i : str) (nt an : dict) : agene := mkGene i [] nt an.
Definition rxn' (i : str) (st : list (str * Q)) (lb ub : ebound) (ru : str) (ob : Q) (nt an : dict) : arxn :=
  mkRxn i [] st lb ub ru ob [] nt an.
Definition mdl (ms : list amet) (rs : list arxn) (gs : list agene) (nt an : dict) : amodel :=
  mkModel (Some [109]) None ms rs gs [(sc, [99; 121; 116])] nt an true.

Definition met0 := met' sa [] [] 0.
Definition gene0 := gene' sg [] [].
Definition st0 : list (str * Q) := [(sa, ((-1) # 1)%Q)].
Definition rxn0 := rxn' sR st0 (Fin 0) (Fin (1000 # 1)) sg 1 [] [].
Definition base : amodel := mdl [met0] [rxn0] [gene0] [] [].

Definition all_true (n : nat) : list bool := repeat true n.
(* true everywhere but at position i (1-based) *)
Definition only_false (i n : nat) : list bool := repeat true (i - 1) ++ false :: repeat true (n - i).

(* the unchanged base model meets every hypothesis and comes back *)
Example base_ok :
  valid_parts check_gpr base = all_true 20 /\ other_hyps Tb K0 base = all_true 5 /\
  trip check_gpr Tb K0 false base = Ok (sorted_model false base).
Proof. vm_compute. repeat split. Qed.

Ltac witness := split; [vm_compute; reflexivity|split; [vm_compute; reflexivity|
                  let H := fresh in intro H; vm_compute in H; discriminate H]].

Definition fails (G : gpr_api) (T : tables) (i : nat) (m : amodel) : Prop :=
  valid_parts G m = only_false i 20 /\ other_hyps T K0 m = all_true 5 /\
  trip G T K0 false m <> Ok (sorted_model false m).

Example need_valid_01_met_id_nonempty :
  fails check_gpr Tb 1 (mdl [met' [] [] [] 0] [rxn' sR [([], ((-1) # 1)%Q)] (Fin 0) (Fin (1000 # 1)) sg 1 [] []] [gene0] [] []).
Proof. witness. Qed.
Example need_valid_02_met_notes_sorted : fails check_gpr Tb 2 (mdl [met' sa unsorted [] 0] [rxn0] [gene0] [] []).
Proof. witness. Qed.
Example need_valid_03_met_annotation_sorted : fails check_gpr Tb 3 (mdl [met' sa [] unsorted 0] [rxn0] [gene0] [] []).
Proof. witness. Qed.
Example need_valid_04_met_bound_canonical_zero : fails check_gpr Tb 4 (mdl [met' sa [] [] zero2] [rxn0] [gene0] [] []).
Proof. witness. Qed.
Example need_valid_05_met_ids_unique : fails check_gpr Tb 5 (mdl [met0; met0] [rxn0] [gene0] [] []).
Proof. witness. Qed.
Example need_valid_06_gene_notes_sorted : fails check_gpr Tb 6 (mdl [met0] [rxn0] [gene' sg unsorted []] [] []).
Proof. witness. Qed.
Example need_valid_07_gene_annotation_sorted : fails check_gpr Tb 7 (mdl [met0] [rxn0] [gene' sg [] unsorted] [] []).
Proof. witness. Qed.
Example need_valid_08_gene_ids_unique : fails check_gpr Tb 8 (mdl [met0] [rxn0] [gene0; gene0] [] []).
Proof. witness. Qed.
Example need_valid_09_stoichiometry_sorted :
  fails check_gpr Tb 9 (mdl [met0; met' sb [] [] 0]
                           [rxn' sR [(sb, (1 # 1)%Q); (sa, ((-1) # 1)%Q)] (Fin 0) (Fin (1000 # 1)) sg 1 [] []] [gene0] [] []).
Proof. witness. Qed.
Example need_valid_10_stoichiometry_known_metabolites :
  fails check_gpr Tb 10 (mdl [met0] [rxn' sR [(sz, ((-1) # 1)%Q)] (Fin 0) (Fin (1000 # 1)) sg 1 [] []] [gene0] [] []).
Proof. witness. Qed.
Example need_valid_11_stoichiometry_nonzero :
  fails check_gpr Tb 11 (mdl [met0] [rxn' sR [(sa, 0%Q)] (Fin 0) (Fin (1000 # 1)) sg 1 [] []] [gene0] [] []).
Proof. witness. Qed.
Example need_valid_12_lb_le_ub :
  fails check_gpr Tb 12 (mdl [met0] [rxn' sR st0 (Fin (5 # 1)) (Fin (1 # 1)) sg 1 [] []] [gene0] [] []).
Proof. witness. Qed.
Example need_valid_13_objective_canonical_zero :
  fails check_gpr Tb 13 (mdl [met0] [rxn' sR st0 (Fin 0) (Fin (1000 # 1)) sg zero2 [] []] [gene0] [] []).
Proof. witness. Qed.
Example need_valid_14_rxn_notes_sorted :
  fails check_gpr Tb 14 (mdl [met0] [rxn' sR st0 (Fin 0) (Fin (1000 # 1)) sg 1 unsorted []] [gene0] [] []).
Proof. witness. Qed.
Example need_valid_15_rxn_annotation_sorted :
  fails check_gpr Tb 15 (mdl [met0] [rxn' sR st0 (Fin 0) (Fin (1000 # 1)) sg 1 [] unsorted] [gene0] [] []).
Proof. witness. Qed.
(* a GPR printer that is not the identity on the stored text: here every rule prints as "" *)
Definition gpr_blank : gpr_api := mkGpr (fun _ => []) (fun _ => []).
Example need_valid_16_rule_in_printed_form : fails gpr_blank Tb 16 base.
Proof. witness. Qed.
Example need_valid_17_rule_genes_present :
  fails check_gpr Tb 17 (mdl [met0] [rxn' sR st0 (Fin 0) (Fin (1000 # 1)) sh 1 [] []] [gene0] [] []).
Proof. witness. Qed.
Example need_valid_18_rxn_ids_unique : fails check_gpr Tb 18 (mdl [met0] [rxn0; rxn0] [gene0] [] []).
Proof. witness. Qed.
Example need_valid_19_model_notes_sorted : fails check_gpr Tb 19 (mdl [met0] [rxn0] [gene0] unsorted []).
Proof. witness. Qed.
Example need_valid_20_model_annotation_sorted : fails check_gpr Tb 20 (mdl [met0] [rxn0] [gene0] [] unsorted).
Proof. witness. Qed.

(* the other five hypotheses, one at a time *)
Definition fails_other (T : tables) (i : nat) (m : amodel) : Prop :=
  valid_parts check_gpr m = all_true 20 /\ other_hyps T K0 m = only_false i 5 /\
  trip check_gpr T K0 false m <> Ok (sorted_model false m).

(* 1 tables_ok: a loader that skips "subsystem" (the attribute tables are part of the statement) *)
Definition T_skip_subsystem : tables :=
  mkTables (t_req_rxn Tb) (t_opt_rxn_keys Tb) (t_opt_rxn_defaults Tb) (t_req_met Tb) (t_opt_met_keys Tb)
           (t_opt_met_defaults Tb) (t_req_gene Tb) (t_opt_gene_keys Tb) (t_opt_gene_defaults Tb)
           (t_opt_model_keys Tb) (t_opt_model_defaults Tb) (k_subsystem :: t_rxn_skip Tb) true (t_model_attrs Tb).
Example need_tables_ok :
  fails_other T_skip_subsystem 1
    (mdl [met0] [mkRxn sR [] st0 (Fin 0) (Fin (1000 # 1)) sg 1 [83] [] []] [gene0] [] []).
Proof. witness. Qed.
(* 2 model_loadable: only with the one-at-a-time loader *)
Example need_model_loadable :
  fails_other (ref_tables false) 2
    (mdl [met0] [rxn' sR st0 (Fin (1500 # 1)) (Fin (2000 # 1)) sg 1 [] []] [gene0] [] []).
Proof. witness. Qed.
(* 3 dir_max *)
Example need_dir_max :
  fails_other Tb 3 (mkModel (Some [109]) None [met0] [rxn0] [gene0] [(sc, [99; 121; 116])] [] [] false).
Proof. witness. Qed.
(* 4 comps_some *)
Example need_comps_some :
  fails_other Tb 4 (mkModel (Some [109]) None [mkMet sa [] None None None 0 [] []] [rxn0] [gene0] [] [] [] true).
Proof. witness. Qed.
(* 5 comps_canonical: an unused description is forgotten ... *)
Example need_comps_canonical_unused :
  fails_other Tb 5 (mkModel (Some [109]) None [met0] [rxn0] [gene0] [(sc, [99; 121; 116]); (sx, [120])] [] [] true).
Proof. witness. Qed.
(* ... and a compartment that was never described gets the description "" in the private table
   (the usual state of a model built with add_metabolites only) *)
Example need_comps_canonical_undescribed :
  fails_other Tb 5 (mkModel (Some [109]) None [met0] [rxn0] [gene0] [] [] [] true).
Proof. witness. Qed.

(* ------------------------------------------------------------------ summary *)
Theorem valid_conjuncts_needed : forall i, In i (seq 1 20) -> exists G m, fails G Tb i m.
Proof.
  intros i Hi. cbn [seq In] in Hi.
  repeat (destruct Hi as [<-|Hi];
          [do 2 eexists;
           first [ apply need_valid_01_met_id_nonempty | apply need_valid_02_met_notes_sorted
                 | apply need_valid_03_met_annotation_sorted | apply need_valid_04_met_bound_canonical_zero
                 | apply need_valid_05_met_ids_unique | apply need_valid_06_gene_notes_sorted
                 | apply need_valid_07_gene_annotation_sorted | apply need_valid_08_gene_ids_unique
                 | apply need_valid_09_stoichiometry_sorted | apply need_valid_10_stoichiometry_known_metabolites
                 | apply need_valid_11_stoichiometry_nonzero | apply need_valid_12_lb_le_ub
                 | apply need_valid_13_objective_canonical_zero | apply need_valid_14_rxn_notes_sorted
                 | apply need_valid_15_rxn_annotation_sorted | apply need_valid_16_rule_in_printed_form
                 | apply need_valid_17_rule_genes_present | apply need_valid_18_rxn_ids_unique
                 | apply need_valid_19_model_notes_sorted | apply need_valid_20_model_annotation_sorted ]|]).
  contradiction.
Qed.

Theorem other_hypotheses_needed : forall i, In i (seq 1 5) -> exists T m, fails_other T i m.
Proof.
  intros i Hi. cbn [seq In] in Hi.
  repeat (destruct Hi as [<-|Hi];
          [do 2 eexists;
           first [ apply need_tables_ok | apply need_model_loadable | apply need_dir_max
                 | apply need_comps_some | apply need_comps_canonical_unused ]|]).
  contradiction.
Qed.

(* what `fails` says, in the terms of the round-trip theorem *)
Lemma fails_spec : forall G T i m, fails G T i m ->
  valid G m = false /\ ~ exists d, to_dict T false m = Ok d /\ from_dict G T K0 d = Ok (sorted_model false m).
Proof.
  intros G T i m [H1 [_ H3]]. split.
  - rewrite valid_parts_ok, H1. unfold only_false. rewrite forallb_app. cbn [forallb]. apply andb_false_r.
  - intros H. apply trip_iff in H. contradiction.
Qed.

Lemma fails_other_spec : forall T i m, fails_other T i m ->
  valid check_gpr m = true /\
  ~ exists d, to_dict T false m = Ok d /\ from_dict check_gpr T K0 d = Ok (sorted_model false m).
Proof.
  intros T i m [H1 [_ H3]]. split.
  - rewrite valid_parts_ok, H1. reflexivity.
  - intros H. apply trip_iff in H. contradiction.
Qed.
