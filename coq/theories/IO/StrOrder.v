(* Python's str order (Str.str_leb) is a total order, so the keyed insertion sort of a list with
   pairwise distinct keys does not depend on the order of its input.  Used for dict-valued
   attributes (kept sorted by key) whose items are produced in different orders.               *)
From Coq Require Import ZArith List Bool Lia Permutation.
From Cobra.IO Require Import Str.
Import ListNotations.
Open Scope Z_scope.

Lemma str_leb_trans : forall a b c, str_leb a b = true -> str_leb b c = true -> str_leb a c = true.
Proof.
  induction a as [|x a IH]; intros b c H1 H2; [reflexivity|].
  destruct b as [|y b]; [discriminate|]. destruct c as [|z c]; [discriminate|].
  cbn [str_leb] in *.
  destruct (x <? y) eqn:Exy.
  - destruct (y <? z) eqn:Eyz.
    + assert (x <? z = true) as -> by (apply Z.ltb_lt; apply Z.ltb_lt in Exy, Eyz; lia). reflexivity.
    + destruct (y =? z) eqn:Eyz'; [|discriminate]. apply Z.eqb_eq in Eyz'. subst z. rewrite Exy. reflexivity.
  - destruct (x =? y) eqn:Exy'; [|discriminate]. apply Z.eqb_eq in Exy'. subst y.
    destruct (x <? z) eqn:Exz; [reflexivity|]. destruct (x =? z) eqn:Exz'; [|discriminate].
    eapply IH; eauto.
Qed.

Lemma str_leb_antisym : forall a b, str_leb a b = true -> str_leb b a = true -> a = b.
Proof.
  induction a as [|x a IH]; intros [|y b] H1 H2; cbn [str_leb] in *; try reflexivity; try discriminate.
  destruct (x <? y) eqn:E1.
  - apply Z.ltb_lt in E1.
    assert (y <? x = false) as E by (apply Z.ltb_ge; lia). rewrite E in H2.
    assert (y =? x = false) as E' by (apply Z.eqb_neq; lia). rewrite E' in H2. discriminate.
  - destruct (x =? y) eqn:E2; [|discriminate]. apply Z.eqb_eq in E2. subst y.
    rewrite Z.ltb_irrefl, Z.eqb_refl in H2. f_equal. apply IH; assumption.
Qed.

Section SortUnique.
  Context {A : Type} (key : A -> str).

  Lemma sorted_head_le : forall l x, sorted_by key (x :: l) = true ->
    forall y, In y l -> str_leb (key x) (key y) = true.
  Proof.
    induction l as [|z l IH]; intros x H y Hy; [contradiction|].
    cbn [sorted_by] in H. apply andb_true_iff in H. destruct H as [H1 H2].
    destruct Hy as [<-|Hy]; [exact H1|]. eapply str_leb_trans; [exact H1|]. apply IH; assumption.
  Qed.

  (* two sorted lists with the same elements and pairwise distinct keys are equal *)
  Lemma sorted_perm_eq : forall l l', sorted_by key l = true -> sorted_by key l' = true ->
    Permutation l l' -> NoDup (map key l) -> l = l'.
  Proof.
    induction l as [|x l IH]; intros l' S S' P N.
    - apply Permutation_nil in P. auto.
    - destruct l' as [|x' l']; [apply Permutation_sym, Permutation_nil in P; discriminate|].
      cbn [map] in N. apply NoDup_cons_iff in N. destruct N as [N1 N2].
      assert (Hx : x = x').
      { assert (I1 : In x (x' :: l')) by (eapply Permutation_in; [exact P|left; reflexivity]).
        assert (I2 : In x' (x :: l)) by (eapply Permutation_in; [apply Permutation_sym; exact P|left; reflexivity]).
        destruct I1 as [I1|I1]; [auto|]. destruct I2 as [I2|I2]; [auto|].
        assert (K : key x = key x').
        { apply str_leb_antisym; eapply sorted_head_le; eauto. }
        exfalso. apply N1. rewrite K. apply in_map. exact I2. }
      subst x'. f_equal. apply IH.
      + eapply sorted_tail; eauto.
      + eapply sorted_tail; eauto.
      + eapply Permutation_cons_inv; eauto.
      + exact N2.
  Qed.

  Lemma sort_by_perm_unique : forall l l', Permutation l l' -> NoDup (map key l) ->
    sort_by key l = sort_by key l'.
  Proof.
    intros l l' P N. apply sorted_perm_eq; try apply sort_sorted.
    - eapply perm_trans; [apply Permutation_sym, sort_perm|]. eapply perm_trans; [exact P|apply sort_perm].
    - eapply Permutation_NoDup; [|exact N]. apply Permutation_map, sort_perm.
  Qed.
End SortUnique.
