(* Generic lemmas for the document-level round trip (SbmlDocProofs.v): insertion-ordered dicts, the gene id
   codec, numbers in lowest terms, sorting of partitioned lists. *)
From Coq Require Import ZArith QArith List Bool Lia Permutation Lqa.
From Cobra.IO Require Import Str StrOrder JVal DictModel SbmlId SbmlProofs SbmlDoc.
Import ListNotations.
Open Scope Z_scope.

(* ------------------------------------------------------------------ lists *)
Lemma mapM_ok {A B C} (f : B -> result C) (h : A -> B) (g : A -> C) :
  forall l, (forall x, In x l -> f (h x) = Ok (g x)) -> mapM f (map h l) = Ok (map g l).
Proof.
  induction l as [|x l IH]; intros H; cbn; auto.
  rewrite (H x (or_introl eq_refl)). cbn. rewrite IH by (intros y Hy; apply H; right; exact Hy). reflexivity.
Qed.

Lemma mapM_ok1 {A C} (f : A -> result C) (g : A -> C) :
  forall l, (forall x, In x l -> f x = Ok (g x)) -> mapM f l = Ok (map g l).
Proof. intros l H. rewrite <- (map_id l) at 1. apply mapM_ok. exact H. Qed.

Lemma app_eq_len {A} : forall (x y s1 s2 : list A), length x = length y -> x ++ s1 = y ++ s2 -> x = y /\ s1 = s2.
Proof.
  induction x as [|a x IH]; destruct y as [|b y]; cbn; intros s1 s2 L H; try discriminate; auto.
  injection H as Hab Hrest. subst b. destruct (IH y s1 s2) as [E1 E2]; auto. subst. auto.
Qed.

Lemma NoDup_map_inj_in {A B} (f : A -> B) : forall l a b,
  NoDup (map f l) -> In a l -> In b l -> f a = f b -> a = b.
Proof.
  induction l as [|x l IH]; intros a b N Ha Hb E; [contradiction|].
  cbn [map] in N. apply NoDup_cons_iff in N. destruct N as [N1 N2].
  destruct Ha as [<-|Ha]; destruct Hb as [<-|Hb]; auto.
  - exfalso. apply N1. rewrite E. apply in_map. exact Hb.
  - exfalso. apply N1. rewrite <- E. apply in_map. exact Ha.
Qed.

Lemma filter_all {A} (f : A -> bool) : forall l, (forall x, In x l -> f x = true) -> filter f l = l.
Proof.
  induction l as [|x l IH]; cbn; intros H; auto.
  rewrite (H x (or_introl eq_refl)). rewrite IH by (intros y Hy; apply H; right; exact Hy). reflexivity.
Qed.

Lemma filter_none {A} (f : A -> bool) : forall l, (forall x, In x l -> f x = false) -> filter f l = [].
Proof.
  induction l as [|x l IH]; cbn; intros H; auto.
  rewrite (H x (or_introl eq_refl)). apply IH. intros y Hy. apply H. right. exact Hy.
Qed.

Lemma concat_singletons {A} : forall l : list A, List.concat (map (fun x => [x]) l) = l.
Proof. induction l as [|x l IH]; cbn; auto. rewrite IH. reflexivity. Qed.

Lemma perm_partition {A} (p : A -> bool) : forall l,
  Permutation (filter (fun x => negb (p x)) l ++ filter p l) l.
Proof.
  induction l as [|x l IH]; cbn; auto. destruct (p x); cbn.
  - apply Permutation_sym. apply Permutation_cons_app. apply Permutation_sym. exact IH.
  - apply perm_skip. exact IH.
Qed.

Lemma perm_filter {A} (p : A -> bool) : forall l l', Permutation l l' -> Permutation (filter p l) (filter p l').
Proof.
  intros l l' P. induction P; cbn; auto.
  - destruct (p x); auto.
  - destruct (p x); destruct (p y); auto. apply perm_swap.
  - eapply perm_trans; eauto.
Qed.

Lemma NoDup_map_filter {A B} (f : A -> B) (p : A -> bool) : forall l, NoDup (map f l) -> NoDup (map f (filter p l)).
Proof.
  induction l as [|x l IH]; cbn; intros N; auto. apply NoDup_cons_iff in N. destruct N as [N1 N2].
  destruct (p x); cbn; auto. constructor; auto. intros H. apply N1.
  apply in_map_iff in H. destruct H as [y [E Hy]]. apply filter_In in Hy. rewrite <- E. apply in_map. tauto.
Qed.

Lemma str_mem_map {A} (f : A -> str) : forall l x, In x l -> str_mem (f x) (map f l) = true.
Proof. intros l x H. apply str_mem_In. apply in_map. exact H. Qed.

Lemma str_mem_false : forall s l, str_mem s l = false <-> ~ In s l.
Proof.
  intros s l. rewrite <- str_mem_In. destruct (str_mem s l); split; intros H; try reflexivity; try discriminate.
  exfalso. apply H. reflexivity.
Qed.

Lemma check_ids_ok : forall l, nodupb l = true -> check_ids l = Ok tt.
Proof. intros l H. unfold check_ids. rewrite H. reflexivity. Qed.

Lemma missing_genes_none : forall have cands,
  (forall g, In g cands -> In g have) -> missing_genes have cands = [].
Proof.
  intros have. induction cands as [|c cs IH]; intros H; cbn; auto.
  assert (Hc : str_mem c have = true) by (apply str_mem_In; apply H; left; reflexivity).
  rewrite Hc. apply IH. intros g Hg. apply H. right. exact Hg.
Qed.

(* ------------------------------------------------------------------ insertion-ordered dicts *)
Lemma dict_upd_fresh {A} (f : option A -> A) : forall k d,
  ~ In k (map fst d) -> dict_upd f k d = d ++ [(k, f None)].
Proof.
  intros k. induction d as [|[k' v] d IH]; cbn; intros H; auto.
  destruct (str_eqb k k') eqn:Ek.
  - apply str_eqb_eq in Ek. exfalso. apply H. left. auto.
  - rewrite IH; auto.
Qed.

Lemma dict_of_fresh {A} : forall (l acc : list (str * A)),
  NoDup (map fst (acc ++ l)) ->
  fold_left (fun d kv => dict_upd (fun _ => snd kv) (fst kv) d) l acc = acc ++ l.
Proof.
  induction l as [|[k v] l IH]; intros acc N; cbn [fold_left]; [rewrite app_nil_r; reflexivity|].
  cbn [fst snd]. rewrite dict_upd_fresh.
  - rewrite IH; rewrite <- app_assoc; [reflexivity|exact N].
  - rewrite map_app in N. cbn [map fst] in N. apply NoDup_remove_2 in N. intros H. apply N.
    apply in_or_app. left. exact H.
Qed.

Lemma dict_of_nodup {A} : forall l : list (str * A), NoDup (map fst l) -> dict_of l = l.
Proof. intros l N. unfold dict_of. apply (dict_of_fresh l []). exact N. Qed.

Lemma lookup_none {A} : forall (l : list (str * A)) k, ~ In k (map fst l) -> lookup k l = None.
Proof.
  induction l as [|[k' v] l IH]; intros k H; cbn; auto.
  destruct (str_eqb k k') eqn:E.
  - apply str_eqb_eq in E. exfalso. apply H. left. auto.
  - apply IH. intros Hin. apply H. right. exact Hin.
Qed.

Lemma lookup_nodup {A} : forall (l : list (str * A)) k v,
  NoDup (map fst l) -> In (k, v) l -> lookup k l = Some v.
Proof.
  induction l as [|[k' v'] l IH]; intros k v N H; [contradiction|].
  cbn [map fst] in N. apply NoDup_cons_iff in N. destruct N as [N1 N2]. cbn [lookup].
  destruct H as [H|H].
  - inversion H; subst. rewrite str_eqb_refl. reflexivity.
  - destruct (str_eqb k k') eqn:E.
    + apply str_eqb_eq in E. subst k'. exfalso. apply N1. change k with (fst (k, v)). apply in_map. exact H.
    + apply IH; assumption.
Qed.

(* ------------------------------------------------------------------ numbers *)
Lemma Qeq_bool_red : forall p q, Qeq_bool p q = true -> Qred p = Qred q.
Proof. intros p q H. apply Qred_complete. apply Qeq_bool_iff. exact H. Qed.

Lemma q_is_zero_eq : forall p q, (p == q)%Q -> q_is_zero p = q_is_zero q.
Proof.
  intros [n d] [n' d'] H. unfold q_is_zero, Qeq in *. cbn [Qnum Qden] in *.
  destruct (n =? 0) eqn:E1; destruct (n' =? 0) eqn:E2; auto.
  - apply Z.eqb_eq in E1. apply Z.eqb_neq in E2. subst. exfalso. cbn in H. symmetry in H.
    apply Z.mul_eq_0 in H. destruct H; [auto|discriminate].
  - apply Z.eqb_neq in E1. apply Z.eqb_eq in E2. subst. exfalso. cbn in H.
    apply Z.mul_eq_0 in H. destruct H; [auto|discriminate].
Qed.

Lemma q_is_zero_red : forall q, q_is_zero (Qred q) = q_is_zero q.
Proof. intros q. apply q_is_zero_eq. apply Qred_correct. Qed.

Lemma obj_red_eq : forall p q, (p == q)%Q -> obj_red p = obj_red q.
Proof.
  intros p q H. unfold obj_red. rewrite (q_is_zero_eq p q H). destruct (q_is_zero q); auto.
  apply Qred_complete. exact H.
Qed.

Lemma Qle_bool_eq : forall a b a' b', (a == a')%Q -> (b == b')%Q -> Qle_bool a b = Qle_bool a' b'.
Proof.
  intros a b a' b' Ha Hb. destruct (Qle_bool a b) eqn:E1; destruct (Qle_bool a' b') eqn:E2; auto.
  - apply Qle_bool_iff in E1. rewrite Ha, Hb in E1. apply Qle_bool_iff in E1. congruence.
  - apply Qle_bool_iff in E2. rewrite <- Ha, <- Hb in E2. apply Qle_bool_iff in E2. congruence.
Qed.

Lemma eb_leb_red : forall a b, eb_leb (eb_red a) (eb_red b) = eb_leb a b.
Proof.
  intros [|x|] [|y|]; cbn; auto. apply Qle_bool_eq; apply Qred_correct.
Qed.

Lemma eb_leb_red_l : forall a b, eb_leb (eb_red a) b = eb_leb a b.
Proof.
  intros [|x|] [|y|]; cbn; auto. apply Qle_bool_eq; [apply Qred_correct|reflexivity].
Qed.

Lemma eb_eqb_fin : forall v q, eb_eqb v (Fin q) = true -> exists p, v = Fin p /\ (p == q)%Q.
Proof.
  intros [|p|] q H; cbn in H; try discriminate. exists p. split; auto. apply Qeq_bool_iff. exact H.
Qed.

(* ------------------------------------------------------------------ str.replace / contains *)
Section Codec.
  Variable dec : Z -> str.
  Variable undec : str -> Z.
  Hypothesis undec_dec : forall c, undec (dec c) = c.
  Hypothesis dec_digits : forall c, dec c <> [] /\ forallb is_digit (dec c) = true.

  Lemma replace_none_fuel : forall old new s n, (length s < n)%nat -> contains old s = false ->
    replace_fuel n old new s = s.
  Proof.
    intros old new. induction s as [|c s IH]; intros n Hn Hc.
    - destruct n; reflexivity.
    - destruct n as [|n]; [inversion Hn|]. cbn [contains] in Hc. apply orb_false_iff in Hc.
      destruct Hc as [H1 H2]. cbn [replace_fuel]. rewrite H1. f_equal. apply IH; [cbn in Hn; lia|exact H2].
  Qed.

  Lemma replace_none : forall old new s, contains old s = false -> replace old new s = s.
  Proof. intros old new s H. unfold replace. apply replace_none_fuel; auto. Qed.

  Lemma contains_single : forall c s, forallb (fun x => negb (c =? x)) s = true -> contains [c] s = false.
  Proof.
    intros c. induction s as [|x s IH]; cbn; intros H; auto.
    apply andb_true_iff in H. destruct H as [H1 H2]. apply negb_true_iff in H1. rewrite H1. cbn. apply IH. exact H2.
  Qed.

  Lemma digit_plain : forall c, is_digit c = true -> is_plain c = true.
  Proof. intros c H. unfold is_plain. rewrite H. reflexivity. Qed.

  Lemma escape_plain_all : forall s, forallb is_plain (escape dec s) = true.
  Proof.
    induction s as [|c s IH]; cbn [escape flat_map]; auto. fold (escape dec s).
    rewrite forallb_app, IH, andb_true_r. unfold esc_char. destruct (is_plain c) eqn:Ec.
    - cbn. rewrite Ec. reflexivity.
    - rewrite !forallb_app. cbn. destruct (dec_digits c) as [_ Hd].
      rewrite andb_true_r. apply forallb_forall. intros x Hx. apply digit_plain.
      rewrite forallb_forall in Hd. apply Hd. exact Hx.
  Qed.

  Lemma no_dot_in_escape : forall s, contains [46] (escape dec s) = false.
  Proof.
    intros s. apply contains_single. pose proof (escape_plain_all s) as H.
    rewrite forallb_forall in *. intros x Hx. specialize (H x Hx).
    destruct (46 =? x) eqn:E; auto. apply Z.eqb_eq in E. subst x. discriminate.
  Qed.

  (* the gene codec: prefix ++ escape (nothing left to replace by SBML_DOT), and back *)
  Theorem gene_roundtrip : forall dot p s,
    sid_ok p s = true -> contains dot (p ++ escape dec s) = false ->
    f_gene undec dot p (f_gene_rev dec dot p s) = s.
  Proof.
    intros dot p s Hok Hdot. unfold f_gene, f_gene_rev.
    rewrite (replace_none [46] dot _ (no_dot_in_escape s)).
    rewrite (replace_none dot [46] _ Hdot).
    exact (sid_roundtrip dec undec undec_dec dec_digits p s Hok).
  Qed.

  Lemma f_rev_head : forall p s, p <> [] -> head_of (f_rev dec p s) = head_of p.
  Proof. intros [|c p] s H; [congruence|reflexivity]. Qed.

  Lemma f_rev_nonempty : forall p s, p <> [] -> is_nil (f_rev dec p s) = false.
  Proof. intros [|c p] s H; [congruence|reflexivity]. Qed.
End Codec.

(* ------------------------------------------------------------------ sorting a partition *)
Lemma dsort_perm {A} : forall l l' : list (str * A),
  Permutation l l' -> NoDup (map fst l) -> dsort l = dsort l'.
Proof. intros l l' P N. unfold dsort. apply sort_by_perm_unique; assumption. Qed.
