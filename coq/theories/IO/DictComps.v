(* The compartment table after a save/load trip (Model.compartments, model_to_dict's "compartments"
   item, model_from_dict's `model.compartments = ...`):
   - a specification of `public_comps` (one item per compartment in use, keyed by first occurrence);
   - the fixpoint lemma: after one trip the re-derived table is stable (`comps_fix`), exactly when
     the trip does not invent the compartment "" for a metabolite whose compartment was None
     (`comps_closed`);
   - consequences: a second trip returns the same model (`rt_idem`, `rt_idem_iff`), and saving the
     loaded model again gives the same document (`to_dict_rt`).                                     *)
From Coq Require Import ZArith QArith List Bool Lia Permutation.
From Cobra.IO Require Import Str StrOrder JVal DictModel DictProofs.
Import ListNotations.
Open Scope Z_scope.

(* ------------------------------------------------------------------ association lists *)
Lemma has_key_In {A} : forall k (l : list (str * A)), has_key k l = true <-> In k (map fst l).
Proof.
  intros k l. unfold has_key. induction l as [|[k' v] l IH]; cbn [lookup map fst In].
  - split; [discriminate|contradiction].
  - destruct (str_eqb k k') eqn:E.
    + apply str_eqb_eq in E. subst. split; auto.
    + apply str_eqb_neq in E. rewrite IH. split; [auto|intros [H|H]; [congruence|exact H]].
Qed.

Lemma has_key_false {A} : forall k (l : list (str * A)), has_key k l = false <-> ~ In k (map fst l).
Proof.
  intros k l. rewrite <- has_key_In. destruct (has_key k l); split; intros H; try reflexivity; try discriminate.
  - exfalso. apply H. reflexivity.
Qed.

Lemma lookup_In_nodup {A} : forall (l : list (str * A)) k v,
  NoDup (map fst l) -> In (k, v) l -> lookup k l = Some v.
Proof.
  induction l as [|[k' v'] l IH]; intros k v N H; [contradiction|].
  cbn [map fst] in N. apply NoDup_cons_iff in N. destruct N as [N1 N2]. cbn [lookup].
  destruct H as [H|H].
  - inversion H; subst. rewrite str_eqb_refl. reflexivity.
  - destruct (str_eqb k k') eqn:E.
    + apply str_eqb_eq in E. subst k'. exfalso. apply N1. change k with (fst (k, v)). apply in_map. exact H.
    + apply IH; assumption.
Qed.

Lemma NoDup_snoc {A} : forall (l : list A) x, NoDup l -> ~ In x l -> NoDup (l ++ [x]).
Proof.
  intros l x N H. eapply Permutation_NoDup; [apply Permutation_cons_append|]. constructor; assumption.
Qed.

(* ------------------------------------------------------------------ public_comps, specified *)
Definition descr (comps : list (str * str)) (c : str) : str :=
  match lookup c comps with Some d => d | None => [] end.

(* public_comps_from over the list of compartments in use *)
Fixpoint pc_from (comps : list (str * str)) (ks : list str) (acc : list (str * str)) : list (str * str) :=
  match ks with
  | [] => acc
  | c :: ks' => if has_key c acc then pc_from comps ks' acc
                else pc_from comps ks' (acc ++ [(c, descr comps c)])
  end.

Definition used (mets : list amet) : list str :=
  flat_map (fun x => match m_comp x with Some c => [c] | None => [] end) mets.

Lemma public_comps_from_pc : forall comps mets acc,
  public_comps_from comps mets acc = pc_from comps (used mets) acc.
Proof.
  induction mets as [|x mets IH]; intros acc; [reflexivity|].
  unfold used. cbn [public_comps_from flat_map]. fold (used mets).
  destruct (m_comp x) as [c|]; cbn [app pc_from]; [|apply IH].
  destruct (has_key c acc); apply IH.
Qed.

Lemma used_In : forall l c, In c (used l) <-> exists x, In x l /\ m_comp x = Some c.
Proof.
  intros l c. unfold used. rewrite in_flat_map. split; intros [x [H1 H2]]; exists x; split; auto.
  - destruct (m_comp x) as [c0|]; [|contradiction]. destruct H2 as [<-|[]]. reflexivity.
  - rewrite H2. left. reflexivity.
Qed.

Lemma pc_from_In : forall comps ks acc c d,
  In (c, d) (pc_from comps ks acc) <->
  In (c, d) acc \/ (has_key c acc = false /\ In c ks /\ d = descr comps c).
Proof.
  intros comps. induction ks as [|k ks IH]; intros acc c d; cbn [pc_from In].
  - split; [auto|intros [H|[_ [[] _]]]; exact H].
  - destruct (has_key k acc) eqn:E.
    + rewrite IH. split; intros [H|[H1 [H2 H3]]]; auto.
      right. repeat split; auto. destruct H2 as [H2|H2]; [|exact H2]. subst k. congruence.
    + rewrite IH. rewrite in_app_iff. cbn [In]. split.
      * intros [[H|[H|[]]]|[H1 [H2 H3]]].
        -- left; exact H.
        -- inversion H; subst. right. auto.
        -- right. repeat split; auto. apply has_key_false. apply has_key_false in H1.
           intros Hin. apply H1. rewrite map_app, in_app_iff. left. exact Hin.
      * intros [H|[H1 [H2 H3]]]; [left; left; exact H|].
        destruct (str_eqb c k) eqn:Eck.
        -- apply str_eqb_eq in Eck. subst k d. left. right. left. reflexivity.
        -- apply str_eqb_neq in Eck. destruct H2 as [H2|H2]; [congruence|].
           right. repeat split; auto. apply has_key_false. apply has_key_false in H1.
           rewrite map_app, in_app_iff. cbn [map fst In]. intros [Hin|[Hin|[]]]; [auto|congruence].
Qed.

Lemma pc_from_nodup : forall comps ks acc,
  NoDup (map fst acc) -> NoDup (map fst (pc_from comps ks acc)).
Proof.
  intros comps. induction ks as [|k ks IH]; intros acc N; cbn [pc_from]; [exact N|].
  destruct (has_key k acc) eqn:E; [apply IH; exact N|].
  apply IH. rewrite map_app. cbn [map fst]. apply NoDup_snoc; [exact N|]. apply has_key_false. exact E.
Qed.

Lemma pc_In : forall comps ks c d,
  In (c, d) (pc_from comps ks []) <-> In c ks /\ d = descr comps c.
Proof.
  intros comps ks c d. rewrite pc_from_In. cbn [In]. split.
  - intros [[]|[_ H]]. exact H.
  - intros H. right. split; [reflexivity|exact H].
Qed.

Lemma pc_nodup : forall comps ks, NoDup (map fst (pc_from comps ks [])).
Proof. intros comps ks. apply pc_from_nodup. constructor. Qed.

(* the table only depends on the set of compartments in use and on their descriptions *)
Lemma pc_perm : forall comps comps' ks ks',
  (forall c, In c ks <-> In c ks') -> (forall c, In c ks -> descr comps c = descr comps' c) ->
  Permutation (pc_from comps ks []) (pc_from comps' ks' []).
Proof.
  intros comps comps' ks ks' Hk Hd. apply NoDup_Permutation.
  - eapply NoDup_map_inv. apply pc_nodup.
  - eapply NoDup_map_inv. apply pc_nodup.
  - intros [c d]. rewrite !pc_In. split; intros [H1 H2]; subst d.
    + split; [apply Hk; exact H1|apply Hd; exact H1].
    + apply Hk in H1. split; [exact H1|symmetry; apply Hd; exact H1].
Qed.

(* the sorted table gives back the description it was built from *)
Lemma descr_pc : forall comps ks c, In c ks -> descr (dsort (pc_from comps ks [])) c = descr comps c.
Proof.
  intros comps ks c Hc. unfold descr at 1.
  rewrite (lookup_In_nodup (dsort (pc_from comps ks [])) c (descr comps c)); [reflexivity| |].
  - eapply Permutation_NoDup; [apply Permutation_map, sort_perm|apply pc_nodup].
  - eapply Permutation_in; [apply sort_perm|]. apply pc_In. auto.
Qed.

Lemma dsort_pc : forall comps comps' ks ks',
  (forall c, In c ks <-> In c ks') -> (forall c, In c ks -> descr comps c = descr comps' c) ->
  dsort (pc_from comps ks []) = dsort (pc_from comps' ks' []).
Proof.
  intros comps comps' ks ks' Hk Hd. unfold dsort. apply sort_by_perm_unique.
  - apply pc_perm; assumption.
  - apply pc_nodup.
Qed.

(* ------------------------------------------------------------------ the fixpoint lemma *)
(* the trip does not invent a compartment: no metabolite without compartment, or "" is in use anyway *)
Definition comp_empty (x : amet) : bool := match m_comp x with Some [] => true | _ => false end.
Definition comps_closed (m : amodel) : bool := comps_some m || existsb comp_empty (a_mets m).

Lemma comps_some_closed : forall m, comps_some m = true -> comps_closed m = true.
Proof. intros m H. unfold comps_closed. rewrite H. reflexivity. Qed.

Lemma m_comp_norm : forall x, m_comp (norm_met x) = match m_comp x with None => Some [] | c => c end.
Proof. intros x; destruct x; reflexivity. Qed.

Lemma used_norm : forall s m, comps_closed m = true ->
  forall c, In c (used (map norm_met (srt s m_id (a_mets m)))) <-> In c (used (a_mets m)).
Proof.
  intros s m Hc c. rewrite !used_In. split.
  - intros [x' [Hx' Hcomp]]. apply in_map_iff in Hx'. destruct Hx' as [x [<- Hx]]. apply srt_In in Hx.
    rewrite m_comp_norm in Hcomp. destruct (m_comp x) as [c0|] eqn:E.
    + exists x. split; [exact Hx|congruence].
    + inversion Hcomp; subst c. unfold comps_closed in Hc. apply orb_true_iff in Hc. destruct Hc as [Hc|Hc].
      * unfold comps_some in Hc. rewrite forallb_forall in Hc. specialize (Hc x Hx). rewrite E in Hc. discriminate.
      * apply existsb_exists in Hc. destruct Hc as [y [Hy1 Hy2]]. exists y. split; [exact Hy1|].
        unfold comp_empty in Hy2. destruct (m_comp y) as [[|z0 z]|]; try discriminate. reflexivity.
  - intros [x [Hx Hcomp]]. exists (norm_met x). split.
    + apply in_map. eapply Permutation_in; [apply srt_perm|exact Hx].
    + rewrite m_comp_norm, Hcomp. reflexivity.
Qed.

Lemma public_comps_pc : forall m, public_comps m = pc_from (a_comps m) (used (a_mets m)) [].
Proof. intros m. apply public_comps_from_pc. Qed.

Lemma public_comps_rt : forall s m,
  public_comps (rt s m) =
  pc_from (dsort (public_comps m)) (used (map norm_met (srt s m_id (a_mets m)))) [].
Proof. intros s m. apply public_comps_from_pc. Qed.

(* after one trip the re-derived compartment table does not change any more *)
Theorem comps_fix : forall s m, comps_closed m = true ->
  dsort (public_comps (rt s m)) = dsort (public_comps m).
Proof.
  intros s m Hc. rewrite public_comps_rt. rewrite (public_comps_pc m) at 2.
  apply dsort_pc; [apply used_norm; exact Hc|].
  intros c Hin. rewrite public_comps_pc. apply descr_pc. apply (used_norm s m Hc). exact Hin.
Qed.

(* the table of the sorted model is the table of the model *)
Lemma comps_sorted : forall s m, dsort (public_comps (sorted_model s m)) = dsort (public_comps m).
Proof.
  intros s m. rewrite !public_comps_pc. cbn [sorted_model a_comps a_mets].
  apply dsort_pc; [|reflexivity].
  intros c. rewrite !used_In. split; intros [x [H1 H2]]; exists x; split; auto.
  - eapply srt_In; exact H1.
  - eapply Permutation_in; [apply srt_perm|exact H1].
Qed.

Lemma set_comps_rt : forall s m, set_comps (rt s m) (dsort (public_comps m)) = rt s m.
Proof. reflexivity. Qed.

(* a second trip returns the same model again *)
Theorem rt_idem : forall s m, comps_closed m = true -> rt s (rt s m) = rt s m.
Proof. intros s m Hc. rewrite rt_rt, (comps_fix s m Hc). apply set_comps_rt. Qed.

(* ... and only then: otherwise the second trip adds the item "" to the private table *)
Theorem rt_idem_iff : forall s m, rt s (rt s m) = rt s m <-> comps_closed m = true.
Proof.
  intros s m. split; [|apply rt_idem].
  intros H. apply (f_equal a_comps) in H. cbn [rt a_comps] in H. fold (rt s m) in H.
  unfold comps_closed. destruct (comps_some m) eqn:E1; [reflexivity|]. cbn [orb].
  unfold comps_some in E1.
  assert (Hx : exists x, In x (a_mets m) /\ m_comp x = None).
  { clear H. induction (a_mets m) as [|x l IH]; [discriminate|]. cbn [forallb] in E1.
    destruct (m_comp x) eqn:Ex.
    - cbn [andb] in E1. destruct (IH E1) as [y [Hy1 Hy2]]. exists y. split; [right; exact Hy1|exact Hy2].
    - exists x. split; [left; reflexivity|exact Ex]. }
  destruct Hx as [x [Hx1 Hx2]].
  assert (I1 : In ([], descr (dsort (public_comps m)) []) (dsort (public_comps (rt s m)))).
  { eapply Permutation_in; [apply sort_perm|]. rewrite public_comps_rt. apply pc_In. split; [|reflexivity].
    apply used_In. exists (norm_met x). split.
    - apply in_map. eapply Permutation_in; [apply srt_perm|exact Hx1].
    - rewrite m_comp_norm, Hx2. reflexivity. }
  rewrite H in I1.
  assert (I2 : In ([], descr (dsort (public_comps m)) []) (public_comps m)).
  { eapply Permutation_in; [apply Permutation_sym, sort_perm|exact I1]. }
  rewrite public_comps_pc in I2. apply pc_In in I2. destruct I2 as [I2 _].
  apply used_In in I2. destruct I2 as [y [Hy1 Hy2]].
  apply existsb_exists. exists y. split; [exact Hy1|]. unfold comp_empty. rewrite Hy2. reflexivity.
Qed.
