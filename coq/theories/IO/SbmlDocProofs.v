(* The document-level round trip: read_doc (write_doc m) = Ok (norm m) for every model inside sbml_ok.
   One lemma per section of the document (species, compartments, gene products, parameters / bounds,
   stoichiometry, associations, reactions, objective, groups), then the assembly. *)
From Coq Require Import ZArith QArith List Bool Lia Permutation Lqa.
From Cobra.GPR Require Syntax.
From Cobra.IO Require Import Str StrOrder JVal DictModel SbmlId SbmlProofs SbmlDoc SbmlDocLemmas SbmlGpr.
From Cobra.IO Require DictComps.
Import ListNotations.
Open Scope Z_scope.

Arguments dsort : simpl never.
Arguments sort_by : simpl never.

Section DocProofs.
  Variable dec : Z -> str.
  Variable undec : str -> Z.
  Variable wnum : Q -> Q.
  Variable clean : str -> str.
  Variable E : senv.
  Hypothesis undec_dec : forall c, undec (dec c) = c.
  Hypothesis dec_digits : forall c, dec c <> [] /\ forallb is_digit (dec c) = true.
  Hypothesis HE : env_ok E = true.

  Notation enc_m := (enc_m dec E).
  Notation enc_r := (enc_r dec E).
  Notation enc_grp := (enc_grp dec E).
  Notation enc_g := (enc_g dec E).
  Notation dec_m := (dec_m undec E).
  Notation dec_r := (dec_r undec E).
  Notation dec_grp := (dec_grp undec E).
  Notation dec_g := (dec_g undec E).

  (* ---------------------------------------------------------------- the environment *)
  Lemma prefix_ok_ne : forall p, prefix_ok p = true -> p <> [].
  Proof. intros [|c p] H; [discriminate|congruence]. Qed.

  Lemma env_facts :
    (e_pg E <> [] /\ e_pm E <> [] /\ e_pr E <> [] /\ e_pgrp E <> []) /\
    (head_of (e_pm E) <> head_of (e_pr E) /\ head_of (e_pm E) <> head_of (e_pgrp E) /\
     head_of (e_pr E) <> head_of (e_pgrp E) /\
     head_of (e_pg E) <> head_of (e_pm E) /\ head_of (e_pg E) <> head_of (e_pr E)) /\
    nodupb [e_lower E; e_upper E; e_zero E; e_minf E; e_pinf E] = true /\
    forallb (fun s => negb (is_nil s) && negb (head_of s =? head_of (e_pr E)))
            [e_lower E; e_upper E; e_zero E; e_minf E; e_pinf E] = true.
  Proof.
    pose proof HE as H. unfold env_ok in H. rewrite !andb_true_iff in H.
    destruct H as [[[[[[[[[[H1 H2] H3] H4] H5] H6] H7] H7a] H7b] H8] H9].
    apply negb_true_iff in H5, H6, H7, H7a, H7b. apply Z.eqb_neq in H5, H6, H7, H7a, H7b.
    repeat split; try (apply prefix_ok_ne; assumption); assumption.
  Qed.

  Lemma dec_enc_m : forall s, sid_ok (e_pm E) s = true -> dec_m (enc_m s) = s.
  Proof. intros s H. exact (sid_roundtrip dec undec undec_dec dec_digits _ s H). Qed.
  Lemma dec_enc_r : forall s, sid_ok (e_pr E) s = true -> dec_r (enc_r s) = s.
  Proof. intros s H. exact (sid_roundtrip dec undec undec_dec dec_digits _ s H). Qed.
  Lemma dec_enc_grp : forall s, sid_ok (e_pgrp E) s = true -> dec_grp (enc_grp s) = s.
  Proof. intros s H. exact (sid_roundtrip dec undec undec_dec dec_digits _ s H). Qed.
  Lemma dec_enc_g : forall s, gene_sid_ok dec E s = true -> dec_g (enc_g s) = s.
  Proof.
    intros s H. unfold gene_sid_ok in H. apply andb_true_iff in H. destruct H as [H1 H2].
    apply negb_true_iff in H2. exact (gene_roundtrip dec undec undec_dec dec_digits _ _ s H1 H2).
  Qed.

  Lemma enc_r_inj : forall s t, sid_ok (e_pr E) s = true -> sid_ok (e_pr E) t = true -> enc_r s = enc_r t -> s = t.
  Proof. intros s t Hs Ht. exact (sid_injective dec undec undec_dec dec_digits _ s t Hs Ht). Qed.

  Lemma req_ok : forall s, is_nil s = false -> req s = Ok s.
  Proof. intros s H. unfold req. rewrite H. reflexivity. Qed.

  Lemma enc_m_ne : forall s, is_nil (enc_m s) = false.
  Proof. intros s. apply f_rev_nonempty. apply env_facts. Qed.
  Lemma enc_r_ne : forall s, is_nil (enc_r s) = false.
  Proof. intros s. apply f_rev_nonempty. apply env_facts. Qed.
  Lemma enc_grp_ne : forall s, is_nil (enc_grp s) = false.
  Proof. intros s. apply f_rev_nonempty. apply env_facts. Qed.
  Lemma enc_g_ne : forall s, is_nil (enc_g s) = false.
  Proof.
    intros s. unfold SbmlDoc.enc_g, f_gene_rev. destruct (e_pg E) eqn:Ep; [|reflexivity].
    exfalso. destruct env_facts as [[H _] _]. congruence.
  Qed.

  Lemma head_enc_m : forall s, head_of (enc_m s) = head_of (e_pm E).
  Proof. intros s. apply f_rev_head. apply env_facts. Qed.
  Lemma head_enc_r : forall s, head_of (enc_r s) = head_of (e_pr E).
  Proof. intros s. apply f_rev_head. apply env_facts. Qed.
  Lemma head_enc_grp : forall s, head_of (enc_grp s) = head_of (e_pgrp E).
  Proof. intros s. apply f_rev_head. apply env_facts. Qed.

  Lemma head_enc_g : forall s, head_of (enc_g s) = head_of (e_pg E).
  Proof.
    intros s. unfold SbmlDoc.enc_g, f_gene_rev. destruct (e_pg E) eqn:Ep; [|reflexivity].
    exfalso. destruct env_facts as [[H _] _]. congruence.
  Qed.

  Lemma head_neq_str : forall a b, head_of a <> head_of b -> str_eqb a b = false.
  Proof. intros a b H. apply str_eqb_neq. intros ->. apply H. reflexivity. Qed.

  Lemma not_in_by_head {A} (f : A -> str) : forall s l h,
    head_of s <> h -> (forall x, In x l -> head_of (f x) = h) -> str_mem s (map f l) = false.
  Proof.
    intros s l h Hs Hl. apply str_mem_false. intros Hin. apply in_map_iff in Hin.
    destruct Hin as [x [<- Hx]]. apply Hs. apply Hl. exact Hx.
  Qed.

  (* ---------------------------------------------------------------- species *)
  Definition ws (x : amet) : dspecies :=
    mkSp (enc_m (m_id x)) (m_name x) (match m_comp x with Some c => c | None => [] end) (m_charge x)
         (match m_formula x with Some f => f | None => [] end) false.

  Lemma met_ok_facts : forall x, met_ok E x = true ->
    sid_ok (e_pm E) (m_id x) = true /\ is_nil (m_id x) = false /\ exists c, m_comp x = Some c /\ is_sid c = true.
  Proof.
    intros x H. unfold met_ok in H. apply andb_true_iff in H. destruct H as [H H3].
    apply andb_true_iff in H. destruct H as [H1 H2]. apply negb_true_iff in H2.
    destruct (m_comp x) as [c|]; [|discriminate]. repeat split; auto. exists c. auto.
  Qed.

  Lemma write_species_ok : forall mets, forallb (met_ok E) mets = true ->
    mapM (write_species dec E) mets = Ok (map ws mets).
  Proof.
    intros mets H. apply mapM_ok1. intros x Hx. rewrite forallb_forall in H.
    destruct (met_ok_facts x (H x Hx)) as [_ [_ [c [Hc Hs]]]].
    unfold write_species, ws. rewrite Hc. unfold sid_or_empty. rewrite Hs. reflexivity.
  Qed.

  Lemma read_species_ok : forall mets, forallb (met_ok E) mets = true ->
    mapM (read_species undec E) (map ws mets) = Ok (map norm_met mets).
  Proof.
    intros mets H. apply mapM_ok. intros x Hx. rewrite forallb_forall in H.
    destruct (met_ok_facts x (H x Hx)) as [H1 [_ [c [Hc _]]]].
    unfold read_species, ws, norm_met. cbn [sp_id sp_name sp_comp sp_charge sp_formula].
    rewrite (req_ok _ (enc_m_ne _)). cbn [bind]. rewrite (dec_enc_m _ H1), Hc.
    destruct (m_formula x) as [[|a f]|]; reflexivity.
  Qed.

  Lemma norm_met_id : forall mets, map m_id (map norm_met mets) = map m_id mets.
  Proof. intros mets. rewrite map_map. reflexivity. Qed.

  Lemma mets_nonempty : forall mets, forallb (met_ok E) mets = true ->
    forallb (fun x => negb (is_nil (m_id x))) (map norm_met mets) = true.
  Proof.
    intros mets H. rewrite forallb_forall in *. intros y Hy. apply in_map_iff in Hy.
    destruct Hy as [x [<- Hx]]. destruct (met_ok_facts x (H x Hx)) as [_ [H2 _]]. cbn. rewrite H2. reflexivity.
  Qed.

  Lemma no_boundary : forall mets,
    filter (fun p : dspecies * amet => sp_boundary (fst p)) (combine (map ws mets) (map norm_met mets)) = [].
  Proof.
    intros mets. apply filter_none. intros [s y] Hin. apply in_combine_l in Hin.
    apply in_map_iff in Hin. destruct Hin as [x [<- _]]. reflexivity.
  Qed.

  (* ---------------------------------------------------------------- compartments *)
  Lemma comps_keys_sid : forall comps mets, forallb (met_ok E) mets = true ->
    forall p, In p (public_comps_from comps mets []) -> is_sid (fst p) = true.
  Proof.
    intros comps mets H [c d] Hin. rewrite DictComps.public_comps_from_pc in Hin.
    apply DictComps.pc_In in Hin. destruct Hin as [Hc _]. apply DictComps.used_In in Hc.
    destruct Hc as [x [Hx Hc]]. rewrite forallb_forall in H.
    destruct (met_ok_facts x (H x Hx)) as [_ [_ [c' [Hc' Hs]]]]. cbn [fst]. congruence.
  Qed.

  Lemma comps_written : forall comps mets, forallb (met_ok E) mets = true ->
    map (fun p : str * str => (sid_or_empty (fst p), snd p)) (public_comps_from comps mets []) =
    public_comps_from comps mets [].
  Proof.
    intros comps mets H. rewrite <- (map_id (public_comps_from comps mets [])) at 2.
    apply map_ext_in. intros [c d] Hin. pose proof (comps_keys_sid comps mets H _ Hin) as Hs.
    cbn [fst snd] in *. unfold sid_or_empty. rewrite Hs. reflexivity.
  Qed.

  Lemma comps_read : forall comps mets, forallb (met_ok E) mets = true ->
    mapM read_comp (public_comps_from comps mets []) = Ok (public_comps_from comps mets []).
  Proof.
    intros comps mets H. rewrite <- (map_id (public_comps_from comps mets [])) at 2.
    apply mapM_ok1. intros [c d] Hin. pose proof (comps_keys_sid comps mets H _ Hin) as Hs.
    unfold read_comp. cbn [fst snd] in *. rewrite req_ok; [reflexivity|]. destruct c; [discriminate|reflexivity].
  Qed.

  Lemma comps_dict : forall comps mets,
    dict_of (public_comps_from comps mets []) = public_comps_from comps mets [].
  Proof.
    intros comps mets. apply dict_of_nodup. rewrite DictComps.public_comps_from_pc. apply DictComps.pc_nodup.
  Qed.

  (* ---------------------------------------------------------------- gene products *)
  Lemma read_gps_ok : forall genes, forallb (fun g => gene_sid_ok dec E (g_id g)) genes = true ->
    mapM (read_gp undec E) (map (write_gp dec E) genes) = Ok (map (norm_gene dec E) genes).
  Proof.
    intros genes H. apply mapM_ok. intros g Hg. rewrite forallb_forall in H.
    unfold read_gp, write_gp, norm_gene. cbn [fst snd].
    rewrite (req_ok _ (enc_g_ne _)). cbn [bind]. rewrite (dec_enc_g _ (H g Hg)). reflexivity.
  Qed.

  Lemma norm_gene_id : forall genes, map g_id (map (norm_gene dec E) genes) = map g_id genes.
  Proof. intros genes. rewrite map_map. reflexivity. Qed.

  (* ---------------------------------------------------------------- parameters and bounds *)
  Definition sfx (up : bool) : str := if up then s_upper_sfx else s_lower_sfx.
  Definition own_all (c : cfg) (rxns : list (arxn * Syntax.rule)) : list (str * ebound * bool) :=
    flat_map (fun rr => own_param dec wnum E c (r_id (fst rr)) false (r_lb (fst rr)) ++
                        own_param dec wnum E c (r_id (fst rr)) true (r_ub (fst rr))) rxns.
  Definition params (c : cfg) (rxns : list (arxn * Syntax.rule)) : list (str * ebound * bool) :=
    shared_params wnum E c ++ own_all c rxns.

  Lemma find_param_unique : forall ps k v b, In (k, v, b) ps ->
    (forall v' b', In (k, v', b') ps -> v' = v /\ b' = b) -> find_param k ps = Some (v, b).
  Proof.
    induction ps as [|[[i w] kk] ps IH]; intros k v b Hin Hu; [contradiction|]. cbn [find_param].
    destruct (str_eqb k i) eqn:Ek.
    - apply str_eqb_eq in Ek. subst i. destruct (Hu w kk (or_introl eq_refl)) as [-> ->]. reflexivity.
    - destruct Hin as [Hin|Hin]; [inversion Hin; subst; rewrite str_eqb_refl in Ek; discriminate|].
      apply IH; auto. intros v' b' H'. apply Hu. right. exact H'.
  Qed.

  Lemma find_param_skip : forall l1 l2 k, (forall i v b, In (i, v, b) l1 -> str_eqb k i = false) ->
    find_param k (l1 ++ l2) = find_param k l2.
  Proof.
    induction l1 as [|[[i w] kk] l1 IH]; intros l2 k H; [reflexivity|]. cbn [app find_param].
    rewrite (H i w kk (or_introl eq_refl)). apply IH. intros i' v b Hin. eapply H. right. exact Hin.
  Qed.

  Lemma NoDup_neq {A} : forall (l1 l2 l3 : list A) a b, NoDup (l1 ++ a :: l2 ++ b :: l3) -> a <> b.
  Proof.
    intros l1 l2 l3 a b N Hab. apply NoDup_remove_2 in N. apply N. subst b.
    apply in_or_app. right. apply in_or_app. right. left. reflexivity.
  Qed.

  Lemma shared_lookup : forall c rest,
    let P := shared_params wnum E c ++ rest in
    find_param (e_lower E) P = Some (Fin (wnum (c_lb c)), true) /\
    find_param (e_upper E) P = Some (Fin (wnum (c_ub c)), true) /\
    find_param (e_zero E) P = Some (Fin 0, true) /\
    find_param (e_minf E) P = Some (NegInf, true) /\
    find_param (e_pinf E) P = Some (PosInf, true).
  Proof.
    intros c rest P. destruct env_facts as [_ [_ [N _]]]. apply nodupb_NoDup in N.
    set (l := e_lower E) in *. set (u := e_upper E) in *. set (z := e_zero E) in *.
    set (mi := e_minf E) in *. set (pi := e_pinf E) in *.
    assert (E1 : str_eqb u l = false) by (apply str_eqb_neq; intros H; symmetry in H; revert H; apply (NoDup_neq [] [] [z; mi; pi] l u N)).
    assert (E2 : str_eqb z l = false) by (apply str_eqb_neq; intros H; symmetry in H; revert H; apply (NoDup_neq [] [u] [mi; pi] l z N)).
    assert (E3 : str_eqb z u = false) by (apply str_eqb_neq; intros H; symmetry in H; revert H; apply (NoDup_neq [l] [] [mi; pi] u z N)).
    assert (E4 : str_eqb mi l = false) by (apply str_eqb_neq; intros H; symmetry in H; revert H; apply (NoDup_neq [] [u; z] [pi] l mi N)).
    assert (E5 : str_eqb mi u = false) by (apply str_eqb_neq; intros H; symmetry in H; revert H; apply (NoDup_neq [l] [z] [pi] u mi N)).
    assert (E6 : str_eqb mi z = false) by (apply str_eqb_neq; intros H; symmetry in H; revert H; apply (NoDup_neq [l; u] [] [pi] z mi N)).
    assert (E7 : str_eqb pi l = false) by (apply str_eqb_neq; intros H; symmetry in H; revert H; apply (NoDup_neq [] [u; z; mi] [] l pi N)).
    assert (E8 : str_eqb pi u = false) by (apply str_eqb_neq; intros H; symmetry in H; revert H; apply (NoDup_neq [l] [z; mi] [] u pi N)).
    assert (E9 : str_eqb pi z = false) by (apply str_eqb_neq; intros H; symmetry in H; revert H; apply (NoDup_neq [l; u] [mi] [] z pi N)).
    assert (E10 : str_eqb pi mi = false) by (apply str_eqb_neq; intros H; symmetry in H; revert H; apply (NoDup_neq [l; u; z] [] [] mi pi N)).
    unfold P, shared_params. fold l u z mi pi. cbn [app find_param].
    rewrite !str_eqb_refl, E1, E2, E3, E4, E5, E6, E7, E8, E9, E10. repeat split; reflexivity.
  Qed.

  Lemma shared_nonempty :
    is_nil (e_lower E) = false /\ is_nil (e_upper E) = false /\ is_nil (e_zero E) = false /\
    is_nil (e_minf E) = false /\ is_nil (e_pinf E) = false.
  Proof.
    destruct env_facts as [_ [_ [_ H]]]. cbn [forallb] in H. rewrite !andb_true_iff, !negb_true_iff in H.
    tauto.
  Qed.

  Lemma shared_heads : forall c i v b, In (i, v, b) (shared_params wnum E c) -> head_of i <> head_of (e_pr E).
  Proof.
    intros c i v b Hin. destruct env_facts as [_ [_ [_ H]]]. cbn [forallb] in H.
    rewrite !andb_true_iff, !negb_true_iff in H. unfold shared_params in Hin. cbn [In] in Hin.
    destruct H as [[_ H1] [[_ H2] [[_ H3] [[_ H4] [[_ H5] _]]]]].
    apply Z.eqb_neq in H1, H2, H3, H4, H5.
    destruct Hin as [Hin|[Hin|[Hin|[Hin|[Hin|[]]]]]]; inversion Hin; subst; assumption.
  Qed.

  Lemma create_bound_spec : forall c v,
    match create_bound c v with
    | BLower => eb_eqb v (Fin (c_lb c)) = true
    | BZero => eb_eqb v (Fin 0) = true
    | BUpper => eb_eqb v (Fin (c_ub c)) = true
    | BMinusInf => v = NegInf
    | BPlusInf => v = PosInf
    | BOwn w => w = v
    end.
  Proof.
    intros c v. unfold create_bound.
    destruct (eb_eqb v (Fin (c_lb c))) eqn:E1; [reflexivity|].
    destruct (eb_eqb v (Fin 0)) eqn:E2; [reflexivity|].
    destruct (eb_eqb v (Fin (c_ub c))) eqn:E3; [reflexivity|].
    destruct (eb_eqb v NegInf) eqn:E4; [destruct v; try discriminate; reflexivity|].
    destruct (eb_eqb v PosInf) eqn:E5; [destruct v; try discriminate; reflexivity|].
    reflexivity.
  Qed.

  Lemma own_param_In : forall c rid up v k x b, In (k, x, b) (own_param dec wnum E c rid up v) ->
    create_bound c v = BOwn v /\ k = enc_r rid ++ sfx up /\ x = wb wnum v /\ b = true.
  Proof.
    intros c rid up v k x b Hin. unfold own_param, pid_of in Hin. pose proof (create_bound_spec c v) as Hs.
    destruct (create_bound c v) as [| | | | |w]; try contradiction. subst w.
    destruct Hin as [Hin|[]]. inversion Hin; subst. auto.
  Qed.

  Lemma sfx_len : forall up, length (sfx up) = 12%nat.
  Proof. intros [|]; reflexivity. Qed.

  Lemma sfx_inj : forall a b, sfx a = sfx b -> a = b.
  Proof. intros [|] [|] H; try reflexivity; vm_compute in H; discriminate. Qed.

  Definition bnd (up : bool) (r : arxn) : ebound := if up then r_ub r else r_lb r.

  Lemma find_own : forall c rxns rr up,
    In rr rxns -> NoDup (map (fun rr => r_id (fst rr)) rxns) ->
    (forall x, In x rxns -> sid_ok (e_pr E) (r_id (fst x)) = true) ->
    create_bound c (bnd up (fst rr)) = BOwn (bnd up (fst rr)) ->
    find_param (enc_r (r_id (fst rr)) ++ sfx up) (params c rxns) = Some (wb wnum (bnd up (fst rr)), true).
  Proof.
    intros c rxns rr up Hin N Hok Hcb. unfold params. rewrite find_param_skip.
    - apply find_param_unique.
      + unfold own_all. apply in_flat_map. exists rr. split; [exact Hin|]. apply in_or_app.
        destruct up; [right|left]; unfold own_param, pid_of; cbn [bnd] in Hcb; rewrite Hcb; left; reflexivity.
      + intros v' b' H'. unfold own_all in H'. apply in_flat_map in H'. destruct H' as [rr' [Hin' H']].
        assert (Hk : exists up', create_bound c (bnd up' (fst rr')) = BOwn (bnd up' (fst rr')) /\
                       enc_r (r_id (fst rr)) ++ sfx up = enc_r (r_id (fst rr')) ++ sfx up' /\
                       v' = wb wnum (bnd up' (fst rr')) /\ b' = true).
        { apply in_app_or in H'. destruct H' as [H'|H']; apply own_param_In in H';
            [exists false|exists true]; cbn [bnd]; tauto. }
        destruct Hk as [up' [Hcb' [Hkey [-> ->]]]].
        assert (Hl : length (enc_r (r_id (fst rr))) = length (enc_r (r_id (fst rr')))).
        { apply (f_equal (@length Z)) in Hkey. rewrite !app_length, !sfx_len in Hkey. lia. }
        destruct (app_eq_len _ _ _ _ Hl Hkey) as [He Hs]. apply sfx_inj in Hs. subst up'.
        apply enc_r_inj in He; [|apply Hok; assumption|apply Hok; assumption].
        assert (rr = rr') by (eapply (NoDup_map_inj_in (fun x : arxn * Syntax.rule => r_id (fst x))); eauto).
        subst rr'. auto.
    - intros i v b Hs. apply head_neq_str. apply shared_heads in Hs.
      assert (Hh : head_of (enc_r (r_id (fst rr)) ++ sfx up) = head_of (e_pr E)).
      { rewrite <- (head_enc_r (r_id (fst rr))). pose proof (enc_r_ne (r_id (fst rr))) as Hne.
        destruct (enc_r (r_id (fst rr))); [discriminate|reflexivity]. }
      rewrite Hh. intros Heq. apply Hs. symmetry. exact Heq.
  Qed.

  Lemma wb_red : forall v, match v with Fin q => num_ok wnum q = true | _ => True end ->
    eb_red (wb wnum v) = eb_red v.
  Proof. intros [|q|] H; cbn; auto. f_equal. apply Qeq_bool_red. exact H. Qed.

  (* the reference written for a bound is read as that bound (in lowest terms) *)
  Lemma read_bound_ok : forall c rxns rr up,
    In rr rxns -> NoDup (map (fun rr => r_id (fst rr)) rxns) ->
    (forall x, In x rxns -> sid_ok (e_pr E) (r_id (fst x)) = true) ->
    bound_num_ok wnum c (bnd up (fst rr)) = true ->
    read_bound_ref (params c rxns) (pid_of dec E c (r_id (fst rr)) up (bnd up (fst rr))) =
    Ok (Some (eb_red (bnd up (fst rr)))).
  Proof.
    intros c rxns rr up Hin N Hok Hn. set (v := bnd up (fst rr)) in *.
    destruct (shared_lookup c (own_all c rxns)) as [L1 [L2 [L3 [L4 L5]]]].
    destruct shared_nonempty as [N1 [N2 [N3 [N4 N5]]]].
    pose proof (create_bound_spec c v) as Hs. unfold bound_num_ok in Hn. unfold read_bound_ref, pid_of.
    fold (params c rxns) in L1, L2, L3, L4, L5.
    destruct (create_bound c v) as [| | | | |w] eqn:Hcb; cbn [bref_value] in Hn.
    - rewrite N1, L1. do 2 f_equal. apply eb_eqb_fin in Hs. destruct Hs as [p [-> Hp]]. cbn [eb_red]. f_equal.
      apply Qred_complete. apply Qeq_bool_iff in Hn. rewrite Hn. symmetry. exact Hp.
    - rewrite N3, L3. do 2 f_equal. apply eb_eqb_fin in Hs. destruct Hs as [p [-> Hp]]. cbn [eb_red]. f_equal.
      apply Qred_complete. symmetry. exact Hp.
    - rewrite N2, L2. do 2 f_equal. apply eb_eqb_fin in Hs. destruct Hs as [p [-> Hp]]. cbn [eb_red]. f_equal.
      apply Qred_complete. apply Qeq_bool_iff in Hn. rewrite Hn. symmetry. exact Hp.
    - rewrite N4, L4, Hs. reflexivity.
    - rewrite N5, L5, Hs. reflexivity.
    - subst w. assert (Hne : is_nil (enc_r (r_id (fst rr)) ++ sfx up) = false).
      { pose proof (enc_r_ne (r_id (fst rr))) as Hne. destruct (enc_r (r_id (fst rr))); [discriminate|reflexivity]. }
      change (if up then s_upper_sfx else s_lower_sfx) with (sfx up). rewrite Hne. unfold v in *. rewrite (find_own c rxns rr up Hin N Hok Hcb).
      do 2 f_equal. apply wb_red. destruct (bnd up (fst rr)); auto.
  Qed.

  Lemma read_rxn_bounds_both : forall c lb ub,
    read_rxn_bounds E c (Some lb) (Some ub) = read_bounds (e_wide E) c lb ub.
  Proof.
    intros c lb ub. unfold read_rxn_bounds, read_bounds, set_lower, set_upper.
    destruct (e_wide E); cbn [snd fst].
    - destruct (check_bounds lb PosInf); cbn [bind snd fst]; [|reflexivity].
      destruct (check_bounds lb ub); reflexivity.
    - destruct (check_bounds lb (Fin (c_ub c))); cbn [bind snd fst]; [|reflexivity].
      destruct (check_bounds lb ub); reflexivity.
  Qed.

  Lemma read_bounds_ok : forall c lb ub,
    eb_leb lb ub = true -> (e_wide E || eb_leb lb (Fin (c_ub c))) = true ->
    read_rxn_bounds E c (Some (eb_red lb)) (Some (eb_red ub)) = Ok (eb_red lb, eb_red ub).
  Proof.
    intros c lb ub H1 H2. rewrite read_rxn_bounds_both.
    assert (H1' : eb_leb (eb_red lb) (eb_red ub) = true) by (rewrite eb_leb_red; exact H1).
    destruct (e_wide E).
    - apply read_bounds_wide. exact H1'.
    - rewrite (read_bounds_narrow c _ _ H1'). rewrite eb_leb_red_l. cbn [orb] in H2. rewrite H2. reflexivity.
  Qed.

  (* ---------------------------------------------------------------- stoichiometry *)
  Definition ispos (p : str * Q) : bool := Qle_bool 0 (snd p).
  Definition isneg (p : str * Q) : bool := negb (ispos p).
  Definition wreact (p : str * Q) : str * Q := (enc_m (fst p), wnum (Qopp (snd p))).
  Definition wprod (p : str * Q) : str * Q := (enc_m (fst p), wnum (snd p)).
  Definition rreact (p : str * Q) : str * Q := (fst p, Qminus 0 (wnum (Qopp (snd p)))).
  Definition rprod (p : str * Q) : str * Q := (fst p, Qplus 0 (wnum (snd p))).

  Lemma write_sref_eq : forall p,
    write_sref dec wnum E p = if ispos p then (true, wprod p) else (false, wreact p).
  Proof. intros p. unfold write_sref, export_coef, ispos. destruct (Qle_bool 0 (snd p)); reflexivity. Qed.

  Lemma reactants_written : forall st,
    map snd (filter (fun x => negb (fst x)) (map (write_sref dec wnum E) st)) = map wreact (filter isneg st).
  Proof.
    induction st as [|p st IH]; [reflexivity|]. cbn [map filter]. rewrite write_sref_eq. unfold isneg at 1.
    destruct (ispos p); cbn [fst snd negb map]; [exact IH|]. rewrite IH. reflexivity.
  Qed.

  Lemma products_written : forall st,
    map snd (filter fst (map (write_sref dec wnum E) st)) = map wprod (filter ispos st).
  Proof.
    induction st as [|p st IH]; [reflexivity|]. cbn [map filter]. rewrite write_sref_eq.
    destruct (ispos p); cbn [fst snd negb map]; [|exact IH]. rewrite IH. reflexivity.
  Qed.

  Lemma acc_refs_fresh : forall sign refs acc,
    (forall p, In p refs -> is_nil (fst p) = false) ->
    NoDup (map fst acc ++ map (fun p => dec_m (fst p)) refs) ->
    acc_refs undec E sign refs acc =
    Ok (acc ++ map (fun p => (dec_m (fst p), if sign then Qplus 0 (snd p) else Qminus 0 (snd p))) refs).
  Proof.
    intros sign. induction refs as [|[sid v] refs IH]; intros acc Hne N; cbn [acc_refs map].
    - rewrite app_nil_r. reflexivity.
    - rewrite (req_ok sid (Hne (sid, v) (or_introl eq_refl))). cbn [bind fst snd] in *.
      rewrite dict_upd_fresh.
      + rewrite IH.
        * rewrite <- app_assoc. cbn [q_of app]. reflexivity.
        * intros p Hp. apply Hne. right. exact Hp.
        * rewrite map_app, <- app_assoc. exact N.
      + apply NoDup_remove_2 in N. intros H. apply N. apply in_or_app. left. exact H.
  Qed.

  Section Stoich.
    Variable mids : list str.
    Variable st : list (str * Q).
    Hypothesis Hmids : forall k, In k mids -> sid_ok (e_pm E) k = true.
    Hypothesis Hnd : NoDup (map fst st).
    Hypothesis Hco : forallb (coef_ok wnum mids) st = true.

    Lemma st_key_ok : forall p, In p st -> sid_ok (e_pm E) (fst p) = true.
    Proof.
      intros p Hp. rewrite forallb_forall in Hco. specialize (Hco p Hp). unfold coef_ok in Hco.
      apply andb_true_iff in Hco. destruct Hco as [H1 _]. apply Hmids. apply str_mem_In. exact H1.
    Qed.

    Lemma dec_keys_react : forall l, (forall p, In p l -> In p st) ->
      map (fun p => dec_m (fst p)) (map wreact l) = map fst l.
    Proof.
      intros l Hl. rewrite map_map. apply map_ext_in. intros p Hp. cbn [wreact fst]. apply dec_enc_m.
      apply st_key_ok. apply Hl. exact Hp.
    Qed.

    Lemma dec_keys_prod : forall l, (forall p, In p l -> In p st) ->
      map (fun p => dec_m (fst p)) (map wprod l) = map fst l.
    Proof.
      intros l Hl. rewrite map_map. apply map_ext_in. intros p Hp. cbn [wprod fst]. apply dec_enc_m.
      apply st_key_ok. apply Hl. exact Hp.
    Qed.

    Lemma filter_sub {A} (f : A -> bool) (l : list A) : forall p, In p (filter f l) -> In p l.
    Proof. intros p H. apply filter_In in H. tauto. Qed.

    Lemma keys_partition : Permutation (map fst (filter isneg st ++ filter ispos st)) (map fst st).
    Proof. apply Permutation_map. exact (perm_partition ispos st). Qed.

    Definition rb : list (str * Q) := map rreact (filter isneg st) ++ map rprod (filter ispos st).

    Lemma refs_read1 :
      acc_refs undec E false (map wreact (filter isneg st)) [] = Ok (map rreact (filter isneg st)).
    Proof.
      rewrite acc_refs_fresh.
      - cbn [app]. f_equal. rewrite map_map. apply map_ext_in. intros p Hp. cbn [wreact rreact fst snd].
        rewrite dec_enc_m; [reflexivity|]. apply st_key_ok. eapply filter_sub. exact Hp.
      - intros p Hp. apply in_map_iff in Hp. destruct Hp as [q [<- _]]. apply enc_m_ne.
      - cbn [map app]. rewrite (dec_keys_react _ (filter_sub _ _)). apply NoDup_map_filter. exact Hnd.
    Qed.

    Lemma refs_read2 :
      acc_refs undec E true (map wprod (filter ispos st)) (map rreact (filter isneg st)) = Ok rb.
    Proof.
      rewrite acc_refs_fresh.
      - unfold rb. f_equal. f_equal. rewrite map_map. apply map_ext_in. intros p Hp. cbn [wprod rprod fst snd].
        rewrite dec_enc_m; [reflexivity|]. apply st_key_ok. eapply filter_sub. exact Hp.
      - intros p Hp. apply in_map_iff in Hp. destruct Hp as [q [<- _]]. apply enc_m_ne.
      - rewrite (dec_keys_prod _ (filter_sub _ _)). rewrite map_map. cbn [rreact fst].
        change (map (fun x : str * Q => fst x) (filter isneg st)) with (map fst (filter isneg st)).
        rewrite <- map_app.
        eapply Permutation_NoDup; [apply Permutation_sym; exact keys_partition|exact Hnd].
    Qed.

    Lemma rb_keys : forallb (fun p => str_mem (fst p) mids) rb = true.
    Proof.
      apply forallb_forall. intros p Hp. unfold rb in Hp. rewrite forallb_forall in Hco.
      assert (Hq : exists q, In q st /\ fst q = fst p).
      { apply in_app_or in Hp. destruct Hp as [Hp|Hp]; apply in_map_iff in Hp; destruct Hp as [q [<- Hq]];
          exists q; (split; [eapply filter_sub; exact Hq|reflexivity]). }
      destruct Hq as [q [Hq <-]]. specialize (Hco q Hq). unfold coef_ok in Hco. apply andb_true_iff in Hco. tauto.
    Qed.

    Lemma rb_red : map qred_snd rb = map qred_snd (filter isneg st ++ filter ispos st).
    Proof.
      unfold rb. rewrite !map_app, !map_map. rewrite forallb_forall in Hco. f_equal; apply map_ext_in; intros p Hp.
      - pose proof (filter_sub _ _ _ Hp) as Hin. apply filter_In in Hp. destruct Hp as [_ Hneg].
        specialize (Hco p Hin). unfold coef_ok, export_coef in Hco. unfold isneg, ispos in Hneg.
        apply negb_true_iff in Hneg. rewrite Hneg in Hco. cbn [snd] in Hco. apply andb_true_iff in Hco.
        destruct Hco as [_ Hn]. unfold num_ok in Hn. apply Qeq_bool_iff in Hn.
        unfold qred_snd, rreact. cbn [fst snd]. f_equal. apply Qred_complete. rewrite Hn. ring.
      - pose proof (filter_sub _ _ _ Hp) as Hin. apply filter_In in Hp. destruct Hp as [_ Hpos].
        specialize (Hco p Hin). unfold coef_ok, export_coef in Hco. unfold ispos in Hpos.
        rewrite Hpos in Hco. cbn [snd] in Hco. apply andb_true_iff in Hco.
        destruct Hco as [_ Hn]. unfold num_ok in Hn. apply Qeq_bool_iff in Hn.
        unfold qred_snd, rprod. cbn [fst snd]. f_equal. apply Qred_complete. rewrite Hn. ring.
    Qed.

    Lemma stoich_back : dsort (filter nonzero (map qred_snd rb)) = dsort (filter nonzero (map qred_snd st)).
    Proof.
      rewrite rb_red. apply dsort_perm.
      - apply perm_filter. apply Permutation_map. exact (perm_partition ispos st).
      - apply NoDup_map_filter. rewrite map_map.
        assert (Hk : map (fun x => fst (qred_snd x)) (filter isneg st ++ filter ispos st) =
                     map fst (filter isneg st ++ filter ispos st)) by reflexivity.
        rewrite Hk. eapply Permutation_NoDup; [apply Permutation_sym; exact keys_partition|exact Hnd].
    Qed.
  End Stoich.

  (* ---------------------------------------------------------------- associations *)
  Lemma rule_read : forall gids t,
    (forall g, In g gids -> gene_sid_ok dec E g = true) -> rule_ok clean gids t = true ->
    option_map (read_assoc undec clean E) (write_assoc dec E t) = Some (assoc_norm t).
  Proof.
    intros gids t Hg H. unfold rule_ok in H. apply andb_true_iff in H. destruct H as [Hwf Hall].
    destruct (gpr_assoc_roundtrip dec undec clean E t) as [_ [H2 _]]. apply H2; [exact Hwf|].
    intros g Hin. rewrite forallb_forall in Hall. specialize (Hall g Hin). apply andb_true_iff in Hall.
    destruct Hall as [H3 H4]. apply str_mem_In in H3. rewrite (dec_enc_g g (Hg g H3)). apply str_eqb_eq. exact H4.
  Qed.

  Lemma rule_genes_in : forall gids t g, rule_ok clean gids t = true -> In g (Syntax.genes (assoc_norm t)) -> In g gids.
  Proof.
    intros gids t g H Hin. apply genes_assoc_norm in Hin. unfold rule_ok in H. apply andb_true_iff in H.
    destruct H as [_ Hall]. rewrite forallb_forall in Hall. specialize (Hall g Hin). apply andb_true_iff in Hall.
    apply str_mem_In. tauto.
  Qed.

  (* ---------------------------------------------------------------- one reaction *)
  Definition norm_rxn0 (rr : arxn * Syntax.rule) : arxn * Syntax.rule :=
    let r := fst rr in
    (mkRxn (r_id r) (py_strip (r_name r)) (dsort (filter nonzero (map qred_snd (r_stoich r))))
           (eb_red (r_lb r)) (eb_red (r_ub r)) [] 0 [] [] [],
     match snd rr with Some t => Some (assoc_norm t) | None => None end).

  Definition rids_of (rxns : list (arxn * Syntax.rule)) : list str := map (fun rr => r_id (fst rr)) rxns.

  Lemma read_rxn_ok : forall c mids gids rxns rr,
    In rr rxns -> NoDup (rids_of rxns) ->
    (forall x, In x rxns -> sid_ok (e_pr E) (r_id (fst x)) = true) ->
    (forall k, In k mids -> sid_ok (e_pm E) k = true) ->
    (forall g, In g gids -> gene_sid_ok dec E g = true) ->
    rxn_ok wnum clean E c mids gids rr = true ->
    read_rxn undec clean E c (params c rxns) mids (write_rxn dec wnum E c rr) = Ok (norm_rxn0 rr).
  Proof.
    intros c mids gids rxns [r rule] Hin N Hrok Hmids Hgids H. unfold rxn_ok in H. cbn [fst snd] in H.
    rewrite !andb_true_iff in H. destruct H as [[[[[[[[H1 H2] H3] H4] H5] H6] H7] H8] H9].
    apply nodupb_NoDup in H6.
    unfold read_rxn, write_rxn. cbn [dr_id dr_name dr_lb dr_ub dr_reactants dr_products dr_assoc].
    rewrite (req_ok _ (enc_r_ne _)). cbn [bind].
    pose proof (read_bound_ok c rxns (r, rule) false Hin N Hrok H4) as B1. cbn [fst bnd] in B1.
    pose proof (read_bound_ok c rxns (r, rule) true Hin N Hrok H5) as B2. cbn [fst bnd] in B2.
    rewrite B1. cbn [bind]. rewrite B2. cbn [bind].
    rewrite (read_bounds_ok c _ _ H2 H3). cbn [bind fst snd].
    rewrite reactants_written, products_written.
    rewrite (refs_read1 mids (r_stoich r) Hmids H6 H7). cbn [bind].
    rewrite (refs_read2 mids (r_stoich r) Hmids H6 H7). cbn [bind].
    rewrite (rb_keys mids (r_stoich r) H7). cbn [bind].
    rewrite (stoich_back mids (r_stoich r) H6 H7). rewrite (dec_enc_r _ H1).
    unfold norm_rxn0. cbn [fst snd]. do 2 f_equal.
    destruct rule as [t|]; [|reflexivity].
    change (option_map (read_assoc undec clean E) (write_assoc dec E t) = Some (assoc_norm t)).
    apply (rule_read gids t Hgids H9).
  Qed.

  (* ---------------------------------------------------------------- objective *)
  Definition flux_read (rxns : list (arxn * Syntax.rule)) : list (str * Q) :=
    flat_map (fun rr => if q_is_zero (r_obj (fst rr)) then [] else [(r_id (fst rr), wnum (r_obj (fst rr)))]) rxns.

  Lemma acc_flux_fresh : forall rids fl acc,
    (forall p, In p fl -> In (dec_r (fst p)) rids) ->
    NoDup (map fst acc ++ map (fun p => dec_r (fst p)) fl) ->
    acc_flux undec E rids fl acc = Ok (acc ++ map (fun p => (dec_r (fst p), snd p)) fl).
  Proof.
    intros rids. induction fl as [|[r q] fl IH]; intros acc Hin N; cbn [acc_flux map].
    - rewrite app_nil_r. reflexivity.
    - cbn [fst snd] in *. assert (Hm : str_mem (dec_r r) rids = true).
      { apply str_mem_In. apply (Hin (r, q)). left. reflexivity. }
      rewrite Hm. rewrite dict_upd_fresh.
      + rewrite IH.
        * rewrite <- app_assoc. reflexivity.
        * intros p Hp. apply Hin. right. exact Hp.
        * rewrite map_app, <- app_assoc. exact N.
      + apply NoDup_remove_2 in N. intros H. apply N. apply in_or_app. left. exact H.
  Qed.

  Lemma flux_decoded : forall rxns, (forall x, In x rxns -> sid_ok (e_pr E) (r_id (fst x)) = true) ->
    map (fun p : str * Q => (dec_r (fst p), snd p)) (flat_map (write_flux dec wnum E) rxns) = flux_read rxns.
  Proof.
    induction rxns as [|rr rxns IH]; intros H; [reflexivity|]. cbn [flat_map]. rewrite map_app, IH.
    - unfold flux_read at 2. cbn [flat_map]. f_equal. unfold write_flux.
      destruct (q_is_zero (r_obj (fst rr))); [reflexivity|]. cbn [map fst snd].
      rewrite dec_enc_r; [reflexivity|]. apply H. left. reflexivity.
    - intros x Hx. apply H. right. exact Hx.
  Qed.

  Lemma flux_read_In : forall rxns k q, In (k, q) (flux_read rxns) ->
    exists rr, In rr rxns /\ k = r_id (fst rr) /\ q = wnum (r_obj (fst rr)) /\ q_is_zero (r_obj (fst rr)) = false.
  Proof.
    intros rxns k q H. unfold flux_read in H. apply in_flat_map in H. destruct H as [rr [Hin H]].
    destruct (q_is_zero (r_obj (fst rr))) eqn:Ez; [contradiction|]. destruct H as [H|[]].
    inversion H; subst. exists rr. auto.
  Qed.

  Lemma flux_read_nodup : forall rxns, NoDup (rids_of rxns) -> NoDup (map fst (flux_read rxns)).
  Proof.
    induction rxns as [|rr rxns IH]; intros N; [constructor|].
    cbn [rids_of map] in N. apply NoDup_cons_iff in N. destruct N as [N1 N2].
    unfold flux_read. cbn [flat_map]. fold (flux_read rxns).
    destruct (q_is_zero (r_obj (fst rr))); cbn [app map fst]; [apply IH; exact N2|].
    constructor; [|apply IH; exact N2]. intros Hin. apply in_map_iff in Hin. destruct Hin as [[k q] [Hk Hin]].
    cbn [fst] in Hk. subst k. apply flux_read_In in Hin. destruct Hin as [rr' [Hin' [Hid _]]].
    apply N1. rewrite Hid. unfold rids_of. apply (in_map (fun x : arxn * Syntax.rule => r_id (fst x))). exact Hin'.
  Qed.

  Lemma objective_read : forall rxns, NoDup (rids_of rxns) ->
    (forall x, In x rxns -> sid_ok (e_pr E) (r_id (fst x)) = true) ->
    acc_flux undec E (rids_of rxns) (flat_map (write_flux dec wnum E) rxns) [] = Ok (flux_read rxns).
  Proof.
    intros rxns N Hok. rewrite acc_flux_fresh.
    - cbn [app]. rewrite (flux_decoded rxns Hok). reflexivity.
    - intros p Hp. pose proof (flux_decoded rxns Hok) as Hd.
      assert (Hin : In (dec_r (fst p), snd p) (flux_read rxns)).
      { rewrite <- Hd. apply (in_map (fun p : str * Q => (dec_r (fst p), snd p))). exact Hp. }
      apply flux_read_In in Hin. destruct Hin as [rr [Hin [-> _]]].
      unfold rids_of. apply (in_map (fun x : arxn * Syntax.rule => r_id (fst x))). exact Hin.
    - cbn [map app]. pose proof (flux_decoded rxns Hok) as Hd. apply (f_equal (map fst)) in Hd.
      rewrite map_map in Hd. cbn [fst] in Hd. rewrite Hd. apply flux_read_nodup. exact N.
  Qed.

  Lemma with_obj_ok : forall c mids gids rxns rr, In rr rxns -> NoDup (rids_of rxns) ->
    rxn_ok wnum clean E c mids gids rr = true ->
    with_obj_of (flux_read rxns) (norm_rxn0 rr) = norm_rxn rr.
  Proof.
    intros c mids gids rxns [r rule] Hin N H. unfold rxn_ok in H. cbn [fst snd] in H.
    rewrite !andb_true_iff in H. destruct H as [[_ H8] _].
    unfold with_obj_of, norm_rxn0, norm_rxn. cbn [fst snd r_id r_name r_stoich r_lb r_ub r_rule r_subsystem r_notes r_annot].
    f_equal. f_equal. destruct (q_is_zero (r_obj r)) eqn:Ez.
    - rewrite lookup_none; [unfold obj_red; rewrite Ez; reflexivity|].
      intros Hk. apply in_map_iff in Hk. destruct Hk as [[k q] [Hk Hkin]]. cbn [fst] in Hk. subst k.
      apply flux_read_In in Hkin. destruct Hkin as [rr' [Hin' [Hid [_ Hz]]]].
      assert ((r, rule) = rr') by (eapply (NoDup_map_inj_in (fun x : arxn * Syntax.rule => r_id (fst x))); eauto).
      subst rr'. cbn [fst] in Hz. congruence.
    - cbn [orb] in H8. rewrite (lookup_nodup (flux_read rxns) (r_id r) (wnum (r_obj r))).
      + apply obj_red_eq. apply Qeq_bool_iff. exact H8.
      + apply flux_read_nodup. exact N.
      + unfold flux_read. apply in_flat_map. exists (r, rule). split; [exact Hin|]. cbn [fst]. rewrite Ez. left. reflexivity.
  Qed.

  (* ---------------------------------------------------------------- groups *)
  Section Groups.
    Variable d : doc.
    Variable mids rids gids : list str.
    Variable groups : list agroup.
    Hypothesis Hg : map dg_id (d_groups d) = map (fun g => enc_grp (gr_id g)) groups.
    Hypothesis Hr : map dr_id (d_rxns d) = map enc_r rids.
    Hypothesis Hs : map sp_id (d_species d) = map enc_m mids.
    Hypothesis Hp : map (fun g : str * str * str => fst (fst g)) (d_gps d) = map enc_g gids.
    Hypothesis Hmids : forall k, In k mids -> sid_ok (e_pm E) k = true.
    Hypothesis Hrids : forall k, In k rids -> sid_ok (e_pr E) k = true.
    Hypothesis Hgids : forall k, In k gids -> gene_sid_ok dec E k = true.

    Lemma read_member_ok : forall p, member_ok dec E mids rids gids (map gr_id groups) p = true ->
      read_member undec E d (enc_member dec E p) = Ok [p].
    Proof.
      intros [k i] H. unfold member_ok in H. cbn [fst snd] in H.
      destruct env_facts as [_ [[D1 [D2 [D3 [D4 D5]]]] _]].
      unfold read_member, enc_member. cbn [fst snd]. rewrite Hg, Hr, Hs, Hp.
      apply orb_true_iff in H. destruct H as [H|H]; [apply orb_true_iff in H; destruct H as [H|H]|].
      - apply andb_true_iff in H. destruct H as [Hk Hi]. apply Z.eqb_eq in Hk. subst k. apply str_mem_In in Hi.
        cbn [Z.eqb Pos.eqb].
        rewrite (not_in_by_head (fun g => enc_grp (gr_id g)) (enc_m i) groups (head_of (e_pgrp E)));
          [|rewrite head_enc_m; exact D2|intros; apply head_enc_grp].
        rewrite (not_in_by_head enc_g (enc_m i) gids (head_of (e_pg E)));
          [|rewrite head_enc_m; intros Heq; apply D4; symmetry; exact Heq|intros; apply head_enc_g].
        rewrite andb_false_r.
        rewrite (not_in_by_head enc_r (enc_m i) rids (head_of (e_pr E)));
          [|rewrite head_enc_m; exact D1|intros; apply head_enc_r].
        rewrite (str_mem_map enc_m mids i Hi). rewrite (dec_enc_m i (Hmids i Hi)). reflexivity.
      - apply andb_true_iff in H. destruct H as [Hk Hi]. apply Z.eqb_eq in Hk. subst k. apply str_mem_In in Hi.
        cbn [Z.eqb Pos.eqb].
        rewrite (not_in_by_head (fun g => enc_grp (gr_id g)) (enc_r i) groups (head_of (e_pgrp E)));
          [|rewrite head_enc_r; exact D3|intros; apply head_enc_grp].
        rewrite (not_in_by_head enc_g (enc_r i) gids (head_of (e_pg E)));
          [|rewrite head_enc_r; intros Heq; apply D5; symmetry; exact Heq|intros; apply head_enc_g].
        rewrite andb_false_r.
        rewrite (str_mem_map enc_r rids i Hi). rewrite (dec_enc_r i (Hrids i Hi)). reflexivity.
      - rewrite !andb_true_iff in H. destruct H as [[[Hk He] Hi] Hn]. apply Z.eqb_eq in Hk. subst k.
        apply str_mem_In in Hi. apply negb_true_iff in Hn. rewrite map_map in Hn.
        cbn [Z.eqb]. rewrite Hn, He. rewrite (str_mem_map enc_g gids i Hi). cbn [andb].
        rewrite (dec_enc_g i (Hgids i Hi)). reflexivity.
    Qed.

    Lemma read_group_ok : forall g, group_ok dec E mids rids gids (map gr_id groups) g = true ->
      read_group undec E d (write_group dec E g) = Ok (norm_group g).
    Proof.
      intros g H. unfold group_ok in H. apply andb_true_iff in H. destruct H as [H1 H2].
      unfold read_group, write_group. cbn [dg_id dg_name dg_kind dg_members].
      rewrite (req_ok _ (enc_grp_ne _)). cbn [bind].
      rewrite (mapM_ok (read_member undec E d) (enc_member dec E) (fun p => [p]) (gr_members g)).
      - cbn [bind]. rewrite concat_singletons, (dec_enc_grp _ H1). reflexivity.
      - intros p Hp'. apply read_member_ok. rewrite forallb_forall in H2. apply H2. exact Hp'.
    Qed.
  End Groups.

  (* ---------------------------------------------------------------- the document *)
  Lemma sort_by_nil {A} (k : A -> str) : sort_by k [] = [].
  Proof. reflexivity. Qed.

  Theorem sbml_doc_roundtrip : forall c m,
    sbml_ok dec wnum clean E c m = true -> roundtrip dec undec wnum clean E c m = Ok (norm dec E m).
  Proof.
    intros c [mid mname mets rxns genes comps mx groups] H. unfold sbml_ok in H.
    cbn [sm_id sm_name sm_mets sm_rxns sm_genes sm_comps sm_max sm_groups] in H.
    rewrite !andb_true_iff in H. destruct H as [[[[[[[H1 H2] H3] H4] H5] H6] H7] H8].
    set (mids := map m_id mets) in *. set (gids := map g_id genes) in *. fold (rids_of rxns) in H6, H7.
    assert (Nr : NoDup (rids_of rxns)) by (apply nodupb_NoDup; exact H6).
    assert (Hmids : forall k, In k mids -> sid_ok (e_pm E) k = true).
    { intros k Hk. apply in_map_iff in Hk. destruct Hk as [x [<- Hx]]. rewrite forallb_forall in H1.
      apply (met_ok_facts x (H1 x Hx)). }
    assert (Hgids : forall g, In g gids -> gene_sid_ok dec E g = true).
    { intros g Hg. apply in_map_iff in Hg. destruct Hg as [x [<- Hx]]. rewrite forallb_forall in H3. apply H3. exact Hx. }
    assert (Hrok : forall x, In x rxns -> sid_ok (e_pr E) (r_id (fst x)) = true).
    { intros x Hx. rewrite forallb_forall in H5. specialize (H5 x Hx). unfold rxn_ok in H5.
      rewrite !andb_true_iff in H5. tauto. }
    assert (Hrids : forall k, In k (rids_of rxns) -> sid_ok (e_pr E) k = true).
    { intros k Hk. apply in_map_iff in Hk. destruct Hk as [x [<- Hx]]. apply Hrok. exact Hx. }
    unfold roundtrip, write_doc. cbn [sm_id sm_name sm_mets sm_rxns sm_genes sm_comps sm_max sm_groups].
    rewrite (write_species_ok mets H1). cbn [bind].
    unfold read_doc.
    cbn [d_id d_name d_comps d_species d_params d_rxns d_gps d_active d_objs d_groups].
    rewrite (comps_written comps mets H1), (comps_read comps mets H1). cbn [bind].
    rewrite (read_species_ok mets H1). cbn [bind].
    rewrite (mets_nonempty mets H1). cbn [bind].
    rewrite norm_met_id. fold mids. rewrite (check_ids_ok _ H2). cbn [bind].
    rewrite no_boundary. cbn [map mapM bind].
    rewrite (read_gps_ok genes H3). cbn [bind].
    rewrite norm_gene_id. fold gids. rewrite (check_ids_ok _ H4). cbn [bind].
    change (shared_params wnum E c ++ _) with (params c rxns).
    rewrite (mapM_ok (read_rxn undec clean E c (params c rxns) mids) (write_rxn dec wnum E c) norm_rxn0 rxns).
    2:{ intros rr Hrr. apply (read_rxn_ok c mids gids rxns rr Hrr Nr Hrok Hmids Hgids).
        rewrite forallb_forall in H5. apply H5. exact Hrr. }
    cbn [bind].
    assert (Hids0 : map (fun rr : arxn * Syntax.rule => r_id (fst rr)) (map norm_rxn0 rxns) = rids_of rxns).
    { rewrite map_map. reflexivity. }
    rewrite Hids0. rewrite (check_ids_ok _ H6). cbn [bind]. cbv zeta. cbn [app map].
    rewrite (filter_all _ (map norm_rxn0 rxns)) by reflexivity.
    rewrite Hids0.
    rewrite (missing_genes_none gids).
    2:{ intros g Hg. apply in_flat_map in Hg. destruct Hg as [rr0 [Hrr0 Hg]].
        apply in_map_iff in Hrr0. destruct Hrr0 as [rr [<- Hrr]]. unfold rule_gene_ids, norm_rxn0 in Hg. cbn [snd] in Hg.
        rewrite forallb_forall in H5. specialize (H5 rr Hrr). unfold rxn_ok in H5. rewrite !andb_true_iff in H5.
        destruct H5 as [_ H9]. destruct (snd rr) as [t|]; [|contradiction]. cbn [Syntax.genes_rule] in Hg.
        apply (rule_genes_in gids t g H9 Hg). }
    rewrite sort_by_nil. cbn [map]. rewrite app_nil_r.
    unfold read_objective. cbn [d_objs d_active is_nil orb]. change (is_nil s_obj) with false. cbn [find_obj].
    rewrite str_eqb_refl.
    rewrite (objective_read rxns Nr Hrok). cbn [bind fst snd].
    rewrite (mapM_ok (read_group undec E _) (write_group dec E) norm_group groups).
    2:{ intros g Hg. apply (read_group_ok _ mids (rids_of rxns) gids groups).
        - cbn [d_groups]. rewrite map_map. reflexivity.
        - cbn [d_rxns]. unfold rids_of. rewrite !map_map. apply map_ext. intros [r rule]. reflexivity.
        - cbn [d_species]. unfold mids. rewrite !map_map. reflexivity.
        - cbn [d_gps]. unfold gids. rewrite !map_map. reflexivity.
        - exact Hmids.
        - exact Hrids.
        - exact Hgids.
        - rewrite forallb_forall in H7. apply H7. exact Hg. }
    cbn [bind].
    assert (Hgi : map gr_id (map norm_group groups) = map gr_id groups) by (rewrite map_map; reflexivity).
    rewrite Hgi, (check_ids_ok _ H8). cbn [bind].
    unfold norm. cbn [sm_id sm_name sm_mets sm_rxns sm_genes sm_comps sm_max sm_groups].
    f_equal. f_equal.
    - destruct mname as [[|a n]|]; reflexivity.
    - rewrite map_map. apply map_ext_in. intros rr Hrr. apply (with_obj_ok c mids gids rxns rr Hrr Nr).
      rewrite forallb_forall in H5. apply H5. exact Hrr.
    - rewrite (comps_dict comps mets). reflexivity.
  Qed.
End DocProofs.
