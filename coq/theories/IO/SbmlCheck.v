(* Correspondence and monitor functions for C10 (evaluated by vm_compute; nothing here is a theorem). *)
From Coq Require Import ZArith QArith List Bool String.
From Cobra.IO Require Import Str JVal DictModel DictCheck SbmlId.
From Cobra.Gen Require Import SbmlTables.
Import ListNotations.
Open Scope Z_scope.

Definition prefix_of (kind : Z) : str :=
  if kind =? 0 then sb_prefix_gene else if kind =? 1 then sb_prefix_specie
  else if kind =? 2 then sb_prefix_reaction else sb_prefix_group.

Definition m_rev (kind : Z) (s : str) : str :=
  if kind =? 0 then f_gene_rev to_dec sb_dot (prefix_of kind) s else f_rev to_dec (prefix_of kind) s.
Definition m_fwd (kind : Z) (s : str) : str :=
  if kind =? 0 then f_gene parse_dec sb_dot (prefix_of kind) s else f_fwd parse_dec (prefix_of kind) s.

(* genes: the marker __SBML_DOT__ must not occur either *)
Fixpoint contains (pat s : str) : bool :=
  match s with
  | [] => is_nil pat
  | _ :: s' => starts_with pat s || contains pat s'
  end.
Definition id_ok (kind : Z) (s : str) : bool :=
  sid_ok (prefix_of kind) s && (negb (kind =? 0) || negb (contains sb_dot (prefix_of kind ++ s))).

(* chr() accepts 0 .. 0x10FFFF *)
Definition chr_ok (s : str) : bool := forallb (fun c => (0 <=? c) && (c <=? 1114111)) s.

(* one identifier: kind, id, the implementation's _f_X_rev(id) and _f_X(_f_X_rev(id)) (or an exception) *)
Definition id_codes (k : Z * str * str * result str) : list (nat * nat) :=
  match k with
  | (kind, s, enc, dec) =>
      (if str_eqb (m_rev kind s) enc then [] else [(1%nat, 1%nat)]) ++
      (match dec with
       | Ok d => (if str_eqb (m_fwd kind enc) d then [] else [(2%nat, 1%nat)]) ++
                 (if str_eqb d s then []
                  else if id_ok kind s then [(2%nat, 2%nat)] else [(2%nat, 20%nat)])
       | Err _ => if chr_ok (m_fwd kind enc) then [(2%nat, 1%nat)] else [(2%nat, 21%nat)]
       end)
  end.

Definition s_lower := Eval compute in of_string "_lower_bound"%string.
Definition s_upper := Eval compute in of_string "_upper_bound"%string.
Definition bound_pid (c : cfg) (replace : bool) (rid : str) (upper : bool) (v : ebound) : str :=
  match create_bound c v with
  | BLower => sb_lower_bound_id | BZero => sb_zero_bound_id | BUpper => sb_upper_bound_id
  | BMinusInf => sb_minus_inf_id | BPlusInf => sb_plus_inf_id
  | BOwn _ => (if replace then m_rev 2 rid else rid) ++ (if upper then s_upper else s_lower)
  end.

(* one reaction's bounds: id, lb, ub, the parameter ids found in the written document and their values *)
Definition bound_codes (c : cfg) (replace : bool) (k : str * ebound * ebound * (str * ebound) * (str * ebound))
  : list (nat * nat) :=
  match k with
  | (rid, lb, ub, (plb, vlb), (pub, vub)) =>
      (if str_eqb (bound_pid c replace rid false lb) plb && str_eqb (bound_pid c replace rid true ub) pub
       then [] else [(3%nat, 1%nat)]) ++
      (if eb_eqb vlb lb && eb_eqb vub ub then [] else [(3%nat, 2%nat)]) ++
      (if eb_eqb (bref_value c (create_bound c lb)) lb && eb_eqb (bref_value c (create_bound c ub)) ub
       then [] else [(3%nat, 2%nat)])
  end.

Record scase := mkSCase {
  s_cfg : cfg; s_replace : bool; s_obs0 : obs;
  s_ids : list (Z * str * str * result str);
  s_bounds : list (str * ebound * ebound * (str * ebound) * (str * ebound));
  s_valid : Z;                                      (* number of validator errors on the written document *)
  s_trips : list (Z * result obs * result obs) }.

(* reading back: 2 failed; 12 failed and some lower bound is above the default upper bound (reader with
   narrow defaults); 3/4/5/6 as in C11 (4, 5 cannot be excused here: SBML stores direction; compartments
   must exist) *)
Definition strip4 (l : list nat) : list nat :=
  map (fun c => if (Nat.eqb c 4) || (Nat.eqb c 5) then 3%nat else c) l.

Definition scase_codes (k : scase) : list (nat * nat) :=
  flat_map id_codes (s_ids k) ++
  flat_map (bound_codes (s_cfg k) (s_replace k)) (s_bounds k) ++
  (if s_valid k =? 0 then [] else [(4%nat, 7%nat)]) ++
  flat_map (fun t => match t with
                     | (tag, r1, r2) =>
                         map (fun c => ((100 + Z.to_nat tag)%nat, c))
                             (match r1 with
                              | Err _ => if sb_reader_wide_default then [2%nat]
                                         else if lb_above_default (s_cfg k) (fst (s_obs0 k)) then [12%nat] else [2%nat]
                              | _ => strip4 (trip_codes (s_cfg k) false (s_obs0 k) r1)
                              end) ++
                         map (fun c => ((200 + Z.to_nat tag)%nat, c)) (again_codes r1 r2)
                     end) (s_trips k).

Definition failing (cases : list (Z * scase)) : list (Z * list (nat * nat)) :=
  flat_map (fun ic => match scase_codes (snd ic) with [] => [] | l => [(fst ic, l)] end) cases.
