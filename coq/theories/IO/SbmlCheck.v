(* Correspondence and monitor functions for C10 (evaluated by vm_compute; nothing here is a theorem). *)
From Coq Require Import ZArith QArith List Bool String.
From Cobra.IO Require Import Str JVal DictModel DictCheck SbmlId SbmlNum SbmlDoc.
From Cobra.GPR Require Syntax Escape.
From Cobra.Gen Require Import SbmlTables GprTables.
Import ListNotations.
Open Scope Z_scope.

Definition prefix_of (kind : Z) : str :=
  if kind =? 0 then sb_prefix_gene else if kind =? 1 then sb_prefix_specie
  else if kind =? 2 then sb_prefix_reaction else sb_prefix_group.

Definition m_rev (kind : Z) (s : str) : str :=
  if kind =? 0 then f_gene_rev to_dec sb_dot (prefix_of kind) s else f_rev to_dec (prefix_of kind) s.
Definition m_fwd (kind : Z) (s : str) : str :=
  if kind =? 0 then f_gene parse_dec sb_dot (prefix_of kind) s else f_fwd parse_dec (prefix_of kind) s.

(* genes: the marker __SBML_DOT__ must not occur in what is written either (SbmlDoc.gene_sid_ok) *)
Definition id_ok (kind : Z) (s : str) : bool :=
  sid_ok (prefix_of kind) s &&
  (negb (kind =? 0) || negb (contains sb_dot (prefix_of kind ++ escape to_dec s))).

(* chr() accepts 0 .. 0x10FFFF *)
Definition chr_ok (s : str) : bool := forallb (fun c => (0 <=? c) && (c <=? 1114111)) s.

(* one identifier: kind, id, the implementation's _f_X_rev(id) and _f_X(_f_X_rev(id)) (or an exception) *)
Definition id_codes (k : Z * str * str * result str) : list (nat * nat) :=
  match k with
  | (kind, s, enc, dec) =>
      (if str_eqb (m_rev kind s) enc then [] else [(1%nat, 1%nat)]) ++
      (match dec with
       | Ok d => (if str_eqb (m_fwd kind enc) d then [] else [(2%nat, 1%nat)]) ++
                 (if str_eqb d s then []
                  else if id_ok kind s then [(2%nat, 2%nat)] else [(2%nat, 20%nat)])
       | Err _ => if chr_ok (m_fwd kind enc) then [(2%nat, 1%nat)] else [(2%nat, 21%nat)]
       end)
  end.

Definition s_lower := Eval compute in of_string "_lower_bound"%string.
Definition s_upper := Eval compute in of_string "_upper_bound"%string.
Definition bound_pid (c : cfg) (replace : bool) (rid : str) (upper : bool) (v : ebound) : str :=
  match create_bound c v with
  | BLower => sb_lower_bound_id | BZero => sb_zero_bound_id | BUpper => sb_upper_bound_id
  | BMinusInf => sb_minus_inf_id | BPlusInf => sb_plus_inf_id
  | BOwn _ => (if replace then m_rev 2 rid else rid) ++ (if upper then s_upper else s_lower)
  end.

(* one reaction's bounds: id, lb, ub, the parameter ids found in the written document and their values *)
Definition bound_codes (c : cfg) (replace : bool) (k : str * ebound * ebound * (str * ebound) * (str * ebound))
  : list (nat * nat) :=
  match k with
  | (rid, lb, ub, (plb, vlb), (pub, vub)) =>
      (if str_eqb (bound_pid c replace rid false lb) plb && str_eqb (bound_pid c replace rid true ub) pub
       then [] else [(3%nat, 1%nat)]) ++
      (if eb_eqb vlb lb && eb_eqb vub ub then [] else [(3%nat, 2%nat)]) ++
      (if eb_eqb (bref_value c (create_bound c lb)) lb && eb_eqb (bref_value c (create_bound c ub)) ub
       then [] else [(3%nat, 2%nat)])
  end.

(* ---------------------------------------------------------------- the document-level model (SbmlDoc.v) *)
Definition cur_env : senv :=
  mkEnv sb_prefix_gene sb_prefix_specie sb_prefix_reaction sb_prefix_group sb_dot
        sb_lower_bound_id sb_upper_bound_id sb_zero_bound_id sb_minus_inf_id sb_plus_inf_id sb_reader_wide_default
        sb_sidmap_genes.
(* GPRCleaner.visit_Name with the tables regenerated from core/gene.py *)
Definition cur_clean : str -> str :=
  Escape.unescape_name repl_table esc_prefix_strip (Z.to_nat esc_prefix_striplen).
Definition m_write : cfg -> smodel -> result doc := write_doc to_dec wnum15 cur_env.
Definition m_read : cfg -> doc -> result smodel := read_doc parse_dec cur_clean cur_env.

Definition opt_eqb {A} (eqb : A -> A -> bool) (a b : option A) : bool :=
  match a, b with Some x, Some y => eqb x y | None, None => true | _, _ => false end.
Definition sref_eqb (a b : str * Q) : bool := str_eqb (fst a) (fst b) && Qeq_bool (snd a) (snd b).
Definition kind_eqb (a b : gkind) : bool :=
  match a, b with
  | KCollection, KCollection | KClassification, KClassification | KPartonomy, KPartonomy => true
  | _, _ => false
  end.

Definition sp_eqb (a b : dspecies) : bool :=
  str_eqb (sp_id a) (sp_id b) && str_eqb (sp_name a) (sp_name b) && str_eqb (sp_comp a) (sp_comp b) &&
  opt_eqb Z.eqb (sp_charge a) (sp_charge b) && str_eqb (sp_formula a) (sp_formula b) &&
  Bool.eqb (sp_boundary a) (sp_boundary b).
Definition param_eqb (a b : str * ebound * bool) : bool :=
  str_eqb (fst (fst a)) (fst (fst b)) && eb_eqb (snd (fst a)) (snd (fst b)) && Bool.eqb (snd a) (snd b).
(* reactants / products: document order is the (arbitrary) order of Reaction.metabolites; compared sorted *)
Definition dr_eqb (a b : dreaction) : bool :=
  str_eqb (dr_id a) (dr_id b) && str_eqb (dr_name a) (dr_name b) && Bool.eqb (dr_reversible a) (dr_reversible b) &&
  Bool.eqb (dr_fast a) (dr_fast b) && str_eqb (dr_lb a) (dr_lb b) && str_eqb (dr_ub a) (dr_ub b) &&
  list_eqb sref_eqb (sort_by fst (dr_reactants a)) (sort_by fst (dr_reactants b)) &&
  list_eqb sref_eqb (sort_by fst (dr_products a)) (sort_by fst (dr_products b)) &&
  opt_eqb Syntax.gpr_eqb (dr_assoc a) (dr_assoc b).
Definition gp_eqb (a b : str * str * str) : bool :=
  str_eqb (fst (fst a)) (fst (fst b)) && str_eqb (snd (fst a)) (snd (fst b)) && str_eqb (snd a) (snd b).
Definition dobj_eqb (a b : str * bool * list (str * Q)) : bool :=
  str_eqb (fst (fst a)) (fst (fst b)) && Bool.eqb (snd (fst a)) (snd (fst b)) && list_eqb sref_eqb (snd a) (snd b).
(* members: Group.members is a set; compared sorted *)
Definition dg_eqb (a b : dgroup) : bool :=
  str_eqb (dg_id a) (dg_id b) && str_eqb (dg_name a) (dg_name b) && opt_eqb kind_eqb (dg_kind a) (dg_kind b) &&
  list_eqb str_eqb (sort_by (fun s => s) (dg_members a)) (sort_by (fun s => s) (dg_members b)).
Definition doc_eqb (a b : doc) : bool :=
  str_eqb (d_id a) (d_id b) && str_eqb (d_name a) (d_name b) &&
  list_eqb (fun p q => str_eqb (fst p) (fst q) && str_eqb (snd p) (snd q)) (d_comps a) (d_comps b) &&
  list_eqb sp_eqb (d_species a) (d_species b) && list_eqb param_eqb (d_params a) (d_params b) &&
  list_eqb dr_eqb (d_rxns a) (d_rxns b) && list_eqb gp_eqb (d_gps a) (d_gps b) &&
  str_eqb (d_active a) (d_active b) && list_eqb dobj_eqb (d_objs a) (d_objs b) &&
  list_eqb dg_eqb (d_groups a) (d_groups b).

Definition err_eqb (a b : err) : bool :=
  match a, b with
  | EValue, EValue | EKey, EKey | EType, EType | EAttr, EAttr | EOther, EOther => true
  | _, _ => false
  end.
Definition wres_eqb (a b : result doc) : bool :=
  match a, b with Ok x, Ok y => doc_eqb x y | Err x, Err y => err_eqb x y | _, _ => false end.

(* the modelled fields of an observed model (SbmlDoc.forget), numbers by value *)
Definition met_eqb (a b : amet) : bool :=
  str_eqb (m_id a) (m_id b) && str_eqb (m_name a) (m_name b) && opt_eqb str_eqb (m_comp a) (m_comp b) &&
  opt_eqb Z.eqb (m_charge a) (m_charge b) && opt_eqb str_eqb (m_formula a) (m_formula b).
Definition rxn_eqb (a b : arxn * Syntax.rule) : bool :=
  let (x, rx) := a in let (y, ry) := b in
  str_eqb (r_id x) (r_id y) && str_eqb (r_name x) (r_name y) && list_eqb sref_eqb (r_stoich x) (r_stoich y) &&
  eb_eqb (r_lb x) (r_lb y) && eb_eqb (r_ub x) (r_ub y) && Qeq_bool (r_obj x) (r_obj y) && Syntax.rule_eqb rx ry.
Definition gene_eqb (a b : agene) : bool := str_eqb (g_id a) (g_id b) && str_eqb (g_name a) (g_name b).
Definition grp_eqb (a b : agroup) : bool :=
  str_eqb (gr_id a) (gr_id b) && str_eqb (gr_name a) (gr_name b) && kind_eqb (gr_kind a) (gr_kind b) &&
  list_eqb mem_eqb (gr_members a) (gr_members b).
(* genes the reader creates for rules naming unknown genes, and groups, come from Python sets: compared sorted *)
Definition smodel_eqb (a b : smodel) : bool :=
  opt_eqb str_eqb (sm_id a) (sm_id b) && opt_eqb str_eqb (sm_name a) (sm_name b) &&
  list_eqb met_eqb (sm_mets a) (sm_mets b) && list_eqb rxn_eqb (sm_rxns a) (sm_rxns b) &&
  list_eqb gene_eqb (sm_genes a) (sm_genes b) &&
  list_eqb (fun p q => str_eqb (fst p) (fst q) && str_eqb (snd p) (snd q)) (sm_comps a) (sm_comps b) &&
  Bool.eqb (sm_max a) (sm_max b) && list_eqb grp_eqb (sm_groups a) (sm_groups b).
(* every failure of read_sbml_model surfaces as CobraSBMLError: only "it failed" is compared *)
Definition rres_eqb (a b : result smodel) : bool :=
  match a, b with Ok x, Ok y => smodel_eqb x y | Err _, Err _ => true | _, _ => false end.

Record scase := mkSCase {
  s_cfg : cfg; s_replace : bool; s_obs0 : obs;
  s_ids : list (Z * str * str * result str);
  s_bounds : list (str * ebound * ebound * (str * ebound) * (str * ebound));
  s_valid : Z;                                      (* number of validator errors on the written document *)
  s_trips : list (Z * result obs * result obs);
  s_sm : smodel;                                    (* the model, with rule trees and groups *)
  s_written : result doc;                           (* the document cobrapy wrote, parsed with xml.etree *)
  s_readback : option (result smodel) }.            (* the model cobrapy read from it (None: not representable) *)

(* reading back: 2 failed; 12 failed and some lower bound is above the default upper bound (reader with
   narrow defaults); 3/4/5/6 as in C11 (4, 5 cannot be excused here: SBML stores direction; compartments
   must exist) *)
Definition strip4 (l : list nat) : list nat :=
  map (fun c => if (Nat.eqb c 4) || (Nat.eqb c 5) then 3%nat else c) l.

(* step 5: write_doc vs the written document; step 6: read_doc of the written document vs the model read;
   step 7: the theorem's instance -- inside sbml_ok the model's round trip is Ok (norm m) (a failure here
   means the compiled theorem and this evaluation disagree: cannot happen) and, code 2, the implementation's
   read-back is norm m as well; step 8: a written document with one SId twice is not accepted by the validator *)
Definition doc_codes (k : scase) : list (nat * nat) :=
  let c := s_cfg k in
  (match s_written k with
   | Err EUnmodelled => []                           (* a number the document record cannot hold (nan) *)
   | w => if wres_eqb (m_write c (s_sm k)) w then [] else [(5%nat, 1%nat)]
   end) ++
  (match s_written k with
   | Ok d => if negb (nodupb (core_sids d)) && (s_valid k =? 0) then [(8%nat, 1%nat)] else []
   | _ => []
   end) ++
  match s_written k, s_readback k with
  | Ok d, Some r =>
      (if rres_eqb (m_read c d) r then [] else [(6%nat, 1%nat)]) ++
      (if sbml_ok to_dec wnum15 cur_clean cur_env c (s_sm k) then
         (if rres_eqb (roundtrip to_dec parse_dec wnum15 cur_clean cur_env c (s_sm k))
                      (Ok (norm to_dec cur_env (s_sm k))) then [] else [(7%nat, 1%nat)]) ++
         (if rres_eqb r (Ok (norm to_dec cur_env (s_sm k))) then [] else [(7%nat, 2%nat)])
       else [])
  | _, _ => []
  end.

Definition scase_codes (k : scase) : list (nat * nat) :=
  flat_map id_codes (s_ids k) ++
  flat_map (bound_codes (s_cfg k) (s_replace k)) (s_bounds k) ++
  (if s_valid k =? 0 then [] else [(4%nat, 7%nat)]) ++
  doc_codes k ++
  flat_map (fun t => match t with
                     | (tag, r1, r2) =>
                         map (fun c => ((100 + Z.to_nat tag)%nat, c))
                             (match r1 with
                              | Err _ => if sb_reader_wide_default then [2%nat]
                                         else if lb_above_default (s_cfg k) (fst (s_obs0 k)) then [12%nat] else [2%nat]
                              | _ => strip4 (trip_codes (s_cfg k) false (s_obs0 k) r1)
                              end) ++
                         map (fun c => ((200 + Z.to_nat tag)%nat, c)) (again_codes r1 r2)
                     end) (s_trips k).

Definition failing (cases : list (Z * scase)) : list (Z * list (nat * nat)) :=
  flat_map (fun ic => match scase_codes (snd ic) with [] => [] | l => [(fst ic, l)] end) cases.
