(* Model of the identifier codec of cobra/io/sbml.py (_f_*_rev: every character outside
   [0-9_a-zA-Z] becomes __<ord>__, prefix added; _f_*: __<digits>__ becomes chr(digits), prefix
   clipped; genes additionally map __SBML_DOT__ to "."), of the choice of flux-bound parameters
   (_create_bound) and of the way the reader applies bounds.  Strings are lists of code points. *)
From Coq Require Import ZArith QArith List Bool Lia.
From Cobra.IO Require Import Str JVal DictModel.
Import ListNotations.
Open Scope Z_scope.

Definition is_digit (c : Z) : bool := (48 <=? c) && (c <=? 57).
(* [0-9_a-zA-Z] *)
Definition is_plain (c : Z) : bool :=
  is_digit c || (c =? 95) || ((97 <=? c) && (c <=? 122)) || ((65 <=? c) && (c <=? 90)).

(* str(int) / int(str) for non-negative numbers *)
Fixpoint to_dec_fuel (fuel : nat) (n : Z) (acc : str) : str :=
  match fuel with
  | O => acc
  | S f => let acc' := (48 + n mod 10) :: acc in
           if n <? 10 then acc' else to_dec_fuel f (n / 10) acc'
  end.
Definition to_dec (n : Z) : str := to_dec_fuel 12 n [].
Definition parse_dec (ds : str) : Z := fold_left (fun a d => 10 * a + (d - 48)) ds 0.

Section Codec.
  (* the decimal printer / parser (CPython's str(int), int(str)); the theorems only need that
     parsing what was printed gives the number back and that the print is a non-empty digit string *)
  Variable dec : Z -> str.
  Variable undec : str -> Z.

  Definition esc_char (c : Z) : str := if is_plain c then [c] else [95; 95] ++ dec c ++ [95; 95].
  Definition escape (s : str) : str := flat_map esc_char s.        (* pattern_to_sbml.sub(_escape_non_alphanum) *)

  Fixpoint span_digits (s : str) : str * str :=
    match s with
    | c :: s' => if is_digit c then let (d, r) := span_digits s' in (c :: d, r) else ([], s)
    | [] => ([], [])
    end.

  (* a match of __(\d+)__ at the head of s *)
  Definition try_esc (s : str) : option (Z * str) :=
    match s with
    | a :: b :: t =>
        if (a =? 95) && (b =? 95) then
          match span_digits t with
          | (d :: ds, e :: f :: r) => if (e =? 95) && (f =? 95) then Some (undec (d :: ds), r) else None
          | _ => None
          end
        else None
    | _ => None
    end.

  (* pattern_from_sbml.sub(_number_to_chr): leftmost non-overlapping matches *)
  Fixpoint unescape_fuel (fuel : nat) (s : str) : str :=
    match fuel with
    | O => s
    | S f => match s with
             | [] => []
             | c :: s' => match try_esc s with
                          | Some (n, r) => n :: unescape_fuel f r
                          | None => c :: unescape_fuel f s'
                          end
             end
    end.
  Definition unescape (s : str) : str := unescape_fuel (S (length s)) s.

  Fixpoint starts_with (p s : str) : bool :=
    match p, s with
    | [], _ => true
    | a :: p', b :: s' => (a =? b) && starts_with p' s'
    | _, [] => false
    end.
  Definition clip (s p : str) : str := if starts_with p s then skipn (length p) s else s.

  (* str.replace(old, new) for a non-empty old *)
  Fixpoint replace_fuel (fuel : nat) (old new s : str) : str :=
    match fuel with
    | O => s
    | S f => match s with
             | [] => []
             | c :: s' => if starts_with old s then new ++ replace_fuel f old new (skipn (length old) s)
                          else c :: replace_fuel f old new s'
             end
    end.
  Definition replace (old new s : str) : str := replace_fuel (S (length s)) old new s.

  Definition f_rev (prefix s : str) : str := prefix ++ escape s.                   (* _f_specie_rev, _f_reaction_rev, _f_group_rev *)
  Definition f_fwd (prefix s : str) : str := clip (unescape s) prefix.             (* _f_specie, _f_reaction, _f_group *)
  Definition f_gene_rev (dot prefix s : str) : str := prefix ++ replace [46] dot (escape s).
  Definition f_gene (dot prefix s : str) : str := clip (unescape (replace dot [46] s)) prefix.

  (* the precondition of the round trip: in prefix ++ s no "__" is followed by a digit *)
  Definition starts_esc (w : str) : bool :=
    match w with a :: b :: d :: _ => (a =? 95) && (b =? 95) && is_digit d | _ => false end.
  Fixpoint no_esc (w : str) : bool :=
    match w with
    | [] => true
    | _ :: w' => negb (starts_esc w) && no_esc w'
    end.
  Definition sid_ok (prefix s : str) : bool := no_esc (prefix ++ s) && forallb is_plain prefix.
End Codec.

(* ---------------------------------------------------------------- flux-bound parameters *)
Inductive bref := BLower | BZero | BUpper | BMinusInf | BPlusInf | BOwn (v : ebound).

Definition eb_eqb (a b : ebound) : bool :=
  match a, b with
  | NegInf, NegInf | PosInf, PosInf => true
  | Fin x, Fin y => Qeq_bool x y
  | _, _ => false
  end.

(* _create_bound: which parameter a bound refers to *)
Definition create_bound (c : cfg) (v : ebound) : bref :=
  if eb_eqb v (Fin (c_lb c)) then BLower
  else if eb_eqb v (Fin 0) then BZero
  else if eb_eqb v (Fin (c_ub c)) then BUpper
  else if eb_eqb v NegInf then BMinusInf
  else if eb_eqb v PosInf then BPlusInf
  else BOwn v.

(* the value of the parameter (the five shared ones are created by _model_to_sbml) *)
Definition bref_value (c : cfg) (r : bref) : ebound :=
  match r with
  | BLower => Fin (c_lb c) | BZero => Fin 0 | BUpper => Fin (c_ub c)
  | BMinusInf => NegInf | BPlusInf => PosInf | BOwn v => v
  end.

(* the reader: Reaction(rid) [bounds 0, cfg.ub] or Reaction(rid, -inf, inf), then lower_bound = .., upper_bound = .. *)
Definition read_bounds (wide : bool) (c : cfg) (lb ub : ebound) : result (ebound * ebound) :=
  let ub0 := if wide then PosInf else Fin (c_ub c) in
  _ <- check_bounds lb ub0 ;; _ <- check_bounds lb ub ;; Ok (lb, ub).

(* stoichiometry: a negative coefficient becomes a reactant with its absolute value, a positive one a
   product; the reader subtracts reactants from and adds products to 0 *)
Definition export_coef (q : Q) : bool * Q := if Qle_bool 0 q then (true, q) else (false, Qopp q).
Definition import_coef (p : bool * Q) : Q := if fst p then Qplus 0 (snd p) else Qminus 0 (snd p).
