(* Saving the loaded model again gives the same document; a second trip returns the same model;
   the round trip stated on the public compartment table (no assumption on the private one).  *)
From Coq Require Import ZArith QArith List Bool Lia Permutation.
From Cobra.IO Require Import Str StrOrder JVal DictModel DictProofs DictComps.
Import ListNotations.
Open Scope Z_scope.

(* ------------------------------------------------------------------ the saved document, explicitly *)
Lemma met_to_dict_ok : forall b x, met_to_dict (ref_tables b) x = Ok (JDict (met_items x)).
Proof. intros b x. destruct x. reflexivity. Qed.
Lemma gene_to_dict_ok : forall b x, gene_to_dict (ref_tables b) x = Ok (JDict (gene_items x)).
Proof. intros b x. destruct x. reflexivity. Qed.
Lemma rxn_to_dict_ok : forall b x, rxn_to_dict (ref_tables b) x = Ok (JDict (rxn_items x)).
Proof. intros b x. destruct x. reflexivity. Qed.

(* compartment None and compartment "" are saved alike *)
Lemma met_items_norm : forall x, met_items (norm_met x) = met_items x.
Proof. intros x. destruct x as [i n [c|] ch f bd nt an]; reflexivity. Qed.

Lemma fix_type_comps : forall l, fix_type (comps_val l) = comps_val (dsort l).
Proof.
  intros l. unfold comps_val, fix_type. f_equal. unfold dsort.
  apply (sort_by_map (fun p : str * str => (fst p, JStr (snd p))) fst fst). reflexivity.
Qed.

Definition model_opt (b : bool) (m : amodel) : result (list (str * jval)) :=
  update_optional (model_getattr m) (t_opt_model_defaults (ref_tables b)) (t_opt_model_keys (ref_tables b)).

(* the optional model attributes only depend on the name, the notes, the annotation and the sorted
   public compartment table *)
Lemma model_opt_congr : forall b m m',
  a_name m = a_name m' -> a_notes m = a_notes m' -> a_annot m = a_annot m' ->
  dsort (public_comps m) = dsort (public_comps m') -> model_opt b m = model_opt b m'.
Proof.
  intros b m m' H1 H2 H3 H4. unfold model_opt, ref_tables.
  cbn -[jval_eqb fix_type comps_val dsort is_null].
  rewrite !comps_default, !fix_type_comps, H1, H2, H3, H4. reflexivity.
Qed.

Definition doc_lists (s : bool) (m : amodel) : list (str * jval) :=
  [(k_metabolites, JList (map (fun x => JDict (met_items x)) (srt s m_id (a_mets m))));
   (k_reactions, JList (map (fun x => JDict (rxn_items x)) (srt s r_id (a_rxns m))));
   (k_genes, JList (map (fun x => JDict (gene_items x)) (srt s g_id (a_genes m))));
   (k_id, opt_str (a_id m))].

Lemma to_dict_form : forall b s m,
  to_dict (ref_tables b) s m = (opt <- model_opt b m ;; Ok (JDict (doc_lists s m ++ opt))).
Proof.
  intros b s m. unfold to_dict, model_opt.
  rewrite (mapM_map (met_to_dict (ref_tables b)) (fun x => JDict (met_items x)))
    by (intros; apply met_to_dict_ok).
  rewrite (mapM_map (rxn_to_dict (ref_tables b)) (fun x => JDict (rxn_items x)))
    by (intros; apply rxn_to_dict_ok).
  rewrite (mapM_map (gene_to_dict (ref_tables b)) (fun x => JDict (gene_items x)))
    by (intros; apply gene_to_dict_ok).
  cbn [bind].
  rewrite (srt_map s (fun x => JDict (met_items x)) jid m_id jid_met).
  rewrite (srt_map s (fun x => JDict (rxn_items x)) jid r_id jid_rxn).
  rewrite (srt_map s (fun x => JDict (gene_items x)) jid g_id jid_gene).
  reflexivity.
Qed.

(* saving never fails (for the reference tables) *)
Lemma to_dict_total : forall b s m, exists d, to_dict (ref_tables b) s m = Ok d.
Proof.
  intros b s m. rewrite to_dict_form. unfold model_opt, ref_tables.
  cbn -[jval_eqb fix_type comps_val dsort is_null]. eexists. reflexivity.
Qed.

Lemma doc_lists_rt : forall s m, doc_lists s (rt s m) = doc_lists s m.
Proof.
  intros s m. unfold doc_lists. cbn [rt a_mets a_rxns a_genes a_id].
  rewrite srt_norm, !srt_idem, map_map.
  rewrite (map_ext (fun x => JDict (met_items (norm_met x))) (fun x => JDict (met_items x)))
    by (intros x; rewrite met_items_norm; reflexivity).
  reflexivity.
Qed.

Lemma doc_lists_sorted : forall s m, doc_lists s (sorted_model s m) = doc_lists s m.
Proof. intros s m. unfold doc_lists. cbn [sorted_model a_mets a_rxns a_genes a_id]. rewrite !srt_idem. reflexivity. Qed.

(* what one trip returns is saved as the same document (no validity needed: this is about saving) *)
Theorem to_dict_rt : forall b s m, comps_closed m = true ->
  to_dict (ref_tables b) s (rt s m) = to_dict (ref_tables b) s m.
Proof.
  intros b s m Hc. rewrite !to_dict_form, doc_lists_rt.
  rewrite (model_opt_congr b (rt s m) m); auto using comps_fix.
Qed.

Theorem to_dict_sorted : forall b s m,
  to_dict (ref_tables b) s (sorted_model s m) = to_dict (ref_tables b) s m.
Proof.
  intros b s m. rewrite !to_dict_form, doc_lists_sorted.
  rewrite (model_opt_congr b (sorted_model s m) m); auto using comps_sorted.
Qed.

(* ------------------------------------------------------------------ consequences *)
Section Resave.
  Variable G : gpr_api.
  Variable C : cfg.

  (* "saving the loaded model again gives the same document" *)
  Theorem resave : forall T s m d m',
    tables_ok T = true -> valid G m = true -> model_loadable C (t_bounds_at_once T) m = true ->
    comps_closed m = true ->
    to_dict T s m = Ok d -> from_dict G T C d = Ok m' -> to_dict T s m' = Ok d.
  Proof.
    intros T s m d m' HT Hv HL Hc Hd Hm.
    destruct (roundtrip G C T s m HT Hv HL) as [d0 [E1 E2]].
    rewrite Hd in E1. inversion E1; subst d0. rewrite Hm in E2. inversion E2; subst m'.
    assert (ET := tables_ok_eq T HT). revert Hd. rewrite ET. intros Hd.
    rewrite to_dict_rt by exact Hc. exact Hd.
  Qed.

  Theorem resave_ex : forall T s m,
    tables_ok T = true -> valid G m = true -> model_loadable C (t_bounds_at_once T) m = true ->
    comps_closed m = true ->
    exists d m', to_dict T s m = Ok d /\ from_dict G T C d = Ok m' /\ to_dict T s m' = Ok d.
  Proof.
    intros T s m HT Hv HL Hc. destruct (roundtrip G C T s m HT Hv HL) as [d [E1 E2]].
    exists d, (rt s m). repeat split; auto. eapply resave; eauto.
  Qed.

  (* a second trip returns the same model again *)
  Theorem dict_idempotent : forall T s m,
    tables_ok T = true -> valid G m = true -> model_loadable C (t_bounds_at_once T) m = true ->
    comps_closed m = true ->
    exists d, to_dict T s (rt s m) = Ok d /\ from_dict G T C d = Ok (rt s m).
  Proof.
    intros T s m HT Hv HL Hc.
    destruct (roundtrip G C T s (rt s m) HT (valid_rt G s m Hv) (loadable_rt C _ s m HL)) as [d [E1 E2]].
    exists d. rewrite (rt_idem s m Hc) in E2. auto.
  Qed.

  (* the round trip without any assumption on the private compartment table: everything but that
     table comes back unchanged, and the public table (Model.compartments) is the same *)
  Theorem roundtrip_public : forall T s m,
    tables_ok T = true -> valid G m = true -> model_loadable C (t_bounds_at_once T) m = true ->
    dir_max m = true -> comps_some m = true ->
    exists d m', to_dict T s m = Ok d /\ from_dict G T C d = Ok m' /\
      set_comps m' (a_comps m) = sorted_model s m /\
      dsort (public_comps m') = dsort (public_comps (sorted_model s m)) /\
      to_dict T s m' = Ok d.
  Proof.
    intros T s m HT Hv HL H1 H2. destruct (roundtrip G C T s m HT Hv HL) as [d [E1 E2]].
    exists d, (rt s m). repeat split; auto.
    - destruct m as [mi mn mets rxns genes comps nt an mx].
      unfold rt, set_comps, sorted_model, dir_max, comps_some in *.
      cbn [a_mets a_rxns a_genes a_id a_name a_notes a_annot a_max a_comps] in *.
      rewrite (norm_met_some (srt s m_id mets)) by (eapply forallb_perm; [apply srt_perm|exact H2]).
      subst mx. reflexivity.
    - rewrite comps_sorted. apply comps_fix. apply comps_some_closed. exact H2.
    - eapply resave; eauto. apply comps_some_closed. exact H2.
  Qed.

  (* corollary of the identity: under its hypotheses the second document is the first *)
  Theorem roundtrip_resave : forall T s m,
    tables_ok T = true -> valid G m = true -> model_loadable C (t_bounds_at_once T) m = true ->
    dir_max m = true -> comps_some m = true -> comps_canonical m ->
    exists d, to_dict T s m = Ok d /\ from_dict G T C d = Ok (sorted_model s m) /\
              to_dict T s (sorted_model s m) = Ok d.
  Proof.
    intros T s m HT Hv HL H1 H2 H3. destruct (roundtrip G C T s m HT Hv HL) as [d [E1 E2]].
    exists d. rewrite <- (rt_sorted s m H1 H2 H3). repeat split; auto.
    eapply resave; eauto. apply comps_some_closed. exact H2.
  Qed.
End Resave.
