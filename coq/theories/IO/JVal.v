(* JSON-like values (what model_to_dict produces and model_from_dict consumes) and the Python
   values of object attributes before `_fix_type` (the same type; JInf only occurs there).   *)
From Coq Require Import ZArith QArith List Bool.
From Cobra.IO Require Import Str.
Import ListNotations.
Open Scope Z_scope.

Inductive jval :=
| JNull
| JBool (b : bool)
| JNum (q : Q)                    (* Python int or finite float; 1 and 1.0 are not distinguished *)
| JInf (neg : bool)               (* float("inf") / float("-inf") as attribute values only *)
| JStr (s : str)
| JList (l : list jval)
| JDict (l : list (str * jval)).  (* insertion-ordered *)

Definition dict := list (str * jval).

Fixpoint lookup {A} (k : str) (l : list (str * A)) : option A :=
  match l with
  | [] => None
  | (k', v) :: l' => if str_eqb k k' then Some v else lookup k l'
  end.

Definition has_key {A} (k : str) (l : list (str * A)) : bool :=
  match lookup k l with Some _ => true | None => false end.

Definition q_eqb (a b : Q) : bool := Qeq_bool a b.
Definition q_is_zero (a : Q) : bool := (Qnum a =? 0).

(* structural equality, numbers compared by value (Python ==); used by the default test of
   _update_optional and by the correspondence check *)
Fixpoint jval_eqb (a b : jval) {struct a} : bool :=
  match a, b with
  | JNull, JNull => true
  | JBool x, JBool y => Bool.eqb x y
  | JNum x, JNum y => q_eqb x y
  | JInf x, JInf y => Bool.eqb x y
  | JStr x, JStr y => str_eqb x y
  | JList x, JList y =>
      (fix go (x y : list jval) {struct x} : bool :=
         match x, y with
         | [], [] => true
         | u :: x', v :: y' => jval_eqb u v && go x' y'
         | _, _ => false
         end) x y
  | JDict x, JDict y =>
      (fix go (x : list (str * jval)) (y : list (str * jval)) {struct x} : bool :=
         match x, y with
         | [], [] => true
         | (k, u) :: x', (k', v) :: y' => str_eqb k k' && jval_eqb u v && go x' y'
         | _, _ => false
         end) x y
  | _, _ => false
  end.

Definition dict_eqb (a b : dict) : bool := jval_eqb (JDict a) (JDict b).

(* Python dicts compare without regard to order; dict-valued attributes are kept sorted by key
   (the canonical representative) and `dsort` canonicalises a loaded dict. *)
Definition dsort {A} (l : list (str * A)) : list (str * A) := sort_by fst l.
Definition dsorted {A} (l : list (str * A)) : bool := ssorted_by fst l.

Lemma dsort_id {A} : forall l : list (str * A), dsorted l = true -> dsort l = l.
Proof. intros l H. apply sort_sorted_id. apply ssorted_sorted. exact H. Qed.

Definition is_nil {A} (l : list A) : bool := match l with [] => true | _ => false end.
